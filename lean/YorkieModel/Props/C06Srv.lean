/-
C06, server side of snapshots  (model: Model/ServerSnap.lean on top of Model/Server.lean; tie: engine `srv`).

Clause "a change created after its author applied `d` dominates `d`" (`C06.change_causal`) speaks about what a
replica APPLIED.  A snapshot-fed replica applies a whole log prefix at once and takes its clock from the vector
the server hands out with the snapshot (`ChangeID.setClocks`), so C06 needs, at system level, that this vector
covers every clock-carrying change the snapshot contains.  The server's documents are `syncClocks` folds started
from a stored snapshot row or from the cached document, hence an invariant of the snapshot store:

  * `snapshot_document_covers`  – for EVERY cache state, every stored-snapshot table that is sound, every
    `serverSeq`: the document `BuildInternalDocForServerSeq` returns (and caches) dominates every row up to its
    checkpoint, and the store stays sound;
  * `snapshot_response_covers`  – so does the vector of a snapshot response, including the requester's own pushed
    changes (`pullSnapshot` applies them before it reads the vector);
  * `stored_snapshot_sound_partial` – the row `storeSnapshot` appends is sound again PROVIDED it stores the rebuilt
    document's vector: some client has a `versionvectors` row at store time, or the candidate fix is in
    (`dropVectorWithoutRows = false`).

FULL statement ("`SoundStore` is preserved by every `storeSnapshot`") is FALSE of the tree as it is:
`CreateSnapshotInfo` stores an empty vector when no client has a `versionvectors` row.
`stored_vector_dropped_witness` is a concrete log on which the stored row is unsound and the vector of the next
snapshot response has no entry for an actor whose change the snapshot contains (known finding
`c06-snapshot-vector-dropped`, replayed on the real server by corpus/C06/srv-snapshot-vector-dropped.trace).
-/
import YorkieModel.Lemmas.ServerSnap
namespace Yorkie.Props.C06Srv
open Yorkie Yorkie.Server Yorkie.ServerSnap
open Yorkie.Props.C06 (Inv)

theorem snapshot_document_covers (log : List Row) (sn : Snaps) (seq : Int)
    (hpos : ∀ row ∈ log, 0 < row.serverSeq) (hlog : ∀ row ∈ log, Inv (rowId row)) (hs : SoundStore log sn) :
    Covers log (buildDoc sn log seq).2 ∧ SoundStore log (buildDoc sn log seq).1 :=
  buildDoc_covers log sn seq hpos hlog hs

theorem snapshot_response_covers (log : List Row) (doc : SDoc) (req : List ChangeReq) (c : ClientId)
    (hdoc : Covers log doc) (hreq : ∀ x ∈ req, Inv (reqId x)) :
    (∀ row ∈ log, row.serverSeq ≤ doc.serverSeq → (rowId row).hasClocks = true →
      VV.le row.vv (snapshotRespVV doc req c false)) ∧
    (∀ x ∈ req, (reqId x).hasClocks = true → VV.le x.vv (snapshotRespVV doc req c false)) :=
  snapshotResp_covers log doc req c hdoc hreq

/-- the two together: whatever the cache holds, the vector a GC-participating requester gets with a snapshot
built at `seq` dominates the vector of every clock-carrying row of the log up to `seq` -/
theorem snapshot_vector_covers_prefix (log : List Row) (sn : Snaps) (seq : Int) (req : List ChangeReq) (c : ClientId)
    (hpos : ∀ row ∈ log, 0 < row.serverSeq) (hlog : ∀ row ∈ log, Inv (rowId row)) (hs : SoundStore log sn)
    (hreq : ∀ x ∈ req, Inv (reqId x)) :
    ∀ row ∈ log, row.serverSeq ≤ seq → (rowId row).hasClocks = true →
      VV.le row.vv (snapshotRespVV (buildDoc sn log seq).2 req c false) := by
  intro row hrow hle hcl
  have hc := (buildDoc_covers log sn seq hpos hlog hs).1
  refine (snapshotResp_covers log _ req c hc hreq).1 row hrow ?_ hcl
  simp only [buildDoc, applyRows]
  exact Int.le_trans hle (Int.le_max_right _ _)

theorem stored_snapshot_sound_partial (log : List Row) (sn : Snaps) (head interval : Int) (hasRow : Bool)
    (hpos : ∀ row ∈ log, 0 < row.serverSeq) (hlog : ∀ row ∈ log, Inv (rowId row)) (hs : SoundStore log sn)
    (hkeep : hasRow = true ∨ dropVectorWithoutRows = false) :
    SoundStore log (storeSnapshot sn log head interval hasRow) :=
  storeSnapshot_sound log sn head interval hasRow hpos hlog hs hkeep

/-- NEGATION WITNESS (tree as it is): nobody is attached when the snapshot of `witnessLog` is stored – the stored
row has an empty vector, the next snapshot response has vector `{0:3}` without actor 7 although the snapshot
contains its change with lamport 1, and the store is not sound. -/
theorem stored_vector_dropped_witness :
    (witnessStore.rows.map (fun r => (r.serverSeq, r.lamport, r.vv))) = [(3, 2, [])] ∧
    snapshotRespVV (buildDoc witnessStore witnessLog 3).2 [] 9 false = [(0, 3)] ∧
    (snapshotRespVV (buildDoc witnessStore witnessLog 3).2 [] 9 false).get? 7 = none ∧
    ¬ SoundStore witnessLog witnessStore :=
  ServerSnap.stored_vector_dropped_witness

/-- non-vacuity of the hypotheses: the empty store is sound for every log, and with a client attached at store
time the witness log gives a sound, non-empty store whose snapshot response covers actor 7 -/
example (log : List Row) : SoundStore log {} :=
  ⟨fun r h => by simp at h, fun d h => by simp at h⟩

example :
    (storeSnapshot {} witnessLog 3 1 true).rows.map (fun r => (r.serverSeq, r.lamport, r.vv)) = [(3, 2, [(0, 2), (7, 1)])] ∧
    (snapshotRespVV (buildDoc (storeSnapshot {} witnessLog 3 1 true) witnessLog 3).2 [] 9 false).get? 7 = some 1 ∧
    (∀ row ∈ witnessLog, 0 < row.serverSeq) ∧ (∀ row ∈ witnessLog, Inv (rowId row)) := by
  refine ⟨by decide, by decide, by decide, ?_⟩
  intro row hrow
  simp only [witnessLog, List.mem_cons, List.not_mem_nil, or_false] at hrow
  rcases hrow with rfl | rfl | rfl <;>
    refine ⟨?_, by decide⟩ <;> intro a x hx <;> simp [rowId, VV.get?] at hx
  obtain ⟨_, rfl⟩ := hx
  decide

end Yorkie.Props.C06Srv
