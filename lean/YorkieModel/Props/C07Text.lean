/-
C07 (text part): a LOCAL `Text.Edit(from, to, content)` refines the sequential specification
"splice of the visible UTF-16 string", in every reachable block list of any size (tombstones, split
nodes, any chunking).

Model: Model/Text.lean (block-level, faithful to pkg/document/crdt/{rga_tree_split,text,rht}.go);
tie: engine `text` (harness/eng_text.go ↔ Driver/TextEngine.lean). The index structures (splay tree
`treeByIndex`, LLRB `treeByID`) enter through their sequential specifications `posOfIndex` /
`findFloor`; their refinement proofs are separate.

The full statement one would like,
    visible s' = (visible s).take from ++ content ++ (visible s).drop to,                    (★)
is FALSE of the Go code: `TextValue.Split` re-decodes both halves through a Go string, so a cut
inside a surrogate pair replaces both halves by U+FFFD (`text_edit_spec_witness`). What holds for
every input is (★) with both kept pieces passed through that round trip (`text_edit_spec`), and (★)
itself whenever neither index cuts a surrogate pair (`text_edit_spec_partial`, decidable side
condition `Aligned`).
-/
import YorkieModel.Lemmas.Text
namespace Yorkie.Props.C07Text
open Yorkie Yorkie.Text

/-- every block list reachable by successful Edit/Style operations (local or remote, any version
    vector, any positions) with fresh tickets satisfies the invariant -/
theorem wf_reachable {s : TextSt} (h : Reach s) : WF s := reach_wf h

/-- `wf_edit`: one (local or remote) edit step preserves the invariant -/
theorem wf_edit {s s' : TextSt} (wf : WF s) {fr to : Pos} {content : List Nat}
    {attrs : List (String × String)} {ts : Ticket} {vv : Option VV} (hfresh : Fresh s ts)
    (hc : Fixed content) (h : edit fr to content attrs ts vv s = .ok s') : WF s' :=
  Text.wf_edit wf hfresh hc h

/-- `wf_style`: one (local or remote) Style operation (set and/or remove) preserves the invariant -/
theorem wf_style {s s' : TextSt} (wf : WF s) {fr to : Pos} {attrs : List (String × String)}
    {keys : List String} {ts : Ticket} {vv : Option VV}
    (h : styleOp fr to attrs keys ts vv s = .ok s') : WF s' :=
  wf_styleOp wf h

/-- contents coming from a Go string are well-formed UTF-16 (hypothesis `Fixed content` of `wf_edit`) -/
theorem content_fixed (str : String) : Fixed (unitsOfString str) := fixed_unitsOfString str

/-- tickets issued locally are `Newer`: a Lamport value above everything in the text, or the same
    change (same Lamport and actor) with a larger delimiter -/
theorem newer_local {s : TextSt} {ts : Ticket}
    (h : ∀ n ∈ s, n.id.1.lamport < ts.lamport ∨
      (n.id.1.lamport = ts.lamport ∧ n.id.1.actor = ts.actor ∧ n.id.1.delim < ts.delim)) :
    Newer s ts := newer_of_lamport h

/-- every index inside the visible text has a position (`CreateRange` does not fail) -/
theorem posOfIndex_total {s : TextSt} (wf : WF s) {i : Nat} (h : i ≤ (visible s).length) :
    ∃ p, posOfIndex s i = some p := posOfIndex_isSome wf h

/-- a local edit inside the visible text never fails -/
theorem text_edit_ok {s : TextSt} (wf : WF s) {ts : Ticket} (nw : Newer s ts) {fr to : Nat}
    (hft : fr ≤ to) (hto : to ≤ (visible s).length) (content : List Nat)
    (attrs : List (String × String)) :
    ∃ pf pt s', posOfIndex s fr = some pf ∧ posOfIndex s to = some pt ∧
      edit pf pt content attrs ts none s = .ok s' := by
  obtain ⟨pf, hpf⟩ := posOfIndex_isSome wf (Nat.le_trans hft hto)
  obtain ⟨pt, hpt⟩ := posOfIndex_isSome wf hto
  obtain ⟨s', h, _⟩ := edit_local_spec wf nw (vv := none) rfl hft hto hpf hpt content attrs
  exact ⟨pf, pt, s', hpf, hpt, h⟩

/-- **Sequential specification of the local edit.** For every well-formed block list, every
    ticket newer than the text and every range inside the visible text: the visible string after
    `Edit(from, to, content)` is the splice, the two kept pieces having passed through a Go string. -/
theorem text_edit_spec {s s' : TextSt} (wf : WF s) {ts : Ticket} (nw : Newer s ts) {fr to : Nat}
    (hft : fr ≤ to) (hto : to ≤ (visible s).length) {pf pt : Pos}
    (hpf : posOfIndex s fr = some pf) (hpt : posOfIndex s to = some pt) {content : List Nat}
    {attrs : List (String × String)} (h : edit pf pt content attrs ts none s = .ok s') :
    visible s' = sanitize ((visible s).take fr) ++ content ++ sanitize ((visible s).drop to) := by
  obtain ⟨s'', h', hv⟩ := edit_local_spec wf nw (vv := none) rfl hft hto hpf hpt content attrs
  rw [h] at h'; injection h' with e; subst e; exact hv

/-- (★) itself, when neither index cuts a surrogate pair (e.g. always for BMP-only text) -/
theorem text_edit_spec_partial {s s' : TextSt} (wf : WF s) {ts : Ticket} (nw : Newer s ts)
    {fr to : Nat} (hft : fr ≤ to) (hto : to ≤ (visible s).length) {pf pt : Pos}
    (hpf : posOfIndex s fr = some pf) (hpt : posOfIndex s to = some pt) {content : List Nat}
    {attrs : List (String × String)} (h : edit pf pt content attrs ts none s = .ok s')
    (afr : Aligned (visible s) fr) (ato : Aligned (visible s) to) :
    visible s' = (visible s).take fr ++ content ++ (visible s).drop to := by
  rw [text_edit_spec wf nw hft hto hpf hpt h, afr.1, ato.2]

/-- the side condition holds at every index of a text without surrogates -/
theorem aligned_bmp {v : List Nat} (h : ∀ x ∈ v, isSurr x = false) (i : Nat) : Aligned v i :=
  aligned_of_no_surr h i

/-- `length_spec`: the live length after a local edit -/
theorem length_spec {s s' : TextSt} (wf : WF s) {ts : Ticket} (nw : Newer s ts) {fr to : Nat}
    (hft : fr ≤ to) (hto : to ≤ (visible s).length) {pf pt : Pos}
    (hpf : posOfIndex s fr = some pf) (hpt : posOfIndex s to = some pt) {content : List Nat}
    {attrs : List (String × String)} (h : edit pf pt content attrs ts none s = .ok s') :
    length s' = fr + content.length + (length s - to) := by
  unfold length
  rw [text_edit_spec wf nw hft hto hpf hpt h]
  simp only [List.length_append, sanitize_length, List.length_take, List.length_drop]
  omega

/-- **`style_spec`**: a local `Text.Style(from, to, attrs)` updates the attribute register of
    exactly the visible units in `[from, to)` (by `RHT.Set` of every given pair at the call's ticket);
    the content is unchanged up to the Go-string round trip at the two cut points. -/
theorem style_spec {s s' : TextSt} (wf : WF s) {ts : Ticket} (nw : Newer s ts) {fr to : Nat}
    (hft : fr ≤ to) (hto : to ≤ (visible s).length) {pf pt : Pos}
    (hpf : posOfIndex s fr = some pf) (hpt : posOfIndex s to = some pt)
    {attrs : List (String × String)} (h : style pf pt attrs ts none s = .ok s') :
    visible s' = sanitize ((visible s).take fr) ++ sanitize (((visible s).take to).drop fr) ++
        sanitize ((visible s).drop to) ∧
    visAttrs s' = (visAttrs s).take fr ++
        (((visAttrs s).take to).drop fr).map (fun a => rhtSetAll a attrs ts) ++ (visAttrs s).drop to := by
  obtain ⟨s'', h', hv⟩ := style_local_spec wf nw (vv := none) rfl hft hto hpf hpt
    (fun a => rhtSetAll a attrs ts)
  unfold style at h
  rw [h] at h'; injection h' with e; subst e; exact hv

/-- the same for `Text.RemoveStyle` -/
theorem remove_style_spec {s s' : TextSt} (wf : WF s) {ts : Ticket} (nw : Newer s ts) {fr to : Nat}
    (hft : fr ≤ to) (hto : to ≤ (visible s).length) {pf pt : Pos}
    (hpf : posOfIndex s fr = some pf) (hpt : posOfIndex s to = some pt)
    {keys : List String} (h : removeStyle pf pt keys ts none s = .ok s') :
    visible s' = sanitize ((visible s).take fr) ++ sanitize (((visible s).take to).drop fr) ++
        sanitize ((visible s).drop to) ∧
    visAttrs s' = (visAttrs s).take fr ++
        (((visAttrs s).take to).drop fr).map (fun a => rhtRemoveAll a keys ts) ++ (visAttrs s).drop to := by
  obtain ⟨s'', h', hv⟩ := style_local_spec wf nw (vv := none) rfl hft hto hpf hpt
    (fun a => rhtRemoveAll a keys ts)
  unfold removeStyle at h
  rw [h] at h'; injection h' with e; subst e; exact hv

/-- a style call whose range does not cut a surrogate pair leaves the content alone -/
theorem style_spec_content_partial {s s' : TextSt} (wf : WF s) {ts : Ticket} (nw : Newer s ts)
    {fr to : Nat} (hft : fr ≤ to) (hto : to ≤ (visible s).length) {pf pt : Pos}
    (hpf : posOfIndex s fr = some pf) (hpt : posOfIndex s to = some pt)
    {attrs : List (String × String)} (h : style pf pt attrs ts none s = .ok s')
    (afr : Aligned (visible s) fr) (ato : Aligned (visible s) to) : visible s' = visible s := by
  rw [(style_spec wf nw hft hto hpf hpt h).1, aligned_pieces hft afr ato]

/-- the register update is last-writer-wins per key: a newer ticket installs the value … -/
theorem rht_set_self {as : List AttrNode} {k v : String} {t : Ticket}
    (h : ∀ a, attrGet as k = some a → t.after a.updatedAt = true) :
    attrGet (rhtSet as k v t) k = some ⟨k, v, t, false⟩ := rhtSet_get_self h

/-- … and leaves every other key alone -/
theorem rht_set_other {as : List AttrNode} {k v k' : String} {t : Ticket} (hk : k' ≠ k) :
    attrGet (rhtSet as k v t) k' = attrGet as k' := rhtSet_get_other hk

/-- character level (DESIGN §4): the visible string is the live projection of the cell list … -/
theorem visible_is_live_projection (s : TextSt) :
    visible s = (List.filter (fun c => c.removedAt.isNone) (expand s)).map (·.unit) :=
  visible_eq_expand s

/-- … and splitting a block changes no cell identity, tombstone or attribute (unit values only
    through the Go-string round trip at the cut) -/
theorem split_invisible_at_char_level (n : TNode) {k : Nat} (hk : k ≤ n.len) :
    (expandNode (splitMap n k n) ++ expandNode (rightPart n k)).map (fun c => (c.id, c.removedAt, c.attrs)) =
      (expandNode n).map (fun c => (c.id, c.removedAt, c.attrs)) :=
  expandNode_split_shape n hk

/-! ### concrete states: non-vacuity and the negation witness -/

def tA : Ticket := ⟨2, 1, 7⟩
def tB : Ticket := ⟨3, 1, 9⟩
def tC : Ticket := ⟨4, 2, 7⟩

/-- "ab😀cd" -/
def abcd : List Nat := [0x61, 0x62, 0xD83D, 0xDE00, 0x63, 0x64]

/-- after `Edit(0,0,"ab😀cd")` by actor 7 -/
def s1 : TextSt := [headNode, ⟨(tA, 0), abcd, none, [], none⟩]

/-- after actor 9 removed `[1,5)`: two split points and a tombstone -/
def s2 : TextSt :=
  [headNode,
   ⟨(tA, 0), [0x61], none, [], none⟩,
   ⟨(tA, 1), [0x62, 0xD83D, 0xDE00, 0x63], some tB, [], some (tA, 0)⟩,
   ⟨(tA, 5), [0x64], none, [], some (tA, 1)⟩]

theorem reach_s1 : Reach s1 :=
  Reach.edit (fr := ⟨headId, 0⟩) (to := ⟨headId, 0⟩) (content := abcd) (attrs := []) (ts := tA) (vv := none)
    Reach.init (by decide) (by decide) (by rfl)

theorem reach_s2 : Reach s2 :=
  Reach.edit (fr := ⟨(tA, 0), 1⟩) (to := ⟨(tA, 0), 5⟩) (content := []) (attrs := []) (ts := tB)
    (vv := some [(9, 3), (7, 2)]) reach_s1 (by decide) (by decide) (by rfl)

/-- the hypotheses of `text_edit_spec` hold in a state with a tombstone and split nodes … -/
example : WF s2 ∧ Newer s2 tC ∧ (1 ≤ 2 ∧ 2 ≤ (visible s2).length) ∧
    posOfIndex s2 1 = some ⟨(tA, 0), 1⟩ ∧ posOfIndex s2 2 = some ⟨(tA, 5), 1⟩ :=
  ⟨wf_reachable reach_s2, by decide, by decide, by rfl, by rfl⟩

/-- … and the edit `Edit(1,2,"X")` there replaces the "d" that follows the tombstone -/
example : (edit ⟨(tA, 0), 1⟩ ⟨(tA, 5), 1⟩ [0x58] [] tC none s2).toOption.map visible = some [0x61, 0x58] := by
  rfl

/-- `Style(0,2,{b:1})` there: both visible units (around the tombstone) get the attribute -/
example : (style ⟨headId, 0⟩ ⟨(tA, 5), 1⟩ [("b", "1")] tC none s2).toOption.map visAttrs =
    some [[⟨"b", "1", tC, false⟩], [⟨"b", "1", tC, false⟩]] := by rfl

/-- a ticket newer than a non-trivial text exists by the local rule -/
example : Newer s2 tC := newer_local (by decide)

/-- `Aligned` is satisfiable inside a text that does contain a surrogate pair … -/
example : Aligned (visible s1) 2 ∧ Aligned (visible s1) 4 := by decide
/-- … and fails exactly inside the pair -/
example : ¬ Aligned (visible s1) 3 := by decide

/-- **Negation witness for (★).** `Edit(3,3,"x")` on "ab😀cd" cuts the pair: all hypotheses of
    `text_edit_spec` hold, the edit succeeds, and the visible string is "ab�x�cd",
    not the splice "ab\uD83Dx\uDE00cd". -/
theorem text_edit_spec_witness :
    ∃ (s s' : TextSt) (ts : Ticket) (pf pt : Pos) (content : List Nat),
      WF s ∧ Newer s ts ∧ 3 ≤ (visible s).length ∧ posOfIndex s 3 = some pf ∧ posOfIndex s 3 = some pt ∧
      edit pf pt content [] ts none s = .ok s' ∧
      visible s' ≠ (visible s).take 3 ++ content ++ (visible s).drop 3 ∧
      visible s' = [0x61, 0x62, 0xFFFD, 0x78, 0xFFFD, 0x63, 0x64] :=
  ⟨s1, _, tC, ⟨(tA, 0), 3⟩, ⟨(tA, 0), 3⟩, [0x78], wf_reachable reach_s1, by decide, by decide,
    by rfl, by rfl, by rfl, by decide, by rfl⟩

end Yorkie.Props.C07Text
