/-
C08 (json layer half)  The json-layer path on the clone and the operation-executor path on the root
agree.

In the Go code a user call inside `Document.Update` does two things: it mutates the CLONE directly
(`Object.Set`, `RGATreeList.InsertAfter/MoveAfter/Set/Delete`, `Counter.Increase`) and pushes an
operation; after the callback `Change.Execute` runs the pushed operations on the ROOT, returning the
first error. In the functional model (`Model/Json.lean`) the direct mutation is by construction
`apply` of the pushed operations (`localCall`), so "clone ≡ root afterwards" has exactly one
non-trivial ingredient: the root execution must not FAIL – every operation the json layer pushes
has to be enabled on the state it is executed on (`callOps_pre`, for every call kind, in every
well-formed state). The agreement of the real direct mutation with `Execute` is what the `json`
engine compares (clone `Marshal()` after every call, root `Marshal()` after every update).
-/
import YorkieModel.Lemmas.JsonCalls
namespace Yorkie.Props.C08Json
open Yorkie Yorkie.Crdt Yorkie.Json

/-- every operation `callOps` emits – for every call kind: object set / delete, array add /
    insertAfter / delete / moveAfter / moveFront / moveLast / moveBefore / set, counter increase –
    satisfies `Pre` on the state it is applied to, and creates nothing but the issued ticket -/
theorem callOps_pre {d : Doc} {ctx : Ctx} {c : Call} {ops : List Op} {ctx' : Ctx} (hi : Inv d)
    (hd : Dom ctx d) (h : callOps d ctx c = .ok (ops, ctx')) :
    Enabled d ops ∧ (∀ op ∈ ops, ∀ i ∈ creates op, i = ctx.ticket) ∧
      (ops = [] ∧ ctx' = ctx ∨ ∃ op, ops = [op] ∧ ctx' = ctx.issue.2) := by
  unfold callOps at h
  cases hc : callOp d ctx.ticket c with
  | error e => rw [hc] at h; cases h
  | ok o =>
    rw [hc] at h
    cases o with
    | none =>
      simp only [withCtx, Except.ok.injEq, Prod.mk.injEq] at h
      obtain ⟨rfl, rfl⟩ := h
      exact ⟨trivial, by simp, Or.inl ⟨rfl, rfl⟩⟩
    | some op =>
      simp only [withCtx, Except.ok.injEq, Prod.mk.injEq] at h
      obtain ⟨rfl, rfl⟩ := h
      refine ⟨⟨callOp_pre hi hd.newer hc, trivial⟩, ?_, Or.inr ⟨op, rfl, rfl⟩⟩
      intro op' hop' i hi'
      simp only [List.mem_singleton] at hop'
      subst hop'
      exact callOp_creates hc i hi'

/-- the same for a whole updater (any number of calls in one `Update`, tickets `lamport:1..n`) -/
theorem updater_ops_enabled {root : Doc} {ctx : Ctx} {calls : List Call} {out : Out} (hi : Inv root)
    (hd : Dom ctx root) (h : runCalls root ctx calls = .ok out) : Enabled root out.ops :=
  (runCalls_sound hi hd h).2.2.1

/-- `local_eq_execute`: when the callback succeeded on the clone (a copy of the root), executing the
    pushed operations on the root – stopping at the first error, as `Change.Execute` does – hits no
    error and ends in exactly the clone's document; `Inv` and domination carry over to the next
    update -/
theorem local_eq_execute {root : Doc} {ctx : Ctx} {calls : List Call} {out : Out} (hi : Inv root)
    (hd : Dom ctx root) (h : runCalls root ctx calls = .ok out) :
    execAll root out.ops = .ok out.doc ∧ Inv out.doc ∧ Dom out.ctx out.doc := by
  obtain ⟨h1, h2, h3, h4⟩ := runCalls_sound hi hd h
  exact ⟨by rw [execAll_of_enabled h3, h4], h1, h2⟩

/-- the strict evaluation the compiled driver uses is the model's `localCall` -/
theorem driver_runs_model (b : Box) (ctx : Ctx) (c : Call) :
    (localCallB b ctx c).map (fun o => (o.doc.d, o.ctx, o.ops)) =
      (localCall b.d ctx c).map (fun o => (o.doc, o.ctx, o.ops)) := by
  have hB : ∀ (b : Box) (ops : List Op), (applyOpsB b ops).d = applyOps b.d ops := by
    intro b ops
    unfold applyOpsB applyOps
    induction ops generalizing b with
    | nil => rfl
    | cons op r ih =>
      simp only [List.foldl_cons]
      rw [ih]
      congr 1
      unfold applyB apply
      split <;> simp_all
  unfold localCallB localCall
  cases callOps b.d ctx c with
  | error e => rfl
  | ok p =>
    obtain ⟨ops, ctx'⟩ := p
    simp [Except.map, outOfB, outOf, hB]

/-! non-vacuity: an updater with five calls on the initial document; its operations execute on the
    root without error -/

def nvCalls : List Call :=
  [.setNewArr rootId "a", .addPrim ⟨1, 1, 7⟩ "1", .addPrim ⟨1, 1, 7⟩ "2",
    .arrMoveLast ⟨1, 1, 7⟩ 0, .arrSet ⟨1, 1, 7⟩ 1 (.prim "9")]

def opCount : Except Err Out → Nat
  | .ok o => o.ops.length
  | .error _ => 0

example : ∃ out, runCalls Doc.init (Ctx.begin 0 7) nvCalls = .ok out ∧
    out.ops.length = 5 ∧ execAll Doc.init out.ops = .ok out.doc := by
  have hd : Dom (Ctx.begin 0 7) Doc.init := by
    apply Dom.begin
    intro i hi
    by_cases hr : i = rootId
    · subst hr; decide
    · exact absurd ⟨hr, hi⟩ (H0 i)
  have hlen : opCount (runCalls Doc.init (Ctx.begin 0 7) nvCalls) = 5 := by decide
  cases h : runCalls Doc.init (Ctx.begin 0 7) nvCalls with
  | error e => rw [h] at hlen; cases hlen
  | ok out =>
    rw [h] at hlen
    exact ⟨out, rfl, hlen, (local_eq_execute Inv.init hd h).1⟩

end Yorkie.Props.C08Json
