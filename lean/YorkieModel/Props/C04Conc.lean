/-
C04 (concurrent half)  Per-document change log is gap-free, totally ordered, and delivered exactly
once – also when many clients push and pull the same document at the same time.

Model: Model/Conc.lean (`Step`: requests in flight with a program counter over the phases of
`Server.pushPull`, `pull(client, key)` lock table).  Helper lemmas: Lemmas/Conc*.lean.
Every theorem quantifies over EVERY interleaving: no bound on the number of clients, requests,
documents or steps (induction over `Step` / `WbReach`).

Quantifiers.  `conc_log_gapfree`, `conc_log_append_only` hold for every reachable state of `Step`
– every client behaviour, crafted packs included.  The delivery clauses are about well-behaved
clients: `WbReach` (Lemmas/ConcInv.lean) is reachability by steps in which every request satisfies
the decidable discipline `wbReq` of the sequential proof IN THE STATE IN WHICH IT STARTS (checkpoint
= the one of the last response the client received for this attachment, own unacknowledged changes
numbered consecutively, attach from a fresh Document, detach/remove only of a held document),
responses may be lost (`InFlight.lost`, fixed when the request starts), no response is a snapshot.
Like the sequential theorems they are stated for documents with presence enabled.

  clause 1  conc_log_gapfree, conc_log_append_only
  clause 2  conc_per_actor_clientSeq_ordered
  clause 3  conc_delivery_exact, conc_response_exact, conc_no_echo
  clause 4  conc_cp_monotone
  invariants  conc_inv (I3 + client-sequence half of I2/I4 + per-request records),
              conc_inv_generations (I2/I4 with requests in flight)
  refinement  conc_solo_is_sequential, conc_refines_seq_partial (scope stated there)
  window      conc_minvv_may_lead (witness)
-/
import YorkieModel.Lemmas.ConcRun
import YorkieModel.Lemmas.ConcPull
import YorkieModel.Lemmas.ConcGenMain
import YorkieModel.Lemmas.ConcSeqMain
namespace Yorkie.Props.C04Conc
open Yorkie Yorkie.Server Yorkie.Conc

/-- Clause 1, every interleaving, every client behaviour (crafted packs, forged actors, unknown
clients included): at every reachable state of the small-step system – also with requests in
flight between any two of their phases – the stored log of every document is exactly
`serverSeq = 1..N`, in order, and the document's head is `N`. -/
theorem conc_log_gapfree (cfg : Config) (σ : Sys) (h : Reachable cfg σ) (d : DocId) (doc : Doc)
    (hd : σ.srv.docs.get? d = some doc) :
    doc.log.map (·.serverSeq) = (List.range' 1 doc.log.length).map Int.ofNat ∧
    doc.serverSeq = doc.log.length := by
  have hg : GapFree doc := gapFree_after h.docsExt (fun _ _ h => by simp [Server.init] at h) d doc hd
  exact ⟨seqFrom_map 0 doc.log (by simpa using hg.1), hg.2⟩

/-- …and every step of every request only appends: whatever state is reached later extends the log
(no row is rewritten, reordered or dropped by a concurrent request). -/
theorem conc_log_append_only (cfg : Config) (σ σ' : Sys) (h : Reachable cfg σ) (hs : Step σ σ') (d : DocId) (doc : Doc)
    (hd : σ.srv.docs.get? d = some doc) :
    ∃ doc' rows, σ'.srv.docs.get? d = some doc' ∧ doc'.log = doc.log ++ rows := by
  obtain ⟨y, hy, e⟩ := (hs.docsExt h.wf).old d doc hd
  obtain ⟨rows, hl, _⟩ := e.rows
  exact ⟨y, rows, hy, hl⟩

/-- The small-step model is the sequential model when nothing interleaves: the handler prefix
followed by the phases, one at a time, computes exactly `Server.step` (same store, same result).
`runRest 8` = run the at most 8 remaining phases. -/
theorem conc_solo_is_sequential (s : Server) (id : Nat) (req : Request) (lost : Bool) (hreq : isReq req = true) :
    let st := startFlight s id req lost
    let fin := runRest 8 st.1 st.2
    fin.1 = (Server.step s req).1 ∧ fin.2.pc = .done ∧ fin.2.out = (Server.step s req).2 := by
  intro st fin
  rw [← solo_eq_step s req hreq]
  simp only [fin, st, startFlight, solo]
  rcases hb : begin s req with ⟨s1, e | f⟩
  · simp [runRest]
  · simp only []
    have := runRest_spec 8 s1 { id := id, req := req, lock := lockOf s req, lost := lost, pc := .validate, f := f }
      (by simp [Pc.dist]) (by simp)
    simp only [rest_validate] at this
    obtain ⟨h1, h2, h3, _⟩ := this
    refine ⟨?_, h2, ?_⟩
    · rw [h1]; rcases pushPull s1 f with ⟨s2, e | f'⟩ <;> rfl
    · rw [h3]; rcases pushPull s1 f with ⟨s2, e | f'⟩ <;> rfl

/-! ### well-behaved clients: the invariants with requests in flight -/

/-- The invariants of the sequential proof (DESIGN F.1/F.2), re-stated for states with requests in
flight, hold at every state of every well-behaved concurrent run (`WbReach`: any number of clients
and documents, any interleaving of the phases of their Attach / PushPull / Detach / Remove
requests, lost responses and resends included):
  * `d` – on the store and the clients' views, exactly the sequential invariant `DInv`: log shape,
    I3 (`view`: what a client applied = log prefix up to its checkpoint restricted to the other
    actors) and the client-sequence half of I2/I4 (`ack`);
  * `locks` – at most one request in flight per `pull(client, document key)`;
  * `fl` – for every request in flight the record `FOk`: after its push phase the log is
    `pre ++ its own rows ++ whatever was appended since` with `|pre|` = the head it observed
    (`PushedOk`); after its pull phase the response it has prepared keeps its client's view exact
    with respect to the log AS IT IS NOW (`PulledOk`) – each of these mentions only the prefix the
    request fixed in its push phase and its client's own rows, and is preserved by every step of
    every other request (`FOk.frame`). -/
theorem conc_inv (cfg : Config) (σ : Sys) (g : Ghost) (h : WbReach cfg σ g) : CInv σ g :=
  cinv_of_wbReach h

/-- Clause 3 (exactly-once, in-order delivery) for every interleaving: at every state of every
well-behaved concurrent run – other clients' requests in flight between any two of their phases,
this client's own next request possibly in flight too – what client `c` has applied to its replica
of document `d`, restricted to the other actors, is exactly the stored log up to `c`'s checkpoint
restricted to the other actors: nothing missing, nothing twice, in log order. -/
theorem conc_delivery_exact (cfg : Config) (σ : Sys) (g : Ghost) (h : WbReach cfg σ g)
    (c : ClientId) (d : DocId) (doc : Doc) (hd : σ.srv.docs.get? d = some doc) (hdp : doc.disablePresence = false) :
    (g c d).applied.filter (fun r => r.actor != c)
      = (doc.log.take (g c d).cp.serverSeq.toNat).filter (fun r => r.actor != c) ∧
    0 ≤ (g c d).cp.serverSeq ∧ (g c d).cp.serverSeq ≤ doc.log.length := by
  have inv := (cinv_of_wbReach h).d
  have v := inv.view c d doc hd hdp
  refine ⟨?_, v.nonneg, v.le⟩
  have := filter_ssLe_take 0 (g c d).cp.serverSeq doc.log (inv.gap d doc hd).1 v.nonneg
  rw [Int.sub_zero] at this
  rw [← this]
  exact v.exact

/-- …and the same for a response that is still on its way: from the moment its pull phase has run,
whatever other requests do before it is delivered, applying the prepared change list to the
client's replica yields exactly the log up to the RESPONSE checkpoint restricted to the other
actors (so every returned change list is the next segment of the log, whenever it arrives). -/
theorem conc_response_exact (cfg : Config) (σ : Sys) (g : Ghost) (h : WbReach cfg σ g)
    (r : InFlight) (hr : r ∈ σ.flights) (hpc : r.pc = .done) (resp : Resp) (hout : r.out = .ok resp)
    (doc : Doc) (hd : σ.srv.findDoc r.f.doc = some doc) (hdp : doc.disablePresence = false) :
    ((g r.f.client r.f.doc).applied ++ resp.changes).filter (fun x => x.actor != r.f.client)
      = (doc.log.take resp.cp.serverSeq.toNat).filter (fun x => x.actor != r.f.client) := by
  have inv := cinv_of_wbReach h
  obtain ⟨hpl, _⟩ := (inv.fl r hr (Or.inr ⟨resp, hout⟩)).fin hpc resp hout
  obtain ⟨v, _⟩ := hpl.view doc hd hdp
  have := filter_ssLe_take 0 resp.cp.serverSeq doc.log (inv.d.gap _ doc hd).1 v.nonneg
  rw [Int.sub_zero] at this
  rw [← this]
  exact v.exact

/-- Clause 4 (response checkpoints are monotone and never exceed the log head) for every
interleaving: a successful response of a request of client `c` on document `d` – from the moment
`PushPull` has returned until it is delivered, whatever happens in between – carries a checkpoint
that is ≥ the one the client holds in both components, and its serverSeq is ≤ the length of the
stored log.  (An Attach starts from a fresh `Document`, checkpoint (0,0).) -/
theorem conc_cp_monotone (cfg : Config) (σ : Sys) (g : Ghost) (h : WbReach cfg σ g)
    (r : InFlight) (hr : r ∈ σ.flights) (hpc : r.pc = .done) (resp : Resp) (hout : r.out = .ok resp)
    (doc : Doc) (hd : σ.srv.findDoc r.f.doc = some doc) (hdp : doc.disablePresence = false) :
    (g r.f.client r.f.doc).cp.serverSeq ≤ resp.cp.serverSeq ∧
    (g r.f.client r.f.doc).cp.clientSeq ≤ resp.cp.clientSeq ∧
    resp.cp.serverSeq ≤ doc.log.length := by
  have inv := cinv_of_wbReach h
  obtain ⟨hpl, _⟩ := (inv.fl r hr (Or.inr ⟨resp, hout⟩)).fin hpc resp hout
  obtain ⟨v, hm⟩ := hpl.view doc hd hdp
  exact ⟨hm, hpl.cs, v.le⟩

/-- Clause 3b (never an echo of its own change) for every interleaving: a successful response of a
request of client `c` on document `d` – whatever was interleaved with it – contains no row written
by the attachment that made the request: every row of actor `c` in it was written by an EARLIER
attachment generation of `c` (a client that re-attached with a new Document is sent its old
changes, by design).  `e` is the client's stored entry (`Row.gen`, `ClientDoc.gen` are the ghost
generation fields of the model).  The proof is the concurrent form of I2/I4 (`GC.g2`): a row of the
current generation is acknowledged by the stored client sequence or by the `cpAfterPush` of the one
request of that client on that document that has pushed and not yet returned – which, for the
rows inside a request's own pull range, is the request itself, so the own-change filter drops
them. -/
theorem conc_no_echo (cfg : Config) (σ : Sys) (g : Ghost) (h : WbReach cfg σ g)
    (r : InFlight) (hr : r ∈ σ.flights) (hpc : r.pc = .done) (resp : Resp) (hout : r.out = .ok resp)
    (doc : Doc) (hd : σ.srv.findDoc r.f.doc = some doc) (hdp : doc.disablePresence = false) :
    ∃ e, entryOf σ.srv r.f.client r.f.doc = some e ∧
      ∀ row ∈ resp.changes, row.actor = r.f.client → row.gen < e.gen := by
  have hF := (cinv_of_wbReach h).fl r hr (Or.inr ⟨resp, hout⟩)
  have h2 := (gc_of_wbReach h).fl2 r hr (Or.inr ⟨resp, hout⟩)
  obtain ⟨e, he, _⟩ := h2.stored
  refine ⟨e, he, ?_⟩
  intro row hrow hact
  have hdpI : r.f.docInfo.disablePresence = false := by
    rw [h2.dpI (by rw [hpc]; simp [Pc.ord]), hF.dp doc hd]; exact hdp
  obtain ⟨e', he', hlt⟩ := h2.fin hpc resp hout hdpI row hrow hact
  rw [he] at he'; injection he' with he'; subst he'
  exact hlt

/-- the concurrent form of I2/I4 itself, at every state of every well-behaved concurrent run: every
row of actor `c` comes from a generation `c` has reached; a row of the current generation of an
open attachment is acknowledged by the stored client sequence or by a request of that client on
that document that has pushed and not yet returned; only attached entries carry a client
sequence. -/
theorem conc_inv_generations (cfg : Config) (σ : Sys) (g : Ghost) (h : WbReach cfg σ g) : GC σ :=
  gc_of_wbReach h

/-- Clause 2 (each client's changes appear exactly once and in the order the client made them) for
every interleaving: at every state of every well-behaved concurrent run, in every document with
presence enabled, the rows of one actor written by one attachment generation carry the client
sequences 1, 2, …, k in log order (hence in increasing serverSeq, by `conc_log_gapfree`) – no gap,
no duplicate, no reordering, however the pushes of the clients were interleaved; and `k` is known:
for an open attachment with no request between its push and its return (`Pending`: has pushed, has
not returned) it is the stored client sequence; while such a request `x` exists it is `x`'s
`cpAfterPush` (the stored client sequence catches up in `x`'s persist phase).
Same limits as the sequential theorem `C04.per_actor_clientSeq_ordered`: per attachment generation;
presenceless documents and ill-behaved clients are not covered. -/
theorem conc_per_actor_clientSeq_ordered (cfg : Config) (σ : Sys) (g : Ghost) (h : WbReach cfg σ g)
    (c : ClientId) (d : DocId) (doc : Doc) (hd : σ.srv.findDoc d = some doc) (hdp : doc.disablePresence = false) :
    (∀ gen, ∃ k, (doc.log.filter (fun r => r.actor == c && r.gen == gen)).map (·.clientSeq) = List.range' 1 k) ∧
    (∀ cd, entryOf σ.srv c d = some cd → (cd.status = .attached ∨ cd.status = .attaching) →
      (∀ x ∈ σ.flights, Pending x → ¬ (x.f.client = c ∧ x.f.doc = d)) →
      (doc.log.filter (fun r => r.actor == c && r.gen == cd.gen)).map (·.clientSeq) = List.range' 1 cd.clientSeq) ∧
    (∀ x ∈ σ.flights, Pending x → x.f.client = c → x.f.doc = d →
      (doc.log.filter (fun r => r.actor == c && r.gen == x.f.info.genOf d)).map (·.clientSeq)
        = List.range' 1 x.f.cpAfterPush.clientSeq) := by
  have hC := cinv_of_wbReach h
  have hS := sc_of_wbReach h
  have hdpOf : dpOf σ.srv d = false := by simp [dpOf, hd, hdp]
  have hlog : storedLog σ.srv d = doc.log := storedLog_findDoc hd
  refine ⟨?_, ?_, ?_⟩
  · intro gen
    obtain ⟨k, hk⟩ := hS.s.runs c d gen hdpOf
    refine ⟨k, ?_⟩
    simp only [csOf, ownRows, hlog] at hk
    exact hk
  · intro cd hcd hst hnp
    have := hS.s.cur c d cd hdpOf hcd (by rcases hst with h | h <;> simp [isOpenSt, h]) hnp
    simp only [csOf, ownRows, hlog] at this
    exact this
  · intro x hx hpx hxc hxd
    have hFx := hC.fl x hx (Or.inl hpx.2)
    have hdpf : x.f.disablePresence = false := by rw [hFx.dp doc (by rw [hxd]; exact hd)]; exact hdp
    have := (hS.fl3 x hx (Or.inl hpx.2)).cnt hpx hdpf
    rw [hxc, hxd] at this
    simp only [csOf, ownRows, hlog] at this
    exact this

/-! ### refinement -/

/-
FULL STATEMENT (not proved; believed true of the model for `removeOnDetach = false`; see the scope
below for what is missing):
  conc_refines_seq – for every concurrent execution, let `order` be its requests sorted by the
  moment of their push phase (push-commit order).  Then `Server.run (Server.init cfg) order` has the
  same log for every document, and every finished request returned the same change list and the
  same checkpoint as the corresponding `Server.step` in that sequential run (NOT the same `minVV`:
  `conc_minvv_may_lead`).
What IS proved towards it:
  * `conc_solo_is_sequential` – a request whose phases are not interleaved with anything computes
    exactly `Server.step` (store and result);
  * `conc_refines_seq_partial` below – the pull half: from its push-commit point on, a request's
    response (checkpoint, change list, snapshot decision, error) is already determined; the pull
    phase prepares the very same response whenever it runs afterwards, i.e. the one the sequential
    execution prepares immediately after the push;
  * `conc_response_exact`, `conc_cp_monotone`, `conc_delivery_exact` – what the property states,
    proved directly on the concurrent system without going through the sequential one.
Missing for the full statement: (a) moving the START of a request (handler prefix, validation,
strip – they read only the client's own stored row, which `pull` protects, and the immutable
document options; `AttachDocument` also writes `TryAttaching` and may create the document) to its
push point – a commutation argument over the stored client rows, not done; (b) equality of the
stored client rows and version-vector rows at quiescent points.
-/

/-- Refinement, pull half (scope: see the comment above).  At every state of every well-behaved
concurrent run, for every request that has pushed and not yet pulled (`pc = .pull`), on every LATER
store `s'` – whatever steps of whatever other requests lead to it: each `Step` only extends the
documents, `Step.docsExt` – the pull phase prepares exactly the response it would prepare now, in
particular right after its own push: same checkpoint, same change list, same error.  So every
returned change list and checkpoint is the one of the execution in which the request runs without
interruption from its push-commit point on. -/
theorem conc_refines_seq_partial (cfg : Config) (σ : Sys) (g : Ghost) (h : WbReach cfg σ g)
    (r : InFlight) (hr : r ∈ σ.flights) (hpc : r.pc = .pull)
    (doc : Doc) (hd : σ.srv.findDoc r.f.doc = some doc) (hdp : doc.disablePresence = false)
    (s' : Server) (ext : DocsExt σ.srv s') :
    (preparePack s' r.f).2 = (preparePack σ.srv r.f).2 := by
  have inv := cinv_of_wbReach h
  have hF := inv.fl r hr (Or.inl (by rw [hpc]; simp))
  obtain ⟨_, _, _, ⟨pre, post, hl, hp⟩, _⟩ := (hF.pushed hpc).log doc hd hdp
  obtain ⟨doc', hd', e⟩ := ext.old r.f.doc doc hd
  have hle : r.f.initialSeq ≤ doc.log.length := by
    rw [hl, ← hp]; simp only [List.length_append]; push_cast; omega
  have := pullPackResp_stable hd hd' e (inv.d.gap _ doc hd) ext.cfg hle
  simp only [preparePack, this]
  cases pullPackResp σ.srv r.f <;> rfl

/-! ### non-vacuity and the version-vector window -/

section Witness

def pres (c cs tag : Nat) : ChangeReq :=
  { clientSeq := cs, lamport := 0, vv := [], actor := c, hasOps := false, hasPresence := true, tag := tag }
def ops (c cs : Nat) (lam : Int) (v : VV) (tag : Nat) : ChangeReq :=
  { clientSeq := cs, lamport := lam, vv := v, actor := c, hasOps := true, hasPresence := false, tag := tag }

/-- two clients attach, exchange three changes sequentially -/
def setup : List Item :=
  [.activate, .activate] ++
  alone 1 (.attach 0 7 { cp := ⟨0, 0⟩, changes := [pres 0 1 1], vv := [] } false false) ++
  alone 2 (.attach 1 7 { cp := ⟨0, 0⟩, changes := [pres 1 1 2], vv := [] } false false) ++
  alone 3 (.pushpull 0 0 { cp := ⟨1, 1⟩, changes := [ops 0 2 1 [(0, 1)] 3], vv := [(0, 1), (1, 0)] } false false) ++
  alone 4 (.pushpull 1 0 { cp := ⟨2, 1⟩, changes := [ops 1 2 1 [(1, 1)] 4], vv := [(0, 1), (1, 1)] } false false) ++
  alone 5 (.pushpull 0 0 { cp := ⟨3, 2⟩, changes := [ops 0 3 2 [(0, 2), (1, 1)] 5], vv := [(0, 2), (1, 1)] } false false)

def reqA : Request :=
  .pushpull 0 0 { cp := ⟨5, 3⟩, changes := [ops 0 4 3 [(0, 3), (1, 1)] 6], vv := [(0, 3), (1, 1)] } false false
def reqB : Request :=
  .pushpull 1 0 { cp := ⟨4, 2⟩, changes := [ops 1 3 3 [(0, 2), (1, 3)] 7], vv := [(0, 2), (1, 3)] } false false

/-- A (request 6) and B (request 7) in flight together: A pushes, B pushes, B prepares its response
and stores its version vector, THEN A pulls, stores its vector and reads the minimum; B finishes -/
def concurrent : List Item := setup ++ [.start 6 reqA false, .start 7 reqB false] ++
  phases 6 3 ++ phases 7 3 ++ phases 7 3 ++ phases 6 5 ++ phases 7 2 ++ [.finish 6, .finish 7]

/-- the same requests one after the other, in push-commit order (A, then B) -/
def sequential : List Item := setup ++ alone 6 reqA ++ alone 7 reqB

/-! observations as lists of integers (one decidable equality instead of a deep product) -/

def cpL (c : Checkpoint) : List Int := [c.serverSeq, Int.ofNat c.clientSeq]
def tagsL (l : List Row) : List Int := l.map (fun r => Int.ofNat r.tag)
def vvL : Option VV → List Int
  | none => [-1]
  | some v => v.flatMap (fun p => [Int.ofNat p.1, p.2])

/-- response of the finished request `id`: checkpoint, tags of the returned changes, minVV -/
def outOfReq (id : Nat) (p : Sys × Ghost) : List (List Int) :=
  match p.1.done? id with
  | some dn => match dn.out with
    | .ok r => [cpL r.cp, tagsL r.changes, vvL r.minVV]
    | .error _ => [[-2]]
  | none => [[-3]]

def logTags (p : Sys × Ghost) : List (List Int) := p.1.srv.docs.map (fun d => tagsL d.2.log)

/-- view of client `c` on document 0: checkpoint, tags of the applied changes -/
def viewOf (c : ClientId) (p : Sys × Ghost) : List (List Int) := [cpL (p.2 c 0).cp, tagsL (p.2 c 0).applied]

end Witness

/-- non-vacuity: an explicit two-client interleaving (requests 6 and 7 in flight together, phases
interleaved) is a well-behaved concurrent run: `wbRunC` accepts it – every `wbReq`, lock and
no-snapshot hypothesis of `WbReach` holds – and it ends with both responses delivered, the log
1..7, client 0 at checkpoint (6,4) having applied the changes tagged 2,4 and client 1 at (7,3)
having applied 1,3,5,6. -/
example :
    (wbRunC (Sys.init {}) Ghost.init concurrent).map (fun p =>
      logTags p ++ viewOf 0 p ++ viewOf 1 p ++ [[Int.ofNat p.1.flights.length]]) =
    some [[1, 2, 3, 4, 5, 6, 7], [6, 4], [2, 4], [7, 3], [1, 3, 5, 6], [0]] := by
  decide

/-- the hypotheses of the in-flight theorems are met in the middle of that run: after A and B have
both pushed and B has prepared its response, two requests are in flight, A before its pull phase -/
example :
    (wbRunC (Sys.init {}) Ghost.init (setup ++ [.start 6 reqA false, .start 7 reqB false] ++
        phases 6 3 ++ phases 7 3 ++ phases 7 3)).map (fun p =>
      (logTags p, p.1.flights.map (fun r => (r.id, r.pc)))) =
    some ([[1, 2, 3, 4, 5, 6, 7]], [(6, .pull), (7, .vvRead)]) := by
  decide

/-- …and a little later A's `PushPull` has returned (`pc = .done`, response not yet delivered: the
hypotheses of `conc_response_exact`, `conc_cp_monotone`, `conc_no_echo`) while B is still between
its push and its return (`Pending`: the third clause of `conc_per_actor_clientSeq_ordered`) -/
example :
    (wbRunC (Sys.init {}) Ghost.init (setup ++ [.start 6 reqA false, .start 7 reqB false] ++
        phases 6 3 ++ phases 7 3 ++ phases 7 3 ++ phases 6 5)).map (fun p =>
      (p.1.flights.map (fun r => (r.id, r.pc, match r.out with | .ok _ => true | .error _ => false)))) =
    some [(6, .done, true), (7, .vvRead, true)] := by
  decide

/-- The returned `minVV` is NOT part of what a concurrent run shares with the sequential run in
push-commit order.  Witness (by evaluation; observations are lists of integers: log tags, then per
request `[cp.serverSeq, cp.clientSeq]`, tags of the returned changes, `minVV` flattened as
`[actor, lamport, actor, lamport]`): A = request 6 of client 0 commits (pushes) BEFORE B = request 7
of client 1.  In the interleaving `concurrent` B's version-vector row is stored between A's push
and A's read of the rows, and A's response carries `minVV = {0:2, 1:1}`; run one after the other
in push-commit order, A's response carries `{0:1, 1:1}` (client 1's older row).  Log, both
checkpoints and both change lists are identical in the two runs, and A's response (checkpoint 6)
does not contain B's change (serverSeq 7).  The same two schedules replayed on the real server:
corpus/C04/conc-minvv-may-lead.trace.
What it implies, precisely: the `minVV` a client receives may already reflect the request-time
vector of a client whose request committed AFTER the range this response delivers – the client is
told "everybody has seen (0,2)" on the strength of a request whose own changes (log position 7)
it has not been sent yet.  A purge licensed by this vector therefore runs BEFORE those changes are
applied; the sequential argument "the pull range ends after every request that contributed to
`minVV`" (DESIGN F.3) does not hold for non-sequential schedules.  This is the in-flight window
behind C03; C04's clauses (log, delivery, checkpoints) are not affected by it. -/
theorem conc_minvv_may_lead :
    (wbRunC (Sys.init {}) Ghost.init concurrent).map (fun p => logTags p ++ outOfReq 6 p ++ outOfReq 7 p) =
      some [[1, 2, 3, 4, 5, 6, 7], [6, 4], [], [0, 2, 1, 1], [7, 3], [5, 6], [0, 2, 1, 1]] ∧
    (wbRunC (Sys.init {}) Ghost.init sequential).map (fun p => logTags p ++ outOfReq 6 p ++ outOfReq 7 p) =
      some [[1, 2, 3, 4, 5, 6, 7], [6, 4], [], [0, 1, 1, 1], [7, 3], [5, 6], [0, 2, 1, 1]] := by
  constructor <;> decide

end Yorkie.Props.C04Conc
