/-
C11  Client/document lifecycle rules are enforced in every state.

Model: Model/Server.lean.  The switch `cfg.detachGuardFirst` selects the pinned tree (`false`:
`DetachDocument`/`RemoveDocument` call `PushPull` without checking the attachment first) or the
tree with `hooks/fix-c11-detach-guard.patch` (`true`).  Theorems that need the guard say so in a
hypothesis; the witnesses are about the model with the guard off.

Known on the pinned tree (both reproduced by the faithful model, replayed on the implementation
by corpus/C11/*.trace):
  * `writes_only_when_attached` is FALSE without the guard  → `detached_push_witness`,
    `writes_only_when_attached_partial`.
  * the clause "after Remove … stores no further change" of `removed_sticky` is FALSE
    → `push_after_remove_witness`; the proved part is `removed_sticky` (flag permanent, echoed in
    every later response, invisible to Attach by key).
  * `cfg.deactivateDetachesRemoved` selects the tree before (`false`) or with (`true`)
    `hooks/fix-c11-deactivate-holding-removed.patch`: before it, a client that still held a document a peer had
    removed could not be deactivated (first half of `deactivate_blocked_witness`, replayed by
    corpus/C11/srv-deactivate-holding-removed.trace); repaired: `deactivate_looks_up_removed`,
    `deactivate_holding_removed`.
  * `cfg.detachWithoutOwnChange` selects the tree before (`false`) or with (`true`)
    `hooks/fix-c11-deactivate-without-own-change.patch`: before it, a client attached to a document in which
    it has no stored change at or below its checkpoint could not be deactivated (second half of
    `deactivate_blocked_witness`, replayed by corpus/C11/srv-deactivate-change-not-found.trace); with it the
    outcome of the server-side detach is that of its push alone (`clusterDetach_without_own_change`,
    `deactivate_without_own_change`).
-/
import YorkieModel.Lemmas.ServerSpec
namespace Yorkie.Props.C11
open Yorkie Yorkie.Server

/-! ## writes only by holders -/

/-- FULL statement – true of the model WITH the guard (`cfg.detachGuardFirst = true`, i.e. after
`fix-c11-detach-guard.patch`), for every state and every request, crafted packs included:
whenever a request appends a row to a document's log or sets its removed flag, the requester is an
activated client holding that document (or this is the Attach that makes it a holder).
On the pinned tree (guard off) this is FALSE: see `detached_push_witness`. -/
theorem writes_only_when_attached (s : Server) (hw : WF s) (hg : s.cfg.detachGuardFirst = true)
    (req : Request) (d : DocId) (hwr : ¬ SameDoc s (step s req).1 d) : WriterHolds s req d :=
  writes_core s hw req d (Or.inl hg) hwr

/-- PARTIAL (any value of the switch, so also the pinned tree): the same conclusion for every
request except a Detach/Remove sent by a client that does not hold the document.  Missing for the
full statement on the pinned tree: exactly those requests (`detached_push_witness`). -/
theorem writes_only_when_attached_partial (s : Server) (hw : WF s) (req : Request)
    (hsafe : DetachFromHolder s req) (d : DocId) (hwr : ¬ SameDoc s (step s req).1 d) : WriterHolds s req d :=
  writes_core s hw req d (Or.inr hsafe) hwr

/-! ### the witness on the pinned tree -/

def presChange (c cs tag : Nat) : ChangeReq :=
  { clientSeq := cs, lamport := 0, vv := [], actor := c, hasOps := false, hasPresence := true, tag := tag }
def opsChange (c cs : Nat) (lam : Int) (tag : Nat) : ChangeReq :=
  { clientSeq := cs, lamport := lam, vv := [(c, lam)], actor := c, hasOps := true, hasPresence := false, tag := tag }

/-- the head (`DocInfo.ServerSeq`) of a document -/
def headOfDoc (s : Server) (d : DocId) : Option Int := (s.findDoc d).map (·.serverSeq)

/-- the error of a result -/
def errOf : Except ErrKind Resp → Option ErrKind
  | .error e => some e
  | .ok _ => none

def pinned : Config := { detachGuardFirst := false, pushAfterRemoveDiscards := false, detachWithoutOwnChange := false,
                         deactivateDetachesRemoved := false }
def fixed : Config := { detachGuardFirst := true, pushAfterRemoveDiscards := false, detachWithoutOwnChange := true,
                        deactivateDetachesRemoved := true }

/-- A attaches, syncs, detaches; B is attached (corpus/C11/proto-detached-push.trace) -/
def afterDetach (cfg : Config) : Server := run (Server.init cfg) [
  .activate, .activate,
  .attach 0 0 { cp := ⟨0, 0⟩, changes := [presChange 0 1 1], vv := [] } false false,
  .attach 1 0 { cp := ⟨0, 0⟩, changes := [presChange 1 1 2], vv := [] } false false,
  .pushpull 0 0 { cp := ⟨1, 1⟩, changes := [opsChange 0 2 1 3], vv := [(0, 1)] } false false,
  .detach 0 0 { cp := ⟨3, 2⟩, changes := [presChange 0 3 4], vv := [(0, 1)] }]

def evilDetach : Request := .detach 0 0 { cp := ⟨0, 0⟩, changes := [opsChange 0 1 2 666], vv := [(0, 2)] }
def evilRemove : Request := .remove 2 0 { cp := ⟨0, 0⟩, changes := [], vv := [], isRemoved := true }

/-- NEGATION WITNESS (pinned tree): the detached client A sends a raw DetachDocument carrying one
change.  The request is rejected with `documentNotAttached`, A does not hold the document, yet the
log grew by that change and B's next sync delivers it.  Then a client that never attached the
document removes it with a raw RemoveDocument that is rejected the same way. -/
theorem detached_push_witness :
    let s := afterDetach pinned
    holds s 0 0 = false ∧
    (step s evilDetach).2.toOption = none ∧
    (storedLog s 0).length = 4 ∧ (storedLog (step s evilDetach).1 0).map (·.tag) = [1, 2, 3, 4, 666] ∧
    ((step (step s evilDetach).1 (.pushpull 1 0 { cp := ⟨2, 1⟩, changes := [], vv := [(1, 1)] } false false)).2.toOption.map
        (fun r => r.changes.map (·.tag))) = some [3, 4, 666] ∧
    (let s2 := (step (step s evilDetach).1 .activate).1
     holds s2 2 0 = false ∧ removedOf s2 0 = false ∧ (step s2 evilRemove).2.toOption = none ∧
     removedOf (step s2 evilRemove).1 0 = true) ∧
    ¬ WriterHolds s evilDetach 0 := by
  refine ⟨by decide, by decide, by decide, by decide, by decide, by decide, ?_⟩
  intro h
  have : holds (afterDetach pinned) 0 0 = true := h.2.2
  revert this; decide

/-- the same requests against the model with the guard: rejected and nothing written -/
theorem detached_push_fixed :
    let s := afterDetach fixed
    (step s evilDetach).2.toOption = none ∧
    (storedLog (step s evilDetach).1 0).map (·.tag) = [1, 2, 3, 4] ∧
    (let s2 := (step (step s evilDetach).1 .activate).1
     (step s2 evilRemove).2.toOption = none ∧ removedOf (step s2 evilRemove).1 0 = false) := by
  decide

/-- non-vacuity of the side condition and of the conclusion: a legitimate Detach by a holder writes -/
example :
    let s := run (Server.init pinned) [.activate,
      .attach 0 0 { cp := ⟨0, 0⟩, changes := [presChange 0 1 1], vv := [] } false false]
    let req : Request := .detach 0 0 { cp := ⟨1, 1⟩, changes := [presChange 0 2 2], vv := [] }
    DetachFromHolder s req ∧ (storedLog (step s req).1 0).length = 2 ∧ holds s 0 0 = true := by
  decide

/-! ## removed is sticky -/

/-- what is TRUE of "a removed document stays removed for everyone" (every state, every request
sequence, crafted packs included):
 (1) the removed flag is permanent;
 (2) every later successful PushPull / Detach / Remove response on that document carries
     `isRemoved = true`;
 (3) an Attach by key never reaches the removed document again (it creates a new document id).
The clause "stores no further change" is FALSE on the pinned tree: `push_after_remove_witness`. -/
theorem removed_sticky (s : Server) (hw : WF s) (d : DocId) (hrem : removedOf s d = true) :
    (∀ reqs, removedOf (run s reqs) d = true) ∧
    (∀ req r, (step s req).2 = .ok r →
      ((∃ c p po nogc, req = .pushpull c d p po nogc) ∨ (∃ c p, req = .detach c d p) ∨ (∃ c p, req = .remove c d p)) →
      r.isRemoved = true) ∧
    (∀ key, s.findDocIdByKey key ≠ some d) := by
  have hdoc : ∃ doc, s.findDoc d = some doc ∧ doc.removed = true := by
    simp only [removedOf] at hrem
    cases hd : s.findDoc d with
    | none => rw [hd] at hrem; simp at hrem
    | some x => rw [hd] at hrem; exact ⟨x, rfl, hrem⟩
  obtain ⟨doc, hd, hr⟩ := hdoc
  refine ⟨?_, ?_, ?_⟩
  · intro reqs
    obtain ⟨y, hy, e⟩ := (run_docsExt s hw reqs).old d doc hd
    simp only [removedOf, Server.findDoc, hy]
    exact e.removed hr
  · intro req r hout hreq
    have key : ∀ {f : Flight} {s' : Server} {f' : Flight}, pushPull s f = (s', .ok f') → f.doc = d →
        f'.resp.isRemoved = true := by
      intro f s' f' hpp hfd
      obtain ⟨_, _, doc', _, _, _, _, hfd', _, _, _, _, _, _, hrm⟩ := ppok_target (pushPull_ppok hpp)
      rw [hfd, hd] at hfd'; injection hfd' with hfd'; subst hfd'
      rw [hrm, hr]; rfl
    rcases hreq with ⟨c, p, po, nogc, rfl⟩ | ⟨c, p, rfl⟩ | ⟨c, p, rfl⟩
    · simp only [step] at hout
      generalize ha : pushpullReq s c d p po nogc = res at hout
      obtain ⟨s', out⟩ := res
      simp only [] at hout; subst hout
      rcases pushpullReq_inv ha with ⟨_, e, he⟩ | ⟨info, doc2, _, _, _, _, hf⟩
      · simp at he
      · obtain ⟨f', hpp, hr'⟩ := finish_ok hf
        rw [hr']; exact key hpp rfl
    · simp only [step] at hout
      generalize ha : detach s c d p = res at hout
      obtain ⟨s', out⟩ := res
      simp only [] at hout; subst hout
      rcases detach_inv ha with ⟨_, e, he⟩ | ⟨info, doc2, _, _, _, _, hf⟩
      · simp at he
      · obtain ⟨f', hpp, hr'⟩ := finish_ok hf
        rw [hr']; exact key hpp rfl
    · simp only [step] at hout
      generalize ha : remove s c d p = res at hout
      obtain ⟨s', out⟩ := res
      simp only [] at hout; subst hout
      rcases remove_inv ha with ⟨_, e, he⟩ | ⟨info, doc2, _, _, _, _, hf⟩
      · simp at he
      · obtain ⟨f', hpp, hr'⟩ := finish_ok hf
        rw [hr']; exact key hpp rfl
  · intro key hk
    have := attach_never_reaches_removed s key d hk
    rw [hrem] at this; simp at this

/-- NEGATION WITNESS for "after Remove … stores no further change" (pinned tree AND with the
detach guard – the guard does not touch this path): A and B attach, A removes the document, B –
still attached, it cannot know yet – syncs one local change: the response says removed, and the
change is stored in the removed document's log (corpus/C11/proto-push-after-remove.trace). -/
theorem push_after_remove_witness (cfg : Config) (hcfg : cfg = pinned ∨ cfg = fixed) :
    let s := run (Server.init cfg) [
      .activate, .activate,
      .attach 0 0 { cp := ⟨0, 0⟩, changes := [presChange 0 1 1], vv := [] } false false,
      .attach 1 0 { cp := ⟨0, 0⟩, changes := [presChange 1 1 2], vv := [] } false false,
      .remove 0 0 { cp := ⟨1, 1⟩, changes := [], vv := [], isRemoved := true }]
    let req : Request := .pushpull 1 0 { cp := ⟨2, 1⟩, changes := [opsChange 1 2 1 3], vv := [(1, 1)] } false false
    removedOf s 0 = true ∧ (storedLog s 0).length = 2 ∧
    (step s req).2.toOption.map (·.isRemoved) = some true ∧
    (storedLog (step s req).1 0).map (·.tag) = [1, 2, 3] := by
  rcases hcfg with rfl | rfl <;> decide

/-! ## version-vector rows -/

/-- reachable-state invariant (⇒ of "row ⇔ attached"): in every state reachable by any request
sequence, a document has a version-vector row for client `c` only if `c`'s stored status for that
document is `attached`.  Hence a client that detached, removed the document or was deactivated no
longer holds back garbage collection (`closed_has_no_row`). -/
theorem vvrow_implies_attached (cfg : Config) (reqs : List Request) (d : DocId) (c : ClientId) (v : VV)
    (h : rowOf (run (Server.init cfg) reqs) d c = some v) :
    ∃ cd, entryOf (run (Server.init cfg) reqs) c d = some cd ∧ cd.status = .attached :=
  run_vinv (Server.init cfg) (WF_init cfg) (VInv_init cfg) reqs d c v h

theorem closed_has_no_row (cfg : Config) (reqs : List Request) (d : DocId) (c : ClientId)
    (h : ∀ cd, entryOf (run (Server.init cfg) reqs) c d = some cd → cd.status ≠ .attached) :
    rowOf (run (Server.init cfg) reqs) d c = none := by
  cases hr : rowOf (run (Server.init cfg) reqs) d c with
  | none => rfl
  | some v =>
    obtain ⟨cd, hcd, hs⟩ := vvrow_implies_attached cfg reqs d c v hr
    exact absurd hs (h cd hcd)

/-- (⇐ at the point of the request) a successful Attach-less sync that did not opt out of GC leaves
exactly the request's vector as the client's row; a successful Detach / Remove leaves none. -/
theorem row_after_request (s : Server) (c : ClientId) (d : DocId) (p : Pack) (r : Resp) :
    (∀ po, (step s (.pushpull c d p po false)).2 = .ok r →
      rowOf (step s (.pushpull c d p po false)).1 d c = some p.vv) ∧
    ((step s (.detach c d p)).2 = .ok r → rowOf (step s (.detach c d p)).1 d c = none) ∧
    ((step s (.remove c d p)).2 = .ok r → rowOf (step s (.remove c d p)).1 d c = none) := by
  have key : ∀ {f : Flight} {s' : Server} {f' : Flight}, pushPull s f = (s', .ok f') → f.disableGC = false →
      rowOf s' f.doc f.client =
        if f.status = .attached ∧ f.info.statusOf f.doc = some .attached then some f.pack.vv
        else if f.status ≠ .attached then none else rowOf s' f.doc f.client := by
    intro f s' f' hpp hgc
    obtain ⟨cd0, _, doc, _, vv, hcd0, _, _, _, _, _, hdocs, hvv, _, _⟩ := ppok_target (pushPull_ppok hpp)
    rw [rowOf_docs_set hdocs, if_pos rfl]
    rcases hvv with ⟨_, hg⟩ | ⟨_, hv⟩
    · rw [hgc] at hg; simp at hg
    · rw [hv]
      cases hs : f.status
      · by_cases hst : f.info.statusOf f.doc = some .attached
        · have : cd0.status = .attached := by rw [statusOf_of_get? hcd0] at hst; injection hst
          simp [statusEntry, this, hst, AL.get?_set_self]
        · simp [hst]
      · simp [statusEntry, AL.get?_erase]
      · simp [statusEntry, AL.get?_erase]
  refine ⟨?_, ?_, ?_⟩
  · intro po hout
    simp only [step] at hout ⊢
    generalize ha : pushpullReq s c d p po false = res at hout
    obtain ⟨s', out⟩ := res
    simp only [] at hout ⊢; subst hout
    rcases pushpullReq_inv ha with ⟨_, e, he⟩ | ⟨info, doc2, _, _, hst, _, hf⟩
    · simp at he
    · obtain ⟨f', hpp, _⟩ := finish_ok hf
      have := key hpp rfl
      simpa [hst] using this
  · intro hout
    simp only [step] at hout ⊢
    generalize ha : detach s c d p = res at hout
    obtain ⟨s', out⟩ := res
    simp only [] at hout ⊢; subst hout
    rcases detach_inv ha with ⟨_, e, he⟩ | ⟨info, doc2, _, _, _, _, hf⟩
    · simp at he
    · obtain ⟨f', hpp, _⟩ := finish_ok hf
      have := key hpp rfl
      have hne := detachMode_status_ne' s c d p
      simpa [hne] using this
  · intro hout
    simp only [step] at hout ⊢
    generalize ha : remove s c d p = res at hout
    obtain ⟨s', out⟩ := res
    simp only [] at hout ⊢; subst hout
    rcases remove_inv ha with ⟨_, e, he⟩ | ⟨info, doc2, _, _, _, _, hf⟩
    · simp at he
    · obtain ⟨f', hpp, _⟩ := finish_ok hf
      have := key hpp rfl
      simpa using this

/-- the converse without history is false by design: a client that attaches with `disableGC`
is attached and has no row (it opted out of GC) -/
theorem attached_optout_no_row_witness :
    let s := run (Server.init pinned) [.activate,
      .attach 0 0 { cp := ⟨0, 0⟩, changes := [presChange 0 1 1], vv := [] } false true]
    holds s 0 0 = true ∧ rowOf s 0 0 = none := by decide

/-- non-vacuity: a GC-tracking attach leaves a row, the following detach removes it -/
example :
    let s := run (Server.init pinned) [.activate,
      .attach 0 0 { cp := ⟨0, 0⟩, changes := [opsChange 0 1 1 1], vv := [(0, 1)] } false false]
    rowOf s 0 0 = some [(0, 1)] ∧
    rowOf (step s (.detach 0 0 { cp := ⟨1, 1⟩, changes := [], vv := [(0, 1)] })).1 0 0 = none := by decide

/-! ## deactivation -/

/-- Deactivate takes effect completely or reports an error: when it succeeds the client is
deactivated and holds no document any more (every attached/attaching document was detached) –
and, in reachable states, none of its version-vector rows is left. -/
theorem deactivate_detaches_all (s : Server) (c : ClientId) (order : List DocId) (r : Resp)
    (h : (step s (.deactivate c order)).2 = .ok r) :
    ∃ i', (step s (.deactivate c order)).1.findClient c = some i' ∧ i'.activated = false ∧
      ∀ d, isOpenAt i' d = false := by
  simp only [step] at h ⊢
  generalize hres : deactivate s c order = res at h ⊢
  obtain ⟨s', out⟩ := res
  simp only [] at h ⊢
  subst h
  obtain ⟨s2, hdb⟩ := deactivate_ok hres
  obtain ⟨i, hi, hnone, e1⟩ := dbDeactivate_ok hdb
  subst e1
  refine ⟨{ i with activated := false }, by simp [Server.findClient, Server.setClient, AL.get?_set_self], rfl, ?_⟩
  intro d
  have := isOpenAt_false_of_none_open i hnone d
  simpa [isOpenAt] using this

theorem deactivated_no_rows (cfg : Config) (reqs : List Request) (c : ClientId) (order : List DocId) (r : Resp)
    (h : (step (run (Server.init cfg) reqs) (.deactivate c order)).2 = .ok r) (d : DocId) :
    rowOf (run (Server.init cfg) (reqs ++ [.deactivate c order])) d c = none := by
  obtain ⟨i', hi', _, hopen⟩ := deactivate_detaches_all _ c order r h
  apply closed_has_no_row
  intro cd hcd hs
  rw [run_snoc] at hcd
  rw [entryOf_findClient hi'] at hcd
  have := hopen d
  simp [isOpenAt, hcd, hs] at this

/-- non-vacuity: a client with two attached documents is deactivated; both are detached -/
example :
    let s := run (Server.init pinned) [.activate,
      .attach 0 0 { cp := ⟨0, 0⟩, changes := [presChange 0 1 1], vv := [] } false false,
      .attach 0 1 { cp := ⟨0, 0⟩, changes := [presChange 0 1 2], vv := [] } false false]
    (step s (.deactivate 0 [1, 0])).2.toOption.isSome = true ∧ holds s 0 0 = true ∧ holds s 0 1 = true := by
  decide


/-! ## the documented automaton

The table `specAllows` / `specNext` (docs/design/document-client-lifecycle.md transcribed), the
state abstractions `clientSt` / `docSt`, and the refinement predicate `Refines` are defined in
Lemmas/ServerSpec.lean (kept out of this file so that only property theorems are counted here). -/

/-- `lifecycle_refines_spec`, PushPullChanges (any value of the guard switch) -/
theorem lifecycle_pushpull (s : Server) (c : ClientId) (d : DocId) (p : Pack) (po g : Bool) :
    Refines s c d .pushpull false (step s (.pushpull c d p po g)) := by
  simp only [step]
  rcases clientSt_cases s c with ⟨hcs, i, hi, ha⟩ | ⟨hcs, e, he, hle⟩
  · by_cases hst : i.statusOf d = some .attached
    · -- allowed
      have hal : specAllows (clientSt s c) (docSt s c d) .pushpull = true := by
        rw [hcs, docSt_eq hi, hst]; rfl
      generalize hres : pushpullReq s c d p po g = res
      obtain ⟨s', out⟩ := res
      refine ⟨fun h => by rw [hal] at h; simp at h, ?_, ?_⟩
      · intro r hr
        simp only [] at hr; subst hr
        refine ⟨hal, ?_⟩
        rcases pushpullReq_inv hres with ⟨_, e, he⟩ | ⟨info, doc, hi2, _, hst2, _, hf⟩
        · simp at he
        · obtain ⟨f', hpp, _⟩ := finish_ok hf
          obtain ⟨cd0, hcd0, hds⟩ := docSt_after_ppok (pushPull_ppok hpp)
          simp only [mkFlight_client, mkFlight_doc, mkFlight_status, mkFlight_info] at hcd0 hds
          rw [hds]
          have : cd0.status = .attached := by rw [statusOf_of_get? hcd0] at hst2; injection hst2
          simp [specNext, this]
      · intro _ e he
        simp only [] at he; subst he
        unfold pushpullReq at hres
        have hens : i.ensureAttached d = .ok () := by
          simp [Client.ensureAttached, ha, hst]
        simp only [findActiveClient_of hi ha, hens] at hres
        split at hres
        · injection hres with _ h2; injection h2 with h2; rw [← h2]; rfl
        · next doc hd =>
          have := finish_error hres
          rcases pushPull_error_kind this (by simpa using hi) with h | ⟨cp, h⟩
          · exact h
          · obtain ⟨cd, hcd, _⟩ := statusOf_some hst
            obtain ⟨i', hi'⟩ := updateDocStatus_no_error (st := .attached) (cp := cp) ha hcd (by simp)
            simp only [mkFlight_info, mkFlight_doc, mkFlight_status] at h
            rw [hi'] at h; simp at h
    · -- not attached: rejected
      have hnal : specAllows (clientSt s c) (docSt s c d) .pushpull = false := by
        rw [hcs, docSt_eq hi]
        cases hx : i.statusOf d with
        | none => rfl
        | some st => cases st <;> simp_all [specAllows]
      rw [pushpull_reject_doc hi ha hst]
      exact ⟨fun _ => ⟨⟨_, rfl, rfl⟩, rfl⟩, fun r hr => by simp at hr, fun h => by rw [hnal] at h; simp at h⟩
  · rw [(reject_client he).2.1]
    have hnal := specAllows_not_activated hcs (docSt s c d) .pushpull
    exact ⟨fun _ => ⟨⟨e, rfl, hle⟩, rfl⟩, fun r hr => by simp at hr, fun h => by rw [hnal] at h; simp at h⟩


/-- `lifecycle_refines_spec`, DetachDocument, for the model with the guard -/
theorem lifecycle_detach (s : Server) (hg : s.cfg.detachGuardFirst = true) (c : ClientId) (d : DocId) (p : Pack) :
    Refines s c d .detach (lastHolder s c d) (step s (.detach c d p)) := by
  simp only [step]
  rcases clientSt_cases s c with ⟨hcs, i, hi, ha⟩ | ⟨hcs, e, he, hle⟩
  · rcases open_cases (i := i) (d := d) with hop | hnop
    · refine refines_closing hi ha hcs hop (Or.inl rfl) (detachMode s c d p).1 (detachMode s c d p).2
        (detachMode_status_ne' s c d p) ?_ _ ?_
      · rw [detachMode_snd]
        show (if lastHolder s c d then DocStatus.removed else DocStatus.detached) = _
        cases lastHolder s c d <;> rfl
      · show _ = _
        have hgd : detachGuard s i d = .ok () := by
          unfold detachGuard; rw [if_pos hg]
          unfold Client.ensureAttachedOrAttaching
          simp only [ha, Bool.not_true, Bool.false_eq_true, if_false]
          rw [if_pos (by simpa using hop)]
        simp only [detach, findActiveClient_of hi ha, hgd]
        rfl
    · have hnal : specAllows (clientSt s c) (docSt s c d) .detach = false := by
        rw [hcs, docSt_eq hi]
        cases hx : i.statusOf d with
        | none => rfl
        | some st => cases st <;> simp_all [specAllows]
      rw [(detach_reject_doc hi ha hg hnop p).1]
      exact ⟨fun _ => ⟨⟨_, rfl, rfl⟩, rfl⟩, fun r hr => by simp at hr, fun h => by rw [hnal] at h; simp at h⟩
  · rw [(reject_client he).2.2.1]
    have hnal := specAllows_not_activated hcs (docSt s c d) .detach
    exact ⟨fun _ => ⟨⟨e, rfl, hle⟩, rfl⟩, fun r hr => by simp at hr, fun h => by rw [hnal] at h; simp at h⟩

/-- `lifecycle_refines_spec`, RemoveDocument, for the model with the guard -/
theorem lifecycle_remove (s : Server) (hg : s.cfg.detachGuardFirst = true) (c : ClientId) (d : DocId) (p : Pack) :
    Refines s c d .remove false (step s (.remove c d p)) := by
  simp only [step]
  rcases clientSt_cases s c with ⟨hcs, i, hi, ha⟩ | ⟨hcs, e, he, hle⟩
  · rcases open_cases (i := i) (d := d) with hop | hnop
    · refine refines_closing hi ha hcs hop (Or.inr rfl) p .removed (by simp) rfl _ ?_
      have hgd : detachGuard s i d = .ok () := by
        unfold detachGuard; rw [if_pos hg]
        unfold Client.ensureAttachedOrAttaching
        simp only [ha, Bool.not_true, Bool.false_eq_true, if_false]
        rw [if_pos (by simpa using hop)]
      simp only [remove, findActiveClient_of hi ha, hgd]
      rfl
    · have hnal : specAllows (clientSt s c) (docSt s c d) .remove = false := by
        rw [hcs, docSt_eq hi]
        cases hx : i.statusOf d with
        | none => rfl
        | some st => cases st <;> simp_all [specAllows]
      rw [(detach_reject_doc hi ha hg hnop p).2]
      exact ⟨fun _ => ⟨⟨_, rfl, rfl⟩, rfl⟩, fun r hr => by simp at hr, fun h => by rw [hnal] at h; simp at h⟩
  · rw [(reject_client he).2.2.2.1]
    have hnal := specAllows_not_activated hcs (docSt s c d) .remove
    exact ⟨fun _ => ⟨⟨e, rfl, hle⟩, rfl⟩, fun r hr => by simp at hr, fun h => by rw [hnal] at h; simp at h⟩

/-- The exact difference on the pinned tree (guard off): a Detach/Remove in a state where the
automaton does not allow it is still answered with an error and changes no client row – but the
error need not be a lifecycle error (the pack is validated first) and the document may have been
written (`detached_push_witness`).  Everything else (`lifecycle_pushpull`, the accepted cases of
Detach/Remove) is independent of the switch. -/
theorem lifecycle_detach_remove_pinned (s : Server) (c : ClientId) (d : DocId) (p : Pack)
    (hna : specAllows (clientSt s c) (docSt s c d) .detach = false) :
    (∃ e, (step s (.detach c d p)).2 = .error e) ∧ (step s (.detach c d p)).1.clients = s.clients ∧
    (∃ e, (step s (.remove c d p)).2 = .error e) ∧ (step s (.remove c d p)).1.clients = s.clients := by
  -- a flight of client `c` on `d` with a closing status cannot succeed from a non-open state
  have key : ∀ {f : Flight} {s' : Server} {out : Except ErrKind Resp} {i : Client}, s.findClient c = some i →
      i.activated = true → f.client = c → f.doc = d → f.info = i → f.status ≠ .attached →
      finish (pushPull s f) = (s', out) → (∃ e, out = .error e) ∧ s'.clients = s.clients := by
    intro f s' out i hi ha hfc hfd hfi hfs hfin
    obtain ⟨x, hpp⟩ := finish_inv hfin
    cases x with
    | error e =>
      refine ⟨⟨e, ?_⟩, (pushPull_err hpp (by rw [hfc]; exact hi)).1⟩
      rw [hpp] at hfin; simp only [finish] at hfin; injection hfin with _ h2; exact h2.symm
    | ok f' =>
      exfalso
      obtain ⟨cd0, _, _, _, _, hcd0, _, _, _, hopen, _⟩ := ppok_target (pushPull_ppok hpp)
      have hop := (hopen hfs).2
      rw [hfi, hfd] at hcd0
      have hcs : clientSt s c = .activated := by simp [clientSt, hi, ha]
      rw [hcs, docSt_eq hi, statusOf_of_get? hcd0] at hna
      simp only [isOpenSt, Bool.or_eq_true, beq_iff_eq] at hop
      rcases hop with h | h <;> rw [h] at hna <;> simp [specAllows] at hna
  simp only [step]
  generalize hd1 : detach s c d p = r1
  generalize hd2 : remove s c d p = r2
  obtain ⟨s1, o1⟩ := r1
  obtain ⟨s2, o2⟩ := r2
  have h1 : (∃ e, o1 = .error e) ∧ s1.clients = s.clients := by
    rcases detach_inv hd1 with ⟨e1, e, he⟩ | ⟨info, doc, hi, ha, _, _, hf⟩
    · exact ⟨⟨e, he⟩, by rw [e1]⟩
    · exact key hi ha rfl rfl rfl (detachMode_status_ne' s c d p) hf
  have h2 : (∃ e, o2 = .error e) ∧ s2.clients = s.clients := by
    rcases remove_inv hd2 with ⟨e1, e, he⟩ | ⟨info, doc, hi, ha, _, _, hf⟩
    · exact ⟨⟨e, he⟩, by rw [e1]⟩
    · exact key hi ha rfl rfl rfl (by simp) hf
  exact ⟨h1.1, h1.2, h2.1, h2.2⟩


/-- `lifecycle_refines_spec`, AttachDocument (any value of the guard switch).  `d` is the document
the key resolves to (`FindOrCreateDocInfo`), `fresh` = the pack comes from a new Document instance.
DEVIATION D3 (proved as `attach_after_removed_status_witness`): the document says a Removed
document cannot be reattached; the server only refuses `attached` and `detached`+old instance, so
a client whose status is `removed` for a document that is itself still alive (only reachable with
a crafted RemoveDocument whose pack lacks `IsRemoved`) can attach again. -/
theorem lifecycle_attach (s : Server) (c : ClientId) (key : Nat) (p : Pack) (dp g : Bool)
    (d : DocId) (hd : d = (findOrCreateDoc s key dp).2) (k : Kind) (hk : k = Kind.attach (p.cp.serverSeq == 0))
    (res : Result) (hr : res = step s (.attach c key p dp g)) :
    (specAllows (clientSt s c) (docSt s c d) k = false → regular (docSt s c d) →
      (∃ e, res.2 = .error e ∧ isLifecycleErr e = true) ∧ res.1.clients = s.clients) ∧
    (∀ r, res.2 = .ok r →
      (specAllows (clientSt s c) (docSt s c d) k = true ∨ ¬ regular (docSt s c d)) ∧
      docSt res.1 c d = some .attached) ∧
    (specAllows (clientSt s c) (docSt s c d) k = true → ∀ e, res.2 = .error e → isLifecycleErr e = false) := by
  subst hd; subst hk; subst hr
  simp only [step]
  rcases clientSt_cases s c with ⟨hcs, i, hi, ha⟩ | ⟨hcs, e, he, hle⟩
  rotate_left
  · rw [(reject_client he).1]
    have hnal := specAllows_not_activated hcs (docSt s c (findOrCreateDoc s key dp).2) (Kind.attach (p.cp.serverSeq == 0))
    exact ⟨fun _ _ => ⟨⟨e, rfl, hle⟩, rfl⟩, fun r hr => by simp at hr, fun h => by rw [hnal] at h; simp at h⟩
  have hds : docSt s c (findOrCreateDoc s key dp).2 = i.statusOf (findOrCreateDoc s key dp).2 := docSt_eq hi (findOrCreateDoc s key dp).2
  have hfa := findActiveClient_of hi ha
  have hc1 : (findOrCreateDoc s key dp).1.findClient c = some i := by rw [findOrCreateDoc_findClient]; exact hi
  obtain ⟨doc1, hdoc1⟩ := findOrCreateDoc_exists s key dp
  refine ⟨?_, ?_, ?_⟩
  · -- (a)
    intro hna hreg
    rw [hcs, hds] at hna
    rw [hds] at hreg
    cases hst : i.statusOf (findOrCreateDoc s key dp).2 with
    | none => rw [hst] at hna; simp [specAllows] at hna
    | some st =>
      rw [hst] at hna hreg
      cases st with
      | attaching => simp [specAllows] at hna
      | attached =>
        obtain ⟨h1, h2⟩ := attach_reject_attached hi ha key p dp g hst
        exact ⟨⟨_, h1, rfl⟩, h2⟩
      | detached =>
        have hcp : (p.cp.serverSeq != 0) = true := by
          simp only [specAllows] at hna
          simpa [bne] using hna
        obtain ⟨h1, h2⟩ := attach_reject_detached hi ha key p dp g hst hcp
        exact ⟨⟨_, h1, rfl⟩, h2⟩
      | removed => exact absurd rfl hreg.1
      | none => exact absurd rfl hreg.2
  · -- (b)
    intro r hr
    generalize hres : attach s c key p dp g = rs at hr
    obtain ⟨s', out⟩ := rs
    simp only [] at hr ⊢; subst hr
    rcases attach_inv hres with ⟨_, e, he, _⟩ | ⟨info, hi2, _, haw⟩
    · simp at he
    · rw [hi] at hi2; injection hi2 with hi2; subst hi2
      rcases attachWith_inv haw with ⟨_, _, he⟩ | ⟨doc, _, hcase⟩
      · simp at he
      · rcases hcase with ⟨e, _, he⟩ | ⟨s2, info2, hca, hpp⟩
        · simp at he
        · rcases hpp with ⟨f', hpp, _⟩ | ⟨e, _, he⟩
          rotate_left
          · simp at he
          obtain ⟨info1, hi2, _, hnd, hcase⟩ := clientsAttach_ok hca
          constructor
          · -- the state was one the automaton allows, or an irregular one
            rw [hcs, hds]
            have hnatt : i.statusOf (findOrCreateDoc s key dp).2 ≠ some .attached := by
              rcases hcase with ⟨hatt, _, _⟩ | ⟨_, i', hi', _, hs', _, _⟩
              · intro h; simp [Client.isAttaching, h] at hatt
              · rw [hc1] at hi'; injection hi' with hi'; subst hi'; exact hs'
            cases hst : i.statusOf (findOrCreateDoc s key dp).2 with
            | none => exact Or.inl rfl
            | some st =>
              cases st with
              | attaching => exact Or.inl rfl
              | attached => exact absurd hst hnatt
              | detached =>
                refine Or.inl ?_
                simp only [Client.isAlreadyDetached, hst] at hnd
                simp only [specAllows]
                cases hb : (p.cp.serverSeq != 0) with
                | false => simpa [bne] using hb
                | true => rw [hb] at hnd; simp at hnd
              | removed => exact Or.inr (fun h => h.1 rfl)
              | none => exact Or.inr (fun h => h.2 rfl)
          · obtain ⟨cd0, hcd0, hds'⟩ := docSt_after_ppok (pushPull_ppok hpp)
            simp only [mkFlight_client, mkFlight_doc, mkFlight_status, mkFlight_info] at hcd0 hds'
            rw [hds']
            rw [hi2, AL.get?_set_self] at hcd0
            injection hcd0 with hcd0
            rw [← hcd0]; rfl
  · -- (c)
    intro hal e he
    rw [hcs, hds] at hal
    have hnatt : i.statusOf (findOrCreateDoc s key dp).2 ≠ some .attached := by
      intro h; rw [h] at hal; simp [specAllows] at hal
    have hnd : ¬ (i.statusOf (findOrCreateDoc s key dp).2 = some .detached ∧ (p.cp.serverSeq != 0) = true) := by
      rintro ⟨h1, h2⟩
      rw [h1] at hal
      simp only [specAllows] at hal
      simp [bne, hal] at h2
    obtain ⟨s2, info2, hca⟩ := clientsAttach_allowed hc1 ha doc1.epoch (p.cp.serverSeq != 0) hnatt hnd
    generalize hres : attach s c key p dp g = rs at he
    obtain ⟨s', out⟩ := rs
    simp only [] at he; subst he
    rcases attach_inv hres with ⟨_, e', he', hfe⟩ | ⟨info, hi2, _, haw⟩
    · rw [hfa] at hfe; simp at hfe
    · rw [hi] at hi2; injection hi2 with hi2; subst hi2
      rcases attachWith_inv haw with ⟨hn, _, _⟩ | ⟨doc, hd, hcase⟩
      · rw [hdoc1] at hn; simp at hn
      · rw [hdoc1] at hd; injection hd with hd; subst hd
        rcases hcase with ⟨e', hca', _⟩ | ⟨s2', info2', hca', hpp⟩
        · rw [hca] at hca'; simp at hca'
        · rw [hca] at hca'; injection hca' with e1 e2; injection e2 with e2; subst e1; subst e2
          rcases hpp with ⟨f', _, he'⟩ | ⟨e', hpp, he'⟩
          · simp at he'
          · injection he' with he'; subst he'
            obtain ⟨l, hl⟩ := clientsAttach_findClient hca hc1
            rcases pushPull_error_kind hpp (by simpa using hl) with h | ⟨cp, h⟩
            · exact h
            · obtain ⟨info1, hi2, _, _, hcase⟩ := clientsAttach_ok hca
              have hact2 : info2.activated = true := by
                rw [hi2]
                rcases hcase with ⟨_, _, e1⟩ | ⟨_, i', hi', ha', _, e1, _⟩
                · rw [e1]; exact ha
                · rw [e1]; exact ha'
              obtain ⟨i'', hi''⟩ := updateDocStatus_no_error (i := info2) (d := (findOrCreateDoc s key dp).2) (st := .attached) (cp := cp)
                (cd := attachedEntry info1 (findOrCreateDoc s key dp).2 doc1.epoch) hact2 (by rw [hi2]; exact AL.get?_set_self _ _ _) (by simp)
              simp only [mkFlight_info, mkFlight_doc, mkFlight_status] at h
              rw [hi''] at h; simp at h

/-- DEVIATION D3, witness: status `removed` (document alive) can be attached again -/
theorem attach_after_removed_status_witness :
    let s := run (Server.init pinned) [.activate,
      .attach 0 0 { cp := ⟨0, 0⟩, changes := [presChange 0 1 1], vv := [] } false false,
      .remove 0 0 { cp := ⟨1, 1⟩, changes := [], vv := [], isRemoved := false }]   -- crafted: no IsRemoved
    docSt s 0 0 = some .removed ∧ removedOf s 0 = false ∧
    (step s (.attach 0 0 { cp := ⟨0, 0⟩, changes := [presChange 0 1 2], vv := [] } false false)).2.toOption.isSome = true := by
  decide

/-! ### Activate / Deactivate -/

/-- Activate is always accepted: a new activated client with no documents; nobody else changes -/
theorem lifecycle_activate (s : Server) (hw : WF s) :
    (step s .activate).2.toOption.isSome = true ∧
    clientSt (step s .activate).1 s.nextClient = .activated ∧
    (∀ d, docSt (step s .activate).1 s.nextClient d = none) ∧
    (∀ c, c ≠ s.nextClient → (step s .activate).1.findClient c = s.findClient c) ∧
    clientSt s s.nextClient = .unknown := by
  refine ⟨rfl, ?_, ?_, ?_, ?_⟩
  · simp [step, activate, clientSt, Server.findClient, AL.get?_set_self]
  · intro d; simp [step, activate, docSt, entryOf, AL.get?_set_self]
  · intro c hc
    simp only [step, activate, Server.findClient, AL.get?_set]
    rw [if_neg (Ne.symm hc)]
  · simp only [clientSt]
    cases h : s.findClient s.nextClient with
    | none => rfl
    | some x => exact absurd (hw.clients _ _ h) (Nat.lt_irrefl _)

/-- Deactivate: refused unless the client is activated (nothing changes); when it succeeds the
client is deactivated and every document it held is closed (`deactivate_detaches_all`).
DEVIATIONS D1/D2 (the automaton says Deactivate is allowed from any document state; the server can
fail): `deactivate_blocked_witness`. -/
theorem lifecycle_deactivate (s : Server) (c : ClientId) (order : List DocId) :
    (clientSt s c ≠ .activated →
      (∃ e, (step s (.deactivate c order)).2 = .error e ∧ isLifecycleErr e = true) ∧
      (step s (.deactivate c order)).1 = s) ∧
    (∀ r, (step s (.deactivate c order)).2 = .ok r →
      clientSt s c = .activated ∧ clientSt (step s (.deactivate c order)).1 c = .deactivated ∧
      ∀ d, docSt (step s (.deactivate c order)).1 c d ≠ some .attached ∧
           docSt (step s (.deactivate c order)).1 c d ≠ some .attaching) := by
  constructor
  · intro hcs
    rcases clientSt_cases s c with ⟨h, _⟩ | ⟨_, e, he, hle⟩
    · exact absurd h hcs
    · simp only [step]; rw [(reject_client he).2.2.2.2]; exact ⟨⟨e, rfl, hle⟩, rfl⟩
  · intro r hr
    obtain ⟨i', hi', hact, hopen⟩ := deactivate_detaches_all s c order r hr
    refine ⟨?_, ?_, ?_⟩
    · rcases clientSt_cases s c with ⟨h, _⟩ | ⟨_, e, he, _⟩
      · exact h
      · simp only [step] at hr; rw [(reject_client he).2.2.2.2] at hr; simp at hr
    · simp [clientSt, hi', hact]
    · intro d
      have := hopen d
      rw [docSt_eq hi']
      simp only [isOpenAt] at this
      cases hg : i'.docs.get? d with
      | none => simp [Client.statusOf, hg]
      | some cd =>
        rw [hg] at this
        simp only [Bool.or_eq_false_iff, beq_eq_false_iff_ne] at this
        simp only [Client.statusOf, hg, Option.map_some, ne_eq, Option.some.injEq]
        exact this

/-- DEVIATIONS D1/D2, witnesses on the trees BEFORE their repairs (`pinned`): (D1, memory DB) a client that
still has a document attached which a peer removed cannot be deactivated (`FindDocInfosByIDs` skips removed
documents → count mismatch → internal error) – before `hooks/fix-c11-deactivate-holding-removed.patch`
(`pinned.deactivateDetachesRemoved = false`); repaired: `deactivate_looks_up_removed`,
`deactivate_holding_removed`; (D2) a client attached to a document into which it never stored a change (here: a
presenceless document strips its only, presence-only, change) cannot be deactivated
(`FindLatestChangeInfoByActor` → change not found) – D2 on the tree BEFORE
`hooks/fix-c11-deactivate-without-own-change.patch` (`pinned.detachWithoutOwnChange = false`); repaired:
`clusterDetach_without_own_change`, `deactivate_without_own_change`. -/
theorem deactivate_blocked_witness :
    (let s := run (Server.init pinned) [.activate, .activate,
        .attach 0 0 { cp := ⟨0, 0⟩, changes := [presChange 0 1 1], vv := [] } false false,
        .attach 1 0 { cp := ⟨0, 0⟩, changes := [presChange 1 1 2], vv := [] } false false,
        .remove 0 0 { cp := ⟨1, 1⟩, changes := [], vv := [], isRemoved := true }]
     clientSt s 1 = .activated ∧ (step s (.deactivate 1 [])).2.toOption = none) ∧
    (let s := run (Server.init pinned) [.activate,
        .attach 0 0 { cp := ⟨0, 0⟩, changes := [presChange 0 1 1], vv := [] } true false]   -- disablePresence
     clientSt s 0 = .activated ∧ (step s (.deactivate 0 [])).2.toOption = none) := by
  decide

/-- D1 repaired (`cfg.deactivateDetachesRemoved = true`): Deactivate looks the held documents up by id whether
they are removed or not – for every state the only document it can miss is one that does not exist at all. -/
theorem deactivate_looks_up_removed (s : Server) (h : s.cfg.deactivateDetachesRemoved = true) (d : DocId) :
    s.findHeldDoc d = s.findDoc d := by
  simp [Server.findHeldDoc, h]

/-- … and on the history of D1 (client 1 still holds document 0, client 0 removes it) – with every repair in
(`Server.init {}`) – Deactivate of client 1 succeeds: the client is deactivated, its entry for the removed
document is detached, its version-vector row is gone, nothing is appended to the removed document's log, and
the document stays removed.  Also when the holder had learnt about the removal in a sync before, and when it
holds a second, live document besides the removed one. -/
theorem deactivate_holding_removed :
    (let s := run (Server.init {}) [.activate, .activate,
        .attach 0 0 { cp := ⟨0, 0⟩, changes := [presChange 0 1 1], vv := [] } false false,
        .attach 1 0 { cp := ⟨0, 0⟩, changes := [presChange 1 1 2], vv := [] } false false,
        .remove 0 0 { cp := ⟨1, 1⟩, changes := [], vv := [], isRemoved := true }]
     let s' := (step s (.deactivate 1 [])).1
     clientSt s 1 = .activated ∧ docSt s 1 0 = some .attached ∧ removedOf s 0 = true ∧
     (step s (.deactivate 1 [])).2.toOption.isSome = true ∧ clientSt s' 1 = .deactivated ∧
       docSt s' 1 0 = some .detached ∧ removedOf s' 0 = true ∧ storedLog s' 0 = storedLog s 0 ∧
       ((s'.findDoc 0).map (fun x => x.vvRows.map (·.1))) = some []) ∧
    (let s := run (Server.init {}) [.activate, .activate,
        .attach 0 0 { cp := ⟨0, 0⟩, changes := [presChange 0 1 1], vv := [] } false false,
        .attach 1 0 { cp := ⟨0, 0⟩, changes := [presChange 1 1 2], vv := [] } false false,
        .attach 1 1 { cp := ⟨0, 0⟩, changes := [presChange 1 1 3], vv := [] } false false,
        .remove 0 0 { cp := ⟨1, 1⟩, changes := [], vv := [], isRemoved := true },
        .pushpull 1 0 { cp := ⟨2, 1⟩, changes := [], vv := [] } false false]
     let s' := (step s (.deactivate 1 [])).1
     (step s (.deactivate 1 [])).2.toOption.isSome = true ∧ clientSt s' 1 = .deactivated ∧
       docSt s' 1 0 = some .detached ∧ docSt s' 1 1 = some .detached ∧ (storedLog s' 1).length = 2) := by
  decide

/-- DEVIATION D4, witness (every repair in): Deactivate of an activated client can still be blocked – by the client
itself.  A push-only sync is answered with the REQUEST's checkpoint `serverSeq` (`preparePack` returns before any
check of it, `pushPack` checks it only when something is pushed) and `UpdateClientInfoAfterPushPull` stores it: a
client claiming `serverSeq 5` on a document whose head is 1 has a stored checkpoint beyond the head, and every later
write of that client – the presence clear of the server-side detach included – is refused with
`ErrInvalidServerSeq`.  So "Deactivate of an activated client succeeds" needs the invariant `checkpoint ≤ head`,
which well-behaved clients keep and a crafted request breaks (corpus/C11/proto-deactivate-crafted-checkpoint.trace). -/
theorem deactivate_blocked_by_crafted_checkpoint_witness :
    let s := run (Server.init {}) [.activate,
      .attach 0 0 { cp := ⟨0, 0⟩, changes := [presChange 0 1 1], vv := [] } false false,
      .pushpull 0 0 { cp := ⟨5, 1⟩, changes := [], vv := [] } true false]          -- push-only, crafted serverSeq
    clientSt s 0 = .activated ∧ ((s.findClient 0).map (fun i => (i.checkpoint 0).serverSeq)) = some 5 ∧
    headOfDoc s 0 = some 1 ∧
    errOf (step s (.deactivate 0 [])).2 = some .invalidServerSeq ∧
    clientSt (step s (.deactivate 0 [])).1 0 = .activated := by
  decide

/-- D2 repaired (`cfg.detachWithoutOwnChange = true`): the server-side detach no longer depends on whether the
client has a stored change at or below its checkpoint – for every state its outcome is the outcome of pushing
the presence-clear change. -/
theorem clusterDetach_without_own_change (s : Server) (h : s.cfg.detachWithoutOwnChange = true)
    (c : ClientId) (d : DocId) (info : Client) (doc : Doc)
    (hc : s.findActiveClient c = .ok info) (hd : s.findDoc d = some doc) :
    clusterDetach s c d =
      ((pushPull s (mkFlight c d info (detachMode s c d (clusterPack c (info.checkpoint d))).1 true
          (detachMode s c d (clusterPack c (info.checkpoint d))).2 false doc.disablePresence)).1,
       (pushPull s (mkFlight c d info (detachMode s c d (clusterPack c (info.checkpoint d))).1 true
          (detachMode s c d (clusterPack c (info.checkpoint d))).2 false doc.disablePresence)).2.map (fun _ => ())) := by
  simp only [clusterDetach, h, hc, hd, Bool.not_true, Bool.false_and, Bool.false_eq_true, if_false]
  generalize pushPull s _ = r
  obtain ⟨s', x⟩ := r
  cases x <;> rfl

/-- … and on the three histories that blocked Deactivate before the repair it now succeeds, deactivates the
client, leaves it no open document and no version-vector row: (1) a presenceless document (the only change
of the client was stripped), (2) an attacher that pushed nothing at all, (3) a client whose only changes were
stored by push-only syncs (they lie above its checkpoint). -/
theorem deactivate_without_own_change :
    (let s := run (Server.init fixed) [.activate,
        .attach 0 0 { cp := ⟨0, 0⟩, changes := [presChange 0 1 1], vv := [] } true false]
     let s' := (step s (.deactivate 0 [])).1
     (step s (.deactivate 0 [])).2.toOption.isSome = true ∧ clientSt s' 0 = .deactivated ∧
       docSt s' 0 0 = some .detached) ∧
    (let s := run (Server.init fixed) [.activate, .activate,
        .attach 0 0 { cp := ⟨0, 0⟩, changes := [presChange 0 1 1], vv := [] } false false,
        .attach 1 0 { cp := ⟨0, 0⟩, changes := [], vv := [] } false false]
     let s' := (step s (.deactivate 1 [])).1
     (step s (.deactivate 1 [])).2.toOption.isSome = true ∧ clientSt s' 1 = .deactivated ∧
       docSt s' 1 0 = some .detached ∧ (storedLog s' 0).length = 2) ∧
    (let s := run (Server.init fixed) [.activate, .activate,
        .attach 0 0 { cp := ⟨0, 0⟩, changes := [presChange 0 1 1], vv := [] } false false,
        .attach 1 0 { cp := ⟨0, 0⟩, changes := [], vv := [] } false false,
        .pushpull 1 0 { cp := ⟨1, 0⟩, changes := [opsChange 1 1 1 2], vv := [(1, 1)] } true false]
     let s' := (step s (.deactivate 1 [])).1
     (step s (.deactivate 1 [])).2.toOption.isSome = true ∧ clientSt s' 1 = .deactivated ∧
       docSt s' 1 0 = some .detached ∧
       (storedLog s' 0).map (fun r => (r.serverSeq, r.actor, r.clientSeq, r.lamport, r.hasOps)) =
         [(1, 0, 1, 0, false), (2, 1, 1, 1, true), (3, 1, 2, 0, false)]) ∧
    -- the same three histories on the tree before the repair: all blocked
    (∀ h ∈ [[Request.activate, .attach 0 0 { cp := ⟨0, 0⟩, changes := [presChange 0 1 1], vv := [] } true false]],
      (step (run (Server.init pinned) h) (.deactivate 0 [])).2.toOption = none) := by
  decide

/-- C11 `lifecycle_refines_spec`: for every state and every request, the model's accept/reject
decision and the resulting statuses equal the documented automaton – with the guard in place
(`cfg.detachGuardFirst = true`).  Without the guard the only difference is
`lifecycle_detach_remove_pinned`.  Deviations of the server from the document that hold for both
values: D1/D2 (`deactivate_blocked_witness`), D3 (`attach_after_removed_status_witness`), and the
error *code* for Attach-while-attached is `ErrClientNotFound` (from `TryAttaching`). -/
theorem lifecycle_refines_spec (s : Server) (hg : s.cfg.detachGuardFirst = true) :
    (∀ c d p po g, Refines s c d .pushpull false (step s (.pushpull c d p po g))) ∧
    (∀ c d p, Refines s c d .detach (lastHolder s c d) (step s (.detach c d p))) ∧
    (∀ c d p, Refines s c d .remove false (step s (.remove c d p))) ∧
    (∀ c key p dp g,
      (∀ r, (step s (.attach c key p dp g)).2 = .ok r →
        (specAllows (clientSt s c) (docSt s c (findOrCreateDoc s key dp).2) (.attach (p.cp.serverSeq == 0)) = true ∨
          ¬ regular (docSt s c (findOrCreateDoc s key dp).2)) ∧
        docSt (step s (.attach c key p dp g)).1 c (findOrCreateDoc s key dp).2 = some .attached) ∧
      (specAllows (clientSt s c) (docSt s c (findOrCreateDoc s key dp).2) (.attach (p.cp.serverSeq == 0)) = false →
        regular (docSt s c (findOrCreateDoc s key dp).2) →
        (∃ e, (step s (.attach c key p dp g)).2 = .error e ∧ isLifecycleErr e = true) ∧
        (step s (.attach c key p dp g)).1.clients = s.clients)) ∧
    (∀ c order, clientSt s c ≠ .activated → (step s (.deactivate c order)).1 = s) :=
  ⟨fun c d p po g => lifecycle_pushpull s c d p po g,
   fun c d p => lifecycle_detach s hg c d p,
   fun c d p => lifecycle_remove s hg c d p,
   fun c key p dp g => ⟨(lifecycle_attach s c key p dp g _ rfl _ rfl _ rfl).2.1,
     (lifecycle_attach s c key p dp g _ rfl _ rfl _ rfl).1⟩,
   fun c order h => ((lifecycle_deactivate s c order).1 h).2⟩

/-- non-vacuity: the table has allowed and refused entries, and a reachable state exercises both -/
example :
    let s := run (Server.init fixed) [.activate,
      .attach 0 0 { cp := ⟨0, 0⟩, changes := [presChange 0 1 1], vv := [] } false false]
    s.cfg.detachGuardFirst = true ∧
    specAllows (clientSt s 0) (docSt s 0 0) .pushpull = true ∧ specAllows (clientSt s 0) (docSt s 0 0) (.attach true) = false ∧
    specAllows (clientSt s 1) (docSt s 1 0) .detach = false := by decide

end Yorkie.Props.C11
