/-
Discharges `ArrayLemmas` with the array-level commutation lemmas of `YorkieModel.Lemmas.Array`
and states the laws of the convergence instantiation without assumptions.
-/
import YorkieModel.Lemmas.DocComm
import YorkieModel.Lemmas.Array
namespace Yorkie.Crdt
open Yorkie

theorem arrayLemmas : ArrayLemmas where
  add_add := fun s p₁ t₁ p₂ t₂ _ _ _ ht h₁ h₂ _ _ => arrAdd_arrAdd_comm p₁ t₁ p₂ t₂ s ht h₁ h₂
  add_move := fun s p₁ t₁ p₂ g₂ t₂ hs _ _ ht h₁ h₂ hg _ _ =>
    arrAdd_arrMove_comm p₁ t₁ p₂ g₂ t₂ s hs ht h₁ h₂ hg
  add_set := fun s p₁ t₁ g₂ t₂ _ _ _ ht h₁ h₂ _ _ => arrAdd_arrSet_comm p₁ t₁ g₂ t₂ s ht h₁ h₂
  move_move := fun s p₁ g₁ t₁ p₂ g₂ t₂ _ hf₁ hf₂ ht h₁ h₂ _ _ _ _ =>
    arrMove_arrMove_comm_of_fresh p₁ g₁ t₁ p₂ g₂ t₂ s hf₁ hf₂ ht h₁ h₂
  move_set := fun s p₁ g₁ t₁ g₂ t₂ hs _ _ ht h₁ hg₁ hg₂ _ _ =>
    arrMove_arrSet_comm p₁ g₁ t₁ g₂ t₂ s hs ht h₁ hg₁ hg₂
  set_set := fun s g₁ t₁ g₂ t₂ _ _ _ ht h₁ h₂ _ _ => arrSet_arrSet_comm g₁ t₁ g₂ t₂ s ht h₁ h₂

/-- (H2') without assumptions -/
theorem swap_closed {d : Doc} {a b : Op} (ha : Pre d a) (hb : Pre (apply d a) b) (hi : Indep a b) :
    Pre d b ∧ Pre (apply d b) a ∧ apply (apply d a) b = apply (apply d b) a :=
  swap arrayLemmas ha hb hi

end Yorkie.Crdt
