/-
Helper lemmas for Model/Conc.lean, part 12: client sequences per actor and attachment generation
with requests in flight (the concurrent form of `SInv`, DESIGN F.1 I1/I2), for
`conc_per_actor_clientSeq_ordered`.

Sequentially, the rows of the current generation of an open attachment carry the client sequences
1..k with `k` = the stored client sequence (`SInv.cur`).  With requests in flight `k` is the
stored client sequence as long as no request of that client on that document is between its push
and its return (`S12.cur`), and the `cpAfterPush` of that request while there is one (`F3.cnt`).
-/
import YorkieModel.Lemmas.ConcGenMain
namespace Yorkie.Conc
open Yorkie Yorkie.Server

/-- no request of client `c` on document `d` is between its push and its return -/
def NoPending (fl : List InFlight) (c : ClientId) (d : DocId) : Prop :=
  ∀ x ∈ fl, Pending x → ¬ (x.f.client = c ∧ x.f.doc = d)

/-- third record per request in flight: client sequences -/
structure F3 (s : Server) (r : InFlight) : Prop where
  /-- `validateClientSeqContinuity` passed (kept while the pack is unchanged) -/
  cont : (r.pc = .strip ∨ r.pc = .push) → r.f.disablePresence = false →
    seqsContinuous (r.f.info.checkpoint r.f.doc).clientSeq ((r.f.info.checkpoint r.f.doc).clientSeq + 1)
      r.f.pack.changes = true
  /-- after its push the rows of its generation are numbered 1..cpAfterPush -/
  cnt : Pending r → r.f.disablePresence = false →
    csOf (ownRows s r.f.doc r.f.client (r.f.info.genOf r.f.doc)) = List.range' 1 r.f.cpAfterPush.clientSeq
  /-- `UpdateDocStatus` stored exactly the response checkpoint -/
  exact : 5 ≤ r.pc.ord → r.pc ≠ .done → ∀ cd, r.f.info.docs.get? r.f.doc = some cd → cd.status = .attached →
    cd.clientSeq = r.f.resp.cp.clientSeq

structure S12 (s : Server) (fl : List InFlight) : Prop where
  /-- per actor and generation: client sequences 1..k, in log order -/
  runs : ∀ c d g, dpOf s d = false → ∃ k, csOf (ownRows s d c g) = List.range' 1 k
  /-- … and for the current generation of an open attachment with no request between push and
  return, `k` is the stored client sequence -/
  cur : ∀ c d cd, dpOf s d = false → entryOf s c d = some cd → isOpenSt cd.status = true → NoPending fl c d →
    csOf (ownRows s d c cd.gen) = List.range' 1 cd.clientSeq

structure SC (σ : Sys) : Prop where
  s : S12 σ.srv σ.flights
  fl3 : ∀ r ∈ σ.flights, Active r → F3 σ.srv r

/-- the generic transition: client `c` appends its own rows `P` (generation `e'.gen`) to document
`d`, its entry becomes `e'`; the facts about (c, d, e'.gen) are supplied by the caller -/
theorem S12.trans {s s' : Server} {fl fl' : List InFlight} (h : S12 s fl) (c : ClientId) (d : DocId) (P : List Row)
    (e' : ClientDoc)
    (hlog : storedLog s' d = storedLog s d ++ P) (hother : ∀ d', d' ≠ d → storedLog s' d' = storedLog s d')
    (hdp : ∀ d', dpOf s' d' = false → dpOf s d' = false)
    (hP : ∀ r ∈ P, r.actor = c ∧ r.gen = e'.gen)
    (hents : ∀ c' d', (c' ≠ c ∨ d' ≠ d) → entryOf s' c' d' = entryOf s c' d')
    (hent : entryOf s' c d = some e')
    (hkeep : ∀ x ∈ fl, Pending x → ¬ (x.f.client = c ∧ x.f.doc = d) →
      ∃ y ∈ fl', Pending y ∧ y.f.client = x.f.client ∧ y.f.doc = x.f.doc)
    (hrunsNew : dpOf s' d = false → ∃ k, csOf (ownRows s d c e'.gen ++ P) = List.range' 1 k)
    (hcurNew : dpOf s' d = false → isOpenSt e'.status = true → NoPending fl' c d →
      csOf (ownRows s d c e'.gen ++ P) = List.range' 1 e'.clientSeq) : S12 s' fl' := by
  refine ⟨?_, ?_⟩
  · intro c' d' g hd
    by_cases hdd : d' = d
    · subst hdd
      rw [ownRows_append_same hlog]
      by_cases ht : c' = c ∧ g = e'.gen
      · obtain ⟨hc, hg⟩ := ht
        subst hc; subst hg
        rw [filter_byGen_all hP]; exact hrunsNew hd
      · have hne : c' ≠ c ∨ g ≠ e'.gen := by
          by_cases hc : c' = c
          · exact Or.inr (fun hg => ht ⟨hc, hg⟩)
          · exact Or.inl hc
        rw [filter_byGen_none hP hne, List.append_nil]; exact h.runs c' d' g (hdp d' hd)
    · simp only [ownRows, hother d' hdd]; exact h.runs c' d' g (hdp d' hd)
  · intro c' d' cd hd hcd ho hnp
    by_cases ht : c' = c ∧ d' = d
    · obtain ⟨hc, hdd⟩ := ht
      subst hc; subst hdd
      rw [hent] at hcd; injection hcd with hcd; subst hcd
      rw [ownRows_append_same hlog, filter_byGen_all hP]
      exact hcurNew hd ho hnp
    · have hne : c' ≠ c ∨ d' ≠ d := by
        by_cases hc : c' = c
        · exact Or.inr (fun hd => ht ⟨hc, hd⟩)
        · exact Or.inl hc
      rw [hents c' d' hne] at hcd
      have hnp0 : NoPending fl c' d' := by
        intro x hx hpx hxt
        have hxne : ¬ (x.f.client = c ∧ x.f.doc = d) := by
          rintro ⟨h1, h2⟩; exact ht ⟨hxt.1.symm.trans h1, hxt.2.symm.trans h2⟩
        obtain ⟨y, hy, hpy, hyc, hyd⟩ := hkeep x hx hpx hxne
        exact hnp y hy hpy ⟨hyc.trans hxt.1, hyd.trans hxt.2⟩
      by_cases hdd : d' = d
      · subst hdd
        have hcne : c' ≠ c := by
          rcases hne with hne | hne
          · exact hne
          · exact absurd rfl hne
        rw [ownRows_append_same hlog, filter_byGen_none hP (Or.inl hcne), List.append_nil]
        exact h.cur c' d' cd (hdp d' hd) hcd ho hnp0
      · simp only [ownRows, hother d' hdd]; exact h.cur c' d' cd (hdp d' hd) hcd ho hnp0

/-- logs and entries unchanged; every pending request stays pending -/
theorem S12.same {s s' : Server} {fl fl' : List InFlight} (h : S12 s fl) (hlog : ∀ d, storedLog s' d = storedLog s d)
    (hdp : ∀ d, dpOf s' d = false → dpOf s d = false) (hents : ∀ c d, entryOf s' c d = entryOf s c d)
    (hkeep : ∀ x ∈ fl, Pending x → ∃ y ∈ fl', Pending y ∧ y.f.client = x.f.client ∧ y.f.doc = x.f.doc) :
    S12 s' fl' := by
  refine ⟨?_, ?_⟩
  · intro c d g hd; simp only [ownRows, hlog]; exact h.runs c d g (hdp d hd)
  · intro c d cd hd hcd ho hnp
    rw [hents] at hcd
    simp only [ownRows, hlog]
    refine h.cur c d cd (hdp d hd) hcd ho ?_
    intro x hx hpx hxt
    obtain ⟨y, hy, hpy, hyc, hyd⟩ := hkeep x hx hpx
    exact hnp y hy hpy ⟨hyc.trans hxt.1, hyd.trans hxt.2⟩

theorem F3.frame {s s' : Server} {r : InFlight} (h : F3 s r)
    (hrows : ownRows s' r.f.doc r.f.client (r.f.info.genOf r.f.doc) = ownRows s r.f.doc r.f.client (r.f.info.genOf r.f.doc)) :
    F3 s' r :=
  ⟨h.cont, by rw [hrows]; exact h.cnt, h.exact⟩

theorem dpOf_findDoc {s : Server} {d : DocId} {doc : Doc} (h : s.findDoc d = some doc) : dpOf s d = doc.disablePresence := by
  simp [dpOf, h]

/-- `dpOf` can only go from "absent" (false) to the fixed option of the document -/
theorem dpOf_ext {s s' : Server} (ext : DocsExt s s') (d : DocId) (h : dpOf s' d = false) : dpOf s d = false := by
  cases hd : s.findDoc d with
  | none => simp [dpOf, hd]
  | some doc =>
    obtain ⟨y, hy, e⟩ := ext.old d doc hd
    have hy' : s'.findDoc d = some y := hy
    rw [dpOf_findDoc hy', e.dp] at h
    rw [dpOf_findDoc hd]; exact h

end Yorkie.Conc
