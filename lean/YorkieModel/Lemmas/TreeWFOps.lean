/-
`Tree.WF` through position resolution (`SplitText`, the text branch of `TreeNode.Split`,
`FindTreeNodesWithSplitText`) and through `Tree.Style`/`Tree.RemoveStyle`.
-/
import YorkieModel.Lemmas.TreeWFFrame
namespace Yorkie.Tree
open Yorkie

/-- the right half `SplitText` allocates -/
def splitRight (nd : TNode) (k : Nat) : TNode :=
  { mkNode ⟨nd.id.createdAt, k + nd.id.offset⟩ nd.type (Text.sanitize (nd.value.drop k)) [] with
    removedAt := nd.removedAt, mergedFrom := nd.mergedFrom, mergedAt := nd.mergedAt }

/-- the left half: value and cached lengths of `n` rewritten -/
def splitLeft (t : Tree) (n : Ptr) (k : Nat) : Tree :=
  t.modify n (fun x => { x with value := Text.sanitize ((t.get n).value.take k),
                                visLen := splitLenW fixSplitTextLength ((t.get n).value.take k),
                                totLen := splitLenW fixSplitTextLength ((t.get n).value.take k) })

theorem splitText_eq (t : Tree) (n : Ptr) (off : Int) :
    t.splitText n off =
      if off == 0 || off == (t.get n).visLen then .ok (t, none)
      else if off < 0 || off > (t.get n).visLen then .error .splitRange
      else if (Text.decodeU16 ((t.get n).value.drop off.toNat)).isEmpty then .ok (t, none)
      else match (t.get n).parent with
        | none => .error .panic
        | some par =>
          match ((splitLeft t n off.toNat).alloc (splitRight (t.get n) off.toNat)).1.insertAfterInternal par t.size n with
          | .error e => .error e
          | .ok t3 => .ok (t3, some t.size) := rfl

theorem splitText_good {t t' : Tree} {sp : Option Ptr} (w : t.WF) (n : Ptr) (off : Int)
    (h : t.splitText n off = .ok (t', sp)) :
    t'.WF ∧ Keeps t t' ∧ (sp = none → t' = t) ∧
    (∀ s, sp = some s → s = t.size ∧ t'.size = t.size + 1 ∧ ∀ q, q ≠ s → (t'.get q).parent = (t.get q).parent) := by
  rw [splitText_eq] at h
  split at h
  · cases h; exact ⟨w, Keeps.refl _, fun _ => rfl, fun s hs => by cases hs⟩
  · split at h
    · cases h
    · split at h
      · cases h; exact ⟨w, Keeps.refl _, fun _ => rfl, fun s hs => by cases hs⟩
      · split at h
        · cases h
        · rename_i par hpar
          split at h
          · cases h
          · rename_i t3 h3
            cases h
            have w1 : (splitLeft t n off.toNat).WF := w.modify n _ (fun _ => rfl) (fun _ => rfl) (fun _ => rfl)
            have w2 := w1.alloc (splitRight (t.get n) off.toNat) rfl rfl
            have hs2 : ((splitLeft t n off.toNat).alloc (splitRight (t.get n) off.toNat)).1.size = t.size + 1 := rfl
            have g2 := get_alloc (splitLeft t n off.toNat) (splitRight (t.get n) off.toNat) w1.size_eq
            have hparlt : par < t.size := (w.parent_child n par hpar).1
            have hpn : (((splitLeft t n off.toNat).alloc (splitRight (t.get n) off.toNat)).1.get t.size).parent = none := by
              rw [g2]; simp [splitLeft]; rfl
            have hn2 : par < ((splitLeft t n off.toNat).alloc (splitRight (t.get n) off.toNat)).1.size := by
              rw [hs2]; exact Nat.lt_succ_of_lt hparlt
            have hnew2 : t.size < ((splitLeft t n off.toNat).alloc (splitRight (t.get n) off.toNat)).1.size := by
              rw [hs2]; exact Nat.lt_succ_self _
            have w3 := w2.insertAfterInternal par t.size n hn2 hnew2 hpn h3
            have k3 := insertAfterInternal_keeps w2 par t.size n hn2 hnew2 h3
            have old : ∀ q, q ≠ t.size → (t'.get q).parent = (t.get q).parent := by
              intro q hq
              rw [k3.2 q hq, g2]
              have : ¬ q = (splitLeft t n off.toNat).size := hq
              simp only [this, if_false]
              unfold splitLeft
              rw [get_modify]; split <;> rfl
            have kp : Keeps t t' :=
              ⟨by rw [k3.1, hs2]; exact Nat.le_succ _, fun q hq hp => by rw [old q (Nat.ne_of_lt hq)]; exact hp⟩
            refine ⟨w3, kp, (fun h => by cases h), fun s hs => ?_⟩
            cases hs; exact ⟨rfl, by rw [k3.1, hs2], old⟩

/-- the link maintenance of `TreeNode.Split` after the node has been split off (`split != nil`), up to the
    final `n.InsNextID = split.id; putNode(split)` -/
def splitMid (t1 : Tree) (n s : Ptr) : Except Err Tree :=
  let nid := (t1.get n).id
  let sid := (t1.get s).id
  let t2 := t1.modify s (fun x => { x with insPrev := some nid })
  match (t2.get n).insNext with
  | none => .ok t2
  | some nx =>
    let insNext := t2.findFloor nx
    let t3 := t2.modify s (fun x => { x with insNext := some nx })
    match insNext with
    | none => .ok t3
    | some q =>
      let t4 := t3.modify q (fun x => { x with insPrev := some sid })
      match t4.parentOf q, t4.parentOf s with
      | some qp, some spar =>
        if !t4.isText n && qp != spar && (t4.kids s true).isEmpty then
          match t4.detachChild spar s with
          | .error e => .error e
          | .ok t5 => t5.insertBefore qp s q
        else .ok t4
      | some _, none => if !t4.isText n && (t4.kids s true).isEmpty then .error .panic else .ok t4
      | none, _ => .ok t4

theorem splitAt_eq (t : Tree) (n : Ptr) (off : Int) (src : TickSrc) (vv : VV) :
    t.splitAt n off src vv =
      match (if t.isText n then
          match t.splitText n off with
          | .error e => .error e
          | .ok (t', sp) => .ok (t', sp, src)
        else
          if off < 0 then .error .panic else
          match t.splitElement n off.toNat src vv with
          | .error e => .error e
          | .ok (t', sp, src') => .ok (t', some sp, src') : Except Err (Tree × Option Ptr × TickSrc)) with
      | .error e => .error e
      | .ok (t1, none, src1) => .ok (t1, src1)
      | .ok (t1, some s, src1) =>
        match splitMid t1 n s with
        | .error e => .error e
        | .ok t6 => .ok ((t6.modify n (fun x => { x with insNext := some (t1.get s).id })).putNode s, src1) := by
  unfold Tree.splitAt
  rfl

theorem SameLinks.putNode (t : Tree) (p : Ptr) : ∀ q, ((t.putNode p).get q) = t.get q := by
  intro q; unfold Tree.putNode
  split
  · split <;> rfl
  · rfl

theorem putNode_size (t : Tree) (p : Ptr) : (t.putNode p).size = t.size := by
  unfold Tree.putNode
  split
  · split <;> rfl
  · rfl

/-- the link maintenance keeps `WF`; only the split-off node may get another parent -/
theorem splitMid_good {t1 t6' : Tree} (w : t1.WF) (n s : Ptr) (hs : s < t1.size) (hr2 : splitMid t1 n s = .ok t6') :
    t6'.WF ∧ t6'.size = t1.size ∧ ∀ q, q ≠ s → (t6'.get q).parent = (t1.get q).parent := by
  unfold splitMid at hr2
  simp only at hr2
  have sl2 := SameLinks.modify t1 s (fun x => { x with insPrev := some (t1.get n).id }) (by intro _; rfl)
  have w2 := w.sameLinks sl2
  split at hr2
  · cases hr2; exact ⟨w2, sl2.1, fun q _ => sl2.parent q⟩
  · rename_i nx _
    have sl3 := sl2.trans (SameLinks.modify _ s (fun x => { x with insNext := some nx }) (by intro _; rfl))
    have w3 := w.sameLinks sl3
    split at hr2
    · cases hr2; exact ⟨w3, sl3.1, fun q _ => sl3.parent q⟩
    · rename_i q hq
      have sl4 := sl3.trans (SameLinks.modify _ q (fun x => { x with insPrev := some (t1.get s).id }) (by intro _; rfl))
      have w4 := w.sameLinks sl4
      split at hr2
      · rename_i qp spar hqp hspar
        split at hr2
        · split at hr2
          · cases hr2
          · rename_i t5 h5
            have w5 := w4.detachChild spar s h5
            have k5 := detachChild_keeps w4 spar s h5
            have hqplt : qp < t5.size := by rw [k5.1]; exact (w4.parent_child q qp hqp).1
            have hslt : s < t5.size := by rw [k5.1, sl4.1]; exact hs
            have w6 := w5.insertBefore qp s q hqplt hslt k5.2.2 hr2
            have k6 := insertBefore_keeps w5 qp s q hqplt hslt hr2
            exact ⟨w6, by rw [k6.1, k5.1, sl4.1], fun x hx => by rw [k6.2 x hx, k5.2.1 x hx, sl4.parent]⟩
        · cases hr2; exact ⟨w4, sl4.1, fun x _ => sl4.parent x⟩
      · split at hr2
        · cases hr2
        · cases hr2; exact ⟨w4, sl4.1, fun x _ => sl4.parent x⟩
      · cases hr2; exact ⟨w4, sl4.1, fun x _ => sl4.parent x⟩

/-- `TreeNode.Split` on a text node -/
theorem splitAt_text_good {t t' : Tree} {src src' : TickSrc} (w : t.WF) (n : Ptr) (off : Int) (vv : VV)
    (ht : t.isText n = true) (h : t.splitAt n off src vv = .ok (t', src')) : t'.WF ∧ Keeps t t' := by
  rw [splitAt_eq] at h
  simp only [ht, if_true] at h
  cases hst : t.splitText n off with
  | error e => simp [hst] at h
  | ok x =>
    obtain ⟨t1, sp⟩ := x
    simp only [hst] at h
    have g := splitText_good w n off hst
    cases sp with
    | none => simp only at h; cases h; exact ⟨g.1, g.2.1⟩
    | some s =>
      simp only at h
      have gs := g.2.2.2 s rfl
      split at h
      · cases h
      · rename_i t6 h6
        cases h
        have hs1 : s < t1.size := by rw [gs.2.1, gs.1]; exact Nat.lt_succ_self _
        have m := splitMid_good g.1 n s hs1 h6
        have sl7 := SameLinks.modify t6 n (fun x => { x with insNext := some (t1.get s).id }) (by intro _; rfl)
        have w7 := m.1.sameLinks sl7
        refine ⟨w7.putNode s (by rw [sl7.1, m.2.1]; exact hs1), ?_⟩
        refine ⟨by rw [putNode_size, sl7.1, m.2.1]; exact g.2.1.1, fun q hq hp => ?_⟩
        rw [SameLinks.putNode, sl7.parent, m.2.2 q (by rw [gs.1]; exact Nat.ne_of_lt hq)]
        exact g.2.1.2 q hq hp

theorem mem_kids {t : Tree} {p c : Ptr} {incl : Bool} (h : c ∈ t.kids p incl) : c ∈ (t.get p).children := by
  unfold Tree.kids at h; exact (List.mem_filter.mp h).1

theorem Tree.WF.kids_lt {t : Tree} (w : t.WF) {p c : Ptr} {incl : Bool} (h : c ∈ t.kids p incl) : c < t.size :=
  w.child_lt p c (mem_kids h)

theorem Tree.WF.parentOf_lt {t : Tree} (w : t.WF) {c p : Ptr} (h : t.parentOf c = some p) : p < t.size :=
  (w.parent_child c p h).1

theorem mergedBoundary_cases (t : Tree) (src : NodeId) (target : Ptr) :
    ∀ (l : List Ptr) (prev : Ptr), mergedBoundary t src target l prev = target ∨
      mergedBoundary t src target l prev = prev ∨ mergedBoundary t src target l prev ∈ l
  | [], _ => Or.inl rfl
  | c :: r, prev => by
    unfold mergedBoundary
    split
    · exact Or.inr (Or.inl rfl)
    · rcases mergedBoundary_cases t src target r c with h | h | h
      · exact Or.inl h
      · exact Or.inr (Or.inr (by rw [h]; exact List.mem_cons_self))
      · exact Or.inr (Or.inr (List.mem_cons_of_mem _ h))

theorem skipNewer_cases (t : Tree) (ts : Ticket) : ∀ (l : List Ptr) (left : Ptr),
    skipNewer t ts l left = left ∨ skipNewer t ts l left ∈ l
  | [], _ => Or.inl rfl
  | c :: r, left => by
    unfold skipNewer
    split
    · rcases skipNewer_cases t ts r c with h | h
      · exact Or.inr (by rw [h]; exact List.mem_cons_self)
      · exact Or.inr (List.mem_cons_of_mem _ h)
    · exact Or.inl rfl

theorem Tree.WF.toTreeNodes_lt {t : Tree} (w : t.WF) {pos : Pos} {pn : Ptr} {ln : Option Ptr}
    (h : t.toTreeNodes pos = some (pn, ln)) : pn < t.size ∧ ∀ l, ln = some l → l < t.size := by
  unfold Tree.toTreeNodes at h
  split at h
  · rename_i pn' ln' h1 h2
    simp only at h
    split at h
    · cases h
      exact ⟨w.findFloor_lt h1, fun l hl => w.findFloorO_lt hl⟩
    · cases h
      exact ⟨w.findFloor_lt h1, fun l hl => by cases hl; exact w.findFloor_lt h2⟩
  · cases h

/-- step 02-1 of `FindTreeNodesWithSplitText`: the redirect into the merge target -/
def redirectOf (t : Tree) (rangeMode : Bool) (realParent : Ptr) (isLeftMost : Bool) : Option (Ptr × Ptr) :=
  match (t.get realParent).mergedInto with
  | some mi =>
    if t.removed realParent && isLeftMost then
      match (if rangeMode then t.parentOf realParent else none) with
      | some rp => some (rp, realParent)
      | none =>
        match t.findFloor mi with
        | some mt =>
          if !t.removed mt then some (mt, mergedBoundary t (t.get realParent).id mt (t.kids mt true) mt) else none
        | none => none
    else none
  | none => none

theorem redirectOf_lt {t : Tree} (w : t.WF) {rangeMode : Bool} {realParent : Ptr} {isLeftMost : Bool} {p l : Ptr}
    (hrp : realParent < t.size) (h : redirectOf t rangeMode realParent isLeftMost = some (p, l)) :
    p < t.size ∧ l < t.size := by
  unfold redirectOf at h
  cases hmi : (t.get realParent).mergedInto with
  | none => simp [hmi] at h
  | some mi =>
    simp only [hmi] at h
    by_cases hc : (t.removed realParent && isLeftMost) = true
    · simp only [hc, if_true] at h
      cases hr : (if rangeMode = true then t.parentOf realParent else none) with
      | some rp =>
        simp only [hr] at h
        cases h
        have : t.parentOf realParent = some p := by
          by_cases hm : rangeMode = true
          · simpa [hm] using hr
          · simp [hm] at hr
        exact ⟨w.parentOf_lt this, hrp⟩
      | none =>
        simp only [hr] at h
        cases hf : t.findFloor mi with
        | none => simp [hf] at h
        | some mt =>
          simp only [hf] at h
          by_cases hm : (!t.removed mt) = true
          · simp only [hm, if_true] at h
            cases h
            have hmtlt := w.findFloor_lt hf
            refine ⟨hmtlt, ?_⟩
            rcases mergedBoundary_cases t (t.get realParent).id p (t.kids p true) p with e | e | e
            · rw [e]; exact hmtlt
            · rw [e]; exact hmtlt
            · exact w.kids_lt e
          · simp [hm] at h
    · simp [hc] at h

theorem findNodesSplit_eq (t : Tree) (pos : Pos) (ts : Ticket) (rangeMode : Bool) :
    t.findNodesSplit pos ts rangeMode =
      match t.toTreeNodes pos with
      | none => .error .notFound
      | some (_, none) => .error .notFound
      | some (parentNode, some leftNode) =>
        let isLeftMost := parentNode == leftNode
        let realParent := match t.parentOf leftNode with
          | some lp => if !isLeftMost then lp else parentNode
          | none => parentNode
        match redirectOf t rangeMode realParent isLeftMost with
        | some (p, l) => .ok (t, p, l)
        | none =>
          let r1 : Except Err Tree :=
            if t.isText leftNode then
              match t.splitAt leftNode ((pos.left.offset : Int) - ((t.get leftNode).id.offset : Int))
                  ⟨[], 0, 0, 0, []⟩ [] with
              | .error e => .error e
              | .ok (t', _) => .ok t'
            else .ok t
          match r1 with
          | .error e => .error e
          | .ok t1 =>
            let all := t1.kids realParent true
            let idx := if isLeftMost then 0 else
              match idxOf (t1.get realParent).children leftNode with
              | some o => o + 1
              | none => 0
            .ok (t1, realParent, skipNewer t1 ts (all.drop idx) leftNode) := by
  unfold Tree.findNodesSplit redirectOf
  rfl

/-- `FindTreeNodesWithSplitText` -/
theorem findNodesSplit_good {t t1 : Tree} {p l : Ptr} (w : t.WF) (pos : Pos) (ts : Ticket) (rangeMode : Bool)
    (h : t.findNodesSplit pos ts rangeMode = .ok (t1, p, l)) :
    t1.WF ∧ Keeps t t1 ∧ p < t1.size ∧ l < t1.size := by
  rw [findNodesSplit_eq] at h
  split at h
  · cases h
  · cases h
  · rename_i parentNode leftNode htn
    have hb := w.toTreeNodes_lt htn
    have hpn := hb.1
    have hln := hb.2 leftNode rfl
    simp only at h
    have hrplt : (match t.parentOf leftNode with
        | some lp => if (!(parentNode == leftNode)) = true then lp else parentNode
        | none => parentNode) < t.size := by
      split
      · rename_i lp hlp
        split
        · exact w.parentOf_lt hlp
        · exact hpn
      · exact hpn
    generalize (match t.parentOf leftNode with
        | some lp => if (!(parentNode == leftNode)) = true then lp else parentNode
        | none => parentNode) = realParent at h hrplt
    split at h
    · rename_i p' l' hred
      cases h
      exact ⟨w, Keeps.refl _, redirectOf_lt w hrplt hred⟩
    · split at h
      · cases h
      · rename_i t1' hr1
        cases h
        have key : t1.WF ∧ Keeps t t1 := by
          split at hr1
          · rename_i htx
            split at hr1
            · cases hr1
            · rename_i t'' src'' hsp
              cases hr1
              exact splitAt_text_good w leftNode _ _ htx hsp
          · cases hr1; exact ⟨w, Keeps.refl _⟩
        refine ⟨key.1, key.2, Nat.lt_of_lt_of_le hrplt key.2.1, ?_⟩
        rcases skipNewer_cases t1 ts ((t1.kids p true).drop
            (if (parentNode == leftNode) = true then 0 else
              match idxOf (t1.get p).children leftNode with
              | some o => o + 1
              | none => 0)) leftNode with e | e
        · rw [e]; exact Nat.lt_of_lt_of_le hln key.2.1
        · exact key.1.kids_lt (List.mem_of_mem_drop e)

end Yorkie.Tree
