/-
C18, text level, part A4 (pre-pass of /repo commit 0cf3884e): `preprocess (marshal v)` is
the JSON text `marshalP v` in which every wrapper is spelled out as an object.  String
literals and object keys need no condition at all; only date payloads must not contain a
quote or a backslash.  Core Lean only.
-/
import YorkieModel.Lemmas.YsonPieces
namespace Yorkie.Yson

/-- `s` is rewritten to `s'` by the pre-pass, which is then outside a literal again with
nothing pending -/
abbrev PP (s s' : Str) : Prop := Good s s'

theorem PP.append {a a' b b' : Str} (ha : PP a a') (hb : PP b b') : PP (a ++ b) (a' ++ b') := Good.append ha hb
theorem PP.nil : PP [] [] := Good.nil
theorem PP.eq {a a' : Str} (h : PP a a') : preprocess a = a' := Good.eq h

def noQuote (s : Str) : Bool := s.all (· != 34)

theorem noQuote_spec {s : Str} (h : noQuote s = true) : ∀ c ∈ s, c ≠ 34 := fun c hc => by
  simpa using (List.all_eq_true.mp h) c hc

/-- a piece between literals that no pass touches -/
theorem PP.inert {s : Str} (hq : noQuote s = true) (h : inertAll s = true) : PP s s :=
  Good.outside (noQuote_spec hq) (dist_of_inert h).1 (dist_of_inert h).2

/-- a piece between literals, rewritten by the ReplaceAll passes -/
theorem PP.piece {s s' : Str} (hq : noQuote s = true) (h : pieceOK s = true)
    (he : applyReplacements replacements s = s') : PP s s' :=
  Good.outside (noQuote_spec hq) (dist_of_pieceOK h).1 (by rw [(dist_of_pieceOK h).2, he])

/-- a constant string literal -/
theorem PP.name {k : Str} (h : litBody k = true) : PP (34 :: (k ++ [34])) (34 :: (k ++ [34])) := Good.strLit h

theorem PP.of_eq {a b : Str} (e : a = b) (h : PP b b) : PP a a := e ▸ h

/-! ### closed pieces -/

theorem pp_null : PP cp%"null" cp%"null" := PP.inert (by decide) (by decide)
theorem pp_true : PP cp%"true" cp%"true" := PP.inert (by decide) (by decide)
theorem pp_false : PP cp%"false" cp%"false" := PP.inert (by decide) (by decide)
theorem pp_nan : PP cp%"NaN" cp%"NaN" := PP.inert (by decide) (by decide)
theorem pp_posInf : PP cp%"+Inf" cp%"+Inf" := PP.inert (by decide) (by decide)
theorem pp_negInf : PP cp%"-Inf" cp%"-Inf" := PP.inert (by decide) (by decide)
theorem pp_comma : PP [44] [44] := PP.inert (by decide) (by decide)
theorem pp_colon : PP [58] [58] := PP.inert (by decide) (by decide)
theorem pp_lbrack : PP [91] [91] := PP.inert (by decide) (by decide)
theorem pp_rbrack : PP [93] [93] := PP.inert (by decide) (by decide)
theorem pp_lbrace : PP [123] [123] := PP.inert (by decide) (by decide)
theorem pp_rbrace : PP [125] [125] := PP.inert (by decide) (by decide)
theorem pp_rbrace2 : PP cp%"}}" cp%"}}" := PP.inert (by decide) (by decide)
theorem pp_childrenClose : PP cp%"]}" cp%"]}" := PP.inert (by decide) (by decide)

theorem pp_val : PP cp%"{\"val\":" cp%"{\"val\":" :=
  PP.of_eq (b := [123] ++ (34 :: (sVal ++ [34])) ++ [58]) (by decide)
    ((pp_lbrace.append (PP.name (by decide))).append pp_colon)
theorem pp_attrsOpen : PP cp%",\"attrs\":{" cp%",\"attrs\":{" :=
  PP.of_eq (b := [44] ++ (34 :: (sAttrs ++ [34])) ++ cp%":{") (by decide)
    ((pp_comma.append (PP.name (by decide))).append (PP.inert (by decide) (by decide)))
theorem pp_type : PP cp%"{\"type\":" cp%"{\"type\":" :=
  PP.of_eq (b := [123] ++ (34 :: (sType ++ [34])) ++ [58]) (by decide)
    ((pp_lbrace.append (PP.name (by decide))).append pp_colon)
theorem pp_value : PP cp%",\"value\":" cp%",\"value\":" :=
  PP.of_eq (b := [44] ++ (34 :: (sValue ++ [34])) ++ [58]) (by decide)
    ((pp_comma.append (PP.name (by decide))).append pp_colon)
theorem pp_children : PP cp%",\"children\":[" cp%",\"children\":[" :=
  PP.of_eq (b := [44] ++ (34 :: (sChildren ++ [34])) ++ cp%":[") (by decide)
    ((pp_comma.append (PP.name (by decide))).append (PP.inert (by decide) (by decide)))
theorem pp_attrsChildren : PP cp%"},\"children\":[" cp%"},\"children\":[" :=
  PP.of_eq (b := cp%"}," ++ (34 :: (sChildren ++ [34])) ++ cp%":[") (by decide)
    (((PP.inert (by decide) (by decide) : PP cp%"}," cp%"},").append (PP.name (by decide))).append
      (PP.inert (by decide) (by decide)))

theorem pp_close : PP cp%")" cp%"}" := PP.piece (by decide) (by decide) (by decide)
theorem pp_int : PP cp%"Int(" cp%"{\"type\":\"Int\",\"value\":" := PP.piece (by decide) (by decide) (by decide)
theorem pp_long : PP cp%"Long(" cp%"{\"type\":\"Long\",\"value\":" := PP.piece (by decide) (by decide) (by decide)
theorem pp_counterInt : PP cp%"Counter(Int(" cp%"{\"type\":\"Counter\",\"value\":{\"type\":\"Int\",\"value\":" :=
  PP.piece (by decide) (by decide) (by decide)
theorem pp_counterLong : PP cp%"Counter(Long(" cp%"{\"type\":\"Counter\",\"value\":{\"type\":\"Long\",\"value\":" :=
  PP.piece (by decide) (by decide) (by decide)
theorem pp_close2 : PP cp%"))" cp%"}}" := PP.piece (by decide) (by decide) (by decide)
/-- `Text(` alone is a proper prefix of the pattern `Text()`; Marshal always prints `Text([` -/
theorem pp_text : PP cp%"Text([" cp%"{\"type\":\"Text\",\"value\":[" := PP.piece (by decide) (by decide) (by decide)
theorem pp_textClose : PP cp%"])" cp%"]}" := PP.piece (by decide) (by decide) (by decide)
/-- likewise `Tree(` is always followed by the `{` of the root node -/
theorem pp_treeOpen : PP cp%"Tree({" cp%"{\"type\":\"Tree\",\"value\":{" := PP.piece (by decide) (by decide) (by decide)
theorem pp_tree : PP cp%"Tree({\"type\":" cp%"{\"type\":\"Tree\",\"value\":{\"type\":" :=
  (PP.append pp_treeOpen ((PP.name (k := sType) (by decide)).append pp_colon) :
    PP (cp%"Tree({" ++ ((34 :: (sType ++ [34])) ++ [58])) _)
theorem pp_bindata : PP cp%"BinData(" cp%"{\"type\":\"BinData\",\"value\":" := PP.piece (by decide) (by decide) (by decide)
theorem pp_date : PP cp%"Date(" cp%"{\"type\":\"Date\",\"value\":" := PP.piece (by decide) (by decide) (by decide)

/-! ### the dedup-counter token -/

theorem takeDigits_append_stop : ∀ (ds : Str) (c : Nat) (Y : Str), ds.all isDigit = true → isDigit c = false →
    takeDigits (ds ++ c :: Y) = (ds, c :: Y)
  | [], c, Y, _, hc => by simp [takeDigits, hc]
  | d :: ds, c, Y, hd, hc => by
    simp only [List.all_cons, Bool.and_eq_true] at hd
    simp [takeDigits, hd.1, takeDigits_append_stop ds c Y hd.2 hc]

theorem showInt_eq (n : Int) : showInt n = (if n < 0 then [45] else []) ++ natDigits n.natAbs := by
  cases n with
  | ofNat m => simp [showInt]
  | negSucc m => simp [showInt, Int.negSucc_lt_zero]

theorem jSign_showInt (n : Int) (Y : Str) :
    jSign (showInt n ++ Y) = ((if n < 0 then [45] else []), natDigits n.natAbs ++ Y) := by
  rw [showInt_eq]
  by_cases hn : n < 0
  · simp [hn, jSign]
  · simp only [hn, if_false, List.nil_append]
    have hne := natDigits_ne_nil n.natAbs
    have hall := natDigits_all n.natAbs
    cases hd : natDigits n.natAbs with
    | nil => exact absurd hd hne
    | cons d ds =>
      rw [hd] at hall
      simp only [List.all_cons, Bool.and_eq_true, isDigit, decide_eq_true_eq] at hall
      have : d ≠ 45 := by omega
      simp only [List.cons_append, jSign]
      split
      · rename_i heq; simp at heq; exact absurd heq.1 this
      · rfl

theorem b64Char_ne_quote (n : Nat) : b64Char n ≠ 34 := by
  have := b64Char_raw n
  simp only [keyNeedsEscape, Bool.or_eq_false_iff, beq_eq_false_iff_ne] at this
  exact this.1.1

theorem b64Encode_no_quote (bs : List Nat) : ∀ c ∈ b64Encode bs, c ≠ 34 :=
  b64Encode_forall (P := fun c => c ≠ 34) b64Char_ne_quote (by decide) bs

/-- what the regexp makes of the head `DedupCounter(Int(n),` -/
def dedupHeadJ (n : Int) : Str :=
  cp%"{\"type\":\"DedupCounter\",\"counterType\":\"Int\",\"value\":" ++ showInt n ++ cp%",\"hll\":"

/-- what the pre-pass makes of the whole token -/
def dedupJ (n : Int) (regs : List Nat) : Str :=
  cp%"{\"type\":\"DedupCounter\",\"counterType\":\"Int\",\"value\":" ++ showInt n ++ cp%",\"hll\":\""
    ++ b64Encode regs ++ cp%"\"}"

def dedupHeadText (n : Int) : Str := cp%"DedupCounter(Int(" ++ showInt n ++ cp%"),"

theorem dedupHeadMatch_head (n : Int) : dedupHeadMatch (dedupHeadText n) = some (showInt n) := by
  have h1 : dedupHeadText n = cp%"DedupCounter(Int(" ++ (showInt n ++ [41, 44]) := by simp [dedupHeadText]
  rw [h1]
  simp only [dedupHeadMatch, stripPrefix_append, jSign_showInt]
  have hds := natDigits_all n.natAbs
  have hne := natDigits_ne_nil n.natAbs
  rw [takeDigits_append_stop _ 41 _ hds (by decide)]
  have hne' : (natDigits n.natAbs).isEmpty = false := by
    cases hd : natDigits n.natAbs with
    | nil => exact absurd hd hne
    | cons => rfl
  simp [hne', showInt_eq]

theorem showInt_quiet (n : Int) : (showInt n).all quietChar = true := by
  rw [showInt_eq]
  have := (digits_quiet (natDigits_all n.natAbs)).1
  by_cases hn : n < 0 <;> simp [hn, this, quietChar]

theorem showInt_noQuote (n : Int) : noQuote (showInt n) = true := by
  rw [showInt_eq]
  have hd := natDigits_all n.natAbs
  have : (natDigits n.natAbs).all (· != 34) = true :=
    List.all_eq_true.mpr (fun c hc => by
      have := (List.all_eq_true.mp hd) c hc
      simp only [isDigit, Bool.and_eq_true, decide_eq_true_eq] at this
      simp; omega)
  by_cases hn : n < 0 <;> simp [hn, noQuote, this]

theorem dedupHeadJ_inert (n : Int) : inertAll (dedupHeadJ n) = true := by
  apply inert_of_quiet
  · simp only [dedupHeadJ, List.all_append, showInt_quiet, Bool.and_true]
    decide
  · simp only [dedupHeadJ]
    exact endsTerm_append (by simp) (by decide)

theorem tokens_dedupHead (n : Int) : preprocessTokens (dedupHeadText n) = dedupHeadJ n := by
  have hi := dedupHeadJ_inert n
  simp only [inertAll, Bool.and_eq_true] at hi
  have hs := inert_stageSafe replacements _ hi.2
  have hcons : dedupHeadText n = 68 :: (dedupHeadText n).tail := by simp [dedupHeadText]
  have hm := dedupHeadMatch_head n
  have : dedupHead (dedupHeadText n) = dedupHeadJ n := by
    rw [hcons]
    simp only [dedupHead]
    rw [← hcons, hm]
    rfl
  simp only [preprocessTokens, this, hs.2]

/-- the whole token `DedupCounter(Int(n),"base64")` – also for empty registers -/
theorem pp_dedup (n : Int) (regs : List Nat) : PP (marshalCounter (.dedup n regs)) (dedupJ n regs) := by
  intro rest
  have e : marshalCounter (.dedup n regs) ++ rest
      = dedupHeadText n ++ (34 :: (b64Encode regs ++ 34 :: (41 :: rest))) := by
    simp [marshalCounter, dedupHeadText]
  have hq : ∀ c ∈ dedupHeadText n, c ≠ 34 := by
    have := noQuote_spec (showInt_noQuote n)
    intro c hc
    simp only [dedupHeadText, List.mem_append] at hc
    rcases hc with (hc | hc) | hc
    · revert c; decide
    · exact this c hc
    · revert c; decide
  rw [e, ppOut_noquote _ [] _ hq, List.nil_append]
  simp only [ppOut, beq_self_eq_true, if_true]
  rw [ppIn_lit _ _ (litBody_of_raw (b64_raw regs)), tokens_dedupHead]
  have := pp_close rest
  simp only [List.cons_append, List.nil_append] at this
  rw [this]
  simp [dedupJ, dedupHeadJ]

/-- the key piece `"k":` (the key goes through quoteJSON like every other string) -/
def keyPiece (k : Str) : Str := quote k ++ [58]

/-! ### the text after the pre-pass -/

def marshalPCounter : Counter → Str
  | .int n => cp%"{\"type\":\"Counter\",\"value\":{\"type\":\"Int\",\"value\":" ++ showInt n ++ cp%"}}"
  | .long n => cp%"{\"type\":\"Counter\",\"value\":{\"type\":\"Long\",\"value\":" ++ showInt n ++ cp%"}}"
  | .dedup n regs => dedupJ n regs

mutual
/-- `Marshal` with every wrapper spelled out as the JSON object the pre-pass makes of it -/
def marshalP : Yson → Str
  | .null => cp%"null"
  | .bool true => cp%"true"
  | .bool false => cp%"false"
  | .double d => marshalDbl d
  | .str s => quote s
  | .int n => cp%"{\"type\":\"Int\",\"value\":" ++ showInt n ++ cp%"}"
  | .long n => cp%"{\"type\":\"Long\",\"value\":" ++ showInt n ++ cp%"}"
  | .bytes b => cp%"{\"type\":\"BinData\",\"value\":\"" ++ (b64Encode b ++ [34]) ++ cp%"}"
  | .date t => cp%"{\"type\":\"Date\",\"value\":\"" ++ (t ++ [34]) ++ cp%"}"
  | .counter c => marshalPCounter c
  | .text ns => cp%"{\"type\":\"Text\",\"value\":[" ++ joinWith [44] (ns.map marshalTextNode) ++ cp%"]}"
  | .tree r => cp%"{\"type\":\"Tree\",\"value\":" ++ marshalTree r ++ cp%"}"
  | .arr xs => [91] ++ joinWith [44] (marshalPList xs) ++ [93]
  | .obj kvs => [123] ++ joinWith [44] (marshalPKvs kvs) ++ [125]
def marshalPList : List Yson → List Str
  | [] => []
  | x :: r => marshalP x :: marshalPList r
def marshalPKvs : List (Str × Yson) → List Str
  | [] => []
  | (k, x) :: r => (keyPiece k ++ marshalP x) :: marshalPKvs r
end

/-! ### lists of pieces -/

inductive PPList : List Str → List Str → Prop
  | nil : PPList [] []
  | cons {a a' : Str} {l l' : List Str} : PP a a' → PPList l l' → PPList (a :: l) (a' :: l')

theorem pp_joinWith {sep : Str} (hsep : PP sep sep) : ∀ {l l' : List Str}, PPList l l' →
    PP (joinWith sep l) (joinWith sep l')
  | [], [], _ => PP.nil
  | [a], [a'], h => by
    cases h with
    | cons h1 _ => simpa [joinWith] using h1
  | a :: b :: r, a' :: b' :: r', h => by
    cases h with
    | cons h1 h2 =>
      have ih := pp_joinWith hsep h2
      have := (PP.append (PP.append h1 hsep) ih)
      simpa [joinWith] using this
  | [], _ :: _, h => by cases h
  | _ :: _, [], h => by cases h
  | [_], _ :: _ :: _, h => by
    cases h with
    | cons _ h2 => cases h2
  | _ :: _ :: _, [_], h => by
    cases h with
    | cons _ h2 => cases h2

theorem forall₂_self {l : List Str} (h : ∀ x ∈ l, PP x x) : PPList l l := by
  induction l with
  | nil => exact .nil
  | cons a r ih =>
    exact .cons (h a (List.mem_cons_self)) (ih (fun x hx => h x (List.mem_cons_of_mem _ hx)))

theorem mem_insertStr {x y : Str} : ∀ {l : List Str}, y ∈ insertStr x l ↔ y = x ∨ y ∈ l
  | [] => by simp [insertStr]
  | a :: r => by
    simp only [insertStr]
    split
    · simp only [List.mem_cons, mem_insertStr (l := r)]
      constructor
      · rintro (h | h | h)
        · exact Or.inr (Or.inl h)
        · exact Or.inl h
        · exact Or.inr (Or.inr h)
      · rintro (h | h | h)
        · exact Or.inr (Or.inl h)
        · exact Or.inl h
        · exact Or.inr (Or.inr h)
    · simp [List.mem_cons]

theorem mem_sortStrs {y : Str} : ∀ {l : List Str}, y ∈ sortStrs l ↔ y ∈ l
  | [] => by simp [sortStrs]
  | a :: r => by simp [sortStrs, mem_insertStr, mem_sortStrs (l := r)]

/-! ### what part A needs: date payloads without quote or backslash.
No condition on strings, keys, text runs, attributes, tree node types and values. -/

def cleanStr (s : Str) : Bool := !s.any (fun c => c == 34 || c == 92)

def Atom.prepassOK : Atom → Bool
  | .date t => cleanStr t
  | _ => true

theorem litBody_of_cleanStr {s : Str} (h : cleanStr s = true) : litBody s = true :=
  litBody_of_clean (fun c hc => by
    simp only [cleanStr, Bool.not_eq_true'] at h
    have := (List.any_eq_false.mp h) c hc
    simpa using this)

theorem cleanStr_of_raw {s : Str} (h : s.any keyNeedsEscape = false) : cleanStr s = true := by
  simp only [cleanStr, Bool.not_eq_true']
  apply List.any_eq_false.mpr
  intro c hc
  have := (List.any_eq_false.mp h) c hc
  simp only [keyNeedsEscape, Bool.or_eq_true, beq_iff_eq, decide_eq_true_eq] at this
  simp only [Bool.or_eq_true, beq_iff_eq]
  omega

theorem prepassOK_of_safe {a : Atom} (h : a.safe = true) : a.prepassOK = true := by
  cases a with
  | date t => exact cleanStr_of_raw (date_raw (safe_date h))
  | _ => rfl

theorem all_prepassOK_of_safe {l : List Atom} (h : l.all Atom.safe = true) : l.all Atom.prepassOK = true :=
  List.all_eq_true.mpr (fun a ha => prepassOK_of_safe ((List.all_eq_true.mp h) a ha))

theorem all_ok_append {l₁ l₂ : List Atom} (h : (l₁ ++ l₂).all Atom.prepassOK = true) :
    l₁.all Atom.prepassOK = true ∧ l₂.all Atom.prepassOK = true := by
  simpa [List.all_append] using h

/-! ### strings, attributes, text runs, trees: unconditional -/

theorem pp_quote (s : Str) : PP (quote s) (quote s) := Good.quote s

theorem pp_attrs (a : Attrs) : ∀ x ∈ a.map renderAttr, PP x x := by
  intro x hx
  obtain ⟨p, _, rfl⟩ := List.mem_map.mp hx
  exact ((pp_quote p.1).append pp_colon).append (pp_quote p.2)

theorem pp_renderAttrs (a : Attrs) : PP (renderAttrs a) (renderAttrs a) :=
  pp_joinWith pp_comma (forall₂_self (fun x hx => pp_attrs a x (mem_sortStrs.mp hx)))

theorem pp_textNode (n : TextNode) : PP (marshalTextNode n) (marshalTextNode n) := by
  simp only [marshalTextNode]
  split
  · exact (pp_val.append (pp_quote n.val)).append pp_rbrace
  · exact (((pp_val.append (pp_quote n.val)).append pp_attrsOpen).append (pp_renderAttrs n.attrs)).append pp_rbrace2

theorem pp_textNodes (ns : List TextNode) : ∀ x ∈ ns.map marshalTextNode, PP x x := by
  intro x hx
  obtain ⟨n, _, rfl⟩ := List.mem_map.mp hx
  exact pp_textNode n

/-- `marshalTree` without its leading `{"type":` -/
def treeRest : TreeNode → Str
  | .mk ty v a c =>
    if ty == sText then quote ty ++ cp%",\"value\":" ++ quote v ++ cp%"}"
    else if a.isEmpty then
      quote ty ++ cp%",\"children\":[" ++ joinWith [44] (marshalTreeList c) ++ cp%"]}"
    else
      quote ty ++ cp%",\"attrs\":{" ++ renderAttrs a ++ cp%"},\"children\":["
        ++ joinWith [44] (marshalTreeList c) ++ cp%"]}"

theorem marshalTree_eq (r : TreeNode) : marshalTree r = cp%"{\"type\":" ++ treeRest r := by
  obtain ⟨ty, v, a, c⟩ := r
  simp only [marshalTree, treeRest]
  split
  · simp [List.append_assoc]
  · split <;> simp [List.append_assoc]

mutual
theorem pp_treeRest : ∀ (r : TreeNode), PP (treeRest r) (treeRest r)
  | .mk ty v a c => by
    have hkids : PP (joinWith [44] (marshalTreeList c)) (joinWith [44] (marshalTreeList c)) :=
      pp_joinWith pp_comma (pp_treeList c)
    simp only [treeRest]
    split
    · exact (((pp_quote ty).append pp_value).append (pp_quote v)).append pp_rbrace
    · split
      · exact (((pp_quote ty).append pp_children).append hkids).append pp_childrenClose
      · exact (((((pp_quote ty).append pp_attrsOpen).append (pp_renderAttrs a)).append pp_attrsChildren).append
          hkids).append pp_childrenClose
theorem pp_treeList : ∀ (c : List TreeNode), PPList (marshalTreeList c) (marshalTreeList c)
  | [] => .nil
  | x :: r => by
    simp only [marshalTreeList]
    refine .cons ?_ (pp_treeList r)
    rw [marshalTree_eq]
    exact pp_type.append (pp_treeRest x)
end

/-! ### the main statement of part A -/

theorem pp_counter (c : Counter) : PP (marshalCounter c) (marshalPCounter c) := by
  cases c with
  | int n => exact (pp_counterInt.append (PP.inert (showInt_noQuote n) (showInt_inert n))).append pp_close2
  | long n => exact (pp_counterLong.append (PP.inert (showInt_noQuote n) (showInt_inert n))).append pp_close2
  | dedup n regs => exact pp_dedup n regs

theorem dbl_noQuote {t : Str} (h : isJsonNumber t = true) : noQuote t = true := by
  have hd := jNumber_digitEnd (isJsonNumber_spec h)
  exact List.all_eq_true.mpr (fun c hc => by
    have := (List.all_eq_true.mp hd.2.1) c hc
    simp only [numChar, isDigit, Bool.or_eq_true, Bool.and_eq_true, decide_eq_true_eq, beq_iff_eq] at this
    simp; omega)

mutual
theorem pp_marshal : ∀ (v : Yson), v.wf = true → (atoms v).all Atom.prepassOK = true → PP (marshal v) (marshalP v)
  | .null, _, _ => pp_null
  | .bool true, _, _ => pp_true
  | .bool false, _, _ => pp_false
  | .double .nan, _, _ => pp_nan
  | .double .posInf, _, _ => pp_posInf
  | .double .negInf, _, _ => pp_negInf
  | .double (.fin t), hw, _ => by
    simp only [Yson.wf] at hw
    exact PP.inert (dbl_noQuote hw) (dbl_inert hw)
  | .str s, _, _ => pp_quote s
  | .int n, _, _ => (pp_int.append (PP.inert (showInt_noQuote n) (showInt_inert n))).append pp_close
  | .long n, _, _ => (pp_long.append (PP.inert (showInt_noQuote n) (showInt_inert n))).append pp_close
  | .bytes b, _, _ => by
    have h1 : marshal (.bytes b) = cp%"BinData(" ++ (34 :: (b64Encode b ++ [34])) ++ cp%")" := by simp [marshal]
    have h2 : marshalP (.bytes b) = cp%"{\"type\":\"BinData\",\"value\":" ++ (34 :: (b64Encode b ++ [34])) ++ cp%"}" := by
      simp [marshalP]
    rw [h1, h2]
    exact (pp_bindata.append (PP.name (litBody_of_raw (b64_raw b)))).append pp_close
  | .date t, _, hs => by
    simp only [atoms, List.all_cons, List.all_nil, Bool.and_true, Atom.prepassOK] at hs
    have h1 : marshal (.date t) = cp%"Date(" ++ (34 :: (t ++ [34])) ++ cp%")" := by simp [marshal]
    have h2 : marshalP (.date t) = cp%"{\"type\":\"Date\",\"value\":" ++ (34 :: (t ++ [34])) ++ cp%"}" := by
      simp [marshalP]
    rw [h1, h2]
    exact (pp_date.append (PP.name (litBody_of_cleanStr hs))).append pp_close
  | .counter c, _, _ => pp_counter c
  | .text ns, _, _ =>
    (pp_text.append (pp_joinWith pp_comma (forall₂_self (pp_textNodes ns)))).append pp_textClose
  | .tree r, _, _ => by
    have h1 : marshal (.tree r) = cp%"Tree({\"type\":" ++ treeRest r ++ cp%")" := by
      simp [marshal, marshalTree_eq]
    have h2 : marshalP (.tree r) = cp%"{\"type\":\"Tree\",\"value\":{\"type\":" ++ treeRest r ++ cp%"}" := by
      simp [marshalP, marshalTree_eq]
    rw [h1, h2]
    exact (pp_tree.append (pp_treeRest r)).append pp_close
  | .arr xs, hw, hs => by
    simp only [Yson.wf] at hw
    simp only [atoms] at hs
    exact (pp_lbrack.append (pp_joinWith pp_comma (pp_marshalList xs hw hs))).append pp_rbrack
  | .obj kvs, hw, hs => by
    simp only [Yson.wf, Bool.and_eq_true] at hw
    simp only [atoms] at hs
    obtain ⟨_, hs2⟩ := all_ok_append hs
    exact (pp_lbrace.append (pp_joinWith pp_comma (pp_marshalKvs kvs hw.2 hs2))).append pp_rbrace
theorem pp_marshalList : ∀ (xs : List Yson), Yson.wfList xs = true → (atomsList xs).all Atom.prepassOK = true →
    PPList (marshalList xs) (marshalPList xs)
  | [], _, _ => .nil
  | x :: r, hw, hs => by
    simp only [Yson.wfList, Bool.and_eq_true] at hw
    have hs' : (atoms x ++ atomsList r).all Atom.prepassOK = true := by simpa only [atomsList] using hs
    obtain ⟨hs1, hs2⟩ := all_ok_append hs'
    exact .cons (pp_marshal x hw.1 hs1) (pp_marshalList r hw.2 hs2)
theorem pp_marshalKvs : ∀ (kvs : List (Str × Yson)), Yson.wfKvs kvs = true → (atomsKvs kvs).all Atom.prepassOK = true →
    PPList (marshalKvs kvs) (marshalPKvs kvs)
  | [], _, _ => .nil
  | (k, x) :: r, hw, hs => by
    simp only [Yson.wfKvs, Bool.and_eq_true] at hw
    have hs' : (Atom.key k).prepassOK = true ∧ (atoms x ++ atomsKvs r).all Atom.prepassOK = true := by
      simpa only [atomsKvs, List.all_cons, Bool.and_eq_true] using hs
    obtain ⟨hs1, hs2⟩ := all_ok_append hs'.2
    have hkp : PP (keyPiece k) (keyPiece k) := (pp_quote k).append pp_colon
    have : (quote k ++ [58] ++ marshal x) = keyPiece k ++ marshal x := by simp [keyPiece]
    simp only [marshalKvs, marshalPKvs, this]
    exact .cons (hkp.append (pp_marshal x hw.1.2 hs1)) (pp_marshalKvs r hw.2 hs2)
end

end Yorkie.Yson
