/-
C18, text level, part A4: for a safe well-formed value, `preprocess (marshal v)` is the
JSON text `marshalP v` in which every wrapper is spelled out as an object.
Core Lean only.
-/
import YorkieModel.Lemmas.YsonPieces
namespace Yorkie.Yson

/-- `s` is rewritten to `s'` by the pre-pass, and the pre-pass starts afresh after it -/
structure PP (s s' : Str) : Prop where
  dist : Dist s
  eq : preprocess s = s'

theorem PP.append {a a' b b' : Str} (ha : PP a a') (hb : PP b b') : PP (a ++ b) (a' ++ b') :=
  ⟨ha.dist.append hb.dist, by rw [ha.dist b, ha.eq, hb.eq]⟩

theorem PP.inert {s : Str} (h : inertAll s = true) : PP s s :=
  ⟨(dist_of_inert h).1, (dist_of_inert h).2⟩

theorem PP.piece {s s' : Str} (h : pieceOK s = true) (he : applyReplacements replacements s = s') : PP s s' :=
  ⟨(dist_of_pieceOK h).1, by rw [(dist_of_pieceOK h).2, he]⟩

theorem PP.nil : PP [] [] := ⟨Dist.nil, rfl⟩

/-! ### closed pieces -/

theorem pp_null : PP cp%"null" cp%"null" := PP.inert (by decide)
theorem pp_true : PP cp%"true" cp%"true" := PP.inert (by decide)
theorem pp_false : PP cp%"false" cp%"false" := PP.inert (by decide)
theorem pp_comma : PP [44] [44] := PP.inert (by decide)
theorem pp_colon : PP [58] [58] := PP.inert (by decide)
theorem pp_lbrack : PP [91] [91] := PP.inert (by decide)
theorem pp_rbrack : PP [93] [93] := PP.inert (by decide)
theorem pp_lbrace : PP [123] [123] := PP.inert (by decide)
theorem pp_rbrace : PP [125] [125] := PP.inert (by decide)
theorem pp_val : PP cp%"{\"val\":" cp%"{\"val\":" := PP.inert (by decide)
theorem pp_attrsOpen : PP cp%",\"attrs\":{" cp%",\"attrs\":{" := PP.inert (by decide)
theorem pp_rbrace2 : PP cp%"}}" cp%"}}" := PP.inert (by decide)
theorem pp_type : PP cp%"{\"type\":" cp%"{\"type\":" := PP.inert (by decide)
theorem pp_value : PP cp%",\"value\":" cp%",\"value\":" := PP.inert (by decide)
theorem pp_children : PP cp%",\"children\":[" cp%",\"children\":[" := PP.inert (by decide)
theorem pp_childrenClose : PP cp%"]}" cp%"]}" := PP.inert (by decide)
theorem pp_attrsChildren : PP cp%"},\"children\":[" cp%"},\"children\":[" := PP.inert (by decide)

theorem pp_close : PP cp%")" cp%"}" := PP.piece (by decide) (by decide)
theorem pp_int : PP cp%"Int(" cp%"{\"type\":\"Int\",\"value\":" := PP.piece (by decide) (by decide)
theorem pp_long : PP cp%"Long(" cp%"{\"type\":\"Long\",\"value\":" := PP.piece (by decide) (by decide)
theorem pp_counterInt : PP cp%"Counter(Int(" cp%"{\"type\":\"Counter\",\"value\":{\"type\":\"Int\",\"value\":" :=
  PP.piece (by decide) (by decide)
theorem pp_counterLong : PP cp%"Counter(Long(" cp%"{\"type\":\"Counter\",\"value\":{\"type\":\"Long\",\"value\":" :=
  PP.piece (by decide) (by decide)
theorem pp_close2 : PP cp%"))" cp%"}}" := PP.piece (by decide) (by decide)
/-- `Text(` alone is a proper prefix of the pattern `Text()`; Marshal always prints `Text([` -/
theorem pp_text : PP cp%"Text([" cp%"{\"type\":\"Text\",\"value\":[" := PP.piece (by decide) (by decide)
theorem pp_textClose : PP cp%"])" cp%"]}" := PP.piece (by decide) (by decide)
/-- likewise `Tree(` is always followed by the node's `{"type":` -/
theorem pp_tree : PP cp%"Tree({\"type\":" cp%"{\"type\":\"Tree\",\"value\":{\"type\":" :=
  PP.piece (by decide) (by decide)
theorem pp_bindata : PP cp%"BinData(\"" cp%"{\"type\":\"BinData\",\"value\":\"" := PP.piece (by decide) (by decide)
theorem pp_date : PP cp%"Date(\"" cp%"{\"type\":\"Date\",\"value\":\"" := PP.piece (by decide) (by decide)

/-! ### the dedup-counter token -/

theorem takeDigits_append_stop : ∀ (ds : Str) (c : Nat) (Y : Str), ds.all isDigit = true → isDigit c = false →
    takeDigits (ds ++ c :: Y) = (ds, c :: Y)
  | [], c, Y, _, hc => by simp [takeDigits, hc]
  | d :: ds, c, Y, hd, hc => by
    simp only [List.all_cons, Bool.and_eq_true] at hd
    simp [takeDigits, hd.1, takeDigits_append_stop ds c Y hd.2 hc]

theorem spanNotQuote_append_stop : ∀ (x Y : Str), (∀ c ∈ x, c ≠ 34) → spanNotQuote (x ++ 34 :: Y) = (x, 34 :: Y)
  | [], Y, _ => by simp [spanNotQuote]
  | a :: x, Y, h => by
    have ha : (a == 34) = false := by simpa using h a (List.mem_cons_self)
    simp [spanNotQuote, ha, spanNotQuote_append_stop x Y (fun c hc => h c (List.mem_cons_of_mem _ hc))]

theorem showInt_eq (n : Int) : showInt n = (if n < 0 then [45] else []) ++ natDigits n.natAbs := by
  cases n with
  | ofNat m => simp [showInt]
  | negSucc m => simp [showInt, Int.negSucc_lt_zero]

theorem jSign_showInt (n : Int) (Y : Str) :
    jSign (showInt n ++ Y) = ((if n < 0 then [45] else []), natDigits n.natAbs ++ Y) := by
  rw [showInt_eq]
  by_cases hn : n < 0
  · simp [hn, jSign]
  · simp only [hn, if_false, List.nil_append]
    have hne := natDigits_ne_nil n.natAbs
    have hall := natDigits_all n.natAbs
    cases hd : natDigits n.natAbs with
    | nil => exact absurd hd hne
    | cons d ds =>
      rw [hd] at hall
      simp only [List.all_cons, Bool.and_eq_true, isDigit, decide_eq_true_eq] at hall
      have : d ≠ 45 := by omega
      simp only [List.cons_append, jSign]
      split
      · rename_i heq; simp at heq; exact absurd heq.1 this
      · rfl

theorem b64Char_ne_quote (n : Nat) : b64Char n ≠ 34 := by
  simp only [b64Char]
  split
  · omega
  · split
    · omega
    · split
      · omega
      · split <;> simp

theorem b64Encode_no_quote (bs : List Nat) : ∀ c ∈ b64Encode bs, c ≠ 34 := by
  induction bs using b64Encode.induct with
  | case1 => simp [b64Encode]
  | case2 a =>
    intro x hx
    simp only [b64Encode, List.mem_cons, List.not_mem_nil, or_false] at hx
    rcases hx with rfl | rfl | rfl | rfl
    · exact b64Char_ne_quote _
    · exact b64Char_ne_quote _
    · decide
    · decide
  | case3 a b =>
    intro x hx
    simp only [b64Encode, List.mem_cons, List.not_mem_nil, or_false] at hx
    rcases hx with rfl | rfl | rfl | rfl
    · exact b64Char_ne_quote _
    · exact b64Char_ne_quote _
    · exact b64Char_ne_quote _
    · decide
  | case4 a b c r ih =>
    intro x hx
    simp only [b64Encode, List.mem_cons] at hx
    rcases hx with rfl | rfl | rfl | rfl | h
    · exact b64Char_ne_quote _
    · exact b64Char_ne_quote _
    · exact b64Char_ne_quote _
    · exact b64Char_ne_quote _
    · exact ih x h

theorem b64Encode_ne_nil {bs : List Nat} (h : bs ≠ []) : b64Encode bs ≠ [] := by
  match bs, h with
  | [a], _ => simp [b64Encode]
  | [a, b], _ => simp [b64Encode]
  | a :: b :: c :: r, _ => simp [b64Encode]

/-- what the regexp makes of the token -/
def dedupJ (n : Int) (regs : List Nat) : Str :=
  cp%"{\"type\":\"DedupCounter\",\"counterType\":\"Int\",\"value\":" ++ showInt n ++ cp%",\"hll\":\""
    ++ b64Encode regs ++ cp%"\"}"

theorem dedupMatch_token (n : Int) (regs : List Nat) (hr : regs ≠ []) (b : Str) :
    dedupMatch (marshalCounter (.dedup n regs) ++ b)
      = some (showInt n, b64Encode regs, (marshalCounter (.dedup n regs)).length) := by
  have h1 : marshalCounter (.dedup n regs) ++ b
      = cp%"DedupCounter(Int(" ++ (showInt n ++ (41 :: 44 :: 34 :: (b64Encode regs ++ 34 :: 41 :: b))) := by
    simp [marshalCounter]
  rw [h1]
  simp only [dedupMatch, stripPrefix_append, jSign_showInt]
  have hds := natDigits_all n.natAbs
  have hne := natDigits_ne_nil n.natAbs
  rw [takeDigits_append_stop _ 41 _ hds (by decide)]
  have hne' : (natDigits n.natAbs).isEmpty = false := by
    cases hd : natDigits n.natAbs with
    | nil => exact absurd hd hne
    | cons => rfl
  simp only [hne', Bool.false_eq_true, if_false]
  have h2 : stripPrefix cp%"),\"" (41 :: 44 :: 34 :: (b64Encode regs ++ 34 :: 41 :: b))
      = some (b64Encode regs ++ 34 :: 41 :: b) := stripPrefix_append cp%"),\"" _
  rw [h2]
  simp only [spanNotQuote_append_stop _ _ (b64Encode_no_quote regs)]
  have hbe : (b64Encode regs).isEmpty = false := by
    cases hb : b64Encode regs with
    | nil => exact absurd hb (b64Encode_ne_nil hr)
    | cons => rfl
  simp only [hbe, Bool.false_eq_true, if_false]
  rw [showInt_eq]
  simp [marshalCounter, showInt_eq]
  omega

theorem dedup_token (n : Int) (regs : List Nat) (hr : regs ≠ []) (b : Str) :
    dedupReplace 0 (marshalCounter (.dedup n regs) ++ b) = dedupJ n regs ++ dedupReplace 0 b := by
  have hm := dedupMatch_token n regs hr b
  have hcons : marshalCounter (.dedup n regs) ++ b = 68 :: ((marshalCounter (.dedup n regs)).tail ++ b) := by
    simp [marshalCounter]
  have hlen : (marshalCounter (.dedup n regs)).length - 1 = (marshalCounter (.dedup n regs)).tail.length := by
    simp
  rw [hcons]
  simp only [dedupReplace]
  rw [← hcons, hm]
  simp only [hlen, dedupReplace_skip, dedupJ, List.append_assoc]

theorem dedupJ_inert (n : Int) (regs : List Nat) : inertAll (dedupJ n regs) = true := by
  apply inert_of_quiet
  · have h1 : (showInt n).all quietChar = true := by
      rw [showInt_eq]
      have := (digits_quiet (natDigits_all n.natAbs)).1
      by_cases hn : n < 0 <;> simp [hn, this, quietChar]
    simp only [dedupJ, List.all_append, h1, b64Encode_quiet, Bool.and_true]
    decide
  · simp only [dedupJ]
    exact endsTerm_append (by simp) (by decide)

theorem pp_dedup (n : Int) (regs : List Nat) (hr : regs ≠ []) :
    PP (marshalCounter (.dedup n regs)) (dedupJ n regs) := by
  have hi := dedupJ_inert n regs
  simp only [inertAll, Bool.and_eq_true] at hi
  have hs := inert_stageSafe replacements _ hi.2
  have h0 : dedupReplace 0 (marshalCounter (.dedup n regs)) = dedupJ n regs := by
    have := dedup_token n regs hr []
    simpa [dedupReplace] using this
  have heq : preprocess (marshalCounter (.dedup n regs)) = dedupJ n regs := by
    simp only [preprocess, h0, hs.2]
  refine ⟨?_, heq⟩
  intro b
  rw [heq]
  simp only [preprocess, dedup_token n regs hr b]
  rw [applyReplacements_append replacements _ _ hs.1, hs.2]

/-! ### the text after the pre-pass -/

def marshalPCounter : Counter → Str
  | .int n => cp%"{\"type\":\"Counter\",\"value\":{\"type\":\"Int\",\"value\":" ++ showInt n ++ cp%"}}"
  | .long n => cp%"{\"type\":\"Counter\",\"value\":{\"type\":\"Long\",\"value\":" ++ showInt n ++ cp%"}}"
  | .dedup n regs => dedupJ n regs

mutual
/-- `Marshal` with every wrapper spelled out as the JSON object the pre-pass makes of it -/
def marshalP : Yson → Str
  | .null => cp%"null"
  | .bool true => cp%"true"
  | .bool false => cp%"false"
  | .double d => marshalDbl d
  | .str s => quote s
  | .int n => cp%"{\"type\":\"Int\",\"value\":" ++ showInt n ++ cp%"}"
  | .long n => cp%"{\"type\":\"Long\",\"value\":" ++ showInt n ++ cp%"}"
  | .bytes b => cp%"{\"type\":\"BinData\",\"value\":\"" ++ (b64Encode b ++ [34]) ++ cp%"}"
  | .date t => cp%"{\"type\":\"Date\",\"value\":\"" ++ (t ++ [34]) ++ cp%"}"
  | .counter c => marshalPCounter c
  | .text ns => cp%"{\"type\":\"Text\",\"value\":[" ++ joinWith [44] (ns.map marshalTextNode) ++ cp%"]}"
  | .tree r => cp%"{\"type\":\"Tree\",\"value\":" ++ marshalTree r ++ cp%"}"
  | .arr xs => [91] ++ joinWith [44] (marshalPList xs) ++ [93]
  | .obj kvs => [123] ++ joinWith [44] (marshalPKvs kvs) ++ [125]
def marshalPList : List Yson → List Str
  | [] => []
  | x :: r => marshalP x :: marshalPList r
def marshalPKvs : List (Str × Yson) → List Str
  | [] => []
  | (k, x) :: r => (keyPiece k ++ marshalP x) :: marshalPKvs r
end

/-! ### lists of pieces -/

inductive PPList : List Str → List Str → Prop
  | nil : PPList [] []
  | cons {a a' : Str} {l l' : List Str} : PP a a' → PPList l l' → PPList (a :: l) (a' :: l')

theorem pp_joinWith {sep : Str} (hsep : PP sep sep) : ∀ {l l' : List Str}, PPList l l' →
    PP (joinWith sep l) (joinWith sep l')
  | [], [], _ => PP.nil
  | [a], [a'], h => by
    cases h with
    | cons h1 _ => simpa [joinWith] using h1
  | a :: b :: r, a' :: b' :: r', h => by
    cases h with
    | cons h1 h2 =>
      have ih := pp_joinWith hsep h2
      simpa [joinWith] using (h1.append hsep).append ih
  | [], _ :: _, h => by cases h
  | _ :: _, [], h => by cases h
  | [_], _ :: _ :: _, h => by
    cases h with
    | cons _ h2 => cases h2
  | _ :: _ :: _, [_], h => by
    cases h with
    | cons _ h2 => cases h2

theorem forall₂_self {l : List Str} (h : ∀ x ∈ l, PP x x) : PPList l l := by
  induction l with
  | nil => exact .nil
  | cons a r ih =>
    exact .cons (h a (List.mem_cons_self)) (ih (fun x hx => h x (List.mem_cons_of_mem _ hx)))

theorem mem_insertStr {x y : Str} : ∀ {l : List Str}, y ∈ insertStr x l ↔ y = x ∨ y ∈ l
  | [] => by simp [insertStr]
  | a :: r => by
    simp only [insertStr]
    split
    · simp only [List.mem_cons, mem_insertStr (l := r)]
      constructor
      · rintro (h | h | h)
        · exact Or.inr (Or.inl h)
        · exact Or.inl h
        · exact Or.inr (Or.inr h)
      · rintro (h | h | h)
        · exact Or.inr (Or.inl h)
        · exact Or.inl h
        · exact Or.inr (Or.inr h)
    · simp [List.mem_cons]

theorem mem_sortStrs {y : Str} : ∀ {l : List Str}, y ∈ sortStrs l ↔ y ∈ l
  | [] => by simp [sortStrs]
  | a :: r => by simp [sortStrs, mem_insertStr, mem_sortStrs (l := r)]

/-! ### what `Atom.safe` says about strings and keys -/

theorem safe_qstr {s : Str} (h : Atom.safe (.qstr s) = true) :
    prepassHits s = false ∧ s.any goOnlyEscape = false := by
  simpa [Atom.safe, Tag.all, Atom.hits] using h

theorem safe_key {s : Str} (h : Atom.safe (.key s) = true) :
    prepassHits s = false ∧ s.any keyNeedsEscape = false := by
  simpa [Atom.safe, Tag.all, Atom.hits] using h

theorem safe_dedup {regs : List Nat} (h : Atom.safe (.dedup regs) = true) : regs ≠ [] := by
  have : regs.isEmpty = false := by simpa [Atom.safe, Tag.all, Atom.hits] using h
  intro h0; simp [h0] at this

theorem pp_quote {s : Str} (h : Atom.safe (.qstr s) = true) : PP (quote s) (quote s) :=
  PP.inert (quote_inert (safe_qstr h).1)

theorem pp_attrs : ∀ {a : Attrs}, (attrAtoms a).all Atom.safe = true → ∀ x ∈ a.map renderAttr, PP x x
  | [], _, x, hx => by simp at hx
  | (k, v) :: r, h, x, hx => by
    simp only [attrAtoms, List.all_cons, Bool.and_eq_true] at h
    simp only [List.map_cons, List.mem_cons] at hx
    rcases hx with rfl | hx
    · exact ((pp_quote h.1).append pp_colon).append (pp_quote h.2.1)
    · exact pp_attrs h.2.2 x hx

theorem pp_renderAttrs {a : Attrs} (h : (attrAtoms a).all Atom.safe = true) : PP (renderAttrs a) (renderAttrs a) :=
  pp_joinWith pp_comma (forall₂_self (fun x hx => pp_attrs h x (mem_sortStrs.mp hx)))

theorem pp_textNode {n : TextNode} (h : (textNodeAtoms n).all Atom.safe = true) :
    PP (marshalTextNode n) (marshalTextNode n) := by
  simp only [textNodeAtoms, List.all_cons, Bool.and_eq_true] at h
  simp only [marshalTextNode]
  split
  · exact (pp_val.append (pp_quote h.1)).append pp_rbrace
  · exact (((pp_val.append (pp_quote h.1)).append pp_attrsOpen).append (pp_renderAttrs h.2)).append pp_rbrace2

theorem pp_textNodes : ∀ {ns : List TextNode}, (textAtoms ns).all Atom.safe = true →
    ∀ x ∈ ns.map marshalTextNode, PP x x
  | [], _, x, hx => by simp at hx
  | n :: r, h, x, hx => by
    obtain ⟨h1, h2⟩ := all_safe_append (by simpa [textAtoms] using h)
    simp only [List.map_cons, List.mem_cons] at hx
    rcases hx with rfl | hx
    · exact pp_textNode h1
    · exact pp_textNodes h2 x hx

/-! ### trees -/

/-- `marshalTree` without its leading `{"type":` -/
def treeRest : TreeNode → Str
  | .mk ty v a c =>
    if ty == sText then quote ty ++ cp%",\"value\":" ++ quote v ++ cp%"}"
    else if a.isEmpty then
      quote ty ++ cp%",\"children\":[" ++ joinWith [44] (marshalTreeList c) ++ cp%"]}"
    else
      quote ty ++ cp%",\"attrs\":{" ++ renderAttrs a ++ cp%"},\"children\":["
        ++ joinWith [44] (marshalTreeList c) ++ cp%"]}"

theorem marshalTree_eq (r : TreeNode) : marshalTree r = cp%"{\"type\":" ++ treeRest r := by
  obtain ⟨ty, v, a, c⟩ := r
  simp only [marshalTree, treeRest]
  split
  · simp [List.append_assoc]
  · split <;> simp [List.append_assoc]

mutual
theorem pp_treeRest : ∀ (r : TreeNode), (treeAtoms r).all Atom.safe = true → PP (treeRest r) (treeRest r)
  | .mk ty v a c, h => by
    simp only [treeAtoms, List.all_cons, Bool.and_eq_true] at h
    obtain ⟨hty, hv, hrest⟩ := h
    obtain ⟨ha, hc⟩ := all_safe_append hrest
    have hkids : PP (joinWith [44] (marshalTreeList c)) (joinWith [44] (marshalTreeList c)) :=
      pp_joinWith pp_comma (pp_treeList c hc)
    simp only [treeRest]
    split
    · exact (((pp_quote hty).append pp_value).append (pp_quote hv)).append pp_rbrace
    · split
      · exact (((pp_quote hty).append pp_children).append hkids).append pp_childrenClose
      · exact (((((pp_quote hty).append pp_attrsOpen).append (pp_renderAttrs ha)).append pp_attrsChildren).append
          hkids).append pp_childrenClose
theorem pp_treeList : ∀ (c : List TreeNode), (treeAtomsList c).all Atom.safe = true →
    PPList (marshalTreeList c) (marshalTreeList c)
  | [], _ => .nil
  | x :: r, h => by
    obtain ⟨h1, h2⟩ := all_safe_append (by simpa [treeAtomsList] using h)
    simp only [marshalTreeList]
    refine .cons ?_ (pp_treeList r h2)
    rw [marshalTree_eq]
    exact pp_type.append (pp_treeRest x h1)
end

/-! ### the main statement of part A -/

theorem pp_counter {c : Counter} (h : (atoms (.counter c)).all Atom.safe = true) :
    PP (marshalCounter c) (marshalPCounter c) := by
  cases c with
  | int n => exact (pp_counterInt.append (PP.inert (showInt_inert n))).append pp_close2
  | long n => exact (pp_counterLong.append (PP.inert (showInt_inert n))).append pp_close2
  | dedup n regs =>
    simp only [atoms, List.all_cons, List.all_nil, Bool.and_true] at h
    exact pp_dedup n regs (safe_dedup h)

mutual
theorem pp_marshal : ∀ (v : Yson), v.wf = true → (atoms v).all Atom.safe = true → PP (marshal v) (marshalP v)
  | .null, _, _ => pp_null
  | .bool true, _, _ => pp_true
  | .bool false, _, _ => pp_false
  | .double .nan, _, hs => by simp [atoms, not_safe_nan] at hs
  | .double .posInf, _, hs => by simp [atoms, not_safe_posInf] at hs
  | .double .negInf, _, hs => by simp [atoms, not_safe_negInf] at hs
  | .double (.fin t), hw, _ => by
    simp only [Yson.wf] at hw
    exact PP.inert (dbl_inert hw)
  | .str s, _, hs => by
    simp only [atoms, List.all_cons, List.all_nil, Bool.and_true] at hs
    exact pp_quote hs
  | .int n, _, _ => (pp_int.append (PP.inert (showInt_inert n))).append pp_close
  | .long n, _, _ => (pp_long.append (PP.inert (showInt_inert n))).append pp_close
  | .bytes b, _, _ => by
    have : marshal (.bytes b) = cp%"BinData(\"" ++ (b64Encode b ++ [34]) ++ cp%")" := by simp [marshal]
    rw [this]
    exact (pp_bindata.append (PP.inert (b64q_inert b))).append pp_close
  | .date t, _, hs => by
    simp only [atoms, List.all_cons, List.all_nil, Bool.and_true] at hs
    have : marshal (.date t) = cp%"Date(\"" ++ (t ++ [34]) ++ cp%")" := by simp [marshal]
    rw [this]
    exact (pp_date.append (PP.inert (dateq_inert (safe_date hs)))).append pp_close
  | .counter c, _, hs => pp_counter hs
  | .text ns, _, hs => by
    simp only [atoms] at hs
    exact (pp_text.append (pp_joinWith pp_comma (forall₂_self (pp_textNodes hs)))).append pp_textClose
  | .tree r, _, hs => by
    simp only [atoms] at hs
    have h1 : marshal (.tree r) = cp%"Tree({\"type\":" ++ treeRest r ++ cp%")" := by
      simp [marshal, marshalTree_eq]
    have h2 : marshalP (.tree r) = cp%"{\"type\":\"Tree\",\"value\":{\"type\":" ++ treeRest r ++ cp%"}" := by
      simp [marshalP, marshalTree_eq]
    rw [h1, h2]
    exact (pp_tree.append (pp_treeRest r hs)).append pp_close
  | .arr xs, hw, hs => by
    simp only [Yson.wf] at hw
    simp only [atoms] at hs
    exact (pp_lbrack.append (pp_joinWith pp_comma (pp_marshalList xs hw hs))).append pp_rbrack
  | .obj kvs, hw, hs => by
    simp only [Yson.wf, Bool.and_eq_true] at hw
    simp only [atoms] at hs
    obtain ⟨_, hs2⟩ := all_safe_append hs
    exact (pp_lbrace.append (pp_joinWith pp_comma (pp_marshalKvs kvs hw.2 hs2))).append pp_rbrace
theorem pp_marshalList : ∀ (xs : List Yson), Yson.wfList xs = true → (atomsList xs).all Atom.safe = true →
    PPList (marshalList xs) (marshalPList xs)
  | [], _, _ => .nil
  | x :: r, hw, hs => by
    simp only [Yson.wfList, Bool.and_eq_true] at hw
    obtain ⟨hs1, hs2⟩ := all_safe_append (by simpa [atomsList] using hs)
    exact .cons (pp_marshal x hw.1 hs1) (pp_marshalList r hw.2 hs2)
theorem pp_marshalKvs : ∀ (kvs : List (Str × Yson)), Yson.wfKvs kvs = true → (atomsKvs kvs).all Atom.safe = true →
    PPList (marshalKvs kvs) (marshalPKvs kvs)
  | [], _, _ => .nil
  | (k, x) :: r, hw, hs => by
    simp only [Yson.wfKvs, Bool.and_eq_true] at hw
    simp only [atomsKvs, List.all_cons, Bool.and_eq_true] at hs
    obtain ⟨hs1, hs2⟩ := all_safe_append hs.2
    have hk := safe_key hs.1
    have hq : ∀ c ∈ k, c ≠ 34 := by
      intro c hc h34
      have := (List.any_eq_false.mp hk.2) c hc
      simp [keyNeedsEscape, h34] at this
    have hkp : PP (keyPiece k) (keyPiece k) := PP.inert (key_inert hk.1 hq)
    have : ([34] ++ k ++ [34, 58] ++ marshal x) = keyPiece k ++ marshal x := by simp [keyPiece]
    simp only [marshalKvs, marshalPKvs, this]
    exact .cons (hkp.append (pp_marshal x hw.1.2 hs1)) (pp_marshalKvs r hw.2 hs2)
end

end Yorkie.Yson
