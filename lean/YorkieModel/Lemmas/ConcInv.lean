/-
Helper lemmas for Model/Conc.lean, part 2: well-behaved concurrent runs (`WbReach`: the client
discipline of Lemmas/ServerDelivery checked when a request starts, ghost views updated when a
response arrives), the invariant `CInv` (the sequential delivery invariant `DInv` = I3 + the
client-sequence half of I2/I4, plus one record `FOk` per request in flight) and the frame lemma:
`FOk` of a request mentions only the log prefix it fixed in its push phase, its client's view and
its client's own stored entry, so it is preserved by every step of every OTHER request.
-/
import YorkieModel.Lemmas.Conc
import YorkieModel.Lemmas.ServerSeq
namespace Yorkie.Conc
open Yorkie Yorkie.Server

/-! ### ghost views along a concurrent run -/

/-- an `Attach` always comes from a fresh `Document`: the view is reset when the request starts -/
def ghostStart (s : Server) (g : Ghost) : Request → Ghost
  | .attach c key _ dp _ => g.set c (findOrCreateDoc s key dp).2 {}
  | _ => g

/-- a response that reaches the client is applied -/
def ghostFinish (g : Ghost) (r : InFlight) : Ghost :=
  match r.out with
  | .ok resp => if r.lost then g else g.set r.f.client r.f.doc (receive (g r.f.client r.f.doc) resp)
  | .error _ => g

/-- Reachable by well-behaved clients: every request satisfies `wbReq` (Lemmas/ServerDelivery) in
the state in which it STARTS (its checkpoint is the one of the last response the client received,
its changes are its own, numbered consecutively); no response is a snapshot (outside the model). -/
inductive WbReach (cfg : Config) : Sys → Ghost → Prop
  | init : WbReach cfg (Sys.init cfg) Ghost.init
  | activate {σ : Sys} {g : Ghost} : WbReach cfg σ g → WbReach cfg { σ with srv := (Server.activate σ.srv).1 } g
  | start {σ : Sys} {g : Ghost} (id : Nat) (req : Request) (lost : Bool) : WbReach cfg σ g → isReq req = true →
      σ.lockFree (lockOf σ.srv req) = true → wbReq σ.srv g req = true →
      WbReach cfg { σ with srv := (startFlight σ.srv id req lost).1,
                           flights := σ.flights ++ [(startFlight σ.srv id req lost).2] } (ghostStart σ.srv g req)
  | phase {σ : Sys} {g : Ghost} (pre post : List InFlight) (r : InFlight) : WbReach cfg σ g →
      σ.flights = pre ++ r :: post → r.pc ≠ .done → (stepFlight σ.srv r).2.f.resp.snapshot = false →
      WbReach cfg { σ with srv := (stepFlight σ.srv r).1, flights := pre ++ (stepFlight σ.srv r).2 :: post } g
  | finish {σ : Sys} {g : Ghost} (pre post : List InFlight) (r : InFlight) : WbReach cfg σ g →
      σ.flights = pre ++ r :: post → r.pc = .done →
      WbReach cfg { σ with flights := pre ++ post, hist := Sys.doneOf r :: σ.hist } (ghostFinish g r)

theorem WbReach.reachable {cfg : Config} {σ : Sys} {g : Ghost} (h : WbReach cfg σ g) : Reachable cfg σ := by
  induction h with
  | init => exact Reachable.init
  | activate _ ih => exact Reachable.step ih (Step.activate _)
  | start id req lost _ h1 h2 _ ih => exact Reachable.step ih (Step.start _ id req lost h1 h2)
  | phase pre post r _ h1 h2 _ ih => exact Reachable.step ih (Step.phase _ pre post r h1 h2)
  | finish pre post r _ h1 h2 ih => exact Reachable.step ih (Step.finish _ pre post r h1 h2)

/-! ### the per-request invariant -/

/-- a request that can still change something: it has not returned, or it returned a response -/
def Active (r : InFlight) : Prop := r.pc ≠ .done ∨ ∃ resp, r.out = .ok resp

/-- after the push phase: the request has fixed a log prefix.  `initialSeq` = head before its own
rows, which sit in the log right after that prefix, whatever has been appended since. -/
structure PushedOk (s : Server) (v : View) (f : Flight) : Prop where
  ackP : v.cp.clientSeq ≤ f.cpAfterPush.clientSeq
  log : ∀ doc, s.findDoc f.doc = some doc → doc.disablePresence = false →
    v.cp.serverSeq ≤ f.initialSeq ∧
    f.docInfo.serverSeq = f.initialSeq + f.pushed.length ∧
    f.docInfo.disablePresence = false ∧
    (∃ pre post, doc.log = pre ++ f.pushed ++ post ∧ (pre.length : Int) = f.initialSeq) ∧
    (∀ x ∈ f.pushed, x.actor = f.client)

/-- after the pull phase: applying the prepared response keeps the client's view exact (I3 for the
view the client WILL have), with respect to the log as it is now -/
structure PulledOk (s : Server) (v : View) (c : ClientId) (d : DocId) (resp : Resp) : Prop where
  snap : resp.snapshot = false
  cs : v.cp.clientSeq ≤ resp.cp.clientSeq
  view : ∀ doc, s.findDoc d = some doc → doc.disablePresence = false →
    ViewOk c (receive v resp) doc.log ∧ v.cp.serverSeq ≤ resp.cp.serverSeq

theorem PulledOk.congr {s : Server} {v : View} {c : ClientId} {d : DocId} {r r' : Resp} (h : PulledOk s v c d r)
    (h1 : r'.cp = r.cp) (h2 : r'.changes = r.changes) (h3 : r'.snapshot = r.snapshot) : PulledOk s v c d r' := by
  have e : receive v r' = receive v r := by simp [receive, h1, h2]
  exact ⟨by rw [h3]; exact h.snap, by rw [h1]; exact h.cs, fun doc hd hdp => by rw [e, h1]; exact h.view doc hd hdp⟩

/-- what is known about one request in flight (`c` = its client, `d` = its document, `v` = the
client's view).  Program-counter guards: `ord ≤ 2` before the push has run, `= .pull` right after
it, `4 ≤ ord` after the pull, `5 ≤ ord` after `UpdateDocStatus`. -/
structure FOk (s : Server) (g : Ghost) (r : InFlight) : Prop where
  hdoc : ∃ doc, s.findDoc r.f.doc = some doc ∧ r.lock = .pull r.f.client (some doc.key)
  dp : ∀ doc, s.findDoc r.f.doc = some doc → r.f.disablePresence = doc.disablePresence
  cp : r.pc ≠ .done → r.f.pack.cp = (g r.f.client r.f.doc).cp
  own : r.pc ≠ .done → ∀ x ∈ r.f.pack.changes, x.actor = r.f.client
  att : r.pc.ord ≤ 4 → r.f.status = .attached →
    ∃ cd, r.f.info.docs.get? r.f.doc = some cd ∧ cd.status = .attached
  ackI : r.pc.ord ≤ 2 → (g r.f.client r.f.doc).cp.clientSeq ≤ (r.f.info.checkpoint r.f.doc).clientSeq
  pushed : r.pc = .pull → PushedOk s (g r.f.client r.f.doc) r.f
  pulled : 4 ≤ r.pc.ord → r.pc ≠ .done → PulledOk s (g r.f.client r.f.doc) r.f.client r.f.doc r.f.resp
  stat : 5 ≤ r.pc.ord → r.pc ≠ .done → ∃ cd, r.f.info.docs.get? r.f.doc = some cd ∧
    (cd.status = .attached ∨ isOpenSt cd.status = false) ∧
    (cd.status = .attached → r.f.resp.cp.clientSeq ≤ cd.clientSeq)
  fin : r.pc = .done → ∀ resp, r.out = .ok resp →
    PulledOk s (g r.f.client r.f.doc) r.f.client r.f.doc resp ∧
    ∀ cd, entryOf s r.f.client r.f.doc = some cd → isOpenSt cd.status = true → resp.cp.clientSeq ≤ cd.clientSeq

/-- The concurrent invariant: the sequential delivery invariant on store + ghost (DESIGN F.1: I3 =
`d.view`, client-sequence half of I2/I4 = `d.ack`, log shape = `d.gap`), at most one request per
`pull` key, and `FOk` for every request in flight. -/
structure CInv (σ : Sys) (g : Ghost) : Prop where
  d : DInv σ.srv g
  locks : (σ.flights.map (·.lock)).Nodup
  fl : ∀ r ∈ σ.flights, Active r → FOk σ.srv g r

/-! ### frame: steps of OTHER requests -/

/-- a document that exists keeps its id, key and presence option, and its log is only extended -/
theorem ext_doc {s s' : Server} (ext : DocsExt s s') {d : DocId} {doc doc' : Doc} (hd : s.findDoc d = some doc)
    (hd' : s'.findDoc d = some doc') : DocExt doc doc' := by
  obtain ⟨y, hy, e⟩ := ext.old d doc hd
  have : s'.docs.get? d = some doc' := hd'
  rw [hy] at this; injection this with this; subst this
  exact e

theorem PushedOk.frame {s s' : Server} {v : View} {f : Flight} (h : PushedOk s v f) (ext : DocsExt s s')
    {doc : Doc} (hd : s.findDoc f.doc = some doc) : PushedOk s' v f := by
  refine ⟨h.ackP, ?_⟩
  intro doc' hd' hdp'
  have e := ext_doc ext hd hd'
  obtain ⟨h1, h2, h3, ⟨pre, post, hl, hp⟩, h5⟩ := h.log doc hd (by rw [← e.dp]; exact hdp')
  obtain ⟨rows, hrows, _, _⟩ := e.rows
  exact ⟨h1, h2, h3, ⟨pre, post ++ rows, by rw [hrows, hl]; simp [List.append_assoc], hp⟩, h5⟩

theorem PulledOk.frame {s s' : Server} {v : View} {c : ClientId} {d : DocId} {resp : Resp} (h : PulledOk s v c d resp)
    (ext : DocsExt s s') {doc : Doc} (hd : s.findDoc d = some doc) (hgap : GapFree doc) : PulledOk s' v c d resp := by
  refine ⟨h.snap, h.cs, ?_⟩
  intro doc' hd' hdp'
  have e := ext_doc ext hd hd'
  obtain ⟨hv, hm⟩ := h.view doc hd (by rw [← e.dp]; exact hdp')
  obtain ⟨rows, hrows, hq, _⟩ := e.rows
  refine ⟨?_, hm⟩
  rw [hrows]
  exact hv.ext (by rw [← hgap.2]; exact hq)

/-- `FOk` of a request is preserved by anything that only extends the documents and leaves the
view and the stored entry of ITS client for ITS document alone -/
theorem FOk.frame {s s' : Server} {g g' : Ghost} {r : InFlight} (h : FOk s g r) (ext : DocsExt s s')
    (hgap : ∀ d doc, s.docs.get? d = some doc → GapFree doc)
    (hg : g' r.f.client r.f.doc = g r.f.client r.f.doc)
    (he : entryOf s' r.f.client r.f.doc = entryOf s r.f.client r.f.doc) : FOk s' g' r := by
  obtain ⟨doc, hd, hl⟩ := h.hdoc
  obtain ⟨y, hy, e⟩ := ext.old r.f.doc doc hd
  have hgd : GapFree doc := hgap r.f.doc doc hd
  refine ⟨⟨y, hy, by rw [e.key]; exact hl⟩, ?_, ?_, h.own, h.att, ?_, ?_, ?_, h.stat, ?_⟩
  · intro doc' hd'
    rw [(ext_doc ext hd hd').dp]; exact h.dp doc hd
  · intro hpc; rw [hg]; exact h.cp hpc
  · intro ho; rw [hg]; exact h.ackI ho
  · intro hpc; rw [hg]; exact (h.pushed hpc).frame ext hd
  · intro ho hpc; rw [hg]; exact (h.pulled ho hpc).frame ext hd hgd
  · intro hpc resp hout
    obtain ⟨h1, h2⟩ := h.fin hpc resp hout
    rw [hg, he]
    exact ⟨h1.frame ext hd hgd, h2⟩

/-- moving the program counter inside a region in which the guards do not change -/
theorem FOk.repc {s : Server} {g : Ghost} {r r' : InFlight} (h : FOk s g r) (hf : r'.f = r.f) (hl : r'.lock = r.lock)
    (hpc : r.pc ≠ .done) (hpc' : r'.pc ≠ .done)
    (h2 : r'.pc.ord ≤ 2 → r.pc.ord ≤ 2) (h3 : r'.pc = .pull → r.pc = .pull)
    (h4 : (r'.pc.ord ≤ 4 → r.pc.ord ≤ 4) ∧ (4 ≤ r'.pc.ord → 4 ≤ r.pc.ord)) (h5 : 5 ≤ r'.pc.ord → 5 ≤ r.pc.ord) :
    FOk s g r' := by
  refine ⟨by rw [hf, hl]; exact h.hdoc, ?_, ?_, ?_, ?_, ?_, ?_, ?_, ?_, ?_⟩
  · rw [hf]; exact h.dp
  · intro _; rw [hf]; exact h.cp hpc
  · intro _; rw [hf]; exact h.own hpc
  · intro ho; rw [hf]; exact h.att (h4.1 ho)
  · intro ho; rw [hf]; exact h.ackI (h2 ho)
  · intro hp; rw [hf]; exact h.pushed (h3 hp)
  · intro ho _; rw [hf]; exact h.pulled (h4.2 ho) hpc
  · intro ho _; rw [hf]; exact h.stat (h5 ho) hpc
  · intro hd; exact absurd hd hpc'

end Yorkie.Conc
