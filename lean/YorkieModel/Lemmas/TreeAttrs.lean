/-
Attribute registers of tree nodes (`RHT`, Model/Tree.lean `rhtSet`/`rhtRemove`/`StyleArg.apply`):
two style operations with DIFFERENT tickets commute on every register, observed through what a peer can
see of a key: its live value (or that it is removed) and the ticket of the winning write.

The raw registers do NOT commute: `RHT.Remove` keeps the value of the node it tombstones, so the value
kept inside a tombstone depends on the order of application (`raw_registers_do_not_commute`); nothing
but the snapshot encoding and a later `Remove` read it.
-/
import YorkieModel.Model.Tree
import YorkieModel.Lemmas.Ticket
namespace Yorkie.Tree
open Yorkie

/-- what is observable of one key: live value (`none` = removed) and the winning ticket -/
structure Vis where
  val : Option Str
  ts : Ticket
deriving DecidableEq

def Attr.vis (a : Attr) : Vis := ⟨if a.removed then none else some a.val, a.updatedAt⟩

/-- the observable content of a register -/
def look (as : List Attr) (k : Str) : Option Vis := (attrGet as k).map Attr.vis

/-- one write of a style operation -/
inductive Write
  | set (k v : Str)
  | rem (k : Str)

def Write.key : Write → Str
  | .set k _ => k
  | .rem k => k

def Write.val : Write → Option Str
  | .set _ v => some v
  | .rem _ => none

def Write.app (w : Write) (ts : Ticket) (as : List Attr) : List Attr :=
  match w with
  | .set k v => rhtSet as k v ts
  | .rem k => rhtRemove as k ts

/-- effect of a write on the observable content of its key: last writer wins -/
def Write.upd (w : Write) (ts : Ticket) (o : Option Vis) : Option Vis :=
  match o with
  | none => some ⟨w.val, ts⟩
  | some v => if ts.after v.ts then some ⟨w.val, ts⟩ else some v

/-- effect of a write on the observable content of the register -/
def Write.trans (w : Write) (ts : Ticket) (f : Str → Option Vis) : Str → Option Vis :=
  fun k => if k = w.key then w.upd ts (f k) else f k

theorem beq_str (a b : Str) : (a == b) = decide (a = b) := by
  by_cases h : a = b <;> simp [h]

theorem attrGet_attrPut (as : List Attr) (n : Attr) (k : Str) :
    attrGet (attrPut as n) k = if k = n.key then some n else attrGet as k := by
  induction as with
  | nil =>
    simp only [attrPut, attrGet, beq_str]
    by_cases h : n.key = k
    · simp [h]
    · have : ¬ k = n.key := fun e => h e.symm
      simp [h, this]
  | cons a r ih =>
    simp only [attrPut, beq_str]
    by_cases h1 : a.key = n.key
    · simp only [h1, decide_true, if_true, attrGet, beq_str]
      by_cases h2 : n.key = k
      · simp [h2]
      · have : ¬ k = n.key := fun e => h2 e.symm
        simp [h2, this]
    · simp only [h1, decide_false, Bool.false_eq_true, if_false, attrGet, beq_str]
      by_cases h2 : a.key = k
      · have : ¬ k = n.key := fun e => h1 (h2.trans e)
        simp [h2, this]
      · simp [h2, ih]

theorem look_app (w : Write) (ts : Ticket) (as : List Attr) : look (w.app ts as) = w.trans ts (look as) := by
  funext k
  cases w with
  | set k0 v =>
    simp only [Write.app, rhtSet, Write.trans, Write.key, look]
    cases h : attrGet as k0 with
    | none =>
      simp only [attrGet_attrPut]
      by_cases hk : k = k0
      · subst hk; simp [h, Write.upd, Write.val, Attr.vis]
      · simp [hk]
    | some node =>
      by_cases ha : ts.after node.updatedAt = true
      · simp only [ha, if_true, attrGet_attrPut]
        by_cases hk : k = k0
        · subst hk; simp [h, Write.upd, Write.val, Attr.vis, ha]
        · simp [hk]
      · simp only [ha, Bool.false_eq_true, if_false]
        by_cases hk : k = k0
        · subst hk; simp [h, Write.upd, Attr.vis, ha]
        · simp [hk]
  | rem k0 =>
    simp only [Write.app, rhtRemove, Write.trans, Write.key, look]
    cases h : attrGet as k0 with
    | none =>
      simp only [attrGet_attrPut]
      by_cases hk : k = k0
      · subst hk; simp [h, Write.upd, Write.val, Attr.vis]
      · simp [hk]
    | some node =>
      by_cases ha : ts.after node.updatedAt = true
      · simp only [ha, if_true, attrGet_attrPut]
        by_cases hk : k = k0
        · subst hk; simp [h, Write.upd, Write.val, Attr.vis, ha]
        · simp [hk]
      · simp only [ha, Bool.false_eq_true, if_false]
        by_cases hk : k = k0
        · subst hk; simp [h, Write.upd, Attr.vis, ha]
        · simp [hk]

/-- two writes with different tickets commute on the observable content of a key -/
theorem upd_comm (w1 w2 : Write) (t1 t2 : Ticket) (h : t1 ≠ t2) (o : Option Vis) :
    w1.upd t1 (w2.upd t2 o) = w2.upd t2 (w1.upd t1 o) := by
  have tot := Ticket.after_total h
  cases o with
  | none =>
    simp only [Write.upd]
    rcases tot with h12 | h21
    · simp [h12, Ticket.after_asymm h12]
    · simp [h21, Ticket.after_asymm h21]
  | some v =>
    simp only [Write.upd]
    by_cases h1 : t1.after v.ts = true <;> by_cases h2 : t2.after v.ts = true
    · rcases tot with h12 | h21
      · simp [h1, h2, h12, Ticket.after_asymm h12]
      · simp [h1, h2, h21, Ticket.after_asymm h21]
    · have h12 : t1.after t2 = true := by
        rcases tot with h12 | h21
        · exact h12
        · exact absurd (Ticket.after_trans h21 h1) h2
      simp [h1, h2, Ticket.after_asymm h12]
    · have h21 : t2.after t1 = true := by
        rcases tot with h12 | h21
        · exact absurd (Ticket.after_trans h12 h2) h1
        · exact h21
      simp [h1, h2, Ticket.after_asymm h21]
    · simp [h1, h2]

theorem trans_comm (w1 w2 : Write) (t1 t2 : Ticket) (h : t1 ≠ t2) (f : Str → Option Vis) :
    w1.trans t1 (w2.trans t2 f) = w2.trans t2 (w1.trans t1 f) := by
  funext k
  simp only [Write.trans]
  by_cases h1 : k = w1.key
  · by_cases h2 : k = w2.key
    · have e : w1.key = w2.key := h1.symm.trans h2
      subst h1
      simp only [e, if_true]
      rw [← e]
      exact upd_comm w1 w2 t1 t2 h _
    · have e : ¬ w1.key = w2.key := fun e => h2 (h1.trans e)
      simp [h1, e]
  · by_cases h2 : k = w2.key
    · have e : ¬ w2.key = w1.key := fun e => h1 (h2.trans e)
      simp [h2, e]
    · simp [h1, h2]

/-- the writes of one Style / RemoveStyle operation -/
def StyleArg.writes : StyleArg → List Write
  | .set kvs => kvs.map (fun kv => .set kv.1 kv.2)
  | .remove ks => ks.map .rem

theorem apply_eq_foldl (a : StyleArg) (ts : Ticket) (as : List Attr) :
    a.apply ts as = a.writes.foldl (fun acc w => w.app ts acc) as := by
  cases a with
  | set kvs => simp [StyleArg.apply, StyleArg.writes, List.foldl_map, Write.app]
  | remove ks => simp [StyleArg.apply, StyleArg.writes, List.foldl_map, Write.app]

theorem look_foldl (ts : Ticket) : ∀ (ws : List Write) (as : List Attr),
    look (ws.foldl (fun acc w => w.app ts acc) as) = ws.foldl (fun f w => w.trans ts f) (look as)
  | [], _ => rfl
  | w :: r, as => by rw [List.foldl_cons, List.foldl_cons, look_foldl ts r, look_app]

theorem foldl_comm_of_comm {σ α} (step : σ → α → σ) (g : σ → σ) (hg : ∀ s a, g (step s a) = step (g s) a) :
    ∀ (l : List α) (s : σ), g (l.foldl step s) = l.foldl step (g s)
  | [], _ => rfl
  | a :: r, s => by rw [List.foldl_cons, List.foldl_cons, foldl_comm_of_comm step g hg r, hg]

/-- **Style / style commutation on a register.** Two style operations (set or remove, any number of
    keys each) with different tickets, applied to the same attribute register in either order, leave
    every key with the same observable content: same live value or removal, same winning ticket. -/
theorem style_style_comm (a1 a2 : StyleArg) (t1 t2 : Ticket) (h : t1 ≠ t2) (as : List Attr) :
    look (a1.apply t1 (a2.apply t2 as)) = look (a2.apply t2 (a1.apply t1 as)) := by
  simp only [apply_eq_foldl, look_foldl]
  generalize look as = f
  symm
  exact foldl_comm_of_comm (fun f w => w.trans t1 f) (fun f => List.foldl (fun f w => w.trans t2 f) f a2.writes)
    (fun s w1 => (foldl_comm_of_comm (fun f w => w.trans t2 f) (fun f => w1.trans t1 f)
      (fun s' w2 => trans_comm w1 w2 t1 t2 h s') a2.writes s).symm) a1.writes f

/-- a style operation applied twice with the same ticket is applied once (redelivery is harmless) -/
theorem upd_idem (w : Write) (ts : Ticket) (o : Option Vis) : w.upd ts (w.upd ts o) = w.upd ts o := by
  cases o with
  | none => simp [Write.upd, Ticket.after_irrefl]
  | some v =>
    by_cases h : ts.after v.ts = true
    · simp [Write.upd, h, Ticket.after_irrefl]
    · simp [Write.upd, h]

/-- the raw registers do not commute: the value kept inside a tombstone depends on the order -/
theorem raw_registers_do_not_commute :
    let old : List Attr := [⟨[98], [49], ⟨1, 1, 1⟩, false⟩]
    let s := StyleArg.set [([98], [50])]
    let r := StyleArg.remove [[98]]
    s.apply ⟨2, 1, 1⟩ (r.apply ⟨3, 1, 2⟩ old) ≠ r.apply ⟨3, 1, 2⟩ (s.apply ⟨2, 1, 1⟩ old) ∧
    look (s.apply ⟨2, 1, 1⟩ (r.apply ⟨3, 1, 2⟩ old)) [98] = look (r.apply ⟨3, 1, 2⟩ (s.apply ⟨2, 1, 1⟩ old)) [98] := by
  decide

end Yorkie.Tree
