/-
Depth k, unbounded, for deletes of whole nodes: after ANY NUMBER of deletes, each tombstoning any number of whole live
nodes (what Phase 5 of `Tree.Edit` does to the collected nodes, `Tree.Retombstone` of the recorded spans), executing the
recorded identity reverses in LIFO order (`Tree.Restore`, one undo after the other) succeeds at every step and gives
back the arena the first delete started from - every field of every node except the cached lengths, hence the same
`ToXML()` and `Marshal()`. The undos run on the arenas the previous undos produced, not on the recorded ones.
-/
import YorkieModel.Lemmas.TreeUndoWhole
namespace Yorkie.TreeUndo
open Yorkie Yorkie.Tree

theorem SameCore.refl (t : Tree) : SameCore t t := ⟨rfl, rfl, rfl, rfl, fun _ => rfl⟩

theorem SameCore.trans {a b c : Tree} (h1 : SameCore a b) (h2 : SameCore b c) : SameCore a c :=
  ⟨h2.1.trans h1.1, h2.2.1.trans h1.2.1, h2.2.2.1.trans h1.2.2.1, h2.2.2.2.1.trans h1.2.2.2.1,
   fun q => (h2.2.2.2.2 q).trans (h1.2.2.2.2 q)⟩

/-- `Restore` of whole-node spans respects "equal up to cached lengths" -/
theorem restore_whole_congr {x a : Tree} {spans : List Span} {ns : List Ptr} (hw : Wholes x spans ns) (sc : SameCore x a) :
    ∃ x' a', restore x spans = .ok x' ∧ restore a spans = .ok a' ∧ SameCore x' a' := by
  obtain ⟨x', Sx, ex, rx, mx⟩ := restore_whole x hw x [] (Rel.refl x _)
  have hwa : Wholes a spans ns := hw.transfer (Rel.of_sameCore sc none)
  obtain ⟨a', Sa, ea, ra, ma⟩ := restore_whole a hwa a [] (Rel.refl a _)
  refine ⟨x', a', ex, ea, ra.1.trans (sc.1.trans rx.1.symm), ra.2.1.trans (sc.2.1.trans rx.2.1.symm),
    ra.2.2.1.trans (sc.2.2.1.trans rx.2.2.1.symm), ra.2.2.2.1.trans (sc.2.2.2.1.trans rx.2.2.2.1.symm), fun q => ?_⟩
  have cx := rx.2.2.2.2 q
  have ca := ra.2.2.2.2 q
  have inx : q ∈ Sx ↔ q ∈ ns := by rw [mx q]; simp
  have ina : q ∈ Sa ↔ q ∈ ns := by rw [ma q]; simp
  by_cases hq : q ∈ ns
  · rw [if_pos (inx.mpr hq)] at cx
    rw [if_pos (ina.mpr hq)] at ca
    rw [ca, cx]
    exact core_setRemoved none (sc.2.2.2.2 q)
  · rw [if_neg (fun h => hq (inx.mp h))] at cx
    rw [if_neg (fun h => hq (ina.mp h))] at ca
    rw [ca, cx]
    exact sc.2.2.2.2 q

/-- `k` deletes: `Deletes t L tk` - starting from `t`, the span lists of `L` (oldest first) were tombstoned one after the
    other, each naming pairwise different whole live nodes of the arena it ran on, and the result is `tk` -/
inductive Deletes : Tree → List (List Span) → Tree → Prop
  | nil (t : Tree) : Deletes t [] t
  | cons {t t1 tk : Tree} {spans : List Span} {ns : List Ptr} {rest : List (List Span)} (ts : Ticket) :
      Wholes t spans ns → (∀ n ∈ ns, (t.get n).removedAt = none) → ns.Nodup → retombstone t spans ts = .ok t1 →
      Deletes t1 rest tk → Deletes t (spans :: rest) tk

/-- the undos, newest entry first -/
def undoAll (a : Tree) (stack : List (List Span)) : Except Err Tree :=
  stack.foldl (fun (acc : Except Err Tree) spans =>
    match acc with
    | .error e => .error e
    | .ok x => restore x spans) (.ok a)

theorem undoAll_append (a : Tree) (s1 : List (List Span)) (spans : List Span) :
    undoAll a (s1 ++ [spans]) = (match undoAll a s1 with
      | .error e => .error e
      | .ok x => restore x spans) := by
  unfold undoAll
  rw [List.foldl_append]
  rfl

/-- **depth k (unbounded)**: `k` deletes of whole nodes followed by the `k` undos in LIFO order give back the first arena up
    to the cached lengths; the undos may start from any arena equal to the last one up to the cached lengths -/
theorem undoAll_deletes {t tk : Tree} {L : List (List Span)} (h : Deletes t L tk) :
    ∀ a, SameCore tk a → ∃ a', undoAll a L.reverse = .ok a' ∧ SameCore t a' := by
  induction h with
  | nil t => intro a sc; exact ⟨a, rfl, sc⟩
  | @cons t t1 tk spans ns rest ts hw hlive hnd e1 _ ih =>
    intro a sc
    obtain ⟨a1, ea1, sc1⟩ := ih a sc
    obtain ⟨t1', t2, e1', _, _, e2, sc2⟩ := restore_retombstone_whole t spans ns ts hw hlive hnd
    have : t1' = t1 := by
      have := e1'.symm.trans e1
      cases this; rfl
    subst this
    obtain ⟨S1, r1⟩ : ∃ S1, Rel t t1' S1 (some ts) := by
      obtain ⟨x, S1, ex, r1, _⟩ := retombstone_whole t ts hw t [] hlive hnd (fun _ _ h => by cases h) (Rel.refl t _)
      have : x = t1' := by
        have := (show retombstone t spans ts = .ok x from ex).symm.trans e1
        cases this; rfl
      subst this
      exact ⟨S1, r1⟩
    have hw1 : Wholes t1' spans ns := hw.transfer r1
    obtain ⟨x', a', ex, ea, sc3⟩ := restore_whole_congr hw1 sc1
    have : x' = t2 := by
      have := ex.symm.trans e2
      cases this; rfl
    subst this
    refine ⟨a', ?_, sc2.trans sc3⟩
    rw [List.reverse_cons, undoAll_append, ea1]
    exact ea

/-- the same on the visible document -/
theorem undoAll_deletes_xml {t tk : Tree} {L : List (List Span)} (h : Deletes t L tk) :
    ∃ a', undoAll tk L.reverse = .ok a' ∧ a'.toXMLCodes = t.toXMLCodes ∧ a'.marshalCodes = t.marshalCodes := by
  obtain ⟨a', e, sc⟩ := undoAll_deletes h tk (SameCore.refl tk)
  exact ⟨a', e, sc.toXML, marshalCodes_congr sc.view⟩

end Yorkie.TreeUndo
