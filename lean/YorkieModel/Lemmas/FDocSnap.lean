/- Snapshot round trip on the whole heap: under `SnapSafe`, `norm = decode ∘ encode (+ NewRoot)` and `DeepCopy`
   leave the view of every element – hence `Marshal()` – unchanged, for every order in which `toRHTNodes` walks
   its Go maps. -/
import YorkieModel.Lemmas.FDocSnapObj
namespace Yorkie.FDoc
open Yorkie
open Yorkie.Crdt (rootId headId)

def BodySafe (onPos : Bool) (r : Root) : Body → Prop
  | .obj nodes byKey => ObjSane r nodes byKey
  | .arr nodes moved => arrOk onPos moved [] nodes
  | _ => True

instance (onPos : Bool) (r : Root) (b : Body) : Decidable (BodySafe onPos r b) := by
  cases b <;> simp only [BodySafe] <;> infer_instance

/-- the explicit, decidable side condition of the snapshot theorems.  It consists of
    * the EXCLUSIONS of the defects: no live LWW loser (`ObjSane.noLiveLoser`) and – only before repair (a),
      `onPos = false` – no element behind its own dead original slot / held twice (`NodeOk`, last conjunct);
    * sanity conditions that every root built by the operations satisfies (unique heap keys, unique position
      identities, dead slots carry `removedAt`, `nodeMapByKey ⊆ nodeMapByCreatedAt`, a live member was
      positioned after the other nodes of its key). -/
def SnapSafe (onPos : Bool) (r : Root) : Prop :=
  (r.elems.map (·.1)).Nodup ∧ ∀ p ∈ r.elems, BodySafe onPos r p.2.body

instance (onPos : Bool) (r : Root) : Decidable (SnapSafe onPos r) := by
  unfold SnapSafe; infer_instance

theorem SnapSafe.body {onPos : Bool} {r : Root} (h : SnapSafe onPos r) {t : Ticket} {e : Elem} (hg : r.get t = some e) :
    BodySafe onPos r e.body :=
  h.2 (t, e) (alGet_some_mem hg)

/-! ### views depend on the skeleton and on liveness -/

theorem viewBody_congr {r r' : Root} (h : ∀ y, liveChild r' y = liveChild r y) (b : Body) : viewBody r' b = viewBody r b := by
  cases b with
  | obj n bk => simp only [viewBody]; rw [liveMembers_congr (List.filter_congr (fun p _ => h p.2))]
  | arr n m => simp only [viewBody]; rw [liveElems_congr (fun _ _ x _ => h x)]
  | prim s => rfl
  | counter l v => rfl
  | «opaque» s => rfl

theorem view_eq_skel (r : Root) (t : Ticket) : view r t = (skel r t).map (fun p => viewBody r p.2) := by
  unfold view skel
  cases r.get t <;> rfl

theorem view_of_skel {r r' : Root} (h : ∀ y, liveChild r' y = liveChild r y) {t : Ticket} (hs : skel r' t = skel r t) :
    view r' t = view r t := by
  rw [view_eq_skel, view_eq_skel, hs]
  cases skel r t with
  | none => rfl
  | some p => simp only [Option.map_some]; rw [viewBody_congr h]

/-! ### phase 1: every object is rebuilt -/

structure Ph1 (r : Root) (D : List Ticket) (ri : Root) : Prop where
  live : ∀ x, liveChild ri x = liveChild r x
  pos : ∀ x, positionedAt ri x = positionedAt r x
  view : ∀ x, view ri x = view r x
  keep : ∀ x, (x ∉ D ∨ ∀ e n b, r.get x = some e → e.body ≠ .obj n b) → skel ri x = skel r x

theorem ph1_step {onPos : Bool} {r ri : Root} {perm : List Ticket} (hperm : perm.Nodup) (hs : SnapSafe onPos r)
    {D : List Ticket} (inv : Ph1 r D ri) {o : Ticket} (ho : o ∉ D) : Ph1 r (o :: D) (rebuildObj perm ri o) := by
  have hso : skel ri o = skel r o := inv.keep o (Or.inl ho)
  -- the no-op case
  have noop : rebuildObj perm ri o = ri → Ph1 r (o :: D) (rebuildObj perm ri o) := by
    intro e
    rw [e]
    refine ⟨inv.live, inv.pos, inv.view, ?_⟩
    intro x hx
    by_cases hxo : x = o
    · subst hxo; exact hso
    · rcases hx with hx | hx
      · exact inv.keep x (Or.inl (fun h => hx (List.mem_cons_of_mem _ h)))
      · exact inv.keep x (Or.inr hx)
  cases hgo : ri.get o with
  | none => exact noop (by unfold rebuildObj; simp [hgo])
  | some oe =>
    cases hbody : oe.body with
    | obj nodes byKey =>
      have hsk := skel_of_get hgo
      rw [hso, hbody] at hsk
      obtain ⟨e, hge, _, hbe⟩ := get_of_skel hsk
      have hsane : ObjSane r nodes byKey := by
        have := hs.body hge
        rw [hbe] at this
        exact this
      obtain ⟨a1, a2, a3, ns, bk, a4, a5⟩ := rebuildObj_spec hperm inv.live inv.pos hgo hbody hsane
      refine ⟨a1, a2, ?_, ?_⟩
      · intro x
        by_cases hxo : x = o
        · subst hxo
          rw [view_eq_skel, a4]
          simp only [Option.map_some, viewBody, a5]
          unfold FDoc.view
          rw [hge]
          simp only [Option.map_some, hbe, viewBody]
        · rw [view_of_skel (fun y => (a1 y).trans (inv.live y).symm) (a3 x hxo)]
          exact inv.view x
      · intro x hx
        by_cases hxo : x = o
        · subst hxo
          rcases hx with hx | hx
          · exact absurd (List.mem_cons_self ..) hx
          · exact absurd hbe (hx e nodes byKey hge)
        · rw [a3 x hxo]
          rcases hx with hx | hx
          · exact inv.keep x (Or.inl (fun h => hx (List.mem_cons_of_mem _ h)))
          · exact inv.keep x (Or.inr hx)
    | arr n m => exact noop (by unfold rebuildObj; simp [hgo, hbody])
    | prim s => exact noop (by unfold rebuildObj; simp [hgo, hbody])
    | counter l v => exact noop (by unfold rebuildObj; simp [hgo, hbody])
    | «opaque» s => exact noop (by unfold rebuildObj; simp [hgo, hbody])

theorem ph1_fold {onPos : Bool} {r : Root} {perm : List Ticket} (hperm : perm.Nodup) (hs : SnapSafe onPos r) :
    ∀ (ids D : List Ticket) (ri : Root), Ph1 r D ri → ids.Nodup → (∀ x ∈ ids, x ∉ D) →
      ∃ D', Ph1 r D' (ids.foldl (rebuildObj perm) ri) := by
  intro ids
  induction ids with
  | nil => intro D ri inv _ _; exact ⟨D, inv⟩
  | cons o rest ih =>
    intro D ri inv hnd hdis
    rw [List.nodup_cons] at hnd
    have step := ph1_step hperm hs inv (hdis o (List.mem_cons_self ..))
    exact ih (o :: D) _ step hnd.2 (fun x hx h => by
      rcases List.mem_cons.mp h with e | e
      · subst e; exact hnd.1 hx
      · exact hdis x (List.mem_cons_of_mem _ hx) e)

/-! ### phase 2: every array is rebuilt -/

structure Ph2 (r : Root) (D : List Ticket) (ri : Root) : Prop where
  live : ∀ x, liveChild ri x = liveChild r x
  view : ∀ x, view ri x = view r x
  keep : ∀ x, x ∉ D → ∀ e n m, r.get x = some e → e.body = .arr n m → skel ri x = skel r x

theorem ph2_step {onPos : Bool} {r ri : Root} (hs : SnapSafe onPos r) {D : List Ticket} (inv : Ph2 r D ri)
    {a : Ticket} (ha : a ∉ D) : Ph2 r (a :: D) (rebuildArrAtP onPos ri a) := by
  have noop : rebuildArrAtP onPos ri a = ri → Ph2 r (a :: D) (rebuildArrAtP onPos ri a) := by
    intro e
    rw [e]
    exact ⟨inv.live, inv.view, fun x hx => inv.keep x (fun h => hx (List.mem_cons_of_mem _ h))⟩
  cases hga : ri.get a with
  | none => exact noop (by unfold rebuildArrAtP; simp [hga])
  | some ae =>
    cases hbody : ae.body with
    | arr nodes moved =>
      -- by view equality the element is an array in `r` as well, hence untouched so far
      have hv := inv.view a
      unfold FDoc.view at hv
      rw [hga] at hv
      simp only [Option.map_some, hbody, viewBody] at hv
      cases hgr : r.get a with
      | none => rw [hgr] at hv; cases hv
      | some e =>
        rw [hgr] at hv
        simp only [Option.map_some] at hv
        cases hbe : e.body with
        | arr n0 m0 =>
          have hsk := inv.keep a ha e n0 m0 hgr hbe
          rw [skel_of_get hga, skel_of_get hgr, hbody, hbe] at hsk
          simp only [Option.some.injEq, Prod.mk.injEq, Body.arr.injEq] at hsk
          obtain ⟨_, hn, hm⟩ := hsk
          subst hn; subst hm
          have hok : arrOk onPos moved [] nodes := by
            have := hs.body hgr
            rw [hbe] at this
            exact this
          have hreb : rebuildArrAtP onPos ri a =
              ri.put a { ae with body := .arr nodes (rebuildArrP onPos nodes moved).2 } := by
            unfold rebuildArrAtP
            simp only [hga, hbody]
            rw [rebuildArr_nodes hok]
          rw [hreb]
          have hl : ∀ x, liveChild (ri.put a { ae with body := .arr nodes (rebuildArrP onPos nodes moved).2 }) x = liveChild ri x :=
            fun x => liveChild_put_fields ri a ae { ae with body := .arr nodes (rebuildArrP onPos nodes moved).2 } hga rfl x
          refine ⟨fun x => (hl x).trans (inv.live x), ?_, ?_⟩
          · intro x
            by_cases hxa : x = a
            · subst hxa
              rw [← inv.view x]
              unfold FDoc.view
              rw [get_put_same, hga]
              simp only [Option.map_some, hbody, viewBody]
              rw [liveElems_congr (fun _ _ y _ => hl y)]
            · rw [← inv.view x]
              apply view_of_skel hl
              rw [skel_put]
              simp [hxa]
          · intro x hx e' n' m' hge' hbe'
            have hxa : x ≠ a := fun h => hx (h ▸ List.mem_cons_self ..)
            rw [skel_put]
            simp only [hxa, if_false]
            exact inv.keep x (fun h => hx (List.mem_cons_of_mem _ h)) e' n' m' hge' hbe'
        | obj n0 b0 => rw [hbe] at hv; simp [viewBody] at hv
        | prim s => rw [hbe] at hv; simp [viewBody] at hv
        | counter l v => rw [hbe] at hv; simp [viewBody] at hv
        | «opaque» s => rw [hbe] at hv; simp [viewBody] at hv
    | obj n b => exact noop (by unfold rebuildArrAtP; simp [hga, hbody])
    | prim s => exact noop (by unfold rebuildArrAtP; simp [hga, hbody])
    | counter l v => exact noop (by unfold rebuildArrAtP; simp [hga, hbody])
    | «opaque» s => exact noop (by unfold rebuildArrAtP; simp [hga, hbody])

theorem ph2_fold {onPos : Bool} {r : Root} (hs : SnapSafe onPos r) :
    ∀ (ids D : List Ticket) (ri : Root), Ph2 r D ri → ids.Nodup → (∀ x ∈ ids, x ∉ D) →
      ∃ D', Ph2 r D' (ids.foldl (rebuildArrAtP onPos) ri) := by
  intro ids
  induction ids with
  | nil => intro D ri inv _ _; exact ⟨D, inv⟩
  | cons o rest ih =>
    intro D ri inv hnd hdis
    rw [List.nodup_cons] at hnd
    have step := ph2_step hs inv (hdis o (List.mem_cons_self ..))
    exact ih (o :: D) _ step hnd.2 (fun x hx h => by
      rcases List.mem_cons.mp h with e | e
      · subst e; exact hnd.1 hx
      · exact hdis x (List.mem_cons_of_mem _ hx) e)

/-! ### the round trip -/

theorem view_reRegister (r : Root) (t : Ticket) : view (reRegister r) t = view r t := by
  apply view_of_skel (fun _ => rfl)
  rfl

/-- views after `decode ∘ encode` (any node order `perm`) -/
theorem view_normP {onPos : Bool} {r : Root} {perm : List Ticket} (hperm : perm.Nodup) (hs : SnapSafe onPos r) :
    ∀ t, view (normP onPos perm r) t = view r t := by
  intro t
  unfold normP
  simp only
  rw [view_reRegister]
  have h0 : Ph1 r [] r := ⟨fun _ => rfl, fun _ => rfl, fun _ => rfl, fun _ _ => rfl⟩
  obtain ⟨D1, p1⟩ := ph1_fold hperm hs (r.elems.map (·.1)) [] r h0 hs.1 (fun _ _ h => by cases h)
  have h2 : Ph2 r [] ((r.elems.map (·.1)).foldl (rebuildObj perm) r) :=
    ⟨p1.live, p1.view, fun x _ e n m hge hbe => p1.keep x (Or.inr (fun e' n' b' hge' hbe' => by
      rw [hge] at hge'
      injection hge' with hge'
      subst hge'
      rw [hbe] at hbe'
      cases hbe'))⟩
  obtain ⟨D2, p2⟩ := ph2_fold hs (r.elems.map (·.1)) [] _ h2 hs.1 (fun _ _ h => by cases h)
  exact p2.view t

/-- views after `Root.DeepCopy` -/
theorem view_deepCopyP {onPos : Bool} {r : Root} (hs : SnapSafe onPos r) :
    ∀ t, view (deepCopyP onPos r) t = view r t := by
  intro t
  unfold deepCopyP
  rw [view_reRegister]
  have h2 : Ph2 r [] r := ⟨fun _ => rfl, fun _ => rfl, fun _ _ _ _ _ _ _ => rfl⟩
  obtain ⟨D2, p2⟩ := ph2_fold hs (r.elems.map (·.1)) [] _ h2 hs.1 (fun _ _ h => by cases h)
  exact p2.view t

theorem marshal_of_view {r r' : Root} (h : ∀ t, view r' t = view r t) : marshal r' = marshal r :=
  marshalAt_of_view h 64 rootId

end Yorkie.FDoc
