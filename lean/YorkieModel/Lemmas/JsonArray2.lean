/-
Array calls of the json layer, second part: the index-addressed moves
(`MoveAfterByIndex`, `MoveLast`, `MoveBefore` / `MoveFront`) and set-by-index.
-/
import YorkieModel.Lemmas.JsonArray
namespace Yorkie.Json
open Yorkie Yorkie.Crdt

set_option linter.unusedSimpArgs false

/-! ### MoveAfterByIndex -/

theorem moveAfter_spec {d : Doc} {a ts prev target : Ticket} {nodes : List PosNode} {i j : Nat}
    (hi : Inv d) (hn : Newer d ts) (ha : arrNodes d a = some nodes)
    (hp : (liveOf d nodes)[i]? = some prev) (ht : (liveOf d nodes)[j]? = some target) :
    Pre d (.move a (anchorOf nodes prev) target ts) ∧
      arrLive (apply d (.move a (anchorOf nodes prev) target ts)) a =
        ((arrLive d a).take (i + 1)).filter (isNot target) ++
          target :: ((arrLive d a).drop (i + 1)).filter (isNot target) := by
  obtain ⟨pe, moved, ha'⟩ := arrNodes_eq_some.1 ha
  have hok := ha'.ok hi
  obtain ⟨pre, n, post, hsplit, hnl, hlen⟩ := split_at_live hp
  obtain ⟨hne, _⟩ := nodeLive_eq_some.1 hnl
  have huniq := elem_unique_split hne (hsplit ▸ hok.elemNodup)
  have hanch : anchorOf nodes prev = n.pos := by
    unfold anchorOf; rw [hsplit, posOf_split huniq.1 hne]; rfl
  rw [hanch]
  obtain ⟨h1, h2⟩ := move_pos_spec hi hn ha (List.mem_of_getElem? ht) hsplit
  refine ⟨h1, ?_⟩
  rw [h2, ha'.arrLive]
  have e1 : liveOf d nodes = liveOf d pre ++ prev :: liveOf d post := by
    rw [hsplit, liveOf_append, liveOf_cons, hnl]; rfl
  rw [e1, (take_succ_of_split hlen).1, (take_succ_of_split hlen).2, liveOf_append, liveOf_cons, hnl]
  simp [liveOf_nil]

/-! ### MoveLast -/

theorem moveLast_spec {d : Doc} {a ts target : Ticket} {nodes : List PosNode} {j : Nat}
    (hi : Inv d) (hn : Newer d ts) (ha : arrNodes d a = some nodes)
    (ht : (liveOf d nodes)[j]? = some target) :
    Pre d (.move a (lastLivePos d nodes) target ts) ∧
      arrLive (apply d (.move a (lastLivePos d nodes) target ts)) a =
        (arrLive d a).eraseIdx j ++ [target] := by
  obtain ⟨pe, moved, ha'⟩ := arrNodes_eq_some.1 ha
  have hok := ha'.ok hi
  have hmem : target ∈ liveOf d nodes := List.mem_of_getElem? ht
  rcases List.eq_nil_or_concat (liveOf d nodes) with hnil | ⟨ys, e, hcc⟩
  · rw [hnil] at hmem; simp at hmem
  · have hcc' : liveOf d nodes = ys ++ [e] := by rw [hcc]; simp
    rw [lastLivePos_of_concat hcc']
    have hget : (liveOf d nodes)[ys.length]? = some e := by rw [hcc']; simp
    obtain ⟨h1, h2⟩ := moveAfter_spec hi hn ha hget ht
    refine ⟨h1, ?_⟩
    rw [h2, ha'.arrLive]
    have hnd : (liveOf d nodes).Nodup := liveOf_nodup hok.elemNodup
    rw [← filter_isNot_eq_eraseIdx hnd ht, hcc', (take_succ_of_split (A := ys) (x := e) (B := []) rfl).1,
      (take_succ_of_split (A := ys) (x := e) (B := []) rfl).2]
    simp

/-! ### MoveBefore / MoveFront -/

theorem moveBefore_spec {d : Doc} {a ts next target : Ticket} {nodes : List PosNode} {i j : Nat}
    (hi : Inv d) (hn : Newer d ts) (ha : arrNodes d a = some nodes)
    (hp : (liveOf d nodes)[i]? = some next) (ht : (liveOf d nodes)[j]? = some target) :
    ∃ prev, prevOf d nodes next = some prev ∧ Pre d (.move a prev target ts) ∧
      arrLive (apply d (.move a prev target ts)) a =
        ((arrLive d a).take i).filter (isNot target) ++
          target :: ((arrLive d a).drop i).filter (isNot target) := by
  obtain ⟨pe, moved, ha'⟩ := arrNodes_eq_some.1 ha
  have hok := ha'.ok hi
  have hmem : target ∈ liveOf d nodes := List.mem_of_getElem? ht
  obtain ⟨pre, n, post, hsplit, hnl, hlen⟩ := split_at_live hp
  obtain ⟨hne, _⟩ := nodeLive_eq_some.1 hnl
  have huniq := elem_unique_split hne (hsplit ▸ hok.elemNodup)
  have hprev : prevOf d nodes next = some (walkPrev d headId pre) := by
    unfold prevOf; rw [hsplit]; exact prevFrom_split headId huniq.1 hne
  have e1 : liveOf d nodes = liveOf d pre ++ liveOf d (n :: post) := by
    rw [hsplit, liveOf_append]
  refine ⟨_, hprev, ?_⟩
  rw [ha'.arrLive, e1, (take_of_split hlen).1, (take_of_split hlen).2]
  rcases walkPrev_spec d headId pre with ⟨h1, h2⟩ | ⟨a', q, b, h1, h2, h3, h4⟩
  · rw [h2]
    obtain ⟨hpre, hlive⟩ := move_head_spec hi hn ha hmem
    refine ⟨hpre, ?_⟩
    rw [hlive, e1, h1]
    simp
  · rw [h4]
    have hsplit' : nodes = a' ++ q :: (b ++ n :: post) := by rw [hsplit, h1]; simp
    obtain ⟨hpre, hlive⟩ := move_pos_spec hi hn ha hmem hsplit'
    refine ⟨hpre, ?_⟩
    rw [hlive]
    have e2 : liveOf d pre = liveOf d (a' ++ [q]) := by
      rw [h1, liveOf_append, liveOf_append, liveOf_cons, liveOf_cons, h3]; simp [liveOf_nil]
    have e3 : liveOf d (b ++ n :: post) = liveOf d (n :: post) := by
      rw [liveOf_append, h3]; rfl
    rw [e2, e3]

/-- `FindPrevCreatedAt` of the first live element is the dummy head -/
theorem prevOf_first {d : Doc} {a first : Ticket} {nodes : List PosNode} (hi : Inv d)
    (ha : arrNodes d a = some nodes) (hp : (liveOf d nodes)[0]? = some first) :
    prevOf d nodes first = some headId := by
  obtain ⟨pe, moved, ha'⟩ := arrNodes_eq_some.1 ha
  have hok := ha'.ok hi
  obtain ⟨pre, n, post, hsplit, hnl, hlen⟩ := split_at_live hp
  obtain ⟨hne, _⟩ := nodeLive_eq_some.1 hnl
  have huniq := elem_unique_split hne (hsplit ▸ hok.elemNodup)
  unfold prevOf
  rw [hsplit, prevFrom_split headId huniq.1 hne]
  rcases walkPrev_spec d headId pre with ⟨_, h2⟩ | ⟨a', q, b, h1, h2, _, _⟩
  · rw [h2]
  · exfalso
    have : liveOf d pre ≠ [] := by
      rw [h1, liveOf_append, liveOf_cons]
      cases hq : nodeLive d q with
      | none => rw [hq] at h2; simp at h2
      | some c => simp
    exact this (List.eq_nil_of_length_eq_zero hlen)

/-- `FindPrevCreatedAt(next)` for a later element: the POSITION identity of the node that shows
    the previous visible element (`PosCreatedAt` of it – for a moved element this is not its own
    ticket), however many dead slots and tombstones lie between the two -/
theorem prevOf_succ {d : Doc} {a next c : Ticket} {nodes : List PosNode} {k : Nat} (hi : Inv d)
    (ha : arrNodes d a = some nodes) (hp : (liveOf d nodes)[k + 1]? = some next)
    (hc : (liveOf d nodes)[k]? = some c) : prevOf d nodes next = some (anchorOf nodes c) := by
  obtain ⟨pe, moved, ha'⟩ := arrNodes_eq_some.1 ha
  have hok := ha'.ok hi
  obtain ⟨pre, n, post, hsplit, hnl, hlen⟩ := split_at_live hp
  obtain ⟨hne, _⟩ := nodeLive_eq_some.1 hnl
  have huniq := elem_unique_split hne (hsplit ▸ hok.elemNodup)
  unfold prevOf
  rw [hsplit, prevFrom_split headId huniq.1 hne]
  rcases walkPrev_spec d headId pre with ⟨h1, _⟩ | ⟨a', q, b, h1, h2, h3, h4⟩
  · rw [h1] at hlen; simp at hlen
  · rw [h4]
    obtain ⟨c', hq⟩ : ∃ c', nodeLive d q = some c' := by
      cases hq : nodeLive d q with
      | none => rw [hq] at h2; simp at h2
      | some c' => exact ⟨c', rfl⟩
    have hpre : liveOf d pre = liveOf d a' ++ [c'] := by
      rw [h1, liveOf_append, liveOf_cons, hq, h3]; rfl
    have hla : (liveOf d a').length = k := by
      rw [hpre] at hlen; simpa using hlen
    have hcc : c' = c := by
      have e1 : liveOf d nodes = liveOf d a' ++ c' :: (next :: liveOf d post) := by
        rw [hsplit, liveOf_append, hpre, liveOf_cons, hnl]; simp
      rw [e1] at hc
      have : (liveOf d a' ++ c' :: (next :: liveOf d post))[k]? = some c' := by
        rw [← hla]; simp
      rw [this] at hc
      exact Option.some.inj hc
    subst hcc
    obtain ⟨hqe, _⟩ := nodeLive_eq_some.1 hq
    have hsplit' : nodes = a' ++ q :: (b ++ n :: post) := by rw [hsplit, h1]; simp
    have huq := elem_unique_split hqe (hsplit' ▸ hok.elemNodup)
    have e2 : pre ++ n :: post = a' ++ q :: (b ++ n :: post) := by rw [h1]; simp
    unfold anchorOf
    rw [e2, posOf_split huq.1 hqe]; rfl

/-- the anchor of appends and `MoveLast` is the dummy head or the position of a node that SHOWS a
    live element – never a tombstone or a dead slot (what peers may already have purged) -/
theorem lastLivePos_live {d : Doc} {a : Ticket} {nodes : List PosNode} (hi : Inv d)
    (ha : arrNodes d a = some nodes) :
    (liveOf d nodes = [] ∧ lastLivePos d nodes = headId) ∨
      ∃ n ∈ nodes, n.pos = lastLivePos d nodes ∧ (nodeLive d n).isSome = true := by
  obtain ⟨pe, moved, ha'⟩ := arrNodes_eq_some.1 ha
  have hok := ha'.ok hi
  rcases List.eq_nil_or_concat (liveOf d nodes) with hnil | ⟨ys, e, hcc⟩
  · exact Or.inl ⟨hnil, lastLivePos_of_nil hnil⟩
  · right
    have hcc' : liveOf d nodes = ys ++ [e] := by rw [hcc]; simp
    have hget : (liveOf d nodes)[ys.length]? = some e := by rw [hcc']; simp
    obtain ⟨pre, n, post, hsplit, hnl, _⟩ := split_at_live hget
    obtain ⟨hne, _⟩ := nodeLive_eq_some.1 hnl
    have huniq := elem_unique_split hne (hsplit ▸ hok.elemNodup)
    refine ⟨n, by rw [hsplit]; simp, ?_, by rw [hnl]; rfl⟩
    rw [lastLivePos_of_concat hcc']
    unfold anchorOf
    rw [hsplit, posOf_split huniq.1 hne]; rfl

/-! ### set by index -/

/-- general form: the new element lands directly after the target's ORIGINAL slot (the node whose
    position identity is the target's own ticket), wherever the target is now -/
theorem set_origin_spec {d : Doc} {a ts target : Ticket} {nodes : List PosNode} {i : Nat} (v : Val)
    (hi : Inv d) (hn : Newer d ts) (ha : arrNodes d a = some nodes)
    (ht : (liveOf d nodes)[i]? = some target) :
    Pre d (.arraySet a target v ts) ∧
      ∃ pre o post, nodes = pre ++ o :: post ∧ o.pos = target ∧
        arrLive (apply d (.arraySet a target v ts)) a =
          (liveOf d (pre ++ [o])).filter (isNot target) ++
            ts :: (liveOf d post).filter (isNot target) := by
  obtain ⟨pe, moved, ha'⟩ := arrNodes_eq_some.1 ha
  have hok := ha'.ok hi
  have hmem : target ∈ liveOf d nodes := List.mem_of_getElem? ht
  have hh : holds nodes target = true := holds_of_mem_liveOf hmem
  have hslot : hasPos nodes target = true := (elemSlots_iff nodes).1 (ha'.slots hi) target hh
  obtain ⟨o, ho, hopos⟩ := hasPos_iff.1 hslot
  obtain ⟨pre, post, hsplit⟩ := List.append_of_mem ho
  have hupos := pos_unique_split (hsplit ▸ hok.posNodup)
  have hna : NoneAfter ts post :=
    hn.noneAfter ha'.hp ha'.hb (by intro m hm; rw [hsplit]; simp [hm])
  have hins : insertAfterNodes target ⟨ts, some ts⟩ nodes = some (pre ++ o :: ⟨ts, some ts⟩ :: post) := by
    rw [insertAfterNodes_eq_of_elemSlots (ha'.slots hi), hsplit, ← hopos,
      insertAfterWhere_split hupos.1 (by simp [posIs]),
      insertSkip_of_noneAfter (new := ⟨ts, some ts⟩) hna]
  have hstep : arrStep (.arraySet a target v ts) ⟨nodes, moved⟩ =
      some ⟨pre ++ o :: ⟨ts, some ts⟩ :: post, moved⟩ := by
    simp [arrStep, arrSet, hh, hins]
  have hr : Ready d (.arraySet a target v ts) pe := by
    refine ready_arr hi ha' rfl rfl (by simp [Op.target?]; exact hh) ?_
      (by simp [creates]; exact hn.not_used)
    have := arrStep_isSome (.arraySet a target v ts) ⟨nodes, moved⟩
    rw [hstep] at this; exact this.symm
  have hnodes := arrNodes_run hr ha'.hb hstep
  simp only [Op.parent] at hnodes
  refine ⟨hr.pre (by simp [creates]; exact hn.1), pre, o, post, hsplit, hopos, ?_⟩
  obtain ⟨te, hte, _⟩ := isChildOf_iff.1 (ha'.child hi hh)
  have hafter : ts.after target = true := hn.cell hte
  have htts : target ≠ ts := (hn.ne_cell hte).symm
  have hlive : ∀ c, live (apply d (.arraySet a target v ts)) c =
      (decide (c = ts) || (live d c && isNot target c)) := by
    intro c
    rw [live_apply_arr hr ha'.hb hstep]
    simp only [Op.newCell, Op.flag, flagOf, hafter, if_true, isNot, newElem]
    by_cases hc : c = ts
    · simp [hc]
    · by_cases hc2 : c = target
      · simp [hc, hc2]
      · have : ¬ (target = c) := fun e => hc2 e.symm
        simp [hc, hc2, this]
  have hfr := not_holds_fresh hn ha'
  -- old nodes: as after tombstoning the target
  have hold : ∀ xs : List PosNode, (∀ m ∈ xs, m ∈ nodes) →
      liveOf (apply d (.arraySet a target v ts)) xs = (liveOf d xs).filter (isNot target) := by
    intro xs hxs
    rw [liveOf_eq_filter, liveOf_eq_filter, List.filter_filter]
    apply List.filter_congr
    intro c hc
    have hc' : c ≠ ts := by
      intro e; subst e
      obtain ⟨m, hm, he⟩ := List.mem_filterMap.1 hc
      exact hfr m (hxs m hm) he
    rw [hlive]; simp [hc', Bool.and_comm]
  unfold Json.arrLive
  rw [hnodes]
  simp only
  have hsub1 : ∀ m ∈ pre ++ [o], m ∈ nodes := by
    intro m hm; rw [hsplit]
    rcases List.mem_append.1 hm with h | h
    · simp [h]
    · simp at h; simp [h]
  have hsub2 : ∀ m ∈ post, m ∈ nodes := by intro m hm; rw [hsplit]; simp [hm]
  have e0 : pre ++ o :: ⟨ts, some ts⟩ :: post = (pre ++ [o]) ++ ⟨ts, some ts⟩ :: post := by simp
  rw [e0, liveOf_append, liveOf_cons, hold _ hsub1, hold _ hsub2]
  have h2 : nodeLive (apply d (.arraySet a target v ts)) ⟨ts, some ts⟩ = some ts := by
    rw [nodeLive_eq_some]; refine ⟨rfl, ?_⟩; rw [hlive]; simp
  rw [h2]; rfl

/-- in-place replacement, for a target that still sits in its original slot -/
theorem set_inplace_spec {d : Doc} {a ts target : Ticket} {nodes : List PosNode} {i : Nat} (v : Val)
    (hi : Inv d) (hn : Newer d ts) (ha : arrNodes d a = some nodes)
    (ht : (liveOf d nodes)[i]? = some target) (hun : posOf nodes target = some target) :
    Pre d (.arraySet a target v ts) ∧
      arrLive (apply d (.arraySet a target v ts)) a = (arrLive d a).set i ts := by
  obtain ⟨hpre, pre, o, post, hsplit, hopos, hlive⟩ := set_origin_spec v hi hn ha ht
  refine ⟨hpre, ?_⟩
  obtain ⟨pe, moved, ha'⟩ := arrNodes_eq_some.1 ha
  have hok := ha'.ok hi
  -- the node showing the target is the origin slot
  obtain ⟨pre', n, post', hsplit', hnl, hlen⟩ := split_at_live ht
  obtain ⟨hne, _⟩ := nodeLive_eq_some.1 hnl
  have huniq' := elem_unique_split hne (hsplit' ▸ hok.elemNodup)
  have hnpos : n.pos = target := by
    rw [hsplit', posOf_split huniq'.1 hne] at hun
    exact Option.some.inj hun
  -- same position identity ⇒ same split
  have hsame : pre = pre' ∧ o = n ∧ post = post' := by
    have hnodup := hok.posNodup
    have hupos := pos_unique_split (hsplit ▸ hnodup)
    have hupos' := pos_unique_split (hsplit' ▸ hnodup)
    have heq : pre ++ o :: post = pre' ++ n :: post' := by rw [← hsplit, ← hsplit']
    have hon : o.pos = n.pos := by rw [hopos, hnpos]
    clear hlive hsplit hsplit' hlen huniq'
    induction pre generalizing pre' with
    | nil =>
      cases pre' with
      | nil => simp at heq; exact ⟨rfl, heq.1, heq.2⟩
      | cons m r =>
        simp at heq
        have := hupos'.1 m (by simp)
        rw [← heq.1] at this
        simp [posIs, hon] at this
    | cons m r ih =>
      cases pre' with
      | nil =>
        simp at heq
        have := hupos.1 m (by simp)
        rw [heq.1] at this
        simp [posIs, hon] at this
      | cons m' r' =>
        simp at heq
        have := ih (pre' := r') ⟨fun x hx => hupos.1 x (by simp [hx]), hupos.2⟩
          ⟨fun x hx => hupos'.1 x (by simp [hx]), hupos'.2⟩ heq.2
        exact ⟨by rw [heq.1, this.1], this.2.1, this.2.2⟩
  obtain ⟨rfl, rfl, rfl⟩ := hsame
  rw [hlive, ha'.arrLive]
  have huniq := elem_unique_split hne (hsplit ▸ hok.elemNodup)
  have hnotpre : target ∉ liveOf d pre := by
    intro h; obtain ⟨m, hm, he, _⟩ := mem_liveOf.1 h; exact huniq.1 m hm he
  have hnotpost : target ∉ liveOf d post := by
    intro h; obtain ⟨m, hm, he, _⟩ := mem_liveOf.1 h; exact huniq.2 m hm he
  have e1 : liveOf d nodes = liveOf d pre ++ target :: liveOf d post := by
    rw [hsplit, liveOf_append, liveOf_cons, hnl]; rfl
  rw [e1, liveOf_append, liveOf_cons, hnl, List.filter_append, filter_isNot_of_not_mem hnotpre,
    filter_isNot_of_not_mem hnotpost]
  subst hlen
  simp [liveOf_nil, isNot, List.set_append]

end Yorkie.Json
