/- Invariant of the pkg/locker model (Model/NamedLocker.lean) and its preservation by every step
   of the code as it is (`Variant.current`). Core Lean only. -/
import YorkieModel.Model.NamedLocker
namespace Yorkie.NamedLocker

theorem countP_set {α : Type} (p : α → Bool) (l : List α) (i : Nat) (a : α) (h : i < l.length) :
    (l.set i a).countP p + (if p l[i] then 1 else 0) = l.countP p + (if p a then 1 else 0) := by
  induction l generalizing i with
  | nil => simp at h
  | cons b t ih =>
    cases i with
    | zero => simp [List.countP_cons]; omega
    | succ j =>
      have := ih j (by simpa using h)
      simp [List.countP_cons] at this ⊢; omega

/-- The invariant.  For every entry `k ↦ o` of the map:
    `live`    every session that has taken a reference under the name `k` points to `o`, the
              entry the map has NOW (so a holder's `Unlock` finds it, and finds its own);
    `refs`    `waiters` = number of sessions between "take reference" and "drop reference" plus
              the references failed `TryLock`s left behind;
    `writer` / `readers`  the inner mutex is held by exactly the sessions in a `hold` phase;
    `excl`    exclusive means exclusive. -/
structure Inv (s : State) : Prop where
  bound : ∀ (k o : Nat), s.map k = some o → o < s.next
  inj : ∀ (k k' o : Nat), s.map k = some o → s.map k' = some o → k = k'
  live : ∀ (i : Nat) (p : Phase) (k o : Nat), s.ss[i]? = some p → p.key = some k → p.obj = some o → s.map k = some o
  refs : ∀ (k o : Nat), s.map k = some o → (s.heap o).refs = users s o + (s.heap o).leaked
  writer : ∀ (k o i : Nat), s.map k = some o → ((s.heap o).writer = some i ↔ s.ss[i]? = some (.holdW k o))
  readers : ∀ (k o i : Nat), s.map k = some o → (i ∈ (s.heap o).readers ↔ s.ss[i]? = some (.holdR k o))
  rnodup : ∀ (k o : Nat), s.map k = some o → (s.heap o).readers.Nodup
  excl : ∀ (k o : Nat), s.map k = some o → (s.heap o).writer.isSome = true → (s.heap o).readers = []

theorem inv_init (n : Nat) : Inv (State.init n) := by
  constructor <;> try (simp [State.init]; done)
  intro i p k o h hk
  simp [State.init, List.getElem?_replicate] at h
  obtain ⟨_, rfl⟩ := h
  simp [Phase.key] at hk

theorem users_setPhase (s : State) (i : Nat) (p q : Phase) (o : Nat) (h : s.ss[i]? = some p) :
    users (setPhase s i q) o + (if p.uses o then 1 else 0) = users s o + (if q.uses o then 1 else 0) := by
  have hi : i < s.ss.length := by
    rcases Nat.lt_or_ge i s.ss.length with h' | h'
    · exact h'
    · simp [List.getElem?_eq_none h'] at h
  have hp : s.ss[i] = p := by simpa [List.getElem?_eq_getElem hi] using h
  have := countP_set (Phase.uses o) s.ss i q hi
  simpa [users, setPhase, hp] using this

theorem getElem?_setPhase (s : State) (i j : Nat) (q : Phase) :
    (setPhase s i q).ss[j]? = if i = j then (if i < s.ss.length then some q else none) else s.ss[j]? := by
  simp [setPhase, List.getElem?_set]

theorem lt_of_getElem? {s : State} {i : Nat} {p : Phase} (h : s.ss[i]? = some p) : i < s.ss.length := by
  rcases Nat.lt_or_ge i s.ss.length with h' | h'
  · exact h'
  · simp [List.getElem?_eq_none h'] at h

/-- `nameLock.Lock()` returns / `nameLock.TryLock()` succeeds: session `i`, which has a reference
    on `o` (phase `p`), becomes the exclusive holder -/
theorem inv_acquireW (s : State) (i k o : Nat) (p : Phase) (h : Inv s) (hp : s.ss[i]? = some p)
    (hpk : p.key = some k) (hpo : p.obj = some o) (hf : (s.heap o).free = true) :
    Inv (setPhase { s with heap := updHeap s.heap o (fun x => { x with writer := some i }) } i (.holdW k o)) := by
  have hi := lt_of_getElem? hp
  have hm := h.live i _ k o hp hpk hpo
  simp only [Obj.free, Bool.and_eq_true, Option.isNone_iff_eq_none, List.isEmpty_iff] at hf
  constructor
  · exact h.bound
  · exact h.inj
  · intro j p' k' o' hj hk ho
    rw [getElem?_setPhase] at hj
    split at hj
    · simp at hj; subst hj; simp [Phase.key, Phase.obj] at hk ho; subst hk ho; exact hm
    · exact h.live j p' k' o' hj hk ho
  · intro k' o' hm'
    have hu := users_setPhase { s with heap := updHeap s.heap o (fun x => { x with writer := some i }) } i p (.holdW k o) o' hp
    have hr := h.refs k' o' hm'
    simp only [Phase.uses, hpo] at hu
    simp only [Phase.obj] at hu
    have : users { s with heap := updHeap s.heap o (fun x => { x with writer := some i }) } o' = users s o' := rfl
    rw [this] at hu
    simp only [setPhase, updHeap] at hu ⊢
    by_cases hoo : o' = o
    · subst hoo; simp_all; try omega
    · have hoo' : ¬ o = o' := fun e => hoo e.symm
      simp_all
  · intro k' o' j hm'
    change s.map k' = some o' at hm'
    have hw := h.writer k' o' j hm'
    have hw0 := h.writer k o
    have hinj := h.inj k k' o hm
    simp only [setPhase, updHeap, List.getElem?_set]
    grind [Phase.key, Phase.obj]
  · intro k' o' j hm'
    change s.map k' = some o' at hm'
    have hw := h.readers k' o' j hm'
    have hinj := h.inj k k' o hm
    simp only [setPhase, updHeap, List.getElem?_set]
    grind [Phase.key, Phase.obj]
  · intro k' o' hm'
    change s.map k' = some o' at hm'
    have := h.rnodup k' o' hm'
    simp only [setPhase, updHeap]
    grind
  · intro k' o' hm'
    change s.map k' = some o' at hm'
    have := h.excl k' o' hm'
    simp only [setPhase, updHeap]
    grind

/-- `nameLock.RLock()` returns -/
theorem inv_acquireR (s : State) (i k o : Nat) (h : Inv s) (hp : s.ss[i]? = some (.wantR k o))
    (hf : (s.heap o).writer.isNone = true) :
    Inv (setPhase { s with heap := updHeap s.heap o (fun x => { x with readers := i :: x.readers }) } i (.holdR k o)) := by
  have hi := lt_of_getElem? hp
  have hm := h.live i _ k o hp rfl rfl
  simp only [Option.isNone_iff_eq_none] at hf
  constructor
  · exact h.bound
  · exact h.inj
  · intro j p' k' o' hj hk ho
    rw [getElem?_setPhase] at hj
    split at hj
    · simp at hj; subst hj; simp [Phase.key, Phase.obj] at hk ho; subst hk ho; exact hm
    · exact h.live j p' k' o' hj hk ho
  · intro k' o' hm'
    have hu := users_setPhase { s with heap := updHeap s.heap o (fun x => { x with readers := i :: x.readers }) } i (.wantR k o) (.holdR k o) o' hp
    have hr := h.refs k' o' hm'
    simp only [Phase.uses, Phase.obj] at hu
    have : users { s with heap := updHeap s.heap o (fun x => { x with readers := i :: x.readers }) } o' = users s o' := rfl
    rw [this] at hu
    simp only [setPhase, updHeap] at hu ⊢
    by_cases hoo : o' = o
    · subst hoo; simp_all; try omega
    · have hoo' : ¬ o = o' := fun e => hoo e.symm
      simp_all
  · intro k' o' j hm'
    change s.map k' = some o' at hm'
    have hw := h.writer k' o' j hm'
    have hinj := h.inj k k' o hm
    simp only [setPhase, updHeap, List.getElem?_set]
    grind
  · intro k' o' j hm'
    change s.map k' = some o' at hm'
    have hw := h.readers k' o' j hm'
    have hinj := h.inj k k' o hm
    simp only [setPhase, updHeap, List.getElem?_set]
    grind
  · intro k' o' hm'
    change s.map k' = some o' at hm'
    have := h.rnodup k' o' hm'
    have hr := h.readers k' o' i hm'
    simp only [setPhase, updHeap]
    grind
  · intro k' o' hm'
    change s.map k' = some o' at hm'
    have := h.excl k' o' hm'
    simp only [setPhase, updHeap]
    grind

/-- `nameLock.TryLock()` fails: the session goes back to idle and its reference stays -/
theorem inv_tryFail (s : State) (i k o : Nat) (h : Inv s) (hp : s.ss[i]? = some (.wantT k o)) :
    Inv (setPhase { s with heap := updHeap s.heap o (fun x => { x with leaked := x.leaked + 1 }) } i .idle) := by
  have hi := lt_of_getElem? hp
  have hm := h.live i _ k o hp rfl rfl
  constructor
  · exact h.bound
  · exact h.inj
  · intro j p' k' o' hj hk ho
    rw [getElem?_setPhase] at hj
    split at hj
    · simp at hj; subst hj; simp [Phase.key] at hk
    · exact h.live j p' k' o' hj hk ho
  · intro k' o' hm'
    have hu := users_setPhase { s with heap := updHeap s.heap o (fun x => { x with leaked := x.leaked + 1 }) } i (.wantT k o) .idle o' hp
    have hr := h.refs k' o' hm'
    simp only [Phase.uses, Phase.obj] at hu
    have : users { s with heap := updHeap s.heap o (fun x => { x with leaked := x.leaked + 1 }) } o' = users s o' := rfl
    rw [this] at hu
    simp only [setPhase, updHeap] at hu ⊢
    by_cases hoo : o' = o
    · subst hoo; simp_all; try omega
    · have hoo' : ¬ o = o' := fun e => hoo e.symm
      simp_all
  · intro k' o' j hm'
    change s.map k' = some o' at hm'
    have hw := h.writer k' o' j hm'
    simp only [setPhase, updHeap, List.getElem?_set]
    grind
  · intro k' o' j hm'
    change s.map k' = some o' at hm'
    have hw := h.readers k' o' j hm'
    simp only [setPhase, updHeap, List.getElem?_set]
    grind
  · intro k' o' hm'
    change s.map k' = some o' at hm'
    have := h.rnodup k' o' hm'
    simp only [setPhase, updHeap]
    grind
  · intro k' o' hm'
    change s.map k' = some o' at hm'
    have := h.excl k' o' hm'
    simp only [setPhase, updHeap]
    grind

theorem not_uses_of_users_zero {s : State} {o : Nat} (h0 : users s o = 0) (j : Nat) (p : Phase)
    (hj : s.ss[j]? = some p) : p.obj ≠ some o := by
  have := List.countP_eq_zero.mp h0 p (List.mem_of_getElem? hj)
  simpa [Phase.uses] using this

theorem users_zero_of_fresh {s : State} (h : Inv s) (o : Nat) (ho : s.next ≤ o) : users s o = 0 := by
  apply List.countP_eq_zero.mpr
  intro p hp
  obtain ⟨j, hj⟩ := List.getElem?_of_mem hp
  simp only [Phase.uses, beq_iff_eq]
  intro hpo
  cases hk : p.key with
  | none => cases p <;> simp_all [Phase.key, Phase.obj]
  | some k =>
    have := h.bound k o (h.live j p k o hj hk hpo)
    omega

/-- the "take reference" section of `Lock` / `RLock` / `TryLock`: session `i` finds or creates the
    entry, increments `waiters` and enters the phase `q o` with the `lockCtr` it got -/
theorem inv_start (s : State) (i k : Nat) (q : Nat → Phase) (h : Inv s) (hp : s.ss[i]? = some .idle)
    (hqk : ∀ o, (q o).key = some k) (hqo : ∀ o, (q o).obj = some o)
    (hqw : ∀ o k' o', q o ≠ .holdW k' o') (hqr : ∀ o k' o', q o ≠ .holdR k' o') :
    Inv (setPhase (takeRef s k).1 i (q (takeRef s k).2)) := by
  have hi := lt_of_getElem? hp
  unfold takeRef
  cases hm : s.map k with
  | some o =>
    simp only
    constructor
    · exact h.bound
    · exact h.inj
    · intro j p' k' o' hj hk ho
      rw [getElem?_setPhase] at hj
      split at hj
      · simp at hj; subst hj; rw [hqk] at hk; rw [hqo] at ho; simp at hk ho; subst hk ho; exact hm
      · exact h.live j p' k' o' hj hk ho
    · intro k' o' hm'
      have hu := users_setPhase { s with heap := updHeap s.heap o (fun x => { x with refs := x.refs + 1 }) } i .idle (q o) o' hp
      have hr := h.refs k' o' hm'
      simp only [Phase.uses, hqo] at hu
      simp only [Phase.obj] at hu
      have : users { s with heap := updHeap s.heap o (fun x => { x with refs := x.refs + 1 }) } o' = users s o' := rfl
      rw [this] at hu
      simp only [setPhase, updHeap] at hu ⊢
      by_cases hoo : o' = o
      · subst hoo; simp_all; try omega
      · have hoo' : ¬ o = o' := fun e => hoo e.symm
        simp_all
    · intro k' o' j hm'
      change s.map k' = some o' at hm'
      have hw := h.writer k' o' j hm'
      have := hqw o k' o'
      simp only [setPhase, updHeap, List.getElem?_set]
      grind
    · intro k' o' j hm'
      change s.map k' = some o' at hm'
      have hw := h.readers k' o' j hm'
      have := hqr o k' o'
      simp only [setPhase, updHeap, List.getElem?_set]
      grind
    · intro k' o' hm'
      change s.map k' = some o' at hm'
      have := h.rnodup k' o' hm'
      simp only [setPhase, updHeap]
      grind
    · intro k' o' hm'
      change s.map k' = some o' at hm'
      have := h.excl k' o' hm'
      simp only [setPhase, updHeap]
      grind
  | none =>
    simp only
    have hfresh := users_zero_of_fresh h s.next (Nat.le_refl _)
    have hnone : ∀ (j : Nat) (p : Phase) (k' o' : Nat), s.ss[j]? = some p → p.key = some k' → p.obj = some o' → k' ≠ k := by
      intro j p k' o' hj hk ho e
      subst e
      have := h.live j p k' o' hj hk ho
      simp [hm] at this
    constructor
    · intro k' o' hm'
      simp only [setPhase, updMap] at hm'
      show o' < s.next + 1
      have := h.bound k' o'
      grind
    · intro k1 k2 o' h1 h2
      simp only [setPhase, updMap] at h1 h2
      have b1 := h.bound k1 o'
      have b2 := h.bound k2 o'
      have := h.inj k1 k2 o'
      grind
    · intro j p' k' o' hj hk ho
      rw [getElem?_setPhase] at hj
      simp only [setPhase, updMap]
      split at hj
      · simp at hj; subst hj; rw [hqk] at hk; rw [hqo] at ho; simp at hk ho; subst hk ho; simp
      · have := hnone j p' k' o' hj hk ho
        have := h.live j p' k' o' hj hk ho
        grind
    · intro k' o' hm'
      simp only [setPhase, updMap] at hm'
      have hu := users_setPhase { s with map := updMap s.map k (some s.next), heap := updHeap s.heap s.next (fun _ => { refs := 1 }), next := s.next + 1 } i .idle (q s.next) o' hp
      simp only [Phase.uses, hqo] at hu
      simp only [Phase.obj] at hu
      have : users { s with map := updMap s.map k (some s.next), heap := updHeap s.heap s.next (fun _ => { refs := 1 }), next := s.next + 1 } o' = users s o' := rfl
      rw [this] at hu
      simp only [setPhase, updHeap] at hu ⊢
      by_cases hkk : k' = k
      · subst hkk
        simp at hm'
        subst hm'
        simp_all
      · simp [hkk] at hm'
        have hb := h.bound k' o' hm'
        have hr := h.refs k' o' hm'
        have hne : o' ≠ s.next := by omega
        have hne' : ¬ s.next = o' := fun e => hne e.symm
        simp_all
    · intro k' o' j hm'
      simp only [setPhase, updMap] at hm'
      have := hqw s.next k' o'
      simp only [setPhase, updHeap, List.getElem?_set]
      by_cases hkk : k' = k
      · subst hkk
        simp at hm'
        subst hm'
        have := fun p => hnone j p k' s.next
        grind [Phase.key, Phase.obj]
      · simp [hkk] at hm'
        have hb := h.bound k' o' hm'
        have hw := h.writer k' o' j hm'
        grind
    · intro k' o' j hm'
      simp only [setPhase, updMap] at hm'
      have := hqr s.next k' o'
      simp only [setPhase, updHeap, List.getElem?_set]
      by_cases hkk : k' = k
      · subst hkk
        simp at hm'
        subst hm'
        have := fun p => hnone j p k' s.next
        grind [Phase.key, Phase.obj]
      · simp [hkk] at hm'
        have hb := h.bound k' o' hm'
        have hw := h.readers k' o' j hm'
        grind
    · intro k' o' hm'
      simp only [setPhase, updMap] at hm'
      simp only [setPhase, updHeap]
      by_cases hkk : k' = k
      · subst hkk; simp at hm'; subst hm'; simp
      · simp [hkk] at hm'
        have := h.rnodup k' o' hm'
        have hb := h.bound k' o' hm'
        grind
    · intro k' o' hm'
      simp only [setPhase, updMap] at hm'
      simp only [setPhase, updHeap]
      by_cases hkk : k' = k
      · subst hkk; simp at hm'; subst hm'; simp
      · simp [hkk] at hm'
        have := h.excl k' o' hm'
        have hb := h.bound k' o' hm'
        grind

/-- the `Unlock` section of a session that holds the lock exclusively: it finds its own entry (never `ErrNoSuchLock`), and the invariant is kept – the entry is deleted exactly when nobody else has a reference -/
theorem inv_unlockW (s : State) (i k o : Nat) (h : Inv s) (hp : s.ss[i]? = some (.holdW k o)) :
    Inv (unlockStep s i k o true).1 ∧ (unlockStep s i k o true).2 = .released := by
  have hi := lt_of_getElem? hp
  have hm := h.live i _ k o hp rfl rfl
  have hrefs := h.refs k o hm
  have hu0 := users_setPhase s i (.holdW k o) .idle o hp
  simp [Phase.uses, Phase.obj] at hu0
  unfold unlockStep
  simp only [hm, if_true]
  refine ⟨?_, by first | trivial | rfl | simp⟩
  by_cases hz : (s.heap o).refs - 1 = 0
  · -- last reference: the entry is deleted
    have hus : users (setPhase s i .idle) o = 0 := by omega
    have hnobody := fun j p hj => not_uses_of_users_zero hus j p hj
    simp only [hz, if_true]
    constructor
    · intro k' o' hm'
      simp only [setPhase, updMap] at hm'
      show o' < s.next
      have := h.bound k' o'
      grind
    · intro k1 k2 o' h1 h2
      simp only [setPhase, updMap] at h1 h2
      have := h.inj k1 k2 o'
      grind
    · intro j p' k' o' hj hk ho
      have hne := hnobody j p' hj
      rw [getElem?_setPhase] at hj
      simp only [setPhase, updMap]
      split at hj
      · simp at hj; subst hj; simp [Phase.key] at hk
      · have hl := h.live j p' k' o' hj hk ho
        have := h.inj k k' o hm
        grind
    · intro k' o' hm'
      simp only [setPhase, updMap] at hm'
      have hkk : k' ≠ k := by grind
      simp [hkk] at hm'
      have hoo : o' ≠ o := fun e => hkk (h.inj k' k o (e ▸ hm') hm)
      have hu := users_setPhase s i (.holdW k o) .idle o' hp
      have hr := h.refs k' o' hm'
      simp only [Phase.uses, Phase.obj] at hu
      have hoo' : ¬ o = o' := fun e => hoo e.symm
      simp only [setPhase, updHeap, users] at hu hr hrefs hu0 ⊢
      simp_all
    · intro k' o' j hm'
      simp only [setPhase, updMap] at hm'
      have hkk : k' ≠ k := by grind
      simp [hkk] at hm'
      have hoo : o' ≠ o := fun e => hkk (h.inj k' k o (e ▸ hm') hm)
      have hw := h.writer k' o' j hm'
      simp only [setPhase, updHeap, List.getElem?_set]
      grind
    · intro k' o' j hm'
      simp only [setPhase, updMap] at hm'
      have hkk : k' ≠ k := by grind
      simp [hkk] at hm'
      have hoo : o' ≠ o := fun e => hkk (h.inj k' k o (e ▸ hm') hm)
      have hw := h.readers k' o' j hm'
      simp only [setPhase, updHeap, List.getElem?_set]
      grind
    · intro k' o' hm'
      simp only [setPhase, updMap] at hm'
      have hkk : k' ≠ k := by grind
      simp [hkk] at hm'
      have hoo : o' ≠ o := fun e => hkk (h.inj k' k o (e ▸ hm') hm)
      have := h.rnodup k' o' hm'
      simp only [setPhase, updHeap]
      grind
    · intro k' o' hm'
      simp only [setPhase, updMap] at hm'
      have hkk : k' ≠ k := by grind
      simp [hkk] at hm'
      have hoo : o' ≠ o := fun e => hkk (h.inj k' k o (e ▸ hm') hm)
      have := h.excl k' o' hm'
      simp only [setPhase, updHeap]
      grind
  · simp only [hz, if_false]
    constructor
    · exact h.bound
    · exact h.inj
    · intro j p' k' o' hj hk ho
      rw [getElem?_setPhase] at hj
      split at hj
      · simp at hj; subst hj; simp [Phase.key] at hk
      · exact h.live j p' k' o' hj hk ho
    · intro k' o' hm'
      change s.map k' = some o' at hm'
      have hu := users_setPhase s i (.holdW k o) .idle o' hp
      have hr := h.refs k' o' hm'
      simp only [Phase.uses, Phase.obj] at hu
      simp only [setPhase, updHeap, users] at hu hr hrefs hu0 ⊢
      by_cases hoo : o' = o
      · subst hoo; simp_all; omega
      · have hoo' : ¬ o = o' := fun e => hoo e.symm
        simp_all
    · intro k' o' j hm'
      change s.map k' = some o' at hm'
      have hw := h.writer k' o' j hm'
      have hw0 := h.writer k o i hm
      have hr0 := h.readers k o i hm
      have hex := h.excl k o hm
      have hinj := h.inj k k' o hm
      simp only [setPhase, updHeap, List.getElem?_set]
      grind
    · intro k' o' j hm'
      change s.map k' = some o' at hm'
      have hw := h.readers k' o' j hm'
      have hr0 := h.readers k o i hm
      have hnd := h.rnodup k o hm
      have hinj := h.inj k k' o hm
      simp only [setPhase, updHeap, List.getElem?_set]
      grind [List.Nodup.mem_erase_iff]
    · intro k' o' hm'
      change s.map k' = some o' at hm'
      have := h.rnodup k' o' hm'
      simp only [setPhase, updHeap]
      grind [List.Nodup.erase]
    · intro k' o' hm'
      change s.map k' = some o' at hm'
      have := h.excl k' o' hm'
      have hw0 := h.writer k o i hm
      simp only [setPhase, updHeap]
      grind

/-- the `RUnlock` section of a session that holds the lock shared -/
theorem inv_unlockR (s : State) (i k o : Nat) (h : Inv s) (hp : s.ss[i]? = some (.holdR k o)) :
    Inv (unlockStep s i k o false).1 ∧ (unlockStep s i k o false).2 = .released := by
  have hi := lt_of_getElem? hp
  have hm := h.live i _ k o hp rfl rfl
  have hrefs := h.refs k o hm
  have hu0 := users_setPhase s i (.holdR k o) .idle o hp
  simp [Phase.uses, Phase.obj] at hu0
  unfold unlockStep
  simp only [hm, if_true, Bool.false_eq_true, if_false]
  refine ⟨?_, by first | trivial | rfl | simp⟩
  by_cases hz : (s.heap o).refs - 1 = 0
  · -- last reference: the entry is deleted
    have hus : users (setPhase s i .idle) o = 0 := by omega
    have hnobody := fun j p hj => not_uses_of_users_zero hus j p hj
    simp only [hz, if_true]
    constructor
    · intro k' o' hm'
      simp only [setPhase, updMap] at hm'
      show o' < s.next
      have := h.bound k' o'
      grind
    · intro k1 k2 o' h1 h2
      simp only [setPhase, updMap] at h1 h2
      have := h.inj k1 k2 o'
      grind
    · intro j p' k' o' hj hk ho
      have hne := hnobody j p' hj
      rw [getElem?_setPhase] at hj
      simp only [setPhase, updMap]
      split at hj
      · simp at hj; subst hj; simp [Phase.key] at hk
      · have hl := h.live j p' k' o' hj hk ho
        have := h.inj k k' o hm
        grind
    · intro k' o' hm'
      simp only [setPhase, updMap] at hm'
      have hkk : k' ≠ k := by grind
      simp [hkk] at hm'
      have hoo : o' ≠ o := fun e => hkk (h.inj k' k o (e ▸ hm') hm)
      have hu := users_setPhase s i (.holdR k o) .idle o' hp
      have hr := h.refs k' o' hm'
      simp only [Phase.uses, Phase.obj] at hu
      have hoo' : ¬ o = o' := fun e => hoo e.symm
      simp only [setPhase, updHeap, users] at hu hr hrefs hu0 ⊢
      simp_all
    · intro k' o' j hm'
      simp only [setPhase, updMap] at hm'
      have hkk : k' ≠ k := by grind
      simp [hkk] at hm'
      have hoo : o' ≠ o := fun e => hkk (h.inj k' k o (e ▸ hm') hm)
      have hw := h.writer k' o' j hm'
      simp only [setPhase, updHeap, List.getElem?_set]
      grind
    · intro k' o' j hm'
      simp only [setPhase, updMap] at hm'
      have hkk : k' ≠ k := by grind
      simp [hkk] at hm'
      have hoo : o' ≠ o := fun e => hkk (h.inj k' k o (e ▸ hm') hm)
      have hw := h.readers k' o' j hm'
      simp only [setPhase, updHeap, List.getElem?_set]
      grind
    · intro k' o' hm'
      simp only [setPhase, updMap] at hm'
      have hkk : k' ≠ k := by grind
      simp [hkk] at hm'
      have hoo : o' ≠ o := fun e => hkk (h.inj k' k o (e ▸ hm') hm)
      have := h.rnodup k' o' hm'
      simp only [setPhase, updHeap]
      grind
    · intro k' o' hm'
      simp only [setPhase, updMap] at hm'
      have hkk : k' ≠ k := by grind
      simp [hkk] at hm'
      have hoo : o' ≠ o := fun e => hkk (h.inj k' k o (e ▸ hm') hm)
      have := h.excl k' o' hm'
      simp only [setPhase, updHeap]
      grind
  · simp only [hz, if_false]
    constructor
    · exact h.bound
    · exact h.inj
    · intro j p' k' o' hj hk ho
      rw [getElem?_setPhase] at hj
      split at hj
      · simp at hj; subst hj; simp [Phase.key] at hk
      · exact h.live j p' k' o' hj hk ho
    · intro k' o' hm'
      change s.map k' = some o' at hm'
      have hu := users_setPhase s i (.holdR k o) .idle o' hp
      have hr := h.refs k' o' hm'
      simp only [Phase.uses, Phase.obj] at hu
      simp only [setPhase, updHeap, users] at hu hr hrefs hu0 ⊢
      by_cases hoo : o' = o
      · subst hoo; simp_all; omega
      · have hoo' : ¬ o = o' := fun e => hoo e.symm
        simp_all
    · intro k' o' j hm'
      change s.map k' = some o' at hm'
      have hw := h.writer k' o' j hm'
      have hw0 := h.writer k o i hm
      have hr0 := h.readers k o i hm
      have hex := h.excl k o hm
      have hinj := h.inj k k' o hm
      simp only [setPhase, updHeap, List.getElem?_set]
      grind
    · intro k' o' j hm'
      change s.map k' = some o' at hm'
      have hw := h.readers k' o' j hm'
      have hr0 := h.readers k o i hm
      have hnd := h.rnodup k o hm
      have hinj := h.inj k k' o hm
      simp only [setPhase, updHeap, List.getElem?_set]
      grind [List.Nodup.mem_erase_iff]
    · intro k' o' hm'
      change s.map k' = some o' at hm'
      have := h.rnodup k' o' hm'
      simp only [setPhase, updHeap]
      grind [List.Nodup.erase]
    · intro k' o' hm'
      change s.map k' = some o' at hm'
      have := h.excl k' o' hm'
      have hw0 := h.writer k o i hm
      simp only [setPhase, updHeap]
      grind

/-- `nameLock.TryLock()` fails (code as it is): the session keeps its reference until it has given
    it back -/
theorem inv_tryFailKeep (s : State) (i k o : Nat) (h : Inv s) (hp : s.ss[i]? = some (.wantT k o)) :
    Inv (setPhase s i (.failT k o)) := by
  have hi := lt_of_getElem? hp
  have hm := h.live i _ k o hp rfl rfl
  constructor
  · exact h.bound
  · exact h.inj
  · intro j p' k' o' hj hk ho
    rw [getElem?_setPhase] at hj
    split at hj
    · simp at hj; subst hj; simp [Phase.key, Phase.obj] at hk ho; subst hk ho; exact hm
    · exact h.live j p' k' o' hj hk ho
  · intro k' o' hm'
    have hu := users_setPhase s i (.wantT k o) (.failT k o) o' hp
    have hr := h.refs k' o' hm'
    simp only [Phase.uses, Phase.obj] at hu
    simp only [setPhase] at hu ⊢
    simp only [users] at hu hr ⊢
    by_cases hoo : o = o'
    · subst hoo; simp at hu; omega
    · simp [hoo] at hu; omega
  · intro k' o' j hm'
    change s.map k' = some o' at hm'
    have hw := h.writer k' o' j hm'
    simp only [setPhase, List.getElem?_set]
    grind
  · intro k' o' j hm'
    change s.map k' = some o' at hm'
    have hw := h.readers k' o' j hm'
    simp only [setPhase, List.getElem?_set]
    grind
  · exact h.rnodup
  · exact h.excl

/-- a failed `TryLock` gives its reference back: the invariant is kept – the entry is deleted
    exactly when nobody else has a reference -/
theorem inv_drop (s : State) (i k o : Nat) (h : Inv s) (hp : s.ss[i]? = some (.failT k o)) :
    Inv (dropStep s i k o) := by
  have hi := lt_of_getElem? hp
  have hm := h.live i _ k o hp rfl rfl
  have hrefs := h.refs k o hm
  have hu0 := users_setPhase s i (.failT k o) .idle o hp
  simp [Phase.uses, Phase.obj] at hu0
  unfold dropStep
  simp only [hm, and_true]
  by_cases hz : (s.heap o).refs - 1 = 0
  · have hus : users (setPhase s i .idle) o = 0 := by omega
    have hnobody := fun j p hj => not_uses_of_users_zero hus j p hj
    simp only [hz, if_true]
    constructor
    · intro k' o' hm'
      simp only [setPhase, updMap] at hm'
      show o' < s.next
      have := h.bound k' o'
      grind
    · intro k1 k2 o' h1 h2
      simp only [setPhase, updMap] at h1 h2
      have := h.inj k1 k2 o'
      grind
    · intro j p' k' o' hj hk ho
      have hne := hnobody j p' hj
      rw [getElem?_setPhase] at hj
      simp only [setPhase, updMap]
      split at hj
      · simp at hj; subst hj; simp [Phase.key] at hk
      · have hl := h.live j p' k' o' hj hk ho
        have := h.inj k k' o hm
        grind
    · intro k' o' hm'
      simp only [setPhase, updMap] at hm'
      have hkk : k' ≠ k := by grind
      simp [hkk] at hm'
      have hoo : o' ≠ o := fun e => hkk (h.inj k' k o (e ▸ hm') hm)
      have hu := users_setPhase s i (.failT k o) .idle o' hp
      have hr := h.refs k' o' hm'
      simp only [Phase.uses, Phase.obj] at hu
      have hoo' : ¬ o = o' := fun e => hoo e.symm
      simp only [setPhase, updHeap, users] at hu hr hrefs hu0 ⊢
      simp_all
    · intro k' o' j hm'
      simp only [setPhase, updMap] at hm'
      have hkk : k' ≠ k := by grind
      simp [hkk] at hm'
      have hoo : o' ≠ o := fun e => hkk (h.inj k' k o (e ▸ hm') hm)
      have hw := h.writer k' o' j hm'
      simp only [setPhase, updHeap, List.getElem?_set]
      grind
    · intro k' o' j hm'
      simp only [setPhase, updMap] at hm'
      have hkk : k' ≠ k := by grind
      simp [hkk] at hm'
      have hoo : o' ≠ o := fun e => hkk (h.inj k' k o (e ▸ hm') hm)
      have hw := h.readers k' o' j hm'
      simp only [setPhase, updHeap, List.getElem?_set]
      grind
    · intro k' o' hm'
      simp only [setPhase, updMap] at hm'
      have hkk : k' ≠ k := by grind
      simp [hkk] at hm'
      have hoo : o' ≠ o := fun e => hkk (h.inj k' k o (e ▸ hm') hm)
      have := h.rnodup k' o' hm'
      simp only [setPhase, updHeap]
      grind
    · intro k' o' hm'
      simp only [setPhase, updMap] at hm'
      have hkk : k' ≠ k := by grind
      simp [hkk] at hm'
      have hoo : o' ≠ o := fun e => hkk (h.inj k' k o (e ▸ hm') hm)
      have := h.excl k' o' hm'
      simp only [setPhase, updHeap]
      grind
  · simp only [hz, if_false]
    constructor
    · exact h.bound
    · exact h.inj
    · intro j p' k' o' hj hk ho
      rw [getElem?_setPhase] at hj
      split at hj
      · simp at hj; subst hj; simp [Phase.key] at hk
      · exact h.live j p' k' o' hj hk ho
    · intro k' o' hm'
      change s.map k' = some o' at hm'
      have hu := users_setPhase s i (.failT k o) .idle o' hp
      have hr := h.refs k' o' hm'
      simp only [Phase.uses, Phase.obj] at hu
      simp only [setPhase, updHeap, users] at hu hr hrefs hu0 ⊢
      by_cases hoo : o' = o
      · subst hoo; simp_all; omega
      · have hoo' : ¬ o = o' := fun e => hoo e.symm
        simp_all
    · intro k' o' j hm'
      change s.map k' = some o' at hm'
      have hw := h.writer k' o' j hm'
      simp only [setPhase, updHeap, List.getElem?_set]
      grind
    · intro k' o' j hm'
      change s.map k' = some o' at hm'
      have hw := h.readers k' o' j hm'
      simp only [setPhase, updHeap, List.getElem?_set]
      grind
    · intro k' o' hm'
      change s.map k' = some o' at hm'
      have := h.rnodup k' o' hm'
      simp only [setPhase, updHeap]
      grind
    · intro k' o' hm'
      change s.map k' = some o' at hm'
      have := h.excl k' o' hm'
      simp only [setPhase, updHeap]
      grind

/-- every step of the code – as it is (`current`) and as it was before 114f7bfc (`leakyTry`) – keeps the
    invariant, and no `Unlock` / `RUnlock` of a holder ends in `ErrNoSuchLock` or on a foreign
    `lockCtr` -/
theorem inv_step (v : Variant) (hv : v ≠ .tryRefOnCreate) (s s' : State) (i : Nat) (a : Act) (r : Outcome) (h : Inv s)
    (hs : step v s i a = some (s', r)) : Inv s' ∧ r ≠ .noSuchLock ∧ r ≠ .foreign := by
  unfold step at hs
  split at hs
  · -- Lock: take reference
    rename_i k hp
    simp only [Option.some.injEq, Prod.mk.injEq] at hs
    obtain ⟨rfl, rfl⟩ := hs
    exact ⟨inv_start s i k (fun o => .wantW k o) h hp (fun _ => rfl) (fun _ => rfl) (by intros; simp) (by intros; simp),
      by simp, by simp⟩
  · rename_i k hp
    simp only [Option.some.injEq, Prod.mk.injEq] at hs
    obtain ⟨rfl, rfl⟩ := hs
    exact ⟨inv_start s i k (fun o => .wantR k o) h hp (fun _ => rfl) (fun _ => rfl) (by intros; simp) (by intros; simp),
      by simp, by simp⟩
  · rename_i k hp
    have hT : ∀ s'' r'', some (setPhase (takeRef s k).1 i (.wantT k (takeRef s k).2), Outcome.none) = some (s'', r'') →
        Inv s'' ∧ r'' ≠ .noSuchLock ∧ r'' ≠ .foreign := by
      intro s'' r'' hs'
      simp only [Option.some.injEq, Prod.mk.injEq] at hs'
      obtain ⟨rfl, rfl⟩ := hs'
      exact ⟨inv_start s i k (fun o => .wantT k o) h hp (fun _ => rfl) (fun _ => rfl) (by intros; simp) (by intros; simp),
        by simp, by simp⟩
    cases v with
    | current => exact hT _ _ hs
    | leakyTry => exact hT _ _ hs
    | tryRefOnCreate => exact absurd rfl hv
  · rename_i k o hp
    split at hs
    · rename_i hf
      simp only [Option.some.injEq, Prod.mk.injEq] at hs
      obtain ⟨rfl, rfl⟩ := hs
      exact ⟨inv_acquireW s i k o _ h hp rfl rfl hf, by simp, by simp⟩
    · simp at hs
  · rename_i k o hp
    split at hs
    · rename_i hf
      simp only [Option.some.injEq, Prod.mk.injEq] at hs
      obtain ⟨rfl, rfl⟩ := hs
      exact ⟨inv_acquireR s i k o h hp hf, by simp, by simp⟩
    · simp at hs
  · rename_i k o hp
    split at hs
    · rename_i hf
      simp only [Option.some.injEq, Prod.mk.injEq] at hs
      obtain ⟨rfl, rfl⟩ := hs
      exact ⟨inv_acquireW s i k o _ h hp rfl rfl hf, by simp, by simp⟩
    · split at hs
      · simp only [Option.some.injEq, Prod.mk.injEq] at hs
        obtain ⟨rfl, rfl⟩ := hs
        exact ⟨inv_tryFailKeep s i k o h hp, by simp, by simp⟩
      · simp only [Option.some.injEq, Prod.mk.injEq] at hs
        obtain ⟨rfl, rfl⟩ := hs
        exact ⟨inv_tryFail s i k o h hp, by simp, by simp⟩
  · rename_i k o hp
    simp only [Option.some.injEq, Prod.mk.injEq] at hs
    obtain ⟨rfl, rfl⟩ := hs
    exact ⟨inv_drop s i k o h hp, by simp, by simp⟩
  · rename_i k o hp
    simp only [Option.some.injEq] at hs
    have := inv_unlockW s i k o h hp
    rw [hs] at this
    obtain ⟨h1, h2⟩ := this
    simp only at h1 h2
    subst h2
    exact ⟨h1, by simp, by simp⟩
  · rename_i k o hp
    simp only [Option.some.injEq] at hs
    have := inv_unlockR s i k o h hp
    rw [hs] at this
    obtain ⟨h1, h2⟩ := this
    simp only at h1 h2
    subst h2
    exact ⟨h1, by simp, by simp⟩
  · simp at hs

theorem inv_reach (v : Variant) (hv : v ≠ .tryRefOnCreate) (n : Nat) (s : State)
    (hr : Reach v (State.init n) s) : Inv s := by
  induction hr with
  | init => exact inv_init n
  | step _ hs ih => exact (inv_step v hv _ _ _ _ _ ih hs).1

theorem reach_trans {v : Variant} {s₀ s₁ s₂ : State} (h₁ : Reach v s₀ s₁) (h₂ : Reach v s₁ s₂) : Reach v s₀ s₂ := by
  induction h₂ with
  | init => exact h₁
  | step _ hs ih => exact .step ih hs

/-- a schedule that `exec` can run is a run of the transition system -/
theorem exec_reach (v : Variant) (sched : List (Nat × Act)) : ∀ (s s' : State) (os : List Outcome),
    exec v s sched = some (s', os) → Reach v s s' := by
  induction sched with
  | nil => intro s s' os h; simp [exec] at h; obtain ⟨rfl, _⟩ := h; exact .init
  | cons x r ih =>
    intro s s' os h
    obtain ⟨i, a⟩ := x
    simp only [exec] at h
    cases hst : step v s i a with
    | none => simp [hst] at h
    | some y =>
      obtain ⟨s₁, o⟩ := y
      simp only [hst] at h
      cases hex : exec v s₁ r with
      | none => simp [hex] at h
      | some z =>
        obtain ⟨s₂, os'⟩ := z
        simp only [hex, Option.some.injEq, Prod.mk.injEq] at h
        obtain ⟨rfl, _⟩ := h
        exact reach_trans (.step .init hst) (ih s₁ s₂ os' hex)

theorem takeRef_map_old (s : State) (k k' o : Nat) (hm' : (takeRef s k).1.map k' = some o) (hb : o < s.next) :
    s.map k' = some o := by
  unfold takeRef at hm'
  split at hm'
  · exact hm'
  · simp only [updMap] at hm'
    split at hm'
    · simp only [Option.some.injEq] at hm'; omega
    · exact hm'

theorem unlockStep_map_old (s : State) (i k o : Nat) (w : Bool) (k' o' : Nat)
    (hm' : (unlockStep s i k o w).1.map k' = some o') : s.map k' = some o' := by
  unfold unlockStep at hm'
  split at hm'
  · exact hm'
  · simp only [setPhase] at hm'
    split at hm'
    · simp only [updMap] at hm'
      split at hm'
      · simp at hm'
      · exact hm'
    · exact hm'

theorem dropStep_map_old (s : State) (i k o : Nat) (k' o' : Nat)
    (hm' : (dropStep s i k o).map k' = some o') : s.map k' = some o' := by
  unfold dropStep at hm'
  simp only [setPhase] at hm'
  split at hm'
  · simp only [updMap] at hm'
    split at hm'
    · simp at hm'
    · exact hm'
  · exact hm'

/-- a step never maps a name to an already existing `lockCtr` it was not mapped to before -/
theorem step_map_old (v : Variant) (hv : v ≠ .tryRefOnCreate) (s s' : State) (i : Nat) (a : Act) (r : Outcome)
    (hs : step v s i a = some (s', r)) (k' o : Nat) (hm' : s'.map k' = some o) (hb : o < s.next) :
    s.map k' = some o := by
  unfold step at hs
  split at hs
  · simp only [Option.some.injEq, Prod.mk.injEq] at hs
    obtain ⟨rfl, rfl⟩ := hs
    exact takeRef_map_old s _ k' o hm' hb
  · simp only [Option.some.injEq, Prod.mk.injEq] at hs
    obtain ⟨rfl, rfl⟩ := hs
    exact takeRef_map_old s _ k' o hm' hb
  · cases v with
    | current =>
      simp only [Option.some.injEq, Prod.mk.injEq] at hs
      obtain ⟨rfl, rfl⟩ := hs
      exact takeRef_map_old s _ k' o hm' hb
    | leakyTry =>
      simp only [Option.some.injEq, Prod.mk.injEq] at hs
      obtain ⟨rfl, rfl⟩ := hs
      exact takeRef_map_old s _ k' o hm' hb
    | tryRefOnCreate => exact absurd rfl hv
  · split at hs
    · simp only [Option.some.injEq, Prod.mk.injEq] at hs; obtain ⟨rfl, rfl⟩ := hs; exact hm'
    · simp at hs
  · split at hs
    · simp only [Option.some.injEq, Prod.mk.injEq] at hs; obtain ⟨rfl, rfl⟩ := hs; exact hm'
    · simp at hs
  · split at hs
    · simp only [Option.some.injEq, Prod.mk.injEq] at hs; obtain ⟨rfl, rfl⟩ := hs; exact hm'
    · split at hs
      · simp only [Option.some.injEq, Prod.mk.injEq] at hs; obtain ⟨rfl, rfl⟩ := hs; exact hm'
      · simp only [Option.some.injEq, Prod.mk.injEq] at hs; obtain ⟨rfl, rfl⟩ := hs; exact hm'
  · simp only [Option.some.injEq, Prod.mk.injEq] at hs
    obtain ⟨rfl, rfl⟩ := hs
    exact dropStep_map_old s i _ _ k' o hm'
  · simp only [Option.some.injEq] at hs
    have := unlockStep_map_old s i _ _ true k' o (by rw [hs]; exact hm')
    exact this
  · simp only [Option.some.injEq] at hs
    have := unlockStep_map_old s i _ _ false k' o (by rw [hs]; exact hm')
    exact this
  · simp at hs

/-- second invariant, of the code as it is only: no entry carries a leaked reference, and every
    entry of the map is referenced (`waiters > 0`) -/
def Tidy (s : State) : Prop := ∀ (k o : Nat), s.map k = some o → (s.heap o).leaked = 0 ∧ 0 < (s.heap o).refs

theorem tidy_init (n : Nat) : Tidy (State.init n) := by
  intro k o h; simp [State.init] at h

theorem tidy_takeRef (s : State) (k : Nat) (h : Inv s) (ht : Tidy s) : Tidy (takeRef s k).1 := by
  unfold takeRef
  intro k' o' hm'
  split at hm'
  · rename_i o hm
    simp only [updHeap] at hm' ⊢
    have := ht k' o' hm'
    grind
  · rename_i hm
    simp only [updMap, updHeap] at hm' ⊢
    have := ht k' o'
    have := h.bound k' o'
    grind

theorem tidy_setPhase (s : State) (i : Nat) (p : Phase) (ht : Tidy s) : Tidy (setPhase s i p) := ht

theorem tidy_step (s s' : State) (i : Nat) (a : Act) (r : Outcome) (h : Inv s) (ht : Tidy s)
    (hs : step .current s i a = some (s', r)) : Tidy s' := by
  unfold step at hs
  split at hs
  · simp only [Option.some.injEq, Prod.mk.injEq] at hs; obtain ⟨rfl, rfl⟩ := hs
    exact tidy_setPhase _ _ _ (tidy_takeRef s _ h ht)
  · simp only [Option.some.injEq, Prod.mk.injEq] at hs; obtain ⟨rfl, rfl⟩ := hs
    exact tidy_setPhase _ _ _ (tidy_takeRef s _ h ht)
  · simp only [Option.some.injEq, Prod.mk.injEq] at hs; obtain ⟨rfl, rfl⟩ := hs
    exact tidy_setPhase _ _ _ (tidy_takeRef s _ h ht)
  · split at hs
    · simp only [Option.some.injEq, Prod.mk.injEq] at hs; obtain ⟨rfl, rfl⟩ := hs
      intro k' o' hm'
      change s.map k' = some o' at hm'
      have := ht k' o' hm'
      simp only [setPhase, updHeap]
      grind
    · simp at hs
  · split at hs
    · simp only [Option.some.injEq, Prod.mk.injEq] at hs; obtain ⟨rfl, rfl⟩ := hs
      intro k' o' hm'
      change s.map k' = some o' at hm'
      have := ht k' o' hm'
      simp only [setPhase, updHeap]
      grind
    · simp at hs
  · split at hs
    · simp only [Option.some.injEq, Prod.mk.injEq] at hs; obtain ⟨rfl, rfl⟩ := hs
      intro k' o' hm'
      change s.map k' = some o' at hm'
      have := ht k' o' hm'
      simp only [setPhase, updHeap]
      grind
    · simp only [if_true, Option.some.injEq, Prod.mk.injEq] at hs; obtain ⟨rfl, rfl⟩ := hs
      exact ht
  · rename_i k o hp
    simp only [Option.some.injEq, Prod.mk.injEq] at hs; obtain ⟨rfl, rfl⟩ := hs
    have hm := h.live i _ k o hp rfl rfl
    intro k' o' hm'
    unfold dropStep at hm' ⊢
    simp only [setPhase, updHeap, hm, and_true] at hm' ⊢
    by_cases hz : (s.heap o).refs - 1 = 0
    · simp only [hz, if_true, updMap] at hm'
      have hkk : k' ≠ k := by grind
      simp [hkk] at hm'
      have hoo : o' ≠ o := fun e => hkk (h.inj k' k o (e ▸ hm') hm)
      have := ht k' o' hm'
      simpa [hoo] using this
    · simp only [hz, if_false] at hm'
      have := ht k' o' hm'
      by_cases hoo : o' = o
      · subst hoo; simp; omega
      · simpa [hoo] using this
  · rename_i k o hp
    simp only [Option.some.injEq] at hs
    have hm := h.live i _ k o hp rfl rfl
    have hs' : s' = (unlockStep s i k o true).1 := by rw [hs]
    subst hs'
    intro k' o' hm'
    unfold unlockStep at hm' ⊢
    simp only [hm, setPhase, updHeap] at hm' ⊢
    by_cases hz : (s.heap o).refs - 1 = 0
    · simp only [hz, if_true, updMap] at hm'
      have hkk : k' ≠ k := by grind
      simp [hkk] at hm'
      have hoo : o' ≠ o := fun e => hkk (h.inj k' k o (e ▸ hm') hm)
      have := ht k' o' hm'
      simpa [hoo] using this
    · simp only [hz, if_false] at hm'
      have := ht k' o' hm'
      by_cases hoo : o' = o
      · subst hoo; simp; omega
      · simpa [hoo] using this
  · rename_i k o hp
    simp only [Option.some.injEq] at hs
    have hm := h.live i _ k o hp rfl rfl
    have hs' : s' = (unlockStep s i k o false).1 := by rw [hs]
    subst hs'
    intro k' o' hm'
    unfold unlockStep at hm' ⊢
    simp only [hm, setPhase, updHeap] at hm' ⊢
    by_cases hz : (s.heap o).refs - 1 = 0
    · simp only [hz, if_true, updMap] at hm'
      have hkk : k' ≠ k := by grind
      simp [hkk] at hm'
      have hoo : o' ≠ o := fun e => hkk (h.inj k' k o (e ▸ hm') hm)
      have := ht k' o' hm'
      simpa [hoo] using this
    · simp only [hz, if_false] at hm'
      have := ht k' o' hm'
      by_cases hoo : o' = o
      · subst hoo; simp; omega
      · simpa [hoo] using this
  · simp at hs

theorem tidy_reach (n : Nat) (s : State) (hr : Reach .current (State.init n) s) : Inv s ∧ Tidy s := by
  induction hr with
  | init => exact ⟨inv_init n, tidy_init n⟩
  | step _ hs ih => exact ⟨(inv_step .current (by simp) _ _ _ _ _ ih.1 hs).1, tidy_step _ _ _ _ _ ih.1 ih.2 hs⟩

/-- when no session has a reference, `users` is 0 for every `lockCtr` -/
theorem users_zero_of_all_idle (s : State) (hid : ∀ p ∈ s.ss, p = Phase.idle) (o : Nat) : users s o = 0 := by
  apply List.countP_eq_zero.mpr
  intro p hp
  rw [hid p hp]
  simp [Phase.uses, Phase.obj]

end Yorkie.NamedLocker
