/-
Anchored insertion as a total function, normal forms of the three array transitions
(`arrAdd`, `arrMove`, `arrSet`) as "guard + total core", and the bookkeeping lemmas:
which positions / elements exist afterwards, success conditions, `ElemSlots` preservation.
-/
import YorkieModel.Lemmas.Array1
namespace Yorkie.Crdt
open Yorkie

/-! ### anchors -/

/-- where an insertion starts: at the dummy head, or after the first node matching `p` -/
inductive Anchor
  | head
  | pred (p : PosNode → Bool)

namespace Anchor

/-- the anchor exists in the list -/
def ok : Anchor → List PosNode → Bool
  | .head, _ => true
  | .pred p, xs => xs.any p

/-- the anchor does not select node `n` -/
def misses : Anchor → PosNode → Prop
  | .head, _ => True
  | .pred p, n => p n = false

/-- the anchor's predicate is invariant under the node transformation `f` -/
def respects : Anchor → (PosNode → PosNode) → Prop
  | .head, _ => True
  | .pred p, f => ∀ m, p (f m) = p m

end Anchor

/-- total anchored insertion: unchanged list when the anchor is missing -/
def insT : Anchor → PosNode → List PosNode → List PosNode
  | .head, n, xs => insertSkip n xs
  | .pred p, n, xs => insertAfterWhereT p n xs

theorem any_insT (f : PosNode → Bool) (A : Anchor) (n : PosNode) (xs : List PosNode) :
    (insT A n xs).any f = (xs.any f || (A.ok xs && f n)) := by
  cases A with
  | head => simp [insT, Anchor.ok, any_insertSkip]
  | pred p => simp [insT, Anchor.ok, any_insertAfterWhereT]

theorem hasPos_insT (A : Anchor) (n : PosNode) (xs : List PosNode) (x : Ticket) :
    hasPos (insT A n xs) x = (hasPos xs x || (A.ok xs && decide (x = n.pos))) := by
  simp only [hasPos_eq, any_insT, posIs]
  congr 2
  exact decide_eq_decide.2 ⟨Eq.symm, Eq.symm⟩

theorem holds_insT (A : Anchor) (n : PosNode) (xs : List PosNode) (e : Ticket) :
    holds (insT A n xs) e = (holds xs e || (A.ok xs && decide (n.elem = some e))) := by
  simp only [holds_eq, any_insT, elemIs]

theorem ok_insT_of_misses {A : Anchor} {n : PosNode} (h : A.misses n) (B : Anchor)
    (xs : List PosNode) : A.ok (insT B n xs) = A.ok xs := by
  cases A with
  | head => rfl
  | pred p =>
    have h' : p n = false := h
    simp [Anchor.ok, any_insT, h']

theorem ok_map_of_respects {A : Anchor} {f : PosNode → PosNode} (h : A.respects f)
    (xs : List PosNode) : A.ok (xs.map f) = A.ok xs := by
  cases A with
  | head => rfl
  | pred p =>
    have h' : ∀ m, p (f m) = p m := h
    simp only [Anchor.ok, List.any_map]
    congr 1; funext m; exact h' m

/-- the core commutation: two anchored skip-rule insertions commute as soon as neither
    anchor selects the other's new node and the two new position identities differ -/
theorem insT_comm (A B : Anchor) (a b : PosNode) (hA : A.misses b) (hB : B.misses a)
    (hab : a.pos ≠ b.pos) (xs : List PosNode) :
    insT A a (insT B b xs) = insT B b (insT A a xs) := by
  cases A with
  | head =>
    cases B with
    | head => exact insertSkip_comm a b hab xs
    | pred q => exact (insertAfterWhereT_insertSkip q a b hB hab xs).symm
  | pred p =>
    cases B with
    | head => exact insertAfterWhereT_insertSkip p b a hA (Ne.symm hab) xs
    | pred q => exact insertAfterWhereT_comm p q a b hA hB hab xs

theorem map_insT (f : PosNode → PosNode) (hf : ∀ m, (f m).pos = m.pos) (A : Anchor)
    (hA : A.respects f) (n : PosNode) (xs : List PosNode) :
    (insT A n xs).map f = insT A (f n) (xs.map f) := by
  cases A with
  | head => exact map_insertSkip f hf n xs
  | pred p => exact map_insertAfterWhereT f hf p hA n xs

theorem vacate_insT (t : Ticket) (A : Anchor) (hA : A.respects (vac1 t)) (n : PosNode)
    (xs : List PosNode) : vacate t (insT A n xs) = insT A (vac1 t n) (vacate t xs) :=
  map_insT (vac1 t) (vac1_pos t) A hA n xs

/-! ### the anchors used by the model -/

/-- `insertPosAfter`: head, or by position identity -/
def posAnchor (prev : Ticket) : Anchor := if prev = headId then .head else .pred (posIs prev)

/-- `insertAfterNodes`: by position identity if present, else by element -/
def nodesAnchor (prev : Ticket) (nodes : List PosNode) : Anchor :=
  if hasPos nodes prev then .pred (posIs prev) else .pred (elemIs prev)

/-- `insertAfter` -/
def addAnchor (prev : Ticket) (nodes : List PosNode) : Anchor :=
  if prev = headId then .head else nodesAnchor prev nodes

theorem posAnchor_ok (prev : Ticket) (nodes : List PosNode) :
    (posAnchor prev).ok nodes = (decide (prev = headId) || hasPos nodes prev) := by
  unfold posAnchor; split <;> simp [Anchor.ok, hasPos_eq, *]

theorem nodesAnchor_ok (prev : Ticket) (nodes : List PosNode) :
    (nodesAnchor prev nodes).ok nodes = (hasPos nodes prev || holds nodes prev) := by
  unfold nodesAnchor
  cases h : hasPos nodes prev
  · simp [Anchor.ok, holds_eq]
  · simpa [Anchor.ok, hasPos_eq] using h

theorem addAnchor_ok (prev : Ticket) (nodes : List PosNode) :
    (addAnchor prev nodes).ok nodes =
      (decide (prev = headId) || hasPos nodes prev || holds nodes prev) := by
  unfold addAnchor; split
  · simp [Anchor.ok, *]
  · simp [nodesAnchor_ok, *]

theorem insertPosAfter_eq (prev : Ticket) (new : PosNode) (nodes : List PosNode) :
    insertPosAfter prev new nodes =
      if (posAnchor prev).ok nodes then some (insT (posAnchor prev) new nodes) else none := by
  unfold insertPosAfter posAnchor
  split
  · simp [Anchor.ok, insT]
  · exact insertAfterWhere_eq (posIs prev) new nodes

theorem insertAfterNodes_eq (prev : Ticket) (new : PosNode) (nodes : List PosNode) :
    insertAfterNodes prev new nodes =
      if (nodesAnchor prev nodes).ok nodes then some (insT (nodesAnchor prev nodes) new nodes)
      else none := by
  unfold nodesAnchor
  show (if hasPos nodes prev = true then insertAfterWhere (posIs prev) new nodes
    else insertAfterWhere (elemIs prev) new nodes) = _
  split
  · exact insertAfterWhere_eq (posIs prev) new nodes
  · exact insertAfterWhere_eq (elemIs prev) new nodes

theorem insertAfter_eq (prev : Ticket) (new : PosNode) (nodes : List PosNode) :
    insertAfter prev new nodes =
      if (addAnchor prev nodes).ok nodes then some (insT (addAnchor prev nodes) new nodes)
      else none := by
  unfold insertAfter addAnchor
  split
  · simp [Anchor.ok, insT]
  · exact insertAfterNodes_eq prev new nodes

theorem posAnchor_misses {prev : Ticket} {n : PosNode} (h : n.pos ≠ prev) :
    (posAnchor prev).misses n := by
  unfold posAnchor; split
  · trivial
  · simpa [Anchor.misses, posIs] using h

theorem nodesAnchor_misses {prev : Ticket} {n : PosNode} {nodes : List PosNode} (h : n.pos ≠ prev)
    (h' : hasPos nodes prev = false → n.elem ≠ some prev) : (nodesAnchor prev nodes).misses n := by
  unfold nodesAnchor
  cases hp : hasPos nodes prev
  · simpa [Anchor.misses, elemIs] using h' hp
  · simpa [Anchor.misses, posIs] using h

theorem addAnchor_misses {prev : Ticket} {n : PosNode} {nodes : List PosNode} (h : n.pos ≠ prev)
    (h' : hasPos nodes prev = false → n.elem ≠ some prev) : (addAnchor prev nodes).misses n := by
  unfold addAnchor; split
  · trivial
  · exact nodesAnchor_misses h h'

theorem posAnchor_respects_vac1 (prev t : Ticket) : (posAnchor prev).respects (vac1 t) := by
  unfold posAnchor; split
  · trivial
  · exact fun m => posIs_vac1 prev t m

theorem nodesAnchor_respects_vac1 {prev t : Ticket} {nodes : List PosNode}
    (h : hasPos nodes prev = false → prev ≠ t) : (nodesAnchor prev nodes).respects (vac1 t) := by
  unfold nodesAnchor
  cases hp : hasPos nodes prev
  · exact fun m => elemIs_vac1_of_ne (h hp) m
  · exact fun m => posIs_vac1 prev t m

theorem addAnchor_respects_vac1 {prev t : Ticket} {nodes : List PosNode}
    (h : hasPos nodes prev = false → prev ≠ t) : (addAnchor prev nodes).respects (vac1 t) := by
  unfold addAnchor; split
  · trivial
  · exact nodesAnchor_respects_vac1 h

theorem nodesAnchor_congr {prev : Ticket} {nodes nodes' : List PosNode}
    (h : hasPos nodes' prev = hasPos nodes prev) : nodesAnchor prev nodes' = nodesAnchor prev nodes := by
  unfold nodesAnchor; rw [h]

theorem addAnchor_congr {prev : Ticket} {nodes nodes' : List PosNode}
    (h : hasPos nodes' prev = hasPos nodes prev) : addAnchor prev nodes' = addAnchor prev nodes := by
  unfold addAnchor; rw [nodesAnchor_congr h]

/-! ### Lemma 2, derived forms on the model's functions -/

theorem insertPosAfter_comm (p₁ p₂ : Ticket) (a b : PosNode) (h₁ : b.pos ≠ p₁) (h₂ : a.pos ≠ p₂)
    (hab : a.pos ≠ b.pos) (xs : List PosNode) :
    (insertPosAfter p₁ a xs).bind (insertPosAfter p₂ b) =
      (insertPosAfter p₂ b xs).bind (insertPosAfter p₁ a) := by
  have m₁ := posAnchor_misses h₁
  have m₂ := posAnchor_misses h₂
  simp only [insertPosAfter_eq]
  cases h : (posAnchor p₁).ok xs <;> cases h' : (posAnchor p₂).ok xs <;>
    simp [insertPosAfter_eq, ok_insT_of_misses m₁, ok_insT_of_misses m₂, h, h',
      insT_comm _ _ a b m₁ m₂ hab]

/-- `insertAfterNodes` (position lookup with by-element fallback) -/
theorem insertAfterNodes_comm (p₁ p₂ : Ticket) (a b : PosNode) (h₁ : b.pos ≠ p₁) (h₂ : a.pos ≠ p₂)
    (e₁ : b.elem ≠ some p₁) (e₂ : a.elem ≠ some p₂) (hab : a.pos ≠ b.pos) (xs : List PosNode) :
    (insertAfterNodes p₁ a xs).bind (insertAfterNodes p₂ b) =
      (insertAfterNodes p₂ b xs).bind (insertAfterNodes p₁ a) := by
  have m₁ : (nodesAnchor p₁ xs).misses b := nodesAnchor_misses h₁ (fun _ => e₁)
  have m₂ : (nodesAnchor p₂ xs).misses a := nodesAnchor_misses h₂ (fun _ => e₂)
  have c₁ : ∀ B, nodesAnchor p₁ (insT B b xs) = nodesAnchor p₁ xs := fun B =>
    nodesAnchor_congr (by simp [hasPos_insT, Ne.symm h₁])
  have c₂ : ∀ B, nodesAnchor p₂ (insT B a xs) = nodesAnchor p₂ xs := fun B =>
    nodesAnchor_congr (by simp [hasPos_insT, Ne.symm h₂])
  simp only [insertAfterNodes_eq]
  cases h : (nodesAnchor p₁ xs).ok xs <;> cases h' : (nodesAnchor p₂ xs).ok xs <;>
    simp [insertAfterNodes_eq, c₁, c₂, ok_insT_of_misses m₁, ok_insT_of_misses m₂, h, h',
      insT_comm _ _ a b m₁ m₂ hab]

theorem insertAfter_comm (p₁ p₂ : Ticket) (a b : PosNode) (h₁ : b.pos ≠ p₁) (h₂ : a.pos ≠ p₂)
    (e₁ : b.elem ≠ some p₁) (e₂ : a.elem ≠ some p₂) (hab : a.pos ≠ b.pos) (xs : List PosNode) :
    (insertAfter p₁ a xs).bind (insertAfter p₂ b) =
      (insertAfter p₂ b xs).bind (insertAfter p₁ a) := by
  have m₁ : (addAnchor p₁ xs).misses b := addAnchor_misses h₁ (fun _ => e₁)
  have m₂ : (addAnchor p₂ xs).misses a := addAnchor_misses h₂ (fun _ => e₂)
  have c₁ : ∀ B, addAnchor p₁ (insT B b xs) = addAnchor p₁ xs := fun B =>
    addAnchor_congr (by simp [hasPos_insT, Ne.symm h₁])
  have c₂ : ∀ B, addAnchor p₂ (insT B a xs) = addAnchor p₂ xs := fun B =>
    addAnchor_congr (by simp [hasPos_insT, Ne.symm h₂])
  simp only [insertAfter_eq]
  cases h : (addAnchor p₁ xs).ok xs <;> cases h' : (addAnchor p₂ xs).ok xs <;>
    simp [insertAfter_eq, c₁, c₂, ok_insT_of_misses m₁, ok_insT_of_misses m₂, h, h',
      insT_comm _ _ a b m₁ m₂ hab]

/-- mixed: `insertAfter` (element-or-position anchor) against `insertPosAfter` -/
theorem insertAfter_insertPosAfter_comm (p₁ p₂ : Ticket) (a b : PosNode) (h₁ : b.pos ≠ p₁)
    (h₂ : a.pos ≠ p₂) (e₁ : b.elem ≠ some p₁) (hab : a.pos ≠ b.pos) (xs : List PosNode) :
    (insertAfter p₁ a xs).bind (insertPosAfter p₂ b) =
      (insertPosAfter p₂ b xs).bind (insertAfter p₁ a) := by
  have m₁ : (addAnchor p₁ xs).misses b := addAnchor_misses h₁ (fun _ => e₁)
  have m₂ : (posAnchor p₂).misses a := posAnchor_misses h₂
  have c₁ : ∀ B, addAnchor p₁ (insT B b xs) = addAnchor p₁ xs := fun B =>
    addAnchor_congr (by simp [hasPos_insT, Ne.symm h₁])
  simp only [insertAfter_eq, insertPosAfter_eq]
  cases h : (addAnchor p₁ xs).ok xs <;> cases h' : (posAnchor p₂).ok xs <;>
    simp [insertAfter_eq, insertPosAfter_eq, c₁, ok_insT_of_misses m₁, ok_insT_of_misses m₂, h, h',
      insT_comm _ _ a b m₁ m₂ hab]

/-! ### well-formedness and freshness -/

/-- every element's original position node (the one whose `pos` is the element's own ticket)
    is still in the list -/
def ElemSlots (nodes : List PosNode) : Prop :=
  ∀ n ∈ nodes, ∀ e, n.elem = some e → hasPos nodes e = true

/-- `t` is neither a position identity nor an element of the list -/
def Fresh (nodes : List PosNode) (t : Ticket) : Prop :=
  hasPos nodes t = false ∧ holds nodes t = false

theorem holds_iff (nodes : List PosNode) (e : Ticket) :
    holds nodes e = true ↔ ∃ n ∈ nodes, n.elem = some e := by
  simp [holds, List.any_eq_true]

theorem elemSlots_iff (nodes : List PosNode) :
    ElemSlots nodes ↔ ∀ e, holds nodes e = true → hasPos nodes e = true := by
  constructor
  · intro h e he
    obtain ⟨n, hn, hne⟩ := (holds_iff nodes e).1 he
    exact h n hn e hne
  · intro h n hn e hne
    exact h e ((holds_iff nodes e).2 ⟨n, hn, hne⟩)

theorem elemSlots_nil : ElemSlots [] := by intro n hn; cases hn

/-- under `ElemSlots` the by-element fallback of `insertAfterNodes` is dead code -/
theorem insertAfterNodes_eq_of_elemSlots {nodes : List PosNode} (h : ElemSlots nodes)
    (prev : Ticket) (new : PosNode) :
    insertAfterNodes prev new nodes = insertAfterWhere (posIs prev) new nodes := by
  show (if hasPos nodes prev = true then insertAfterWhere (posIs prev) new nodes
    else insertAfterWhere (elemIs prev) new nodes) = _
  cases hp : hasPos nodes prev
  · have hh : holds nodes prev = false := by
      cases hh : holds nodes prev
      · rfl
      · rw [(elemSlots_iff nodes).1 h prev hh] at hp; cases hp
    have e₁ : insertAfterWhere (elemIs prev) new nodes = none := by
      rw [insertAfterWhere_eq, ← holds_eq, hh]; rfl
    have e₂ : insertAfterWhere (posIs prev) new nodes = none := by
      rw [insertAfterWhere_eq, ← hasPos_eq, hp]; rfl
    simp [e₁, e₂]
  · simp

theorem insertAfter_eq_insertPosAfter_of_elemSlots {nodes : List PosNode} (h : ElemSlots nodes)
    (prev : Ticket) (new : PosNode) :
    insertAfter prev new nodes = insertPosAfter prev new nodes := by
  unfold insertAfter insertPosAfter
  split
  · rfl
  · exact insertAfterNodes_eq_of_elemSlots h prev new

/-! ### normal forms of the transitions: guard + total core -/

def addOk (prev : Ticket) (a : ArrSt) : Bool :=
  decide (prev = headId) || hasPos a.nodes prev || holds a.nodes prev

def addCore (prev ts : Ticket) (a : ArrSt) : ArrSt :=
  ⟨insT (addAnchor prev a.nodes) ⟨ts, some ts⟩ a.nodes, a.moved⟩

theorem arrAdd_eq (prev ts : Ticket) (a : ArrSt) :
    arrAdd prev ts a = if addOk prev a then some (addCore prev ts a) else none := by
  unfold arrAdd addOk addCore
  rw [insertAfter_eq, addAnchor_ok]
  split <;> rfl

def moveOk (prev target : Ticket) (a : ArrSt) : Bool :=
  (decide (prev = headId) || hasPos a.nodes prev) && holds a.nodes target

def setMoved (m : Ticket → Option Ticket) (target ts : Ticket) : Ticket → Option Ticket :=
  fun t => if t = target then some ts else m t

def moveCore (prev target ts : Ticket) (a : ArrSt) : ArrSt :=
  if movedLoses a.moved target ts then
    if hasPos a.nodes ts then a else ⟨insT (posAnchor prev) ⟨ts, none⟩ a.nodes, a.moved⟩
  else
    ⟨insT (posAnchor prev) ⟨ts, some target⟩ (vacate target a.nodes), setMoved a.moved target ts⟩

theorem arrMove_eq (prev target ts : Ticket) (a : ArrSt) :
    arrMove prev target ts a =
      if moveOk prev target a then some (moveCore prev target ts a) else none := by
  unfold arrMove moveOk moveCore setMoved
  simp only [insertPosAfter_eq, posAnchor_ok, hasPos_vacate]
  cases h₁ : (decide (prev = headId) || hasPos a.nodes prev) <;>
    cases h₂ : holds a.nodes target <;>
    cases h₃ : movedLoses a.moved target ts <;>
    cases h₄ : hasPos a.nodes ts <;> simp

def setOk (target : Ticket) (a : ArrSt) : Bool := holds a.nodes target

def setCore (target ts : Ticket) (a : ArrSt) : ArrSt :=
  ⟨insT (nodesAnchor target a.nodes) ⟨ts, some ts⟩ a.nodes, a.moved⟩

theorem arrSet_eq (target ts : Ticket) (a : ArrSt) :
    arrSet target ts a = if setOk target a then some (setCore target ts a) else none := by
  unfold arrSet setOk setCore
  rw [insertAfterNodes_eq, nodesAnchor_ok]
  cases h : holds a.nodes target <;> simp

/-! ### 7. bookkeeping: success conditions -/

theorem arrAdd_isSome (prev ts : Ticket) (a : ArrSt) :
    (arrAdd prev ts a).isSome =
      (decide (prev = headId) || hasPos a.nodes prev || holds a.nodes prev) := by
  rw [arrAdd_eq]; unfold addOk; split <;> simp [*]

theorem arrMove_isSome (prev target ts : Ticket) (a : ArrSt) :
    (arrMove prev target ts a).isSome =
      ((decide (prev = headId) || hasPos a.nodes prev) && holds a.nodes target) := by
  rw [arrMove_eq]; unfold moveOk; split <;> simp [*]

theorem arrSet_isSome (target ts : Ticket) (a : ArrSt) :
    (arrSet target ts a).isSome = holds a.nodes target := by
  rw [arrSet_eq]; unfold setOk; split <;> simp [*]

theorem arrAdd_eq_some {prev ts : Ticket} {a a' : ArrSt} (h : arrAdd prev ts a = some a') :
    addOk prev a = true ∧ a' = addCore prev ts a := by
  rw [arrAdd_eq] at h
  split at h
  · rename_i hok; exact ⟨hok, (Option.some.inj h).symm⟩
  · cases h

theorem arrMove_eq_some {prev target ts : Ticket} {a a' : ArrSt}
    (h : arrMove prev target ts a = some a') :
    moveOk prev target a = true ∧ a' = moveCore prev target ts a := by
  rw [arrMove_eq] at h
  split at h
  · rename_i hok; exact ⟨hok, (Option.some.inj h).symm⟩
  · cases h

theorem arrSet_eq_some {target ts : Ticket} {a a' : ArrSt} (h : arrSet target ts a = some a') :
    setOk target a = true ∧ a' = setCore target ts a := by
  rw [arrSet_eq] at h
  split at h
  · rename_i hok; exact ⟨hok, (Option.some.inj h).symm⟩
  · cases h

/-! ### 7. bookkeeping: positions and elements after a transition (core form) -/

theorem hasPos_addCore {prev : Ticket} {a : ArrSt} (h : addOk prev a = true) (ts x : Ticket) :
    hasPos (addCore prev ts a).nodes x = (hasPos a.nodes x || decide (x = ts)) := by
  have : (addAnchor prev a.nodes).ok a.nodes = true := by rw [addAnchor_ok]; exact h
  simp [addCore, hasPos_insT, this]

theorem holds_addCore {prev : Ticket} {a : ArrSt} (h : addOk prev a = true) (ts e : Ticket) :
    holds (addCore prev ts a).nodes e = (holds a.nodes e || decide (e = ts)) := by
  have : (addAnchor prev a.nodes).ok a.nodes = true := by rw [addAnchor_ok]; exact h
  simp only [addCore, holds_insT, this, Bool.true_and, Option.some.injEq]
  congr 1
  exact decide_eq_decide.2 ⟨Eq.symm, Eq.symm⟩

theorem hasPos_setCore {target : Ticket} {a : ArrSt} (h : setOk target a = true) (ts x : Ticket) :
    hasPos (setCore target ts a).nodes x = (hasPos a.nodes x || decide (x = ts)) := by
  have h' : holds a.nodes target = true := h
  have : (nodesAnchor target a.nodes).ok a.nodes = true := by rw [nodesAnchor_ok, h']; simp
  simp [setCore, hasPos_insT, this]

theorem holds_setCore {target : Ticket} {a : ArrSt} (h : setOk target a = true) (ts e : Ticket) :
    holds (setCore target ts a).nodes e = (holds a.nodes e || decide (e = ts)) := by
  have h' : holds a.nodes target = true := h
  have : (nodesAnchor target a.nodes).ok a.nodes = true := by rw [nodesAnchor_ok, h']; simp
  simp only [setCore, holds_insT, this, Bool.true_and, Option.some.injEq]
  congr 1
  exact decide_eq_decide.2 ⟨Eq.symm, Eq.symm⟩

theorem moveOk_anchor {prev target : Ticket} {a : ArrSt} (h : moveOk prev target a = true) :
    (posAnchor prev).ok a.nodes = true ∧ holds a.nodes target = true := by
  unfold moveOk at h
  rw [posAnchor_ok]
  simpa using h

theorem hasPos_moveCore {prev target : Ticket} {a : ArrSt} (h : moveOk prev target a = true)
    (ts x : Ticket) :
    hasPos (moveCore prev target ts a).nodes x = (hasPos a.nodes x || decide (x = ts)) := by
  obtain ⟨hA, _⟩ := moveOk_anchor h
  have hA' : (posAnchor prev).ok (vacate target a.nodes) = true := by
    rw [vacate_eq, ok_map_of_respects (posAnchor_respects_vac1 prev target)]; exact hA
  unfold moveCore
  split
  · split
    · rename_i hts
      by_cases hx : x = ts
      · subst hx; simp [hts]
      · simp [hx]
    · simp [hasPos_insT, hA]
  · simp [hasPos_insT, hA', hasPos_vacate]

/-- a successful move, winning or losing, does not change which elements the list holds -/
theorem holds_moveCore {prev target : Ticket} {a : ArrSt} (h : moveOk prev target a = true)
    (ts e : Ticket) : holds (moveCore prev target ts a).nodes e = holds a.nodes e := by
  obtain ⟨hA, hT⟩ := moveOk_anchor h
  have hA' : (posAnchor prev).ok (vacate target a.nodes) = true := by
    rw [vacate_eq, ok_map_of_respects (posAnchor_respects_vac1 prev target)]; exact hA
  unfold moveCore
  split
  · split
    · rfl
    · simp [holds_insT]
  · simp only [holds_insT, hA', holds_vacate, Bool.true_and, Option.some.injEq]
    by_cases he : e = target
    · subst he; simp [hT]
    · have : ¬ target = e := fun h => he h.symm
      simp [he, this]

theorem moved_moveCore (prev target ts : Ticket) (a : ArrSt) :
    (moveCore prev target ts a).moved =
      if movedLoses a.moved target ts then a.moved else setMoved a.moved target ts := by
  unfold moveCore
  split
  · split <;> rfl
  · rfl

/-! ### 7. bookkeeping, stated on the model's transitions -/

theorem hasPos_arrAdd {prev ts : Ticket} {a a' : ArrSt} (h : arrAdd prev ts a = some a')
    (x : Ticket) : hasPos a'.nodes x = (hasPos a.nodes x || x == ts) := by
  obtain ⟨hok, rfl⟩ := arrAdd_eq_some h
  rw [hasPos_addCore hok]; rfl

theorem holds_arrAdd {prev ts : Ticket} {a a' : ArrSt} (h : arrAdd prev ts a = some a')
    (e : Ticket) : holds a'.nodes e = (holds a.nodes e || e == ts) := by
  obtain ⟨hok, rfl⟩ := arrAdd_eq_some h
  rw [holds_addCore hok]; rfl

theorem moved_arrAdd {prev ts : Ticket} {a a' : ArrSt} (h : arrAdd prev ts a = some a') :
    a'.moved = a.moved := by
  obtain ⟨_, rfl⟩ := arrAdd_eq_some h; rfl

theorem hasPos_arrSet {target ts : Ticket} {a a' : ArrSt} (h : arrSet target ts a = some a')
    (x : Ticket) : hasPos a'.nodes x = (hasPos a.nodes x || x == ts) := by
  obtain ⟨hok, rfl⟩ := arrSet_eq_some h
  rw [hasPos_setCore hok]; rfl

theorem holds_arrSet {target ts : Ticket} {a a' : ArrSt} (h : arrSet target ts a = some a')
    (e : Ticket) : holds a'.nodes e = (holds a.nodes e || e == ts) := by
  obtain ⟨hok, rfl⟩ := arrSet_eq_some h
  rw [holds_setCore hok]; rfl

theorem moved_arrSet {target ts : Ticket} {a a' : ArrSt} (h : arrSet target ts a = some a') :
    a'.moved = a.moved := by
  obtain ⟨_, rfl⟩ := arrSet_eq_some h; rfl

/-- also true in the "losing move whose ticket is already a position" branch, where the list is
    unchanged: then `hasPos a.nodes ts` already holds -/
theorem hasPos_arrMove {prev target ts : Ticket} {a a' : ArrSt}
    (h : arrMove prev target ts a = some a') (x : Ticket) :
    hasPos a'.nodes x = (hasPos a.nodes x || x == ts) := by
  obtain ⟨hok, rfl⟩ := arrMove_eq_some h
  rw [hasPos_moveCore hok]; rfl

theorem holds_arrMove {prev target ts : Ticket} {a a' : ArrSt}
    (h : arrMove prev target ts a = some a') (e : Ticket) : holds a'.nodes e = holds a.nodes e := by
  obtain ⟨hok, rfl⟩ := arrMove_eq_some h
  exact holds_moveCore hok ts e

theorem moved_arrMove {prev target ts : Ticket} {a a' : ArrSt}
    (h : arrMove prev target ts a = some a') :
    a'.moved = if movedLoses a.moved target ts then a.moved
      else fun t => if t = target then some ts else a.moved t := by
  obtain ⟨_, rfl⟩ := arrMove_eq_some h
  exact moved_moveCore prev target ts a

/-- the "list unchanged" branch of a losing `arrMove` is impossible for a fresh ticket:
    a successful move with a fresh ticket always adds exactly one position node -/
theorem arrMove_nodes_ne_of_fresh {prev target ts : Ticket} {a a' : ArrSt}
    (hf : hasPos a.nodes ts = false) (h : arrMove prev target ts a = some a') :
    hasPos a'.nodes ts = true ∧ a'.nodes ≠ a.nodes := by
  have h1 : hasPos a'.nodes ts = true := by rw [hasPos_arrMove h]; simp
  refine ⟨h1, fun e => ?_⟩
  rw [e, hf] at h1; cases h1

/-! ### `ElemSlots` is preserved -/

theorem elemSlots_arrAdd {prev ts : Ticket} {a a' : ArrSt} (hs : ElemSlots a.nodes)
    (h : arrAdd prev ts a = some a') : ElemSlots a'.nodes := by
  rw [elemSlots_iff] at hs ⊢
  intro e he
  rw [holds_arrAdd h] at he
  rw [hasPos_arrAdd h]
  cases h1 : holds a.nodes e
  · rw [h1] at he; simp at he; simp [he]
  · simp [hs e h1]

theorem elemSlots_arrSet {target ts : Ticket} {a a' : ArrSt} (hs : ElemSlots a.nodes)
    (h : arrSet target ts a = some a') : ElemSlots a'.nodes := by
  rw [elemSlots_iff] at hs ⊢
  intro e he
  rw [holds_arrSet h] at he
  rw [hasPos_arrSet h]
  cases h1 : holds a.nodes e
  · rw [h1] at he; simp at he; simp [he]
  · simp [hs e h1]

theorem elemSlots_arrMove {prev target ts : Ticket} {a a' : ArrSt} (hs : ElemSlots a.nodes)
    (h : arrMove prev target ts a = some a') : ElemSlots a'.nodes := by
  rw [elemSlots_iff] at hs ⊢
  intro e he
  rw [holds_arrMove h] at he
  rw [hasPos_arrMove h]
  simp [hs e he]

theorem elemSlots_vacate {nodes : List PosNode} (hs : ElemSlots nodes) (t : Ticket) :
    ElemSlots (vacate t nodes) := by
  rw [elemSlots_iff] at hs ⊢
  intro e he
  rw [holds_vacate] at he
  rw [hasPos_vacate]
  exact hs e (by simp at he; exact he.1)

/-! ### freshness is preserved by an independent transition -/

theorem fresh_arrAdd {prev ts t : Ticket} {a a' : ArrSt} (hf : Fresh a.nodes t) (hne : t ≠ ts)
    (h : arrAdd prev ts a = some a') : Fresh a'.nodes t := by
  refine ⟨?_, ?_⟩
  · rw [hasPos_arrAdd h, hf.1]; simpa using hne
  · rw [holds_arrAdd h, hf.2]; simpa using hne

theorem fresh_arrSet {target ts t : Ticket} {a a' : ArrSt} (hf : Fresh a.nodes t) (hne : t ≠ ts)
    (h : arrSet target ts a = some a') : Fresh a'.nodes t := by
  refine ⟨?_, ?_⟩
  · rw [hasPos_arrSet h, hf.1]; simpa using hne
  · rw [holds_arrSet h, hf.2]; simpa using hne

theorem fresh_arrMove {prev target ts t : Ticket} {a a' : ArrSt} (hf : Fresh a.nodes t)
    (hne : t ≠ ts) (h : arrMove prev target ts a = some a') : Fresh a'.nodes t := by
  refine ⟨?_, ?_⟩
  · rw [hasPos_arrMove h, hf.1]; simpa using hne
  · rw [holds_arrMove h, hf.2]

/-! ### the commutation scheme -/

theorem bind_comm_of_cores {f g : ArrSt → Option ArrSt} {okf okg : ArrSt → Bool}
    {cf cg : ArrSt → ArrSt}
    (hf : ∀ a, f a = if okf a then some (cf a) else none)
    (hg : ∀ a, g a = if okg a then some (cg a) else none) (a : ArrSt)
    (h1 : okf a = true → okg (cf a) = okg a) (h2 : okg a = true → okf (cg a) = okf a)
    (h3 : okf a = true → okg a = true → cg (cf a) = cf (cg a)) :
    (f a).bind g = (g a).bind f := by
  rw [hf a, hg a]
  cases hF : okf a <;> cases hG : okg a
  · simp
  · simp [hf, h2 hG, hF]
  · simp [hg, h1 hF, hG]
  · simp [hf, hg, h1 hF, h2 hG, hF, hG, h3 hF hG]

end Yorkie.Crdt
