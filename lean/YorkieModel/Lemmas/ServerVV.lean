/-
Helper lemmas for C11: the version-vector rows of a document belong to clients whose stored
status for that document is `attached` (`VInv`), preserved by every request.
-/
import YorkieModel.Lemmas.ServerEntries
namespace Yorkie.Server
open Yorkie

/-- the stored version-vector row of client `c` for document `d` -/
def rowOf (s : Server) (d : DocId) (c : ClientId) : Option VV :=
  match s.docs.get? d with
  | some doc => doc.vvRows.get? c
  | none => none

/-- a row exists only for a client whose stored status is `attached` -/
def VInv (s : Server) : Prop :=
  ∀ d c v, rowOf s d c = some v → ∃ cd, entryOf s c d = some cd ∧ cd.status = .attached

theorem rowOf_of_docs_eq {s s' : Server} (h : s'.docs = s.docs) (d : DocId) (c : ClientId) :
    rowOf s' d c = rowOf s d c := by simp only [rowOf, h]

/-- transitions that keep `row → attached` pointwise -/
def VStep (s s' : Server) : Prop :=
  ∀ d c, (rowOf s' d c = rowOf s d c ∧ entryOf s' c d = entryOf s c d) ∨
         (∃ cd, entryOf s' c d = some cd ∧ cd.status = .attached) ∨
         rowOf s' d c = none ∨
         (rowOf s' d c = rowOf s d c ∧ ∀ cd0, entryOf s c d = some cd0 → cd0.status ≠ .attached)

theorem VStep.refl (s : Server) : VStep s s := fun _ _ => Or.inl ⟨rfl, rfl⟩

theorem VInv.step {s s' : Server} (h : VInv s) (st : VStep s s') : VInv s' := by
  intro d c v hr
  rcases st d c with ⟨e1, e2⟩ | h2 | h3 | ⟨e1, hno⟩
  · rw [e1] at hr; rw [e2]; exact h d c v hr
  · exact h2
  · rw [h3] at hr; simp at hr
  · rw [e1] at hr
    obtain ⟨cd0, hcd0, hs0⟩ := h d c v hr
    exact absurd hs0 (hno cd0 hcd0)

theorem VStep.of_eq {s s' : Server} (hd : s'.docs = s.docs) (hc : s'.clients = s.clients) : VStep s s' :=
  fun d c => Or.inl ⟨rowOf_of_docs_eq hd d c, entryOf_of_clients_eq hc c d⟩

theorem rowOf_setDoc (s : Server) (d : DocId) (x : Doc) (d' : DocId) (c : ClientId) :
    rowOf (s.setDoc d x) d' c = if d = d' then x.vvRows.get? c else rowOf s d' c := by
  simp only [rowOf, Server.setDoc, AL.get?_set]
  by_cases h : d = d' <;> simp [h]

theorem rowOf_docs_set {s s' : Server} {d : DocId} {x : Doc} (h : s'.docs = s.docs.set d x) (d' : DocId) (c : ClientId) :
    rowOf s' d' c = if d = d' then x.vvRows.get? c else rowOf s d' c := by
  have : rowOf s' d' c = rowOf (s.setDoc d x) d' c := by simp only [rowOf, Server.setDoc, h]
  rw [this, rowOf_setDoc]

theorem rowOf_findDoc {s : Server} {d : DocId} {doc : Doc} (h : s.findDoc d = some doc) (c : ClientId) :
    rowOf s d c = doc.vvRows.get? c := by
  simp only [Server.findDoc] at h
  simp only [rowOf, h]

theorem detachMode_status_ne' (s : Server) (c : ClientId) (d : DocId) (p : Pack) :
    (detachMode s c d p).2 ≠ .attached := by
  rcases detachMode_status s c d p with h | h <;> rw [h] <;> simp

/-- `PushPull` keeps `row → attached`, for the flights the handlers build: detach/remove flights
track GC, and an `attached` flight carries an in-flight status `attached` -/
theorem pushPull_vstep {s s' : Server} {f : Flight} {x : Except ErrKind Flight} {loaded : Client}
    (h : pushPull s f = (s', x)) (hc : s.findClient f.client = some loaded)
    (hgc : f.status ≠ .attached → f.disableGC = false)
    (hatt : f.status = .attached → f.info.statusOf f.doc = some .attached) : VStep s s' := by
  cases x with
  | error e =>
    obtain ⟨hcl, _, _, _, hdocs⟩ := pushPull_err h hc
    rcases hdocs with hd | ⟨doc, p, hfd, _, hd⟩
    · exact VStep.of_eq hd hcl
    · intro d c
      refine Or.inl ⟨?_, entryOf_of_clients_eq hcl c d⟩
      rw [rowOf_docs_set hd]
      by_cases hdd : f.doc = d
      · rw [if_pos hdd, ← hdd, rowOf_findDoc hfd]; rfl
      · rw [if_neg hdd]
  | ok f' =>
    obtain ⟨cd0, loaded', doc, p, vv, hcd0, hl, hfd, _, _, hent, hdocs, hvv, hcl, _⟩ := ppok_target (pushPull_ppok h)
    intro d c
    by_cases ht : f.doc = d ∧ f.client = c
    · obtain ⟨hd, hcc⟩ := ht
      subst hd; subst hcc
      by_cases hs : f.status = .attached
      · -- in-flight status attached is what gets stored
        refine Or.inr (Or.inl ⟨_, hent, ?_⟩)
        have hst0 : cd0.status = .attached := by
          have := hatt hs; rw [statusOf_of_get? hcd0] at this; injection this
        rw [hs]; simp [persistEntry, statusEntry, hst0, mergeClientDoc]
      · -- detach / remove: the row is erased
        refine Or.inr (Or.inr (Or.inl ?_))
        rw [rowOf_docs_set hdocs, if_pos rfl]
        have hns : ((statusEntry f.status cd0 f'.resp.cp).status == DocStatus.attached) = false := by
          cases hst : f.status
          · exact absurd hst hs
          · simp [statusEntry]
          · simp [statusEntry]
        rcases hvv with ⟨_, hg⟩ | ⟨_, hv⟩
        · rw [hgc hs] at hg; simp at hg
        · rw [hv, hns]; simp [AL.get?_erase]
    · -- another (document, client): nothing changes
      refine Or.inl ⟨?_, ?_⟩
      · rw [rowOf_docs_set hdocs]
        by_cases hdd : f.doc = d
        · rw [if_pos hdd]
          have hcc : f.client ≠ c := fun hcc => ht ⟨hdd, hcc⟩
          rw [← hdd, rowOf_findDoc hfd]
          rcases hvv with ⟨hv, _⟩ | ⟨_, hv⟩
          · rw [hv]
          · rw [hv]; split
            · simp only [AL.get?_set, hcc, if_false]
            · simp only [AL.get?_erase, hcc, if_false]
        · rw [if_neg hdd]
      · rw [entryOf_of_clients_eq (s' := s')
          (s := s.setClient f.client { loaded' with docs := loaded'.docs.set f.doc (persistEntry (statusEntry f.status cd0 f'.resp.cp) loaded' f.doc) }) hcl,
          entryOf_setClient]
        by_cases hcc : f.client = c
        · rw [if_pos hcc, ← hcc, entryOf_findClient hl]
          have hdd : f.doc ≠ d := fun hdd => ht ⟨hdd, hcc⟩
          simp only [AL.get?_set, hdd, if_false]
        · rw [if_neg hcc]


/-! ### every request keeps `row → attached` -/

theorem vinv_of_entries_eq {s s' : Server} (h : VInv s) (hd : s'.docs = s.docs)
    (he : ∀ c d, entryOf s' c d = entryOf s c d) : VInv s' :=
  h.step (fun d c => Or.inl ⟨rowOf_of_docs_eq hd d c, he c d⟩)

theorem findOrCreateDoc_vinv (s : Server) (_hw : WF s) (h : VInv s) (key : Nat) (dp : Bool) :
    VInv (findOrCreateDoc s key dp).1 := by
  refine h.step ?_
  intro d c
  unfold findOrCreateDoc
  split
  · exact Or.inl ⟨rfl, rfl⟩
  · by_cases hd : s.nextDoc = d
    · refine Or.inr (Or.inr (Or.inl ?_))
      simp only [rowOf, AL.get?_set, hd, if_true]; rfl
    · refine Or.inl ⟨?_, rfl⟩
      simp only [rowOf, AL.get?_set, hd, if_false]

theorem clientsAttach_vinv {s s' : Server} {c : ClientId} {info : Client} {d : DocId} {e : Int} {b : Bool}
    {x : Except ErrKind Client} (h : VInv s) (hca : clientsAttach s c info d e b = (s', x)) : VInv s' := by
  have hx : s' = s ∨ ∃ i, s.findClient c = some i ∧ i.statusOf d ≠ some .attached ∧ s' = s.setClient c (i.markAttaching d) := by
    cases x with
    | error err => exact clientsAttach_error hca
    | ok info2 =>
      obtain ⟨info1, _, _, _, hcase⟩ := clientsAttach_ok hca
      rcases hcase with ⟨_, e1, _⟩ | ⟨_, i, hi, _, hs, _, e1⟩
      · exact Or.inl e1
      · exact Or.inr ⟨i, hi, hs, e1⟩
  rcases hx with e1 | ⟨i, hi, hs, e1⟩
  · subst e1; exact h
  · subst e1
    refine h.step ?_
    intro d' c'
    by_cases ht : c = c' ∧ d = d'
    · obtain ⟨hc, hd⟩ := ht
      subst hc; subst hd
      refine Or.inr (Or.inr (Or.inr ⟨rfl, ?_⟩))
      intro cd0 hcd0
      rw [entryOf_findClient hi] at hcd0
      intro hst
      exact hs (by rw [statusOf_of_get? hcd0, hst])
    · refine Or.inl ⟨rfl, ?_⟩
      rw [entryOf_setClient]
      by_cases hc : c = c'
      · rw [if_pos hc, ← hc, entryOf_findClient hi]
        have hd : d ≠ d' := fun hd => ht ⟨hc, hd⟩
        simp only [Client.markAttaching, AL.get?_set, hd, if_false]
      · rw [if_neg hc]

theorem attachWith_vinv {s1 s' : Server} {c : ClientId} {info : Client} {d : DocId} {pack : Pack} {nogc : Bool}
    {out : Except ErrKind Resp} (h : VInv s1) (haw : attachWith s1 c info d pack nogc = (s', out))
    (hc : s1.findClient c = some info) : VInv s' := by
  rcases attachWith_inv haw with ⟨_, e1, _⟩ | ⟨doc, _, hcase⟩
  · subst e1; exact h
  · rcases hcase with ⟨e, hca, _⟩ | ⟨s2, info2, hca, hpp⟩
    · exact clientsAttach_vinv h hca
    · have h2 := clientsAttach_vinv h hca
      obtain ⟨l, hl⟩ := clientsAttach_findClient hca hc
      obtain ⟨info1, hi2, _, _, _⟩ := clientsAttach_ok hca
      have hst2 : info2.statusOf d = some .attached := by
        rw [hi2]; simp [Client.statusOf, AL.get?_set_self, attachedEntry]
      rcases hpp with ⟨f', hpp, _⟩ | ⟨e, hpp, _⟩
      · exact h2.step (pushPull_vstep hpp (by simpa using hl) (by simp) (by simpa using hst2))
      · exact h2.step (pushPull_vstep hpp (by simpa using hl) (by simp) (by simpa using hst2))

theorem clusterDetach_vinv {s s' : Server} {c : ClientId} {d : DocId} {x : Except ErrKind Unit}
    (h : VInv s) (hcd : clusterDetach s c d = (s', x)) : VInv s' := by
  unfold clusterDetach at hcd
  split at hcd
  · injection hcd with h1 _; subst h1; exact h
  · next info hi =>
    obtain ⟨hcl, _⟩ := findActiveClient_ok hi
    split at hcd
    · injection hcd with h1 _; subst h1; exact h
    · split at hcd
      · injection hcd with h1 _; subst h1; exact h
      · next doc hd =>
        have hne := detachMode_status_ne' s c d (clusterPack c (info.checkpoint d))
        split at hcd
        · next s2 f' hpp =>
          injection hcd with h1 _; subst h1
          exact h.step (pushPull_vstep hpp (by simpa using hcl) (by simp) (by simpa using fun hx => absurd hx hne))
        · next s2 e hpp =>
          injection hcd with h1 _; subst h1
          exact h.step (pushPull_vstep hpp (by simpa using hcl) (by simp) (by simpa using fun hx => absurd hx hne))

theorem clusterDetachAll_vinv (c : ClientId) (s : Server) (h : VInv s) (ds : List DocId) :
    VInv (clusterDetachAll c s ds).1 := by
  induction ds generalizing s with
  | nil => exact h
  | cons d r ih =>
    unfold clusterDetachAll
    split
    · next s' _ hcd => exact ih s' (clusterDetach_vinv h hcd)
    · next s' e hcd => exact clusterDetach_vinv h hcd

/-- reachable-state invariant: a version-vector row exists only for an attached client -/
theorem step_vinv (s : Server) (hw : WF s) (h : VInv s) (r : Request) : VInv (step s r).1 := by
  cases r with
  | activate =>
    have est := step_estep s hw .activate
    refine vinv_of_entries_eq h rfl ?_
    intro c d
    rcases est c d with e | t | ⟨cd, hc, hcl⟩
    · exact e
    · exact t.elim
    · -- activate never closes an entry: recompute directly
      simp only [step, activate, entryOf, AL.get?_set]
      by_cases hn : s.nextClient = c
      · subst hn
        cases hs : s.clients.get? s.nextClient with
        | none => simp [AL.get?]
        | some x => exact absurd (hw.clients _ _ hs) (Nat.lt_irrefl _)
      · simp [hn]
  | deactivate c order =>
    simp only [step]
    unfold deactivate
    split
    · exact h
    · split
      · exact h
      · next info _ _ =>
        have h1 := clusterDetachAll_vinv c s h (openDocs info order)
        split
        · next s' e hx => rw [hx] at h1; exact h1
        · next s' _ hx =>
          rw [hx] at h1
          refine vinv_of_entries_eq h1 ?_ (fun c' d' => dbDeactivate_entries s' c c' d')
          unfold dbDeactivate
          split
          · rfl
          · split
            · rfl
            · split <;> rfl
  | attach c key pack dp nogc =>
    simp only [step]
    generalize ha : attach s c key pack dp nogc = res
    obtain ⟨s', out⟩ := res
    rcases attach_inv ha with ⟨e1, _⟩ | ⟨info, hi, _, haw⟩
    · subst e1; exact h
    · exact attachWith_vinv (findOrCreateDoc_vinv s hw h key dp) haw (by rw [findOrCreateDoc_findClient]; exact hi)
  | pushpull c d pack po nogc =>
    simp only [step]
    generalize ha : pushpullReq s c d pack po nogc = res
    obtain ⟨s', out⟩ := res
    rcases pushpullReq_inv ha with ⟨e1, _⟩ | ⟨info, doc, hi, _, hst, _, hf⟩
    · subst e1; exact h
    · obtain ⟨x, hx⟩ := finish_inv hf
      exact h.step (pushPull_vstep hx (by simpa using hi) (by simp) (by simpa using hst))
  | detach c d pack =>
    simp only [step]
    generalize ha : detach s c d pack = res
    obtain ⟨s', out⟩ := res
    rcases detach_inv ha with ⟨e1, _⟩ | ⟨info, doc, hi, _, _, _, hf⟩
    · subst e1; exact h
    · obtain ⟨x, hx⟩ := finish_inv hf
      have hne := detachMode_status_ne' s c d pack
      exact h.step (pushPull_vstep hx (by simpa using hi) (by simp) (by simpa using fun hx => absurd hx hne))
  | remove c d pack =>
    simp only [step]
    generalize ha : remove s c d pack = res
    obtain ⟨s', out⟩ := res
    rcases remove_inv ha with ⟨e1, _⟩ | ⟨info, doc, hi, _, _, _, hf⟩
    · subst e1; exact h
    · obtain ⟨x, hx⟩ := finish_inv hf
      exact h.step (pushPull_vstep hx (by simpa using hi) (by simp) (by simp))

theorem VInv_init (cfg : Config) : VInv (Server.init cfg) := by
  intro d c v h; simp [rowOf, Server.init] at h

theorem run_vinv (s : Server) (hw : WF s) (h : VInv s) (reqs : List Request) : VInv (run s reqs) := by
  induction reqs generalizing s with
  | nil => exact h
  | cons r rest ih => exact ih _ ((step_docsExt s hw r).wf hw) (step_vinv s hw h r)

end Yorkie.Server
