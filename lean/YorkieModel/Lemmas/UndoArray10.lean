/-
Lemmas for C14, part 19: mixed histories (objects, counters, arrays of leaves) at depth k, the
abstract layer: the object / counter transformers commute with the simulation relation as long as
the renaming fixes everything they touch, and none of the transformers turns a non-object into an
object (array elements never become object members).
-/
import YorkieModel.Lemmas.UndoArray8
namespace Yorkie.Undo
open Yorkie Yorkie.Crdt

/-! ### the object / counter transformers under the simulation relation -/

section simOld
variable {ρ : Ticket → Ticket} {N : Int} {B A : AHeap}

theorem Sim.objAt (s : Sim ρ N B A) {p : Ticket} {f : String → Option Ticket} (hp : B p = some (.obj f))
    (hρp : ρ p = p) (hpN : p.lamport ≤ N) (hf : ∀ k' c, f k' = some c → ρ c = c) : A p = some (.obj f) := by
  have := s.node p hpN
  rw [hρp, hp] at this
  rw [this]
  simp only [Option.map_some, ABody.map, Option.some.injEq, ABody.obj.injEq]
  funext k'
  cases hk : f k' with
  | none => rfl
  | some c => simp [hf k' c hk]

theorem Sim.aset (s : Sim ρ N B A) {p id : Ticket} {k : String} {b : ABody} {f : String → Option Ticket}
    (hp : B p = some (.obj f)) (hρp : ρ p = p) (hpN : p.lamport ≤ N) (hid : ρ id = id) (hidN : id.lamport ≤ N)
    (hf : ∀ k' c, f k' = some c → ρ c = c ∧ c.lamport ≤ N) (hb : b.isLeaf = true) :
    Sim ρ N (Undo.aset B p k id b) (Undo.aset A p k id b) := by
  have hAp : A p = some (.obj f) := s.objAt hp hρp hpN (fun k' c h => (hf k' c h).1)
  refine ⟨s.inj, fun t ht => ?_⟩
  simp only [Undo.aset, hp, hAp]
  by_cases h1 : t = id
  · subst h1; simp [hid, ABody.map_leaf hb]
  · have h1' : ρ t ≠ id := fun he => h1 (s.inj t id ht hidN (he.trans hid.symm))
    by_cases h2 : t = p
    · subst h2
      simp only [h1, hρp, if_false, if_true, Option.map_some, ABody.map, Option.some.injEq, ABody.obj.injEq]
      funext k'
      by_cases hk : k' = k
      · simp [hk, hid]
      · simp only [hk, if_false]
        cases hfk : f k' with
        | none => rfl
        | some c => simp [(hf k' c hfk).1]
    · have h2' : ρ t ≠ p := fun he => h2 (s.inj t p ht hpN (he.trans hρp.symm))
      by_cases h3 : f k = some t
      · have := (hf k t h3).1
        simp [h1, h2, h3, this]
      · have h3' : f k ≠ some (ρ t) := by
          intro he
          obtain ⟨hc, hcN⟩ := hf k (ρ t) he
          exact h3 (by rw [he, s.inj (ρ t) t hcN ht hc])
        simp only [h1, h1', h2, h2', h3, h3', if_false]
        exact s.node t ht

theorem Sim.aremove (s : Sim ρ N B A) {p u : Ticket} {k : String} {f : String → Option Ticket}
    (hp : B p = some (.obj f)) (hρp : ρ p = p) (hpN : p.lamport ≤ N) (hu : ρ u = u) (huN : u.lamport ≤ N)
    (hf : ∀ k' c, f k' = some c → ρ c = c) :
    Sim ρ N (Undo.aremove B p k u) (Undo.aremove A p k u) := by
  have hAp : A p = some (.obj f) := s.objAt hp hρp hpN hf
  refine ⟨s.inj, fun t ht => ?_⟩
  simp only [Undo.aremove, hp, hAp]
  by_cases h1 : t = u
  · subst h1; simp [hu]
  · have h1' : ρ t ≠ u := fun he => h1 (s.inj t u ht huN (he.trans hu.symm))
    by_cases h2 : t = p
    · subst h2
      simp only [h1, hρp, if_false, if_true, Option.map_some, ABody.map, Option.some.injEq, ABody.obj.injEq]
      funext k'
      by_cases hk : k' = k
      · simp [hk]
      · simp only [hk, if_false]
        cases hfk : f k' with
        | none => rfl
        | some c => simp [hf k' c hfk]
    · have h2' : ρ t ≠ p := fun he => h2 (s.inj t p ht hpN (he.trans hρp.symm))
      simp only [h1, h1', h2, h2', if_false]
      exact s.node t ht

theorem Sim.ainc (s : Sim ρ N B A) {c : Ticket} {delta : Int} {l : Bool} {v : Int}
    (hc : B c = some (.cnt l v)) (hcN : c.lamport ≤ N) :
    Sim ρ N (Undo.ainc B c delta) (Undo.ainc A (ρ c) delta) := by
  have hAc : A (ρ c) = some (.cnt l v) := by
    have := s.node c hcN; rw [hc] at this; exact this
  refine ⟨s.inj, fun t ht => ?_⟩
  simp only [Undo.ainc]
  by_cases h1 : t = c
  · subst h1; simp [hc, hAc, ABody.map]
  · have h1' : ρ t ≠ ρ c := fun he => h1 (s.inj t c ht hcN he)
    simp only [h1, h1', if_false]
    exact s.node t ht

end simOld

/-! ### objects stay objects -/

theorem aset_obj_back {A : AHeap} {p id q : Ticket} {k : String} {b : ABody} {fq : String → Option Ticket}
    (hb : b.isLeaf = true) (h : aset A p k id b q = some (.obj fq)) : ∃ f', A q = some (.obj f') := by
  unfold aset at h
  cases hp : A p with
  | none => simp only [hp] at h; exact ⟨_, h⟩
  | some bp =>
    cases bp <;> simp only [hp] at h <;> try exact ⟨_, h⟩
    rename_i f
    by_cases h1 : q = id
    · simp only [h1, if_true, Option.some.injEq] at h; subst h; simp [ABody.isLeaf] at hb
    · by_cases h2 : q = p
      · exact ⟨f, h2 ▸ hp⟩
      · simp only [h1, h2, if_false] at h
        split at h
        · cases h
        · exact ⟨_, h⟩

theorem aremove_obj_back {A : AHeap} {p u q : Ticket} {k : String} {fq : String → Option Ticket}
    (h : aremove A p k u q = some (.obj fq)) : ∃ f', A q = some (.obj f') := by
  unfold aremove at h
  cases hp : A p with
  | none => simp only [hp] at h; exact ⟨_, h⟩
  | some bp =>
    cases bp <;> simp only [hp] at h <;> try exact ⟨_, h⟩
    rename_i f
    by_cases h1 : q = u
    · simp [h1] at h
    · by_cases h2 : q = p
      · exact ⟨f, h2 ▸ hp⟩
      · simp only [h1, h2, if_false] at h; exact ⟨_, h⟩

theorem ainc_obj_back {A : AHeap} {c q : Ticket} {delta : Int} {fq : String → Option Ticket}
    (h : ainc A c delta q = some (.obj fq)) : ∃ f', A q = some (.obj f') := by
  unfold ainc at h
  by_cases h1 : q = c
  · subst h1
    simp only [if_true] at h
    cases hq : A q with
    | none => simp [hq] at h
    | some bq => cases bq <;> simp [hq] at h <;> exact ⟨_, rfl⟩
  · simp only [h1, if_false] at h; exact ⟨_, h⟩

theorem aadd_obj_back {A : AHeap} {p prev x q : Ticket} {b : ABody} {fq : String → Option Ticket}
    (hb : b.isLeaf = true) (h : aadd A p prev x b q = some (.obj fq)) : ∃ f', A q = some (.obj f') := by
  unfold aadd at h
  cases hp : A p with
  | none => simp only [hp] at h; exact ⟨_, h⟩
  | some bp =>
    cases bp <;> simp only [hp] at h <;> try exact ⟨_, h⟩
    by_cases h1 : q = x
    · simp only [h1, if_true, Option.some.injEq] at h; subst h; simp [ABody.isLeaf] at hb
    · by_cases h2 : q = p
      · subst h2; simp [h1] at h
      · simp only [h1, h2, if_false] at h; exact ⟨_, h⟩

theorem adel_obj_back {A : AHeap} {p x q : Ticket} {fq : String → Option Ticket}
    (h : adel A p x q = some (.obj fq)) : ∃ f', A q = some (.obj f') := by
  unfold adel at h
  cases hp : A p with
  | none => simp only [hp] at h; exact ⟨_, h⟩
  | some bp =>
    cases bp <;> simp only [hp] at h <;> try exact ⟨_, h⟩
    by_cases h1 : q = x
    · simp [h1] at h
    · by_cases h2 : q = p
      · subst h2; simp [h1] at h
      · simp only [h1, h2, if_false] at h; exact ⟨_, h⟩

end Yorkie.Undo
