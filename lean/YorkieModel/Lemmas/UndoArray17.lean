/-
Lemmas for C14, part 26: mixed histories at depth k, a decidable checker for concrete runs and an
example.
-/
import YorkieModel.Lemmas.UndoArray16
namespace Yorkie.Undo
open Yorkie Yorkie.Crdt

/-! ### decidable executability (for concrete runs) -/

def checkMOp (H : Home) (tw : Ticket → Bool) (d : Doc) (op : UOp) : Bool :=
  match op with
  | .add _ _ _ _ => checkAOp H tw d op
  | .remove _ _ _ => checkAOp H tw d op || checkOp H tw d op
  | .set _ _ _ _ => checkOp H tw d op
  | .increase _ _ _ => checkOp H tw d op
  | _ => false

theorem checkMOp_good {H : Home} {tw : Ticket → Bool} {d : Doc} {op : UOp} (h : checkMOp H tw d op = true) :
    GoodOp3 H tw d op := by
  cases op with
  | add p prev val ts => exact checkAOp_good (op := .add p prev val ts) h
  | remove p u ts =>
    simp only [checkMOp, Bool.or_eq_true] at h
    rcases h with h | h
    · exact Or.inl (checkAOp_good (op := .remove p u ts) h)
    · exact Or.inr (checkOp_good (op := .remove p u ts) h)
  | set p k val ts => exact checkOp_good (op := .set p k val ts) h
  | increase c delta ts =>
    exact checkOp_good (H := H) (tw := tw) (op := .increase c delta ts) h
  | move => simp [checkMOp] at h
  | arraySet => simp [checkMOp] at h

def checkMRun (H : Home) : Hist → List MEdit → Bool
  | _, [] => true
  | h, e :: es => checkMOp H noTw h.doc (e.op h.next) && checkMRun H (doMEdit h e) es

theorem checkMRun_ok {H : Home} : ∀ {es : List MEdit} {h : Hist}, checkMRun H h es = true → MEditsOk H h es
  | [], _, _ => trivial
  | _ :: _, _, hc => by
    simp only [checkMRun, Bool.and_eq_true] at hc
    exact ⟨checkMOp_good hc.1, checkMRun_ok hc.2⟩

/-! ### the example heap with a home assignment for a mixed run -/

namespace Example

/-- tickets with lamport 4 and 6 are homed in the root (keys "a", "c"), all other new ones in the array -/
def HMix : Home :=
  { par := fun t => if t = rootId then none else if t = tA then some rootId
      else if t.lamport = 4 ∨ t.lamport = 6 then some rootId else some tA,
    key := fun t => if t.lamport = 4 then "a" else if t.lamport = 6 then "c" else "arr" }

theorem wf_dArr_mix : WF HMix dArr := by
  constructor
  · intro t e h
    rcases dArr_cases h with ⟨rfl, rfl⟩ | ⟨rfl, rfl⟩ | ⟨rfl, rfl⟩ | ⟨rfl, rfl⟩ <;> decide
  · intro t e q h hq
    rcases dArr_cases h with ⟨rfl, rfl⟩ | ⟨rfl, rfl⟩ | ⟨rfl, rfl⟩ | ⟨rfl, rfl⟩ <;>
      simp [HMix, tA, tX, tY, rootId] at hq <;> subst hq <;> decide
  · intro p pe keys m h hb
    rcases dArr_cases h with ⟨rfl, rfl⟩ | ⟨rfl, rfl⟩ | ⟨rfl, rfl⟩ | ⟨rfl, rfl⟩ <;>
      simp [eRoot, eArr, eX, eY] at hb
    rw [← hb.1]; simp
  · intro p pe keys m k mm h _ hb hm
    rcases dArr_cases h with ⟨rfl, rfl⟩ | ⟨rfl, rfl⟩ | ⟨rfl, rfl⟩ | ⟨rfl, rfl⟩ <;>
      simp [eRoot, eArr, eX, eY] at hb
    obtain ⟨rfl, rfl⟩ := hb
    by_cases hk : k = "arr"
    · simp [hk] at hm; subst hm; subst hk; decide
    · simp [hk] at hm
  · intro x xe nodes mv n c h _ hb hn hc
    rcases dArr_cases h with ⟨rfl, rfl⟩ | ⟨rfl, rfl⟩ | ⟨rfl, rfl⟩ | ⟨rfl, rfl⟩ <;>
      simp [eRoot, eArr, eX, eY] at hb
    obtain ⟨rfl, rfl⟩ := hb
    simp at hn
    rcases hn with rfl | rfl <;> simp at hc <;> subst hc <;> decide

end Example

end Yorkie.Undo
