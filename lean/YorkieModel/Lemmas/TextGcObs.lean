/-
Text garbage collection, part 6: `Text.String()` and `Text.Marshal()` of the GC replica equal those of
the GC-off replica after a whole joint run (`lock_observations`).  The erased cells form whole nodes of
the GC-off list (a cell that does not start a block is preceded by its predecessor in EVERY block
list, so an erasure whose result is a block list cannot cut a node in front of a kept cell), hence the
GC replica abstracts like the GC-off list with those (dead) nodes filtered out.  Core Lean only.
-/
import YorkieModel.Lemmas.TextGcRun
set_option linter.unusedSimpArgs false
namespace Yorkie.TextConv
open Yorkie Yorkie.Text Yorkie.Convergence

/-- the part of the invariant the printing functions need (kept by filtering) -/
structure WFlite (s : TextSt) : Prop where
  head : ∃ h r, s = h :: r ∧ h.id = headId ∧ h.units = []
  nodup : (ids s).Nodup
  nonempty : ∀ n ∈ s, n.id ≠ headId → n.units ≠ []

theorem wflite_of {s : TextSt} (wf : WFg s) : WFlite s := ⟨wf.head, wf.nodup, wf.nonempty⟩

theorem filter_nonempty_eq_drop_lite {s : TextSt} (wf : WFlite s) :
    s.filter (fun n => !n.units.isEmpty) = s.drop 1 := by
  obtain ⟨hd, r, hs, hid, hu⟩ := wf.head
  rw [hs, List.filter_cons]
  simp only [hu, List.isEmpty_nil, Bool.not_true, Bool.false_eq_true, if_false, List.drop_succ_cons,
    List.drop_zero]
  apply List.filter_eq_self.2
  intro n hn
  have hmem : n ∈ s := by rw [hs]; exact List.mem_cons_of_mem _ hn
  have hne : n.id ≠ headId := by
    intro e
    have nd := wf.nodup
    rw [hs, ids_cons, List.nodup_cons] at nd
    exact nd.1 (by rw [hid, ← e]; exact mem_ids hn)
  have := wf.nonempty n hmem hne
  cases h : n.units with
  | nil => exact absurd h this
  | cons _ _ => rfl

theorem toString_eq_lite {s : TextSt} (wf : WFlite s) (tc : Ticket) :
    Text.toString tc s = toStringC tc (abs s) := by
  unfold Text.toString toStringC shown
  rw [obsBlocks_abs, filter_nonempty_eq_drop_lite wf, List.filter_map, List.map_map]
  congr 1
  have : ((fun b : Ticket × Bool × List Nat => b.1.cmp tc != .eq && !b.2.1) ∘
      fun n : TNode => (n.id.1, n.removedAt.isSome, n.units)) =
      fun n => n.id.1.cmp tc != .eq && n.live := by
    funext n
    simp only [Function.comp, TNode.live]
    cases n.removedAt <;> rfl
  rw [this]
  rfl

theorem marshal_eq_of_abs_lite {s s' : TextSt} (wf : WFlite s) (wf' : WFlite s') (a : AttrsNodup s)
    (a' : AttrsNodup s') (h : abs s = abs s') (tc : Ticket) : marshal tc s = marshal tc s' := by
  have hv : (s.drop 1).map nview = (s'.drop 1).map nview := by
    have h1 := obsA_abs s
    have h2 := obsA_abs s'
    rw [filter_nonempty_eq_drop_lite wf] at h1
    rw [filter_nonempty_eq_drop_lite wf'] at h2
    rw [h, h2] at h1
    exact h1.symm
  unfold marshal shown
  rw [shown_marshal_congr tc hv (fun n hn => a n (List.mem_of_mem_drop hn))
    (fun n hn => a' n (List.mem_of_mem_drop hn))]

/-! ### a cell that does not start a block follows its predecessor -/

theorem mkCells_pred (t : Ticket) (rm : Bool) (as : AAttrs) (off : Nat) (b : Bool) (u : List Nat) :
    ∀ c ∈ mkCells t rm as off b u, c.id.2 ≠ off →
      ∃ A p B, mkCells t rm as off b u = A ++ p :: c :: B ∧ p.id = (c.id.1, c.id.2 - 1) ∧ 0 < c.id.2 := by
  induction u generalizing off b with
  | nil => intro c hc; cases hc
  | cons x r ih =>
    intro c hc hne
    simp only [mkCells, List.mem_cons] at hc
    rcases hc with rfl | hc
    · exact absurd rfl hne
    · cases r with
      | nil => cases hc
      | cons y r' =>
        by_cases h1 : c.id.2 = off + 1
        · -- `c` is the second cell
          simp only [mkCells, List.mem_cons] at hc
          rcases hc with rfl | hc
          · exact ⟨[], ⟨(t, off), x, rm, as, b⟩, mkCells t rm as (off + 1 + 1) false r', by simp [mkCells],
              by simp, by simp⟩
          · have := (mem_mkCells hc).2.1
            omega
        · obtain ⟨A, p, B, e, hp, h0⟩ := ih (off + 1) false c hc h1
          exact ⟨⟨(t, off), x, rm, as, b⟩ :: A, p, B, by simp only [mkCells] at e ⊢; rw [e]; rfl, hp, h0⟩

theorem abs_pred (s : TextSt) : ∀ c ∈ abs s, c.bnd = false →
    ∃ A p B, abs s = A ++ p :: c :: B ∧ p.id = (c.id.1, c.id.2 - 1) ∧ 0 < c.id.2 := by
  induction s with
  | nil => intro c hc; cases hc
  | cons n r ih =>
    intro c hc hb
    rw [abs_cons] at hc ⊢
    rcases List.mem_append.1 hc with h | h
    · have hne : c.id.2 ≠ n.id.2 := by
        have := (mem_absNode h).2.2.2
        rw [hb] at this
        simpa using this.symm
      obtain ⟨A, p, B, e, hp, h0⟩ := mkCells_pred _ _ _ _ _ _ c h hne
      unfold absNode
      exact ⟨A, p, B ++ abs r, by rw [e]; simp, hp, h0⟩
    · obtain ⟨A, p, B, e, hp, h0⟩ := ih c h hb
      exact ⟨absNode n ++ A, p, B, by rw [e]; simp, hp, h0⟩

theorem fkeep_sublist (keep : Id → Bool) (l : Cells) : (fkeep keep l).Sublist l := List.filter_sublist

/-- **no node is cut in front of a kept cell**: if the erased list is itself the abstraction of a block
    list, a kept cell that does not start a block has a kept predecessor -/
theorem kept_pred {t g : TextSt} {keep : Id → Bool} (hg : abs g = fkeep keep (abs t))
    {c : Cell} (hc : c ∈ abs t) (hk : keep c.id = true) (hb : c.bnd = false) :
    keep (c.id.1, c.id.2 - 1) = true := by
  have hcg : c ∈ abs g := by rw [hg]; exact List.mem_filter.2 ⟨hc, hk⟩
  obtain ⟨A, p, B, e, hp, _⟩ := abs_pred g c hcg hb
  have hpg : p ∈ abs g := by rw [e]; simp
  rw [hg] at hpg
  have := (List.mem_filter.1 hpg).2
  rw [hp] at this; exact this

/-- the nodes the GC replica still shows: the head and the nodes whose first cell is kept -/
def nodeKept (keep : Id → Bool) (n : TNode) : Bool := n.units.isEmpty || keep n.id

theorem fkeep_absNode {t g : TextSt} {keep : Id → Bool} (hg : abs g = fkeep keep (abs t))
    (er : Erasure keep (abs t)) {n : TNode} (hn : n ∈ t) :
    fkeep keep (absNode n) = if nodeKept keep n then absNode n else [] := by
  have sub : ∀ c ∈ absNode n, c ∈ abs t := fun c hc => mem_abs.2 ⟨n, hn, hc⟩
  -- all cells of the node agree with the first one
  have all : ∀ k, ∀ c ∈ absNode n, c.id.2 = n.id.2 + k → keep c.id = keep n.id := by
    intro k
    induction k with
    | zero =>
      intro c hc e
      have : c.id = n.id := Prod.ext (mem_absNode hc).1 (by simpa using e)
      rw [this]
    | succ k ih =>
      intro c hc e
      have hb : c.bnd = false := by
        rw [(mem_absNode hc).2.2.2]; simp only [decide_eq_false_iff_not]; omega
      -- the predecessor cell lies in the same node
      have hpin : (n.id.1, c.id.2 - 1) ∈ cids (absNode n) :=
        mem_cids_absNode (by omega) (by have := (mem_absNode hc).2.2.1; omega)
      obtain ⟨p, hp, ep⟩ := List.mem_map.1 hpin
      have hpk := ih p hp (by rw [ep]; simp only; omega)
      cases hk : keep c.id with
      | true =>
        have := kept_pred hg (sub c hc) hk hb
        rw [(mem_absNode hc).1, ← ep, hpk] at this
        exact this.symm
      | false =>
        cases hk0 : keep n.id with
        | false => rfl
        | true =>
          exfalso
          have hpk' : keep p.id = true := by rw [hpk, hk0]
          have hnx : c.id = nxt p.id := by
            rw [ep]; unfold nxt
            apply Prod.ext
            · exact (mem_absNode hc).1
            · simp only; omega
          have := er.closed p.id hpk' c (sub c hc) hnx hb
          rw [hk] at this; cases this
  have const : ∀ c ∈ absNode n, keep c.id = keep n.id := by
    intro c hc
    exact all (c.id.2 - n.id.2) c hc (by have := (mem_absNode hc).2.1; omega)
  unfold nodeKept
  by_cases hu : n.units = []
  · have : absNode n = [] := by unfold absNode; rw [hu]; rfl
    simp [this, fkeep]
  · have he : n.units.isEmpty = false := by
      cases h : n.units with
      | nil => exact absurd h hu
      | cons _ _ => rfl
    rw [he, Bool.false_or]
    cases hk : keep n.id with
    | true =>
      simp only [if_true]
      exact fkeep_all (fun c hc => by rw [const c hc, hk])
    | false =>
      simp only [Bool.false_eq_true, if_false]
      unfold fkeep
      apply List.filter_eq_nil_iff.2
      intro c hc
      rw [const c hc, hk]; simp

/-- the GC replica abstracts like the GC-off list with the erased (whole, dead) nodes filtered out -/
theorem abs_eq_filter_nodes {t g : TextSt} {keep : Id → Bool} (hg : abs g = fkeep keep (abs t))
    (er : Erasure keep (abs t)) : abs g = abs (List.filter (nodeKept keep) t) := by
  rw [hg]
  have key : ∀ u : TextSt, (∀ n ∈ u, n ∈ t) →
      fkeep keep (abs u) = abs (List.filter (nodeKept keep) u) := by
    intro u
    induction u with
    | nil => intro _; rfl
    | cons n r ih =>
      intro hsub
      rw [abs_cons, fkeep_append, fkeep_absNode hg er (hsub n (by simp)),
        ih (fun m hm => hsub m (List.mem_cons_of_mem _ hm)), List.filter_cons]
      split
      · rw [abs_cons]
      · rfl
  exact key t (fun _ h => h)

theorem wflite_filter {t : TextSt} (wf : WFlite t) {p : TNode → Bool}
    (hp : ∀ n ∈ t, n.units = [] → p n = true) : WFlite (List.filter p t) := by
  obtain ⟨hd, r, hs, hid, hu⟩ := wf.head
  refine ⟨⟨hd, List.filter p r, ?_, hid, hu⟩,
    List.Nodup.sublist (List.Sublist.map _ List.filter_sublist) wf.nodup,
    fun n hn => wf.nonempty n (List.mem_filter.1 hn).1⟩
  rw [hs, List.filter_cons, if_pos (hp hd (by rw [hs]; simp) hu)]

theorem attrsNodup_filter {t : TextSt} (a : AttrsNodup t) (p : TNode → Bool) : AttrsNodup (List.filter p t) :=
  fun n hn => a n (List.mem_filter.1 hn).1

theorem attrsNodup_of_core {a b : TextSt} (h : a.map core = b.map core) (hb : AttrsNodup b) : AttrsNodup a := by
  intro n hn
  have : core n ∈ b.map core := by rw [← h]; exact List.mem_map.2 ⟨n, hn, rfl⟩
  obtain ⟨m, hm, e⟩ := List.mem_map.1 this
  unfold core at e
  simp only [Prod.mk.injEq] at e
  rw [← e.2.2.2]; exact hb m hm

theorem attrsNodup_purge {s : TextSt} (nd : (ids s).Nodup) (a : AttrsNodup s) (vv : VV) :
    AttrsNodup (purge vv s) :=
  attrsNodup_of_core (purge_core nd vv) (attrsNodup_filter a _)

theorem lock_attrs {d : TState} {t g : TextSt} {keep : Id → Bool} (h : Lock d t g keep) :
    AttrsNodup t ∧ AttrsNodup g := by
  induction h with
  | init => exact ⟨attrsNodup_init, attrsNodup_init⟩
  | @op d t g keep o t' g' _ _ _ _ e1 e2 ih => exact ⟨attrsNodup_exec ih.1 e1, attrsNodup_exec ih.2 e2⟩
  | @gc d t g keep vv hl ih =>
    exact ⟨ih.1, attrsNodup_purge (lock_inv hl).2.1.wf.nodup ih.2 vv⟩

/-- **(c) every observation**: after a joint run the GC replica prints exactly what the GC-off replica
    prints -/
theorem lock_observations {d : TState} {t g : TextSt} {keep : Id → Bool} (h : Lock d t g keep) (tc : Ticket) :
    visible g = visible t ∧ Text.toString tc g = Text.toString tc t ∧ marshal tc g = marshal tc t := by
  obtain ⟨it, ig, _, hg, er⟩ := lock_inv h
  obtain ⟨at_, ag⟩ := lock_attrs h
  have habs := abs_eq_filter_nodes hg er
  have wfF : WFlite (List.filter (nodeKept keep) t) :=
    wflite_filter (wflite_of it.wf) (fun n _ hu => by unfold nodeKept; rw [hu]; rfl)
  -- the filtered-out nodes are dead
  obtain ⟨hd, r, hs, hid, hu⟩ := it.wf.head
  have hdead : ∀ n ∈ r, nodeKept keep n = false → n.live = false := by
    intro n hn hk
    have hmem : n ∈ t := by rw [hs]; exact List.mem_cons_of_mem _ hn
    unfold nodeKept at hk
    simp only [Bool.or_eq_false_iff] at hk
    have hne : n.units ≠ [] := by
      intro e; rw [e] at hk; simp at hk
    have hlen : 0 < n.len := List.length_pos_iff.2 hne
    have hin : (n.id.1, n.id.2) ∈ cids (absNode n) := mem_cids_absNode (Nat.le_refl _) (by omega)
    obtain ⟨c, hc, e⟩ := List.mem_map.1 hin
    have hrem := er.dead c (mem_abs.2 ⟨n, hmem, hc⟩) (by rw [e]; exact hk.2)
    rw [(mem_mkCells hc).2.2.2.1] at hrem
    unfold TNode.live
    cases hr : n.removedAt with
    | none => rw [hr] at hrem; cases hrem
    | some _ => rfl
  have hshown : shown tc (List.filter (nodeKept keep) t) = shown tc t := by
    rw [hs]
    exact shown_filter_live tc (by unfold nodeKept; rw [hu]; rfl) hdead
  refine ⟨(gc_lockstep h).2.2, ?_, ?_⟩
  · rw [toString_eq_lite (wflite_of ig.wf), habs, ← toString_eq_lite wfF]
    unfold Text.toString; rw [hshown]
  · rw [marshal_eq_of_abs_lite (wflite_of ig.wf) wfF ag (attrsNodup_filter at_ _) habs tc]
    unfold marshal; rw [hshown]

/-! ### attribute tombstones -/

/-- the registration table only names removed attribute nodes (what `Style.Execute` registers) -/
def RegRemoved (reg : AttrReg) (s : TextSt) : Prop :=
  ∀ e ∈ reg, ∀ n ∈ s, n.id = e.2 → ∀ a ∈ n.attrs, a.key = e.1.2 → a.updatedAt = e.1.1 → a.removed = true

theorem lives_purgeAttrOf {k : Ticket × String} {as : List AttrNode}
    (h : ∀ a ∈ as, a.key = k.2 → a.updatedAt = k.1 → a.removed = true) :
    lives (purgeAttrOf k as) = lives as := by
  unfold lives purgeAttrOf
  rw [List.filter_filter]
  apply List.filter_congr
  intro a ha
  cases hr : a.removed with
  | true => simp
  | false =>
    simp only [Bool.not_false, Bool.true_and, Bool.not_eq_true', Bool.and_eq_false_iff, beq_eq_false_iff_ne]
    apply Classical.byContradiction
    intro hcon
    simp only [not_or, ne_eq, Decidable.not_not] at hcon
    have := h a ha hcon.1 hcon.2
    rw [hr] at this; cases this

theorem mem_purgeAttrOf {k : Ticket × String} {as : List AttrNode} {a : AttrNode}
    (h : a ∈ purgeAttrOf k as) : a ∈ as := (List.mem_filter.1 h).1

/-- purging registered attribute tombstones changes no observation -/
theorem purgeAttrs_invisible {vv : VV} {reg : AttrReg} {s : TextSt} (hr : RegRemoved reg s) (tc : Ticket) :
    visible (purgeAttrs vv reg s).1 = visible s ∧ marshal tc (purgeAttrs vv reg s).1 = marshal tc s ∧
      Text.toString tc (purgeAttrs vv reg s).1 = Text.toString tc s := by
  -- per node: same id, units, removedAt; same live attributes
  have node : ∀ n ∈ s, ∀ hit : AttrReg, (∀ e ∈ hit, e ∈ reg ∧ e.2 = n.id) →
      lives (hit.foldl (fun as e => purgeAttrOf e.1 as) n.attrs) = lives n.attrs := by
    intro n hn hit
    -- generalise over the current register (a sublist of the node's)
    have gen : ∀ (hit : AttrReg) (as : List AttrNode), (∀ e ∈ hit, e ∈ reg ∧ e.2 = n.id) →
        (∀ a ∈ as, a ∈ n.attrs) → lives (hit.foldl (fun as e => purgeAttrOf e.1 as) as) = lives as := by
      intro hit
      induction hit with
      | nil => intros; rfl
      | cons e r ih =>
        intro as hh hsub
        simp only [List.foldl_cons]
        rw [ih (purgeAttrOf e.1 as) (fun x hx => hh x (List.mem_cons_of_mem _ hx))
          (fun a ha => hsub a (mem_purgeAttrOf ha))]
        apply lives_purgeAttrOf
        intro a ha h1 h2
        obtain ⟨her, heid⟩ := hh e (by simp)
        exact hr e her n hn heid.symm a (hsub a ha) h1 h2
    intro hh
    exact gen hit n.attrs hh (fun _ h => h)
  let f : TNode → TNode := fun n =>
    { n with attrs := (List.filter (fun e => e.2 == n.id)
        (List.filter (fun e => vv.equalToOrAfter e.1.1) reg)).foldl (fun as e => purgeAttrOf e.1 as) n.attrs }
  have hs : (purgeAttrs vv reg s).1 = s.map f := rfl
  have hl : ∀ n ∈ s, lives (f n).attrs = lives n.attrs := by
    intro n hn
    apply node n hn
    intro e he
    obtain ⟨h1, h2⟩ := List.mem_filter.1 he
    exact ⟨(List.mem_filter.1 h1).1, by simpa using h2⟩
  have hshown : (shown tc (s.map f)).map marshalNode = (shown tc s).map marshalNode ∧
      (shown tc (s.map f)).map (fun n => stringOfUnits n.units) = (shown tc s).map (fun n => stringOfUnits n.units) := by
    unfold shown
    rw [← List.map_drop]
    have hsub : ∀ n ∈ s.drop 1, n ∈ s := fun n hn => List.mem_of_mem_drop hn
    generalize s.drop 1 = x at hsub
    induction x with
    | nil => exact ⟨rfl, rfl⟩
    | cons n r ih =>
      obtain ⟨i1, i2⟩ := ih (fun m hm => hsub m (List.mem_cons_of_mem _ hm))
      have hp : ((f n).id.1.cmp tc != .eq && (f n).live) = (n.id.1.cmp tc != .eq && n.live) := rfl
      have hm : marshalNode (f n) = marshalNode n := by
        unfold marshalNode marshalAttrs liveAttrs
        have := hl n (hsub n (by simp))
        unfold lives at this
        rw [this]
      rw [List.map_cons, List.filter_cons, List.filter_cons, hp]
      split
      · simp only [List.map_cons, hm, i1, i2]
        exact ⟨trivial, by rw [show (f n).units = n.units from rfl]⟩
      · exact ⟨i1, i2⟩
  rw [hs]
  refine ⟨?_, by unfold marshal; rw [hshown.1], by unfold Text.toString; rw [hshown.2]⟩
  exact visible_map_core (f := f) (fun n => ⟨rfl, rfl⟩) s

end Yorkie.TextConv
