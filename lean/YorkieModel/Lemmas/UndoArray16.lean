/-
Lemmas for C14, part 25: mixed histories at depth k: runs, `undoN` / `redoN`, the printed form, a
decidable checker for concrete runs.
-/
import YorkieModel.Lemmas.UndoArray15
namespace Yorkie.Undo
open Yorkie Yorkie.Crdt

/-! ### runs -/

theorem len_step3 {n a b : Nat} (h : min n maxDepth ≤ a) (hb : b = a + 1 ∨ maxDepth ≤ b) :
    min (n + 1) maxDepth ≤ b := by
  rcases hb with hb | hb <;> omega

theorem run_inv3 {H : Home} : ∀ (es : List MEdit) (g : Hist) (ru rr : List UOp) (past future : List Doc) (n : Nat),
    Inv3 H g.lamport id g ru rr past g.doc future → MEditsOk H g es → min n maxDepth ≤ ru.length →
    ∃ ru' rr' past' future', Inv3 H (runMEdits g es).lamport id (runMEdits g es) ru' rr' past'
        (runMEdits g es).doc future' ∧
      past'.reverse ++ [(runMEdits g es).doc] = past.reverse ++ mstates g es ∧
      (∀ t, skel (runMEdits g es).doc t = skel g.doc t) ∧
      min (n + es.length) maxDepth ≤ ru'.length ∧ (es = [] → rr' = rr ∧ future' = future) ∧
      (es ≠ [] → rr' = [] ∧ future' = [])
  | [], g, ru, rr, past, future, n, i, _, hn =>
    ⟨ru, rr, past, future, i, rfl, fun _ => rfl, hn, fun _ => ⟨rfl, rfl⟩, fun h => absurd rfl h⟩
  | e :: es, g, ru, rr, past, future, n, i, ok, hn => by
    obtain ⟨ru1, i1, hsk1, hl1⟩ := inv3_doMEdit (e := e) i ok.1
    obtain ⟨ru', rr', past', future', i', hch, hsk', hlen, hsame, hnil⟩ :=
      run_inv3 es (doMEdit g e) ru1 [] (g.doc :: past) [] (n + 1) i1 ok.2 (len_step3 hn hl1)
    refine ⟨ru', rr', past', future', i', ?_, fun t => (hsk' t).trans (hsk1 t), ?_, fun h => by simp at h, ?_⟩
    · simp only [runMEdits, mstates]; rw [hch]; simp
    · simp only [List.length_cons]; rw [show n + (es.length + 1) = n + 1 + es.length by omega]; exact hlen
    · intro _
      cases es with
      | nil => exact hsame rfl
      | cons e' es' => exact hnil (by simp)

theorem undoN_inv3 : ∀ (k : Nat) {H : Home} {N : Int} {ρ : Ticket → Ticket} (x : Hist) (ru rr : List UOp)
    (past : List Doc) (cur : Doc) (fut : List Doc) (n : Nat),
    Inv3 H N ρ x ru rr past cur fut → k ≤ ru.length → min n maxDepth ≤ rr.length →
    ∃ H' ρ' ru' rr' past' cur' fut', Inv3 H' N ρ' (undoN k x) ru' rr' past' cur' fut' ∧
      past'.reverse ++ cur' :: fut' = past.reverse ++ cur :: fut ∧ past'.length + k = past.length ∧
      ru'.length + k = ru.length ∧ min (n + k) maxDepth ≤ rr'.length
  | 0, H, _, ρ, _, ru, rr, past, cur, fut, _, i, _, hn => ⟨H, ρ, ru, rr, past, cur, fut, i, rfl, rfl, rfl, hn⟩
  | k + 1, H, N, ρ, x, ru, rr, past, cur, fut, n, i, hu, hn => by
    cases ru with
    | nil => simp at hu
    | cons r ru1 =>
      cases past with
      | nil => exact i.chU.elim
      | cons X more =>
        obtain ⟨H1, ρ1, rr1, i1, hl1⟩ := inv3_undo i
        obtain ⟨H', ρ', ru', rr', past', cur', fut', i', hch, hlen, hlenu, hr⟩ :=
          undoN_inv3 k (undo x) ru1 rr1 more X (cur :: fut) (n + 1) i1 (by simpa using hu) (len_step3 hn hl1)
        refine ⟨H', ρ', ru', rr', past', cur', fut', i', ?_, ?_, ?_, ?_⟩
        · rw [hch]; simp
        · simp only [List.length_cons]; omega
        · simp only [List.length_cons]; omega
        · rw [show n + (k + 1) = n + 1 + k by omega]; exact hr

theorem redoN_inv3 : ∀ (k : Nat) {H : Home} {N : Int} {ρ : Ticket → Ticket} (x : Hist) (ru rr : List UOp)
    (past : List Doc) (cur : Doc) (fut : List Doc),
    Inv3 H N ρ x ru rr past cur fut → k ≤ rr.length →
    ∃ H' ρ' ru' rr' past' cur' fut', Inv3 H' N ρ' (redoN k x) ru' rr' past' cur' fut' ∧
      past'.reverse ++ cur' :: fut' = past.reverse ++ cur :: fut ∧ past'.length = past.length + k
  | 0, H, _, ρ, _, ru, rr, past, cur, fut, i, _ => ⟨H, ρ, ru, rr, past, cur, fut, i, rfl, rfl⟩
  | k + 1, H, N, ρ, x, ru, rr, past, cur, fut, i, hu => by
    cases rr with
    | nil => simp at hu
    | cons r rr1 =>
      cases fut with
      | nil => exact i.chR.elim
      | cons Y more =>
        obtain ⟨H1, ρ1, ru1, i1, _⟩ := inv3_redo i
        obtain ⟨H', ρ', ru', rr', past', cur', fut', i', hch, hlen⟩ :=
          redoN_inv3 k (redo x) ru1 rr1 (cur :: past) Y more i1 (by simpa using hu)
        refine ⟨H', ρ', ru', rr', past', cur', fut', i', ?_, ?_⟩
        · rw [hch]; simp
        · rw [hlen]; simp only [List.length_cons]; omega

/-- the initial invariant: nothing is known (or needed) about the stacks -/
theorem inv3_init {H : Home} {h : Hist} (w : WF H h.doc) (bd : Bounded h.doc h.lamport)
    (pl : PlainArrs h.doc h.lamport) (h0 : 0 ≤ h.lamport) :
    Inv3 H h.lamport id h [] [] [] h.doc [] :=
  { wf := w, bd := bd, pl := pl, hN := Int.le_refl _, hN0 := h0, wfc := w, bdc := bd, plc := pl,
    eskel := fun _ => rfl, sim := Sim.refl _ _, rfix := fun _ _ => rfl, rhead := rfl, rng := fun _ ht => ht,
    rnew := fun _ _ => Or.inl rfl, rarr := fun _ _ h => absurd rfl h, hundo := ⟨h.undo, rfl⟩, hredo := ⟨h.redo, rfl⟩, chU := trivial, chR := trivial,
    uniqU := List.nodup_nil, uniqR := List.nodup_nil, uniqD := fun _ ha => by simp [addIds] at ha,
    dead := fun _ ha => by simp [addIds] at ha }

/-- the printed form of the present heap is the one of the recorded heap -/
theorem Inv3.marshal {H : Home} {N : Int} {ρ : Ticket → Ticket} {g : Hist} {ru rr : List UOp} {past future : List Doc}
    {cur : Doc} (i : Inv3 H N ρ g ru rr past cur future) (root : skel cur rootId = some false) (fuel : Nat) :
    Crdt.marshal g.doc fuel rootId = Crdt.marshal cur fuel rootId := by
  have := marshal_sim i.wfc i.wf i.bdc i.sim fuel (live_of_skel root)
  rw [this, show ρ rootId = rootId from i.rhead]

theorem root_lamport3 {h : Hist} (bd : Bounded h.doc h.lamport) (root : skel h.doc rootId = some false) :
    0 ≤ h.lamport := by
  obtain ⟨e, he, _⟩ := skel_some.1 root
  have := bd.ent _ _ he
  simpa [rootId] using this

/-- depth `k`: after the edits `a ++ b`, undoing `|b|` times prints the content after `a` -/
theorem undo_run_marshal3 {H : Home} {h : Hist} (w : WF H h.doc) (bd : Bounded h.doc h.lamport)
    (pl : PlainArrs h.doc h.lamport)
    (root : skel h.doc rootId = some false) (a b : List MEdit) (ok : MEditsOk H h (a ++ b))
    (hb : b.length ≤ maxDepth) (fuel : Nat) :
    marshal (undoN b.length (runMEdits h (a ++ b))).doc fuel rootId = marshal (runMEdits h a).doc fuel rootId := by
  have h0 := root_lamport3 bd root
  obtain ⟨ru, rr, past, fut, i, hch, hsk, hlen, _, _⟩ :=
    run_inv3 (a ++ b) h [] [] [] [] 0 (inv3_init w bd pl h0) ok (by simp)
  have hpl : past.length = (a ++ b).length := by
    have := congrArg List.length hch
    simp [mstates_length] at this; simpa using this
  obtain ⟨H', ρ', ru', rr', past', cur', fut', i', hch', hlen', _, _⟩ := undoN_inv3 b.length _ ru rr past _ fut 0 i
    (by simp only [Nat.zero_add, List.length_append] at hlen ⊢; omega) (by simp)
  have hcur : cur' = (runMEdits h a).doc := by
    have h1 := zipper_get hch'
    have hfut : past.reverse ++ (runMEdits h (a ++ b)).doc :: fut =
        (past.reverse ++ [(runMEdits h (a ++ b)).doc]) ++ fut := by simp
    rw [hfut, hch] at h1
    simp only [List.reverse_nil, List.nil_append] at h1
    have hlp : past'.length = a.length := by rw [hpl] at hlen'; simp at hlen'; omega
    rw [hlp, List.getElem?_append_left (by rw [mstates_length, List.length_append]; omega), mstates_get] at h1
    exact (Option.some.inj h1).symm
  subst hcur
  obtain ⟨_, _, _, _, _, _, hska, _, _, _⟩ :=
    run_inv3 a h [] [] [] [] 0 (inv3_init w bd pl h0) (MEditsOk_append ok).1 (by simp)
  exact i'.marshal ((hska rootId).trans root) fuel

/-- depth `k` redo: after the edits `a ++ b ++ c`, undoing `|b ++ c|` times and redoing `|b|` times prints
    the content after `a ++ b` -/
theorem redo_run_marshal3 {H : Home} {h : Hist} (w : WF H h.doc) (bd : Bounded h.doc h.lamport)
    (pl : PlainArrs h.doc h.lamport)
    (root : skel h.doc rootId = some false) (a b c : List MEdit) (ok : MEditsOk H h (a ++ (b ++ c)))
    (hb : (b ++ c).length ≤ maxDepth) (fuel : Nat) :
    marshal (redoN b.length (undoN (b ++ c).length (runMEdits h (a ++ (b ++ c))))).doc fuel rootId =
      marshal (runMEdits h (a ++ b)).doc fuel rootId := by
  have h0 := root_lamport3 bd root
  have hb' : b.length + c.length ≤ maxDepth := by simpa using hb
  obtain ⟨ru, rr, past, fut, i, hch, hsk, hlen, _, hnil⟩ :=
    run_inv3 (a ++ (b ++ c)) h [] [] [] [] 0 (inv3_init w bd pl h0) ok (by simp)
  have hpl : past.length = a.length + (b.length + c.length) := by
    have := congrArg List.length hch
    simp [mstates_length] at this; simpa using this
  -- the redo stack is empty after a non-empty run; for the empty run nothing is undone
  by_cases hbc : b ++ c = []
  · have hbn : b = [] := (List.append_eq_nil_iff.1 hbc).1
    have hcn : c = [] := (List.append_eq_nil_iff.1 hbc).2
    subst hbn hcn
    rfl
  · have hne : a ++ (b ++ c) ≠ [] := by
      intro h; exact hbc (List.append_eq_nil_iff.1 h).2
    obtain ⟨hrr, hfut⟩ := hnil hne
    subst hrr hfut
    obtain ⟨H', ρ', ru', rr', past', cur', fut', i', hch', hlen', _, hredo⟩ :=
      undoN_inv3 (b ++ c).length _ ru [] past _ [] 0 i
      (by simp only [Nat.zero_add, List.length_append] at hlen ⊢; omega) (by simp)
    have hfl : fut'.length = b.length + c.length := by
      have := congrArg List.length hch'
      simp at this hlen'; omega
    obtain ⟨H'', ρ'', ru'', rr'', past'', cur'', fut'', i'', hch'', hlen''⟩ :=
      redoN_inv3 b.length _ ru' rr' past' cur' fut' i'
      (by simp only [Nat.zero_add, List.length_append] at hredo ⊢; omega)
    have hcur : cur'' = (runMEdits h (a ++ b)).doc := by
      have h1 := zipper_get hch''
      rw [hch', hch] at h1
      simp only [List.reverse_nil, List.nil_append] at h1
      have hlp : past''.length = (a ++ b).length := by simp at hlen' ⊢; omega
      rw [hlp, ← List.append_assoc, mstates_get] at h1
      exact (Option.some.inj h1).symm
    subst hcur
    have ok' : MEditsOk H h ((a ++ b) ++ c) := by rw [List.append_assoc]; exact ok
    obtain ⟨_, _, _, _, _, _, hska, _, _, _⟩ :=
      run_inv3 (a ++ b) h [] [] [] [] 0 (inv3_init w bd pl h0) (MEditsOk_append ok').1 (by simp)
    exact i''.marshal ((hska rootId).trans root) fuel

end Yorkie.Undo
