/-
C18, text level, part A: `preprocessTokens` (the regexp + ten `strings.ReplaceAll` passes
of preprocessTypeTokens, applied to the text between two string literals) distributes
over the pieces `Marshal` concatenates, and leaves inert pieces alone.  Core Lean only.

Key notion: `endSafeB p a` – no non-empty suffix of `a` is a proper prefix of the
pattern `p`, i.e. no occurrence of `p` can start inside `a` and end beyond it.  It is a
property of `a` alone, so scanning `a ++ b` is scanning `a`, then scanning `b`.
-/
import YorkieModel.Lemmas.Yson
namespace Yorkie.Yson

/-- does `pat` occur in the text? -/
def containsSub (pat : Str) : Str → Bool
  | [] => pat.isEmpty
  | c :: r => isPrefixOf pat (c :: r) || containsSub pat r

/-- a character that a raw (unescaped) JSON string literal cannot contain: quote, backslash,
control character.  Constant names, base64 and date payloads are free of them. -/
def keyNeedsEscape (c : Nat) : Bool := c == 34 || c == 92 || c < 32

/-! ### prefixes -/

theorem stripPrefix_eq_some {p s r : Str} : stripPrefix p s = some r ↔ s = p ++ r := by
  induction p generalizing s with
  | nil => simp [stripPrefix, eq_comm]
  | cons a p ih =>
    cases s with
    | nil => simp [stripPrefix]
    | cons c s =>
      simp only [stripPrefix]
      by_cases h : (a == c) = true
      · have : a = c := by simpa using h
        subst this
        simp [ih]
      · have hne : a ≠ c := by simpa using h
        simp only [h, Bool.false_eq_true, if_false, List.cons_append, List.cons.injEq]
        constructor
        · intro h'; cases h'
        · intro h'; exact absurd h'.1.symm hne

theorem isPrefixOf_iff {p s : Str} : isPrefixOf p s = true ↔ p <+: s := by
  simp only [isPrefixOf, Option.isSome_iff_exists, stripPrefix_eq_some]
  constructor
  · rintro ⟨r, rfl⟩; exact List.prefix_append _ _
  · rintro ⟨r, rfl⟩; exact ⟨r, rfl⟩

theorem isPrefixOf_false_iff {p s : Str} : isPrefixOf p s = false ↔ ¬ p <+: s := by
  rw [← isPrefixOf_iff]; simp

theorem stripPrefix_append (p x : Str) : stripPrefix p (p ++ x) = some x :=
  stripPrefix_eq_some.mpr rfl

/-- no non-empty suffix of the text is a proper prefix of the pattern -/
def endSafeB (p : Str) : Str → Bool
  | [] => true
  | c :: r => !(decide ((c :: r).length < p.length) && isPrefixOf (c :: r) p) && endSafeB p r

/-- an occurrence of `p` at the head of `x ++ b`, with `x` end-safe and non-empty, lies inside `x` -/
theorem prefix_of_endSafe {p x b : Str} (hx : x ≠ []) (hs : endSafeB p x = true)
    (h : p <+: x ++ b) : p <+: x := by
  rcases List.prefix_or_prefix_of_prefix h (List.prefix_append x b) with h1 | h1
  · exact h1
  · cases x with
    | nil => exact absurd rfl hx
    | cons c r =>
      simp only [endSafeB, Bool.and_eq_true, Bool.not_eq_true', Bool.and_eq_false_iff,
        decide_eq_false_iff_not, Nat.not_lt] at hs
      rcases hs.1 with hlen | hnp
      · -- equal length: the two lists are equal
        have := List.IsPrefix.eq_of_length_le h1 hlen
        rw [this]; exact List.prefix_refl _
      · exact absurd (isPrefixOf_iff.mpr h1) (by simp [hnp])

/-! ### one `strings.ReplaceAll` -/

theorem replaceAllAux_nil (p r : Str) (k : Nat) : replaceAllAux p r k [] = [] := by
  cases k <;> rfl

theorem replaceAllAux_append (p r : Str) : ∀ (a b : Str) (skip : Nat), skip ≤ a.length →
    endSafeB p a = true →
    replaceAllAux p r skip (a ++ b) = replaceAllAux p r skip a ++ replaceAllAux p r 0 b
  | [], b, skip, hk, _ => by
    have : skip = 0 := by simpa using hk
    subst this
    simp [replaceAllAux_nil]
  | c :: a, b, skip + 1, hk, hs => by
    have hs' : endSafeB p a = true := by
      simp only [endSafeB, Bool.and_eq_true] at hs; exact hs.2
    simp only [List.cons_append, replaceAllAux]
    exact replaceAllAux_append p r a b skip (by simpa using hk) hs'
  | c :: a, b, 0, _, hs => by
    have hs' : endSafeB p a = true := by
      simp only [endSafeB, Bool.and_eq_true] at hs; exact hs.2
    simp only [List.cons_append, replaceAllAux]
    by_cases hp : isPrefixOf p (c :: (a ++ b)) = true
    · have hpa : p <+: c :: a :=
        prefix_of_endSafe (List.cons_ne_nil c a) hs (by simpa using isPrefixOf_iff.mp hp)
      have hlen : p.length - 1 ≤ a.length := by
        have := hpa.length_le; simp at this; omega
      simp only [hp, if_true, isPrefixOf_iff.mpr hpa, List.append_assoc]
      rw [replaceAllAux_append p r a b _ hlen hs']
    · have hpa : ¬ p <+: c :: a := fun h =>
        hp (isPrefixOf_iff.mpr (h.trans (by simp)))
      have hpa' : isPrefixOf p (c :: a) = false := isPrefixOf_false_iff.mpr hpa
      simp only [hp, hpa', Bool.false_eq_true, if_false, List.cons_append]
      rw [replaceAllAux_append p r a b 0 (Nat.zero_le _) hs']

theorem replaceAll_append {p r a : Str} (b : Str) (hs : endSafeB p a = true) :
    replaceAll p r (a ++ b) = replaceAll p r a ++ replaceAll p r b :=
  replaceAllAux_append p r a b 0 (Nat.zero_le _) hs

theorem replaceAll_noOcc {p r : Str} : ∀ {s : Str}, containsSub p s = false → replaceAll p r s = s
  | [], _ => rfl
  | c :: s, h => by
    simp only [containsSub, Bool.or_eq_false_iff] at h
    simp only [replaceAll, replaceAllAux, h.1, Bool.false_eq_true, if_false]
    exact congrArg _ (replaceAll_noOcc h.2)

/-! ### the ten passes -/

def stageSafe : List (Str × Str) → Str → Bool
  | [], _ => true
  | (p, r) :: rest, s => endSafeB p s && stageSafe rest (replaceAll p r s)

theorem applyReplacements_append : ∀ (reps : List (Str × Str)) (s b : Str), stageSafe reps s = true →
    applyReplacements reps (s ++ b) = applyReplacements reps s ++ applyReplacements reps b
  | [], _, _, _ => rfl
  | (p, r) :: rest, s, b, h => by
    simp only [stageSafe, Bool.and_eq_true] at h
    simp only [applyReplacements, replaceAll_append b h.1]
    exact applyReplacements_append rest _ _ h.2

/-- a piece no pattern occurs in, and that no pattern can start at the end of -/
def inertFor (reps : List (Str × Str)) (s : Str) : Bool :=
  reps.all (fun pr => endSafeB pr.1 s && !containsSub pr.1 s)

theorem inert_stageSafe : ∀ (reps : List (Str × Str)) (s : Str), inertFor reps s = true →
    stageSafe reps s = true ∧ applyReplacements reps s = s
  | [], _, _ => ⟨rfl, rfl⟩
  | (p, r) :: rest, s, h => by
    simp only [inertFor, List.all_cons, Bool.and_eq_true, Bool.not_eq_true'] at h
    have hno := replaceAll_noOcc (p := p) (r := r) h.1.2
    have ih := inert_stageSafe rest s (by simpa [inertFor] using h.2)
    simp [stageSafe, applyReplacements, hno, h.1.1, ih]

/-! ### the regexp pass -/

/-- the literal head of `dedupCounterRe` -/
def d17 : Str := cp%"DedupCounter(Int("

theorem dedupHeadMatch_none {s : Str} (h : isPrefixOf d17 s = false) : dedupHeadMatch s = none := by
  have : stripPrefix d17 s = none := by
    simpa [isPrefixOf] using h
  simp only [dedupHeadMatch]
  rw [show (cp%"DedupCounter(Int(" : Str) = d17 from rfl, this]

theorem dedupHead_inert : ∀ (a b : Str), endSafeB d17 a = true → containsSub d17 a = false →
    dedupHead (a ++ b) = a ++ dedupHead b
  | [], _, _, _ => rfl
  | c :: a, b, hs, hn => by
    have hs' : endSafeB d17 a = true := by
      simp only [endSafeB, Bool.and_eq_true] at hs; exact hs.2
    simp only [containsSub, Bool.or_eq_false_iff] at hn
    have hnp : isPrefixOf d17 (c :: (a ++ b)) = false := by
      apply isPrefixOf_false_iff.mpr
      intro h
      have := prefix_of_endSafe (List.cons_ne_nil c a) hs (by simpa using h)
      exact absurd (isPrefixOf_iff.mpr this) (by simp [hn.1])
    simp only [List.cons_append, dedupHead, dedupHeadMatch_none hnp]
    exact congrArg _ (dedupHead_inert a b hs' hn.2)

/-! ### pieces after which `preprocessTokens` starts afresh -/

def Dist (s : Str) : Prop := ∀ b, preprocessTokens (s ++ b) = preprocessTokens s ++ preprocessTokens b

theorem Dist.nil : Dist [] := fun _ => rfl

theorem Dist.append {a b : Str} (ha : Dist a) (hb : Dist b) : Dist (a ++ b) := by
  intro c
  rw [List.append_assoc, ha, hb, ha b, List.append_assoc]

/-- a piece the regexp cannot touch and whose ReplaceAll passes are end-safe -/
def pieceOK (s : Str) : Bool :=
  endSafeB d17 s && !containsSub d17 s && stageSafe replacements s

theorem dist_of_pieceOK {s : Str} (h : pieceOK s = true) :
    Dist s ∧ preprocessTokens s = applyReplacements replacements s := by
  simp only [pieceOK, Bool.and_eq_true, Bool.not_eq_true'] at h
  obtain ⟨⟨h1, h2⟩, h3⟩ := h
  have hd : ∀ b, dedupHead (s ++ b) = s ++ dedupHead b := fun b => dedupHead_inert s b h1 h2
  have hs : preprocessTokens s = applyReplacements replacements s := by
    have := hd []
    simp only [List.append_nil, dedupHead] at this
    simp only [preprocessTokens, this]
  refine ⟨?_, hs⟩
  intro b
  rw [hs]
  simp only [preprocessTokens, hd b]
  exact applyReplacements_append replacements s _ h3

/-- an inert piece: untouched by every pass -/
def inertAll (s : Str) : Bool :=
  endSafeB d17 s && !containsSub d17 s && inertFor replacements s

theorem dist_of_inert {s : Str} (h : inertAll s = true) : Dist s ∧ preprocessTokens s = s := by
  simp only [inertAll, Bool.and_eq_true] at h
  have hi := inert_stageSafe replacements s h.2
  have := dist_of_pieceOK (s := s) (by simp [pieceOK, h.1.1, h.1.2, hi.1])
  exact ⟨this.1, by rw [this.2, hi.2]⟩

/-! ### a simple sufficient condition for inertness: no parenthesis, terminator at the end -/

/-- characters that occur in a pattern before its last character -/
def patChar (c : Nat) : Bool := (65 ≤ c && c ≤ 90) || (97 ≤ c && c ≤ 122) || c == 40

/-- the last character (if any) is not a `patChar` -/
def endsTerm : Str → Bool
  | [] => true
  | [c] => !patChar c
  | _ :: c :: r => endsTerm (c :: r)

def allPats : List Str := d17 :: replacements.map (·.1)

theorem allPats_paren : allPats.all (fun p => p.contains 40 || p.contains 41) = true := by decide
theorem allPats_dropLast : allPats.all (fun p => p.dropLast.all patChar) = true := by decide
theorem allPats_ne_nil : allPats.all (fun p => !p.isEmpty) = true := by decide

theorem inertAll_iff (s : Str) :
    inertAll s = true ↔ ∀ p ∈ allPats, endSafeB p s = true ∧ containsSub p s = false := by
  simp only [inertAll, inertFor, allPats, List.mem_cons, List.mem_map, Bool.and_eq_true,
    Bool.not_eq_true', List.all_eq_true]
  constructor
  · rintro ⟨⟨h1, h2⟩, h3⟩ p hp
    rcases hp with rfl | ⟨pr, hpr, rfl⟩
    · exact ⟨h1, h2⟩
    · exact h3 pr hpr
  · intro h
    exact ⟨h d17 (Or.inl rfl), fun pr hpr => h pr.1 (Or.inr ⟨pr, hpr, rfl⟩)⟩

theorem mem_of_containsSub {p : Str} : ∀ {s : Str}, containsSub p s = true → ∀ c ∈ p, c ∈ s
  | [], h, c, hc => by
    simp only [containsSub, List.isEmpty_iff] at h
    subst h; cases hc
  | x :: r, h, c, hc => by
    simp only [containsSub, Bool.or_eq_true] at h
    rcases h with h | h
    · exact (isPrefixOf_iff.mp h).subset hc
    · exact List.mem_cons_of_mem _ (mem_of_containsSub h c hc)

theorem endsTerm_last : ∀ {s : Str}, s ≠ [] → endsTerm s = true → ∃ c, s.getLast? = some c ∧ patChar c = false
  | [], h, _ => absurd rfl h
  | [c], _, h => ⟨c, rfl, by simpa [endsTerm] using h⟩
  | _ :: c :: r, _, h => by
    obtain ⟨x, hx, hp⟩ := endsTerm_last (List.cons_ne_nil c r) (by simpa [endsTerm] using h)
    exact ⟨x, by simpa [List.getLast?_cons_cons] using hx, hp⟩

theorem endsTerm_tail : ∀ {c : Nat} {r : Str}, endsTerm (c :: r) = true → endsTerm r = true
  | _, [], _ => rfl
  | _, _ :: _, h => by simpa [endsTerm] using h

theorem endSafe_of_endsTerm {p : Str} (hp : p.dropLast.all patChar = true) :
    ∀ {s : Str}, endsTerm s = true → endSafeB p s = true
  | [], _ => rfl
  | c :: r, h => by
    simp only [endSafeB, Bool.and_eq_true, Bool.not_eq_true', Bool.and_eq_false_iff,
      decide_eq_false_iff_not, Nat.not_lt]
    refine ⟨?_, endSafe_of_endsTerm hp (endsTerm_tail h)⟩
    by_cases hlen : p.length ≤ (c :: r).length
    · exact Or.inl hlen
    · right
      apply isPrefixOf_false_iff.mpr
      rintro ⟨t, ht⟩
      have htne : t ≠ [] := by
        rintro rfl
        simp only [List.append_nil] at ht
        rw [← ht] at hlen
        exact hlen (Nat.le_refl _)
      obtain ⟨x, hx, hpx⟩ := endsTerm_last (List.cons_ne_nil c r) h
      have hmem : x ∈ c :: r := List.mem_of_getLast? hx
      have : x ∈ p.dropLast := by
        rw [← ht, List.dropLast_append_of_ne_nil htne]
        exact List.mem_append_left _ hmem
      have := (List.all_eq_true.mp hp) x this
      simp [hpx] at this

theorem inert_of_parenFree {s : Str} (hpf : ∀ c ∈ s, c ≠ 40 ∧ c ≠ 41) (ht : endsTerm s = true) :
    inertAll s = true := by
  rw [inertAll_iff]
  intro p hp
  have h1 := (List.all_eq_true.mp allPats_paren) p hp
  have h2 := (List.all_eq_true.mp allPats_dropLast) p hp
  refine ⟨endSafe_of_endsTerm h2 ht, ?_⟩
  cases hc : containsSub p s
  · rfl
  · exfalso
    simp only [Bool.or_eq_true, List.contains_iff_mem] at h1
    rcases h1 with h1 | h1
    · exact (hpf 40 (mem_of_containsSub hc 40 h1)).1 rfl
    · exact (hpf 41 (mem_of_containsSub hc 41 h1)).2 rfl

end Yorkie.Yson
