/- Everything `Root.GarbageCollect` removes was covered by the vector: every element that leaves the heap is a
   registered tombstone whose `removedAt` the vector covers, or a structural descendant of one; every released
   slot is a dead slot whose registry entry the vector covers. -/
import YorkieModel.Lemmas.FDocPurge
namespace Yorkie.FDoc
open Yorkie
open Yorkie.Crdt (Op Val Err rootId headId)

/-- `x` is a structural descendant of `c` -/
inductive Desc (r : Root) : Ticket → Ticket → Prop
  | child {c x : Ticket} : x ∈ children r c → Desc r c x
  | step {c d x : Ticket} : Desc r c d → x ∈ children r d → Desc r c x

theorem Desc.cons {r : Root} {c c' x : Ticket} (h : c' ∈ children r c) (d : Desc r c' x) : Desc r c x := by
  induction d with
  | child hx => exact .step (.child h) hx
  | step _ hx ih => exact .step ih hx

theorem desc_of_mem {r : Root} : ∀ (f : Nat) (c x : Ticket), x ∈ descendants r f c → Desc r c x := by
  intro f
  induction f with
  | zero => intro c x h; simp [descendants] at h
  | succ f ih =>
    intro c x h
    simp only [descendants, List.mem_flatMap, List.mem_cons] at h
    obtain ⟨c', hc', hx⟩ := h
    rcases hx with hx | hx
    · subst hx; exact .child hc'
    · exact Desc.cons hc' (ih c' x hx)

/-- `r1` is `r` with some elements and some structure removed, flags untouched -/
def Sub (r r1 : Root) : Prop :=
  ∀ x e1, r1.get x = some e1 → ∃ e, r.get x = some e ∧ e.removedAt = e1.removedAt ∧
    ∀ y ∈ bodyChildren e1.body, y ∈ bodyChildren e.body

theorem Sub.refl (r : Root) : Sub r r := fun _ e1 h => ⟨e1, h, rfl, fun _ hy => hy⟩

theorem Sub.trans {r r1 r2 : Root} (h1 : Sub r r1) (h2 : Sub r1 r2) : Sub r r2 := by
  intro x e2 hx
  obtain ⟨e1, a1, a2, a3⟩ := h2 x e2 hx
  obtain ⟨e, b1, b2, b3⟩ := h1 x e1 a1
  exact ⟨e, b1, b2.trans a2, fun y hy => b3 y (a3 y hy)⟩

theorem Sub.children {r r1 : Root} (h : Sub r r1) {d x : Ticket} (hx : x ∈ FDoc.children r1 d) : x ∈ FDoc.children r d := by
  unfold FDoc.children at hx ⊢
  cases hg : r1.get d with
  | none => simp [hg] at hx
  | some e1 =>
    simp only [hg] at hx
    obtain ⟨e, he, _, hc⟩ := h d e1 hg
    simp only [he]
    exact hc x hx

theorem Sub.desc {r r1 : Root} (h : Sub r r1) {c x : Ticket} (d : Desc r1 c x) : Desc r c x := by
  induction d with
  | child hx => exact .child (h.children hx)
  | step _ hx ih => exact .step ih (h.children hx)

/-- the reason an element may leave the heap -/
def CoveredBy (v : VV) (r : Root) (t : Ticket) : Prop :=
  ∃ c ce ra, r.get c = some ce ∧ ce.removedAt = some ra ∧ v.equalToOrAfter ra = true ∧ (t = c ∨ Desc r c t)

/-- elements that leave the heap between `r` and `r'` are covered -/
def OnlyCovered (v : VV) (r r' : Root) : Prop :=
  Sub r r' ∧ ∀ t, r.get t ≠ none → r'.get t = none → CoveredBy v r t

theorem OnlyCovered.refl (v : VV) (r : Root) : OnlyCovered v r r :=
  ⟨Sub.refl r, fun _ h1 h2 => absurd h2 h1⟩

theorem OnlyCovered.trans {v : VV} {r r1 r2 : Root} (h1 : OnlyCovered v r r1) (h2 : OnlyCovered v r1 r2) :
    OnlyCovered v r r2 := by
  refine ⟨h1.1.trans h2.1, ?_⟩
  intro t ht ht2
  cases hg1 : r1.get t with
  | none => exact h1.2 t ht hg1
  | some e1 =>
    obtain ⟨c, ce1, ra, a1, a2, a3, a4⟩ := h2.2 t (by rw [hg1]; simp) ht2
    obtain ⟨ce, b1, b2, _⟩ := h1.1 c ce1 a1
    refine ⟨c, ce, ra, b1, b2.trans a2, a3, ?_⟩
    rcases a4 with e | d
    · exact Or.inl e
    · exact Or.inr (h1.1.desc d)

theorem onlyCovered_afterPurge {v : VV} {r : Root} {c parent : Ticket} {ce pe : Elem} {ra : Ticket} {b : Body}
    (st : PurgeStep r c parent ce pe ra b) (hcov : v.equalToOrAfter ra = true) :
    OnlyCovered v r (afterPurge r c parent pe b) := by
  refine ⟨?_, ?_⟩
  · intro x e1 hx
    rw [get_afterPurge] at hx
    by_cases hd : x ∈ purged r c
    · simp [hd] at hx
    · simp only [hd, if_false] at hx
      by_cases hp : x = parent
      · subst hp
        simp only [if_true, Option.some.injEq] at hx
        subst hx
        exact ⟨pe, st.hp, rfl, fun y hy => (purgeBody_children st.hb hy).1⟩
      · simp only [hp, if_false] at hx
        exact ⟨e1, hx, rfl, fun _ hy => hy⟩
  · intro t ht ht2
    rw [get_afterPurge] at ht2
    by_cases hd : t ∈ purged r c
    · refine ⟨c, ce, ra, st.hc, st.hra, hcov, ?_⟩
      rcases List.mem_cons.mp hd with e | e
      · exact Or.inl e
      · exact Or.inr (desc_of_mem _ c t e)
    · simp only [hd, if_false] at ht2
      by_cases hp : t = parent
      · simp [hp] at ht2
      · simp only [hp, if_false] at ht2
        exact absurd ht2 ht

theorem onlyCovered_purgeElems {v : VV} : ∀ (l : List (Ticket × Ticket)) (r r' : Root) (n n' : Nat),
    purgeElems v l r n = .ok (r', n') → OnlyCovered v r r' := by
  intro l
  induction l with
  | nil =>
    intro r r' n n' h
    simp only [purgeElems] at h
    injection h with h
    injection h with h _
    subst h
    exact OnlyCovered.refl v _
  | cons p rest ih =>
    intro r r' n n' h
    obtain ⟨c, parent⟩ := p
    simp only [purgeElems] at h
    cases hs : purgeElem v r c parent with
    | error e => simp [hs] at h
    | ok res =>
      obtain ⟨r1, k⟩ := res
      simp only [hs] at h
      have step : OnlyCovered v r r1 := by
        rcases purgeElem_cases hs with e | ⟨ce, pe, ra, b, st, hcov, e⟩
        · subst e; exact OnlyCovered.refl v _
        · subst e; exact onlyCovered_afterPurge st hcov
      exact step.trans (ih r1 r' _ n' h)

/-- the second loop never removes an element; the slots it releases are dead slots -/
theorem sub_releaseSlot (r : Root) (g : GcNode) : Sub r (releaseSlot r g) ∧ ∀ t, (releaseSlot r g).get t = none → r.get t = none := by
  unfold releaseSlot
  cases hg : r.get g.arr with
  | none => exact ⟨Sub.refl r, fun _ h => h⟩
  | some ae =>
    simp only
    cases hb : ae.body with
    | arr nodes moved =>
      simp only
      refine ⟨?_, ?_⟩
      · intro x e1 hx
        rw [get_put] at hx
        by_cases hxa : x = g.arr
        · subst hxa
          simp only [if_true, Option.some.injEq] at hx
          subst hx
          refine ⟨ae, hg, rfl, ?_⟩
          intro y hy
          rw [hb]
          simp only [bodyChildren] at hy ⊢
          obtain ⟨n, hn, he⟩ := mem_elems_of_nodes hy
          exact elems_mem_of_node (List.mem_filter.mp hn).1 he
        · simp only [hxa, if_false] at hx
          exact ⟨e1, hx, rfl, fun _ hy => hy⟩
      · intro t ht
        rw [get_put] at ht
        by_cases hxa : t = g.arr
        · simp [hxa] at ht
        · simpa [hxa] using ht
    | obj n bk => exact ⟨Sub.refl r, fun _ h => h⟩
    | prim s => exact ⟨Sub.refl r, fun _ h => h⟩
    | counter l v => exact ⟨Sub.refl r, fun _ h => h⟩
    | «opaque» s => exact ⟨Sub.refl r, fun _ h => h⟩

theorem onlyCovered_purgeNodes {v : VV} : ∀ (l : List GcNode) (r : Root) (n : Nat),
    OnlyCovered v r (purgeNodes v l r n).1 := by
  intro l
  induction l with
  | nil => intro r n; exact OnlyCovered.refl v r
  | cons g rest ih =>
    intro r n
    simp only [purgeNodes]
    split
    · obtain ⟨s1, s2⟩ := sub_releaseSlot r g
      have step : OnlyCovered v r
          { releaseSlot r g with gcNodes := List.filter (fun x => !decide (x.pos = g.pos)) (releaseSlot r g).gcNodes } :=
        ⟨fun x e1 hx => s1 x e1 hx, fun t ht ht2 => absurd (s2 t ht2) ht⟩
      exact step.trans (ih _ _)
    · exact ih r n

theorem onlyCovered_garbageCollect {v : VV} {r r' : Root} {n : Nat} (h : garbageCollect v r = .ok (r', n)) :
    OnlyCovered v r r' := by
  unfold garbageCollect at h
  cases h1 : purgeElems v r.gcElems r 0 with
  | error e => simp [h1] at h
  | ok res =>
    obtain ⟨r1, n1⟩ := res
    simp only [h1] at h
    injection h with h
    have : r' = (purgeNodes v r1.gcNodes r1 n1).1 := by rw [h]
    rw [this]
    exact (onlyCovered_purgeElems r.gcElems r r1 0 n1 h1).trans (onlyCovered_purgeNodes r1.gcNodes r1 n1)

/-- registry entries that disappear in the second loop were covered (or shared their key with a covered one) -/
theorem purgeNodes_entries {v : VV} : ∀ (l : List GcNode) (r : Root) (n : Nat) (g : GcNode),
    g ∈ r.gcNodes → g ∉ (purgeNodes v l r n).1.gcNodes → ∃ g' ∈ l, g'.pos = g.pos ∧ v.equalToOrAfter g'.removedAt = true := by
  intro l
  induction l with
  | nil => intro r n g hg hn; exact absurd hg hn
  | cons a rest ih =>
    intro r n g hg hn
    simp only [purgeNodes] at hn
    split at hn
    · rename_i hcov
      by_cases hp : a.pos = g.pos
      · exact ⟨a, List.mem_cons_self .., hp, hcov⟩
      · have hrel : (releaseSlot r a).gcNodes = r.gcNodes := by
          unfold releaseSlot
          cases r.get a.arr with
          | none => rfl
          | some ae => simp only; cases ae.body <;> rfl
        have hg' : g ∈ ({ releaseSlot r a with gcNodes := List.filter (fun x => !decide (x.pos = a.pos)) (releaseSlot r a).gcNodes } : Root).gcNodes := by
          simp only [hrel, List.mem_filter]
          refine ⟨hg, ?_⟩
          simp only [Bool.not_eq_eq_eq_not, Bool.not_true, decide_eq_false_iff_not]
          exact fun e => hp e.symm
        obtain ⟨g', h1, h2, h3⟩ := ih _ _ g hg' hn
        exact ⟨g', List.mem_cons_of_mem _ h1, h2, h3⟩
    · obtain ⟨g', h1, h2, h3⟩ := ih r n g hg hn
      exact ⟨g', List.mem_cons_of_mem _ h1, h2, h3⟩

end Yorkie.FDoc
