/-
Well-formedness invariant of the Text block list and its preservation by `splitNode`, `edit`,
`style`. Core Lean only.
-/
import YorkieModel.Lemmas.TextUtf16
namespace Yorkie.Text

def ids (s : TextSt) : List Id := s.map (·.id)

@[simp] theorem ids_nil : ids [] = [] := rfl
@[simp] theorem ids_cons (n : TNode) (s : TextSt) : ids (n :: s) = n.id :: ids s := rfl
@[simp] theorem ids_append (a b : TextSt) : ids (a ++ b) = ids a ++ ids b := by simp [ids]

theorem mem_ids {s : TextSt} {n : TNode} (h : n ∈ s) : n.id ∈ ids s :=
  List.mem_map.mpr ⟨n, h, rfl⟩

theorem exists_of_mem_ids {s : TextSt} {i : Id} (h : i ∈ ids s) : ∃ n ∈ s, n.id = i := by
  simpa [ids] using h

/-- the invariant of every reachable block list (without GC and undo-restore) -/
structure WF (s : TextSt) : Prop where
  /-- the list starts with the (empty) initial head -/
  head : ∃ h r, s = h :: r ∧ h.id = headId ∧ h.units = []
  /-- node ids are unique (so Go pointers = ids) -/
  nodup : (ids s).Nodup
  /-- only the head is empty -/
  nonempty : ∀ n ∈ s, n.id ≠ headId → n.units ≠ []
  /-- the parts of one insertion cover disjoint offset ranges -/
  disjoint : ∀ n ∈ s, ∀ m ∈ s, n.id.1 = m.id.1 → n.id.2 < m.id.2 → n.id.2 + n.len ≤ m.id.2
  /-- a part with offset > 0 directly continues its `insPrev` part -/
  chain : ∀ m ∈ s, 0 < m.id.2 →
    ∃ n ∈ s, n.id.1 = m.id.1 ∧ n.id.2 + n.len = m.id.2 ∧ m.insPrev = some n.id
  /-- every block is well-formed UTF-16 (a Go string) -/
  fixed : ∀ n ∈ s, Fixed n.units

theorem eq_of_id_eq {s : TextSt} (nd : (ids s).Nodup) {a b : TNode} (ha : a ∈ s) (hb : b ∈ s)
    (h : a.id = b.id) : a = b := by
  induction s with
  | nil => cases ha
  | cons x r ih =>
    simp only [ids_cons, List.nodup_cons] at nd
    cases ha with
    | head =>
      cases hb with
      | head => rfl
      | tail _ hb => exact absurd (h ▸ mem_ids hb) nd.1
    | tail _ ha =>
      cases hb with
      | head => exact absurd (h ▸ mem_ids ha) nd.1
      | tail _ hb => exact ih nd.2 ha hb

theorem wf_init : WF init := by
  refine ⟨⟨headNode, [], rfl, rfl, rfl⟩, by simp [init, ids], ?_, ?_, ?_, ?_⟩
  · intro n hn h; simp [init] at hn; subst hn; exact absurd rfl h
  · intro n hn m hm _ hlt
    simp [init] at hn hm; subst hn; subst hm; omega
  · intro m hm h; simp [init] at hm; subst hm; simp [headNode, headId] at h
  · intro n hn; simp [init] at hn; subst hn; exact fixed_nil

/-! ### `insertAfterId` -/

theorem mem_insertAfterId {l : TextSt} {i : Id} {new x : TNode} (hi : i ∈ ids l) :
    x ∈ insertAfterId l i new ↔ x = new ∨ x ∈ l := by
  induction l with
  | nil => simp at hi
  | cons a r ih =>
    unfold insertAfterId
    by_cases h : a.id = i
    · simp only [h, if_true, List.mem_cons]
      constructor
      · rintro (h1 | h1 | h1) <;> simp [h1]
      · rintro (h1 | h1 | h1) <;> simp [h1]
    · simp only [h, if_false, List.mem_cons]
      have hi' : i ∈ ids r := by
        simp only [ids_cons, List.mem_cons] at hi
        rcases hi with hi | hi
        · exact absurd hi.symm h
        · exact hi
      rw [ih hi']
      constructor
      · rintro (h1 | h1 | h1) <;> simp [h1]
      · rintro (h1 | h1 | h1) <;> simp [h1]

theorem mem_ids_insertAfterId {l : TextSt} {i : Id} {new : TNode} {y : Id}
    (h : y ∈ ids (insertAfterId l i new)) : y = new.id ∨ y ∈ ids l := by
  induction l with
  | nil => simp [insertAfterId] at h
  | cons a r ih =>
    unfold insertAfterId at h
    by_cases hc : a.id = i
    · simp only [hc, if_true, ids_cons, List.mem_cons] at h
      rcases h with h | h | h
      · right; simp [h, hc]
      · left; exact h
      · right; simp [h]
    · simp only [hc, if_false, ids_cons, List.mem_cons] at h
      rcases h with h | h
      · right; simp [h]
      · rcases ih h with h | h
        · left; exact h
        · right; simp [h]

theorem nodup_insertAfterId {l : TextSt} {i : Id} {new : TNode} (nd : (ids l).Nodup)
    (hnew : new.id ∉ ids l) : (ids (insertAfterId l i new)).Nodup := by
  induction l with
  | nil => simp [insertAfterId]
  | cons a r ih =>
    simp only [ids_cons, List.nodup_cons, List.mem_cons, not_or] at nd hnew
    unfold insertAfterId
    by_cases hc : a.id = i
    · simp only [hc, if_true, ids_cons, List.nodup_cons, List.mem_cons, not_or]
      refine ⟨⟨?_, hc ▸ nd.1⟩, hnew.2, nd.2⟩
      intro h; exact hnew.1 (by rw [← h, hc])
    · simp only [hc, if_false, ids_cons, List.nodup_cons]
      refine ⟨?_, ih nd.2 hnew.2⟩
      intro h
      rcases mem_ids_insertAfterId h with h | h
      · exact hnew.1 h.symm
      · exact nd.1 h

theorem insertAfterId_head {h : TNode} {r : TextSt} (i : Id) (new : TNode) :
    ∃ r', insertAfterId (h :: r) i new = h :: r' := by
  unfold insertAfterId
  by_cases hc : h.id = i <;> simp [hc]

/-- explicit form when the anchor is the first node with that id -/
theorem insertAfterId_append {A C : TextSt} {n new : TNode} (hA : n.id ∉ ids A) :
    insertAfterId (A ++ n :: C) n.id new = A ++ n :: new :: C := by
  induction A with
  | nil => simp [insertAfterId]
  | cons a r ih =>
    simp only [ids_cons, List.mem_cons, not_or] at hA
    simp only [List.cons_append, insertAfterId]
    rw [if_neg (fun h => hA.1 h.symm), ih hA.2]

/-! ### `splitNode` -/

/-- what `splitNode` does to every pre-existing node -/
def splitMap (n : TNode) (k : Nat) (m : TNode) : TNode :=
  truncate n.id k (relink n.id (n.id.1, n.id.2 + k) m)

@[simp] theorem splitMap_id (n : TNode) (k : Nat) (m : TNode) : (splitMap n k m).id = m.id := by
  unfold splitMap truncate relink; split <;> split <;> rfl
@[simp] theorem splitMap_removedAt (n : TNode) (k : Nat) (m : TNode) :
    (splitMap n k m).removedAt = m.removedAt := by
  unfold splitMap truncate relink; split <;> split <;> rfl
@[simp] theorem splitMap_attrs (n : TNode) (k : Nat) (m : TNode) :
    (splitMap n k m).attrs = m.attrs := by
  unfold splitMap truncate relink; split <;> split <;> rfl
theorem splitMap_units (n : TNode) (k : Nat) (m : TNode) :
    (splitMap n k m).units = if m.id = n.id then sanitize (m.units.take k) else m.units := by
  unfold splitMap truncate relink; split <;> split <;> simp_all
theorem splitMap_insPrev (n : TNode) (k : Nat) (m : TNode) :
    (splitMap n k m).insPrev =
      if m.insPrev = some n.id then some (n.id.1, n.id.2 + k) else m.insPrev := by
  unfold splitMap truncate relink; split <;> split <;> simp_all
@[simp] theorem splitMap_live (n : TNode) (k : Nat) (m : TNode) :
    (splitMap n k m).live = m.live := by simp [TNode.live]

theorem ids_map_splitMap (n : TNode) (k : Nat) (s : TextSt) : ids (s.map (splitMap n k)) = ids s := by
  simp [ids, List.map_map, Function.comp_def]

theorem splitNode_eq {s : TextSt} {n : TNode} {k : Nat} (h0 : 0 < k) (hk : k < n.len) :
    splitNode s n k = insertAfterId (s.map (splitMap n k)) n.id (rightPart n k) := by
  unfold splitNode
  have h1 : ¬ (k = 0) := by omega
  have h2 : ¬ (k = n.len) := by omega
  simp only [h1, h2, decide_false, Bool.or_self, Bool.false_eq_true, if_false, List.map_map]
  rfl

theorem splitNode_noop {s : TextSt} {n : TNode} {k : Nat} (h : k = 0 ∨ k = n.len) :
    splitNode s n k = s := by
  unfold splitNode
  rcases h with h | h <;> simp [h]

theorem mem_splitNode {s : TextSt} {n : TNode} {k : Nat} (hn : n ∈ s) (h0 : 0 < k) (hk : k < n.len)
    {x : TNode} : x ∈ splitNode s n k ↔ x = rightPart n k ∨ ∃ m ∈ s, x = splitMap n k m := by
  rw [splitNode_eq h0 hk, mem_insertAfterId (by rw [ids_map_splitMap]; exact mem_ids hn)]
  simp only [List.mem_map]
  constructor
  · rintro (h | ⟨m, hm, rfl⟩)
    · exact Or.inl h
    · exact Or.inr ⟨m, hm, rfl⟩
  · rintro (h | ⟨m, hm, rfl⟩)
    · exact Or.inl h
    · exact Or.inr ⟨m, hm, rfl⟩

theorem rightPart_fresh {s : TextSt} (wf : WF s) {n : TNode} (hn : n ∈ s) {k : Nat} (h0 : 0 < k)
    (hk : k < n.len) : (rightPart n k).id ∉ ids s := by
  intro h
  obtain ⟨m, hm, hid⟩ := exists_of_mem_ids h
  have h1 : n.id.1 = m.id.1 := by rw [hid]; rfl
  have h2 : m.id.2 = n.id.2 + k := by rw [hid]; rfl
  have := wf.disjoint n hn m hm h1 (by omega)
  omega

theorem splitMap_len_le (n : TNode) (k : Nat) (m : TNode) : (splitMap n k m).len ≤ m.len := by
  unfold TNode.len
  rw [splitMap_units]
  split
  · rw [sanitize_length, List.length_take]; omega
  · exact Nat.le_refl _

theorem splitMap_len_self (n : TNode) {k : Nat} (hk : k ≤ n.len) : (splitMap n k n).len = k := by
  unfold TNode.len at *
  rw [splitMap_units]
  simp [sanitize_length, List.length_take]; omega

theorem splitMap_len_other {n m : TNode} (k : Nat) (h : m.id ≠ n.id) : (splitMap n k m).len = m.len := by
  unfold TNode.len
  rw [splitMap_units, if_neg h]

theorem rightPart_len (n : TNode) (k : Nat) : (rightPart n k).len = n.len - k := by
  simp [rightPart, TNode.len, sanitize_length]

/-- splitting a node strictly inside preserves the invariant -/
theorem wf_splitNode {s : TextSt} (wf : WF s) {n : TNode} (hn : n ∈ s) {k : Nat} (h0 : 0 < k)
    (hk : k < n.len) : WF (splitNode s n k) := by
  have hfresh := rightPart_fresh wf hn h0 hk
  have hnhead : n.id ≠ headId := by
    intro h
    obtain ⟨hd, r, hs, hid, hu⟩ := wf.head
    have : n = hd := eq_of_id_eq wf.nodup hn (by rw [hs]; simp) (by rw [h, hid])
    rw [this] at hk; simp [TNode.len, hu] at hk
  have mem := @mem_splitNode s n k hn h0 hk
  refine ⟨?_, ?_, ?_, ?_, ?_, ?_⟩
  · -- head
    obtain ⟨hd, r, hs, hid, hu⟩ := wf.head
    rw [splitNode_eq h0 hk, hs, List.map_cons]
    obtain ⟨r', hr'⟩ := @insertAfterId_head (splitMap n k hd) (r.map (splitMap n k)) n.id (rightPart n k)
    refine ⟨_, r', hr', by simp [hid], ?_⟩
    rw [splitMap_units, if_neg (by rw [hid]; exact fun h => hnhead h.symm), hu]
  · -- nodup
    rw [splitNode_eq h0 hk]
    apply nodup_insertAfterId
    · rw [ids_map_splitMap]; exact wf.nodup
    · rw [ids_map_splitMap]; exact hfresh
  · -- nonempty
    intro x hx hxh
    rcases mem.mp hx with rfl | ⟨m, hm, rfl⟩
    · intro h
      have h1 : (rightPart n k).units.length = n.len - k := rightPart_len n k
      rw [h] at h1
      simp only [List.length_nil] at h1
      omega
    · simp only [splitMap_id] at hxh
      rw [splitMap_units]
      split
      · intro h
        have h1 : (sanitize (List.take k m.units)).length = 0 := by rw [h]; rfl
        rw [sanitize_length, List.length_take] at h1
        have : m = n := eq_of_id_eq wf.nodup hm hn ‹_›
        subst this
        unfold TNode.len at hk; omega
      · exact wf.nonempty m hm hxh
  · -- disjoint
    intro a ha b hb h1 h2
    rcases mem.mp ha with rfl | ⟨a, ham, rfl⟩ <;> rcases mem.mp hb with rfl | ⟨b, hbm, rfl⟩
    · omega
    · simp only [splitMap_id] at h1 h2 ⊢
      rw [rightPart_len]
      have e1 : (rightPart n k).id.1 = n.id.1 := rfl
      have e2 : (rightPart n k).id.2 = n.id.2 + k := rfl
      rw [e1] at h1; rw [e2] at h2 ⊢
      have := wf.disjoint n hn b hbm h1 (by omega)
      omega
    · simp only [splitMap_id] at h1 h2 ⊢
      have e1 : (rightPart n k).id.1 = n.id.1 := rfl
      have e2 : (rightPart n k).id.2 = n.id.2 + k := rfl
      rw [e1] at h1; rw [e2] at h2 ⊢
      by_cases hid : a.id = n.id
      · have : a = n := eq_of_id_eq wf.nodup ham hn hid
        subst this
        rw [splitMap_len_self a (by omega)]; omega
      · rw [splitMap_len_other k hid]
        have hne : a.id.2 ≠ n.id.2 := by
          intro h; apply hid
          exact Prod.ext h1 h
        rcases Nat.lt_or_gt_of_ne hne with hlt | hgt
        · have := wf.disjoint a ham n hn h1 hlt; omega
        · have := wf.disjoint n hn a ham h1.symm hgt; omega
    · simp only [splitMap_id] at h1 h2 ⊢
      have := wf.disjoint a ham b hbm h1 h2
      have := splitMap_len_le n k a
      omega
  · -- chain
    intro x hx hpos
    rcases mem.mp hx with rfl | ⟨m, hm, rfl⟩
    · refine ⟨splitMap n k n, mem.mpr (Or.inr ⟨n, hn, rfl⟩), by simp [rightPart], ?_, by simp [rightPart]⟩
      rw [splitMap_len_self n (by omega)]; simp [rightPart]
    · simp only [splitMap_id] at hpos
      obtain ⟨p, hp, hp1, hp2, hp3⟩ := wf.chain m hm hpos
      by_cases hpn : p.id = n.id
      · have : p = n := eq_of_id_eq wf.nodup hp hn hpn
        subst this
        refine ⟨rightPart p k, mem.mpr (Or.inl rfl), by simpa [rightPart] using hp1, ?_, ?_⟩
        · rw [rightPart_len]; simp [rightPart]; omega
        · rw [splitMap_insPrev, if_pos hp3]; rfl
      · refine ⟨splitMap n k p, mem.mpr (Or.inr ⟨p, hp, rfl⟩), by simpa using hp1, ?_, ?_⟩
        · rw [splitMap_len_other k hpn]; simpa using hp2
        · rw [splitMap_insPrev, if_neg (by rw [hp3]; intro h; exact hpn (Option.some.inj h))]
          simpa using hp3
  · -- fixed
    intro x hx
    rcases mem.mp hx with rfl | ⟨m, hm, rfl⟩
    · exact fixed_sanitize _
    · unfold Fixed
      rw [splitMap_units]
      split
      · exact sanitize_idem _
      · exact wf.fixed m hm

/-! ### maps that only touch `removedAt` / `attrs` -/

/-- `f` changes neither identity, content nor the insertion chain -/
def KeepsShape (f : TNode → TNode) : Prop :=
  ∀ n, (f n).id = n.id ∧ (f n).units = n.units ∧ (f n).insPrev = n.insPrev

theorem ids_map_keeps {f : TNode → TNode} (hf : KeepsShape f) (s : TextSt) : ids (s.map f) = ids s := by
  induction s with
  | nil => rfl
  | cons a r ih => simp [ih, (hf a).1]

theorem wf_map_keeps {s : TextSt} (wf : WF s) {f : TNode → TNode} (hf : KeepsShape f) :
    WF (s.map f) := by
  have hlen : ∀ n, (f n).len = n.len := fun n => by simp [TNode.len, (hf n).2.1]
  refine ⟨?_, ?_, ?_, ?_, ?_, ?_⟩
  · obtain ⟨hd, r, hs, hid, hu⟩ := wf.head
    exact ⟨f hd, r.map f, by simp [hs], by rw [(hf hd).1, hid], by rw [(hf hd).2.1, hu]⟩
  · rw [ids_map_keeps hf]; exact wf.nodup
  · intro x hx
    obtain ⟨n, hn, rfl⟩ := List.mem_map.mp hx
    rw [(hf n).1, (hf n).2.1]; exact wf.nonempty n hn
  · intro a' ha' b' hb'
    obtain ⟨a, ha, rfl⟩ := List.mem_map.mp ha'
    obtain ⟨b, hb, rfl⟩ := List.mem_map.mp hb'
    rw [(hf a).1, (hf b).1, hlen]; exact wf.disjoint a ha b hb
  · intro x hx
    obtain ⟨m, hm, rfl⟩ := List.mem_map.mp hx
    rw [(hf m).1, (hf m).2.2]
    intro hpos
    obtain ⟨p, hp, h1, h2, h3⟩ := wf.chain m hm hpos
    exact ⟨f p, List.mem_map.mpr ⟨p, hp, rfl⟩, by rw [(hf p).1]; exact h1, by rw [(hf p).1, hlen]; exact h2,
      by rw [(hf p).1]; exact h3⟩
  · intro x hx
    obtain ⟨n, hn, rfl⟩ := List.mem_map.mp hx
    rw [(hf n).2.1]; exact wf.fixed n hn

theorem keeps_applyTo {f : TNode → TNode} (hf : KeepsShape f) (l : List Id) : KeepsShape (applyTo l f) := by
  intro n; unfold applyTo; split
  · exact hf n
  · exact ⟨rfl, rfl, rfl⟩

theorem keeps_removeNode (ts : Ticket) (vv : Option VV) : KeepsShape (removeNode ts vv) := by
  intro n; unfold removeNode
  split
  · exact ⟨rfl, rfl, rfl⟩
  · split
    · exact ⟨rfl, rfl, rfl⟩
    · split <;> exact ⟨rfl, rfl, rfl⟩

theorem keeps_styleNode (ts : Ticket) (vv : Option VV) (g : List AttrNode → List AttrNode) :
    KeepsShape (styleNode ts vv g) := by
  intro n; unfold styleNode; split <;> exact ⟨rfl, rfl, rfl⟩

/-! ### inserting the new node -/

theorem mem_insertAfterId_imp {l : TextSt} {i : Id} {new x : TNode} (h : x ∈ insertAfterId l i new) :
    x = new ∨ x ∈ l := by
  induction l with
  | nil => simp [insertAfterId] at h
  | cons a r ih =>
    unfold insertAfterId at h
    by_cases hc : a.id = i
    · simp only [hc, if_true, List.mem_cons] at h
      rcases h with h | h | h <;> simp [h]
    · simp only [hc, if_false, List.mem_cons] at h
      rcases h with h | h
      · simp [h]
      · rcases ih h with h | h <;> simp [h]

theorem mem_insertAfterId_of_mem {l : TextSt} {i : Id} {new x : TNode} (h : x ∈ l) :
    x ∈ insertAfterId l i new := by
  induction l with
  | nil => cases h
  | cons a r ih =>
    unfold insertAfterId
    by_cases hc : a.id = i
    · simp only [hc, if_true, List.mem_cons]
      rcases List.mem_cons.mp h with h | h <;> simp [h]
    · simp only [hc, if_false, List.mem_cons]
      rcases List.mem_cons.mp h with h | h
      · simp [h]
      · exact Or.inr (ih h)

/-- the ticket of the edit is not the `createdAt` of any node yet -/
def Fresh (s : TextSt) (ts : Ticket) : Prop := ∀ n ∈ s, n.id.1 ≠ ts

theorem wf_insert_new {s : TextSt} (wf : WF s) {ts : Ticket} (fr : Fresh s ts) {new : TNode}
    (hid : new.id = (ts, 0)) (hne : new.units ≠ []) (hfix : Fixed new.units) (i : Id) :
    WF (insertAfterId s i new) := by
  have hnot : new.id ∉ ids s := by
    intro h
    obtain ⟨m, hm, hmid⟩ := exists_of_mem_ids h
    exact fr m hm (by rw [hmid, hid])
  refine ⟨?_, nodup_insertAfterId wf.nodup hnot, ?_, ?_, ?_, ?_⟩
  · obtain ⟨hd, r, hs, hhid, hu⟩ := wf.head
    obtain ⟨r', hr'⟩ := @insertAfterId_head hd r i new
    exact ⟨hd, r', by rw [hs, hr'], hhid, hu⟩
  · intro x hx hxh
    rcases mem_insertAfterId_imp hx with rfl | hx
    · exact hne
    · exact wf.nonempty x hx hxh
  · intro a ha' b hb' h1 h2
    rcases mem_insertAfterId_imp ha' with ea | ha <;> rcases mem_insertAfterId_imp hb' with eb | hb
    · rw [ea, eb] at h2; omega
    · rw [ea, hid] at h1; exact absurd h1.symm (fr b hb)
    · rw [eb, hid] at h1; exact absurd h1 (fr a ha)
    · exact wf.disjoint a ha b hb h1 h2
  · intro x hx hpos
    rcases mem_insertAfterId_imp hx with rfl | hx
    · rw [hid] at hpos; simp at hpos
    · obtain ⟨p, hp, h⟩ := wf.chain x hx hpos
      exact ⟨p, mem_insertAfterId_of_mem hp, h⟩
  · intro x hx
    rcases mem_insertAfterId_imp hx with rfl | hx
    · exact hfix
    · exact wf.fixed x hx

/-! ### lookups return members -/

theorem findFloor_mem {s : TextSt} {q : Id} {n : TNode} (h : findFloor s q = some n) : n ∈ s := by
  induction s generalizing n with
  | nil => simp [findFloor] at h
  | cons a r ih =>
    unfold findFloor at h
    split at h
    · rename_i b hb
      split at h
      · injection h with h; subst h; simp
      · injection h with h; subst h; exact List.mem_cons_of_mem _ (ih hb)
    · split at h
      · injection h with h; subst h; simp
      · cases h

theorem findById_mem {s : TextSt} {i : Id} {n : TNode} (h : findById s i = some n) : n ∈ s ∧ n.id = i := by
  induction s with
  | nil => simp [findById] at h
  | cons a r ih =>
    unfold findById at h
    split at h
    · injection h with h; subst h; exact ⟨by simp, ‹_›⟩
    · exact ⟨List.mem_cons_of_mem _ (ih h).1, (ih h).2⟩

theorem findFloorPreferLeft_mem {s : TextSt} {q : Id} {n : TNode}
    (h : findFloorPreferLeft s q = some n) : n ∈ s := by
  unfold findFloorPreferLeft at h
  split at h
  · cases h
  · rename_i node hnode
    split at h
    · split at h
      · injection h with h; subst h; exact findFloor_mem hnode
      · exact (findById_mem h).1
    · injection h with h; subst h; exact findFloor_mem hnode

/-- `findNodeWithSplit` either leaves the list alone or splits one member strictly inside -/
theorem fnws_cases {s : TextSt} {pos : Pos} {ts : Ticket} {s1 : TextSt} {l : Id} {r : Option Id}
    (h : findNodeWithSplit s pos ts = .ok (s1, l, r)) :
    s1 = s ∨ ∃ n ∈ s, ∃ k, 0 < k ∧ k < n.len ∧ s1 = splitNode s n k := by
  unfold findNodeWithSplit at h
  simp only at h
  split at h
  · cases h
  · rename_i node hnode
    split at h
    · cases h
    · split at h
      · cases h
      · split at h
        · cases h
        · injection h with h
          injection h with h1 h2
          subst h1
          rename_i hle _ _ _
          by_cases hk : (pos.id.2 + pos.rel - node.id.2 = 0 ∨ pos.id.2 + pos.rel - node.id.2 = node.len)
          · left; exact splitNode_noop hk
          · right
            refine ⟨node, findFloorPreferLeft_mem hnode, _, ?_, ?_, rfl⟩ <;> omega

theorem createdAt_splitNode {s : TextSt} {n : TNode} (hn : n ∈ s) {k : Nat} (h0 : 0 < k) (hk : k < n.len)
    {x : TNode} (hx : x ∈ splitNode s n k) : ∃ m ∈ s, x.id.1 = m.id.1 := by
  rcases (mem_splitNode hn h0 hk).mp hx with rfl | ⟨m, hm, rfl⟩
  · exact ⟨n, hn, rfl⟩
  · exact ⟨m, hm, by simp⟩

theorem fnws_wf {s : TextSt} (wf : WF s) {pos : Pos} {ts : Ticket} {s1 : TextSt} {l : Id} {r : Option Id}
    (h : findNodeWithSplit s pos ts = .ok (s1, l, r)) :
    WF s1 ∧ ∀ x ∈ s1, ∃ m ∈ s, x.id.1 = m.id.1 := by
  rcases fnws_cases h with rfl | ⟨n, hn, k, h0, hk, rfl⟩
  · exact ⟨wf, fun x hx => ⟨x, hx, rfl⟩⟩
  · exact ⟨wf_splitNode wf hn h0 hk, fun x hx => createdAt_splitNode hn h0 hk hx⟩

theorem fnws_fresh {s : TextSt} (wf : WF s) {pos : Pos} {ts t : Ticket} {s1 : TextSt} {l : Id}
    {r : Option Id} (h : findNodeWithSplit s pos ts = .ok (s1, l, r)) (fr : Fresh s t) : Fresh s1 t := by
  intro x hx
  obtain ⟨m, hm, e⟩ := (fnws_wf wf h).2 x hx
  rw [e]; exact fr m hm

/-! ### the invariant is preserved by every edit and style operation (local or remote) -/

theorem newNode_units (ts : Ticket) (c : List Nat) (a : List (String × String)) : (newNode ts c a).units = c := rfl
theorem newNode_id (ts : Ticket) (c : List Nat) (a : List (String × String)) : (newNode ts c a).id = (ts, 0) := rfl

/-- `wf_edit`: any `Text.Edit` (local or remote, any version vector, any positions) that succeeds
    keeps the invariant, provided its ticket is fresh and its content is a Go string -/
theorem wf_edit {s s' : TextSt} (wf : WF s) {fr to : Pos} {content : List Nat}
    {attrs : List (String × String)} {ts : Ticket} {vv : Option VV} (hfresh : Fresh s ts)
    (hc : Fixed content) (h : edit fr to content attrs ts vv s = .ok s') : WF s' := by
  unfold edit at h
  split at h
  · cases h
  · rename_i s1 l1 toRight h1
    split at h
    · cases h
    · rename_i s2 fromLeft fromRight h2
      have wf1 := (fnws_wf wf h1).1
      have fr1 := fnws_fresh wf h1 hfresh
      have wf2 := (fnws_wf wf1 h2).1
      have fr2 := fnws_fresh wf1 h2 fr1
      have keeps := keeps_applyTo (keeps_removeNode ts vv) (between s2 fromRight toRight)
      have wf3 := wf_map_keeps wf2 keeps
      simp only at h
      split at h
      · injection h with h; subst h; exact wf3
      · injection h with h; subst h
        apply wf_insert_new wf3 _ (newNode_id ts content attrs) _ hc
        · intro x hx
          obtain ⟨m, hm, rfl⟩ := List.mem_map.mp hx
          rw [(keeps m).1]; exact fr2 m hm
        · rw [newNode_units]; intro hnil; simp_all

theorem wf_styleWith {s s' : TextSt} (wf : WF s) {fr to : Pos} {g : List AttrNode → List AttrNode}
    {ts : Ticket} {vv : Option VV} (h : styleWith fr to g ts vv s = .ok s') : WF s' := by
  unfold styleWith at h
  split at h
  · cases h
  · rename_i s1 l1 toRight h1
    split at h
    · cases h
    · rename_i s2 fromLeft fromRight h2
      injection h with h; subst h
      exact wf_map_keeps (fnws_wf (fnws_wf wf h1).1 h2).1 (keeps_applyTo (keeps_styleNode ts vv g) _)

/-- `wf_style`: `operations.Style.Execute` (set and/or remove) keeps the invariant -/
theorem wf_styleOp {s s' : TextSt} (wf : WF s) {fr to : Pos} {attrs : List (String × String)}
    {keys : List String} {ts : Ticket} {vv : Option VV}
    (h : styleOp fr to attrs keys ts vv s = .ok s') : WF s' := by
  unfold styleOp at h
  split at h
  · cases h
  · rename_i s1 h1
    have wf1 : WF s1 := by
      split at h1
      · injection h1 with h1; subst h1; exact wf
      · exact wf_styleWith wf h1
    split at h
    · injection h with h; subst h; exact wf1
    · exact wf_styleWith wf1 h

end Yorkie.Text
