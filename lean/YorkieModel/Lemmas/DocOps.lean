/-
Per-operation characterisation: success of `execute` in terms of observations of the heap,
and `execute d op = .ok ((eff body op).run d)` with `Valid (eff body op) d pe (creates op)`.
-/
import YorkieModel.Lemmas.DocEffect
namespace Yorkie.Crdt
open Yorkie

set_option linter.unusedSimpArgs false

/-! ### the effect of an operation, as a function of the parent's body -/

def setMem (member : String → Option Member) (k : String) (ts : Ticket) : String → Option Member :=
  fun k' => if k' = k then some ⟨ts, ts⟩ else member k'

def idEff (p : Ticket) (B : Body) : Effect := ⟨p, B, none, none⟩

def flagOf (target ts : Ticket) : Option Ticket := if ts.after target then some target else none

/-- array-level transition of an operation (`remove` only checks that the target is held) -/
def arrStep : Op → ArrSt → Option ArrSt
  | .add _ prev _ ts => arrAdd prev ts
  | .move _ prev target ts => arrMove prev target ts
  | .arraySet _ target _ ts => arrSet target ts
  | .remove _ target _ => fun s => if holds s.nodes target then some s else none
  | _ => fun _ => none

/-- the heap cell an array operation creates -/
def Op.newCell : Op → Option (Ticket × Elem)
  | .add p _ v ts => some (ts, newElem p v)
  | .arraySet p _ v ts => some (ts, newElem p v)
  | _ => none

/-- the cell a remove / arraySet flags -/
def Op.flag : Op → Option Ticket
  | .remove _ target ts => flagOf target ts
  | .arraySet _ target _ ts => flagOf target ts
  | _ => none

def effObj (B : Body) (keys : List String) (member : String → Option Member) : Op → Effect
  | .set p k v ts =>
    match member k with
    | none => ⟨p, .obj (insertKey k keys) (setMem member k ts), some (ts, newElem p v), none⟩
    | some m =>
      if ts.after m.positionedAt then
        ⟨p, .obj keys (setMem member k ts), some (ts, newElem p v), some m.child⟩
      else ⟨p, B, some (ts, { newElem p v with removed := true }), none⟩
  | .remove p target ts => ⟨p, B, none, flagOf target ts⟩
  | op => idEff op.parent B

def effCounter (B : Body) (l : Bool) (v : Int) : Op → Effect
  | .increase p delta _ => ⟨p, .counter l (wrap l (v + delta)), none, none⟩
  | op => idEff op.parent B

def eff (B : Body) (op : Op) : Effect :=
  match B with
  | .obj keys member => effObj B keys member op
  | .arr nodes moved =>
    match arrStep op ⟨nodes, moved⟩ with
    | some a => ⟨op.parent, .arr a.nodes a.moved, op.newCell, op.flag⟩
    | none => idEff op.parent B
  | .counter l v => effCounter B l v op
  | _ => idEff op.parent B

theorem eff_p (B : Body) (op : Op) : (eff B op).p = op.parent := by
  unfold eff
  split
  · unfold effObj
    split
    · split
      · rfl
      · split <;> rfl
    · rfl
    · rfl
  · split <;> rfl
  · unfold effCounter; split <;> rfl
  · rfl

/-! ### success in terms of observations -/

/-- the ticket that must be a child of the parent -/
def Op.target? : Op → Option Ticket
  | .move _ _ t _ => some t
  | .remove _ t _ => some t
  | .arraySet _ t _ _ => some t
  | _ => none

def Op.okFor : Op → Kind → Bool
  | .set .., .obj => true
  | .remove .., .obj => true
  | .remove .., .arr => true
  | .add .., .arr => true
  | .move .., .arr => true
  | .arraySet .., .arr => true
  | .increase .., .counter => true
  | _, _ => false

def arrOk (hp hd : Ticket → Bool) : Op → Bool
  | .add _ prev _ _ => decide (prev = headId) || hp prev || hd prev
  | .move _ prev target _ => (decide (prev = headId) || hp prev) && hd target
  | .remove _ target _ => hd target
  | .arraySet _ target _ _ => hd target
  | _ => false

def childOk (child : Ticket → Bool) (op : Op) : Bool :=
  match op.target? with
  | some t => child t
  | none => true

def succB (B : Body) (child : Ticket → Bool) (op : Op) : Bool :=
  op.okFor B.kind && childOk child op && (B.kind != .arr || arrOk B.hasPos B.holds op)

theorem arrStep_isSome (op : Op) (s : ArrSt) :
    (arrStep op s).isSome = arrOk (hasPos s.nodes) (holds s.nodes) op := by
  cases op <;> simp only [arrStep, arrOk, arrAdd_isSome_bk, arrMove_isSome_bk, arrSet_isSome_bk]
  · simp
  · split <;> simp [*]
  · simp

/-- success of the executor -/
def Succ (d : Doc) (op : Op) : Prop :=
  ∃ pe, d op.parent = some pe ∧ succB pe.body (fun t => isChildOf d t op.parent) op = true

theorem Except.ok_or_error {ε α : Type} (x : Except ε α) : (∃ a, x = .ok a) ∨ ∃ e, x = .error e := by
  cases x <;> simp

theorem exec_ok_iff (d : Doc) (op : Op) : (∃ d', execute d op = .ok d') ↔ Succ d op := by
  unfold Succ
  cases op with
  | set p k v ts =>
    simp only [execute, applySet, Op.parent]
    cases hp : d p with
    | none => simp
    | some pe =>
      obtain ⟨par, rem, B⟩ := pe
      cases B <;>
        simp [succB, Op.okFor, Body.kind, childOk, Op.target?]
      rename_i keys member
      cases member k with
      | none => simp
      | some m => simp; split <;> simp
  | add p prev v ts =>
    simp only [execute, applyAdd, Op.parent]
    cases hp : d p with
    | none => simp
    | some pe =>
      obtain ⟨par, rem, B⟩ := pe
      cases B <;>
        simp [succB, Op.okFor, Body.kind, childOk, Op.target?]
      rename_i nodes moved
      have := arrAdd_isSome_bk prev ts ⟨nodes, moved⟩
      cases h : arrAdd prev ts ⟨nodes, moved⟩ <;>
        simp [h] at this <;> simp [arrOk, Body.hasPos, Body.holds] <;> grind
  | move p prev target ts =>
    simp only [execute, applyMove, Op.parent]
    cases hp : d p with
    | none => simp
    | some pe =>
      obtain ⟨par, rem, B⟩ := pe
      cases B <;>
        simp [succB, Op.okFor, Body.kind, childOk, Op.target?]
      rename_i nodes moved
      have := arrMove_isSome_bk prev target ts ⟨nodes, moved⟩
      cases hc : isChildOf d target p <;> simp
      cases h : arrMove prev target ts ⟨nodes, moved⟩ <;>
        simp [h] at this <;> simp [arrOk, Body.hasPos, Body.holds] <;> grind
  | remove p target ts =>
    simp only [execute, applyRemove, Op.parent]
    cases hp : d p with
    | none => simp
    | some pe =>
      obtain ⟨par, rem, B⟩ := pe
      cases B <;>
        simp [succB, Op.okFor, Body.kind, childOk, Op.target?, arrOk, Body.hasPos, Body.holds]
      · split <;> simp [*]
      · split <;> simp_all
  | arraySet p target v ts =>
    simp only [execute, applyArraySet, Op.parent]
    cases hp : d p with
    | none => simp
    | some pe =>
      obtain ⟨par, rem, B⟩ := pe
      cases B <;>
        simp [succB, Op.okFor, Body.kind, childOk, Op.target?]
      rename_i nodes moved
      have := arrSet_isSome_bk target ts ⟨nodes, moved⟩
      cases hc : isChildOf d target p <;> simp
      cases h : arrSet target ts ⟨nodes, moved⟩ <;>
        simp [h] at this <;> simp [arrOk, Body.hasPos, Body.holds] <;> grind
  | increase p delta ts =>
    simp only [execute, applyIncrease, Op.parent]
    cases hp : d p with
    | none => simp
    | some pe =>
      obtain ⟨par, rem, B⟩ := pe
      cases B <;>
        simp [succB, Op.okFor, Body.kind, childOk, Op.target?]

/-! ### `execute` in effect form -/

theorem markRemoved_apply (d : Doc) (f ts t : Ticket) :
    markRemoved d f ts t =
      (d t).map (fun e => ⟨e.parent, e.removed || (decide (t = f) && ts.after f), e.body⟩) := by
  unfold markRemoved
  cases hf : d f with
  | none =>
    by_cases h : t = f
    · subst h; simp [hf]
    · cases hdt : d t <;> simp [h, hdt]
  | some e =>
    simp only
    split
    · rename_i ha
      unfold Doc.set
      by_cases h : t = f
      · subst h; simp [hf, ha]
      · cases hdt : d t <;> simp [h, hdt]
    · rename_i ha
      cases hdt : d t <;> simp [ha, hdt]

theorem touch_id {E : Effect} {t : Ticket} {e : Elem} (h1 : E.flag ≠ some t) (h2 : t ≠ E.p) :
    E.touch t e = e := by
  simp [Effect.touch, h1, h2]

/-- hypotheses shared by the per-operation lemmas -/
structure Ready (d : Doc) (op : Op) (pe : Elem) : Prop where
  wf : WF d
  hp : d op.parent = some pe
  ok : succB pe.body (fun t => isChildOf d t op.parent) op = true
  fresh : ∀ i ∈ creates op, ¬ used d i

theorem Ready.none {d : Doc} {op : Op} {pe : Elem} (h : Ready d op pe) {i : Ticket}
    (hi : i ∈ creates op) : d i = none := by
  cases hd : d i with
  | none => rfl
  | some e => exact absurd (Or.inl (by simp [hd])) (h.fresh i hi)

theorem exec_increase {d : Doc} {p : Ticket} {delta : Int} {ts : Ticket} {pe : Elem}
    (h : Ready d (.increase p delta ts) pe) :
    execute d (.increase p delta ts) = .ok ((eff pe.body (.increase p delta ts)).run d) := by
  have hp := h.hp
  have hok := h.ok
  simp only [Op.parent] at hp
  obtain ⟨par, rem, B⟩ := pe
  cases B <;> simp [succB, Op.okFor, Body.kind] at hok
  rename_i l v
  simp only [execute, applyIncrease, hp, eff, effCounter]
  congr 1
  funext t
  simp only [Doc.set, Effect.run]
  by_cases ht : t = p
  · subst ht; simp [hp, Effect.touch]
  · simp only [ht, if_false]
    cases hdt : d t <;> simp [Effect.touch, ht, hdt]

theorem flagOf_eq (target ts t : Ticket) :
    decide (flagOf target ts = some t) = (decide (t = target) && ts.after target) := by
  unfold flagOf
  split
  · rename_i h; simp [h, eq_comm]
  · rename_i h; simp [h]

theorem exec_remove {d : Doc} {p target ts : Ticket} {pe : Elem}
    (h : Ready d (.remove p target ts) pe) :
    execute d (.remove p target ts) = .ok ((eff pe.body (.remove p target ts)).run d) := by
  have hp := h.hp
  have hok := h.ok
  simp only [Op.parent] at hp hok
  obtain ⟨par, rem, B⟩ := pe
  cases B <;> simp [succB, Op.okFor, Body.kind, childOk, Op.target?] at hok
  · rename_i keys member
    simp only [execute, applyRemove, hp, eff, effObj, hok, if_true]
    congr 1
    funext t
    simp only [Effect.run, markRemoved_apply]
    cases hdt : d t with
    | none => simp
    | some e =>
      simp only [Option.map_some, Effect.touch, flagOf_eq]
      by_cases ht : t = p
      · subst ht; rw [hp] at hdt; cases hdt; simp
      · simp [ht]
  · rename_i nodes moved
    simp only [arrOk, Body.holds] at hok
    simp only [execute, applyRemove, hp, eff, arrStep, hok, Bool.and_self, if_true, Op.parent,
      Op.newCell, Op.flag]
    congr 1
    funext t
    simp only [Effect.run, markRemoved_apply]
    cases hdt : d t with
    | none => simp
    | some e =>
      simp only [Option.map_some, Effect.touch, flagOf_eq]
      by_cases ht : t = p
      · subst ht; rw [hp] at hdt; cases hdt; simp
      · simp [ht]

theorem WF.member {d : Doc} (hw : WF d) {p : Ticket} {pe : Elem} {keys : List String}
    {member : String → Option Member} (hp : d p = some pe) (hb : pe.body = .obj keys member)
    {k : String} {m : Member} (hm : member k = some m) :
    m.positionedAt = m.child ∧ isChildOf d m.child p = true ∧ m.child ≠ p := by
  obtain ⟨hpar, hok, hch⟩ := hw p pe hp
  rw [hb] at hok hch
  have h1 := hok k m hm
  have h2 := hch m.child ⟨k, m, hm, rfl⟩
  refine ⟨h1, h2, ?_⟩
  intro e
  obtain ⟨e', he', hpar'⟩ := isChildOf_iff.1 h2
  rw [e, hp] at he'; cases he'
  exact hpar hpar'

theorem exec_set {d : Doc} {p : Ticket} {k : String} {v : Val} {ts : Ticket} {pe : Elem}
    (h : Ready d (.set p k v ts) pe) :
    execute d (.set p k v ts) = .ok ((eff pe.body (.set p k v ts)).run d) := by
  have hp := h.hp
  have hok := h.ok
  have hts : d ts = none := h.none (by simp [creates])
  simp only [Op.parent] at hp hok
  have hne : ts ≠ p := by intro e; rw [e, hp] at hts; cases hts
  obtain ⟨par, rem, B⟩ := pe
  cases B <;> simp [succB, Op.okFor, Body.kind, childOk, Op.target?] at hok
  rename_i keys member
  simp only [execute, applySet, hp, eff, effObj]
  cases hm : member k with
  | none =>
    simp only
    congr 1; funext t
    simp only [Effect.run, Doc.set]
    by_cases ht : t = p
    · subst ht; simp [hne.symm, hp, Effect.touch]; rfl
    · by_cases ht2 : t = ts
      · simp [ht2, hne]
      · simp only [ht, ht2, if_false]
        cases hdt : d t <;> simp [Effect.touch, ht]
  | some m =>
    obtain ⟨hpos, hchild, hmp⟩ := h.wf.member hp rfl hm
    have hmts : m.child ≠ ts := by
      intro e; obtain ⟨e', he', _⟩ := isChildOf_iff.1 hchild
      rw [e, hts] at he'; cases he'
    simp only
    split
    · rename_i hafter
      have hafter' : ts.after m.child = true := by rw [← hpos]; exact hafter
      congr 1; funext t
      simp only [Effect.run, Doc.set, markRemoved_apply, hafter', Bool.and_true]
      by_cases ht : t = p
      · subst ht; simp [hne.symm, hp, Effect.touch, hmp]; rfl
      · by_cases ht2 : t = ts
        · simp [ht2, hne]
        · simp only [ht, ht2, if_false]
          cases hdt : d t <;> simp [Effect.touch, ht, eq_comm]
    · congr 1; funext t
      simp only [Effect.run, Doc.set]
      by_cases ht2 : t = ts
      · simp [ht2]
      · simp only [ht2, if_false]
        cases hdt : d t with
        | none => simp
        | some e =>
          by_cases ht : t = p
          · subst ht; rw [hp] at hdt; cases hdt; simp [Effect.touch]
          · simp [Effect.touch, ht]

theorem exec_add {d : Doc} {p prev : Ticket} {v : Val} {ts : Ticket} {pe : Elem}
    (h : Ready d (.add p prev v ts) pe) :
    execute d (.add p prev v ts) = .ok ((eff pe.body (.add p prev v ts)).run d) := by
  have hp := h.hp
  have hok := h.ok
  have hts : d ts = none := h.none (by simp [creates])
  simp only [Op.parent] at hp hok
  have hne : ts ≠ p := by intro e; rw [e, hp] at hts; cases hts
  obtain ⟨par, rem, B⟩ := pe
  cases B <;> simp [succB, Op.okFor, Body.kind, childOk, Op.target?] at hok
  rename_i nodes moved
  simp only [arrOk, Body.hasPos, Body.holds] at hok
  have hs := arrAdd_isSome_bk prev ts ⟨nodes, moved⟩
  cases ha : arrAdd prev ts ⟨nodes, moved⟩ with
  | none => rw [ha] at hs; simp at hs; grind
  | some a =>
    simp only [execute, applyAdd, hp, eff, arrStep, ha, Op.parent, Op.newCell, Op.flag]
    congr 1; funext t
    simp only [Effect.run, Doc.set]
    by_cases ht : t = p
    · subst ht; simp [hne.symm, hp, Effect.touch]
    · by_cases ht2 : t = ts
      · simp [ht2, hne]
      · simp only [ht, ht2, if_false]
        cases hdt : d t <;> simp [Effect.touch, ht]

theorem exec_move {d : Doc} {p prev target ts : Ticket} {pe : Elem}
    (h : Ready d (.move p prev target ts) pe) :
    execute d (.move p prev target ts) = .ok ((eff pe.body (.move p prev target ts)).run d) := by
  have hp := h.hp
  have hok := h.ok
  simp only [Op.parent] at hp hok
  obtain ⟨par, rem, B⟩ := pe
  cases B <;> simp [succB, Op.okFor, Body.kind, childOk, Op.target?] at hok
  rename_i nodes moved
  simp only [arrOk, Body.hasPos, Body.holds] at hok
  have hs := arrMove_isSome_bk prev target ts ⟨nodes, moved⟩
  cases ha : arrMove prev target ts ⟨nodes, moved⟩ with
  | none => rw [ha] at hs; simp at hs; grind
  | some a =>
    simp only [execute, applyMove, hp, eff, arrStep, ha, Op.parent, Op.newCell, Op.flag, hok.1]
    simp only [Bool.not_true, Bool.false_eq_true, if_false]
    congr 1; funext t
    simp only [Effect.run, Doc.set]
    by_cases ht : t = p
    · subst ht; simp [hp, Effect.touch]
    · simp only [ht, if_false]
      cases hdt : d t <;> simp [Effect.touch, ht]

theorem WF.child_ne {d : Doc} (hw : WF d) {c p : Ticket} (h : isChildOf d c p = true) : c ≠ p := by
  intro e
  obtain ⟨e', he', hpar'⟩ := isChildOf_iff.1 h
  subst e
  exact (hw c e' he').1 hpar'

theorem exec_arraySet {d : Doc} {p target : Ticket} {v : Val} {ts : Ticket} {pe : Elem}
    (h : Ready d (.arraySet p target v ts) pe) :
    execute d (.arraySet p target v ts) = .ok ((eff pe.body (.arraySet p target v ts)).run d) := by
  have hp := h.hp
  have hok := h.ok
  have hts : d ts = none := h.none (by simp [creates])
  simp only [Op.parent] at hp hok
  have hne : ts ≠ p := by intro e; rw [e, hp] at hts; cases hts
  obtain ⟨par, rem, B⟩ := pe
  cases B <;> simp [succB, Op.okFor, Body.kind, childOk, Op.target?] at hok
  rename_i nodes moved
  simp only [arrOk, Body.hasPos, Body.holds] at hok
  have htp : target ≠ p := h.wf.child_ne hok.1
  have htt : target ≠ ts := by
    intro e; obtain ⟨e', he', _⟩ := isChildOf_iff.1 hok.1
    rw [e, hts] at he'; cases he'
  have hs := arrSet_isSome_bk target ts ⟨nodes, moved⟩
  cases ha : arrSet target ts ⟨nodes, moved⟩ with
  | none => rw [ha] at hs; simp at hs; grind
  | some a =>
    simp only [execute, applyArraySet, hp, eff, arrStep, ha, Op.parent, Op.newCell, Op.flag, hok.1]
    simp only [Bool.not_true, Bool.false_eq_true, if_false]
    congr 1; funext t
    simp only [Effect.run, Doc.set, markRemoved_apply]
    by_cases ht : t = p
    · subst ht; simp [hne.symm, hp, Effect.touch, flagOf_eq, htp.symm]
    · by_cases ht2 : t = ts
      · simp [ht2, hne, htt.symm]
      · simp only [ht, ht2, if_false]
        cases hdt : d t <;> simp [Effect.touch, ht, flagOf_eq]

/-- every successful operation is the run of its effect -/
theorem exec_eq_run {d : Doc} {op : Op} {pe : Elem} (h : Ready d op pe) :
    execute d op = .ok ((eff pe.body op).run d) := by
  cases op with
  | set => exact exec_set h
  | add => exact exec_add h
  | move => exact exec_move h
  | remove => exact exec_remove h
  | arraySet => exact exec_arraySet h
  | increase => exact exec_increase h

/-! ### validity of the effects -/

theorem arrStep_obs {op : Op} {s a : ArrSt} (hf : ∀ i ∈ creates op, hasPos s.nodes i = false)
    (h : arrStep op s = some a) :
    (∀ i, hasPos s.nodes i = true → hasPos a.nodes i = true) ∧
    (∀ i, holds s.nodes i = true → holds a.nodes i = true) ∧
    (∀ i, hasPos a.nodes i = true → hasPos s.nodes i = true ∨ i ∈ creates op) ∧
    (∀ i, holds a.nodes i = true → holds s.nodes i = true ∨ ∃ e, op.newCell = some (i, e)) ∧
    (∀ i ∈ creates op, hasPos a.nodes i = true) := by
  cases op with
  | set => simp [arrStep] at h
  | increase => simp [arrStep] at h
  | add p prev v ts =>
    obtain ⟨_, h1, h2⟩ := arrAdd_obs h
    simp [h1, h2, creates, Op.newCell]
    grind
  | arraySet p target v ts =>
    obtain ⟨_, h1, h2⟩ := arrSet_obs h
    simp [h1, h2, creates, Op.newCell]
    grind
  | move p prev target ts =>
    obtain ⟨h1, h2⟩ := arrMove_obs (hf ts (by simp [creates])) h
    simp [h1, h2, creates, Op.newCell]
    grind
  | remove p target ts =>
    simp only [arrStep] at h
    split at h
    · cases h; simp [creates]; intro i hi; exact Or.inl hi
    · cases h

theorem newCell_spec {op : Op} {t : Ticket} {e : Elem} (h : op.newCell = some (t, e)) :
    t ∈ creates op ∧ ∃ v, e = newElem op.parent v := by
  cases op <;> simp [Op.newCell] at h
  · obtain ⟨rfl, rfl⟩ := h; exact ⟨by simp [creates], _, rfl⟩
  · obtain ⟨rfl, rfl⟩ := h; exact ⟨by simp [creates], _, rfl⟩

theorem flag_spec {op : Op} {f : Ticket} (h : op.flag = some f) : op.target? = some f := by
  cases op <;> simp [Op.flag, flagOf] at h <;> simp [Op.target?, h.2]

theorem Ready.child {d : Doc} {op : Op} {pe : Elem} (h : Ready d op pe) {f : Ticket}
    (hf : op.target? = some f) : isChildOf d f op.parent = true := by
  have := h.ok
  simp only [succB, childOk, hf, Bool.and_eq_true] at this
  exact this.1.2

theorem valid_arr {d : Doc} {op : Op} {pe : Elem} {nodes : List PosNode}
    {moved : Ticket → Option Ticket} {a : ArrSt} (h : Ready d op pe)
    (hb : pe.body = .arr nodes moved) (ha : arrStep op ⟨nodes, moved⟩ = some a) :
    Valid ⟨op.parent, .arr a.nodes a.moved, op.newCell, op.flag⟩ d pe (creates op) := by
  have hfresh : ∀ i ∈ creates op, hasPos nodes i = false := by
    intro i hi
    cases hh : hasPos nodes i with
    | false => rfl
    | true =>
      exact absurd (Or.inr ⟨_, _, h.hp, Or.inl (by rw [hb]; exact hh)⟩) (h.fresh i hi)
  obtain ⟨o1, o2, o3, o4, o5⟩ := arrStep_obs (s := ⟨nodes, moved⟩) hfresh ha
  have hslots : ElemSlots nodes := by
    have := (h.wf _ _ h.hp).2.1; rw [hb] at this; exact this
  refine
    { hp := h.hp, kind := by rw [hb]; rfl, pos_mono := ?_, holds_mono := ?_, pos_new := ?_,
      holds_new := ?_, made := ?_, mk_ok := ?_, flag_ok := ?_, body_ok := ?_, children := ?_ }
  · rw [hb]; exact o1
  · rw [hb]; exact o2
  · rw [hb]; exact o3
  · rw [hb]; intro i hi
    rcases o4 i hi with h' | ⟨e, he⟩
    · exact Or.inl h'
    · exact Or.inr (newCell_spec he).1
  · intro i hi; exact Or.inr (o5 i hi)
  · intro ts e hm
    obtain ⟨h1, v, rfl⟩ := newCell_spec hm
    exact ⟨h1, h.none h1, rfl, v, rfl⟩
  · intro f hf
    exact h.child (flag_spec hf)
  · show ElemSlots a.nodes
    rw [elemSlots_iff_bk] at hslots ⊢
    intro e he
    rcases o4 e he with h' | ⟨e', he'⟩
    · exact o1 e (hslots e h')
    · exact o5 e (newCell_spec he').1
  · rw [hb]; exact o4

theorem valid_same_body {d : Doc} {p : Ticket} {pe : Elem} {C : List Ticket}
    {new : Option (Ticket × Elem)} {flag : Option Ticket} (hw : WF d) (hp : d p = some pe)
    (made : ∀ i ∈ C, ∃ e, new = some (i, e))
    (mk_ok : ∀ ts e, new = some (ts, e) →
      ts ∈ C ∧ d ts = none ∧ e.parent = some p ∧ ∃ v, e.body = Val.body v)
    (flag_ok : ∀ f, flag = some f → isChildOf d f p = true) :
    Valid ⟨p, pe.body, new, flag⟩ d pe C :=
  { hp := hp, kind := rfl, pos_mono := fun _ h => h, holds_mono := fun _ h => h,
    pos_new := fun _ h => Or.inl h, holds_new := fun _ h => Or.inl h,
    made := fun i hi => Or.inl (made i hi), mk_ok := mk_ok, flag_ok := flag_ok,
    body_ok := (hw _ _ hp).2.1, children := fun _ h => Or.inl h }

theorem valid_obj_set {d : Doc} {p : Ticket} {pe : Elem} {keys keys' : List String}
    {member : String → Option Member} {k : String} {v : Val} {ts : Ticket}
    {flag : Option Ticket} (hw : WF d) (hp : d p = some pe) (hb : pe.body = .obj keys member)
    (hts : d ts = none) (flag_ok : ∀ f, flag = some f → isChildOf d f p = true) :
    Valid ⟨p, .obj keys' (setMem member k ts), some (ts, newElem p v), flag⟩ d pe [ts] := by
  have hok := (hw _ _ hp).2.1
  rw [hb] at hok
  refine
    { hp := hp, kind := by rw [hb]; rfl, pos_mono := ?_, holds_mono := ?_, pos_new := ?_,
      holds_new := ?_, made := ?_, mk_ok := ?_, flag_ok := flag_ok, body_ok := ?_,
      children := ?_ }
  · rw [hb]; simp [Body.hasPos]
  · rw [hb]; simp [Body.holds]
  · simp [Body.hasPos]
  · simp [Body.holds]
  · intro i hi; simp at hi; subst hi; exact Or.inl ⟨_, rfl⟩
  · intro ts' e hm
    simp only [Option.some.injEq, Prod.mk.injEq] at hm
    obtain ⟨rfl, rfl⟩ := hm
    exact ⟨by simp, hts, rfl, v, rfl⟩
  · intro k' m' hm'
    simp only [setMem] at hm'
    split at hm'
    · cases hm'; rfl
    · exact hok k' m' hm'
  · intro c hc
    obtain ⟨k', m', hm', hc'⟩ := hc
    simp only [setMem] at hm'
    split at hm'
    · cases hm'; subst hc'; exact Or.inr ⟨_, rfl⟩
    · rw [hb]; exact Or.inl ⟨k', m', hm', hc'⟩

theorem valid_eff {d : Doc} {op : Op} {pe : Elem} (h : Ready d op pe) :
    Valid (eff pe.body op) d pe (creates op) := by
  have hok := h.ok
  have hp := h.hp
  obtain ⟨par, rem, B⟩ := pe
  cases B with
  | arr nodes moved =>
    have hs := arrStep_isSome op ⟨nodes, moved⟩
    simp [succB, Body.kind, Body.hasPos, Body.holds] at hok
    cases ha : arrStep op ⟨nodes, moved⟩ with
    | none =>
      have e1 : (Body.arr nodes moved).hasPos = hasPos nodes := by funext i; rfl
      have e2 : (Body.arr nodes moved).holds = holds nodes := by funext i; rfl
      rw [ha] at hs; rw [e1, e2] at hok; simp [hok.2] at hs
    | some a => simp only [eff, ha]; exact valid_arr h rfl ha
  | obj keys member =>
    cases op <;> simp [succB, Op.okFor, Body.kind] at hok
    · rename_i p k v ts
      simp only [Op.parent] at hp
      have hts : d ts = none := h.none (by simp [creates])
      simp only [eff, effObj, creates]
      cases hm : member k with
      | none =>
        simp only
        exact valid_obj_set h.wf hp rfl hts (by simp)
      | some m =>
        simp only
        split
        · refine valid_obj_set h.wf hp rfl hts ?_
          intro f hf; cases hf
          exact (h.wf.member hp rfl hm).2.1
        · refine valid_same_body h.wf hp ?_ ?_ (by simp)
          · intro i hi; simp at hi; subst hi; exact ⟨_, rfl⟩
          · intro ts' e hm
            simp only [Option.some.injEq, Prod.mk.injEq] at hm
            obtain ⟨rfl, rfl⟩ := hm
            exact ⟨by simp, hts, rfl, v, rfl⟩
    · rename_i p target ts
      simp only [Op.parent] at hp
      simp only [eff, effObj, creates]
      refine valid_same_body h.wf hp (by simp) (by simp) ?_
      intro f hf
      have : (Op.remove p target ts).flag = some f := hf
      exact h.child (flag_spec this)
  | counter l v =>
    cases op <;> simp [succB, Op.okFor, Body.kind] at hok
    rename_i p delta ts
    simp only [Op.parent] at hp
    simp only [eff, effCounter, creates]
    exact
      { hp := hp, kind := rfl, pos_mono := by simp [Body.hasPos],
        holds_mono := by simp [Body.holds], pos_new := by simp [Body.hasPos],
        holds_new := by simp [Body.holds], made := by simp, mk_ok := by simp,
        flag_ok := by simp, body_ok := by simp [Body.ok], children := by simp [Body.children] }
  | prim r => cases op <;> simp [succB, Op.okFor, Body.kind] at hok
  | «opaque» r => cases op <;> simp [succB, Op.okFor, Body.kind] at hok

end Yorkie.Crdt
