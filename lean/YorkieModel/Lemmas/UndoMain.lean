/-
Lemmas for C14, part 7: printed form after undo/redo of a run, hypotheses of the depth-1 theorems
(`Fresh`), executability from concrete hypotheses, a decidable checker for concrete runs.
-/
import YorkieModel.Lemmas.UndoHist
namespace Yorkie.Undo
open Yorkie Yorkie.Crdt

/-! ### printed form after undo / redo of a run -/

theorem undo_run_marshal {H : Home} {h : Hist} (w : WF H h.doc) (bd : Bounded h.doc h.lamport)
    (root : skel h.doc rootId = some false) (a b : List Edit)
    (ok : EditsOk H h (a ++ b)) (hb : b.length ≤ maxDepth) (fuel : Nat) :
    marshal (undoN b.length (runEdits h (a ++ b))).doc fuel rootId = marshal (runEdits h a).doc fuel rootId := by
  obtain ⟨w1, w2, e, hs⟩ := undoN_run_eqv w bd a b ok hb
  apply marshal_eqv w1 w2 e
  rw [e.live]
  exact live_of_skel ((hs rootId).trans root)

theorem redo_run_marshal {H : Home} {h : Hist} (w : WF H h.doc) (bd : Bounded h.doc h.lamport)
    (root : skel h.doc rootId = some false) (a b c : List Edit)
    (ok : EditsOk H h (a ++ (b ++ c))) (hb : (b ++ c).length ≤ maxDepth) (fuel : Nat) :
    marshal (redoN b.length (undoN (b ++ c).length (runEdits h (a ++ (b ++ c))))).doc fuel rootId =
      marshal (runEdits h (a ++ b)).doc fuel rootId := by
  obtain ⟨w1, w2, e, hs⟩ := redoN_run_eqv w bd a b c ok hb
  apply marshal_eqv w1 w2 e
  rw [e.live]
  exact live_of_skel ((hs rootId).trans root)

/-! ### choosing the home of a fresh ticket -/

def Home.update (H : Home) (ts p : Ticket) (k : String) : Home :=
  { par := fun t => if t = ts then some p else H.par t, key := fun t => if t = ts then k else H.key t }

theorem WF_update {H : Home} {d : Doc} {L : Int} (w : WF H d) (bd : Bounded d L)
    {ts : Ticket} (hts : L < ts.lamport) (p : Ticket) (k : String) : WF (H.update ts p k) d := by
  have hne : ∀ t e, d t = some e → t ≠ ts := fun t e he h => by
    have := bd.ent t e he; rw [h] at this; omega
  constructor
  · intro t e he
    simp only [Home.update, hne t e he, if_false]; exact w.par t e he
  · intro t e q he hq
    simp only [Home.update, hne t e he, if_false] at hq; exact w.parCont t e q he hq
  · exact w.objSorted
  · intro q qe keys m k' mm he hr hb hm
    have : mm.child ≠ ts := fun h => by
      have := bd.child _ _ _ _ _ _ he hb hm; rw [h] at this; omega
    simp only [Home.update, this, if_false]; exact w.objMem _ _ _ _ _ _ he hr hb hm
  · intro x xe nodes mv n c he hr hb hn hc
    have : c ≠ ts := fun h => by
      have := bd.elem _ _ _ _ _ _ he hb hn hc; rw [h] at this; omega
    simp only [Home.update, this, if_false]; exact w.arrMem _ _ _ _ _ _ he hr hb hn hc

/-- hypotheses of the depth-1 theorems on the state before the edit -/
structure Fresh (h : Hist) : Prop where
  wf : ∃ H, WF H h.doc
  bd : Bounded h.doc h.lamport
  root : skel h.doc rootId = some false


/-! ### depth 1, generic -/

theorem undo_do_edit {H : Home} {h : Hist} {e : Edit} (w : WF H h.doc) (bd : Bounded h.doc h.lamport)
    (root : skel h.doc rootId = some false) (g : GoodOp H noTw h.doc (e.op h.next)) (fuel : Nat) :
    marshal (undo (doEdit h e)).doc fuel rootId = marshal h.doc fuel rootId :=
  undo_run_marshal w bd root [] [e] ⟨g, trivial⟩ (by have := maxDepth_pos; show 1 ≤ maxDepth; omega) fuel

theorem redo_undo_do_edit {H : Home} {h : Hist} {e : Edit} (w : WF H h.doc) (bd : Bounded h.doc h.lamport)
    (root : skel h.doc rootId = some false) (g : GoodOp H noTw h.doc (e.op h.next)) (fuel : Nat) :
    marshal (redo (undo (doEdit h e))).doc fuel rootId = marshal (doEdit h e).doc fuel rootId :=
  redo_run_marshal w bd root [] [e] [] ⟨g, trivial⟩ (by have := maxDepth_pos; show 1 ≤ maxDepth; omega) fuel

/-! ### executability from concrete hypotheses -/

theorem absNode_of_obj {d : Doc} {p : Ticket} {pe : Elem} {keys : List String} {member : String → Option Member}
    (hd : d p = some pe) (hr : pe.removed = false) (hb : pe.body = .obj keys member) :
    absNode d p = some (.obj (liveMember d member)) := by
  simp [absNode, hd, hr, hb, absBody]

theorem absNode_of_leaf {d : Doc} {c : Ticket} {ce : Elem} (hd : d c = some ce) (hr : ce.removed = false)
    (hl : leafBody ce.body = true) : absNode d c = some (absLeaf ce.body) := by
  simp [absNode, hd, hr, absBody_leaf d hl]

theorem live_elem {d : Doc} {c : Ticket} (h : live d c = true) : ∃ ce, d c = some ce ∧ ce.removed = false := by
  obtain ⟨e, hd, hr, _⟩ := absNode_live h
  exact ⟨e, hd, hr⟩

/-- a `Set` of a new leaf value (the key is free, or holds a tombstone, or holds a live leaf) -/
theorem goodSet_new {H : Home} {tw : Ticket → Bool} {d : Doc} {p ts : Ticket} {k : String} {v : Val}
    {pe : Elem} {keys : List String} {member : String → Option Member}
    (hd : d p = some pe) (hb : pe.body = .obj keys member) (horph : orphaned d tw orphanFuel p = false)
    (hv : leafBody v.body = true) (hkey : H.key ts = k) (hpar : H.par ts = some p)
    (hfresh : d ts = none) (htw : tw ts = false)
    (hold : ∀ c, liveMember d member k = some c → (∃ ce, d c = some ce ∧ leafBody ce.body = true) ∧ tw c = false) :
    GoodOp H tw d (.set p k (UVal.ofVal v ts) ts) := by
  have hr := (orphaned_root_removed (n := 63) horph hd).1
  refine ⟨liveMember d member, ⟨absNode_of_obj hd hr hb, horph, hv, rfl, rfl, hkey, hpar, htw, ?_, ?_, ?_⟩⟩
  · simp [absNode, UVal.ofVal, hfresh]
  · simp [skel, UVal.ofVal, hfresh]
  · intro c hc
    obtain ⟨⟨ce, hce, hcl⟩, htc⟩ := hold c hc
    obtain ⟨hlv, _⟩ := liveMember_some hc
    obtain ⟨ce', hce', hcr⟩ := live_elem hlv
    rw [hce] at hce'; injection hce' with hce'; subst hce'
    exact ⟨⟨_, absNode_of_leaf hce hcr hcl, absLeaf_isLeaf hcl⟩, htc⟩

/-- a `Remove` of the live leaf winner `u` of key `k` -/
theorem goodRemove_of {H : Home} {tw : Ticket → Bool} {d : Doc} {p u ts : Ticket} {k : String}
    {pe ue : Elem} {keys : List String} {member : String → Option Member} (w : WF H d)
    (hd : d p = some pe) (hb : pe.body = .obj keys member) (horph : orphaned d tw orphanFuel p = false)
    (hk : liveMember d member k = some u) (hu : d u = some ue) (hl : leafBody ue.body = true)
    (htw : tw u = false) : GoodOp H tw d (.remove p u ts) := by
  have hr := (orphaned_root_removed (n := 63) horph hd).1
  obtain ⟨hlv, mm, hmm, hmc⟩ := liveMember_some hk
  obtain ⟨ue', hue', hur⟩ := live_elem hlv
  rw [hu] at hue'; injection hue' with hue'; subst hue'
  have hkey : H.key u = k := by rw [← hmc]; exact (w.objMem _ _ _ _ _ _ hd hr hb hmm).2.1
  exact ⟨liveMember d member, ⟨absNode_of_obj hd hr hb, horph, by rw [hkey]; exact hk,
    ⟨_, absNode_of_leaf hu hur hl, absLeaf_isLeaf hl⟩, htw⟩⟩

theorem goodIncrease_of {H : Home} {tw : Ticket → Bool} {d : Doc} {c ts : Ticket} {ce : Elem} {l : Bool}
    {v delta : Int} (hd : d c = some ce) (hr : ce.removed = false) (hb : ce.body = .counter l v)
    (hdelta : wrap l delta = delta) (hv : wrap l v = v) : GoodOp H tw d (.increase c delta ts) :=
  ⟨l, v, by simp [absNode, hd, hr, hb, absBody], hdelta, hv⟩


theorem fresh_home {h : Hist} (fr : Fresh h) (p : Ticket) (k : String) :
    ∃ H, WF H h.doc ∧ H.key h.next = k ∧ H.par h.next = some p := by
  obtain ⟨H, w⟩ := fr.wf
  exact ⟨H.update h.next p k, WF_update w fr.bd (by simp only [Hist.next]; omega) p k,
    by simp [Home.update], by simp [Home.update]⟩

theorem fresh_next {h : Hist} (fr : Fresh h) : h.doc h.next = none ∧ noTw h.next = false := by
  refine ⟨?_, rfl⟩
  cases hd : h.doc h.next with
  | none => rfl
  | some e => have := fr.bd.ent _ _ hd; simp only [Hist.next] at this; omega

/-- the hypotheses of the depth-1 theorems hold again after a run of edits of the alphabet -/
theorem fresh_run {H : Home} : ∀ (es : List Edit) (h : Hist), WF H h.doc → Fresh h → EditsOk H h es →
    Fresh (runEdits h es) ∧ WF H (runEdits h es).doc
  | [], _, w, fr, _ => ⟨fr, w⟩
  | e :: es, h, w, fr, ok => by
    obtain ⟨r, _, _, hsk, i⟩ := inv_doEdit (e := e) (inv_init w fr.bd) ok.1
    apply fresh_run es (doEdit h e) i.wf ?_ ok.2
    exact ⟨⟨H, i.wf⟩, i.bd, (hsk rootId).trans fr.root⟩

/-! ### decidable executability (for concrete runs) -/

def checkOld (d : Doc) (tw : Ticket → Bool) (o : Option Ticket) : Bool :=
  match o with
  | none => true
  | some c =>
    match d c with
    | some ce => leafBody ce.body && !tw c
    | none => false

def checkOp (H : Home) (tw : Ticket → Bool) (d : Doc) : UOp → Bool
  | .set p k val _ =>
    match d p with
    | some pe =>
      match pe.body with
      | .obj _ member =>
        !orphaned d tw orphanFuel p && leafBody val.body && val.sub.isEmpty && !val.removed &&
        H.key val.id == k && H.par val.id == some p && !tw val.id && !live d val.id &&
        (skel d val.id).isNone && checkOld d tw (liveMember d member k)
      | _ => false
    | none => false
  | .remove p u _ =>
    match d p with
    | some pe =>
      match pe.body with
      | .obj _ member =>
        !orphaned d tw orphanFuel p && liveMember d member (H.key u) == some u && checkOld d tw (some u)
      | _ => false
    | none => false
  | .increase c delta _ =>
    match d c with
    | some ce =>
      match ce.body with
      | .counter l v => !ce.removed && wrap l delta == delta && wrap l v == v
      | _ => false
    | none => false
  | _ => false

theorem checkOld_some {d : Doc} {tw : Ticket → Bool} {c : Ticket} (h : checkOld d tw (some c) = true) :
    (∃ ce, d c = some ce ∧ leafBody ce.body = true) ∧ tw c = false := by
  unfold checkOld at h
  cases hd : d c with
  | none => simp [hd] at h
  | some ce => simp only [hd, Bool.and_eq_true, Bool.not_eq_true'] at h; exact ⟨⟨ce, rfl, h.1⟩, h.2⟩

theorem checkOp_good {H : Home} {tw : Ticket → Bool} {d : Doc} {op : UOp} (h : checkOp H tw d op = true) :
    GoodOp H tw d op := by
  cases op with
  | set p k val ts =>
    unfold checkOp at h
    cases hd : d p with
    | none => simp [hd] at h
    | some pe =>
      cases hb : pe.body <;> simp only [hd, hb, Bool.false_eq_true] at h
      rename_i keys member
      simp only [Bool.and_eq_true, Bool.not_eq_true', beq_iff_eq, List.isEmpty_iff, Option.isNone_iff_eq_none] at h
      obtain ⟨⟨⟨⟨⟨⟨⟨⟨⟨h1, h2⟩, h3⟩, h4⟩, h5⟩, h6⟩, h7⟩, h8⟩, h9⟩, h10⟩ := h
      have hr := (orphaned_root_removed (n := 63) h1 hd).1
      refine ⟨liveMember d member, ⟨absNode_of_obj hd hr hb, h1, h2, h3, h4, h5, h6, h7,
        absNode_none_iff.2 h8, h9, ?_⟩⟩
      intro c hc
      rw [hc] at h10
      obtain ⟨⟨ce, hce, hcl⟩, htc⟩ := checkOld_some h10
      obtain ⟨hlv, _⟩ := liveMember_some hc
      obtain ⟨ce', hce', hcr⟩ := live_elem hlv
      rw [hce] at hce'; injection hce' with hce'; subst hce'
      exact ⟨⟨_, absNode_of_leaf hce hcr hcl, absLeaf_isLeaf hcl⟩, htc⟩
  | remove p u ts =>
    unfold checkOp at h
    cases hd : d p with
    | none => simp [hd] at h
    | some pe =>
      cases hb : pe.body <;> simp only [hd, hb, Bool.false_eq_true] at h
      rename_i keys member
      simp only [Bool.and_eq_true, Bool.not_eq_true', beq_iff_eq] at h
      obtain ⟨⟨h1, h2⟩, h3⟩ := h
      have hr := (orphaned_root_removed (n := 63) h1 hd).1
      obtain ⟨⟨ue, hue, hul⟩, htu⟩ := checkOld_some h3
      obtain ⟨hlv, _⟩ := liveMember_some h2
      obtain ⟨ue', hue', hur⟩ := live_elem hlv
      rw [hue] at hue'; injection hue' with hue'; subst hue'
      exact ⟨liveMember d member, ⟨absNode_of_obj hd hr hb, h1, h2,
        ⟨_, absNode_of_leaf hue hur hul, absLeaf_isLeaf hul⟩, htu⟩⟩
  | increase c delta ts =>
    unfold checkOp at h
    cases hd : d c with
    | none => simp [hd] at h
    | some ce =>
      cases hb : ce.body <;> simp only [hd, hb, Bool.false_eq_true] at h
      simp only [Bool.and_eq_true, Bool.not_eq_true', beq_iff_eq] at h
      exact goodIncrease_of hd h.1.1 hb h.1.2 h.2
  | add => simp [checkOp] at h
  | move => simp [checkOp] at h
  | arraySet => simp [checkOp] at h

def checkRun (H : Home) : Hist → List Edit → Bool
  | _, [] => true
  | h, e :: es => checkOp H noTw h.doc (e.op h.next) && checkRun H (doEdit h e) es

theorem checkRun_ok {H : Home} : ∀ {es : List Edit} {h : Hist}, checkRun H h es = true → EditsOk H h es
  | [], _, _ => trivial
  | _ :: _, _, hc => by
    simp only [checkRun, Bool.and_eq_true] at hc
    exact ⟨checkOp_good hc.1, checkRun_ok hc.2⟩

/-! ### the initial document -/

theorem WF_init {H : Home} (hr : H.par rootId = none) : WF H Doc.init := by
  have key : ∀ t e, Doc.init t = some e → t = rootId ∧ e = ⟨none, false, emptyObj⟩ := by
    intro t e h
    unfold Doc.init at h
    split at h
    · exact ⟨‹_›, (Option.some.inj h).symm⟩
    · cases h
  constructor
  · intro t e h; obtain ⟨rfl, rfl⟩ := key t e h; exact hr.symm
  · intro t e q h hq; obtain ⟨rfl, rfl⟩ := key t e h; rw [hr] at hq; cases hq
  · intro p pe keys m h hb; obtain ⟨rfl, rfl⟩ := key p pe h
    simp only [emptyObj, Body.obj.injEq] at hb; rw [← hb.1]; exact List.Pairwise.nil
  · intro p pe keys m k mm h _ hb hm; obtain ⟨rfl, rfl⟩ := key p pe h
    simp only [emptyObj, Body.obj.injEq] at hb; rw [← hb.2] at hm; cases hm
  · intro p pe nodes mv n c h _ hb; obtain ⟨rfl, rfl⟩ := key p pe h
    simp [emptyObj] at hb

theorem Bounded_init : Bounded Doc.init 0 := by
  have key : ∀ t e, Doc.init t = some e → t = rootId ∧ e = ⟨none, false, emptyObj⟩ := by
    intro t e h
    unfold Doc.init at h
    split at h
    · exact ⟨‹_›, (Option.some.inj h).symm⟩
    · cases h
  constructor
  · intro t e h; obtain ⟨rfl, rfl⟩ := key t e h; simp [rootId]
  · intro p pe keys m k mm h hb hm; obtain ⟨rfl, rfl⟩ := key p pe h
    simp only [emptyObj, Body.obj.injEq] at hb; rw [← hb.2] at hm; cases hm
  · intro p pe keys m k mm h hb hm; obtain ⟨rfl, rfl⟩ := key p pe h
    simp only [emptyObj, Body.obj.injEq] at hb; rw [← hb.2] at hm; cases hm
  · intro p pe nodes mv n c h hb; obtain ⟨rfl, rfl⟩ := key p pe h
    simp [emptyObj] at hb

theorem skel_init : skel Doc.init rootId = some false := by
  simp [skel, Doc.init, emptyObj, leafBody]

/-! ### readable hypotheses for the depth-1 theorems -/

/-- `Object.Get(k)`: the live winner of key `k` of the object `p` -/
def winner (d : Doc) (p : Ticket) (k : String) : Option Ticket :=
  match d p with
  | some pe =>
    match pe.body with
    | .obj _ member => liveMember d member k
    | _ => none
  | none => none

/-- the entry exists and is a primitive, counter or opaque element -/
def isLeafAt (d : Doc) (u : Ticket) : Bool :=
  match d u with
  | some ue => leafBody ue.body
  | none => false

theorem isObj_winner {d : Doc} {p : Ticket} (h : isObj d p = true) (k : String) :
    ∃ pe keys member, d p = some pe ∧ pe.body = .obj keys member ∧ winner d p k = liveMember d member k := by
  unfold isObj at h
  unfold winner
  cases hd : d p with
  | none => simp [hd] at h
  | some pe =>
    cases hb : pe.body <;> simp only [hd, hb, Bool.false_eq_true] at h
    exact ⟨pe, _, _, rfl, hb, by simp only [hb]⟩

theorem isLeafAt_some {d : Doc} {u : Ticket} (h : isLeafAt d u = true) : ∃ ue, d u = some ue ∧ leafBody ue.body = true := by
  unfold isLeafAt at h
  cases hd : d u with
  | none => simp [hd] at h
  | some ue => simp only [hd] at h; exact ⟨ue, rfl, h⟩

/-- `Set` of a new leaf value on a free key or over a live leaf -/
theorem good_set_of_fresh {h : Hist} (fr : Fresh h) {p : Ticket} {k : String} {v : Val}
    (hp : isObj h.doc p = true) (horph : orphaned h.doc noTw orphanFuel p = false)
    (hv : leafBody v.body = true)
    (hold : ∀ u, winner h.doc p k = some u → isLeafAt h.doc u = true) :
    ∃ H, WF H h.doc ∧ GoodOp H noTw h.doc ((Edit.set p k v).op h.next) := by
  obtain ⟨H, w, hkey, hpar⟩ := fresh_home fr p k
  obtain ⟨pe, keys, member, hd, hb, hw⟩ := isObj_winner hp k
  obtain ⟨hf, htw⟩ := fresh_next fr
  refine ⟨H, w, goodSet_new hd hb horph hv hkey hpar hf htw ?_⟩
  intro c hc
  exact ⟨isLeafAt_some (hold c (hw ▸ hc)), rfl⟩

theorem good_remove_of_fresh {h : Hist} (fr : Fresh h) {p u : Ticket} {k : String}
    (hp : isObj h.doc p = true) (horph : orphaned h.doc noTw orphanFuel p = false)
    (hk : winner h.doc p k = some u) (hl : isLeafAt h.doc u = true) :
    ∃ H, WF H h.doc ∧ GoodOp H noTw h.doc ((Edit.remove p u).op h.next) := by
  obtain ⟨H, w⟩ := fr.wf
  obtain ⟨pe, keys, member, hd, hb, hw⟩ := isObj_winner hp k
  obtain ⟨ue, hu, hul⟩ := isLeafAt_some hl
  exact ⟨H, w, goodRemove_of w hd hb horph (hw ▸ hk) hu hul rfl⟩

end Yorkie.Undo
