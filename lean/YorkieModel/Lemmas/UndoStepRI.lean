/-
Lemmas for C14, part 4: concrete effect of `Remove` of a leaf member and of `Increase`.
-/
import YorkieModel.Lemmas.UndoStep
namespace Yorkie.Undo
open Yorkie Yorkie.Crdt

/-! ### concrete effect of `Remove` of a leaf member -/

theorem kill_some {d : Doc} {o : Option Ticket} {t : Ticket} {e' : Elem} (h : kill d o t = some e') :
    ∃ e, d t = some e ∧ e'.body = e.body ∧ e'.parent = e.parent := by
  unfold kill at h
  split at h
  · cases hd : d t with
    | none => simp [hd] at h
    | some e => simp only [hd, Option.map_some, Option.some.injEq] at h; subst h; exact ⟨e, rfl, rfl, rfl⟩
  · exact ⟨e', h, rfl, rfl⟩

theorem kill_live {d : Doc} {o : Option Ticket} {t : Ticket} {e' : Elem} (h : kill d o t = some e')
    (hr : e'.removed = false) : d t = some e' := by
  unfold kill at h
  split at h
  · cases hd : d t with
    | none => simp [hd] at h
    | some e => simp only [hd, Option.map_some, Option.some.injEq] at h; subst h; simp at hr
  · exact h

theorem kill_isSome (d : Doc) (o : Option Ticket) (t : Ticket) : (kill d o t).isSome = (d t).isSome := by
  unfold kill; split <;> simp

theorem isContainer_kill (d : Doc) (o : Option Ticket) (q : Ticket) : isContainer (kill d o) q = isContainer d q := by
  unfold isContainer kill
  by_cases h : o = some q
  · simp only [h, if_true]
    cases d q <;> rfl
  · simp only [h, if_false]

theorem WF_kill {H : Home} {d : Doc} (w : WF H d) (o : Option Ticket) : WF H (kill d o) := by
  constructor
  · intro t e' h
    obtain ⟨e, hd, _, hp⟩ := kill_some h
    rw [hp]; exact w.par _ _ hd
  · intro t e' q h hq
    obtain ⟨e, hd, _, _⟩ := kill_some h
    rw [isContainer_kill]; exact w.parCont _ _ _ hd hq
  · intro q qe keys m h hb
    obtain ⟨e, hd, hbe, _⟩ := kill_some h
    exact w.objSorted _ _ _ _ hd (hbe ▸ hb)
  · intro q qe keys m k mm h hr hb hm
    exact w.objMem _ _ _ _ _ _ (kill_live h hr) hr hb hm
  · intro q qe nodes mv n c h hr hb hn hc
    exact w.arrMem _ _ _ _ _ _ (kill_live h hr) hr hb hn hc

theorem Bounded_kill {d : Doc} {L : Int} (bd : Bounded d L) (o : Option Ticket) : Bounded (kill d o) L := by
  constructor
  · intro t e' h
    obtain ⟨e, hd, _, _⟩ := kill_some h
    exact bd.ent _ _ hd
  · intro q qe keys m k mm h hb hm
    obtain ⟨e, hd, hbe, _⟩ := kill_some h
    exact bd.pos _ _ _ _ _ _ hd (hbe ▸ hb) hm
  · intro q qe keys m k mm h hb hm
    obtain ⟨e, hd, hbe, _⟩ := kill_some h
    exact bd.child _ _ _ _ _ _ hd (hbe ▸ hb) hm
  · intro q qe nodes mv n c h hb hn hc
    obtain ⟨e, hd, hbe, _⟩ := kill_some h
    exact bd.elem _ _ _ _ _ _ hd (hbe ▸ hb) hn hc

theorem Bounded.mono {d : Doc} {L L' : Int} (bd : Bounded d L) (h : L ≤ L') : Bounded d L' :=
  ⟨fun t e he => by have := bd.ent t e he; omega,
   fun p pe keys m k mm a b c => by have := bd.pos p pe keys m k mm a b c; omega,
   fun p pe keys m k mm a b c => by have := bd.child p pe keys m k mm a b c; omega,
   fun x xe nodes mv n c a b hn hc => by have := bd.elem x xe nodes mv n c a b hn hc; omega⟩

theorem live_kill (d : Doc) (u t : Ticket) : live (kill d (some u)) t = if t = u then false else live d t := by
  unfold live kill
  by_cases h : t = u
  · subst h
    cases d t <;> simp
  · have : ¬ (u = t) := fun h' => h h'.symm
    simp [h, this]

/-- side conditions of a `Remove` of a live leaf member of a live, reachable object -/
structure GoodRemove (H : Home) (tw : Ticket → Bool) (d : Doc) (p u : Ticket)
    (f : String → Option Ticket) : Prop where
  hp : absNode d p = some (.obj f)
  horph : orphaned d tw orphanFuel p = false
  hk : f (H.key u) = some u
  hleaf : ∃ b, absNode d u = some b ∧ b.isLeaf = true
  htw : tw u = false

section removeEffect
variable {H : Home} {tw : Ticket → Bool} {d : Doc} {p u : Ticket}
  {f : String → Option Ticket} {pe : Elem} {keys : List String} {member : String → Option Member}
  {ts : Ticket}

theorem absNode_kill (w : WF H d) (g : GoodRemove H tw d p u f) (hd : d p = some pe)
    (hr : pe.removed = false) (hb : pe.body = .obj keys member) (hf : f = liveMember d member) :
    absNode (kill d (some u)) = aremove (absNode d) p (H.key u) u := by
  obtain ⟨b, hbu, hbl⟩ := g.hleaf
  obtain ⟨ce, hce, hcr, hcl, _⟩ := absNode_leaf hbu hbl
  have hpu : p ≠ u := by
    intro h; subst h; rw [hd] at hce; injection hce with hce; subst hce; simp [hb, leafBody] at hcl
  obtain ⟨_, hparu, _⟩ := fk_home w hd hr hb hf g.hk
  funext t
  simp only [aremove, g.hp]
  by_cases h1 : t = u
  · subst h1
    simp only [if_true]
    rw [absNode_none_iff, live_kill]; simp
  · simp only [h1, if_false]
    have hdt : kill d (some u) t = d t := by
      unfold kill
      have : ¬ (u = t) := fun h' => h1 h'.symm
      simp [this]
    by_cases h2 : t = p
    · subst h2
      simp only [if_true, absNode, hdt, hd, hr, Bool.false_eq_true, if_false, hb, absBody]
      congr 2
      funext k'
      rw [liveMember_eq]
      subst hf
      by_cases hk : k' = H.key u
      · subst hk
        obtain ⟨_, mm, hmm, hmc⟩ := liveMember_some g.hk
        simp [hmm, hmc, live_kill]
      · simp only [hk, if_false]
        rw [liveMember_eq]
        cases hm : member k' with
        | none => rfl
        | some mm =>
          have : mm.child ≠ u := by
            intro h
            have := (w.objMem _ _ _ _ _ _ hd hr hb hm).2.1
            rw [h] at this; exact hk this.symm
          simp [live_kill, this]
    · simp only [h2, if_false]
      unfold absNode
      rw [hdt]
      cases hdt' : d t with
      | none => rfl
      | some e =>
        simp only []
        cases hre : e.removed with
        | true => rfl
        | false =>
        simp only [Bool.false_eq_true, if_false]
        congr 1
        apply absBody_congr
        · intro keys' m' k' mm hbe hmm
          have : mm.child ≠ u := by
            intro h
            have := (w.objMem _ _ _ _ _ _ hdt' hre hbe hmm).2.2
            rw [h, hparu] at this; injection this with this; exact h2 this.symm
          simp [live_kill, this]
        · intro nodes mv n c hbe hn hc
          have : c ≠ u := by
            intro h
            have := w.arrMem _ _ _ _ _ _ hdt' hre hbe hn hc
            rw [h, hparu] at this; injection this with this; exact h2 this.symm
          simp [live_kill, this]

theorem skel_kill_leaf {c : Ticket} (hc : skel d c = none) (t : Ticket) : skel (kill d (some c)) t = skel d t := by
  unfold skel kill
  by_cases h : c = t
  · subst h
    cases hd : d c with
    | none => simp
    | some e =>
      have := skel_none_iff.1 hc e hd
      simp [this]
  · simp [h]

theorem orphaned_succ_some {d : Doc} {tw : Ticket → Bool} {n : Nat} {t q : Ticket} {e : Elem} (h : d t = some e)
    (hp : e.parent = some q) : orphaned d tw (n + 1) t = (e.removed || tw t || orphaned d tw n q) := by
  rw [orphaned]; simp only [h, hp]

/-- the reverse operation of a `Remove` of a leaf member -/
def removeRev (H : Home) (d : Doc) (p u ts : Ticket) : UOp :=
  match d u with
  | some ce => .set p (H.key u) { id := u, removed := false, body := ce.body, sub := [] } ts
  | none => .remove p u ts

theorem keyOf_home (w : WF H d) (hd : d p = some pe) (hr : pe.removed = false) (hb : pe.body = .obj keys member)
    {mm : Member} (hm : member (H.key u) = some mm) (hc : mm.child = u) :
    keyOf keys member u = some (H.key u) := by
  unfold keyOf
  cases hfind : keys.find? (fun k => memberChild member k == some u) with
  | none =>
    rw [List.find?_eq_none] at hfind
    have := hfind (H.key u) (w.objMem _ _ _ _ _ _ hd hr hb hm).1
    simp [memberChild, hm, hc] at this
  | some k' =>
    have := List.find?_some hfind
    simp only [memberChild, beq_iff_eq, Option.map_eq_some_iff] at this
    obtain ⟨m', hm', hc'⟩ := this
    have := (w.objMem _ _ _ _ _ _ hd hr hb hm').2.1
    rw [hc'] at this; rw [this]

theorem uexecute_remove {L : Int} {src : Source} (w : WF H d) (bd : Bounded d L) (hL : L < ts.lamport)
    (g : GoodRemove H tw d p u f) (hsrc : src.needsReverse = true)
    (hd : d p = some pe) (hr : pe.removed = false) (hb : pe.body = .obj keys member)
    (hf : f = liveMember d member) :
    uexecute d tw src (.remove p u ts) = .ok (kill d (some u), some (removeRev H d p u ts)) := by
  obtain ⟨b, hbu, hbl⟩ := g.hleaf
  obtain ⟨ce, hce, hcr, hcl, _⟩ := absNode_leaf hbu hbl
  obtain ⟨_, hparu, _⟩ := fk_home w hd hr hb hf g.hk
  have hcont : isContainer d p = true := by simp [isContainer, hd, hb]
  have horph : orphaned d tw orphanFuel u = false := by
    have h63 : orphaned d tw 63 p = false := orphaned_mono d tw 63 p g.horph
    rw [show orphanFuel = 63 + 1 from rfl, orphaned_succ_some hce ((w.par _ _ hce).trans hparu), hcr, g.htw, h63]
    rfl
  have hrev : reverseRemove d p u ts = .ok (some (removeRev H d p u ts)) := by
    subst hf
    obtain ⟨_, mm, hmm, hmc⟩ := liveMember_some g.hk
    unfold reverseRemove removeRev
    simp only [capture_leaf hce hcl, hd, hb, keyOf_home w hd hr hb hmm hmc, hce, hcr]
  have happ : applyRemove d p u ts = .ok (kill d (some u)) := by
    unfold applyRemove
    have : isChildOf d u p = true := by simp [isChildOf, hce, w.par _ _ hce, hparu]
    simp only [hd, hb, this, if_true]
    rw [markRemoved_eq_kill]
    intro e he
    exact after_of_lamport (by have := bd.ent _ _ he; omega)
  simp only [uexecute, hcont, Bool.not_true, Bool.false_eq_true, if_false, horph, Bool.and_false, hsrc, if_true,
    hrev, happ]
  rfl

end removeEffect



/-! ### concrete effect of `Increase` -/

section incEffect
variable {H : Home} {d : Doc} {c : Ticket} {ce : Elem} {b' : Body}

theorem live_setLeaf (hd : d c = some ce) (t : Ticket) :
    live (d.set c { ce with body := b' }) t = live d t := by
  unfold live
  rw [set_apply]
  by_cases h : t = c
  · subst h; simp [hd]
  · simp [h]

theorem absNode_setLeaf (hd : d c = some ce) (hl' : leafBody b' = true) (t : Ticket) :
    absNode (d.set c { ce with body := b' }) t =
      if t = c then (if ce.removed then none else some (absLeaf b')) else absNode d t := by
  by_cases h : t = c
  · subst h
    simp [absNode, set_apply, absBody_leaf _ hl']
  · simp only [h, if_false]
    unfold absNode
    rw [set_apply]
    simp only [h, if_false]
    cases hdt : d t with
    | none => rfl
    | some e =>
      simp only []
      congr 2
      apply absBody_congr
      · intros; exact live_setLeaf hd _
      · intros; exact live_setLeaf hd _

theorem skel_setLeaf (hd : d c = some ce) (hl : leafBody ce.body = true) (hl' : leafBody b' = true) (t : Ticket) :
    skel (d.set c { ce with body := b' }) t = skel d t := by
  unfold skel
  rw [set_apply]
  by_cases h : t = c
  · subst h; simp [hd, hl, hl']
  · simp [h]

theorem setLeaf_some (hd : d c = some ce) (hl : leafBody ce.body = true) (hl' : leafBody b' = true)
    {t : Ticket} {e' : Elem} (h : (d.set c { ce with body := b' }) t = some e') :
    ∃ e, d t = some e ∧ e'.parent = e.parent ∧ (e'.body = e.body ∨ leafBody e'.body = true) := by
  rw [set_apply] at h
  by_cases h1 : t = c
  · subst h1
    simp only [if_true, Option.some.injEq] at h
    subst h
    exact ⟨ce, hd, rfl, Or.inr hl'⟩
  · simp only [h1, if_false] at h
    exact ⟨e', h, rfl, Or.inl rfl⟩

theorem WF_setLeaf (w : WF H d) (hd : d c = some ce) (hl : leafBody ce.body = true) (hl' : leafBody b' = true) :
    WF H (d.set c { ce with body := b' }) := by
  have hsk := skel_setLeaf (b' := b') hd hl hl'
  constructor
  · intro t e' h
    obtain ⟨e, hdt, hp, _⟩ := setLeaf_some hd hl hl' h
    rw [hp]; exact w.par _ _ hdt
  · intro t e' q h hq
    obtain ⟨e, hdt, _, _⟩ := setLeaf_some hd hl hl' h
    rw [isContainer_of_skel hsk]; exact w.parCont _ _ _ hdt hq
  · intro q qe keys m h hb
    obtain ⟨e, hdt, _, hbe⟩ := setLeaf_some hd hl hl' h
    rcases hbe with hbe | hbe
    · exact w.objSorted _ _ _ _ hdt (hbe ▸ hb)
    · simp [hb, leafBody] at hbe
  · intro q qe keys m k mm h hr hb hm
    rw [set_apply] at h
    by_cases hq : q = c
    · simp only [hq, if_true, Option.some.injEq] at h
      subst h; simp only [] at hb; rw [hb] at hl'; simp [leafBody] at hl'
    · simp only [hq, if_false] at h
      exact w.objMem _ _ _ _ _ _ h hr hb hm
  · intro q qe nodes mv n x h hr hb hn hx
    rw [set_apply] at h
    by_cases hq : q = c
    · simp only [hq, if_true, Option.some.injEq] at h
      subst h; simp only [] at hb; rw [hb] at hl'; simp [leafBody] at hl'
    · simp only [hq, if_false] at h
      exact w.arrMem _ _ _ _ _ _ h hr hb hn hx

theorem Bounded_setLeaf {L : Int} (bd : Bounded d L) (hd : d c = some ce) (hl : leafBody ce.body = true)
    (hl' : leafBody b' = true) : Bounded (d.set c { ce with body := b' }) L := by
  constructor
  · intro t e' h
    obtain ⟨e, hdt, _, _⟩ := setLeaf_some hd hl hl' h
    exact bd.ent _ _ hdt
  · intro q qe keys m k mm h hb hm
    obtain ⟨e, hdt, _, hbe⟩ := setLeaf_some hd hl hl' h
    rcases hbe with hbe | hbe
    · exact bd.pos _ _ _ _ _ _ hdt (hbe ▸ hb) hm
    · simp [hb, leafBody] at hbe
  · intro q qe keys m k mm h hb hm
    obtain ⟨e, hdt, _, hbe⟩ := setLeaf_some hd hl hl' h
    rcases hbe with hbe | hbe
    · exact bd.child _ _ _ _ _ _ hdt (hbe ▸ hb) hm
    · simp [hb, leafBody] at hbe
  · intro q qe nodes mv n x h hb hn hx
    obtain ⟨e, hdt, _, hbe⟩ := setLeaf_some hd hl hl' h
    rcases hbe with hbe | hbe
    · exact bd.elem _ _ _ _ _ _ hdt (hbe ▸ hb) hn hx
    · simp [hb, leafBody] at hbe

theorem absNode_cnt {l : Bool} {v : Int} (h : absNode d c = some (.cnt l v)) :
    ∃ ce, d c = some ce ∧ ce.removed = false ∧ ce.body = .counter l v := by
  obtain ⟨ce, hce, hcr, hcl, hb⟩ := absNode_leaf h rfl
  refine ⟨ce, hce, hcr, ?_⟩
  cases hbody : ce.body <;> simp [hbody, absLeaf, absBody] at hb
  rw [hb.1, hb.2]

theorem uexecute_increase {tw : Ticket → Bool} {src : Source} {l : Bool} {v delta : Int} {ts : Ticket}
    (hsrc : src.needsReverse = true) (hd : d c = some ce) (hb : ce.body = .counter l v) :
    uexecute d tw src (.increase c delta ts) =
      .ok (d.set c { ce with body := .counter l (wrap l (v + delta)) },
           some (.increase c (wrap l (-delta)) ts)) := by
  simp only [uexecute, applyIncrease, reverseIncrease, hd, hb, hsrc, gate, if_true]
  rfl

theorem absNode_increase {l : Bool} {v delta : Int} (hd : d c = some ce) (hr : ce.removed = false)
    (hb : ce.body = .counter l v) :
    absNode (d.set c { ce with body := .counter l (wrap l (v + delta)) }) = ainc (absNode d) c delta := by
  funext t
  rw [absNode_setLeaf hd rfl]
  unfold ainc
  by_cases h : t = c
  · simp [h, absNode, hd, hr, hb, absBody, absLeaf]
  · simp [h]

end incEffect

end Yorkie.Undo
