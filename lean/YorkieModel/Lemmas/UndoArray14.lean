/-
Lemmas for C14, part 23: mixed histories at depth k.  Undo of a recorded `Add` (re-identification and
`ReconcileCreatedAt`), one undo / redo step for any recorded operation.
-/
import YorkieModel.Lemmas.UndoArray13
namespace Yorkie.Undo
open Yorkie Yorkie.Crdt

theorem inv3_undo_add {H : Home} {N : Int} {ρ : Ticket → Ticket} {g : Hist} {p prev ts0 : Ticket} {val : UVal}
    {ru rr : List UOp} {X Y : Doc} {more future : List Doc} {l : List Ticket}
    (i : Inv3 H N ρ g (.add p prev val ts0 :: ru) rr (X :: more) Y future) (ga : GoodAdd H noTw Y p prev val l) :
    ∃ H' ρ' rr', Inv3 H' N ρ' (undo g) ru rr' more X (Y :: future) ∧
      (rr'.length = rr.length + 1 ∨ maxDepth ≤ rr'.length) := by
  obtain ⟨en, chU'⟩ := i.chU
  obtain ⟨hρp, hpN, hn, hh, hlb, hAp, horph⟩ := i.arr ga.hp
  have huN : val.id.lamport ≤ N := en.idb.2
  have hNl := i.hN
  have hN0 := i.hN0
  have ht'N : N < g.next.lamport := by simp only [Hist.next]; omega
  have ht'L : g.lamport < g.next.lamport := by simp only [Hist.next]; omega
  have hts : g.next ≠ headId := by
    intro h
    have : g.next.lamport = 0 := by rw [h]; rfl
    omega
  have wf' : WF (H.update g.next p "") g.doc := WF_update i.wf i.bd ht'L p ""
  have hpar' : (H.update g.next p "").par g.next = some p := by simp [Home.update]
  have hprev' : ρ prev = headId ∨ ρ prev ∈ l.map ρ := by
    rcases ga.hprev with h | h
    · left; rw [h]; exact i.rhead
    · right; exact List.mem_map_of_mem h
  obtain ⟨d', he, hwf, hbd, hpl, hsk, hnode⟩ := step_add (tw := noTw) (src := .undoRedo) (ts := g.next)
    (val := { val with id := ρ val.id }) wf' i.bd i.pl ht'L hts hAp hprev' ga.hleaf ga.hrem hpar' rfl
  obtain ⟨urest, hurest⟩ := i.hundo
  obtain ⟨rrest, hrrest⟩ := i.hredo
  obtain ⟨hd1, htw1, hl1, hu1, hr1⟩ := undo_of_stack_add (cv := { val with id := ρ val.id })
    (by rw [hurest, stackOf_cons, List.cons_append]; simp only [fullRen, hρp]; rfl) he
  simp only [] at hu1 hr1
  have huq := i.uniqU
  rw [addIds_cons_add, List.nodup_cons] at huq
  have hunr : val.id ∉ addIds rr := fun hm => i.uniqD val.id (by rw [addIds_cons_add]; simp) val.id hm rfl
  have hrecU : ∀ r ∈ ru, reconcileOp (ρ val.id) g.next (fullRen ρ r) =
      fullRen (fun t => if t = val.id then g.next else ρ t) r := fun r hr =>
    reconcileOp_fullRen i.sim.inj huN (chU'.idb r hr).to2 (chU'.pb r hr) (fun h => huq.1 (mem_addIds.2 ⟨r, hr, h⟩))
  have hrecR : ∀ r ∈ rr, reconcileOp (ρ val.id) g.next (fullRen ρ r) =
      fullRen (fun t => if t = val.id then g.next else ρ t) r := fun r hr =>
    reconcileOp_fullRen i.sim.inj huN (i.chR.idb r hr).to2 (i.chR.pb r hr) (fun h => hunr (mem_addIds.2 ⟨r, hr, h⟩))
  rw [reconcileStack_stackOf urest hrecU] at hu1
  rw [hrrest, reconcileStack_stackOf rrest hrecR] at hr1
  obtain ⟨rr2, rrest2, hpt, hcase⟩ := pushTail_stackOf (fun t => if t = val.id then g.next else ρ t) rr
    (reconcileStack (ρ val.id) g.next rrest)
  rw [hpt] at hr1
  have hfresh : ∀ t, t.lamport ≤ N → ρ t ≠ g.next := by
    intro t ht h; have := i.rng t ht; rw [h] at this; omega
  have hXeq : absNode X = aadd (absNode Y) p prev val.id (absLeaf val.body) := en.back
  have hsimX : Sim (fun t => if t = val.id then g.next else ρ t) N (absNode X) (absNode d') := by
    rw [hnode, hXeq]
    exact i.sim.aadd (absNode_closed Y) ga.hp ga.hdead hρp hpN hlb hn ga.hprev i.rhead
      (show (0 : Int) ≤ N from hN0) ga.hnh hfresh (absLeaf_isLeaf ga.hleaf)
  have wY' : WF (H.update g.next p "") Y := WF_update i.wfc i.bdc ht'N p ""
  have wX' : WF (H.update g.next p "") X := WF_update en.wfX en.bdX ht'N p ""
  have hgood := inv3_good (N := N) (r := .add p prev val g.next) wY' wX' i.bdc i.plc en.skel
    ((show GoodOp3 H noTw Y (.add p prev val g.next) from ⟨l, ga⟩).update (N := N) ⟨en.idb.1, huN⟩ ht'N p "")
    ⟨en.idb.1, huN⟩ hN0 hXeq
  have hpu : p ≠ val.id := by intro h; have := ga.hp; rw [h, ga.hdead] at this; cases this
  have hYp : absNode Y p ≠ none := by rw [ga.hp]; simp
  have hXp : absNode X p = some (.arr (insAfterV prev val.id l)) := by rw [hXeq]; simp [aadd, ga.hp, hpu]
  have hXo : ∀ a, a ≠ p → a ≠ val.id → absNode X a = absNode Y a := by
    intro a h1 h2; rw [hXeq]; simp [aadd, ga.hp, h1, h2]
  have hback : ∀ q fq, absNode X q = some (.obj fq) → ∃ f', absNode Y q = some (.obj f') := by
    intro q fq h; rw [en.back] at h; exact aexec3_obj_back en.good h
  have hdeadY : ∀ a, a ∈ addIds ru ∨ a ∈ addIds rr → absNode Y a = none ∧ ArrHomed H Y a := by
    intro a ha
    exact i.dead a (by
      rcases ha with ha | ha
      · exact Or.inl (by rw [addIds_cons_add]; simp [ha])
      · exact Or.inr ha)
  have hdeadX : ∀ a, a ∈ addIds ru ∨ a ∈ addIds rr →
      absNode X a = none ∧ ArrHomed (H.update g.next p "") X a := by
    intro a ha
    obtain ⟨hYa, hah⟩ := hdeadY a ha
    have hav : a ≠ val.id := by
      rcases ha with ha | ha
      · exact fun h => huq.1 (h ▸ ha)
      · exact fun h => hunr (h ▸ ha)
    have haN : a.lamport ≤ N := by
      rcases ha with ha | ha
      · exact addIds_boundM chU' ha
      · exact addIds_boundM i.chR ha
    refine ⟨by rw [hXo a (fun h => hYp (h ▸ hYa)) hav]; exact hYa, (hah.step hback).update ?_ p ""⟩
    intro h; rw [h] at haN; omega
  have hsub2 : (addIds rr2).Sublist (addIds rr) := by
    rcases hcase with rfl | ⟨rfl, _⟩
    · exact List.Sublist.refl _
    · exact addIds_dropLast_sublist rr
  have hskX : skel X val.id = none := by rw [en.skel]; exact ga.hnc
  refine ⟨H.update g.next p "", fun t => if t = val.id then g.next else ρ t,
    .remove p val.id g.next :: rr2, ?_, length_after_push hcase⟩
  refine
    { wf := hd1 ▸ hwf, bd := ?_, pl := ?_, hN := by rw [hl1]; omega, hN0 := hN0,
      wfc := wX', bdc := en.bdX, plc := en.plX,
      eskel := ?_, sim := hd1 ▸ hsimX, rfix := ?_, rhead := ?_, rng := ?_, rnew := ?_, rarr := ?_,
      hundo := ⟨_, hu1⟩, hredo := ⟨rrest2, ?_⟩, chU := chU'.update ht'N p "", chR := ?_,
      uniqU := huq.2, uniqR := ?_, uniqD := ?_, dead := ?_ }
  · rw [hd1, hl1]; exact hbd
  · rw [hd1, hl1]; exact hpl
  · intro t; rw [hd1, hsk, i.eskel, en.skel]
  · intro t ht
    have : t ≠ val.id := fun h => ht (h ▸ hskX)
    simp only [this, if_false]
    exact i.rfix t (by rw [← en.skel]; exact ht)
  · have : headId ≠ val.id := fun h => ga.hnh h.symm
    simp only [this, if_false]; exact i.rhead
  · intro t ht
    rw [hl1]
    by_cases h : t = val.id
    · simp only [h, if_true, Hist.next]; omega
    · simp only [h, if_false]; have := i.rng t ht; omega
  · intro t ht
    by_cases h : t = val.id
    · right; simp only [h, if_true]; exact ht'N
    · simp only [h, if_false]; exact i.rnew t ht
  · intro t ht hne
    have htn : t ≠ g.next := by intro h; rw [h] at ht; omega
    by_cases h : t = val.id
    · subst h
      refine ⟨p, ?_, fun f hf => by rw [hXp] at hf; cases hf⟩
      simp only [Home.update, htn, if_false]; exact ga.hpar
    · simp only [h, if_false] at hne
      exact ((i.rarr t ht hne).step hback).update htn p ""
  · rw [hr1, stackOf_cons]; simp [fullRen, hpu, hρp]
  · refine ⟨⟨wY', i.bdc, i.plc, hgood.1, hgood.2.1, fun t => (en.skel t).symm, hgood.2.2, hpN⟩, ?_⟩
    rcases hcase with rfl | ⟨rfl, _⟩
    · exact i.chR.update ht'N p ""
    · exact (i.chR.update ht'N p "").dropLast
  · rw [addIds_cons_remove]; exact List.Nodup.sublist hsub2 i.uniqR
  · intro a ha c hc
    rw [addIds_cons_remove] at hc
    exact i.uniqD a (by rw [addIds_cons_add]; simp [ha]) c (hsub2.subset hc)
  · intro a ha
    rcases ha with ha | ha
    · exact hdeadX a (Or.inl ha)
    · rw [addIds_cons_remove] at ha
      exact hdeadX a (Or.inr (hsub2.subset ha))

/-! ### one undo / redo step -/

theorem inv3_undo {H : Home} {N : Int} {ρ : Ticket → Ticket} {g : Hist} {r : UOp} {ru rr : List UOp} {X Y : Doc}
    {more future : List Doc} (i : Inv3 H N ρ g (r :: ru) rr (X :: more) Y future) :
    ∃ H' ρ' rr', Inv3 H' N ρ' (undo g) ru rr' more X (Y :: future) ∧
      (rr'.length = rr.length + 1 ∨ maxDepth ≤ rr'.length) := by
  have hg := i.chU.1.good
  cases r with
  | add p prev val ts =>
    obtain ⟨l, ga⟩ := hg
    exact inv3_undo_add i ga
  | remove p u ts =>
    rcases hg with ⟨l, gd⟩ | ⟨f, gr⟩
    · obtain ⟨rr', h⟩ := inv3_undo_del i gd
      exact ⟨H, ρ, rr', h⟩
    · obtain ⟨rr', h⟩ := inv3_undo_rem i gr
      exact ⟨H, ρ, rr', h⟩
  | set p k val ts =>
    obtain ⟨f, gs⟩ := hg
    obtain ⟨rr', h⟩ := inv3_undo_set i gs
    exact ⟨H, ρ, rr', h⟩
  | increase c delta ts =>
    obtain ⟨rr', h⟩ := inv3_undo_inc i hg
    exact ⟨H, ρ, rr', h⟩
  | move => exact hg.elim
  | arraySet => exact hg.elim

theorem inv3_redo {H : Home} {N : Int} {ρ : Ticket → Ticket} {g : Hist} {r : UOp} {ru rr : List UOp} {X Y : Doc}
    {past more : List Doc} (i : Inv3 H N ρ g ru (r :: rr) past X (Y :: more)) :
    ∃ H' ρ' ru', Inv3 H' N ρ' (redo g) ru' rr (X :: past) Y more ∧
      (ru'.length = ru.length + 1 ∨ maxDepth ≤ ru'.length) := by
  obtain ⟨H', ρ', ru', i', hl⟩ := inv3_undo i.flip
  refine ⟨H', ρ', ru', ?_, hl⟩
  rw [redo_eq_flip]
  exact i'.flip

end Yorkie.Undo
