/-
List-level lemmas about the RGA position list of `RGATreeList`:
the skip-rule insertion commutes, with itself and with `vacate`.
-/
import YorkieModel.Model.Crdt
import YorkieModel.Lemmas.Ticket
namespace Yorkie.Crdt
open Yorkie

/-! ### named helper functions (the model uses anonymous lambdas) -/

/-- start predicate "position identity is `p`" -/
def posIs (p : Ticket) (n : PosNode) : Bool := decide (n.pos = p)
/-- start predicate "occupied by element `e`" -/
def elemIs (e : Ticket) (n : PosNode) : Bool := decide (n.elem = some e)
/-- what `vacate` does to one node -/
def vac1 (t : Ticket) (n : PosNode) : PosNode := if n.elem = some t then { n with elem := none } else n

theorem hasPos_eq (nodes : List PosNode) (t : Ticket) : hasPos nodes t = nodes.any (posIs t) := rfl
theorem holds_eq (nodes : List PosNode) (t : Ticket) : holds nodes t = nodes.any (elemIs t) := rfl
theorem vacate_eq (t : Ticket) (nodes : List PosNode) : vacate t nodes = nodes.map (vac1 t) := rfl

@[simp] theorem posIs_mk (p t : Ticket) (e : Option Ticket) : posIs p ⟨t, e⟩ = decide (t = p) := rfl
@[simp] theorem elemIs_mk (x t : Ticket) (e : Option Ticket) : elemIs x ⟨t, e⟩ = decide (e = some x) := rfl

@[simp] theorem vac1_pos (t : Ticket) (n : PosNode) : (vac1 t n).pos = n.pos := by
  unfold vac1; split <;> rfl

@[simp] theorem posIs_vac1 (p t : Ticket) (n : PosNode) : posIs p (vac1 t n) = posIs p n := by
  simp [posIs]

theorem elemIs_vac1 (e t : Ticket) (n : PosNode) :
    elemIs e (vac1 t n) = (elemIs e n && !decide (e = t)) := by
  unfold vac1 elemIs
  split
  · rename_i h; simp [h]; intro h'; exact h'.symm
  · rename_i h
    by_cases h' : n.elem = some e
    · simp [h']; intro e'; subst e'; exact h h'
    · simp [h']

theorem elemIs_vac1_of_ne {e t : Ticket} (h : e ≠ t) (n : PosNode) :
    elemIs e (vac1 t n) = elemIs e n := by
  simp [elemIs_vac1, h]

theorem vac1_mk_none (t p : Ticket) : vac1 t ⟨p, none⟩ = ⟨p, none⟩ := by
  simp [vac1]

theorem vac1_mk_of_ne {t e : Ticket} (p : Ticket) (h : e ≠ t) : vac1 t ⟨p, some e⟩ = ⟨p, some e⟩ := by
  simp [vac1, h]

theorem vac1_mk_self (t p : Ticket) : vac1 t ⟨p, some t⟩ = ⟨p, none⟩ := by
  simp [vac1]

theorem vac1_comm (s t : Ticket) (n : PosNode) : vac1 s (vac1 t n) = vac1 t (vac1 s n) := by
  grind [vac1]

theorem vac1_idem (t : Ticket) (n : PosNode) : vac1 t (vac1 t n) = vac1 t n := by
  grind [vac1]

theorem vacate_comm (s t : Ticket) (xs : List PosNode) :
    vacate s (vacate t xs) = vacate t (vacate s xs) := by
  simp only [vacate_eq, List.map_map]
  congr 1; funext n; exact vac1_comm s t n

theorem vacate_idem (t : Ticket) (xs : List PosNode) : vacate t (vacate t xs) = vacate t xs := by
  simp only [vacate_eq, List.map_map]
  congr 1; funext n; exact vac1_idem t n

theorem hasPos_vacate (t : Ticket) (xs : List PosNode) (p : Ticket) :
    hasPos (vacate t xs) p = hasPos xs p := by
  simp only [hasPos_eq, vacate_eq, List.any_map]
  congr 1; funext n; exact posIs_vac1 p t n

theorem holds_vacate (t : Ticket) (xs : List PosNode) (e : Ticket) :
    holds (vacate t xs) e = (holds xs e && !decide (e = t)) := by
  simp only [holds_eq, vacate_eq]
  induction xs with
  | nil => simp
  | cons n r ih =>
    simp only [List.map_cons, List.any_cons, ih, elemIs_vac1]
    cases elemIs e n <;> simp

/-! ### 1. the skip rule commutes -/

/-- Lemma 1. Only the two new position identities must differ; nothing about `xs`. -/
theorem insertSkip_comm (a b : PosNode) (h : a.pos ≠ b.pos) (xs : List PosNode) :
    insertSkip a (insertSkip b xs) = insertSkip b (insertSkip a xs) := by
  have hab : a.pos.after b.pos = !(b.pos.after a.pos) := Ticket.after_eq_not_after h
  induction xs with
  | nil =>
    simp only [insertSkip, hab]
    cases b.pos.after a.pos <;> simp
  | cons n r ih =>
    cases h1 : n.pos.after a.pos <;> cases h2 : n.pos.after b.pos
    · cases h3 : b.pos.after a.pos
      · have h4 : a.pos.after b.pos = true := by rw [hab, h3]; rfl
        simp [insertSkip, h1, h2, h3, h4]
      · have h4 : a.pos.after b.pos = false := by rw [hab, h3]; rfl
        simp [insertSkip, h1, h2, h3, h4]
    · have : a.pos.after b.pos = true := by
        rcases Ticket.not_after_iff.1 h1 with e | h'
        · rw [← e]; exact h2
        · exact Ticket.after_trans h' h2
      simp [insertSkip, h1, h2, this]
    · have : b.pos.after a.pos = true := by
        rcases Ticket.not_after_iff.1 h2 with e | h'
        · rw [← e]; exact h1
        · exact Ticket.after_trans h' h1
      simp [insertSkip, h1, h2, this]
    · simp [insertSkip, h1, h2, ih]

theorem any_insertSkip (f : PosNode → Bool) (a : PosNode) (xs : List PosNode) :
    (insertSkip a xs).any f = (xs.any f || f a) := by
  induction xs with
  | nil => simp [insertSkip]
  | cons n r ih =>
    simp only [insertSkip]
    split
    · simp only [List.any_cons, ih, Bool.or_assoc]
    · simp only [List.any_cons]
      cases f a <;> cases f n <;> simp

theorem map_insertSkip (f : PosNode → PosNode) (hf : ∀ m, (f m).pos = m.pos) (a : PosNode)
    (xs : List PosNode) : (insertSkip a xs).map f = insertSkip (f a) (xs.map f) := by
  induction xs with
  | nil => simp [insertSkip]
  | cons n r ih =>
    simp only [insertSkip, List.map_cons, hf]
    split <;> simp [ih]

/-! ### total version of `insertAfterWhere` -/

/-- `insertAfterWhere` made total: the list is unchanged when no node matches. -/
def insertAfterWhereT (start : PosNode → Bool) (new : PosNode) : List PosNode → List PosNode
  | [] => []
  | n :: rest => if start n then n :: insertSkip new rest else n :: insertAfterWhereT start new rest

theorem insertAfterWhere_eq (p : PosNode → Bool) (new : PosNode) (xs : List PosNode) :
    insertAfterWhere p new xs = if xs.any p then some (insertAfterWhereT p new xs) else none := by
  induction xs with
  | nil => simp [insertAfterWhere]
  | cons n r ih =>
    simp only [insertAfterWhere, insertAfterWhereT, List.any_cons, ih]
    by_cases h : p n = true
    · simp [h]
    · simp [h]

theorem insertAfterWhereT_of_not_any {p : PosNode → Bool} (new : PosNode) {xs : List PosNode}
    (h : xs.any p = false) : insertAfterWhereT p new xs = xs := by
  induction xs with
  | nil => rfl
  | cons n r ih =>
    simp only [List.any_cons, Bool.or_eq_false_iff] at h
    simp [insertAfterWhereT, h.1, ih h.2]

theorem any_insertAfterWhereT (f p : PosNode → Bool) (a : PosNode) (xs : List PosNode) :
    (insertAfterWhereT p a xs).any f = (xs.any f || (xs.any p && f a)) := by
  induction xs with
  | nil => simp [insertAfterWhereT]
  | cons n r ih =>
    cases h : p n
    · simp [insertAfterWhereT, h, ih, Bool.or_assoc]
    · simp [insertAfterWhereT, h, any_insertSkip, Bool.or_assoc]

theorem map_insertAfterWhereT (f : PosNode → PosNode) (hf : ∀ m, (f m).pos = m.pos)
    (p : PosNode → Bool) (hp : ∀ m, p (f m) = p m) (a : PosNode) (xs : List PosNode) :
    (insertAfterWhereT p a xs).map f = insertAfterWhereT p (f a) (xs.map f) := by
  induction xs with
  | nil => simp [insertAfterWhereT]
  | cons n r ih =>
    simp only [insertAfterWhereT, List.map_cons, hp]
    split <;> simp [ih, map_insertSkip f hf]

/-- inserting by the skip rule at the front commutes with an anchored insertion -/
theorem insertAfterWhereT_insertSkip (q : PosNode → Bool) (a b : PosNode) (hq : q a = false)
    (hab : a.pos ≠ b.pos) (xs : List PosNode) :
    insertAfterWhereT q b (insertSkip a xs) = insertSkip a (insertAfterWhereT q b xs) := by
  induction xs with
  | nil => simp [insertSkip, insertAfterWhereT, hq]
  | cons n r ih =>
    by_cases h1 : n.pos.after a.pos = true <;> by_cases h2 : q n = true
    · simp [insertSkip, insertAfterWhereT, h1, h2, insertSkip_comm a b hab]
    · simp [insertSkip, insertAfterWhereT, h1, h2, ih]
    · simp [insertSkip, insertAfterWhereT, h1, h2, hq]
    · simp [insertSkip, insertAfterWhereT, h1, h2, hq]

theorem insertAfterWhereT_comm (p q : PosNode → Bool) (a b : PosNode) (hp : p b = false)
    (hq : q a = false) (hab : a.pos ≠ b.pos) (xs : List PosNode) :
    insertAfterWhereT p a (insertAfterWhereT q b xs) =
      insertAfterWhereT q b (insertAfterWhereT p a xs) := by
  induction xs with
  | nil => rfl
  | cons n r ih =>
    by_cases h1 : p n = true <;> by_cases h2 : q n = true
    · simp [insertAfterWhereT, h1, h2, insertSkip_comm a b hab]
    · simp [insertAfterWhereT, h1, h2, insertAfterWhereT_insertSkip q a b hq hab]
    · simp [insertAfterWhereT, h1, h2, insertAfterWhereT_insertSkip p b a hp (Ne.symm hab)]
    · simp [insertAfterWhereT, h1, h2, ih]

/-- Lemma 2, on the model's partial function. -/
theorem insertAfterWhere_comm (p q : PosNode → Bool) (a b : PosNode) (hp : p b = false)
    (hq : q a = false) (hab : a.pos ≠ b.pos) (xs : List PosNode) :
    (insertAfterWhere p a xs).bind (insertAfterWhere q b) =
      (insertAfterWhere q b xs).bind (insertAfterWhere p a) := by
  simp only [insertAfterWhere_eq]
  by_cases h1 : xs.any p = true <;> by_cases h2 : xs.any q = true <;>
    simp [h1, h2, insertAfterWhere_eq, any_insertAfterWhereT, hp, hq,
      insertAfterWhereT_comm p q a b hp hq hab]

/-- the "head" special case of Lemma 2 -/
theorem insertAfterWhere_insertSkip (q : PosNode → Bool) (a b : PosNode) (hq : q a = false)
    (hab : a.pos ≠ b.pos) (xs : List PosNode) :
    insertAfterWhere q b (insertSkip a xs) = (insertAfterWhere q b xs).map (insertSkip a) := by
  simp only [insertAfterWhere_eq, any_insertSkip, hq, Bool.or_false]
  split <;> simp [insertAfterWhereT_insertSkip q a b hq hab]

end Yorkie.Crdt
