/-
Helper lemmas and witness histories for C15 (undo/redo changes on peers).

  * `uexecute_local_remote`: the document part of `uexecute` is the same for every source once the
    operation is not skipped / not failed on the authoring side;
  * `runOps_remote_doc`: lifted to the operations of one change;
  * `undoRedo_change_run`, `doChange_doc`: what `undoRedo` / `doChange` do to the document;
  * lock-step replay (`lockstep`): an author and a peer that follows every change;
  * conservativity of the GC wrappers of Model/UndoGc.lean over Model/Undo.lean;
  * the concrete two-replica histories used by the witness theorems of Props/C15.lean.

Model gap noticed while building the histories (no witness below depends on it): when a restoring
`Set` LOSES the LWW comparison against a live occupant that has the SAME identity (two replicas
undo concurrently and both restore T1), `applySetU` writes the tombstoned loser over the single
heap entry of T1 and the key disappears; Go keeps the live occupant node and shows the value
(checked on the Go code with GC disabled: both replicas show `{"a":1}`, the model yields `{}` on
the replica that applies the older restore last). It is now listed among the named gaps in the
header of Model/Undo.lean.

All lemmas speak about the instances at the switch `fixReconcileParent` (Model/Undo.lean) and use
the equations of Lemmas/UndoCompat.lean; `uexecute` does not depend on the switch, `runOps` passes
an empty twin set to the skip rule.
-/
import YorkieModel.Model.Undo
import YorkieModel.Model.UndoGc
import YorkieModel.Lemmas.UndoCompat
namespace Yorkie.Undo.Sync
open Yorkie Yorkie.Crdt Yorkie.Undo Yorkie.Undo.Gc

/-! ### one operation -/

theorem map_eq_ok {ε α β : Type} (f : α → β) (x : Except ε α) (b : β)
    (h : x.map f = .ok b) : ∃ a, x = .ok a ∧ f a = b := by
  cases x with
  | error e => simp [Except.map] at h
  | ok a => exact ⟨a, rfl, by simpa [Except.map] using h⟩

/-- An operation that executed under a reverse-building source (`loc` or `undoRedo`) executes
    under `remote` on the same document with the same resulting document (and no reverse),
    whatever the twin set. -/
theorem uexecute_local_remote (src : Source) (hsrc : src ≠ .remote) (d : Doc)
    (tw tw' : Ticket → Bool) (op : UOp) (d' : Doc) (r : Option UOp)
    (h : uexecute d tw src op = .ok (d', r)) :
    uexecute d tw' .remote op = .ok (d', none) := by
  cases op with
  | set p k v ts =>
    cases src <;> first
      | exact absurd rfl hsrc
      | (simp only [uexecute] at h ⊢
         split at h
         · simp at h
         · rename_i hobj
           split at h
           · simp at h
           · obtain ⟨a, ha, hf⟩ := map_eq_ok _ _ _ h
             simp [hobj, ha, Except.map, Source.needsReverse, gate]
             simpa using congrArg Prod.fst hf)
  | add p prev v ts =>
    cases src <;> first
      | exact absurd rfl hsrc
      | (simp only [uexecute] at h ⊢
         split at h
         · simp at h
         · rename_i hid
           obtain ⟨a, ha, hf⟩ := map_eq_ok _ _ _ h
           simp [hid, ha, Except.map, Source.needsReverse, gate]
           simpa using congrArg Prod.fst hf)
  | move p prev target ts =>
    cases src <;> first
      | exact absurd rfl hsrc
      | (simp only [uexecute, Source.needsReverse] at h ⊢
         simp only [if_true] at h
         split at h
         · split at h
           · split at h
             · simp at h
             · obtain ⟨a, ha, hf⟩ := map_eq_ok _ _ _ h
               simp [ha, Except.map]
               simpa using congrArg Prod.fst hf
           · simp at h
         · simp at h)
  | remove p target ts =>
    cases src <;> first
      | exact absurd rfl hsrc
      | (simp only [uexecute, Source.needsReverse] at h ⊢
         split at h
         · rename_i hc
           obtain ⟨a, ha, hf⟩ := map_eq_ok _ _ _ h
           simp [hc, ha, Except.map]
           simpa using congrArg Prod.fst hf
         · rename_i hc
           split at h
           · simp at h
           · simp only [if_true] at h
             split at h
             · simp at h
             · obtain ⟨a, ha, hf⟩ := map_eq_ok _ _ _ h
               simp [hc, ha, Except.map]
               simpa using congrArg Prod.fst hf)
  | arraySet p target v ts =>
    cases src <;> first
      | exact absurd rfl hsrc
      | (simp only [uexecute] at h ⊢
         split at h
         · simp at h
         · rename_i hid
           obtain ⟨a, ha, hf⟩ := map_eq_ok _ _ _ h
           simp [hid, ha, Except.map, Source.needsReverse, gate]
           simpa using congrArg Prod.fst hf)
  | increase p delta ts =>
    cases src <;> first
      | exact absurd rfl hsrc
      | (simp only [uexecute] at h ⊢
         obtain ⟨a, ha, hf⟩ := map_eq_ok _ _ _ h
         simp [ha, Except.map, Source.needsReverse, gate]
         simpa using congrArg Prod.fst hf)

theorem uexecute_undoRedo_remote (d : Doc) (tw tw' : Ticket → Bool) (op : UOp) (d' : Doc)
    (r : Option UOp) (h : uexecute d tw .undoRedo op = .ok (d', r)) :
    uexecute d tw' .remote op = .ok (d', none) :=
  uexecute_local_remote .undoRedo (by decide) d tw tw' op d' r h

theorem uexecute_loc_remote (d : Doc) (tw tw' : Ticket → Bool) (op : UOp) (d' : Doc)
    (r : Option UOp) (h : uexecute d tw .loc op = .ok (d', r)) :
    uexecute d tw' .remote op = .ok (d', none) :=
  uexecute_local_remote .loc (by decide) d tw tw' op d' r h

/-- the skip rule exists only under `undoRedo` -/
theorem uexecute_not_skipped (src : Source) (hsrc : src ≠ .undoRedo) (d : Doc)
    (tw : Ticket → Bool) (op : UOp) : uexecute d tw src op ≠ .error .skipped := by
  intro h
  cases op with
  | set p k v ts =>
    simp only [uexecute] at h
    split at h
    · simp at h
    · split at h
      · simp_all
      · cases hx : liftE (applySetU d p k v ts) <;> simp [hx, Except.map] at h
        cases hy : applySetU d p k v ts <;> simp [hy, liftE] at hx
        simp_all
  | add p prev v ts =>
    simp only [uexecute] at h
    split at h
    · simp at h
    · cases hy : applyAddU d p prev v ts <;> simp [hy, liftE, Except.map] at h
  | move p prev target ts =>
    simp only [uexecute] at h
    split at h
    · split at h
      · split at h
        · split at h
          · simp at h
          · cases hy : applyMove d p prev target ts <;> simp [hy, liftE, Except.map] at h
        · simp at h
      · simp at h
    · cases hy : applyMove d p prev target ts <;> simp [hy, liftE, Except.map] at h
  | remove p target ts =>
    simp only [uexecute] at h
    split at h
    · cases hy : applyRemove d p target ts <;> simp [hy, liftE, Except.map] at h
    · split at h
      · simp_all
      · split at h
        · split at h
          · simp at h
          · cases hy : applyRemove d p target ts <;> simp [hy, liftE, Except.map] at h
        · cases hy : applyRemove d p target ts <;> simp [hy, liftE, Except.map] at h
  | arraySet p target v ts =>
    simp only [uexecute] at h
    split at h
    · simp at h
    · cases hy : applyArraySetU d p target v ts <;> simp [hy, liftE, Except.map] at h
  | increase p delta ts =>
    simp only [uexecute] at h
    cases hy : applyIncrease d p delta <;> simp [hy, liftE, Except.map] at h

/-! ### the operations of one change -/

theorem runOps_executed_le (src : Source) (ops : List UOp) :
    ∀ r : Run, (runOps src r ops).executed.length ≤ r.executed.length + ops.length := by
  induction ops with
  | nil => intro r; simp [runOps_nil]
  | cons op rest ih =>
    intro r
    simp only [runOps_cons]
    split
    · have := ih { r with doc := ‹Doc›,
                          revs := r.revs ++ (‹Option UOp›).toList, executed := r.executed ++ [op] }
      simp at this ⊢
      omega
    · have := ih r
      simp; omega
    · simp

theorem runOps_executed_ge (src : Source) (ops : List UOp) :
    ∀ r : Run, r.executed.length ≤ (runOps src r ops).executed.length := by
  induction ops with
  | nil => intro r; simp [runOps_nil]
  | cons op rest ih =>
    intro r
    simp only [runOps_cons]
    split
    · have := ih { r with doc := ‹Doc›,
                          revs := r.revs ++ (‹Option UOp›).toList, executed := r.executed ++ [op] }
      simp at this ⊢
      omega
    · exact ih r
    · simp

/-- nothing executed ⇒ the document is untouched -/
theorem runOps_none_executed (src : Source) (ops : List UOp) :
    ∀ r : Run, (runOps src r ops).executed.length = r.executed.length →
      (runOps src r ops).doc = r.doc := by
  induction ops with
  | nil => intro r _; simp [runOps_nil]
  | cons op rest ih =>
    intro r hl
    simp only [runOps_cons] at hl ⊢
    cases hex : uexecute r.doc (fun _ => false) src op with
    | ok p =>
      obtain ⟨d', rev⟩ := p
      rw [hex] at hl
      simp only at hl
      have := runOps_executed_ge src rest
        ⟨d', r.tw, r.revs ++ rev.toList, r.executed ++ [op], r.failed⟩
      simp at this
      omega
    | error e =>
      cases e with
      | skipped =>
        rw [hex] at hl
        exact ih r hl
      | err e => rfl

/-- Replay of a change on a peer: if the authoring run (`loc` or `undoRedo`) did not fail and
    executed every operation, the `remote` run from the same document ends in the same document. -/
theorem runOps_remote_doc (src : Source) (hsrc : src ≠ .remote) (ops : List UOp) :
    ∀ (r g : Run), g.doc = r.doc →
      (runOps src r ops).failed = false →
      (runOps src r ops).executed.length = r.executed.length + ops.length →
      (runOps .remote g ops).doc = (runOps src r ops).doc := by
  induction ops with
  | nil => intro r g hd _ _; simpa [runOps_nil] using hd
  | cons op rest ih =>
    intro r g hd hf hl
    simp only [runOps_cons] at hf hl ⊢
    split at hf
    · rename_i d' rev hex
      have hr := uexecute_local_remote src hsrc r.doc (fun _ => false) (fun _ => false) op d' rev hex
      rw [hex] at hl
      rw [hd, hr]
      simp only at hl ⊢
      apply ih
      · rfl
      · exact hf
      · simpa [Nat.add_assoc, Nat.add_comm 1] using hl
    · rename_i hex
      rw [hex] at hl
      simp only at hl
      have := runOps_executed_le src rest r
      simp at hl
      omega
    · simp at hf

/-- a `loc` run that did not fail executed everything -/
theorem runOps_loc_all_executed (ops : List UOp) :
    ∀ r : Run, (runOps .loc r ops).failed = false →
      (runOps .loc r ops).executed.length = r.executed.length + ops.length := by
  induction ops with
  | nil => intro r _; simp [runOps_nil]
  | cons op rest ih =>
    intro r hf
    simp only [runOps_cons] at hf ⊢
    split at hf
    · rename_i d' rev hex
      have := ih _ hf
      simp only at this ⊢
      rw [this]
      simp [Nat.add_assoc, Nat.add_comm 1]
    · rename_i hex
      exact absurd hex (uexecute_not_skipped .loc (by decide) r.doc (fun _ => false) op)
    · simp at hf

/-! ### histories -/

/-- every operation of the change executed on the author (no `ErrOperationSkipped`) -/
def noSkip (h : Hist) (ops : List UOp) : Bool :=
  (runOps .undoRedo { doc := h.doc, tw := h.tw } ops).executed.length == ops.length

theorem reticketGo_doc (fx : Bool) (ops : List UOp) : ∀ (h : Hist) (i : Nat)
    (ren : List (Ticket × Ticket)),
    (reticketGo fx h i ren ops).1.doc = h.doc ∧ (reticketGo fx h i ren ops).1.tw = h.tw := by
  induction ops with
  | nil => intro h i ren; simp [reticketGo]
  | cons op rest ih =>
    intro h i ren
    simp only [reticketGo]
    split
    · have := ih (h.reconcileW fx ‹UVal›.id ⟨h.lamport + 1, i, h.actor⟩) (i + 1)
        (ren ++ [(‹UVal›.id, ⟨h.lamport + 1, i, h.actor⟩)])
      simpa [Hist.reconcileW] using this
    · rename_i p target v ts hop
      have := ih (if fx then (h.reconcileW fx target ⟨h.lamport + 1, i, h.actor⟩).reconcileW fx v.id
          ⟨h.lamport + 1, i, h.actor⟩ else h.reconcileW fx target ⟨h.lamport + 1, i, h.actor⟩) (i + 1)
        (ren ++ [(target, ⟨h.lamport + 1, i, h.actor⟩), (v.id, ⟨h.lamport + 1, i, h.actor⟩)])
      cases fx <;> simpa [Hist.reconcileW] using this
    · exact ih _ _ _

theorem reticket_doc (ops : List UOp) (h : Hist) (i : Nat) :
    (reticket h i ops).1.doc = h.doc ∧ (reticket h i ops).1.tw = h.tw :=
  reticketGo_doc fixReconcileParent ops h i []

/-- the four outcomes of `undoRedo` in terms of the run of the shipped operations -/
theorem undoRedo_cases (h : Hist) (isUndo : Bool) :
    ((undoRedo h isUndo).2 = .nothing ∧ (undoRedo h isUndo).1.doc = h.doc) ∨
    (∃ ops, (undoRedo h isUndo).2 = .failed ops ∧ (undoRedo h isUndo).1.doc = h.doc) ∨
    ((undoRedo h isUndo).2 = .noop ∧ (undoRedo h isUndo).1.doc = h.doc) ∨
    (∃ ops, (undoRedo h isUndo).2 = .change ops ∧
      (runOps .undoRedo { doc := h.doc, tw := h.tw } ops).failed = false ∧
      (undoRedo h isUndo).1.doc = (runOps .undoRedo { doc := h.doc, tw := h.tw } ops).doc) := by
  rw [undoRedo_eq]
  split
  · exact .inl ⟨rfl, rfl⟩
  · rename_i entry restStack hst
    simp only
    split
    · refine .inl ⟨rfl, ?_⟩
      cases isUndo <;> rfl
    · generalize hh0 : (if isUndo = true then ({ h with undo := restStack } : Hist)
        else { h with redo := restStack }) = h0
      have h0d : h0.doc = h.doc ∧ h0.tw = h.tw := by subst hh0; cases isUndo <;> simp
      have hr := reticket_doc entry h0 1
      generalize reticket h0 1 entry = p at hr
      obtain ⟨h1, ops1⟩ := p
      simp only at hr ⊢
      rw [hr.1, hr.2, h0d.1, h0d.2]
      generalize hrun : runOps .undoRedo { doc := h.doc, tw := h.tw } ops1 = r
      split
      · exact .inr (.inl ⟨ops1, rfl, by rw [hr.1, h0d.1]⟩)
      · rename_i hnf
        split
        · rename_i hemp
          refine .inr (.inr (.inl ⟨rfl, ?_⟩))
          have := runOps_none_executed .undoRedo ops1 { doc := h.doc, tw := h.tw }
          rw [hrun] at this
          simpa using this (by simpa using hemp)
        · refine .inr (.inr (.inr ⟨ops1, rfl, ?_, ?_⟩))
          · rw [hrun]; simpa using hnf
          · rw [hrun]

theorem undoRedo_change_run (h h' : Hist) (isUndo : Bool) (ops : List UOp)
    (hu : undoRedo h isUndo = (h', .change ops)) :
    (runOps .undoRedo { doc := h.doc, tw := h.tw } ops).failed = false ∧
    h'.doc = (runOps .undoRedo { doc := h.doc, tw := h.tw } ops).doc := by
  rcases undoRedo_cases h isUndo with hc | ⟨o, hc, _⟩ | hc | ⟨o, hc, hf, hd⟩
  · rw [hu] at hc; simp at hc
  · rw [hu] at hc; simp at hc
  · rw [hu] at hc; simp at hc
  · rw [hu] at hc hd
    simp only [Outcome.change.injEq] at hc
    subst hc
    exact ⟨hf, hd⟩

/-- an undo/redo that appended no change left the document alone -/
theorem undoRedo_no_change_doc (h : Hist) (isUndo : Bool)
    (hn : ∀ ops, (undoRedo h isUndo).2 ≠ .change ops) : (undoRedo h isUndo).1.doc = h.doc := by
  rcases undoRedo_cases h isUndo with hc | ⟨o, _, hd⟩ | hc | ⟨o, hc, _, _⟩
  · exact hc.2
  · exact hd
  · exact hc.2
  · exact absurd hc (hn o)

theorem doChange_doc (h : Hist) (ops : List UOp) :
    (doChange h ops).doc = (runOps .loc { doc := h.doc, tw := h.tw } ops).doc := by
  rw [doChange_eq]
  split
  · rename_i he
    have : ops = [] := by simpa using he
    subst this
    simp [runOps_nil]
  · simp only
    split <;> rfl

theorem applyRemote_doc (g : Hist) (lam : Int) (ops : List UOp) :
    (applyRemote g lam ops).doc = (runOps .remote { doc := g.doc, tw := g.tw } ops).doc := rfl

/-! ### lock-step replay: one author, one peer that follows every change -/

inductive Act
  | edit (ops : List UOp)
  | undo
  | redo

/-- one undo/redo step of the author: new history, the change that is shipped (if any) and
    whether the step is inside the proven scope (no skipped operation) -/
def urStep (h : Hist) (isUndo : Bool) : Hist × Option (List UOp) × Bool :=
  match undoRedo h isUndo with
  | (h', .change ops) => (h', some ops, noSkip h ops)
  | (h', _) => (h', none, true)

/-- one step of the author; scope for an edit: `Document.Update` did not fail -/
def authorStep (h : Hist) : Act → Hist × Option (List UOp) × Bool
  | .edit ops =>
    (doChange h ops, some ops, !(runOps .loc { doc := h.doc, tw := h.tw } ops).failed)
  | .undo => urStep h true
  | .redo => urStep h false

def follow (g : Hist) (lam : Int) : Option (List UOp) → Hist
  | some ops => applyRemote g lam ops
  | none => g

/-- author `h`, follower `g`, conjunction of the scope flags -/
def lockstep : Hist × Hist × Bool → List Act → Hist × Hist × Bool
  | s, [] => s
  | (h, g, ok), a :: rest =>
    let s := authorStep h a
    lockstep (s.1, follow g s.1.lamport s.2.1, ok && s.2.2) rest

theorem urStep_follow (h g : Hist) (isUndo : Bool) (hd : g.doc = h.doc)
    (hok : (urStep h isUndo).2.2 = true) :
    (follow g (urStep h isUndo).1.lamport (urStep h isUndo).2.1).doc = (urStep h isUndo).1.doc := by
  unfold urStep at hok ⊢
  split at hok
  · rename_i h' ops hu
    simp only [follow]
    obtain ⟨hf, hdoc⟩ := undoRedo_change_run h h' isUndo ops hu
    rw [applyRemote_doc, hdoc]
    apply runOps_remote_doc .undoRedo (by decide) ops _ _ hd hf
    simpa [noSkip] using hok
  · rename_i h' out hne hu
    simp only [follow]
    have := undoRedo_no_change_doc h isUndo (by
      intro ops hc
      rw [hu] at hc
      exact hne ops hc)
    rw [hu] at this
    simp only at this ⊢
    rw [hd, this]

theorem authorStep_follow (h g : Hist) (a : Act) (hd : g.doc = h.doc)
    (hok : (authorStep h a).2.2 = true) :
    (follow g (authorStep h a).1.lamport (authorStep h a).2.1).doc = (authorStep h a).1.doc := by
  cases a with
  | edit ops =>
    simp only [authorStep, follow] at hok ⊢
    have hf : (runOps .loc { doc := h.doc, tw := h.tw } ops).failed = false := by simpa using hok
    rw [applyRemote_doc, doChange_doc]
    apply runOps_remote_doc .loc (by decide) ops _ _ hd hf
    simpa using runOps_loc_all_executed ops { doc := h.doc, tw := h.tw } hf
  | undo => exact urStep_follow h g true hd hok
  | redo => exact urStep_follow h g false hd hok

theorem lockstep_doc (acts : List Act) : ∀ (h g : Hist) (ok : Bool), g.doc = h.doc →
    (lockstep (h, g, ok) acts).2.2 = true →
    (lockstep (h, g, ok) acts).2.1.doc = (lockstep (h, g, ok) acts).1.doc := by
  induction acts with
  | nil => intro h g ok hd _; simpa [lockstep] using hd
  | cons a rest ih =>
    intro h g ok hd hok
    simp only [lockstep] at hok ⊢
    have hflag : ∀ (acts : List Act) (h g : Hist) (b : Bool),
        (lockstep (h, g, b) acts).2.2 = true → b = true := by
      intro acts
      induction acts with
      | nil => intro h g b hb; simpa [lockstep] using hb
      | cons a rest ih2 =>
        intro h g b hb
        simp only [lockstep] at hb
        have := ih2 _ _ _ hb
        simp at this
        exact this.1
    have h1 := hflag rest _ _ _ hok
    simp only [Bool.and_eq_true] at h1
    exact ih _ _ _ (authorStep_follow h g a hd h1.2) hok

/-! ### the GC wrappers are conservative over the undo layer -/

theorem grunOps_fst (src : Source) (ops : List UOp) :
    ∀ (r : Run) (g : Reg), (grunOps src (r, g) ops).1 = runOps src r ops := by
  induction ops with
  | nil => intro r g; simp [grunOps, runOps_nil]
  | cons op rest ih =>
    intro r g
    simp only [grunOps, runOps_cons, twOf_on, addTwins_eq]
    cases hex : uexecute r.doc (fun _ => false) src op with
    | ok p => obtain ⟨d', rev⟩ := p; simp [ih]
    | error e => cases e <;> simp [ih]

theorem gdoChange_h (g : GHist) (ops : List UOp) : (gdoChange g ops).h = doChange g.h ops := rfl

theorem gapplyRemote_h (g : GHist) (lam : Int) (ops : List UOp) :
    (gapplyRemote g lam ops).h = applyRemote g.h lam ops := rfl

theorem gundoRedo_h (g : GHist) (isUndo : Bool) :
    (gundoRedo g isUndo).1.h = (undoRedo g.h isUndo).1 ∧
    (gundoRedo g isUndo).2 = (undoRedo g.h isUndo).2 := by
  unfold gundoRedo
  split <;> rename_i hu <;> rw [hu] <;> exact ⟨rfl, rfl⟩

theorem gexecute_doc (s : GDoc) (tw : Ticket → Bool) (src : Source) (op : UOp) :
    (gexecute s tw src op).map (fun r => (r.1.doc, r.2)) = uexecute s.doc tw src op := by
  unfold gexecute
  cases uexecute s.doc tw src op <;> simp [Except.map]

/-- an empty registry makes `purge` the identity -/
theorem purge_empty (d : Doc) (vv : VV) : (purge { doc := d, gc := [] } vv).doc = d := by
  simp [purge]

/-! ### witness histories (actors 1 and 2; tickets as the json layer issues them) -/

def tk (l : Int) (d a : Nat) : Ticket := ⟨l, d, a⟩
def pv (s : String) (id : Ticket) : UVal := { id := id, body := .prim s }
def cv (n : Int) (id : Ticket) : UVal := { id := id, body := .counter false n }

/-- the change an undo/redo call shipped -/
def shipped : Hist × Outcome → List UOp
  | (_, .change ops) => ops
  | _ => []

def gshipped : GHist × Outcome → List UOp
  | (_, .change ops) => ops
  | _ => []

/-- the change is exactly one `Set` of a value with identity `id` -/
def isSingleSet (ops : List UOp) (p : Ticket) (k : String) (id ts : Ticket) : Bool :=
  match ops with
  | [.set p' k' v ts'] => p' == p && k' == k && v.id == id && ts' == ts
  | _ => false

def isSingleRemove (ops : List UOp) (p target ts : Ticket) : Bool :=
  match ops with
  | [.remove p' t' ts'] => p' == p && t' == target && ts' == ts
  | _ => false

/-! W1: restore under the old identity vs a concurrent remove of that identity -/
namespace W1
/-- A: `a = 1` (T1 = 1:1:1) -/
def c1 : List UOp := [.set rootId "a" (pv "1" (tk 1 1 1)) (tk 1 1 1)]
def a1 : Hist := doChange { actor := 1 } c1
def b1 : Hist := applyRemote { actor := 2 } 1 c1
/-- A: `a = 2` -/
def c2 : List UOp := [.set rootId "a" (pv "2" (tk 2 1 1)) (tk 2 1 1)]
def a2 : Hist := doChange a1 c2
/-- A: undo = Set of a copy of T1 under identity T1, executed at 3:1:1 -/
def c3 : List UOp := shipped (undoRedo a2 true)
def a3 : Hist := undo a2
/-- B, concurrently (knows only c1): remove `a` (target T1) at 3:1:2 -/
def c4 : List UOp := [.remove rootId (tk 1 1 1) (tk 3 1 2)]
def b2 : Hist := doChange b1 c4
/-- full exchange -/
def aF : Hist := applyRemote a3 3 c4
def bF : Hist := applyRemote (applyRemote b2 2 c2) 3 c3
end W1

/-! W2: counter snapshot restored by undo vs concurrent increases -/
namespace W2
/-- A: `c = Counter(0)` (T1 = 1:1:1) -/
def c1 : List UOp := [.set rootId "c" (cv 0 (tk 1 1 1)) (tk 1 1 1)]
def a1 : Hist := doChange { actor := 1 } c1
def b1 : Hist := applyRemote { actor := 2 } 1 c1
/-- A: two increases by 1 -/
def c2 : List UOp := [.increase (tk 1 1 1) 1 (tk 2 1 1)]
def c3 : List UOp := [.increase (tk 1 1 1) 1 (tk 3 1 1)]
def a3 : Hist := doChange (doChange a1 c2) c3
/-- B, concurrently: `c = Counter(6)` then undo (restores the snapshot of T1 it knew: 0) -/
def c4 : List UOp := [.set rootId "c" (cv 6 (tk 3 1 2)) (tk 3 1 2)]
def b2 : Hist := doChange b1 c4
def c5 : List UOp := shipped (undoRedo b2 true)
def b3 : Hist := undo b2
/-- full exchange -/
def aF : Hist := applyRemote (applyRemote a3 3 c4) 4 c5
def bF : Hist := applyRemote (applyRemote b3 2 c2) 3 c3
end W2

/-! W3: an operation skipped on the author stays in the change and executes on the peer -/
namespace W3
def o : Ticket := tk 1 1 1
def x : Ticket := tk 2 1 1
/-- A: `o = {}` -/
def c1 : List UOp := [.set rootId "o" { id := o, body := emptyObj } o]
def a1 : Hist := doChange { actor := 1 } c1
def b1 : Hist := applyRemote { actor := 2 } 1 c1
/-- A: one change with two operations: `o.x = 1`, `y = 2` -/
def c2 : List UOp := [.set o "x" (pv "1" x) x, .set rootId "y" (pv "2" (tk 2 2 1)) (tk 2 2 1)]
def a2 : Hist := doChange a1 c2
/-- B, concurrently: remove `o` -/
def c3 : List UOp := [.remove rootId o (tk 3 1 2)]
def b2 : Hist := doChange b1 c3
def a3 : Hist := applyRemote a2 3 c3
/-- A: undo of c2 = [remove y, remove o.x]; the second is skipped on A (its parent `o` is gone) -/
def c4 : List UOp := shipped (undoRedo a3 true)
def a4 : Hist := undo a3
def bF : Hist := applyRemote (applyRemote b2 2 c2) 5 c4
end W3

/-! W4: the upstream-documented redo + GC history -/
namespace W4
def n : Ticket := tk 1 1 1
def c1 : List UOp := [.set rootId "n" (pv "1" n) n]
def a1 : GHist := gdoChange { h := { actor := 1 } } c1
/-- undo = remove T1 at 2:1:1 -/
def c2 : List UOp := gshipped (gundoRedo a1 true)
def a2 : GHist := gundo a1
/-- redo = Set of a copy of T1 under T1 at 3:1:1 -/
def c3 : List UOp := gshipped (gundoRedo a2 false)
def a3 : GHist := gredo a2
def b3 : GHist := gapplyRemote (gapplyRemote (gapplyRemote { h := { actor := 2 } } 1 c1) 2 c2) 3 c3
end W4

/-! W5: a restoring undo that arrives at a replica which registered the identity as removed -/
namespace W5
def c1 : List UOp := [.set rootId "a" (pv "1" (tk 1 1 1)) (tk 1 1 1)]
def c2 : List UOp := [.set rootId "a" (pv "2" (tk 2 1 1)) (tk 2 1 1)]
/-- A: `a = 1` (T1), `a = 2`, undo (T1 restored at 3:1:1) -/
def a3 : GHist := gundo (gdoChange (gdoChange { h := { actor := 1 } } c1) c2)
/-- B knows c1; `a = 3` at 3:1:2, undo (Set of a copy of T1 under T1 at 4:1:2) -/
def b1 : GHist := gapplyRemote { h := { actor := 2 } } 1 c1
def c4 : List UOp := [.set rootId "a" (pv "3" (tk 3 1 2)) (tk 3 1 2)]
def b2 : GHist := gdoChange b1 c4
def c5 : List UOp := gshipped (gundoRedo b2 true)
def b3 : GHist := gundo b2
/-- A applies both changes of B (one pack) -/
def aF : GHist := gapplyRemote (gapplyRemote a3 3 c4) 4 c5
/-- the version vector that pack carries -/
def vv : VV := [(1, 1), (2, 4)]
end W5

end Yorkie.Undo.Sync
