/-
`Tree.WF` is an invariant of EVERY tree operation of the model: `Tree.Edit` with any split level (merge, split,
insertion, deletion), `Tree.Style`/`RemoveStyle`, at the level of the CRDT, of the operations and of the replicas.
-/
import YorkieModel.Lemmas.TreeWFSplit
import YorkieModel.Lemmas.TreeWFDoc
namespace Yorkie.Tree
open Yorkie

/-- **`Tree.Edit` keeps the arena well-formed** - any range, any split level, any version vector; the contents
    are detached, pairwise distinct subtrees already in the arena -/
theorem edit_wf_all {t t' : Tree} {src src' : TickSrc} (w : t.WF) (fr to : Pos) (contents : List Ptr) (splitLevel : Nat)
    (ts : Ticket) (vv : VV) (rev : Bool) (hc : ∀ c ∈ contents, c < t.size ∧ (t.get c).parent = none)
    (hnd : contents.Nodup) (h : t.edit fr to contents splitLevel ts src vv rev = .ok (t', src')) :
    t'.WF ∧ t.size ≤ t'.size := by
  unfold Tree.edit at h
  split at h
  · cases h
  · rename_i t1 fp fl0 h1
    have g1 := findNodesSplit_good w fr ts false h1
    split at h
    · cases h
    · rename_i t2 tp tl0 h2
      have g2 := findNodesSplit_good g1.1 to ts false h2
      simp only at h
      split at h
      · cases h
      · split at h
        · cases h
        · rename_i col _
          have sl3 := SameLinks.foldl (fun a n => SameLinks.removeNode a n ts) col.removeds t2
          have w3 := g2.1.sameLinks sl3
          have hfp2 : fp < t2.size := Nat.lt_of_lt_of_le g1.2.2.1 g2.2.1.1
          split at h
          · cases h
          · rename_i t4 h4
            have g4 := mergeGo_good _ ts col.moved _ t4 w3 (w3.resolveMergeTarget_lt (sl3.1 ▸ hfp2)) h4
            have sl5 := SameLinks.propagateGo (t4.resolveMergeTarget fp) col.merged ts col.removeds t4
            have w5 := g4.1.sameLinks sl5
            have k05 : Keeps t _ := g1.2.1.trans (g2.2.1.trans ((Keeps.of_sameLinks sl3).trans (g4.2.trans (Keeps.of_sameLinks sl5))))
            split at h
            · cases h
            · rename_i t6 src6 h6
              have g6 := splitLoop_good ts vv splitLevel _ _ _ _ t6 src6 w5 h6
              have k06 := k05.trans g6.2
              try simp only at h
              split at h
              · cases h; exact ⟨g6.1, k06.1⟩
              · split at h
                · cases h
                · rename_i t7 h7
                  cases h
                  have hfp6 : fp < t6.size := Nat.lt_of_lt_of_le g1.2.2.1
                    ((g2.2.1.trans ((Keeps.of_sameLinks sl3).trans (g4.2.trans (Keeps.of_sameLinks sl5)))).trans g6.2).1
                  have g7 := insertContents_good ts fp _ _ _ _ t' g6.1 hfp6
                    (fun c hcm => by
                      have hc' := hc c (List.mem_filter.mp hcm).1
                      exact ⟨Nat.lt_of_lt_of_le hc'.1 k06.1, k06.2 c hc'.1 hc'.2⟩)
                    (hnd.sublist List.filter_sublist) h7
                  exact ⟨g7.1, by rw [g7.2]; exact k06.1⟩

theorem applyEdit_wf_all {t t' : Tree} {src src' : TickSrc} (w : t.WF) (fr to : Pos) (contents : List (List Flat))
    (splitLevel : Nat) (ts : Ticket) (vv : VV) (rev : Bool)
    (h : t.applyEdit fr to contents splitLevel ts src vv rev = .ok (t', src')) : t'.WF ∧ t.size ≤ t'.size := by
  unfold Tree.applyEdit at h
  simp only at h
  split at h
  · cases h
  · rename_i t1 ps hal
    have g := allocFold_good contents t [] t1 ps w (fun c hc => by cases hc) List.nodup_nil hal
    have e := edit_wf_all g.1 fr to ps splitLevel ts vv rev g.2.2.1 g.2.2.2 h
    exact ⟨e.1, Nat.le_trans g.2.1 e.2⟩

/-- **every operation keeps the tree well-formed**, wherever it executes -/
theorem applyOp_wf_all {t t' : Tree} (w : t.WF) (op : Op) (vv : VV) (rev : Bool) (h : t.applyOp op vv rev = .ok t') :
    t'.WF := by
  cases op with
  | style fr to arg ts => exact (style_wf w fr to arg ts vv h).1
  | edit fr to cs sl ts st =>
    unfold Tree.applyOp at h
    simp only at h
    split at h
    · cases h
    · rename_i t'' s'' heq
      cases h
      exact (applyEdit_wf_all w fr to cs sl ts vv rev heq).1

theorem Rep.applyRemote_wf_all {r r' : Rep} (w : r.WF) (ch : Change) (h : r.applyRemote ch = .ok r') : r'.WF := by
  unfold Rep.applyRemote at h
  split at h
  · cases h
  · rename_i clone' hc
    split at h
    · cases h
    · rename_i root' hr
      cases h
      exact ⟨applyOp_wf_all w.1 _ _ _ hr, applyOp_wf_all w.2 _ _ _ hc⟩

theorem localCall_wf_all {clone t' : Tree} {op : Op} (w : clone.WF) (nid : ChangeID) (c : Call)
    (h : localCall clone nid c = .ok (some (t', op))) : t'.WF := by
  unfold localCall at h
  cases c with
  | nop => simp at h
  | edit fr to contents sl =>
    simp only at h
    split at h
    · cases h
    · split at h
      · try simp only at h
        split at h
        · cases h
        · rename_i t'' src'' heq
          cases h
          exact (applyEdit_wf_all w _ _ _ _ _ _ _ heq).1
      · cases h
      · cases h
  | style fr to kvs =>
    simp only at h
    split at h
    · cases h
    · split at h
      · cases h
      · split at h
        · try simp only at h
          split at h
          · cases h
          · rename_i t'' heq
            cases h
            exact (style_wf w _ _ _ _ _ heq).1
        · cases h
        · cases h
  | removeStyle fr to keys =>
    simp only at h
    split at h
    · cases h
    · split at h
      · cases h
      · split at h
        · try simp only at h
          split at h
          · cases h
          · rename_i t'' heq
            cases h
            exact (style_wf w _ _ _ _ _ heq).1
        · cases h
        · cases h

/-- **`Document.Update` keeps both copies well-formed** (any call) -/
theorem Rep.update_wf_all {r r' : Rep} {ch : Option Change} (w : r.WF) (c : Call) (h : r.update c = .ok (r', ch)) :
    r'.WF := by
  unfold Rep.update at h
  simp only at h
  split at h
  · cases h
  · cases h; exact w
  · rename_i clone' op hl
    have g := localCall_wf_all w.2 _ c hl
    split at h
    · cases h
    · rename_i root' hr
      cases h
      exact ⟨applyOp_wf_all w.1 op _ _ hr, g⟩

theorem Rep.wf_mk (i : ChangeID) (a b : Tree) (ha : a.WF) (hb : b.WF) : ({ id := i, root := a, clone := b } : Rep).WF := ⟨ha, hb⟩

/-- **every replica of the two-client scenario is well-formed at the end of a run** (any initial tree, any two calls):
    both editors, root and clone -/
theorem runCase_wf {c : Case} {o : Outcome} (it : JItem) (r : List JItem) (hinit : c.init = it :: r)
    (h : runCase c = .ok o) : o.d1.WF ∧ o.d2.WF := by
  unfold runCase at h
  simp only at h
  split at h
  · cases h
  · rename_i tw htw
    have w0 : (initialTree actor1 c.init).WF := by
      have := initialTree_wf actor1 it r
      rw [← hinit] at this
      exact this
    have ww : tw.deepCopy.WF := deepCopy_wf (snapshot_wf htw)
    split at h
    · cases h
    · rename_i d1a ch1 h1
      have g1 : d1a.WF := by
        refine Rep.update_wf_all ?_ c.call1 h1
        exact Rep.wf_mk _ _ _ (deepCopy_wf w0) w0
      split at h
      · cases h
      · rename_i d2a ch2 h2
        have g2 : d2a.WF := by
          refine Rep.update_wf_all ?_ c.call2 h2
          exact Rep.wf_mk _ _ _ ww ww
        split at h
        · cases h
        · rename_i d1b hb1
          split at h
          · cases h
          · rename_i d2b hb2
            cases h
            refine ⟨?_, ?_⟩
            · unfold Rep.applyRemoteO at hb1
              split at hb1
              · exact Rep.applyRemote_wf_all g1 _ hb1
              · cases hb1; exact g1
            · unfold Rep.applyRemoteO at hb2
              split at hb2
              · exact Rep.applyRemote_wf_all g2 _ hb2
              · cases hb2; exact g2

end Yorkie.Tree
