/-
Text undo/redo: reachable states of the ghost history machine, totality on edit-only histories, and
the machine-level form of the depth-1 statements (core Lean only).
-/
import YorkieModel.Lemmas.TextUndoDepth1
namespace Yorkie.TextUndo
open Yorkie Yorkie.Text

/-- states of the history machine (with ghost records) reachable by successful, effective changes
    and by undo / redo steps whose entry runs without an error -/
inductive Reach : GHist → Prop
  /-- a fresh document holding an empty text; `lam` is the clock after the change that created it -/
  | init (actor : Actor) (lam : Int) (h : 0 ≤ lam) : Reach { h := { actor := actor, lamport := lam } }
  | change {g : GHist} (ops : List TOp) : Reach g → (∀ op ∈ ops, OpFixed op) →
      (fwdRun g.h ops).failed = false → (∀ y ∈ (fwdRun g.h ops).revs, y.isNoop = false) →
      Reach (g.change ops)
  | undo {g : GHist} : Reach g →
      (∀ e rest, g.h.undo = e :: rest → e.isEmpty = false → (revRun g.h e).failed = false) → Reach g.undo
  | redo {g : GHist} : Reach g →
      (∀ e rest, g.h.redo = e :: rest → e.isEmpty = false → (revRun g.h e).failed = false) → Reach g.redo

theorem ginv_init (actor : Actor) (lam : Int) (h : 0 ≤ lam) :
    GInv { h := { actor := actor, lamport := lam } } := by
  refine ⟨wf_init, ?_, ?_, ?_, ?_, ?_, ?_, ?_⟩
  · intro n hn
    simp only [Text.init, List.mem_singleton] at hn
    subst hn
    exact Or.inl (by simpa [headNode, headId] using h)
  · intro e he; cases he
  · intro e he; cases he
  · simp [Chain]
  · simp [Chain]
  · simp
  · simp

theorem reach_inv {g : GHist} (r : Reach g) : GInv g := by
  induction r with
  | init actor lam h => exact ginv_init actor lam h
  | change ops _ hfix hnf hnn ih => exact ginv_change ih hfix hnf hnn
  | undo _ hnf ih => exact (ginv_undo ih hnf).1
  | redo _ hnf ih => exact (ginv_redo ih hnf).1

/-! ### which reverses a run produces -/

theorem runWith_revs_all {α} (exec : α → Ticket → Option VV → TextSt → Except Err Res) (lam : Int)
    (actor : Actor) (vv : Option VV) (P : TRev → Prop) :
    ∀ (ops : List α) (i : Nat) (r : Run),
      (∀ op ∈ ops, ∀ ts s res, exec op ts vv s = .ok res → ∀ y, res.rev = some y → P y) →
      (∀ y ∈ r.revs, P y) → ∀ y ∈ (runWith exec lam actor vv i ops r).revs, P y
  | [], _, _, _, hr => hr
  | op :: rest, i, r, hex, hr => by
    simp only [runWith]
    split
    · exact hr
    · split
      · exact hr
      · rename_i res hres
        apply runWith_revs_all exec lam actor vv P rest (i + 1) _
          (fun o ho => hex o (List.mem_cons_of_mem _ ho))
        intro y hy
        simp only at hy
        cases hrv : res.rev with
        | none => rw [hrv] at hy; exact hr y hy
        | some z =>
          rw [hrv] at hy
          rcases List.mem_cons.mp hy with rfl | hy
          · exact hex op List.mem_cons_self _ _ _ hres _ hrv
          · exact hr y hy

def TRev.isSpans : TRev → Bool
  | .spans _ _ _ _ => true
  | _ => false

def TRev.isStyle : TRev → Bool
  | .style _ _ _ _ => true
  | _ => false

theorem execSpans_rev {fr : Pos} {R K : List Span} {m : RMode} {ts : Ticket} {vv : Option VV}
    {s : TextSt} {res : Res} (h : execSpans fr R m K ts vv s = .ok res) :
    res.rev = some (.spans fr R m.flip K) := by
  unfold execSpans at h
  split at h
  · cases h
  · simp only at h
    split at h
    · cases h
    · split at h
      · cases h
      · injection h with h; subst h; rfl

theorem execEdit_rev {fr to : Pos} {content : List Nat} {attrs : List (String × String)} {ts : Ticket}
    {vv : Option VV} {s : TextSt} {res : Res} (h : execEdit fr to content attrs ts vv s = .ok res) :
    ∃ fp R, res.rev = some (reverseOfEdit fp R content ts) := by
  unfold execEdit at h
  split at h
  · cases h
  · simp only at h
    split at h
    · cases h
    · injection h with h; subst h; exact ⟨_, _, rfl⟩

theorem reverseOfEdit_not_style (fp : Pos) (R : List Span) (content : List Nat) (ts : Ticket) :
    (reverseOfEdit fp R content ts).isStyle = false := by
  unfold reverseOfEdit; split <;> rfl

/-- an entry of span reverses only -/
def SpansOnly (e : List TRev) : Prop := ∀ y ∈ e, y.isSpans = true

def EditsOnly (ops : List TOp) : Prop := ∀ op ∈ ops, ∃ fr to c a, op = TOp.edit fr to c a

theorem spans_of_flags {y : TRev} (h1 : y.isNoop = false) (h2 : y.isStyle = false) : y.isSpans = true := by
  cases y <;> simp_all [TRev.isNoop, TRev.isStyle, TRev.isSpans]

theorem fwdRun_spansOnly {h : THist} {ops : List TOp} (he : EditsOnly ops)
    (hnn : ∀ y ∈ (fwdRun h ops).revs, y.isNoop = false) : SpansOnly (fwdRun h ops).revs := by
  intro y hy
  refine spans_of_flags (hnn y hy) ?_
  refine runWith_revs_all execFwd _ _ _ (fun y => y.isStyle = false) ops 1 { st := h.st } ?_ (by simp) y hy
  intro op hop ts s res hres z hz
  obtain ⟨fr, to, c, a, rfl⟩ := he op hop
  obtain ⟨fp, R, hr⟩ := execEdit_rev hres
  rw [hr] at hz; injection hz with hz; subst hz
  exact reverseOfEdit_not_style _ _ _ _

theorem revRun_spansOnly {h : THist} {e : List TRev} (he : SpansOnly e) : SpansOnly (revRun h e).revs := by
  intro y hy
  refine runWith_revs_all execRev _ _ _ (fun y => y.isSpans = true) e 1 { st := h.st } ?_ (by simp) y hy
  intro x hx ts s res hres z hz
  cases x with
  | spans fr R m K =>
    simp only [execRev] at hres
    rw [execSpans_rev hres] at hz; injection hz with hz; subst hz; rfl
  | noop a b => have := he _ hx; simp [TRev.isSpans] at this
  | style a b c d => have := he _ hx; simp [TRev.isSpans] at this

/-- span entries whose spans are tiled never fail -/
theorem rev_run_spans_ok {lam : Int} {actor : Actor} : ∀ (e : List TRev) (i : Nat) (r : Run),
    r.failed = false → WF r.st → TB lam actor 0 r.st → (∀ x ∈ e, RevOK lam actor 0 r.st x) → SpansOnly e →
    (runWith execRev (lam + 1) actor (some [(actor, lam + 1)]) i e r).failed = false
  | [], _, _, hf, _, _, _, _ => hf
  | x :: rest, i, r, hf, wf, tb, hok, hsp => by
    cases x with
    | spans fr R m K =>
      obtain ⟨res, g, hex, _⟩ := rev_spans_ok wf (hok _ List.mem_cons_self) i
      have st1 := rev_step wf tb (hok _ List.mem_cons_self) i hex
      simp only [runWith, hf, Bool.false_eq_true, if_false, hex]
      exact rev_run_spans_ok rest (i + 1) _ rfl st1.wf st1.tb
        (fun y hy => (hok y (List.mem_cons_of_mem _ hy)).trans (Nat.le_refl 0) (fun sp _ t => st1.tiled sp t))
        (fun y hy => hsp y (List.mem_cons_of_mem _ hy))
    | noop a b => have := hsp _ List.mem_cons_self; simp [TRev.isSpans] at this
    | style a b c d => have := hsp _ List.mem_cons_self; simp [TRev.isSpans] at this

theorem revRun_spans_ok {g : GHist} (inv : GInv g) {e : List TRev}
    (hok : ∀ x ∈ e, RevOK g.h.lamport g.h.actor 0 g.h.st x) (hsp : SpansOnly e) :
    (revRun g.h e).failed = false :=
  rev_run_spans_ok e 1 { st := g.h.st } rfl inv.wf inv.tb hok hsp

/-! ### edit-only histories: undo / redo are total -/

/-- histories of content edits only; undo and redo at any time, no side condition on them -/
inductive ReachE : GHist → Prop
  | init (actor : Actor) (lam : Int) (h : 0 ≤ lam) : ReachE { h := { actor := actor, lamport := lam } }
  | change {g : GHist} (ops : List TOp) : ReachE g → EditsOnly ops → (∀ op ∈ ops, OpFixed op) →
      (fwdRun g.h ops).failed = false → (∀ y ∈ (fwdRun g.h ops).revs, y.isNoop = false) →
      ReachE (g.change ops)
  | undo {g : GHist} : ReachE g → ReachE g.undo
  | redo {g : GHist} : ReachE g → ReachE g.redo

def AllSpans (g : GHist) : Prop := (∀ e ∈ g.h.undo, SpansOnly e) ∧ (∀ e ∈ g.h.redo, SpansOnly e)

theorem push_mem_all {P : List TRev → Prop} {stack : List (List TRev)} {e : List TRev}
    (hs : ∀ e' ∈ stack, P e') (he : P e) : ∀ e' ∈ push stack e, P e' := by
  intro e' h
  rcases mem_push h with rfl | h
  · exact he
  · exact hs e' h

theorem allSpans_change {g : GHist} (a : AllSpans g) {ops : List TOp} (he : EditsOnly ops)
    (hnf : (fwdRun g.h ops).failed = false) (hnn : ∀ y ∈ (fwdRun g.h ops).revs, y.isNoop = false) :
    AllSpans (g.change ops) := by
  have hdo : (doChange g.h ops).1 =
      { g.h with st := (fwdRun g.h ops).st,
                 undo := if (fwdRun g.h ops).revs.isEmpty then g.h.undo else push g.h.undo (fwdRun g.h ops).revs,
                 redo := if (fwdRun g.h ops).observable then [] else g.h.redo,
                 lamport := g.h.lamport + 1 } := by
    have : runWith execFwd (g.h.lamport + 1) g.h.actor g.h.nextVV 1 ops { st := g.h.st } = fwdRun g.h ops := rfl
    simp only [doChange, doChangeFrom, this, hnf, Bool.false_eq_true, if_false]
  constructor <;> simp only [GHist.change, hdo]
  · split
    · exact a.1
    · exact push_mem_all a.1 (fwdRun_spansOnly he hnn)
  · split
    · intro e he'; cases he'
    · exact a.2

theorem undo_stacks {h : THist} :
    (∀ e ∈ (undo h).undo, e ∈ h.undo) ∧
    (∀ e ∈ (undo h).redo, e ∈ h.redo ∨ ∃ e0 rest, h.undo = e0 :: rest ∧ e = (revRun h e0).revs) := by
  cases hu : h.undo with
  | nil => rw [undo_nil hu]; exact ⟨fun e he => hu ▸ he, fun e he => Or.inl he⟩
  | cons e0 rest =>
    have hr : runWith execRev (h.lamport + 1) h.actor h.nextVV 1 e0 { st := h.st } = revRun h e0 := rfl
    by_cases hem : e0.isEmpty = true
    · simp only [undo, undoRedo, hu, if_true, hem]
      exact ⟨fun e he => List.mem_cons_of_mem _ he, fun e he => Or.inl he⟩
    · by_cases hf : (revRun h e0).failed = true
      · simp only [undo, undoRedo, hu, if_true, hem, hr, hf, Bool.false_eq_true, if_false]
        exact ⟨fun e he => List.mem_cons_of_mem _ he, fun e he => Or.inl he⟩
      · simp only [undo, undoRedo, hu, if_true, hem, hr, hf, Bool.false_eq_true, if_false]
        by_cases ho : (revRun h e0).observable = true <;>
          by_cases hv : (revRun h e0).revs.isEmpty = true <;> simp only [ho, hv, if_true, if_false,
            Bool.false_eq_true]
        all_goals
          refine ⟨fun e he => List.mem_cons_of_mem _ he, fun e he => ?_⟩
          first
          | exact Or.inl he
          | (rcases mem_push he with rfl | he
             · exact Or.inr ⟨e0, rest, rfl, rfl⟩
             · exact Or.inl he)

theorem redo_stacks {h : THist} :
    (∀ e ∈ (redo h).redo, e ∈ h.redo) ∧
    (∀ e ∈ (redo h).undo, e ∈ h.undo ∨ ∃ e0 rest, h.redo = e0 :: rest ∧ e = (revRun h e0).revs) := by
  cases hu : h.redo with
  | nil => rw [redo_nil hu]; exact ⟨fun e he => hu ▸ he, fun e he => Or.inl he⟩
  | cons e0 rest =>
    have hr : runWith execRev (h.lamport + 1) h.actor h.nextVV 1 e0 { st := h.st } = revRun h e0 := rfl
    by_cases hem : e0.isEmpty = true
    · simp only [redo, undoRedo, hu, Bool.false_eq_true, if_false, hem, if_true]
      exact ⟨fun e he => List.mem_cons_of_mem _ he, fun e he => Or.inl he⟩
    · by_cases hf : (revRun h e0).failed = true
      · simp only [redo, undoRedo, hu, hem, hr, hf, Bool.false_eq_true, if_false, if_true]
        exact ⟨fun e he => List.mem_cons_of_mem _ he, fun e he => Or.inl he⟩
      · simp only [redo, undoRedo, hu, hem, hr, hf, Bool.false_eq_true, if_false]
        by_cases ho : (revRun h e0).observable = true <;>
          by_cases hv : (revRun h e0).revs.isEmpty = true <;> simp only [ho, hv, if_true, if_false,
            Bool.false_eq_true]
        all_goals
          refine ⟨fun e he => List.mem_cons_of_mem _ he, fun e he => ?_⟩
          first
          | exact Or.inl he
          | (rcases mem_push he with rfl | he
             · exact Or.inr ⟨e0, rest, rfl, rfl⟩
             · exact Or.inl he)

theorem ghist_undo_h (g : GHist) : g.undo.h = undo g.h := by
  unfold GHist.undo; split <;> rfl

theorem ghist_redo_h (g : GHist) : g.redo.h = redo g.h := by
  unfold GHist.redo; split <;> rfl

theorem allSpans_undo {g : GHist} (a : AllSpans g) : AllSpans g.undo := by
  unfold AllSpans
  rw [ghist_undo_h]
  obtain ⟨s1, s2⟩ := undo_stacks (h := g.h)
  refine ⟨fun e he => a.1 e (s1 e he), fun e he => ?_⟩
  rcases s2 e he with he | ⟨e0, rest, hu, rfl⟩
  · exact a.2 e he
  · exact revRun_spansOnly (a.1 e0 (by rw [hu]; exact List.mem_cons_self))

theorem allSpans_redo {g : GHist} (a : AllSpans g) : AllSpans g.redo := by
  unfold AllSpans
  rw [ghist_redo_h]
  obtain ⟨s1, s2⟩ := redo_stacks (h := g.h)
  refine ⟨fun e he => ?_, fun e he => a.2 e (s1 e he)⟩
  rcases s2 e he with he | ⟨e0, rest, hu, rfl⟩
  · exact a.1 e he
  · exact revRun_spansOnly (a.2 e0 (by rw [hu]; exact List.mem_cons_self))

theorem reachE_inv {g : GHist} (r : ReachE g) : Reach g ∧ AllSpans g := by
  induction r with
  | init actor lam h => exact ⟨Reach.init actor lam h, by simp [AllSpans]⟩
  | change ops _ he hfix hnf hnn ih => exact ⟨Reach.change ops ih.1 hfix hnf hnn, allSpans_change ih.2 he hnf hnn⟩
  | @undo g _ ih =>
    refine ⟨Reach.undo ih.1 ?_, allSpans_undo ih.2⟩
    intro e rest hu _
    have inv := reach_inv ih.1
    exact revRun_spans_ok inv (fun x hx => inv.uok e (by rw [hu]; exact List.mem_cons_self) x hx)
      (ih.2.1 e (by rw [hu]; exact List.mem_cons_self))
  | @redo g _ ih =>
    refine ⟨Reach.redo ih.1 ?_, allSpans_redo ih.2⟩
    intro e rest hu _
    have inv := reach_inv ih.1
    exact revRun_spans_ok inv (fun x hx => inv.rok e (by rw [hu]; exact List.mem_cons_self) x hx)
      (ih.2.2 e (by rw [hu]; exact List.mem_cons_self))

/-! ### an identity-preserving reverse touches `removedAt` only -/

theorem execSpans_only_removed {s : TextSt} (wf : WF s) {fr : Pos} {R K : List Span} {m : RMode}
    {ts : Ticket} {vv : Option VV} (tR : ∀ sp ∈ R, Tiled s sp) (tK : ∀ sp ∈ K, Tiled s sp)
    (hv : validSpans vv R = true ∧ validSpans vv K = true) :
    ∃ res f, execSpans fr R m K ts vv s = .ok res ∧ res.st = s.map f ∧ OnlyRemoved f := by
  have comp : ∀ (A B : List Span), OnlyRemoved (reviveAll A ∘ killAll ts B) := by
    intro A B n
    have h1 := onlyRemoved_killAll ts B n
    have h2 := onlyRemoved_reviveAll A (killAll ts B n)
    exact ⟨h2.1.trans h1.1, h2.2.1.trans h1.2.1, h2.2.2.1.trans h1.2.2.1, h2.2.2.2.trans h1.2.2.2⟩
  have go : ∀ (A B : List Span), (∀ sp ∈ A, Tiled s sp) → (∀ sp ∈ B, Tiled s sp) →
      ∃ c2, (match retombAll ts B s false with
        | .error e => (.error e : Except Err (TextSt × Bool))
        | .ok (s1, c1) => restoreAll A s1 c1) = .ok (s.map (reviveAll A ∘ killAll ts B), c2) := by
    intro A B tA tB
    obtain ⟨c1, h1⟩ := retombAll_tiled wf ts tB false
    have wf1 := wf_map_keeps wf (lv_keeps_killAll ts B)
    have tA1 : ∀ sp ∈ A, Tiled (s.map (killAll ts B)) sp :=
      fun sp h => tiled_map_keepsShape (lv_keeps_killAll ts B) (tA sp h)
    obtain ⟨c2, h2⟩ := restoreAll_tiled wf1 tA1 c1
    exact ⟨c2, by rw [h1]; simp only; rw [h2, List.map_map]⟩
  unfold execSpans
  simp only [hv.1, hv.2, Bool.and_self, Bool.not_true, Bool.false_eq_true, if_false]
  cases m with
  | restore =>
    obtain ⟨c2, h⟩ := go R K tR tK
    simp only at h ⊢
    split at h
    · cases h
    · rename_i s1 c1 h1
      rw [h1]; simp only; rw [h]
      exact ⟨_, _, rfl, rfl, comp R K⟩
  | retombstone =>
    obtain ⟨c2, h⟩ := go K R tK tR
    simp only at h ⊢
    split at h
    · cases h
    · rename_i s1 c1 h1
      rw [h1]; simp only; rw [h]
      exact ⟨_, _, rfl, rfl, comp K R⟩

/-! ### depth 1 on the machine -/

theorem push_cons (stack : List (List TRev)) (e : List TRev) : ∃ t, push stack e = e :: t := by
  unfold push; split <;> exact ⟨_, rfl⟩

theorem change_fields {g : GHist} {ops : List TOp} (hnf : (fwdRun g.h ops).failed = false) :
    (g.change ops).h.st = (fwdRun g.h ops).st ∧
    (g.change ops).h.undo = (if (fwdRun g.h ops).revs.isEmpty then g.h.undo else push g.h.undo (fwdRun g.h ops).revs) ∧
    (g.change ops).h.lamport = g.h.lamport + 1 ∧ (g.change ops).h.actor = g.h.actor := by
  have : runWith execFwd (g.h.lamport + 1) g.h.actor g.h.nextVV 1 ops { st := g.h.st } = fwdRun g.h ops := rfl
  simp [GHist.change, doChange, doChangeFrom, this, hnf]

theorem run_single_ok {α} (exec : α → Ticket → Option VV → TextSt → Except Err Res) (lam : Int)
    (actor : Actor) (vv : Option VV) (op : α) (s : TextSt) {res : Res}
    (h : exec op ⟨lam, 1, actor⟩ vv s = .ok res) :
    runWith exec lam actor vv 1 [op] { st := s } =
      { st := res.st, observable := false || res.observable, revs := consRev res.rev [] } := by
  simp [runWith, h]

theorem run_single_err {α} (exec : α → Ticket → Option VV → TextSt → Except Err Res) (lam : Int)
    (actor : Actor) (vv : Option VV) (op : α) (s : TextSt) {e : Err}
    (h : exec op ⟨lam, 1, actor⟩ vv s = .error e) :
    (runWith exec lam actor vv 1 [op] { st := s }).failed = true := by
  simp [runWith, h]

/-- **depth 1 on the history machine**: one effective edit at visible indices `fr ≤ to`, then
    `Undo()`, then `Redo()` -/
theorem depth1_machine {g : GHist} (inv : GInv g) {fr to : Nat} (hft : fr ≤ to)
    (hto : to ≤ (visible g.h.st).length) {pf pt : Pos} (hpf : posOfIndex g.h.st fr = some pf)
    (hpt : posOfIndex g.h.st to = some pt) {content : List Nat} {attrs : List (String × String)}
    (hc : Fixed content) (hok : (fwdRun g.h [.edit pf pt content attrs]).failed = false)
    (heff : ∀ y ∈ (fwdRun g.h [.edit pf pt content attrs]).revs, y.isNoop = false) :
    visible (g.change [.edit pf pt content attrs]).undo.h.st =
      sanitize ((visible g.h.st).take fr) ++ sanitize (((visible g.h.st).take to).drop fr) ++
        sanitize ((visible g.h.st).drop to) ∧
    (g.change [.edit pf pt content attrs]).undo.h.st.map (·.id) =
      (g.change [.edit pf pt content attrs]).h.st.map (·.id) ∧
    visible (g.change [.edit pf pt content attrs]).undo.redo.h.st =
      visible (g.change [.edit pf pt content attrs]).h.st := by
  have hvv : g.h.nextVV = some [(g.h.actor, g.h.lamport + 1)] := rfl
  cases hex : execEdit pf pt content attrs ⟨g.h.lamport + 1, 1, g.h.actor⟩ (some [(g.h.actor, g.h.lamport + 1)]) g.h.st with
  | error e =>
    have := run_single_err execFwd (g.h.lamport + 1) g.h.actor g.h.nextVV (TOp.edit pf pt content attrs) g.h.st
      (e := e) (by simp only [execFwd, hvv]; exact hex)
    unfold fwdRun at hok; rw [this] at hok; cases hok
  | ok res =>
    have hrun : fwdRun g.h [.edit pf pt content attrs] =
        { st := res.st, observable := false || res.observable, revs := consRev res.rev [] } :=
      run_single_ok execFwd (g.h.lamport + 1) g.h.actor g.h.nextVV (TOp.edit pf pt content attrs) g.h.st
        (by simp only [execFwd, hvv]; exact hex)
    obtain ⟨fp, R, hrev⟩ := execEdit_rev hex
    have hrevs : (fwdRun g.h [.edit pf pt content attrs]).revs = [reverseOfEdit fp R content ⟨g.h.lamport + 1, 1, g.h.actor⟩] := by
      rw [hrun, hrev]; rfl
    have hnn := heff _ (by rw [hrevs]; exact List.mem_singleton.mpr rfl)
    obtain ⟨c1, c2, c3, c4⟩ := change_fields hok
    rw [hrevs] at c2
    simp only [List.isEmpty_cons, Bool.false_eq_true, if_false] at c2
    obtain ⟨t1, ht1⟩ := push_cons g.h.undo [reverseOfEdit fp R content ⟨g.h.lamport + 1, 1, g.h.actor⟩]
    rw [ht1] at c2
    rw [hrun] at c1; simp only at c1
    -- the operation-level statement
    have tb1 : TB g.h.lamport g.h.actor 1 g.h.st := fun n hn => (inv.tb n hn).mono (Nat.zero_le 1)
    obtain ⟨res1, y, h1, hr1, hv1, hid1, hredo⟩ :=
      undo_redo_do_ops inv.wf tb1 hft hto hpf hpt hc hex hrev hnn 1 (lam1 := g.h.lamport + 1) (Int.le_refl _)
    -- undo on the machine
    let g1 := g.change [.edit pf pt content attrs]
    have hvv1 : g1.h.nextVV = some [(g.h.actor, g.h.lamport + 1 + 1)] := by
      show some [(g1.h.actor, g1.h.lamport + 1)] = _
      rw [c3, c4]
    have hrun1 : revRun g1.h [reverseOfEdit fp R content ⟨g.h.lamport + 1, 1, g.h.actor⟩] =
        { st := res1.st, observable := false || res1.observable, revs := consRev res1.rev [] } := by
      unfold revRun
      rw [c3, c4, hvv1, c1]
      exact run_single_ok execRev _ _ _ _ _ h1
    have hnf1 : (revRun g1.h [reverseOfEdit fp R content ⟨g.h.lamport + 1, 1, g.h.actor⟩]).failed = false := by
      rw [hrun1]
    obtain ⟨f1, f2, f3, f4, f5⟩ := undo_fields (h := g1.h) c2 rfl hnf1
    have hu_st : g1.undo.h.st = res1.st := by rw [ghist_undo_h, f1, hrun1]
    refine ⟨by rw [hu_st]; exact hv1, by rw [hu_st, c1]; exact hid1, ?_⟩
    -- redo on the machine
    have hrevs1 : (revRun g1.h [reverseOfEdit fp R content ⟨g.h.lamport + 1, 1, g.h.actor⟩]).revs = [y] := by
      rw [hrun1, hr1]; rfl
    rw [hrevs1] at f3
    simp only [List.isEmpty_cons, Bool.false_eq_true, if_false] at f3
    obtain ⟨t2, ht2⟩ := push_cons g1.h.redo [y]
    rw [ht2] at f3
    have hl2 : g.h.lamport + 1 ≤ (undo g1.h).lamport := by
      rcases f5 with f5 | f5 <;> rw [f5, c3] <;> omega
    obtain ⟨res2, z, h2, _, hv2⟩ := hredo 1 (undo g1.h).lamport hl2
    have hact : (undo g1.h).actor = g.h.actor := by rw [f4, c4]
    have hrun2 : revRun (undo g1.h) [y] =
        { st := res2.st, observable := false || res2.observable, revs := consRev res2.rev [] } := by
      unfold revRun
      have : (undo g1.h).nextVV = some [(g.h.actor, (undo g1.h).lamport + 1)] := by
        show some [((undo g1.h).actor, (undo g1.h).lamport + 1)] = _
        rw [hact]
      rw [this, hact, f1, hrun1]
      exact run_single_ok execRev _ _ _ _ _ h2
    have hnf2 : (revRun (undo g1.h) [y]).failed = false := by rw [hrun2]
    obtain ⟨r1, _, _, _, _⟩ := redo_fields (h := undo g1.h) f3 rfl hnf2
    show visible g1.undo.redo.h.st = visible g1.h.st
    rw [ghist_redo_h, ghist_undo_h, r1, hrun2, c1]
    exact hv2

instance (op : TOp) : Decidable (OpFixed op) := by
  cases op <;> unfold OpFixed <;> infer_instance

theorem opFixed_single {o : TOp} (h : OpFixed o) : ∀ op ∈ [o], OpFixed op := by
  intro op hop; simp only [List.mem_singleton] at hop; subst hop; exact h

theorem editsOnly_single (fr to : Pos) (c : List Nat) (a : List (String × String)) :
    EditsOnly [TOp.edit fr to c a] := by
  intro op hop; simp only [List.mem_singleton] at hop; subst hop; exact ⟨_, _, _, _, rfl⟩

def Outcome.isFailed : Outcome → Bool
  | .failed _ => true
  | _ => false

theorem undoRedo_failed {h : THist} {isUndo : Bool} (hf : ((undoRedo h isUndo).2).isFailed = true) :
    ∃ e rest, (if isUndo then h.undo else h.redo) = e :: rest ∧ e.isEmpty = false ∧
      (revRun h e).failed = true := by
  unfold undoRedo at hf
  split at hf
  · simp [Outcome.isFailed] at hf
  · rename_i e rest hst
    have hr : runWith execRev (h.lamport + 1) h.actor h.nextVV 1 e { st := h.st } = revRun h e := rfl
    simp only [hr] at hf
    by_cases hem : e.isEmpty = true
    · simp [hem, Outcome.isFailed] at hf
    · by_cases hff : (revRun h e).failed = true
      · exact ⟨e, rest, hst, by simpa using hem, hff⟩
      · simp only [hem, hff, Bool.false_eq_true, if_false] at hf
        split at hf <;> simp [Outcome.isFailed] at hf

end Yorkie.TextUndo
