/-
Helper lemmas for C04: `dinv_step` – every well-behaved request preserves the delivery invariant.
-/
import YorkieModel.Lemmas.ServerDeliveryInv
namespace Yorkie.Server
open Yorkie

/-! ### the target entry after a successful `PushPull` -/

theorem ppok_entry {s s' : Server} {f f' : Flight} (hp : PPOk s f s' f') :
    ∃ cd0 cd loaded, f.info.docs.get? f.doc = some cd0 ∧ s.findClient f.client = some loaded ∧
      entryOf s' f.client f.doc = some (persistEntry cd loaded f.doc) ∧
      cd = (match f.status with
            | .attached => { cd0 with serverSeq := f'.resp.cp.serverSeq, clientSeq := f'.resp.cp.clientSeq }
            | .detached => { cd0 with status := .detached, clientSeq := 0, serverSeq := 0 }
            | .removed => { cd0 with status := .removed, clientSeq := 0, serverSeq := 0 }) := by
  obtain ⟨doc0, p, loaded, info', cd, r, vv, _, hl, _, _, _, hst, hcd, _, _, hcl, _, _, _, hcp', _⟩ := hp.ex
  obtain ⟨cd0, hcd0, _, hm⟩ := updateDocStatus_spec hst
  refine ⟨cd0, cd, loaded, hcd0, hl, ?_, ?_⟩
  · rw [entryOf_of_clients_eq (s' := s')
      (s := s.setClient f.client { loaded with docs := loaded.docs.set f.doc (persistEntry cd loaded f.doc) }) hcl,
      entryOf_setClient, if_pos rfl]
    exact AL.get?_set_self _ _ _
  · cases hs : f.status <;> rw [hs] at hm <;> simp only [StatusPost] at hm
    · rw [hm, AL.get?_set_self] at hcd; injection hcd with hcd; rw [← hcd, hcp']
    · rw [hm.2.2, AL.get?_set_self] at hcd; injection hcd with hcd; rw [← hcd]
    · rw [hm.2.2, AL.get?_set_self] at hcd; injection hcd with hcd; rw [← hcd]

theorem ppok_entry_attached {s s' : Server} {f f' : Flight} (hp : PPOk s f s' f') (hs : f.status = .attached)
    (hst : f.info.statusOf f.doc = some .attached) :
    ∃ e', entryOf s' f.client f.doc = some e' ∧ f'.resp.cp.clientSeq ≤ e'.clientSeq ∧
      ∀ l, entryOf s f.client f.doc = some l → l.clientSeq ≤ e'.clientSeq := by
  obtain ⟨cd0, cd, loaded, hcd0, hl, he, hcd⟩ := ppok_entry hp
  rw [hs] at hcd; simp only [] at hcd
  have hst0 : cd0.status = .attached := by
    rw [statusOf_of_get? hcd0] at hst; injection hst
  have hatt : (cd.status == DocStatus.attached) = true := by rw [hcd]; simp [hst0]
  refine ⟨_, he, ?_, ?_⟩
  · unfold persistEntry; rw [hatt]; simp only [if_true, mergeClientDoc]; rw [hcd]; simp only []; omega
  · intro l hl'
    rw [entryOf_findClient hl] at hl'
    unfold persistEntry; rw [hatt]; simp only [if_true, mergeClientDoc, hl', Option.getD_some]; omega

theorem ppok_entry_closed {s s' : Server} {f f' : Flight} (hp : PPOk s f s' f') (hs : f.status ≠ .attached) :
    ∃ e', entryOf s' f.client f.doc = some e' ∧ isOpenSt e'.status = false := by
  obtain ⟨cd0, cd, loaded, hcd0, hl, he, hcd⟩ := ppok_entry hp
  refine ⟨_, he, ?_⟩
  cases hst : f.status with
  | attached => exact absurd hst hs
  | detached => rw [hst] at hcd; simp only [] at hcd; rw [hcd]; simp [persistEntry, isOpenSt]
  | removed => rw [hst] at hcd; simp only [] at hcd; rw [hcd]; simp [persistEntry, isOpenSt]

/-! ### views of untouched attachments -/

theorem view_keep {s s' : Server} {g : Ghost} (h : DInv s g) (ext : DocsExt s s') (c : ClientId) (d : DocId)
    (doc' : Doc) (hd' : s'.docs.get? d = some doc') (hdp : doc'.disablePresence = false) :
    ViewOk c (g c d) doc'.log := by
  cases hd : s.docs.get? d with
  | none =>
    obtain ⟨h1, h2⟩ := h.fresh c d hd
    exact viewOk_of_initial c _ _ (gapFree_after ext h.gap d doc' hd').1 h1 h2
  | some doc =>
    obtain ⟨y, hy, e⟩ := ext.old d doc hd
    rw [hd'] at hy; injection hy with hy; subst hy
    obtain ⟨rows, hl, hq, _⟩ := e.rows
    rw [hl]
    refine (h.view c d doc hd (by rw [← e.dp]; exact hdp)).ext ?_
    rw [← (h.gap d doc hd).2]; exact hq

theorem fresh_keep {s s' : Server} {g : Ghost} (h : DInv s g) (ext : DocsExt s s') (c : ClientId) (d : DocId)
    (hn : s'.docs.get? d = none) : (g c d).cp = Checkpoint.initial ∧ (g c d).applied = [] := by
  cases hd : s.docs.get? d with
  | none => exact h.fresh c d hd
  | some doc => obtain ⟨y, hy, _⟩ := ext.old d doc hd; rw [hn] at hy; simp at hy

theorem detachMode_pack (s : Server) (c : ClientId) (d : DocId) (p : Pack) :
    (detachMode s c d p).1.cp = p.cp ∧ (detachMode s c d p).1.changes = p.changes := by
  unfold detachMode; split <;> exact ⟨rfl, rfl⟩

theorem detachMode_status_ne (s : Server) (c : ClientId) (d : DocId) (p : Pack) :
    (detachMode s c d p).2 ≠ .attached := by
  rcases detachMode_status s c d p with h | h <;> rw [h] <;> simp

/-- the generic case: a request of client `c` on document `d` that goes through `PushPull` with the
stored client row as its in-flight copy (PushPullChanges, DetachDocument, RemoveDocument) -/
theorem dinv_pp {s s' : Server} {g : Ghost} (h : DInv s g) {c : ClientId} {d : DocId} {info : Client} {doc : Doc}
    {pack : Pack} {po nogc : Bool} {st : ReqStatus} {out : Except ErrKind Resp} (lost : Bool)
    (ext : DocsExt s s') (est : EStep (fun c' d' => c' = c ∧ d' = d) s s')
    (hi : s.findClient c = some info) (hd : s.findDoc d = some doc)
    (hopen : st = .attached → info.statusOf d = some .attached)
    (hf : finish (pushPull s (mkFlight c d info pack po st nogc doc.disablePresence)) = (s', out))
    (hcp : pack.cp = (g c d).cp) (hown : ∀ x ∈ pack.changes, x.actor = c)
    (hns : ∀ r, out = .ok r → r.snapshot = false) :
    DInv s' (g.set c d (match out with
      | .ok r => if lost then g c d else receive (g c d) r
      | .error _ => g c d)) := by
  refine dinv_update h ext c d _ ?_ ?_ ?_ ?_
  · intro c' d' cd' hne he ho
    refine open_entry_unchanged est ?_ he ho
    rintro ⟨h1, h2⟩
    rcases hne with hne | hne
    · exact hne h1
    · exact hne h2
  · -- view
    intro doc' hd' hdp
    cases out with
    | error e => exact view_keep h ext c d doc' hd' hdp
    | ok r =>
      cases lost with
      | true => exact view_keep h ext c d doc' hd' hdp
      | false =>
        obtain ⟨f', hpp, hr⟩ := finish_ok hf
        have hp := pushPull_ppok hpp
        have hdoc : doc.disablePresence = false := by
          obtain ⟨y, hy, e⟩ := ext.old d doc hd
          rw [hd'] at hy; injection hy with hy; subst hy
          rw [← e.dp]; exact hdp
        obtain ⟨doc2, hd2, _, hv2, _, _⟩ := view_after_pushPull hp (v := g c d) (by simpa using hd)
          (h.gap d doc hd) (by simpa using hdoc) hdoc (by simpa using hcp) (by simpa using hown)
          (by simpa using h.view c d doc hd hdoc) (by rw [← hr]; exact hns r rfl)
        simp only [mkFlight_doc] at hd2
        rw [hd'] at hd2; injection hd2 with hd2; subst hd2
        simp only [Bool.false_eq_true, if_false]
        rw [hr]; simpa using hv2
  · -- fresh
    intro hn
    obtain ⟨y, hy, _⟩ := ext.old d doc hd
    rw [hn] at hy; simp at hy
  · -- ack
    intro cd' he ho
    have hold : ∀ l, entryOf s c d = some l → isOpenSt l.status = true → (g c d).cp.clientSeq ≤ l.clientSeq :=
      fun l hl hlo => h.ack c d l hl hlo
    cases out with
    | error e =>
      have hpe := finish_error hf
      have hcl := (pushPull_err hpe (by simpa using hi)).1
      rw [entryOf_of_clients_eq hcl] at he
      exact hold cd' he ho
    | ok r =>
      obtain ⟨f', hpp, hr⟩ := finish_ok hf
      have hp := pushPull_ppok hpp
      by_cases hst : st = .attached
      · obtain ⟨e', he', h1, h2⟩ := ppok_entry_attached hp (by simpa using hst) (by simpa using hopen hst)
        simp only [mkFlight_client, mkFlight_doc] at he' h2
        rw [he] at he'; injection he' with he'; subst he'
        obtain ⟨cd0, hcd0, hs0⟩ := statusOf_some (hopen hst)
        have hent : entryOf s c d = some cd0 := by rw [entryOf_findClient hi]; exact hcd0
        have hle := h2 cd0 hent
        have hg := hold cd0 hent (by rw [hs0]; rfl)
        cases lost with
        | true => simp only [if_true]; omega
        | false => simp only [Bool.false_eq_true, if_false, receive]; rw [hr]; exact h1
      · obtain ⟨e', he', hcl⟩ := ppok_entry_closed hp (by simpa using hst)
        simp only [mkFlight_client, mkFlight_doc] at he'
        rw [he] at he'; injection he' with he'; subst he'
        rw [ho] at hcl; simp at hcl


/-! ### attach -/

theorem clientsAttach_docs {s s' : Server} {c : ClientId} {info : Client} {d : DocId} {e : Int} {b : Bool}
    {x : Except ErrKind Client} (h : clientsAttach s c info d e b = (s', x)) : s'.docs = s.docs := by
  have hx : s' = s ∨ ∃ i, s' = s.setClient c i := by
    cases x with
    | error err =>
      rcases clientsAttach_error h with e1 | ⟨i, _, _, e1⟩
      · exact Or.inl e1
      · exact Or.inr ⟨_, e1⟩
    | ok info2 =>
      obtain ⟨info1, _, _, _, hcase⟩ := clientsAttach_ok h
      rcases hcase with ⟨_, e1, _⟩ | ⟨_, i, _, _, _, _, e1⟩
      · exact Or.inl e1
      · exact Or.inr ⟨_, e1⟩
  rcases hx with e1 | ⟨i, e1⟩ <;> subst e1 <;> rfl

theorem receive_attach (f' : Flight) (d : DocId) :
    receive {} { f'.resp with doc := some d } = receive {} f'.resp := rfl

theorem dinv_attach {s : Server} {g : Ghost} (h : DInv s g) (c : ClientId) (key : Nat) (pack : Pack) (dp nogc : Bool)
    (lost : Bool) (hcp : pack.cp = Checkpoint.initial) (hown : ∀ x ∈ pack.changes, x.actor = c)
    (hns : ∀ r, (attach s c key pack dp nogc).2 = .ok r → r.snapshot = false) :
    DInv (attach s c key pack dp nogc).1
      (ghostStep s g (.attach c key pack dp nogc) (attach s c key pack dp nogc).2 lost) := by
  have ext := attach_docsExt s h.wf c key pack dp nogc
  have est := step_estep s h.wf (.attach c key pack dp nogc)
  simp only [step] at est
  generalize ha : attach s c key pack dp nogc = res at ext est hns
  obtain ⟨s', out⟩ := res
  simp only [] at ext est hns ⊢
  -- the ghost is always reset at the target
  have hg : ghostStep s g (.attach c key pack dp nogc) out lost =
      g.set c (findOrCreateDoc s key dp).2 (match out with
        | .ok r => if lost then {} else receive {} r
        | .error _ => {}) := by
    cases out <;> rfl
  rw [hg]
  refine dinv_update h ext c _ _ ?_ ?_ ?_ ?_
  · intro c' d' cd' hne he ho
    refine open_entry_unchanged est ?_ he ho
    rintro ⟨h1, h2⟩
    rcases hne with hne | hne
    · exact hne h1
    · exact hne h2
  · intro doc' hd' hdp
    have hgap' := gapFree_after ext h.gap _ doc' hd'
    have hinit : ViewOk c {} doc'.log := viewOk_of_initial c _ _ hgap'.1 rfl rfl
    cases out with
    | error e => exact hinit
    | ok r =>
      cases lost with
      | true => exact hinit
      | false =>
        simp only [Bool.false_eq_true, if_false]
        rcases attach_inv ha with ⟨_, e, he, _⟩ | ⟨info, hi, _, haw⟩
        · simp at he
        · have ext1 := findOrCreateDoc_docsExt s h.wf key dp
          rcases attachWith_inv haw with ⟨_, _, he⟩ | ⟨doc1, hd1, hcase⟩
          · simp at he
          · rcases hcase with ⟨e, _, he⟩ | ⟨s2, info2, hca, hpp⟩
            · simp at he
            · rcases hpp with ⟨f', hpp, hr⟩ | ⟨e, _, he⟩
              · injection hr with hr
                have hp := pushPull_ppok hpp
                have hdocs2 := clientsAttach_docs hca
                have hd2 : s2.findDoc (findOrCreateDoc s key dp).2 = some doc1 := by
                  simp only [Server.findDoc] at hd1 ⊢; rw [hdocs2]; exact hd1
                have hgap1 : GapFree doc1 := gapFree_after ext1 h.gap _ doc1 hd1
                have ext2 : DocsExt s2 s' := pushPull_docsExt hpp
                have hdp1 : doc1.disablePresence = false := by
                  obtain ⟨y, hy, e⟩ := ext2.old _ doc1 hd2
                  rw [hd'] at hy; injection hy with hy; subst hy
                  rw [← e.dp]; exact hdp
                obtain ⟨doc2, hdd2, _, hv2, _, _⟩ := view_after_pushPull hp (v := {}) (by simpa using hd2) hgap1
                  (by simpa using hdp1) hdp1 (by simpa using hcp) (by simpa using hown)
                  (by simpa using viewOk_of_initial c {} doc1.log hgap1.1 rfl rfl)
                  (by have := hns r rfl; rw [hr] at this; exact this)
                simp only [mkFlight_doc] at hdd2
                rw [hd'] at hdd2; injection hdd2 with hdd2; subst hdd2
                rw [hr, receive_attach]; simpa using hv2
              · simp at he
  · intro hn
    cases out with
    | error e => exact ⟨rfl, rfl⟩
    | ok r =>
      cases lost with
      | true => exact ⟨rfl, rfl⟩
      | false =>
        exfalso
        rcases attach_inv ha with ⟨_, e, he, _⟩ | ⟨info, hi, _, haw⟩
        · simp at he
        · rcases attachWith_inv haw with ⟨_, _, he⟩ | ⟨doc1, hd1, hcase⟩
          · simp at he
          · rcases hcase with ⟨e, _, he⟩ | ⟨s2, info2, hca, hpp⟩
            · simp at he
            · rcases hpp with ⟨f', hpp, _⟩ | ⟨e, _, he⟩
              · have hd2 : s2.findDoc (findOrCreateDoc s key dp).2 = some doc1 := by
                  simp only [Server.findDoc] at hd1 ⊢; rw [clientsAttach_docs hca]; exact hd1
                obtain ⟨y, hy, _⟩ := (pushPull_docsExt hpp).old _ doc1 hd2
                rw [hn] at hy; simp at hy
              · simp at he
  · intro cd' he ho
    cases out with
    | error e => exact Nat.zero_le _
    | ok r =>
      cases lost with
      | true => exact Nat.zero_le _
      | false =>
        simp only [Bool.false_eq_true, if_false]
        rcases attach_inv ha with ⟨_, e, he', _⟩ | ⟨info, hi, _, haw⟩
        · simp at he'
        · rcases attachWith_inv haw with ⟨_, _, he'⟩ | ⟨doc1, hd1, hcase⟩
          · simp at he'
          · rcases hcase with ⟨e, _, he'⟩ | ⟨s2, info2, hca, hpp⟩
            · simp at he'
            · rcases hpp with ⟨f', hpp, hr⟩ | ⟨e, _, he'⟩
              · injection hr with hr
                have hp := pushPull_ppok hpp
                obtain ⟨info1, hi2, _, _, _⟩ := clientsAttach_ok hca
                have hst2 : info2.statusOf (findOrCreateDoc s key dp).2 = some .attached := by
                  rw [hi2]; simp [Client.statusOf, AL.get?_set_self, attachedEntry]
                obtain ⟨e', he', h1, _⟩ := ppok_entry_attached hp (by simp) (by simpa using hst2)
                simp only [mkFlight_client, mkFlight_doc] at he'
                rw [he] at he'; injection he' with he'; subst he'
                rw [hr]; exact h1
              · simp at he'

/-! ### every well-behaved request preserves the invariant -/

theorem numbered_own {c : ClientId} {n : Nat} {l : List ChangeReq} (h : numbered c n l = true) :
    ∀ x ∈ l, x.actor = c := numbered_actor h

theorem dinv_step {s : Server} {g : Ghost} (h : DInv s g) (req : Request) (lost : Bool)
    (hwb : wbReq s g req = true) (hns : ∀ r, (step s req).2 = .ok r → r.snapshot = false) :
    DInv (step s req).1 (ghostStep s g req (step s req).2 lost) := by
  have ext := step_docsExt s h.wf req
  have est := step_estep s h.wf req
  cases req with
  | activate =>
    have hg : ghostStep s g .activate (step s .activate).2 lost = g := by
      simp only [ghostStep]
    rw [hg]
    refine dinv_keep h ext ?_
    intro c d cd' he ho
    exact ⟨cd', open_entry_unchanged est (by simp [isTarget]) he ho, ho, Nat.le_refl _⟩
  | deactivate c order =>
    have hg : ghostStep s g (.deactivate c order) (step s (.deactivate c order)).2 lost = g := by
      simp only [ghostStep]
    rw [hg]
    refine dinv_keep h ext ?_
    intro c' d cd' he ho
    exact ⟨cd', open_entry_unchanged est (by simp [isTarget]) he ho, ho, Nat.le_refl _⟩
  | attach c key pack dp nogc =>
    simp only [wbReq, Bool.and_eq_true, beq_iff_eq] at hwb
    exact dinv_attach h c key pack dp nogc lost hwb.1 (numbered_own hwb.2) hns
  | pushpull c d pack po nogc =>
    simp only [wbReq, Bool.and_eq_true, beq_iff_eq] at hwb
    simp only [step] at ext est hns ⊢
    generalize ha : pushpullReq s c d pack po nogc = res at ext est hns
    obtain ⟨s', out⟩ := res
    simp only [] at ext est hns ⊢
    rcases pushpullReq_inv ha with ⟨e1, e, he⟩ | ⟨info, doc, hi, _, hst, hd, hf⟩
    · subst e1; subst he
      simp only [ghostStep]
      exact h
    · have := dinv_pp h lost ext est hi hd (fun _ => hst) hf hwb.1 (numbered_own hwb.2) hns
      cases out with
      | error e => simpa [ghostStep, Ghost.set_self] using this
      | ok r =>
        cases lost with
        | true => simpa [ghostStep, Ghost.set_self] using this
        | false => simpa [ghostStep] using this
  | detach c d pack =>
    simp only [wbReq, Bool.and_eq_true, beq_iff_eq] at hwb
    simp only [step] at ext est hns ⊢
    generalize ha : detach s c d pack = res at ext est hns
    obtain ⟨s', out⟩ := res
    simp only [] at ext est hns ⊢
    rcases detach_inv ha with ⟨e1, e, he⟩ | ⟨info, doc, hi, _, _, hd, hf⟩
    · subst e1; subst he
      simp only [ghostStep]
      exact h
    · have := dinv_pp h lost ext est hi hd (fun hx => absurd hx (detachMode_status_ne s c d pack)) hf
        (by rw [(detachMode_pack s c d pack).1]; exact hwb.1.2)
        (by rw [(detachMode_pack s c d pack).2]; exact numbered_own hwb.2) hns
      cases out with
      | error e => simpa [ghostStep, Ghost.set_self] using this
      | ok r =>
        cases lost with
        | true => simpa [ghostStep, Ghost.set_self] using this
        | false => simpa [ghostStep] using this
  | remove c d pack =>
    simp only [wbReq, Bool.and_eq_true, beq_iff_eq] at hwb
    simp only [step] at ext est hns ⊢
    generalize ha : remove s c d pack = res at ext est hns
    obtain ⟨s', out⟩ := res
    simp only [] at ext est hns ⊢
    rcases remove_inv ha with ⟨e1, e, he⟩ | ⟨info, doc, hi, _, _, hd, hf⟩
    · subst e1; subst he
      simp only [ghostStep]
      exact h
    · have := dinv_pp h lost ext est hi hd (fun hx => by simp at hx) hf hwb.1.2 (numbered_own hwb.2) hns
      cases out with
      | error e => simpa [ghostStep, Ghost.set_self] using this
      | ok r =>
        cases lost with
        | true => simpa [ghostStep, Ghost.set_self] using this
        | false => simpa [ghostStep] using this

end Yorkie.Server
