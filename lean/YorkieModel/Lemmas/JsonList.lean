/-
List-level facts behind the json-layer specifications: live elements of a position list,
what anchored insertion / `vacate` / tombstoning do to them, the anchors the json layer computes
(`lastPos`, `posOf`, `prevOf`), and the per-array invariant `NodesOK`.
-/
import YorkieModel.Model.Json
import YorkieModel.Lemmas.DocLaws
namespace Yorkie.Json
open Yorkie Yorkie.Crdt

set_option linter.unusedSimpArgs false

/-! ### generic list facts -/

/-- "is not `t`" as a named predicate -/
def isNot (t : Ticket) (x : Ticket) : Bool := decide (x ≠ t)

theorem filter_isNot_of_not_mem {t : Ticket} {l : List Ticket} (h : t ∉ l) :
    l.filter (isNot t) = l := by
  rw [List.filter_eq_self]
  intro a ha
  simp only [isNot, decide_eq_true_eq]
  intro e; subst e; exact h ha

theorem filter_isNot_eq_eraseIdx {l : List Ticket} (hn : l.Nodup) {i : Nat} {t : Ticket}
    (h : l[i]? = some t) : l.filter (isNot t) = l.eraseIdx i := by
  induction l generalizing i with
  | nil => simp at h
  | cons x r ih =>
    rw [List.nodup_cons] at hn
    cases i with
    | zero =>
      simp only [List.getElem?_cons_zero, Option.some.injEq] at h
      subst h
      simp [List.filter_cons, isNot, filter_isNot_of_not_mem hn.1]
    | succ j =>
      simp only [List.getElem?_cons_succ] at h
      have hmem : t ∈ r := List.mem_of_getElem? h
      have hx : x ≠ t := by intro e; subst e; exact hn.1 hmem
      simp [List.filter_cons, isNot, hx, ih hn.2 h]

theorem filter_isNot_eq_erase {l : List Ticket} (hn : l.Nodup) (t : Ticket) :
    l.filter (isNot t) = l.erase t := by
  induction l with
  | nil => rfl
  | cons x r ih =>
    rw [List.nodup_cons] at hn
    by_cases hx : x = t
    · subst hx
      simp [List.filter_cons, isNot, filter_isNot_of_not_mem hn.1]
    · have : (x == t) = false := by simpa using hx
      simp [List.filter_cons, isNot, hx, List.erase_cons, this, ih hn.2]

theorem take_append_getElem_drop {l : List Ticket} {i : Nat} {t : Ticket} (h : l[i]? = some t) :
    l = l.take i ++ t :: l.drop (i + 1) := by
  induction l generalizing i with
  | nil => simp at h
  | cons x r ih =>
    cases i with
    | zero => simp at h; simp [h]
    | succ j =>
      simp only [List.getElem?_cons_succ] at h
      simp only [List.take_succ_cons, List.drop_succ_cons, List.cons_append]
      rw [← ih h]

/-! ### live elements of a position list -/

theorem liveOf_nil (d : Doc) : liveOf d [] = [] := rfl

theorem liveOf_cons (d : Doc) (n : PosNode) (r : List PosNode) :
    liveOf d (n :: r) = (nodeLive d n).toList ++ liveOf d r := by
  unfold liveOf
  rw [List.filterMap_cons]
  cases nodeLive d n <;> rfl

theorem liveOf_append (d : Doc) (xs ys : List PosNode) :
    liveOf d (xs ++ ys) = liveOf d xs ++ liveOf d ys := by
  unfold liveOf; exact List.filterMap_append ..

theorem nodeLive_eq_some {d : Doc} {n : PosNode} {e : Ticket} :
    nodeLive d n = some e ↔ n.elem = some e ∧ live d e = true := by
  unfold nodeLive
  cases h : n.elem with
  | none => simp
  | some c =>
    simp only [Option.some.injEq]
    by_cases hl : live d c = true
    · simp only [hl, if_true, Option.some.injEq]
      constructor
      · intro e'; subst e'; exact ⟨rfl, hl⟩
      · intro h'; exact h'.1
    · simp only [hl, Bool.false_eq_true, if_false]
      constructor
      · intro h'; cases h'
      · intro h'; exact absurd (h'.1 ▸ h'.2) hl

theorem nodeLive_none_of_elem_none {d : Doc} {n : PosNode} (h : n.elem = none) :
    nodeLive d n = none := by
  unfold nodeLive; rw [h]

theorem liveOf_congr {d d' : Doc} {xs : List PosNode}
    (h : ∀ n ∈ xs, nodeLive d' n = nodeLive d n) : liveOf d' xs = liveOf d xs := by
  induction xs with
  | nil => rfl
  | cons n r ih =>
    rw [liveOf_cons, liveOf_cons, h n (List.mem_cons_self ..),
      ih (fun m hm => h m (List.mem_cons_of_mem _ hm))]

theorem mem_liveOf {d : Doc} {xs : List PosNode} {e : Ticket} :
    e ∈ liveOf d xs ↔ ∃ n ∈ xs, n.elem = some e ∧ live d e = true := by
  unfold liveOf
  simp only [List.mem_filterMap, nodeLive_eq_some]

/-- elements held by the nodes, in list order -/
def elemList (nodes : List PosNode) : List Ticket := nodes.filterMap (·.elem)

def posList (nodes : List PosNode) : List Ticket := nodes.map (·.pos)

theorem mem_elemList {nodes : List PosNode} {e : Ticket} :
    e ∈ elemList nodes ↔ holds nodes e = true := by
  unfold elemList
  rw [holds_iff]
  simp [List.mem_filterMap]

theorem mem_posList {nodes : List PosNode} {p : Ticket} :
    p ∈ posList nodes ↔ hasPos nodes p = true := by
  unfold posList
  rw [hasPos_iff]
  simp [List.mem_map]

theorem liveOf_eq_filter (d : Doc) (nodes : List PosNode) :
    liveOf d nodes = (elemList nodes).filter (live d) := by
  induction nodes with
  | nil => rfl
  | cons n r ih =>
    rw [liveOf_cons, ih]
    unfold elemList nodeLive
    rw [List.filterMap_cons]
    cases h : n.elem with
    | none => simp
    | some c =>
      simp only [List.filter_cons]
      by_cases hl : live d c = true <;> simp [hl]

theorem liveOf_sublist (d : Doc) (nodes : List PosNode) :
    (liveOf d nodes).Sublist (elemList nodes) := by
  rw [liveOf_eq_filter]; exact List.filter_sublist

theorem liveOf_nodup {d : Doc} {nodes : List PosNode} (h : (elemList nodes).Nodup) :
    (liveOf d nodes).Nodup := (liveOf_sublist d nodes).nodup h

/-- the node that shows the `i`-th live element -/
theorem split_at_live {d : Doc} {nodes : List PosNode} {i : Nat} {e : Ticket}
    (h : (liveOf d nodes)[i]? = some e) :
    ∃ pre n post, nodes = pre ++ n :: post ∧ nodeLive d n = some e ∧ (liveOf d pre).length = i := by
  induction nodes generalizing i with
  | nil => simp [liveOf] at h
  | cons m r ih =>
    rw [liveOf_cons] at h
    cases hm : nodeLive d m with
    | none =>
      rw [hm] at h
      simp only [Option.toList_none, List.nil_append] at h
      obtain ⟨pre, n, post, h1, h2, h3⟩ := ih h
      refine ⟨m :: pre, n, post, by rw [h1]; rfl, h2, ?_⟩
      rw [liveOf_cons, hm]; simpa using h3
    | some c =>
      rw [hm] at h
      simp only [Option.toList_some, List.singleton_append] at h
      cases i with
      | zero =>
        simp only [List.getElem?_cons_zero, Option.some.injEq] at h
        subst h
        exact ⟨[], m, r, rfl, hm, rfl⟩
      | succ j =>
        simp only [List.getElem?_cons_succ] at h
        obtain ⟨pre, n, post, h1, h2, h3⟩ := ih h
        refine ⟨m :: pre, n, post, by rw [h1]; rfl, h2, ?_⟩
        rw [liveOf_cons, hm]; simp [h3]

/-! ### vacating and tombstoning -/

theorem nodeLive_vac1 (d : Doc) (t : Ticket) (n : PosNode) :
    nodeLive d (vac1 t n) = if n.elem = some t then none else nodeLive d n := by
  unfold vac1
  split
  · rfl
  · rfl

theorem liveOf_vacate (d : Doc) (t : Ticket) (xs : List PosNode) :
    liveOf d (vacate t xs) = (liveOf d xs).filter (isNot t) := by
  rw [vacate_eq]
  induction xs with
  | nil => rfl
  | cons n r ih =>
    rw [List.map_cons, liveOf_cons, liveOf_cons, ih, List.filter_append, nodeLive_vac1]
    congr 1
    by_cases h : n.elem = some t
    · have : nodeLive d n = none ∨ nodeLive d n = some t := by
        cases hn : nodeLive d n with
        | none => exact Or.inl rfl
        | some c =>
          have := (nodeLive_eq_some.1 hn).1
          rw [h] at this; cases this; exact Or.inr rfl
      rcases this with h' | h' <;> simp [h, h', isNot]
    · simp only [h, if_false]
      cases hn : nodeLive d n with
      | none => rfl
      | some c =>
        have hc := (nodeLive_eq_some.1 hn).1
        have : c ≠ t := by intro e; subst e; exact h hc
        simp [isNot, this]

theorem elemList_vacate (t : Ticket) (xs : List PosNode) :
    elemList (vacate t xs) = (elemList xs).filter (isNot t) := by
  rw [vacate_eq]
  unfold elemList
  induction xs with
  | nil => rfl
  | cons n r ih =>
    rw [List.map_cons, List.filterMap_cons, List.filterMap_cons, ih]
    unfold vac1
    cases h : n.elem with
    | none => simp [h]
    | some c =>
      by_cases hc : c = t
      · subst hc; simp [h, isNot]
      · have : ¬ (some c = some t) := by simpa using hc
        simp [h, this, isNot, hc, List.filter_cons]

theorem posList_vacate (t : Ticket) (xs : List PosNode) : posList (vacate t xs) = posList xs := by
  rw [vacate_eq]; unfold posList
  rw [List.map_map]
  congr 1; funext n; exact vac1_pos t n

/-- tombstoning `t` (and nothing else) removes it from the live list -/
theorem liveOf_tombstone {d d' : Doc} {t : Ticket} (xs : List PosNode)
    (h : ∀ c, live d' c = (live d c && isNot t c)) :
    liveOf d' xs = (liveOf d xs).filter (isNot t) := by
  rw [liveOf_eq_filter, liveOf_eq_filter, List.filter_filter]
  congr 1; funext c
  rw [h c, Bool.and_comm]

/-! ### permutations: anchored insertion adds exactly one node -/

theorem insertSkip_perm (new : PosNode) (xs : List PosNode) : (insertSkip new xs).Perm (new :: xs) := by
  induction xs with
  | nil => exact List.Perm.refl _
  | cons n r ih =>
    unfold insertSkip
    split
    · exact (List.Perm.cons n ih).trans (List.Perm.swap new n r)
    · exact List.Perm.refl _

theorem insertAfterWhere_perm {p : PosNode → Bool} {new : PosNode} {xs ys : List PosNode}
    (h : insertAfterWhere p new xs = some ys) : ys.Perm (new :: xs) := by
  induction xs generalizing ys with
  | nil => simp [insertAfterWhere] at h
  | cons n r ih =>
    unfold insertAfterWhere at h
    split at h
    · cases h
      exact (List.Perm.cons n (insertSkip_perm new r)).trans (List.Perm.swap new n r)
    · cases h' : insertAfterWhere p new r with
      | none => simp [h'] at h
      | some r' =>
        simp [h'] at h; subst h
        exact (List.Perm.cons n (ih h')).trans (List.Perm.swap new n r)

theorem insertAfterNodes_perm {prev : Ticket} {new : PosNode} {xs ys : List PosNode}
    (h : insertAfterNodes prev new xs = some ys) : ys.Perm (new :: xs) := by
  unfold insertAfterNodes at h
  split at h <;> exact insertAfterWhere_perm h

theorem insertAfter_perm {prev : Ticket} {new : PosNode} {xs ys : List PosNode}
    (h : insertAfter prev new xs = some ys) : ys.Perm (new :: xs) := by
  unfold insertAfter at h
  split at h
  · cases h; exact insertSkip_perm new xs
  · exact insertAfterNodes_perm h

theorem insertPosAfter_perm {prev : Ticket} {new : PosNode} {xs ys : List PosNode}
    (h : insertPosAfter prev new xs = some ys) : ys.Perm (new :: xs) := by
  unfold insertPosAfter at h
  split at h
  · cases h; exact insertSkip_perm new xs
  · exact insertAfterWhere_perm h

/-! ### where an anchored insertion of a NEWER node lands -/

/-- no node of `xs` was positioned after `ts` -/
def NoneAfter (ts : Ticket) (xs : List PosNode) : Prop := ∀ m ∈ xs, m.pos.after ts = false

theorem insertSkip_of_noneAfter {new : PosNode} {xs : List PosNode} (h : NoneAfter new.pos xs) :
    insertSkip new xs = new :: xs := by
  cases xs with
  | nil => rfl
  | cons n r =>
    unfold insertSkip
    rw [h n (List.mem_cons_self ..)]
    rfl

theorem insertAfterWhere_split {p : PosNode → Bool} {new n : PosNode} {pre post : List PosNode}
    (hpre : ∀ m ∈ pre, p m = false) (hn : p n = true) :
    insertAfterWhere p new (pre ++ n :: post) = some (pre ++ n :: insertSkip new post) := by
  induction pre with
  | nil => simp [insertAfterWhere, hn]
  | cons m r ih =>
    have hm : p m = false := hpre m (List.mem_cons_self ..)
    simp only [List.cons_append, insertAfterWhere, hm, Bool.false_eq_true, if_false]
    rw [ih (fun x hx => hpre x (List.mem_cons_of_mem _ hx))]
    rfl

/-! ### the per-array invariant -/

/-- position identities are unique and never the dummy head's; every element sits in exactly one
    node; the `posMovedAt` register points at an existing position -/
structure NodesOK (nodes : List PosNode) (moved : Ticket → Option Ticket) : Prop where
  posNodup : (posList nodes).Nodup
  elemNodup : (elemList nodes).Nodup
  headFree : ∀ n ∈ nodes, n.pos ≠ headId
  movedPos : ∀ t m, moved t = some m → hasPos nodes m = true

theorem NodesOK.nil : NodesOK [] (fun _ => none) :=
  ⟨List.nodup_nil, List.nodup_nil, by simp, by simp⟩

theorem posList_append (xs ys : List PosNode) : posList (xs ++ ys) = posList xs ++ posList ys := by
  unfold posList; exact List.map_append ..

theorem elemList_append (xs ys : List PosNode) : elemList (xs ++ ys) = elemList xs ++ elemList ys := by
  unfold elemList; exact List.filterMap_append ..

theorem posList_cons (n : PosNode) (r : List PosNode) : posList (n :: r) = n.pos :: posList r := rfl

theorem elemList_cons_some {n : PosNode} {e : Ticket} (h : n.elem = some e) (r : List PosNode) :
    elemList (n :: r) = e :: elemList r := by
  unfold elemList; rw [List.filterMap_cons, h]

theorem elemList_cons_none {n : PosNode} (h : n.elem = none) (r : List PosNode) :
    elemList (n :: r) = elemList r := by
  unfold elemList; rw [List.filterMap_cons, h]

/-- in a split `pre ++ n :: post` of a list with unique positions, no other node has `n`'s position -/
theorem pos_unique_split {pre post : List PosNode} {n : PosNode}
    (h : (posList (pre ++ n :: post)).Nodup) :
    (∀ m ∈ pre, posIs n.pos m = false) ∧ (∀ m ∈ post, m.pos ≠ n.pos) := by
  rw [posList_append, posList_cons, List.nodup_append] at h
  obtain ⟨_, h2, h3⟩ := h
  rw [List.nodup_cons] at h2
  constructor
  · intro m hm
    simp only [posIs, decide_eq_false_iff_not]
    intro e
    exact h3 m.pos (List.mem_map.2 ⟨m, hm, rfl⟩) n.pos (List.mem_cons_self ..) e
  · intro m hm e
    exact h2.1 (e ▸ List.mem_map.2 ⟨m, hm, rfl⟩)

/-- …and, if `n` holds `e` and elements are unique, no other node holds `e` -/
theorem elem_unique_split {pre post : List PosNode} {n : PosNode} {e : Ticket}
    (hn : n.elem = some e) (h : (elemList (pre ++ n :: post)).Nodup) :
    (∀ m ∈ pre, m.elem ≠ some e) ∧ (∀ m ∈ post, m.elem ≠ some e) := by
  rw [elemList_append, elemList_cons_some hn, List.nodup_append] at h
  obtain ⟨_, h2, h3⟩ := h
  rw [List.nodup_cons] at h2
  constructor
  · intro m hm he
    have : e ∈ elemList pre := List.mem_filterMap.2 ⟨m, hm, he⟩
    exact h3 e this e (List.mem_cons_self ..) rfl
  · intro m hm he
    exact h2.1 (List.mem_filterMap.2 ⟨m, hm, he⟩)

/-! ### the anchors the json layer computes -/

theorem lastPosFrom_append (acc : Ticket) (xs : List PosNode) (n : PosNode) :
    lastPosFrom acc (xs ++ [n]) = n.pos := by
  induction xs generalizing acc with
  | nil => rfl
  | cons m r ih => exact ih m.pos

theorem lastPos_nil : lastPos [] = headId := rfl

theorem lastPos_append (xs : List PosNode) (n : PosNode) : lastPos (xs ++ [n]) = n.pos :=
  lastPosFrom_append headId xs n

theorem posOf_split {pre post : List PosNode} {n : PosNode} {e : Ticket}
    (hpre : ∀ m ∈ pre, m.elem ≠ some e) (hn : n.elem = some e) :
    posOf (pre ++ n :: post) e = some n.pos := by
  induction pre with
  | nil => simp [posOf, hn]
  | cons m r ih =>
    have hm : m.elem ≠ some e := hpre m (List.mem_cons_self ..)
    simp only [List.cons_append, posOf, hm, if_false]
    exact ih (fun x hx => hpre x (List.mem_cons_of_mem _ hx))

/-- the accumulator of `prevFrom` after walking over `xs` -/
def walkPrev (d : Doc) (acc : Ticket) (xs : List PosNode) : Ticket := xs.foldl (stepPrev d) acc

theorem prevFrom_split {d : Doc} {pre post : List PosNode} {n : PosNode} {e : Ticket} (acc : Ticket)
    (hpre : ∀ m ∈ pre, m.elem ≠ some e) (hn : n.elem = some e) :
    prevFrom d e acc (pre ++ n :: post) = some (walkPrev d acc pre) := by
  induction pre generalizing acc with
  | nil => simp [prevFrom, hn, walkPrev]
  | cons m r ih =>
    have hm : m.elem ≠ some e := hpre m (List.mem_cons_self ..)
    simp only [List.cons_append, prevFrom, hm, if_false, walkPrev, List.foldl_cons]
    exact ih _ (fun x hx => hpre x (List.mem_cons_of_mem _ hx))

/-- what `FindPrevCreatedAt` returns, as a property of the prefix it walked over: either nothing
    live was met (dummy head), or the prefix splits at the last live node -/
theorem walkPrev_spec (d : Doc) (acc : Ticket) (xs : List PosNode) :
    (liveOf d xs = [] ∧ walkPrev d acc xs = acc) ∨
    (∃ a q b, xs = a ++ q :: b ∧ (nodeLive d q).isSome = true ∧ liveOf d b = [] ∧
      walkPrev d acc xs = q.pos) := by
  induction xs generalizing acc with
  | nil => exact Or.inl ⟨rfl, rfl⟩
  | cons m r ih =>
    have hw : walkPrev d acc (m :: r) = walkPrev d (stepPrev d acc m) r := rfl
    rcases ih (stepPrev d acc m) with ⟨h1, h2⟩ | ⟨a, q, b, h1, h2, h3, h4⟩
    · by_cases hm : (nodeLive d m).isSome = true
      · right
        refine ⟨[], m, r, rfl, hm, h1, ?_⟩
        rw [hw, h2]; simp [stepPrev, hm]
      · have hm' : nodeLive d m = none := by
          cases h : nodeLive d m with
          | none => rfl
          | some c => rw [h] at hm; simp at hm
        left
        refine ⟨?_, ?_⟩
        · rw [liveOf_cons, hm', h1]; rfl
        · rw [hw, h2]; simp [stepPrev, hm']
    · right
      exact ⟨m :: a, q, b, by rw [h1]; rfl, h2, h3, by rw [hw, h4]⟩

end Yorkie.Json
