/-
Helper lemmas for Model/Conc.lean, part 8: the pull phase reads a range that ends at the head the
request's own push observed, so WHEN it runs after the push does not matter
(`pullPackResp_stable`): the response is already determined at the push-commit point.
-/
import YorkieModel.Lemmas.ConcStart
namespace Yorkie.Conc
open Yorkie Yorkie.Server

theorem findBetween_append {log rows : List Row} {lo hi : Int} (hq : seqFrom (log.length : Int) rows)
    (hhi : hi ≤ log.length) : findBetween (log ++ rows) lo hi = findBetween log lo hi := by
  rw [findBetween_eq, findBetween_eq, List.filter_append]
  have : rows.filter (inRange lo hi) = [] := by
    rw [List.filter_eq_nil_iff]; intro x hx
    have := (seqFrom_mem_bounds _ _ hq x hx).1
    simp only [inRange, Bool.and_eq_true, decide_eq_true_eq]; omega
  rw [this, List.append_nil]

/-- the response prepared by the pull phase is the same on every later store -/
theorem pullPackResp_stable {s s' : Server} {f : Flight} {doc doc' : Doc} (hd : s.findDoc f.doc = some doc)
    (hd' : s'.findDoc f.doc = some doc') (e : DocExt doc doc') (hgap : GapFree doc) (hcfg : s'.cfg = s.cfg)
    (hle : f.initialSeq ≤ doc.log.length) : pullPackResp s' f = pullPackResp s f := by
  have hlog : findBetween (storedLog s' f.doc) (f.pack.cp.serverSeq + 1) f.initialSeq
      = findBetween (storedLog s f.doc) (f.pack.cp.serverSeq + 1) f.initialSeq := by
    rw [storedLog_findDoc hd, storedLog_findDoc hd']
    obtain ⟨rows, hl, hq, _⟩ := e.rows
    rw [hl]
    exact findBetween_append (by rw [← hgap.2]; exact hq) hle
  simp only [pullPackResp, preparePackCore, pullChangeInfos, hcfg, hlog]

end Yorkie.Conc
