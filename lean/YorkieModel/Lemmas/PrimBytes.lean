/- Helper lemmas for primitive / counter value bytes (C09). -/
import YorkieModel.Model.PrimBytes
import YorkieModel.Lemmas.ByteCodec
namespace Yorkie
namespace PrimBytes
open ByteCodec

theorem take_natToLE_append (k n : Nat) (junk : Bytes) :
    (natToLE k n ++ junk).take k = natToLE k n := by
  rw [List.take_left' (natToLE_length k n)]

theorem le32 (v : BitVec 32) (junk : Bytes) :
    BitVec.ofNat 32 (leToNat ((natToLE 4 v.toNat ++ junk).take 4)) = v := by
  rw [take_natToLE_append, leToNat_natToLE 4 _ (by have := v.isLt; omega)]
  simp

theorem le64 (v : BitVec 64) (junk : Bytes) :
    BitVec.ofNat 64 (leToNat ((natToLE 8 v.toNat ++ junk).take 8)) = v := by
  rw [take_natToLE_append, leToNat_natToLE 8 _ (by have := v.isLt; omega)]
  simp

theorem le32' (v : BitVec 32) : BitVec.ofNat 32 (leToNat (natToLE 4 v.toNat)) = v := by
  rw [leToNat_natToLE 4 _ (by have := v.isLt; omega)]; simp

theorem le64' (v : BitVec 64) : BitVec.ofNat 64 (leToNat (natToLE 8 v.toNat)) = v := by
  rw [leToNat_natToLE 8 _ (by have := v.isLt; omega)]; simp

/-- minimal payload length `ValueFromBytes` insists on -/
def minLen : VType → Nat
  | .null => 0 | .boolean => 1 | .integer => 4 | .long => 8 | .double => 8
  | .string => 0 | .bytes => 0 | .date => 8

def cntMinLen : CType → Nat
  | .integerCnt => 4 | .longCnt => 8 | .integerDedupCnt => 4

/-- fixed-width (or payload-free) types, where surplus bytes are ignored -/
def VType.fixed : VType → Bool
  | .string => false | .bytes => false | _ => true

theorem bmod64 (x : Int) (h : InInt64 x) : x.bmod (2^64) = x := by
  unfold InInt64 at h
  apply Int.bmod_eq_of_le <;> omega

theorem bmod32 (x : Int) (h : -2147483648 ≤ x ∧ x ≤ 2147483647) : x.bmod (2^32) = x := by
  apply Int.bmod_eq_of_le <;> omega

/-- Go `int32(y)` for `y : int64` -/
theorem ofInt_toInt_setWidth (y : BitVec 64) : BitVec.ofInt 32 y.toInt = y.setWidth 32 := by
  apply BitVec.eq_of_toInt_eq
  rw [BitVec.toInt_ofInt, BitVec.toInt_setWidth, BitVec.toInt_eq_toNat_bmod]
  exact Int.bmod_bmod_of_dvd (by decide)

/-- Go `int64(x)` for `x : int32` -/
theorem ofInt_toInt_signExtend (x : BitVec 32) : BitVec.ofInt 64 x.toInt = x.signExtend 64 := by
  apply BitVec.eq_of_toInt_eq
  rw [BitVec.toInt_signExtend_of_le (by decide), BitVec.toInt_ofInt]
  have h1 := BitVec.toInt_lt (x := x)
  have h2 := BitVec.le_toInt x
  apply Int.bmod_eq_of_le <;> omega

end PrimBytes
end Yorkie
