/-
`ids`, `WF`, `Pre` for the observable document model, and the generic normal form of a
successful operation: an `Effect` (new body of the parent cell, optionally one created cell,
optionally one cell flagged removed). Everything here is independent of the operation kind.
-/
import YorkieModel.Lemmas.DocBasics
namespace Yorkie.Crdt
open Yorkie

/-! ### observations of a body -/

inductive Kind | prim | obj | arr | counter | opaque
deriving DecidableEq

def Body.kind : Body → Kind
  | .prim _ => .prim
  | .obj _ _ => .obj
  | .arr _ _ => .arr
  | .counter _ _ => .counter
  | .opaque _ => .opaque

def Body.hasPos : Body → Ticket → Bool
  | .arr n _, i => Crdt.hasPos n i
  | _, _ => false

def Body.holds : Body → Ticket → Bool
  | .arr n _, i => Crdt.holds n i
  | _, _ => false

/-- the tickets a container body points to -/
def Body.children : Body → Ticket → Prop
  | .obj _ member, c => ∃ k m, member k = some m ∧ m.child = c
  | .arr n _, c => Crdt.holds n c = true
  | _, _ => False

/-- local well-formedness of a body -/
def Body.ok : Body → Prop
  | .obj _ member => ∀ k m, member k = some m → m.positionedAt = m.child
  | .arr n _ => ElemSlots n
  | _ => True

/-! ### `WF`, `ids`, `Pre` -/

/-- no cell is its own parent; bodies are locally well-formed; every ticket a container points
    to is a heap cell whose `parent` is that container. -/
def WF (d : Doc) : Prop :=
  ∀ t e, d t = some e →
    e.parent ≠ some t ∧ e.body.ok ∧ ∀ c, e.body.children c → isChildOf d c t = true

/-- `i` is a heap cell, or the `pos` / `elem` of a position node of some array cell -/
def used (d : Doc) (i : Ticket) : Prop :=
  (d i).isSome = true ∨
    ∃ p pe, d p = some pe ∧ (pe.body.hasPos i = true ∨ pe.body.holds i = true)

def ids (d : Doc) (i : Ticket) : Prop := i ≠ rootId ∧ used d i

def Pre (d : Doc) (a : Op) : Prop :=
  WF d ∧ (∃ d', execute d a = .ok d') ∧ (∀ i ∈ creates a, i ≠ rootId ∧ ¬ ids d i)

theorem isChildOf_iff {d : Doc} {c t : Ticket} :
    isChildOf d c t = true ↔ ∃ e, d c = some e ∧ e.parent = some t := by
  unfold isChildOf
  cases d c <;> simp

theorem H0 : ∀ i, ¬ ids Doc.init i := by
  rintro i ⟨hne, h | ⟨p, pe, hp, h⟩⟩
  · simp [Doc.init, hne] at h
  · unfold Doc.init at hp
    split at hp
    · cases hp; simp [emptyObj, Body.hasPos, Body.holds] at h
    · cases hp

theorem WF_init : WF Doc.init := by
  intro t e h
  unfold Doc.init at h
  split at h
  · cases h
    refine ⟨by simp, ?_, ?_⟩
    · simp [emptyObj, Body.ok]
    · simp [emptyObj, Body.children]
  · cases h

/-! ### freshly created bodies -/

theorem Val.body_hasPos (v : Val) (i : Ticket) : v.body.hasPos i = false := by
  cases v <;> simp [Val.body, emptyObj, Body.hasPos, Crdt.hasPos]

theorem Val.body_holds (v : Val) (i : Ticket) : v.body.holds i = false := by
  cases v <;> simp [Val.body, emptyObj, Body.holds, Crdt.holds]

theorem Val.body_ok (v : Val) : v.body.ok := by
  cases v <;> simp [Val.body, emptyObj, Body.ok, ElemSlots]

theorem Val.body_children (v : Val) (c : Ticket) : ¬ v.body.children c := by
  cases v <;> simp [Val.body, emptyObj, Body.children, Crdt.holds]

/-! ### effects -/

structure Effect where
  /-- the cell whose body is replaced -/
  p : Ticket
  body : Body
  /-- the created cell -/
  new : Option (Ticket × Elem)
  /-- the cell flagged removed -/
  flag : Option Ticket

def Effect.touch (E : Effect) (t : Ticket) (e : Elem) : Elem :=
  ⟨e.parent, e.removed || decide (E.flag = some t), if t = E.p then E.body else e.body⟩

def Effect.run (E : Effect) (d : Doc) : Doc := fun t =>
  match E.new with
  | some (ts, e) => if t = ts then some e else (d t).map (E.touch t)
  | none => (d t).map (E.touch t)

/-- side conditions under which an effect behaves like an operation that creates `C` -/
structure Valid (E : Effect) (d : Doc) (pe : Elem) (C : List Ticket) : Prop where
  hp : d E.p = some pe
  kind : E.body.kind = pe.body.kind
  pos_mono : ∀ i, pe.body.hasPos i = true → E.body.hasPos i = true
  holds_mono : ∀ i, pe.body.holds i = true → E.body.holds i = true
  pos_new : ∀ i, E.body.hasPos i = true → pe.body.hasPos i = true ∨ i ∈ C
  holds_new : ∀ i, E.body.holds i = true → pe.body.holds i = true ∨ i ∈ C
  made : ∀ i ∈ C, (∃ e, E.new = some (i, e)) ∨ E.body.hasPos i = true
  mk_ok : ∀ ts e, E.new = some (ts, e) →
    ts ∈ C ∧ d ts = none ∧ e.parent = some E.p ∧ ∃ v, e.body = Val.body v
  flag_ok : ∀ f, E.flag = some f → isChildOf d f E.p = true
  body_ok : E.body.ok
  children : ∀ c, E.body.children c → pe.body.children c ∨ ∃ e, E.new = some (c, e)

section generic
variable {E : Effect} {d : Doc} {pe : Elem} {C : List Ticket}

theorem run_of_not_mk (h : ∀ e, E.new ≠ some (t, e)) : E.run d t = (d t).map (E.touch t) := by
  unfold Effect.run
  split
  · rename_i ts e hm
    split
    · rename_i h'; subst h'; exact absurd hm (h e)
    · rfl
  · rfl

theorem run_of_mk (h : E.new = some (t, e)) : E.run d t = some e := by
  unfold Effect.run; rw [h]; simp

theorem Valid.not_mk_of_some (hv : Valid E d pe C) {t : Ticket} {e0 : Elem} (h : d t = some e0) :
    ∀ e, E.new ≠ some (t, e) := by
  intro e hm
  have := (hv.mk_ok t e hm).2.1
  rw [h] at this; cases this

theorem Valid.run_old (hv : Valid E d pe C) {t : Ticket} {e0 : Elem} (h : d t = some e0) :
    E.run d t = some (E.touch t e0) := by
  rw [run_of_not_mk (hv.not_mk_of_some h), h]; rfl

theorem Valid.run_p (hv : Valid E d pe C) : E.run d E.p = some (E.touch E.p pe) :=
  hv.run_old hv.hp

theorem run_of_not_mem (hv : Valid E d pe C) {t : Ticket} (h : t ∉ C) :
    E.run d t = (d t).map (E.touch t) :=
  run_of_not_mk (fun e hm => h (hv.mk_ok t e hm).1)

/-- cells of the new heap -/
theorem Valid.run_cases (_hv : Valid E d pe C) {t : Ticket} {e' : Elem} (h : E.run d t = some e') :
    (E.new = some (t, e')) ∨ (∃ e0, d t = some e0 ∧ e' = E.touch t e0) := by
  unfold Effect.run at h
  split at h
  · rename_i ts e hm
    split at h
    · rename_i h'; subst h'; cases h; exact Or.inl hm
    · cases h0 : d t with
      | none => simp [h0] at h
      | some e0 => simp [h0] at h; exact Or.inr ⟨e0, rfl, h.symm⟩
  · cases h0 : d t with
    | none => simp [h0] at h
    | some e0 => simp [h0] at h; exact Or.inr ⟨e0, rfl, h.symm⟩

theorem isChildOf_run_old (_hv : Valid E d pe C) {c : Ticket} (h : ∀ e, E.new ≠ some (c, e))
    (t : Ticket) : isChildOf (E.run d) c t = isChildOf d c t := by
  unfold isChildOf
  rw [run_of_not_mk h]
  cases d c <;> simp [Effect.touch]

theorem isChildOf_run_mono (hv : Valid E d pe C) {c t : Ticket} (h : isChildOf d c t = true) :
    isChildOf (E.run d) c t = true := by
  obtain ⟨e0, h0, _⟩ := isChildOf_iff.1 h
  rw [isChildOf_run_old hv (hv.not_mk_of_some h0)]; exact h

/-- H1', generic form -/
theorem Valid.used_run (hv : Valid E d pe C) (i : Ticket) :
    used (E.run d) i ↔ used d i ∨ i ∈ C := by
  constructor
  · rintro (h | ⟨p', pe', hp', h⟩)
    · cases hr : E.run d i with
      | none => simp [hr] at h
      | some e' =>
        rcases hv.run_cases hr with hm | ⟨e0, h0, _⟩
        · exact Or.inr (hv.mk_ok i e' hm).1
        · exact Or.inl (Or.inl (by simp [h0]))
    · rcases hv.run_cases hp' with hm | ⟨e0, h0, he⟩
      · obtain ⟨_, _, _, v, hvb⟩ := hv.mk_ok p' pe' hm
        rw [hvb, Val.body_hasPos, Val.body_holds] at h
        simp at h
      · subst he
        by_cases hpp : p' = E.p
        · subst hpp
          have : e0 = pe := by have := hv.hp; rw [h0] at this; cases this; rfl
          subst this
          simp only [Effect.touch, if_true] at h
          rcases h with h | h
          · rcases hv.pos_new i h with h | h
            · exact Or.inl (Or.inr ⟨_, _, h0, Or.inl h⟩)
            · exact Or.inr h
          · rcases hv.holds_new i h with h | h
            · exact Or.inl (Or.inr ⟨_, _, h0, Or.inr h⟩)
            · exact Or.inr h
        · simp only [Effect.touch, hpp, if_false] at h
          exact Or.inl (Or.inr ⟨_, _, h0, h⟩)
  · rintro ((h | ⟨p', e0, h0, h⟩) | h)
    · left
      cases h0 : d i with
      | none => simp [h0] at h
      | some e0 => rw [hv.run_old h0]; rfl
    · right
      refine ⟨p', _, hv.run_old h0, ?_⟩
      by_cases hpp : p' = E.p
      · subst hpp
        have : e0 = pe := by have := hv.hp; rw [h0] at this; cases this; rfl
        subst this
        simp only [Effect.touch, if_true]
        rcases h with h | h
        · exact Or.inl (hv.pos_mono i h)
        · exact Or.inr (hv.holds_mono i h)
      · simpa only [Effect.touch, hpp, if_false] using h
    · rcases hv.made i h with ⟨e, hm⟩ | hpos
      · left; rw [run_of_mk hm]; rfl
      · right
        exact ⟨E.p, _, hv.run_p, Or.inl (by simpa only [Effect.touch, if_true] using hpos)⟩

/-- WF preservation, generic form -/
theorem Valid.wf_run (hv : Valid E d pe C) (hw : WF d) : WF (E.run d) := by
  intro t e' hr
  rcases hv.run_cases hr with hm | ⟨e0, h0, he⟩
  · obtain ⟨_, hnone, hpar, v, hvb⟩ := hv.mk_ok t e' hm
    refine ⟨?_, ?_, ?_⟩
    · rw [hpar]; intro h; cases h
      have := hv.hp; rw [hnone] at this; cases this
    · rw [hvb]; exact Val.body_ok v
    · intro c hc; rw [hvb] at hc; exact absurd hc (Val.body_children v c)
  · subst he
    obtain ⟨hpar, hok, hch⟩ := hw t e0 h0
    refine ⟨hpar, ?_, ?_⟩
    · by_cases hpp : t = E.p
      · simp only [Effect.touch, hpp, if_true]; exact hv.body_ok
      · simpa only [Effect.touch, hpp, if_false] using hok
    · intro c hc
      by_cases hpp : t = E.p
      · subst hpp
        have : e0 = pe := by have := hv.hp; rw [h0] at this; cases this; rfl
        subst this
        simp only [Effect.touch, if_true] at hc
        rcases hv.children c hc with hc | ⟨e, hm⟩
        · exact isChildOf_run_mono hv (hch c hc)
        · rw [isChildOf_iff]
          exact ⟨e, run_of_mk hm, (hv.mk_ok c e hm).2.2.1⟩
      · simp only [Effect.touch, hpp, if_false] at hc
        exact isChildOf_run_mono hv (hch c hc)

end generic

end Yorkie.Crdt
