/- InsertAfter / Delete / IndexOf / FindForText / FindForArray against the list specification. -/
import YorkieModel.Lemmas.SplayOps
namespace Yorkie.Splay
open T

theorem splay_eq_of_locate {x : Nat} {t X : T} {q : List Frame} (h : locate x t [] = some (X, q)) :
    splay x t = splayUp X q := by simp [splay, h]

/-! ### InsertAfter -/

theorem insertAfter_spec {prev id len : Nat} {t : T} (hn : t.ids.Nodup) (h : okD (· == prev) t)
    (hp : prev ∈ t.ids) :
    (insertAfter prev id len t).toList = Spec.insertAfter prev (id, len) t.toList ∧
    (insertAfter prev id len t).wf := by
  obtain ⟨a, lp, b, hs, ha, hb, hl, hxa, -⟩ := splay_mk_wf hn h hp
  obtain ⟨X, q, hloc⟩ := locate_isSome [] hp
  rw [splay_eq_of_locate hloc] at hs
  simp only [insertAfter, hloc, hs, mk]
  refine ⟨?_, ?_⟩
  · rw [hl, Spec.insertAfter_decomp (by simpa [ids_toList] using hxa)]; simp
  · simp [ha, hb]

/-! ### Delete -/

def allR (q : List Frame) : Prop := ∀ f ∈ q, ∃ l id len w, f = Frame.inR l id len w

theorem descendMax_spec (t : T) (p : List Frame) (ht : t ≠ nil) :
    ∃ l id len w q', descendMax t p = some (node l id len w nil, q' ++ p) ∧ allR q' ∧
      plug (node l id len w nil) (q' ++ p) = plug t p := by
  induction t generalizing p with
  | nil => exact absurd rfl ht
  | node l id len w r _ ihr =>
    cases r with
    | nil => exact ⟨l, id, len, w, [], by simp [descendMax], by simp [allR], rfl⟩
    | node rl rid rlen rw rr =>
      obtain ⟨l', id', len', w', q', h1, h2, h3⟩ := ihr (.inR l id len w :: p) (by simp)
      refine ⟨l', id', len', w', q' ++ [.inR l id len w], ?_, ?_, ?_⟩
      · simp only [descendMax, List.append_assoc, List.singleton_append]; exact h1
      · intro f hf
        rcases List.mem_append.1 hf with hf | hf
        · exact h2 f hf
        · simp at hf; exact ⟨_, _, _, _, hf⟩
      · simp only [List.append_assoc, List.singleton_append]; rw [h3]; rfl

theorem splayUp_allR (l : T) (id len w : Nat) (q : List Frame) (hq : allR q) :
    ∃ a, splayUp (node l id len w nil) q = mk a id len nil := by
  induction q using list_two_step generalizing l w with
  | h0 => exact ⟨l, rfl⟩
  | h1 f =>
    obtain ⟨c, p, lp, wp, rfl⟩ := hq f (by simp)
    exact ⟨_, rfl⟩
  | h2 f g rest ih =>
    obtain ⟨c, p, lp, wp, rfl⟩ := hq f (by simp)
    obtain ⟨d, g', lg, wg, rfl⟩ := hq g (by simp)
    simp only [splayUp, rotL, mk]
    exact ih _ _ (fun f hf => hq f (by simp [hf]))

theorem splayMax_spec {a : T} (ha : a ≠ nil) (hw : a.wf) :
    ∃ a1 m lm, splayMax a = mk a1 m lm nil ∧ a.toList = a1.toList ++ [(m, lm)] ∧ a1.wf := by
  obtain ⟨l, id, len, w, q', h1, h2, h3⟩ := descendMax_spec a [] ha
  simp only [List.append_nil] at h1 h3
  obtain ⟨a1, h4⟩ := splayUp_allR l id len w q' h2
  refine ⟨a1, id, len, ?_, ?_, ?_⟩
  · simp [splayMax, h1, h4]
  · have := toList_splayUp (node l id len w nil) q'
    rw [h4, h3] at this
    simpa [plug] using this.symm
  · have hk : okD (fun _ => false) (splayUp (node l id len w nil) q') :=
      okD_splayUp (by rw [h3]; exact wf_iff_okD.1 hw)
    rw [h4, okD_mk] at hk
    exact wf_iff_okD.2 hk.1

theorem delete_spec {x : Nat} {t : T} (hn : t.ids.Nodup) (h : okD (· == x) t) (hx : x ∈ t.ids) :
    (delete x t).toList = Spec.delete x t.toList ∧ (delete x t).wf := by
  obtain ⟨a, lx, b, hs, ha, hb, hl, hxa, -⟩ := splay_mk_wf hn h hx
  obtain ⟨X, q, hloc⟩ := locate_isSome [] hx
  rw [splay_eq_of_locate hloc] at hs
  have hd : Spec.delete x t.toList = a.toList ++ b.toList := by
    rw [hl, Spec.delete_decomp (by simpa [ids_toList] using hxa)]
  rw [hd]
  cases a with
  | nil =>
    simp only [delete, hloc, hs, mk]
    exact ⟨by simp, wf_refresh hb⟩
  | node al aid alen aw ar =>
    obtain ⟨a1, m, lm, h1, h2, h3⟩ := splayMax_spec (a := node al aid alen aw ar) (by simp) ha
    simp only [delete, hloc, hs, mk]
    rw [h1]
    simp only [mk]
    refine ⟨?_, ?_⟩
    · rw [h2]; simp
    · simp [h3, hb]

/-! ### IndexOf -/

theorem indexOf_spec {x : Nat} {t : T} (hn : t.ids.Nodup) (h : okD (· == x) t) :
    (indexOf x t).1 = Spec.indexOf x t.toList ∧ (indexOf x t).2.toList = t.toList ∧
    (indexOf x t).2.wf := by
  by_cases hx : x ∈ t.ids
  · obtain ⟨a, lx, b, hs, ha, hb, hl, hxa, -⟩ := splay_mk_wf hn h hx
    obtain ⟨X, q, hloc⟩ := locate_isSome [] hx
    rw [splay_eq_of_locate hloc] at hs
    simp only [indexOf, hloc, hs, mk]
    refine ⟨?_, ?_, ?_⟩
    · rw [hl, Spec.indexOf_decomp (by simpa [ids_toList] using hxa), wf_weight ha]
    · rw [hl]; simp
    · simp [ha, hb]
  · have hloc := (locate_none []).2 hx
    simp only [indexOf, hloc]
    refine ⟨(Spec.indexOf_none (by simpa [ids_toList] using hx)).symm, ?_, ?_⟩
    · simp
    exact okD_clean_wf h (fun y hy => by simp; rintro rfl; exact hx hy)

/-! ### FindForText -/

theorem toList_eq_nil_iff {t : T} : t.toList = [] ↔ t = nil := by
  cases t <;> simp

theorem isNil_iff {t : T} : t.isNil = true ↔ t = nil := by
  cases t <;> simp [isNil]

/-- the descent of `FindForText` on a tree with exact weights follows `Spec.find` -/
theorem descendText_spec {t : T} (hw : t.wf) (ht : t ≠ nil) (off : Nat) (p : List Frame) :
    ∃ X q off', descendText t off p = some (X, q, off') ∧ plug X q = plug t p ∧ X ≠ nil ∧
      (∀ id o, Spec.find t.toList off = some (id, o) → rootId X = id ∧ off' = o ∧ o ≤ rootLen X) ∧
      (Spec.find t.toList off = none → rootLen X < off') := by
  induction t generalizing off p with
  | nil => exact absurd rfl ht
  | node l id len w r ihl ihr =>
    obtain ⟨hl, hr, hw'⟩ := hw
    have hlw := wf_weight hl
    simp only [descendText]
    by_cases c1 : (!l.isNil && decide (off ≤ l.weight)) = true
    · rw [if_pos c1]
      simp only [Bool.and_eq_true, Bool.not_eq_true', decide_eq_true_eq] at c1
      have hlne : l ≠ nil := fun e => by rw [e] at c1; simp [isNil] at c1
      obtain ⟨X, q, off', h1, h2, h3, h4, h5⟩ := ihl hl hlne off (.inL id len w r :: p)
      have hf : Spec.find (toList (node l id len w r)) off = Spec.find l.toList off := by
        rw [toList_node]
        exact Spec.find_append_left (fun e => hlne (toList_eq_nil_iff.1 e)) (by rw [← hlw]; exact c1.2)
      exact ⟨X, q, off', h1, by rw [h2]; rfl, h3, by rw [hf]; exact h4, by rw [hf]; exact h5⟩
    · rw [if_neg c1]
      have c1' : l = nil ∨ l.weight < off := by
        simp only [Bool.and_eq_true, Bool.not_eq_true', decide_eq_true_eq, not_and, Nat.not_le] at c1
        by_cases e : l = nil
        · exact .inl e
        · exact .inr (c1 (by cases l <;> simp_all [isNil]))
      have hf0 : Spec.find (toList (node l id len w r)) off =
          Spec.find ((id, len) :: r.toList) (off - l.weight) := by
        rw [toList_node, hlw]
        apply Spec.find_append_right
        rcases c1' with e | e
        · left; rw [e]; rfl
        · right; rw [← hlw]; exact e
      by_cases c2 : (!r.isNil && decide (l.weight + len < off)) = true
      · rw [if_pos c2]
        simp only [Bool.and_eq_true, Bool.not_eq_true', decide_eq_true_eq] at c2
        have hrne : r ≠ nil := fun e => by rw [e] at c2; simp [isNil] at c2
        obtain ⟨X, q, off', h1, h2, h3, h4, h5⟩ :=
          ihr hr hrne (off - (l.weight + len)) (.inR l id len w :: p)
        have hf : Spec.find (toList (node l id len w r)) off =
            Spec.find r.toList (off - (l.weight + len)) := by
          rw [hf0]; simp only [Spec.find]
          rw [if_neg (by omega)]; congr 1; omega
        exact ⟨X, q, off', h1, by rw [h2]; rfl, h3, by rw [hf]; exact h4, by rw [hf]; exact h5⟩
      · rw [if_neg c2]
        refine ⟨node l id len w r, p, off - l.weight, rfl, rfl, by simp, ?_, ?_⟩
        · intro id' o hfo
          rw [hf0] at hfo
          simp only [Spec.find] at hfo
          split at hfo
          · next hle => injection hfo with hfo; injection hfo with e1 e2; exact ⟨e1, e2, by simpa [rootLen, ← e2] using hle⟩
          · next hgt =>
            have : r = nil := by
              simp only [Bool.and_eq_true, Bool.not_eq_true', decide_eq_true_eq, not_and] at c2
              by_cases e : r = nil
              · exact e
              · exact absurd (c2 (by cases r <;> simp_all [isNil])) (by omega)
            rw [this] at hfo; simp [Spec.find] at hfo
        · intro hnone
          rw [hf0] at hnone
          simp only [Spec.find] at hnone
          split at hnone
          · cases hnone
          · next hgt => simp only [rootLen]; omega

theorem findForText_spec {t : T} (hw : t.wf) (p : Nat) :
    (findForText t p).2.toList = t.toList ∧ (findForText t p).2.wf ∧
    (findForText t p).1 = Spec.findRes t.toList p := by
  cases t with
  | nil => simp [findForText, descendText, Spec.findRes]
  | node l id len w r =>
    obtain ⟨X, q, off', h1, h2, h3, h4, h5⟩ := descendText_spec hw (by simp) p []
    have hcons : ∃ a rest, toList (node l id len w r) = a :: rest := by
      cases hl : l.toList with
      | nil => exact ⟨(id, len), r.toList, by simp [hl]⟩
      | cons a rest => exact ⟨a, rest ++ (id, len) :: r.toList, by simp [hl]⟩
    obtain ⟨a0, rest0, hcons⟩ := hcons
    simp only [findForText, h1]
    cases hf : Spec.find (toList (node l id len w r)) p with
    | none =>
      have := h5 hf
      rw [if_pos this]
      refine ⟨rfl, hw, ?_⟩
      rw [hcons] at hf ⊢; simp only [Spec.findRes, hf]
    | some io =>
      obtain ⟨i, o⟩ := io
      obtain ⟨e1, e2, e3⟩ := h4 i o hf
      rw [if_neg (by omega)]
      refine ⟨?_, ?_, ?_⟩
      · simp only; rw [toList_splayUp, h2]; rfl
      · exact wf_iff_okD.2 (okD_splayUp (by rw [h2]; exact wf_iff_okD.1 hw))
      · simp only [e1, e2]
        rw [hcons] at hf ⊢; simp only [Spec.findRes, hf]

end Yorkie.Splay
