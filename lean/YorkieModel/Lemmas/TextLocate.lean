/-
Lookup lemmas for the Text model: `visible`, `Newer`, `findFloor`, `findFloorPreferLeft`, `locate`,
`skipFrom`, `posOfIndex`. Core Lean only.
-/
import YorkieModel.Lemmas.TextWF
namespace Yorkie.Text

/-! ### `visible` -/

@[simp] theorem visible_nil : visible [] = [] := rfl

theorem visible_cons (n : TNode) (r : TextSt) :
    visible (n :: r) = (if n.live then n.units else []) ++ visible r := by
  simp only [visible]; split <;> simp

theorem visible_append (a b : TextSt) : visible (a ++ b) = visible a ++ visible b := by
  induction a with
  | nil => simp
  | cons n r ih => simp only [List.cons_append, visible_cons, ih, List.append_assoc]

theorem visible_map_core {f : TNode → TNode}
    (hf : ∀ n, (f n).units = n.units ∧ (f n).removedAt = n.removedAt) (s : TextSt) :
    visible (s.map f) = visible s := by
  induction s with
  | nil => rfl
  | cons n r ih =>
    simp [visible_cons, ih, TNode.live, (hf n).1, (hf n).2]

theorem fixed_visible {s : TextSt} (h : ∀ n ∈ s, Fixed n.units) : Fixed (visible s) := by
  induction s with
  | nil => exact fixed_nil
  | cons n r ih =>
    rw [visible_cons]
    apply fixed_append
    · split
      · exact h n (by simp)
      · exact fixed_nil
    · exact ih (fun m hm => h m (by simp [hm]))

theorem visible_all_dead {s : TextSt} (h : ∀ n ∈ s, n.live = false) : visible s = [] := by
  induction s with
  | nil => rfl
  | cons n r ih =>
    rw [visible_cons, h n (by simp), ih (fun m hm => h m (by simp [hm]))]; rfl

/-! ### tickets -/

theorem after_iff (a b : Ticket) : a.after b = true ↔
    (a.lamport > b.lamport ∨ (a.lamport = b.lamport ∧
      (a.actor > b.actor ∨ (a.actor = b.actor ∧ a.delim > b.delim)))) := by
  have gtgt : (Ordering.gt == Ordering.gt) = true := by decide
  have ltgt : ¬ ((Ordering.lt == Ordering.gt) = true) := by decide
  have eqgt : ¬ ((Ordering.eq == Ordering.gt) = true) := by decide
  unfold Ticket.after Ticket.cmp
  by_cases h1 : a.lamport > b.lamport
  · rw [if_pos h1]; exact ⟨fun _ => Or.inl h1, fun _ => gtgt⟩
  · rw [if_neg h1]
    by_cases h2 : a.lamport < b.lamport
    · rw [if_pos h2]
      refine ⟨fun h => absurd h ltgt, ?_⟩
      rintro (h | ⟨h, _⟩) <;> omega
    · rw [if_neg h2]
      have e : a.lamport = b.lamport := by omega
      by_cases h3 : a.actor > b.actor
      · rw [if_pos h3]; exact ⟨fun _ => Or.inr ⟨e, Or.inl h3⟩, fun _ => gtgt⟩
      · rw [if_neg h3]
        by_cases h4 : a.actor < b.actor
        · rw [if_pos h4]
          refine ⟨fun h => absurd h ltgt, ?_⟩
          rintro (h | ⟨_, h | ⟨h, _⟩⟩)
          · exact absurd h h1
          · exact absurd h h3
          · exact absurd h (Nat.ne_of_lt h4)
        · rw [if_neg h4]
          have e2 : a.actor = b.actor := Nat.le_antisymm (Nat.le_of_not_gt h3) (Nat.le_of_not_gt h4)
          by_cases h5 : a.delim > b.delim
          · rw [if_pos h5]; exact ⟨fun _ => Or.inr ⟨e, Or.inr ⟨e2, h5⟩⟩, fun _ => gtgt⟩
          · rw [if_neg h5]
            refine ⟨fun h => ?_, ?_⟩
            · split at h
              · exact absurd h ltgt
              · exact absurd h eqgt
            · rintro (h | ⟨_, h | ⟨_, h⟩⟩)
              · exact absurd h h1
              · exact absurd h h3
              · exact absurd h h5

theorem after_asymm {a b : Ticket} (h : a.after b = true) : b.after a = false := by
  cases h' : b.after a
  · rfl
  · rw [after_iff] at h h'
    exfalso
    rcases h with h | ⟨e, h | ⟨e2, h⟩⟩ <;> rcases h' with h' | ⟨e', h' | ⟨e2', h'⟩⟩
    all_goals first
      | omega
      | exact Nat.lt_asymm h h'
      | (rw [e2'] at h; exact Nat.lt_irrefl _ h)
      | (rw [e2] at h'; exact Nat.lt_irrefl _ h')

theorem after_irrefl (a : Ticket) : a.after a = false := by
  cases h : a.after a
  · rfl
  · have := after_asymm h; rw [h] at this; contradiction

/-- the edit's ticket is newer than the `createdAt` of every node -/
def Newer (s : TextSt) (ts : Ticket) : Prop := ∀ n ∈ s, ts.after n.id.1 = true

theorem Newer.fresh {s : TextSt} {ts : Ticket} (h : Newer s ts) : Fresh s ts := by
  intro n hn e
  have := h n hn
  rw [e, after_irrefl] at this; contradiction

theorem Newer.noSkip {s : TextSt} {ts : Ticket} (h : Newer s ts) : ∀ n ∈ s, n.id.1.after ts = false :=
  fun n hn => after_asymm (h n hn)

/-- tickets issued locally: a larger Lamport value than everything in the text, or the same change
    (same Lamport, same actor) and a larger delimiter -/
theorem newer_of_lamport {s : TextSt} {ts : Ticket}
    (h : ∀ n ∈ s, n.id.1.lamport < ts.lamport ∨
      (n.id.1.lamport = ts.lamport ∧ n.id.1.actor = ts.actor ∧ n.id.1.delim < ts.delim)) :
    Newer s ts := by
  intro n hn
  rw [after_iff]
  rcases h n hn with h | ⟨h1, h2, h3⟩
  · exact Or.inl h
  · exact Or.inr ⟨h1.symm, Or.inr ⟨h2.symm, h3⟩⟩

/-! ### `locate`, `skipFrom` -/

theorem locate_append {A C : TextSt} {n : TNode} (hA : n.id ∉ ids A) :
    locate (A ++ n :: C) n.id = some (n, C) := by
  induction A with
  | nil => simp [locate]
  | cons a r ih =>
    simp only [ids_cons, List.mem_cons, not_or] at hA
    simp only [List.cons_append, locate]
    rw [if_neg (fun h => hA.1 h.symm), ih hA.2]

theorem skipFrom_noSkip {ts : Ticket} (cur : TNode) {C : TextSt}
    (h : ∀ x ∈ C, x.id.1.after ts = false) : skipFrom ts cur C = (cur, C.head?) := by
  cases C with
  | nil => rfl
  | cons x r => simp [skipFrom, h x (by simp)]

/-! ### `findFloor` -/

theorem findFloor_isSome {s : TextSt} {q : Id} {m : TNode} (hm : m ∈ s) (hb : better m q = true) :
    ∃ b, findFloor s q = some b := by
  induction s with
  | nil => cases hm
  | cons a r ih =>
    unfold findFloor
    cases hf : findFloor r q with
    | some b => simp only; split <;> exact ⟨_, rfl⟩
    | none =>
      simp only
      rcases List.mem_cons.mp hm with rfl | hm
      · rw [if_pos hb]; exact ⟨_, rfl⟩
      · obtain ⟨b, hb'⟩ := ih hm; rw [hf] at hb'; cases hb'

theorem findFloor_spec {s : TextSt} {q : Id} {b : TNode} (h : findFloor s q = some b) :
    b ∈ s ∧ better b q = true ∧ ∀ m ∈ s, better m q = true → m.id.2 ≤ b.id.2 := by
  induction s generalizing b with
  | nil => simp [findFloor] at h
  | cons a r ih =>
    unfold findFloor at h
    split at h
    · rename_i b0 hb0
      obtain ⟨hm, hb, hmax⟩ := ih hb0
      split at h
      · rename_i hc
        injection h with h; subst h
        simp only [Bool.and_eq_true, decide_eq_true_eq] at hc
        refine ⟨by simp, hc.1, ?_⟩
        intro m hm' hbm
        rcases List.mem_cons.mp hm' with rfl | hm'
        · exact Nat.le_refl _
        · have := hmax m hm' hbm; omega
      · rename_i hc
        injection h with h; subst h
        refine ⟨List.mem_cons_of_mem _ hm, hb, ?_⟩
        intro m hm' hbm
        rcases List.mem_cons.mp hm' with rfl | hm'
        · simp only [Bool.and_eq_true, decide_eq_true_eq, not_and, Nat.not_lt] at hc
          exact hc hbm
        · exact hmax m hm' hbm
    · rename_i hnone
      split at h
      · rename_i hc
        injection h with h; subst h
        refine ⟨by simp, hc, ?_⟩
        intro m hm' hbm
        rcases List.mem_cons.mp hm' with rfl | hm'
        · exact Nat.le_refl _
        · obtain ⟨b', hb'⟩ := findFloor_isSome hm' hbm
          rw [hnone] at hb'; cases hb'
      · cases h

theorem findById_of_mem {s : TextSt} (nd : (ids s).Nodup) {n : TNode} (hn : n ∈ s) :
    findById s n.id = some n := by
  induction s with
  | nil => cases hn
  | cons a r ih =>
    simp only [ids_cons, List.nodup_cons] at nd
    unfold findById
    rcases List.mem_cons.mp hn with rfl | hn
    · simp
    · rw [if_neg (fun h => nd.1 (by rw [h]; exact mem_ids hn)), ih nd.2 hn]

theorem better_iff {n : TNode} {q : Id} : better n q = true ↔ n.id.1 = q.1 ∧ n.id.2 ≤ q.2 := by
  simp [better]

/-- the head position resolves to the head -/
theorem floor_head {s : TextSt} (wf : WF s) {h : TNode} {r : TextSt} (hs : s = h :: r) :
    findFloorPreferLeft s headId = some h := by
  obtain ⟨h', r', hs', hid, _⟩ := wf.head
  rw [hs] at hs'; injection hs' with e1 e2; subst e1
  have hmem : h ∈ s := by rw [hs]; simp
  have hb : better h headId = true := by rw [better_iff, hid]; exact ⟨rfl, Nat.le_refl _⟩
  obtain ⟨b, hfl⟩ := findFloor_isSome hmem hb
  obtain ⟨hbm, hbb, _⟩ := findFloor_spec hfl
  rw [better_iff] at hbb
  have : b = h := by
    apply eq_of_id_eq wf.nodup hbm hmem
    rw [hid]
    apply Prod.ext hbb.1
    have : b.id.2 ≤ 0 := hbb.2
    show b.id.2 = 0; omega
  subst this
  unfold findFloorPreferLeft
  rw [hfl]
  simp [headId]

/-- a position `(createdAt, abs)` with `n.offset < abs ≤ n.offset + n.len` resolves to `n`
    (directly, or through `insPrev` when it falls on the start of the next part) -/
theorem floor_node {s : TextSt} (wf : WF s) {n : TNode} (hn : n ∈ s) {q : Id} (h1 : n.id.1 = q.1)
    (h2 : n.id.2 < q.2) (h3 : q.2 ≤ n.id.2 + n.len) : findFloorPreferLeft s q = some n := by
  have hb : better n q = true := by rw [better_iff]; exact ⟨h1, by omega⟩
  obtain ⟨b, hfl⟩ := findFloor_isSome hn hb
  obtain ⟨hbm, hbb, hmax⟩ := findFloor_spec hfl
  rw [better_iff] at hbb
  have hge := hmax n hn hb
  unfold findFloorPreferLeft
  rw [hfl]
  simp only
  by_cases hoff : b.id.2 = n.id.2
  · have : b = n := eq_of_id_eq wf.nodup hbm hn (Prod.ext (by rw [hbb.1, h1]) hoff)
    subst this
    have : ¬ (b.id.2 = q.2) := by omega
    simp [this]
  · have hlt : n.id.2 < b.id.2 := by omega
    have hdis := wf.disjoint n hn b hbm (by rw [h1, hbb.1]) hlt
    have heq : b.id.2 = q.2 := by omega
    have hpos : 0 < q.2 := by omega
    simp only [hpos, heq, decide_true, Bool.and_self, if_true]
    obtain ⟨p, hp, hp1, hp2, hp3⟩ := wf.chain b hbm (by omega)
    rw [hp3]
    simp only
    have hpn : p = n := by
      apply eq_of_id_eq wf.nodup hp hn
      have e1 : p.id.1 = n.id.1 := by rw [hp1, hbb.1, h1]
      apply Prod.ext e1
      show p.id.2 = n.id.2
      rcases Nat.lt_trichotomy p.id.2 n.id.2 with hlt' | heq' | hgt'
      · have := wf.disjoint p hp n hn e1 hlt'; omega
      · exact heq'
      · have := wf.disjoint n hn p hp e1.symm hgt'
        -- p.len > 0 unless p is the head, whose offset is 0
        have : p.len = 0 := by omega
        have hph : p.id = headId := by
          apply Classical.byContradiction
          intro hne
          exact wf.nonempty p hp hne (List.eq_nil_of_length_eq_zero this)
        have : p.id.2 = 0 := by rw [hph]; rfl
        omega
    subst hpn
    exact findById_of_mem wf.nodup hp

end Yorkie.Text
