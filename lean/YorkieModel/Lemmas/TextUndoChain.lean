/-
Text undo/redo, depth k: the abstract part of the stack invariant (core Lean only).

Both stacks are CHAINS starting at the current liveness function `L = liveAt st`: executing the top
entry `e` turns `L` into `effEntry e L`, the state in which the next entry is executable, and so on.
For every entry the chain stores
  * the round trip: the reverse of `e` (same spans, flipped direction: `flipE e`) leads back,
  * the recorded content: what `effEntry e L` selects from the CURRENT block list is the recorded
    content, up to degradation of cut surrogate pairs.
The liveness functions are absolute (cell identities never change), so a new edit on top of a chain
leaves the chain of the older entries literally unchanged: that is why depth k goes through.
-/
import YorkieModel.Lemmas.TextUndoCells
namespace Yorkie.TextUndo
open Yorkie Yorkie.Text

/-- the reverse a stacked reverse produces when it runs, as far as liveness is concerned -/
def flipRev : TRev → List TRev
  | .spans fr r m k => [.spans fr r m.flip k]
  | .noop _ _ => []
  | .style _ _ _ _ => []

/-- reverses of an entry: collected in execution order and reversed once -/
def flipE : List TRev → List TRev
  | [] => []
  | x :: rest => flipE rest ++ flipRev x

theorem effEntry_nil (L : Id → Bool) : effEntry [] L = L := rfl
theorem effEntry_cons (x : TRev) (e : List TRev) (L : Id → Bool) :
    effEntry (x :: e) L = effEntry e (effRev x L) := rfl

theorem effEntry_append (a b : List TRev) (L : Id → Bool) :
    effEntry (a ++ b) L = effEntry b (effEntry a L) := by
  unfold effEntry; rw [List.foldl_append]

theorem rmode_flip_flip (m : RMode) : m.flip.flip = m := by cases m <;> rfl

theorem effEntry_flipRev_flipRev (x : TRev) (L : Id → Bool) :
    effEntry ((flipRev x).flatMap flipRev) L = effRev x L := by
  cases x with
  | spans fr r m k => simp [flipRev, effEntry, rmode_flip_flip]
  | noop a b => rfl
  | style a b c d => rfl

theorem flipE_append (a b : List TRev) : flipE (a ++ b) = flipE b ++ flipE a := by
  induction a with
  | nil => simp [flipE]
  | cons x r ih => simp [flipE, ih, List.append_assoc]

theorem flipE_flipRev (x : TRev) : flipE (flipRev x) = (flipRev x).flatMap flipRev := by
  cases x <;> simp [flipRev, flipE]

/-- flipping twice is the entry itself, as far as liveness is concerned -/
theorem effEntry_flipE_flipE (e : List TRev) (L : Id → Bool) :
    effEntry (flipE (flipE e)) L = effEntry e L := by
  induction e generalizing L with
  | nil => rfl
  | cons x r ih =>
    simp only [flipE, flipE_append, effEntry_append, effEntry_cons]
    rw [flipE_flipRev, effEntry_flipRev_flipRev, ih]

/-- two entries with the same effect on liveness -/
def SameEff (a b : List TRev) : Prop := ∀ L, effEntry a L = effEntry b L

theorem SameEff.refl (a : List TRev) : SameEff a a := fun _ => rfl

/-! ### the chain -/

/-- `Chain st L stack recs`: see the header -/
def Chain (st : TextSt) : (Id → Bool) → List (List TRev) → List (List Nat) → Prop
  | _, [], [] => True
  | L, e :: es, r :: rs =>
    effEntry (flipE e) (effEntry e L) = L ∧ Degr r (projC (effEntry e L) st) ∧
      Chain st (effEntry e L) es rs
  | _, _, _ => False

theorem chain_length {st : TextSt} : ∀ {L : Id → Bool} {es : List (List TRev)} {rs : List (List Nat)},
    Chain st L es rs → es.length = rs.length
  | _, [], [], _ => rfl
  | _, _ :: es, _ :: rs, h => by
    simp only [List.length_cons]; rw [chain_length h.2.2]
  | _, [], _ :: _, h => by simp [Chain] at h
  | _, _ :: _, [], h => by simp [Chain] at h

/-- dropping the oldest entry keeps a chain -/
theorem chain_dropLast {st : TextSt} : ∀ {L : Id → Bool} {es : List (List TRev)} {rs : List (List Nat)},
    Chain st L es rs → Chain st L es.dropLast rs.dropLast
  | _, [], [], _ => by simp [Chain]
  | _, [_], [_], _ => by simp [Chain]
  | L, e :: e2 :: es, r :: r2 :: rs, h => by
    have ih := chain_dropLast (es := e2 :: es) (rs := r2 :: rs) h.2.2
    simp only [List.dropLast_cons_cons]
    exact ⟨h.1, h.2.1, ih⟩
  | _, [], _ :: _, h => by simp [Chain] at h
  | _, _ :: _, [], h => by simp [Chain] at h
  | _, [_], _ :: _ :: _, h => by simp [Chain] at h
  | _, _ :: _ :: _, [_], h => by simp [Chain] at h

/-- a liveness function that selects nothing of the insertions issued after `lam` -/
def OldL (lam : Int) (B : Id → Bool) : Prop := ∀ c, B c = true → c.1.lamport ≤ lam

/-- every span an entry names belongs to an insertion issued up to `lam` -/
def RevOld (lam : Int) : TRev → Prop
  | .spans _ r _ k => ∀ sp ∈ r ++ k, sp.ca.lamport ≤ lam
  | .noop _ _ => True
  | .style _ _ _ _ => True

theorem inAny_old {lam : Int} {sps : List Span} (h : ∀ sp ∈ sps, sp.ca.lamport ≤ lam) {c : Id}
    (hc : inAny sps c = true) : c.1.lamport ≤ lam := by
  unfold inAny at hc
  obtain ⟨sp, hsp, hin⟩ := List.any_eq_true.mp hc
  unfold inSpanC at hin
  simp only [Bool.and_eq_true, decide_eq_true_eq] at hin
  rw [hin.1.1]; exact h sp hsp

theorem oldL_assign {lam : Int} {on off : List Span} (h : ∀ sp ∈ on, sp.ca.lamport ≤ lam) {L : Id → Bool}
    (hL : OldL lam L) : OldL lam (assign on off L) := by
  intro c hc
  unfold assign at hc
  split at hc
  · rename_i h1; exact inAny_old h h1
  · split at hc
    · cases hc
    · exact hL c hc

theorem oldL_effRev {lam : Int} {x : TRev} (hx : RevOld lam x) {L : Id → Bool} (hL : OldL lam L) :
    OldL lam (effRev x L) := by
  cases x with
  | spans fr r m k =>
    cases m with
    | restore => exact oldL_assign (fun sp h => hx sp (List.mem_append_left _ h)) hL
    | retombstone => exact oldL_assign (fun sp h => hx sp (List.mem_append_right _ h)) hL
  | noop a b => exact hL
  | style a b c d => exact hL

theorem oldL_effEntry {lam : Int} {e : List TRev} (he : ∀ x ∈ e, RevOld lam x) {L : Id → Bool}
    (hL : OldL lam L) : OldL lam (effEntry e L) := by
  induction e generalizing L with
  | nil => exact hL
  | cons x r ih =>
    rw [effEntry_cons]
    exact ih (fun y hy => he y (List.mem_cons_of_mem _ hy)) (oldL_effRev (he x List.mem_cons_self) hL)

theorem oldL_mono {lam lam' : Int} (h : lam ≤ lam') {B : Id → Bool} (hB : OldL lam B) : OldL lam' B :=
  fun c hc => Int.le_trans (hB c hc) h

theorem revOld_mono {lam lam' : Int} (h : lam ≤ lam') {x : TRev} (hx : RevOld lam x) : RevOld lam' x := by
  cases x with
  | spans fr r m k => exact fun sp hsp => Int.le_trans (hx sp hsp) h
  | noop a b => trivial
  | style a b c d => trivial

/-- the block list may change under a chain as long as every OLD selection only degrades -/
theorem chain_mono {st st' : TextSt} {lam : Int}
    (hd : ∀ B, OldL lam B → Degr (projC B st) (projC B st'))
    (trans : ∀ {a b c : List Nat}, Degr a b → Degr b c → Degr a c) :
    ∀ {L : Id → Bool} {es : List (List TRev)} {rs : List (List Nat)}, OldL lam L →
      (∀ e ∈ es, ∀ x ∈ e, RevOld lam x) → Chain st L es rs → Chain st' L es rs
  | _, [], [], _, _, _ => by simp [Chain]
  | L, e :: es, r :: rs, hL, ho, h => by
    have hB := oldL_effEntry (ho e List.mem_cons_self) hL
    exact ⟨h.1, trans h.2.1 (hd _ hB),
      chain_mono hd trans hB (fun e' he' => ho e' (List.mem_cons_of_mem _ he')) h.2.2⟩
  | _, [], _ :: _, _, _, h => by simp [Chain] at h
  | _, _ :: _, [], _, _, h => by simp [Chain] at h

end Yorkie.TextUndo
