/-
Text convergence, part 9: `Text.edit` and `Text.styleOp` of the block model refine the abstract
operation on cells (`edit_abs`, `styleOp_abs`).
Core Lean only.
-/
import YorkieModel.Lemmas.TextConvNode
set_option linter.unusedSimpArgs false
namespace Yorkie.TextConv
open Yorkie Yorkie.Text

theorem anchorIn_mem {l : Cells} {p : Pos} (h : AnchorIn l p) {t : Id} (e : anchorOf p = some t) :
    t ∈ cids l := by
  unfold anchorOf at e
  rcases h with ⟨h0, _⟩ | ⟨h1, h2⟩
  · rw [if_pos h0] at e; cases e
  · rw [if_neg (by omega)] at e; injection e with e; rw [← e]; exact h2

theorem anchorIn_congr {l l' : Cells} (h : cids l' = cids l) {p : Pos} (hp : AnchorIn l p) : AnchorIn l' p := by
  rcases hp with h0 | ⟨h1, h2⟩
  · exact Or.inl h0
  · exact Or.inr ⟨h1, by rw [h]; exact h2⟩

/-- a node that is not at the front is not the head -/
theorem not_head_of_later {s : TextSt} (wf : WFg s) {P Q : TextSt} {d : TNode} (hs : s = P ++ d :: Q)
    (hP : P ≠ []) : d.id ≠ headId := by
  obtain ⟨hd, r, hs', hid, _⟩ := wf.head
  intro e
  cases P with
  | nil => exact hP rfl
  | cons x P' =>
    rw [hs] at hs'
    simp only [List.cons_append, List.cons.injEq] at hs'
    have nd := wf.nodup
    rw [hs] at nd
    simp only [List.cons_append, ids_cons, List.nodup_cons] at nd
    apply nd.1
    rw [hs'.1, hid, ← e]
    rw [ids_append]; simp

theorem around_of {s : TextSt} (wf : WFg s) {ts : Ticket} {a : Option Id} {A : TextSt} {cur : TNode}
    {C : TextSt} (hs : s = A ++ cur :: C) (hends : EndsAt cur A a)
    (hold : ∀ i, a = some i → i.1.after ts = false) :
    ∃ K D, C = K ++ D ∧ Around s ts a A cur K D ∧
      skipFrom ts cur C = (K.getLastD cur, D.head?) := by
  obtain ⟨K, D, h1, h2, h3, h4⟩ := skipFrom_spec ts cur C
  refine ⟨K, D, h1, ⟨by rw [hs, h1], hends, h2, ?_, hold⟩, h4⟩
  intro d D' hD
  refine ⟨h3 d D' hD, ?_⟩
  have hmem : d ∈ s := by rw [hs, h1, hD]; simp
  apply wf.nonempty d hmem
  apply not_head_of_later wf (P := A ++ cur :: K) (Q := D')
  · rw [hs, h1, hD]; simp
  · simp

/-- the two `findNodeWithSplit` calls of `edit` / `styleWith` -/
theorem two_fnws {s : TextSt} (wf : WFg s) {fr to : Pos} (hfr : AnchorIn (abs s) fr)
    (hto : AnchorIn (abs s) to) {ts : Ticket}
    (hold : ∀ j, anchorOf fr = some j ∨ anchorOf to = some j → j.1.after ts = false) :
    ∃ s1 l1 toRight s2 AF curF KF DF AT bT KT DT,
      findNodeWithSplit s to ts = .ok (s1, l1, toRight) ∧
      findNodeWithSplit s1 fr ts = .ok (s2, (KF.getLastD curF).id, DF.head?.map (·.id)) ∧
      toRight = DT.head?.map (·.id) ∧ WFg s2 ∧
      abs s2 = splitAfterO (anchorOf fr) (splitAfterO (anchorOf to) (abs s)) ∧
      Around s2 ts (anchorOf fr) AF curF KF DF ∧ Around s2 ts (anchorOf to) AT bT KT DT ∧
      (∀ x ∈ s2, ∃ m ∈ s, x.id.1 = m.id.1) := by
  obtain ⟨s1, A1, cur1, rest1, e1, hs1, wf1, habs1, hends1, tick1⟩ := fnws_abs wf hto ts
  have hc1 : cids (abs s1) = cids (abs s) := by rw [habs1, cids_splitAfterO]
  obtain ⟨s2, AF, curF, restF, e2, hs2, wf2, habs2, hendsF, tick2⟩ :=
    fnws_abs wf1 (anchorIn_congr hc1 hfr) ts
  have hc2 : cids (abs s2) = cids (abs s1) := by rw [habs2, cids_splitAfterO]
  obtain ⟨K1, D1, _, hAr1, hsk1⟩ := around_of wf1 hs1 hends1 (fun i e => hold i (Or.inr e))
  obtain ⟨KF, DF, _, hArF, hskF⟩ := around_of wf2 hs2 hendsF (fun i e => hold i (Or.inl e))
  -- the block ending at the `to` anchor in `s2`
  have hT2 : ∀ t, anchorOf to = some t →
      t ∈ cids (abs s2) ∧ hasOpen (nxt t) (abs s2) = false := by
    intro t ht
    refine ⟨by rw [hc2, hc1]; exact anchorIn_mem hto ht, ?_⟩
    rw [habs2, habs1, ht]
    exact hasOpen_splitAfterO_mono (hasOpen_splitAfter_self t _) _
  obtain ⟨AT, bT, CT, hsT, hendsT⟩ := struct_of_anchor wf2 hT2
  obtain ⟨KT, DT, _, hArT, _⟩ := around_of wf2 hsT hendsT (fun i e => hold i (Or.inr e))
  refine ⟨s1, _, _, s2, AF, curF, KF, DF, AT, bT, KT, DT, e1, ?_, ?_, wf2, by rw [habs2, habs1],
    hArF, hArT, ?_⟩
  · rw [e2, hskF]
  · rw [hsk1]
    simp only
    rw [right_eq_firstOlder wf1 hAr1.eq hAr1.ends hAr1.newer hAr1.older,
      right_eq_firstOlder wf2 hArT.eq hArT.ends hArT.newer hArT.older, hc2]
  · intro x hx
    obtain ⟨m, hm, e⟩ := tick2 x hx
    obtain ⟨m', hm', e'⟩ := tick1 m hm
    exact ⟨m', hm', e.trans e'⟩

/-! ### transporting the decomposition through a shape-preserving map -/

theorem getLastD_map (h : TNode → TNode) (K : TextSt) (cur : TNode) :
    (K.map h).getLastD (h cur) = h (K.getLastD cur) := by
  induction K generalizing cur with
  | nil => rfl
  | cons x r ih => simp only [List.map_cons, List.getLastD_cons, ih]

theorem Around.map {s : TextSt} {ts : Ticket} {a : Option Id} {A K D : TextSt} {cur : TNode}
    (hA : Around s ts a A cur K D) {h : TNode → TNode} (hh : KeepsShape h) :
    Around (s.map h) ts a (A.map h) (h cur) (K.map h) (D.map h) := by
  refine ⟨by rw [hA.eq]; simp, ?_, ?_, ?_, hA.anchorOld⟩
  · have hlen : (h cur).len = cur.len := by simp [TNode.len, (hh cur).2.1]
    cases a with
    | none =>
      obtain ⟨h1, h2⟩ := hA.ends
      exact ⟨by rw [h1]; rfl, by rw [(hh cur).2.1]; exact h2⟩
    | some i =>
      obtain ⟨h1, h2, h3⟩ := hA.ends
      exact ⟨by rw [(hh cur).1]; exact h1, by rw [(hh cur).1, hlen]; exact h2, by rw [hlen]; exact h3⟩
  · intro x hx
    obtain ⟨y, hy, rfl⟩ := List.mem_map.1 hx
    rw [(hh y).1]; exact hA.newer y hy
  · intro d D' hD
    cases hDD : D with
    | nil => rw [hDD] at hD; cases hD
    | cons d0 D0 =>
      rw [hDD] at hD
      simp only [List.map_cons, List.cons.injEq] at hD
      obtain ⟨o1, o2⟩ := hA.older d0 D0 hDD
      rw [← hD.1, (hh d0).1, (hh d0).2.1]
      exact ⟨o1, o2⟩

/-! ### `edit` -/

/-- `Text.edit` with any version-vector argument, against any cell function that matches
    `removeNode` -/
theorem edit_abs_gen {s : TextSt} (wf : WFg s) {fr to : Pos} {content : List Nat}
    {attrs : List (String × String)} {ts : Ticket} {vvo : Option VV} {f : Cell → Cell}
    (hgf : ∀ n, absNode (removeNode ts vvo n) = (absNode n).map f)
    (hfr : AnchorIn (abs s) fr) (hto : AnchorIn (abs s) to)
    (hold : ∀ j, anchorOf fr = some j ∨ anchorOf to = some j → j.1.after ts = false)
    (hfresh : Fresh s ts) (hc : Fixed content)
    (hnew : ∀ t, (∃ n ∈ s, n.id.1 = t) → t.after ts = true → ∀ c : Cell, c.id.1 = t → f c = c) :
    ∃ s', edit fr to content attrs ts vvo s = .ok s' ∧ WFg s' ∧
      abs s' = insAfter (anchorOf fr) ts (newCells ts content attrs)
        (rmap (anchorOf fr) (anchorOf to) f
          (splitAfterO (anchorOf fr) (splitAfterO (anchorOf to) (abs s)))) := by
  obtain ⟨s1, l1, toRight, s2, AF, curF, KF, DF, AT, bT, KT, DT, e1, e2, hR, wf2, habs2, hArF, hArT,
    tick⟩ := two_fnws wf hfr hto hold
  have keeps := keeps_applyTo (keeps_removeNode ts vvo)
    (between s2 (DF.head?.map (·.id)) (DT.head?.map (·.id)))
  have hrange := range_abs wf2 hArF hArT (g := removeNode ts vvo) (f := f) hgf (by
      intro n hn hnewer c hc
      obtain ⟨m, hm, e⟩ := tick n hn
      exact hnew n.id.1 ⟨m, hm, e.symm⟩ hnewer c (mem_absNode hc).1)
  have wf3 := wfg_map_keeps wf2 keeps
  have hev : edit fr to content attrs ts vvo s =
      if content.isEmpty then
        .ok (s2.map (applyTo (between s2 (DF.head?.map (·.id)) (DT.head?.map (·.id)))
          (removeNode ts vvo)))
      else .ok (insertAfterId (s2.map (applyTo (between s2 (DF.head?.map (·.id))
          (DT.head?.map (·.id))) (removeNode ts vvo))) (KF.getLastD curF).id
          (newNode ts content attrs)) := by
    unfold edit
    rw [e1]; simp only
    rw [e2]; simp only
    rw [hR]
  obtain ⟨s', hs'⟩ : ∃ s', edit fr to content attrs ts vvo s = .ok s' := by
    rw [hev]; split <;> exact ⟨_, rfl⟩
  refine ⟨s', hs', wfg_edit wf hfresh hc hs', ?_⟩
  rw [hev] at hs'
  rw [← habs2, ← hrange]
  by_cases hce : content.isEmpty = true
  · rw [if_pos hce] at hs'
    injection hs' with hs'
    have : content = [] := by simpa using hce
    subst this
    rw [← hs']
    have : newCells ts [] attrs = [] := rfl
    rw [this, insAfter_nil]
  · rw [if_neg hce] at hs'
    injection hs' with hs'
    rw [← hs', ← absNode_newNode]
    have hA3 := hArF.map keeps
    have := insert_abs wf3.nodup (nodup_cids_abs wf3) hA3.eq hA3.ends hA3.newer hA3.older
      (newNode ts content attrs)
    rw [getLastD_map, (keeps _).1] at this
    exact this

/-- **`Text.edit` refines the abstract edit** (remote execution, with the change's vector) -/
theorem edit_abs {s : TextSt} (wf : WFg s) {fr to : Pos} {content : List Nat}
    {attrs : List (String × String)} {ts : Ticket} {vv : VV}
    (hfr : AnchorIn (abs s) fr) (hto : AnchorIn (abs s) to)
    (hold : ∀ j, anchorOf fr = some j ∨ anchorOf to = some j → j.1.after ts = false)
    (hfresh : Fresh s ts) (hc : Fixed content)
    (hnew : ∀ n ∈ s, n.id.1.after ts = true → knownB vv n.id.1 = false) :
    ∃ s', edit fr to content attrs ts (some vv) s = .ok s' ∧ WFg s' ∧
      abs s' = insAfter (anchorOf fr) ts (newCells ts content attrs)
        (rmap (anchorOf fr) (anchorOf to) (delCell vv)
          (splitAfterO (anchorOf fr) (splitAfterO (anchorOf to) (abs s)))) :=
  edit_abs_gen wf (absNode_removeNode ts vv) hfr hto hold hfresh hc (by
    intro t ⟨n, hn, e⟩ hnewer c hc
    apply delCell_fix
    rw [hc, ← e]; exact hnew n hn (by rw [e]; exact hnewer))

/-- the cell function of a LOCAL deletion (`vv = nil`: everything is known) -/
def delAll (c : Cell) : Cell := { c with removed := true, attrs := AAttrs.empty }

theorem absNode_removeNode_none (ts : Ticket) (n : TNode) :
    absNode (removeNode ts none n) = (absNode n).map delAll := by
  have target : (absNode n).map delAll = mkCells n.id.1 true AAttrs.empty n.id.2 true n.units :=
    mkCells_map (fun c _ _ _ => rfl) _ _ _
  rw [target]
  unfold removeNode
  simp only [known, Bool.not_true, Bool.false_eq_true, if_false, Bool.false_and]
  cases hr : n.removedAt with
  | none => simp [absNode, nodeAttrs]
  | some r => simp [absNode, nodeAttrs, hr]

/-- **the author's local execution (`vv = nil`) and the execution with the change's vector have the
    same abstraction**, when the vector covers every node of the author's replica and the ticket is
    the newest -/
theorem edit_local_eq_remote {s : TextSt} (wf : WFg s) {fr to : Pos} {content : List Nat}
    {attrs : List (String × String)} {ts : Ticket} {vv : VV}
    (hfr : AnchorIn (abs s) fr) (hto : AnchorIn (abs s) to)
    (hfresh : Fresh s ts) (hc : Fixed content)
    (hnewest : ∀ n ∈ s, n.id.1.after ts = false)
    (hcover : ∀ n ∈ s, 0 < n.len → knownB vv n.id.1 = true) :
    ∃ sl sr, edit fr to content attrs ts none s = .ok sl ∧
      edit fr to content attrs ts (some vv) s = .ok sr ∧ abs sl = abs sr := by
  have hold : ∀ j, anchorOf fr = some j ∨ anchorOf to = some j → j.1.after ts = false := by
    intro j hj
    have hmem : j ∈ cids (abs s) := by
      rcases hj with h | h
      · exact anchorIn_mem hfr h
      · exact anchorIn_mem hto h
    obtain ⟨n, hn, e, _⟩ := block_of_cell hmem
    rw [← e]; exact hnewest n hn
  obtain ⟨sl, h1, _, h2⟩ := edit_abs_gen (attrs := attrs) wf (absNode_removeNode_none ts) hfr hto hold
    hfresh hc (by
      intro t ⟨n, hn, e⟩ hnewer
      rw [← e, hnewest n hn] at hnewer; cases hnewer)
  obtain ⟨sr, h3, _, h4⟩ := edit_abs (attrs := attrs) (vv := vv) wf hfr hto hold hfresh hc (by
      intro n hn hnewer
      rw [hnewest n hn] at hnewer; cases hnewer)
  refine ⟨sl, sr, h1, h3, ?_⟩
  rw [h2, h4]
  congr 1
  unfold rmap mapOn
  apply List.map_congr_left
  intro c hc'
  have : delCell vv c = delAll c := by
    have hmem : c.id ∈ cids (abs s) := by
      have := mem_cids_of_mem hc'
      rwa [cids_splitAfterO, cids_splitAfterO] at this
    obtain ⟨n, hn, e, e2, e3⟩ := block_of_cell hmem
    unfold delCell delAll
    rw [← e, hcover n hn (by omega)]; rfl
  rw [this]

/-! ### `styleWith`, `styleOp` -/

/-- the id-preserving part of an abstract operation, spelled out -/
def Mof (F T : Option Id) (f : Cell → Cell) (l : Cells) : Cells :=
  rmap F T f (splitAfterO F (splitAfterO T l))

theorem cids_Mof {f : Cell → Cell} (hf : ∀ c, (f c).id = c.id) (F T : Option Id) (l : Cells) :
    cids (Mof F T f l) = cids l := by
  unfold Mof; rw [cids_rmap hf, cids_splitAfterO, cids_splitAfterO]

theorem styleWith_abs {s : TextSt} (wf : WFg s) {fr to : Pos} {g : List AttrNode → List AttrNode}
    {ps : Puts} {ts : Ticket} {vv : VV}
    (hg : ∀ as, normAttrs (g as) = applyPuts ps (normAttrs as))
    (hfr : AnchorIn (abs s) fr) (hto : AnchorIn (abs s) to)
    (hold : ∀ j, anchorOf fr = some j ∨ anchorOf to = some j → j.1.after ts = false)
    (hnew : ∀ n ∈ s, n.id.1.after ts = true → existedB vv n.id.1 = false) :
    ∃ s', styleWith fr to g ts (some vv) s = .ok s' ∧ WFg s' ∧
      abs s' = Mof (anchorOf fr) (anchorOf to) (styCell vv ps) (abs s) ∧
      (∀ x ∈ s', ∃ m ∈ s, x.id.1 = m.id.1) := by
  obtain ⟨s1, l1, toRight, s2, AF, curF, KF, DF, AT, bT, KT, DT, e1, e2, hR, wf2, habs2, hArF, hArT,
    tick⟩ := two_fnws wf hfr hto hold
  have hrange := range_abs wf2 hArF hArT (g := styleNode ts (some vv) g) (f := styCell vv ps)
    (absNode_styleNode ts vv hg) (by
      intro n hn hnewer c hc
      obtain ⟨m, hm, e⟩ := tick n hn
      apply styCell_fix
      rw [(mem_absNode hc).1, e]
      exact hnew m hm (by rw [← e]; exact hnewer))
  have hev : styleWith fr to g ts (some vv) s =
      .ok (s2.map (applyTo (between s2 (DF.head?.map (·.id)) (DT.head?.map (·.id)))
        (styleNode ts (some vv) g))) := by
    unfold styleWith
    rw [e1]; simp only
    rw [e2]; simp only
    rw [hR]
  refine ⟨_, hev, wfg_styleWith wf hev, ?_, ?_⟩
  · unfold Mof; rw [← habs2, ← hrange]
  · intro x hx
    obtain ⟨y, hy, rfl⟩ := List.mem_map.1 hx
    have := (keeps_applyTo (keeps_styleNode ts (some vv) g)
      (between s2 (DF.head?.map (·.id)) (DT.head?.map (·.id))) y).1
    rw [this]; exact tick y hy

theorem splitAfter_idem (a : Id) (l : Cells) : splitAfter a (splitAfter a l) = splitAfter a l := by
  generalize hl : splitAfter a l = l'
  unfold splitAfter
  rw [← hl, hasOpen_splitAfter_self]; rfl

theorem splitAfterO_idem (a : Option Id) (l : Cells) : splitAfterO a (splitAfterO a l) = splitAfterO a l := by
  cases a with
  | none => rfl
  | some a => exact splitAfter_idem a l

theorem rmap_rmap {f1 f2 : Cell → Cell} (h1 : ∀ c, (f1 c).id = c.id) (F T : Option Id) (l : Cells) :
    rmap F T f2 (rmap F T f1 l) = rmap F T (fun c => f2 (f1 c)) l := by
  unfold rmap
  rw [cids_mapOn h1]
  generalize rangeIds F T (cids l) = R
  unfold mapOn
  rw [List.map_map]
  apply List.map_congr_left
  intro c _
  simp only [Function.comp]
  by_cases h : c.id ∈ R
  · simp [h, h1]
  · simp [h]

/-- two passes over the same range = one pass with the composed cell function -/
theorem Mof_twice {f1 f2 : Cell → Cell} (g1 : Good f1) (F T : Option Id) (l : Cells) :
    Mof F T f2 (Mof F T f1 l) = Mof F T (fun c => f2 (f1 c)) l := by
  unfold Mof
  rw [splitAfterO_rmap g1 T, splitAfterO_rmap g1 F, splitAfterO_comm T F, splitAfterO_idem T,
    splitAfterO_idem F, rmap_rmap g1.id]

theorem styCell_append (vv : VV) (ps qs : Puts) (c : Cell) :
    styCell vv qs (styCell vv ps c) = styCell vv (ps ++ qs) c := by
  unfold styCell
  by_cases h : (existedB vv c.id.1 && !c.removed) = true
  · simp only [h, if_true, applyPuts_append]
  · simp only [h, if_false, Bool.false_eq_true]

/-- **`operations.Style.Execute` refines the abstract style operation** (one pass with the removals
    followed by the settings) -/
theorem styleOp_abs {s : TextSt} (wf : WFg s) {fr to : Pos} {attrs : List (String × String)}
    {keys : List String} {ts : Ticket} {vv : VV}
    (hne : attrs ≠ [] ∨ keys ≠ [])
    (hfr : AnchorIn (abs s) fr) (hto : AnchorIn (abs s) to)
    (hold : ∀ j, anchorOf fr = some j ∨ anchorOf to = some j → j.1.after ts = false)
    (hnew : ∀ n ∈ s, n.id.1.after ts = true → existedB vv n.id.1 = false) :
    ∃ s', styleOp fr to attrs keys ts (some vv) s = .ok s' ∧ WFg s' ∧
      abs s' = Mof (anchorOf fr) (anchorOf to) (styCell vv (remPuts keys ts ++ setPuts attrs ts)) (abs s) := by
  have hset : ∀ as, normAttrs ((fun a => rhtSetAll a attrs ts) as) = applyPuts (setPuts attrs ts) (normAttrs as) :=
    fun as => norm_rhtSetAll attrs ts as
  have hrem : ∀ as, normAttrs ((fun a => rhtRemoveAll a keys ts) as) = applyPuts (remPuts keys ts) (normAttrs as) :=
    fun as => norm_rhtRemoveAll keys ts as
  unfold styleOp
  by_cases hk : keys.isEmpty = true
  · have hk' : keys = [] := by simpa using hk
    have ha : attrs ≠ [] := by
      rcases hne with h | h
      · exact h
      · exact absurd hk' h
    have ha' : ¬ attrs.isEmpty = true := by simpa using ha
    rw [if_pos hk]; simp only
    rw [if_neg ha']
    obtain ⟨s', h1, h2, h3, _⟩ := styleWith_abs wf hset hfr hto hold hnew
    refine ⟨s', h1, h2, ?_⟩
    rw [h3, hk']; rfl
  · rw [if_neg hk]
    obtain ⟨s1, h1, wf1, habs1, tick1⟩ := styleWith_abs wf hrem hfr hto hold hnew
    have hrs : removeStyle fr to keys ts (some vv) s = .ok s1 := h1
    rw [hrs]; simp only
    by_cases ha : attrs.isEmpty = true
    · rw [if_pos ha]
      have ha' : attrs = [] := by simpa using ha
      refine ⟨s1, rfl, wf1, ?_⟩
      rw [habs1, ha']
      simp [setPuts]
    · rw [if_neg ha]
      have hc1 : cids (abs s1) = cids (abs s) := by
        rw [habs1, cids_Mof (good_styCell vv _).id]
      obtain ⟨s', h2, wf2, habs2, _⟩ := styleWith_abs wf1 hset (anchorIn_congr hc1 hfr)
        (anchorIn_congr hc1 hto) hold (by
          intro n hn hnewer
          obtain ⟨m, hm, e⟩ := tick1 n hn
          rw [e]; exact hnew m hm (by rw [← e]; exact hnewer))
      refine ⟨s', h2, wf2, ?_⟩
      rw [habs2, habs1, Mof_twice (good_styCell vv _)]
      congr 1
      funext c
      exact styCell_append vv _ _ c

/-! ### local execution of a style operation -/

theorem styleNode_local {ts : Ticket} {vv : VV} {g : List AttrNode → List AttrNode} {n : TNode}
    (h : existedB vv n.id.1 = true) : styleNode ts none g n = styleNode ts (some vv) g n := by
  have : canStyle ts none n = canStyle ts (some vv) n := by
    unfold canStyle
    have e : (vv.isEmpty || decide (n.id.1.lamport ≤ vv.versionOf n.id.1.actor)) = true := h
    simp only [e]
  unfold styleNode; rw [this]

theorem styleWith_local {s : TextSt} (wf : WFg s) {fr to : Pos} {g : List AttrNode → List AttrNode}
    {ts : Ticket} {vv : VV} (hcover : ∀ n ∈ s, existedB vv n.id.1 = true) :
    styleWith fr to g ts none s = styleWith fr to g ts (some vv) s ∧
      ∀ s', styleWith fr to g ts (some vv) s = .ok s' → ∀ x ∈ s', ∃ m ∈ s, x.id.1 = m.id.1 := by
  unfold styleWith
  cases h1 : findNodeWithSplit s to ts with
  | error e => exact ⟨rfl, fun s' h => by cases h⟩
  | ok r1 =>
    obtain ⟨s1, l1, toRight⟩ := r1
    simp only
    cases h2 : findNodeWithSplit s1 fr ts with
    | error e => exact ⟨rfl, fun s' h => by cases h⟩
    | ok r2 =>
      obtain ⟨s2, fl, fromRight⟩ := r2
      simp only
      obtain ⟨wf1, t1⟩ := fnws_wfg wf h1
      obtain ⟨_, t2⟩ := fnws_wfg wf1 h2
      have tick : ∀ x ∈ s2, ∃ m ∈ s, x.id.1 = m.id.1 := by
        intro x hx
        obtain ⟨m, hm, e⟩ := t2 x hx
        obtain ⟨m', hm', e'⟩ := t1 m hm
        exact ⟨m', hm', e.trans e'⟩
      constructor
      · congr 1
        apply List.map_congr_left
        intro x hx
        obtain ⟨m, hm, e⟩ := tick x hx
        unfold applyTo
        split
        · exact styleNode_local (by rw [e]; exact hcover m hm)
        · rfl
      · intro s' h x hx
        injection h with h; subst h
        obtain ⟨y, hy, rfl⟩ := List.mem_map.1 hx
        rw [(keeps_applyTo (keeps_styleNode ts (some vv) g) _ y).1]
        exact tick y hy

/-- **the author's local `Style` (`vv = nil`) is the same call as with the change's vector**, when the
    vector covers every node of the author's replica -/
theorem styleOp_local {s : TextSt} (wf : WFg s) {fr to : Pos} {attrs : List (String × String)}
    {keys : List String} {ts : Ticket} {vv : VV} (hcover : ∀ n ∈ s, existedB vv n.id.1 = true) :
    styleOp fr to attrs keys ts none s = styleOp fr to attrs keys ts (some vv) s := by
  unfold styleOp
  by_cases hk : keys.isEmpty = true
  · simp only [hk, if_true]
    split
    · rfl
    · exact (styleWith_local wf hcover).1
  · simp only [hk, if_false]
    have h1 := styleWith_local (fr := fr) (to := to) (g := fun a => rhtRemoveAll a keys ts) (ts := ts) wf hcover
    unfold removeStyle
    rw [h1.1]
    cases h : styleWith fr to (fun a => rhtRemoveAll a keys ts) ts (some vv) s with
    | error e => rfl
    | ok s1 =>
      show (if attrs.isEmpty = true then Except.ok s1 else style fr to attrs ts none s1) =
        (if attrs.isEmpty = true then Except.ok s1 else style fr to attrs ts (some vv) s1)
      by_cases ha : attrs.isEmpty = true
      · rw [if_pos ha, if_pos ha]
      · rw [if_neg ha, if_neg ha]
        have wf1 := wfg_styleWith wf h
        exact (styleWith_local wf1 (by
          intro n hn
          obtain ⟨m, hm, e⟩ := h1.2 s1 h n hn
          rw [e]; exact hcover m hm)).1

end Yorkie.TextConv
