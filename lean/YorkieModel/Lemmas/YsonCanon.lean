/-
C18, text level, part B2: `canonKvs` (Go map semantics of a parsed JSON object: last
duplicate wins, listed by increasing key) is the identity on strictly sorted member
lists, and sorts any duplicate-free permutation of one.  Core Lean only.
-/
import YorkieModel.Model.YsonText
namespace Yorkie.Yson

/-! ### `strLt` is a strict total order -/

theorem strLt_irrefl : ∀ (a : Str), strLt a a = false
  | [] => rfl
  | x :: r => by simp [strLt, strLt_irrefl r]

theorem strLt_trans : ∀ {a b c : Str}, strLt a b = true → strLt b c = true → strLt a c = true
  | [], [], _, h, _ => by simp [strLt] at h
  | [], _ :: _, [], _, h => by simp [strLt] at h
  | [], _ :: _, _ :: _, _, _ => rfl
  | _ :: _, [], _, h, _ => by simp [strLt] at h
  | _ :: _, _ :: _, [], _, h => by simp [strLt] at h
  | x :: a, y :: b, z :: c, h1, h2 => by
    simp only [strLt] at h1 h2 ⊢
    by_cases hxy : x < y
    · by_cases hyz : y < z
      · have : x < z := Nat.lt_trans hxy hyz
        simp [this]
      · simp only [hyz, if_false] at h2
        by_cases hzy : z < y
        · simp [hzy] at h2
        · have : y = z := by omega
          subst this
          simp [hxy]
    · simp only [hxy, if_false] at h1
      by_cases hyx : y < x
      · simp [hyx] at h1
      · have : x = y := by omega
        subst this
        simp only [hyx, if_false] at h1
        by_cases hxz : x < z
        · simp [hxz]
        · simp only [hxz, if_false] at h2 ⊢
          by_cases hzx : z < x
          · simp [hzx] at h2
          · simp only [hzx, if_false] at h2 ⊢
            exact strLt_trans h1 h2

theorem strLt_total : ∀ {a b : Str}, a ≠ b → strLt a b = false → strLt b a = true
  | [], [], h, _ => absurd rfl h
  | [], _ :: _, _, h => by simp [strLt] at h
  | _ :: _, [], _, _ => rfl
  | x :: a, y :: b, hne, h => by
    simp only [strLt] at h ⊢
    by_cases hxy : x < y
    · simp [hxy] at h
    · simp only [hxy, if_false] at h
      by_cases hyx : y < x
      · simp [hyx]
      · have : x = y := by omega
        subst this
        simp only [hyx, if_false] at h ⊢
        exact strLt_total (fun hab => hne (by rw [hab])) h

theorem strLt_ne {a b : Str} (h : strLt a b = true) : a ≠ b := by
  rintro rfl; simp [strLt_irrefl] at h

theorem strLt_asymm {a b : Str} (h : strLt a b = true) : strLt b a = false := by
  cases hba : strLt b a
  · rfl
  · have := strLt_trans h hba
    simp [strLt_irrefl] at this

/-! ### sorted association lists -/

/-- keys strictly increasing -/
def SortedK {α} (l : List (Str × α)) : Prop := l.Pairwise (fun x y => strLt x.1 y.1 = true)

theorem sortedK_of_sortedKeys {α} : ∀ {l : List (Str × α)}, sortedKeys (l.map (·.1)) = true → SortedK l
  | [], _ => List.Pairwise.nil
  | [_], _ => by simp [SortedK]
  | a :: b :: r, h => by
    simp only [List.map_cons, sortedKeys, Bool.and_eq_true] at h
    have ih : SortedK (b :: r) := sortedK_of_sortedKeys (by simpa using h.2)
    simp only [SortedK, List.pairwise_cons] at ih ⊢
    refine ⟨?_, ih⟩
    intro y hy
    rcases List.mem_cons.mp hy with rfl | hy
    · exact h.1
    · exact strLt_trans h.1 (ih.1 y hy)

theorem insertAbsent_of_lt {α} {k : Str} {v : α} : ∀ {l : List (Str × α)}, (∀ y ∈ l, strLt k y.1 = true) →
    insertAbsent k v l = (k, v) :: l
  | [], _ => rfl
  | (k', v') :: r, h => by
    have hlt := h (k', v') (List.mem_cons_self)
    have hne : (k == k') = false := by simpa using strLt_ne hlt
    simp [insertAbsent, hne, hlt]

/-- a member list with strictly increasing keys is its own canonical form -/
theorem canonKvs_sorted {α} : ∀ {l : List (Str × α)}, SortedK l → canonKvs l = l
  | [], _ => rfl
  | (k, v) :: r, h => by
    simp only [SortedK, List.pairwise_cons] at h
    simp only [canonKvs, canonKvs_sorted h.2]
    exact insertAbsent_of_lt h.1

theorem mem_insertAbsent {α} {k : Str} {v : α} {x : Str × α} : ∀ {l : List (Str × α)}, (∀ y ∈ l, y.1 ≠ k) →
    (x ∈ insertAbsent k v l ↔ x = (k, v) ∨ x ∈ l)
  | [], _ => by simp [insertAbsent]
  | (k', v') :: r, h => by
    have hne : (k == k') = false := by
      have := h (k', v') (List.mem_cons_self)
      simp only [beq_eq_false_iff_ne]
      exact fun he => this he.symm
    simp only [insertAbsent, hne, Bool.false_eq_true, if_false]
    split
    · simp
    · simp only [List.mem_cons, mem_insertAbsent (l := r) (fun y hy => h y (List.mem_cons_of_mem _ hy))]
      constructor
      · rintro (h1 | h1 | h1)
        · exact Or.inr (Or.inl h1)
        · exact Or.inl h1
        · exact Or.inr (Or.inr h1)
      · rintro (h1 | h1 | h1)
        · exact Or.inr (Or.inl h1)
        · exact Or.inl h1
        · exact Or.inr (Or.inr h1)

theorem sortedK_insertAbsent {α} {k : Str} {v : α} : ∀ {l : List (Str × α)}, SortedK l → (∀ y ∈ l, y.1 ≠ k) →
    SortedK (insertAbsent k v l)
  | [], _, _ => by simp [SortedK, insertAbsent]
  | (k', v') :: r, hs, hne => by
    have hk : (k == k') = false := by
      have := hne (k', v') (List.mem_cons_self)
      simp only [beq_eq_false_iff_ne]
      exact fun he => this he.symm
    simp only [insertAbsent, hk, Bool.false_eq_true, if_false]
    simp only [SortedK, List.pairwise_cons] at hs
    split
    · rename_i hlt
      simp only [SortedK, List.pairwise_cons]
      refine ⟨?_, hs⟩
      intro y hy
      rcases List.mem_cons.mp hy with rfl | hy
      · exact hlt
      · exact strLt_trans hlt (hs.1 y hy)
    · rename_i hlt
      have hne' : ∀ y ∈ r, y.1 ≠ k := fun y hy => hne y (List.mem_cons_of_mem _ hy)
      have ih := sortedK_insertAbsent (k := k) (v := v) hs.2 hne'
      simp only [SortedK, List.pairwise_cons]
      refine ⟨?_, ih⟩
      intro y hy
      rcases (mem_insertAbsent hne').mp hy with rfl | hy
      · have : k ≠ k' := by simpa using hk
        exact strLt_total this (by simpa using hlt)
      · exact hs.1 y hy

/-- keys pairwise different -/
def NodupK {α} (l : List (Str × α)) : Prop := l.Pairwise (fun x y => x.1 ≠ y.1)

theorem canonKvs_spec {α} : ∀ {l : List (Str × α)}, NodupK l →
    SortedK (canonKvs l) ∧ ∀ x, x ∈ canonKvs l ↔ x ∈ l
  | [], _ => ⟨List.Pairwise.nil, fun _ => Iff.rfl⟩
  | (k, v) :: r, h => by
    simp only [NodupK, List.pairwise_cons] at h
    obtain ⟨ihs, ihm⟩ := canonKvs_spec (l := r) h.2
    have hne : ∀ y ∈ canonKvs r, y.1 ≠ k := fun y hy => (h.1 y ((ihm y).mp hy)).symm
    refine ⟨sortedK_insertAbsent ihs hne, ?_⟩
    intro x
    simp only [canonKvs, mem_insertAbsent hne, List.mem_cons, ihm]

/-- strictly sorted lists with the same members are equal -/
theorem sortedK_ext {α} : ∀ {l₁ l₂ : List (Str × α)}, SortedK l₁ → SortedK l₂ → (∀ x, x ∈ l₁ ↔ x ∈ l₂) → l₁ = l₂
  | [], [], _, _, _ => rfl
  | [], b :: _, _, _, h => by simpa using (h b).mpr (List.mem_cons_self)
  | a :: _, [], _, _, h => by simpa using (h a).mp (List.mem_cons_self)
  | a :: l₁, b :: l₂, h1, h2, h => by
    simp only [SortedK, List.pairwise_cons] at h1 h2
    have hab : a = b := by
      have ha := (h a).mp (List.mem_cons_self)
      have hb := (h b).mpr (List.mem_cons_self)
      rcases List.mem_cons.mp ha with ha | ha
      · exact ha
      · rcases List.mem_cons.mp hb with hb | hb
        · exact hb.symm
        · have h3 := h2.1 a ha
          have h4 := h1.1 b hb
          simp [strLt_asymm h3] at h4
    subst hab
    congr 1
    apply sortedK_ext h1.2 h2.2
    intro x
    constructor
    · intro hx
      rcases List.mem_cons.mp ((h x).mp (List.mem_cons_of_mem _ hx)) with rfl | hx'
      · have := h1.1 x hx
        simp [strLt_irrefl] at this
      · exact hx'
    · intro hx
      rcases List.mem_cons.mp ((h x).mpr (List.mem_cons_of_mem _ hx)) with rfl | hx'
      · have := h2.1 x hx
        simp [strLt_irrefl] at this
      · exact hx'

theorem nodupK_of_sortedK {α} {l : List (Str × α)} (h : SortedK l) : NodupK l :=
  List.Pairwise.imp (fun hxy => strLt_ne hxy) h

/-- the canonical form of a permutation of a strictly sorted member list is that list -/
theorem canonKvs_perm {α} {l l' : List (Str × α)} (hp : l.Perm l') (hs : SortedK l') : canonKvs l = l' := by
  have hn : NodupK l := by
    have := nodupK_of_sortedK hs
    exact (List.Perm.pairwise_iff (fun hxy => Ne.symm hxy) hp.symm).mp this
  obtain ⟨h1, h2⟩ := canonKvs_spec hn
  exact sortedK_ext h1 hs (fun x => (h2 x).trans hp.mem_iff)

end Yorkie.Yson
