/-
Unbounded facts about Model/TreeUndo.lean (any arena, any size):

  * `unremove ∘ removeNode` on a live node gives back every field of every node except the cached lengths
    (`SameCore`), hence the same `ToXML()` and `Marshal()`;
  * `Restore` / `Retombstone` / the identity path of `TreeEdit.Execute` / every stacked operation / `Document.Update`,
    `Undo`, `Redo` of the history machine keep the structural invariant `Tree.WF` of Lemmas/TreeWF.lean (root and
    clone), also when they fail half-way; the arena never shrinks and a node never changes its id;
  * the history machine: the reverse of an identity reverse is the same span sets with the mode flipped; a new edit
    clears the redo stack; both stacks stay within `MaxUndoRedoStackDepth`; Undo pops exactly one entry.
-/
import YorkieModel.Model.TreeUndo
import YorkieModel.Lemmas.TreeWFAll
namespace Yorkie.TreeUndo
open Yorkie Yorkie.Tree

/-! ### everything but the cached lengths -/

/-- all fields of a node except `visLen` / `totLen` -/
def coreOf (n : TNode) :=
  (n.id, n.type, n.isText, n.value, n.removedAt, n.insPrev, n.insNext, n.mergedFrom, n.mergedAt, n.mergedInto, n.attrs,
   n.parent, n.children)

/-- same frame, and every node agrees on everything but the cached lengths -/
def SameCore (a b : Tree) : Prop :=
  b.size = a.size ∧ b.nodes.length = a.nodes.length ∧ b.root = a.root ∧ b.idmap = a.idmap ∧
  ∀ q, coreOf (b.get q) = coreOf (a.get q)

theorem core_modify_keep (t : Tree) (p q : Ptr) (f : TNode → TNode) (hf : ∀ n, coreOf (f n) = coreOf n) :
    coreOf ((t.modify p f).get q) = coreOf (t.get q) := by
  rw [get_modify]; split <;> simp [hf]

theorem core_updAnc : ∀ (f : Nat) (t : Tree) (o : Option Ptr) (d : Int) (incl : Bool) (q : Ptr),
    coreOf ((updAnc f t o d incl).get q) = coreOf (t.get q)
  | 0, _, _, _, _, _ => rfl
  | _ + 1, _, none, _, _, _ => rfl
  | f + 1, t, some a, d, incl, q => by
    unfold updAnc
    split
    · rw [core_updAnc f]; exact core_modify_keep _ _ _ _ (fun _ => rfl)
    · simp only []
      split
      · exact core_modify_keep _ _ _ _ (fun _ => rfl)
      · rw [core_updAnc f]; exact core_modify_keep _ _ _ _ (fun _ => rfl)

theorem core_removedAt {a b : TNode} (h : coreOf a = coreOf b) : a.removedAt = b.removedAt := by
  simp only [coreOf, Prod.mk.injEq] at h
  exact h.2.2.2.2.1

theorem core_setRemoved {a b : TNode} (r : Option Ticket) (h : coreOf a = coreOf b) :
    coreOf { a with removedAt := r } = coreOf { b with removedAt := r } := by
  simp only [coreOf, Prod.mk.injEq] at h ⊢
  obtain ⟨h1, h2, h3, h4, _, h6, h7, h8, h9, h10, h11, h12, h13⟩ := h
  exact ⟨h1, h2, h3, h4, trivial, h6, h7, h8, h9, h10, h11, h12, h13⟩

theorem core_view {a b : TNode} (h : coreOf a = coreOf b) : a.view = b.view := by
  simp only [coreOf, Prod.mk.injEq] at h
  obtain ⟨_, h2, h3, h4, h5, _, _, _, _, _, h11, _, h13⟩ := h
  simp [TNode.view, h2, h3, h4, h5, h11, h13]

theorem map_view_of_get {a b : Tree} (hl : b.nodes.length = a.nodes.length) (h : ∀ q, (b.get q).view = (a.get q).view) :
    b.nodes.map TNode.view = a.nodes.map TNode.view := by
  apply List.ext_getElem
  · simp [hl]
  · intro i h1 h2
    have hb : i < b.nodes.length := by simpa using h1
    have ha : i < a.nodes.length := by simpa using h2
    have := h i
    simp only [Tree.get, List.getD_eq_getElem?_getD, List.getElem?_eq_getElem hb, List.getElem?_eq_getElem ha,
      Option.getD_some] at this
    simpa using this

theorem SameCore.view {a b : Tree} (h : SameCore a b) : b.view = a.view := by
  obtain ⟨hs, hl, hr, _, hc⟩ := h
  unfold Tree.view
  rw [hs, hr, map_view_of_get hl (fun q => core_view (hc q))]

/-- **`ToXML()` does not see the difference** -/
theorem SameCore.toXML {a b : Tree} (h : SameCore a b) : b.toXMLCodes = a.toXMLCodes := toXMLCodes_congr h.view

/-- **a retombstone followed by the restore of the same live node gives back every field of every node except the cached
    lengths** (`TreeNode.remove` then `TreeNode.unremove`, any arena) -/
theorem sameCore_unremove_removeNode (t : Tree) (n : Ptr) (ts : Ticket) (h : (t.get n).removedAt = none) :
    SameCore t (unremove (t.removeNode n ts) n) := by
  unfold Tree.removeNode
  simp only [h]
  -- t1 = flag set, t2 = ancestors' lengths lowered
  have c1 : ∀ q, coreOf ((updAnc (t.modify n fun x => { x with removedAt := some ts }).fuel
      (t.modify n fun x => { x with removedAt := some ts })
      ((t.modify n fun x => { x with removedAt := some ts }).parentOf n)
      (-((t.modify n fun x => { x with removedAt := some ts }).padded n false)) false).get q) =
      coreOf ((t.modify n fun x => { x with removedAt := some ts }).get q) := fun q => core_updAnc _ _ _ _ _ q
  have f1 := updAnc_frame (t.modify n fun x => { x with removedAt := some ts }).fuel
      (t.modify n fun x => { x with removedAt := some ts })
      ((t.modify n fun x => { x with removedAt := some ts }).parentOf n)
      (-((t.modify n fun x => { x with removedAt := some ts }).padded n false)) false
  generalize updAnc (t.modify n fun x => { x with removedAt := some ts }).fuel
      (t.modify n fun x => { x with removedAt := some ts })
      ((t.modify n fun x => { x with removedAt := some ts }).parentOf n)
      (-((t.modify n fun x => { x with removedAt := some ts }).padded n false)) false = t2 at c1 f1 ⊢
  by_cases hn : n < t.nodes.length
  · have g1 : (t.modify n fun x => { x with removedAt := some ts }).get n = { t.get n with removedAt := some ts } :=
      get_modify_same t n _ hn
    have h2 : (t2.get n).removedAt = some ts := by
      have := core_removedAt (c1 n); rw [g1] at this; exact this
    unfold unremove
    simp only [h2]
    have f2 := updAnc_frame (t2.modify n fun x => { x with removedAt := none }).fuel
      (t2.modify n fun x => { x with removedAt := none }) ((t2.modify n fun x => { x with removedAt := none }).parentOf n)
      ((t2.modify n fun x => { x with removedAt := none }).padded n false) false
    refine ⟨?_, ?_, ?_, ?_, ?_⟩
    · rw [f2.1]; simpa using f1.1
    · rw [f2.2.1]; simpa using f1.2.1
    · rw [f2.2.2.1]; simpa using f1.2.2.1
    · rw [f2.2.2.2]; simpa using f1.2.2.2
    · intro q
      rw [core_updAnc, get_modify]
      split
      · rename_i hq
        obtain ⟨hq, _⟩ := hq
        subst hq
        have e := c1 q
        rw [g1] at e
        have e2 := core_setRemoved none e
        rw [e2]
        have : ({ ({ t.get q with removedAt := some ts } : TNode) with removedAt := none } : TNode) = t.get q := by
          cases hx : t.get q
          rw [hx] at h
          simp only at h
          simp [h]
        rw [this]
      · rename_i hneg
        rw [c1 q, get_modify]
        split
        · rename_i hq2
          exfalso
          apply hneg
          refine ⟨hq2.1, ?_⟩
          rw [f1.2.1]; simpa using hn
        · rfl
  · have t1e : (t.modify n fun x => { x with removedAt := some ts }) = t := modify_of_ge t n _ (Nat.le_of_not_lt hn)
    rw [t1e] at c1 f1
    have h2 : (t2.get n).removedAt = none := by
      have := core_removedAt (c1 n); rw [h] at this; exact this
    unfold unremove
    simp only [h2]
    exact ⟨f1.1, f1.2.1, f1.2.2.1, f1.2.2.2, c1⟩

/-- the same on the visible document -/
theorem toXML_unremove_removeNode (t : Tree) (n : Ptr) (ts : Ticket) (h : (t.get n).removedAt = none) :
    (unremove (t.removeNode n ts) n).toXMLCodes = t.toXMLCodes :=
  (sameCore_unremove_removeNode t n ts h).toXML

/-! ### `Tree.WF` through restore / retombstone -/

theorem sameLinks_unremove (t : Tree) (n : Ptr) : SameLinks t (unremove t n) := by
  unfold unremove
  split
  · exact SameLinks.refl _
  · exact (SameLinks.modify _ _ _ (by intro _; rfl)).trans (SameLinks.updAnc _ _ _ _ _)

/-- the invariant carried through the folds: well-formed, the arena did not shrink, detached nodes stay detached -/
def Good (t a : Tree) : Prop := a.WF ∧ Keeps t a

theorem Good.refl {t : Tree} (w : t.WF) : Good t t := ⟨w, Keeps.refl _⟩

theorem Good.sameLinks {t a b : Tree} (g : Good t a) (h : SameLinks a b) : Good t b :=
  ⟨g.1.sameLinks h, g.2.trans (Keeps.of_sameLinks h)⟩

theorem Good.step {t a b : Tree} (g : Good t a) (h : b.WF ∧ Keeps a b) : Good t b := ⟨h.1, g.2.trans h.2⟩

theorem foldl_inv {α} (P : Tree → Prop) (step : Except Err Tree → α → Except Err Tree)
    (herr : ∀ e x, step (.error e) x = .error e)
    (hok : ∀ a x a', P a → step (.ok a) x = .ok a' → P a') :
    ∀ (l : List α) (t t' : Tree), P t → l.foldl step (.ok t) = .ok t' → P t'
  | [], t, t', pt, h => by cases h; exact pt
  | x :: r, t, t', pt, h => by
    simp only [List.foldl_cons] at h
    cases hs : step (.ok t) x with
    | error e =>
      rw [hs] at h
      have : ∀ (l : List α), l.foldl step (.error e) = .error e := by
        intro l; induction l with
        | nil => rfl
        | cons y l ih => simp only [List.foldl_cons, herr, ih]
      rw [this] at h; cases h
    | ok a => rw [hs] at h; exact foldl_inv P step herr hok r a t' (hok t x a pt hs) h

theorem isolate_good {t t' : Tree} {p : Ptr} (w : t.WF) (piece fr to : Nat) (h : isolate t piece fr to = .ok (t', p)) :
    t'.WF ∧ Keeps t t' := by
  unfold isolate at h
  simp only at h
  split at h
  · cases h
  · rename_i t1 node h1
    have g1 : t1.WF ∧ Keeps t t1 := by
      split at h1
      · split at h1
        · cases h1
        · rename_i ta sa hsa
          split at h1
          · cases h1
          · cases h1; exact splitAt_good w piece _ [] hsa
      · cases h1; exact ⟨w, Keeps.refl _⟩
    split at h
    · split at h
      · cases h
      · rename_i tb sb hsb
        cases h
        have g2 := splitAt_good g1.1 _ _ [] hsb
        exact ⟨g2.1, g1.2.trans g2.2⟩
    · cases h; exact g1

theorem retombOne_good {t a a' : Tree} (ts : Ticket) (sp : Span) (g : Good t a) (h : retombOne ts a sp = .ok a') :
    Good t a' := by
  unfold retombOne at h
  simp only at h
  refine foldl_inv (Good t) _ (fun _ _ => rfl) (fun b x b' gb hb => ?_) _ a a' g h
  simp only at hb
  split at hb
  · cases hb; exact gb
  · split at hb
    · cases hb; exact gb
    · split at hb
      · split at hb
        · cases hb
        · rename_i b1 target hi
          cases hb
          exact (gb.step (isolate_good gb.1 _ _ _ hi)).sameLinks (SameLinks.removeNode _ _ _)
      · cases hb; exact gb.sameLinks (SameLinks.removeNode _ _ _)

theorem retombstone_good {t a a' : Tree} (spans : List Span) (ts : Ticket) (g : Good t a)
    (h : retombstone a spans ts = .ok a') : Good t a' := by
  unfold retombstone at h
  exact foldl_inv (Good t) _ (fun _ _ => rfl) (fun b x b' gb hb => retombOne_good ts x gb hb) _ a a' g h

theorem restoreText_good (stop : Nat) : ∀ (f : Nat) (t a a' : Tree) (ps : List Ptr) (cursor : Nat), Good t a →
    restoreText stop f a ps cursor = .ok a' → Good t a'
  | 0, _, _, _, _, _, g, h => by cases h; exact g
  | f + 1, t, a, a', ps, cursor, g, h => by
    unfold restoreText at h
    split at h
    · cases h; exact g
    · split at h
      · cases h
      · rename_i piece rest
        split at h
        · simp only at h
          split at h
          · cases h
          · rename_i t1 target hi
            have g1 := (g.step (isolate_good g.1 _ _ _ hi)).sameLinks (sameLinks_unremove t1 target)
            split at h <;> (split at h <;> exact restoreText_good stop f t _ a' _ _ g1 h)
        · cases h

theorem restoreOne_good {t a a' : Tree} (sp : Span) (g : Good t a) (h : restoreOne a sp = .ok a') : Good t a' := by
  unfold restoreOne at h
  split at h
  · split at h
    · split at h
      · cases h; exact g.sameLinks (sameLinks_unremove _ _)
      · cases h
    · cases h
  · exact restoreText_good _ _ t a a' _ _ g h

theorem restore_good {t a a' : Tree} (spans : List Span) (g : Good t a) (h : restore a spans = .ok a') : Good t a' := by
  unfold restore at h
  exact foldl_inv (Good t) _ (fun _ _ => rfl) (fun b x b' gb hb => restoreOne_good x gb hb) _ a a' g h

/-- **the identity path of `TreeEdit.Execute` (undo or redo of an edit without split) keeps the tree well-formed**,
    whatever the spans name -/
theorem execRestore_wf {t t' : Tree} (w : t.WF) (rs tbs : List Span) (mode : RMode) (ts : Ticket)
    (h : execRestore t rs tbs mode ts = .ok t') : t'.WF ∧ Keeps t t' := by
  unfold execRestore at h
  cases mode <;> simp only at h <;> split at h
  · cases h
  · rename_i t1 h1; exact restore_good _ (retombstone_good _ ts (Good.refl w) h1) h
  · cases h
  · rename_i t1 h1; exact restore_good _ (retombstone_good _ ts (Good.refl w) h1) h

/-- **executing any stacked operation keeps the tree well-formed** (identity reverse, no-op reverse, style reverse) -/
theorem execUOp_wf {t t' : Tree} {r : Option UOp} (w : t.WF) (u : UOp) (ts : Ticket) (vv : VV)
    (h : execUOp t u ts vv = .ok (t', r)) : t'.WF := by
  cases u with
  | unsupported => simp [execUOp] at h
  | restore fr to rs tbs mode =>
    simp only [execUOp] at h
    split at h
    · cases h
    · rename_i t1 h1; cases h; exact (execRestore_wf w rs tbs mode ts h1).1
  | noop idx =>
    simp only [execUOp] at h
    split at h
    · cases h
    · split at h
      · cases h
      · split at h
        · cases h
        · rename_i t1 s1 h1; cases h; exact (applyEdit_wf_all w _ _ _ _ _ _ _ h1).1
  | style fr to set rem =>
    simp only [execUOp] at h
    split at h
    · cases h
    · split at h
      · cases h
      · rename_i t1 h1; cases h; exact (style_wf w _ _ _ _ _ h1).1

/-- building the reverse of a style never fails when the style itself executes (same position resolution) -/
theorem reverseOfStyle_ok {t t' : Tree} {fr to : Pos} {arg : StyleArg} {ts : Ticket} {vv : VV}
    (h : t.style fr to arg ts vv = .ok t') : ∃ r, reverseOfStyle t fr to arg ts vv = .ok r := by
  unfold Tree.style at h
  unfold reverseOfStyle firstStyled
  split at h
  · cases h
  · rename_i t1 fp fl0 h1
    simp only [h1]
    split at h
    · cases h
    · rename_i t2 tp tl0 h2
      simp only [h2]
      cases h3 : t2.tokensInPosRange fp (if fl0 != fp then t2.advance fl0 vv else fl0) tp
          (if tl0 != tp then t2.advance tl0 vv else tl0) false with
      | error e => simp only [h3] at h; cases h
      | ok toks =>
        simp only []
        cases (List.find? _ toks).map (fun tok => t2.get tok.node) with
        | none => exact ⟨_, rfl⟩
        | some nd =>
          simp only
          split <;> split <;> exact ⟨_, rfl⟩

/-- **the undo / redo of a style is total relative to `Tree.Style`**: executing a stacked style reverse fails only if
    `Tree.Style` / `RemoveStyle` itself fails on the stored positions, never because of the reverse it has to build -/
theorem execUOp_style_total {t t' : Tree} (fr to : Pos) (set : List (Str × Str)) (rem : List Str) (ts : Ticket) (vv : VV)
    (h : t.style fr to (styleArgOf set rem) ts vv = .ok t') : ∃ r, execUOp t (.style fr to set rem) ts vv = .ok (t', r) := by
  obtain ⟨r, hr⟩ := reverseOfStyle_ok h
  exact ⟨r, by simp only [execUOp, hr, h]⟩

/-! ### the history machine -/

def Doc.WF (d : Doc) : Prop := d.root.WF ∧ d.clone.WF

/-- **`Document.Update` keeps root and clone well-formed** -/
theorem Doc.update_wf {d d' : Doc} {ch : Option WChange} (w : d.WF) (c : Call) (h : d.update c = .ok (d', ch)) : d'.WF := by
  unfold Doc.update at h
  simp only at h
  split at h
  · cases h
  · cases h; exact w
  · rename_i clone' op hl
    split at h
    · cases h
    · split at h
      · cases h
      · rename_i root' hr
        cases h
        exact ⟨applyOp_wf_all w.1 op _ true hr, localCall_wf_all w.2 _ c hl⟩

/-- **Undo / Redo keep root and clone well-formed**, when they succeed and when they fail half-way -/
theorem Doc.undoRedo_wf {d : Doc} (w : d.WF) (isUndo : Bool) :
    (∀ d' ch, d.undoRedo isUndo = .done d' ch → d'.WF) ∧ (∀ d' e, d.undoRedo isUndo = .failed d' e → d'.WF) := by
  unfold Doc.undoRedo
  split
  · exact ⟨(fun _ _ h => by cases h), (fun _ _ h => by cases h)⟩
  · rename_i u rest _
    simp only
    split
    · refine ⟨(fun _ _ h => by cases h), fun d' e h => ?_⟩
      cases h
      cases isUndo <;> exact w
    · rename_i clone' r1 hc
      have wc := execUOp_wf w.2 u _ _ hc
      split
      · refine ⟨(fun _ _ h => by cases h), fun d' e h => ?_⟩
        cases h
        cases isUndo <;> exact ⟨w.1, wc⟩
      · rename_i root' rev hr
        have wr := execUOp_wf w.1 u _ _ hr
        refine ⟨fun d' ch h => ?_, (fun _ _ h => by cases h)⟩
        cases h
        cases rev <;> cases isUndo <;> exact ⟨wr, wc⟩

theorem RMode.flip_flip (m : RMode) : m.flip.flip = m := by cases m <;> rfl

/-- **the reverse of an identity reverse is the same two span sets with the mode flipped**: redo re-removes exactly
    the nodes undo revived and revives exactly the ones it re-removed, under their original identities -/
theorem execUOp_restore_reverse {t t' : Tree} {r : Option UOp} (fr to : Pos) (rs tbs : List Span) (mode : RMode)
    (ts : Ticket) (vv : VV) (h : execUOp t (.restore fr to rs tbs mode) ts vv = .ok (t', r)) :
    r = some (.restore fr to rs tbs mode.flip) := by
  simp only [execUOp] at h
  split at h
  · cases h
  · cases h; rfl

theorem push_length_le (s : List UOp) (e : UOp) (h : s.length ≤ maxDepth) : (push s e).length ≤ maxDepth := by
  unfold push
  split
  · rename_i hge
    have : s.length = maxDepth := Nat.le_antisymm h hge
    simp only [List.length_cons, List.length_dropLast, this]
    unfold maxDepth Yorkie.Generated.Consts.maxUndoRedoStackDepth
    decide
  · rename_i hlt
    simp only [List.length_cons]
    omega

/-- both stacks within `MaxUndoRedoStackDepth` -/
def Doc.Bounded (d : Doc) : Prop := d.undo.length ≤ maxDepth ∧ d.redo.length ≤ maxDepth

/-- **a new edit clears the redo stack and keeps the undo stack within the bound** -/
theorem Doc.update_stacks {d d' : Doc} {ch : WChange} (b : d.Bounded) (c : Call) (h : d.update c = .ok (d', some ch)) :
    d'.redo = [] ∧ d'.Bounded := by
  unfold Doc.update at h
  simp only at h
  split at h
  · cases h
  · cases h
  · split at h
    · cases h
    · rename_i rev _
      split at h
      · cases h
      · cases h
        refine ⟨rfl, ?_, by simp [maxDepth]⟩
        cases rev with
        | none => exact b.1
        | some r => exact push_length_le _ _ b.1

/-- **Undo pops exactly one entry and pushes at most one onto the redo stack (and conversely); both stay bounded** -/
theorem Doc.undoRedo_stacks {d d' : Doc} {ch : WChange} (b : d.Bounded) (isUndo : Bool)
    (h : d.undoRedo isUndo = .done d' ch) :
    d'.Bounded ∧
    (isUndo = true → ∃ u, d.undo = u :: d'.undo ∧ (d'.redo = d.redo ∨ ∃ r, d'.redo = push d.redo r)) ∧
    (isUndo = false → ∃ u, d.redo = u :: d'.redo ∧ (d'.undo = d.undo ∨ ∃ r, d'.undo = push d.undo r)) := by
  unfold Doc.undoRedo at h
  split at h
  · cases h
  · rename_i u rest hst
    simp only at h
    split at h
    · cases h
    · split at h
      · cases h
      · rename_i root' rev _
        cases h
        cases isUndo
        · simp only [Bool.false_eq_true, if_false] at hst
          have hr : rest.length ≤ maxDepth := by
            have := b.2; rw [hst] at this; simp only [List.length_cons] at this; omega
          cases rev with
          | none =>
            refine ⟨⟨b.1, hr⟩, (fun hc => by cases hc), fun _ => ⟨u, hst, Or.inl rfl⟩⟩
          | some r =>
            refine ⟨⟨push_length_le _ _ b.1, hr⟩, (fun hc => by cases hc), fun _ => ⟨u, hst, Or.inr ⟨r, rfl⟩⟩⟩
        · simp only [if_true] at hst
          have hr : rest.length ≤ maxDepth := by
            have := b.1; rw [hst] at this; simp only [List.length_cons] at this; omega
          cases rev with
          | none =>
            refine ⟨⟨hr, b.2⟩, fun _ => ⟨u, hst, Or.inl rfl⟩, (fun hc => by cases hc)⟩
          | some r =>
            refine ⟨⟨hr, push_length_le _ _ b.2⟩, fun _ => ⟨u, hst, Or.inr ⟨r, rfl⟩⟩, (fun hc => by cases hc)⟩

end Yorkie.TreeUndo
