/-
Commutation of independent array transitions (`arrAdd`, `arrMove`, `arrSet`),
each as an equation between `Option ArrSt` values, under the weakest hypotheses found.
-/
import YorkieModel.Lemmas.Array2
namespace Yorkie.Crdt
open Yorkie

-- several `simp only [...]` calls below close many cases at once with one lemma list
set_option linter.unusedSimpArgs false

/-! ### anchors are stable under the other transition's list change -/

theorem addAnchor_insT {prev : Ticket} {n : PosNode} (h : n.pos ≠ prev) (B : Anchor)
    (xs : List PosNode) : addAnchor prev (insT B n xs) = addAnchor prev xs :=
  addAnchor_congr (by simp [hasPos_insT, Ne.symm h])

theorem nodesAnchor_insT {prev : Ticket} {n : PosNode} (h : n.pos ≠ prev) (B : Anchor)
    (xs : List PosNode) : nodesAnchor prev (insT B n xs) = nodesAnchor prev xs :=
  nodesAnchor_congr (by simp [hasPos_insT, Ne.symm h])

@[simp] theorem addAnchor_vacate (prev t : Ticket) (xs : List PosNode) :
    addAnchor prev (vacate t xs) = addAnchor prev xs :=
  addAnchor_congr (hasPos_vacate t xs prev)

@[simp] theorem nodesAnchor_vacate (prev t : Ticket) (xs : List PosNode) :
    nodesAnchor prev (vacate t xs) = nodesAnchor prev xs :=
  nodesAnchor_congr (hasPos_vacate t xs prev)

theorem vacate_insT_pos (t p : Ticket) (n : PosNode) (xs : List PosNode) :
    vacate t (insT (posAnchor p) n xs) = insT (posAnchor p) (vac1 t n) (vacate t xs) :=
  vacate_insT t _ (posAnchor_respects_vac1 p t) n xs

theorem insT_posAnchor_comm {p₁ p₂ : Ticket} {a b : PosNode} (h₁ : b.pos ≠ p₁) (h₂ : a.pos ≠ p₂)
    (hab : a.pos ≠ b.pos) (xs : List PosNode) :
    insT (posAnchor p₁) a (insT (posAnchor p₂) b xs) =
      insT (posAnchor p₂) b (insT (posAnchor p₁) a xs) :=
  insT_comm _ _ a b (posAnchor_misses h₁) (posAnchor_misses h₂) hab xs

/-! ### 3. add / add -/

/-- Lemma 3. No well-formedness and no freshness needed. -/
theorem arrAdd_arrAdd_comm (p₁ t₁ p₂ t₂ : Ticket) (a : ArrSt)
    (ht : t₁ ≠ t₂) (h₁ : p₁ ≠ t₂) (h₂ : p₂ ≠ t₁) :
    (arrAdd p₁ t₁ a).bind (arrAdd p₂ t₂) = (arrAdd p₂ t₂ a).bind (arrAdd p₁ t₁) := by
  apply bind_comm_of_cores (arrAdd_eq p₁ t₁) (arrAdd_eq p₂ t₂) a
  · intro hF
    unfold addOk; rw [hasPos_addCore hF, holds_addCore hF]; simp [h₂]
  · intro hG
    unfold addOk; rw [hasPos_addCore hG, holds_addCore hG]; simp [h₁]
  · intro _ _
    have m₁ : (addAnchor p₁ a.nodes).misses ⟨t₂, some t₂⟩ :=
      addAnchor_misses (Ne.symm h₁) (fun _ => by simpa using Ne.symm h₁)
    have m₂ : (addAnchor p₂ a.nodes).misses ⟨t₁, some t₁⟩ :=
      addAnchor_misses (Ne.symm h₂) (fun _ => by simpa using Ne.symm h₂)
    have c₁ := addAnchor_insT (n := ⟨t₂, some t₂⟩) (Ne.symm h₁)
    have c₂ := addAnchor_insT (n := ⟨t₁, some t₁⟩) (Ne.symm h₂)
    simp only [addCore, c₁, c₂]
    rw [insT_comm _ _ _ _ m₁ m₂ ht]

/-! ### 6. add / set, set / set -/

theorem arrAdd_arrSet_comm (p₁ t₁ g₂ t₂ : Ticket) (a : ArrSt)
    (ht : t₁ ≠ t₂) (h₁ : p₁ ≠ t₂) (h₂ : g₂ ≠ t₁) :
    (arrAdd p₁ t₁ a).bind (arrSet g₂ t₂) = (arrSet g₂ t₂ a).bind (arrAdd p₁ t₁) := by
  apply bind_comm_of_cores (arrAdd_eq p₁ t₁) (arrSet_eq g₂ t₂) a
  · intro hF
    unfold setOk; rw [holds_addCore hF]; simp [h₂]
  · intro hG
    unfold addOk; rw [hasPos_setCore hG, holds_setCore hG]; simp [h₁]
  · intro _ _
    have m₁ : (addAnchor p₁ a.nodes).misses ⟨t₂, some t₂⟩ :=
      addAnchor_misses (Ne.symm h₁) (fun _ => by simpa using Ne.symm h₁)
    have m₂ : (nodesAnchor g₂ a.nodes).misses ⟨t₁, some t₁⟩ :=
      nodesAnchor_misses (Ne.symm h₂) (fun _ => by simpa using Ne.symm h₂)
    have c₁ := addAnchor_insT (n := ⟨t₂, some t₂⟩) (Ne.symm h₁)
    have c₂ := nodesAnchor_insT (n := ⟨t₁, some t₁⟩) (Ne.symm h₂)
    simp only [addCore, setCore, c₁, c₂]
    rw [insT_comm _ _ _ _ m₁ m₂ ht]

/-- same or different targets -/
theorem arrSet_arrSet_comm (g₁ t₁ g₂ t₂ : Ticket) (a : ArrSt)
    (ht : t₁ ≠ t₂) (h₁ : g₁ ≠ t₂) (h₂ : g₂ ≠ t₁) :
    (arrSet g₁ t₁ a).bind (arrSet g₂ t₂) = (arrSet g₂ t₂ a).bind (arrSet g₁ t₁) := by
  apply bind_comm_of_cores (arrSet_eq g₁ t₁) (arrSet_eq g₂ t₂) a
  · intro hF
    unfold setOk; rw [holds_setCore hF]; simp [h₂]
  · intro hG
    unfold setOk; rw [holds_setCore hG]; simp [h₁]
  · intro _ _
    have m₁ : (nodesAnchor g₁ a.nodes).misses ⟨t₂, some t₂⟩ :=
      nodesAnchor_misses (Ne.symm h₁) (fun _ => by simpa using Ne.symm h₁)
    have m₂ : (nodesAnchor g₂ a.nodes).misses ⟨t₁, some t₁⟩ :=
      nodesAnchor_misses (Ne.symm h₂) (fun _ => by simpa using Ne.symm h₂)
    have c₁ := nodesAnchor_insT (n := ⟨t₂, some t₂⟩) (Ne.symm h₁)
    have c₂ := nodesAnchor_insT (n := ⟨t₁, some t₁⟩) (Ne.symm h₂)
    simp only [setCore, c₁, c₂]
    rw [insT_comm _ _ _ _ m₁ m₂ ht]

/-! ### 4. add / move -/

/-- Lemma 4. `hs` is the only instance of `ElemSlots` that is needed: when the add is anchored on
    the very element being moved, that element's original slot must exist (otherwise the add
    falls back to the by-element lookup, which follows the element to its new slot). -/
theorem arrAdd_arrMove_comm' (p₁ t₁ p₂ g t₂ : Ticket) (a : ArrSt)
    (ht : t₁ ≠ t₂) (h₁ : p₁ ≠ t₂) (h₂ : p₂ ≠ t₁) (hg : g ≠ t₁)
    (hs : p₁ = g → holds a.nodes g = true → hasPos a.nodes g = true) :
    (arrAdd p₁ t₁ a).bind (arrMove p₂ g t₂) = (arrMove p₂ g t₂ a).bind (arrAdd p₁ t₁) := by
  apply bind_comm_of_cores (arrAdd_eq p₁ t₁) (arrMove_eq p₂ g t₂) a
  · intro hF
    unfold moveOk; rw [hasPos_addCore hF, holds_addCore hF]; simp [h₂, hg]
  · intro hG
    unfold addOk; rw [hasPos_moveCore hG, holds_moveCore hG]; simp [h₁]
  · intro hF hG
    obtain ⟨_, hT⟩ := moveOk_anchor hG
    have hfb : hasPos a.nodes p₁ = false → p₁ ≠ g := fun hp e => by
      have := hs e hT; rw [← e, hp] at this; cases this
    have hP : hasPos (addCore p₁ t₁ a).nodes t₂ = hasPos a.nodes t₂ := by
      rw [hasPos_addCore hF]; simp [Ne.symm ht]
    have r₁ : (addAnchor p₁ a.nodes).respects (vac1 g) := addAnchor_respects_vac1 hfb
    have mN : (addAnchor p₁ a.nodes).misses ⟨t₂, none⟩ :=
      addAnchor_misses (Ne.symm h₁) (fun _ => by simp)
    have mS : (addAnchor p₁ a.nodes).misses ⟨t₂, some g⟩ :=
      addAnchor_misses (Ne.symm h₁) (fun hp => by simpa using Ne.symm (hfb hp))
    have m₂ : (posAnchor p₂).misses ⟨t₁, some t₁⟩ := posAnchor_misses (Ne.symm h₂)
    have cN := addAnchor_insT (n := ⟨t₂, none⟩) (Ne.symm h₁)
    have cS := addAnchor_insT (n := ⟨t₂, some g⟩) (Ne.symm h₁)
    unfold moveCore
    rw [hP]
    have hM : (addCore p₁ t₁ a).moved = a.moved := rfl
    rw [hM]
    cases movedLoses a.moved g t₂ <;> cases hasPos a.nodes t₂
    · simp only [Bool.false_eq_true, ↓reduceIte, addCore, cS, addAnchor_vacate,
        vacate_insT g _ r₁, vac1_mk_of_ne t₁ (Ne.symm hg)]
      rw [insT_comm _ _ _ _ mS m₂ ht]
    · simp only [Bool.false_eq_true, ↓reduceIte, addCore, cS, addAnchor_vacate,
        vacate_insT g _ r₁, vac1_mk_of_ne t₁ (Ne.symm hg)]
      rw [insT_comm _ _ _ _ mS m₂ ht]
    · simp only [Bool.false_eq_true, ↓reduceIte, addCore, cN]
      rw [insT_comm _ _ _ _ mN m₂ ht]
    · simp only [↓reduceIte]

/-- Lemma 4 under the standard hypothesis bundle. -/
theorem arrAdd_arrMove_comm (p₁ t₁ p₂ g t₂ : Ticket) (a : ArrSt) (hs : ElemSlots a.nodes)
    (ht : t₁ ≠ t₂) (h₁ : p₁ ≠ t₂) (h₂ : p₂ ≠ t₁) (hg : g ≠ t₁) :
    (arrAdd p₁ t₁ a).bind (arrMove p₂ g t₂) = (arrMove p₂ g t₂ a).bind (arrAdd p₁ t₁) :=
  arrAdd_arrMove_comm' p₁ t₁ p₂ g t₂ a ht h₁ h₂ hg
    (fun _ hh => (elemSlots_iff a.nodes).1 hs g hh)

/-! ### `moveCore` by cases, LWW bookkeeping on `moved` -/

/-- `moveCore` with its two tests abstracted: `l` = "loses", `p` = "ticket already a position" -/
def moveCoreB (l p : Bool) (prev target ts : Ticket) (a : ArrSt) : ArrSt :=
  if l then
    if p then a else ⟨insT (posAnchor prev) ⟨ts, none⟩ a.nodes, a.moved⟩
  else
    ⟨insT (posAnchor prev) ⟨ts, some target⟩ (vacate target a.nodes), setMoved a.moved target ts⟩

theorem moveCore_eq_B (prev target ts : Ticket) (a : ArrSt) :
    moveCore prev target ts a =
      moveCoreB (movedLoses a.moved target ts) (hasPos a.nodes ts) prev target ts a := rfl

theorem movedLoses_setMoved_same (m : Ticket → Option Ticket) (g t₁ t₂ : Ticket) :
    movedLoses (setMoved m g t₁) g t₂ = !(t₂.after t₁) := by
  simp [movedLoses, setMoved]

theorem movedLoses_setMoved_ne (m : Ticket → Option Ticket) {g g' : Ticket} (h : g' ≠ g)
    (t t' : Ticket) : movedLoses (setMoved m g t) g' t' = movedLoses m g' t' := by
  simp [movedLoses, setMoved, h]

theorem setMoved_setMoved_same (m : Ticket → Option Ticket) (g t₁ t₂ : Ticket) :
    setMoved (setMoved m g t₂) g t₁ = setMoved m g t₁ := by
  funext x; unfold setMoved; split <;> rfl

theorem setMoved_comm (m : Ticket → Option Ticket) {g₁ g₂ : Ticket} (h : g₁ ≠ g₂) (t₁ t₂ : Ticket) :
    setMoved (setMoved m g₁ t₁) g₂ t₂ = setMoved (setMoved m g₂ t₂) g₁ t₁ := by
  funext x; unfold setMoved
  by_cases h1 : x = g₁
  · subst h1; simp [h]
  · by_cases h2 : x = g₂
    · subst h2; simp [h1]
    · simp [h1, h2]

/-- a move that wins against the recorded `moved` is later than one that loses against it -/
theorem after_of_wins_of_loses {m : Ticket → Option Ticket} {g t₁ t₂ : Ticket}
    (h₁ : movedLoses m g t₁ = false) (h₂ : movedLoses m g t₂ = true) : t₁.after t₂ = true := by
  unfold movedLoses at h₁ h₂
  cases hm : m g with
  | none => rw [hm] at h₂; cases h₂
  | some x =>
    rw [hm] at h₁ h₂
    simp at h₁ h₂
    exact Ticket.after_of_after_of_not_after h₁ h₂

theorem insT_pos_comm' (p₁ p₂ t₁ t₂ : Ticket) (e₁ e₂ : Option Ticket) (xs : List PosNode)
    (h₁ : t₂ ≠ p₁) (h₂ : t₁ ≠ p₂) (ht : t₁ ≠ t₂) :
    insT (posAnchor p₁) ⟨t₁, e₁⟩ (insT (posAnchor p₂) ⟨t₂, e₂⟩ xs) =
      insT (posAnchor p₂) ⟨t₂, e₂⟩ (insT (posAnchor p₁) ⟨t₁, e₁⟩ xs) :=
  insT_posAnchor_comm (a := ⟨t₁, e₁⟩) (b := ⟨t₂, e₂⟩) h₁ h₂ ht xs

theorem moveOk_moveCore {p₁ g₁ p₂ g₂ : Ticket} {a : ArrSt} (t₁ : Ticket) (h₂ : p₂ ≠ t₁)
    (hF : moveOk p₁ g₁ a = true) : moveOk p₂ g₂ (moveCore p₁ g₁ t₁ a) = moveOk p₂ g₂ a := by
  unfold moveOk; rw [hasPos_moveCore hF, holds_moveCore hF]; simp [h₂]

/-! ### 5. move / move -/

/-- Lemma 5, different targets. No well-formedness, no freshness, and `g₁ ≠ t₂`, `g₂ ≠ t₁`
    are not needed either. -/
theorem arrMove_arrMove_comm (p₁ g₁ t₁ p₂ g₂ t₂ : Ticket) (a : ArrSt)
    (hg : g₁ ≠ g₂) (ht : t₁ ≠ t₂) (h₁ : p₁ ≠ t₂) (h₂ : p₂ ≠ t₁) :
    (arrMove p₁ g₁ t₁ a).bind (arrMove p₂ g₂ t₂) = (arrMove p₂ g₂ t₂ a).bind (arrMove p₁ g₁ t₁) := by
  apply bind_comm_of_cores (arrMove_eq p₁ g₁ t₁) (arrMove_eq p₂ g₂ t₂) a
  · exact moveOk_moveCore t₁ h₂
  · exact moveOk_moveCore t₂ h₁
  · intro hF hG
    have hP₂ : hasPos (moveCore p₁ g₁ t₁ a).nodes t₂ = hasPos a.nodes t₂ := by
      rw [hasPos_moveCore hF]; simp [Ne.symm ht]
    have hP₁ : hasPos (moveCore p₂ g₂ t₂ a).nodes t₁ = hasPos a.nodes t₁ := by
      rw [hasPos_moveCore hG]; simp [ht]
    have hL₂ : movedLoses (moveCore p₁ g₁ t₁ a).moved g₂ t₂ = movedLoses a.moved g₂ t₂ := by
      rw [moved_moveCore]; split
      · rfl
      · exact movedLoses_setMoved_ne _ (Ne.symm hg) _ _
    have hL₁ : movedLoses (moveCore p₂ g₂ t₂ a).moved g₁ t₁ = movedLoses a.moved g₁ t₁ := by
      rw [moved_moveCore]; split
      · rfl
      · exact movedLoses_setMoved_ne _ hg _ _
    rw [moveCore_eq_B p₂ g₂ t₂ (moveCore p₁ g₁ t₁ a), hP₂, hL₂,
      moveCore_eq_B p₁ g₁ t₁ (moveCore p₂ g₂ t₂ a), hP₁, hL₁,
      moveCore_eq_B p₁ g₁ t₁ a, moveCore_eq_B p₂ g₂ t₂ a]
    have c := insT_pos_comm' p₂ p₁ t₂ t₁
    cases movedLoses a.moved g₁ t₁ <;> cases movedLoses a.moved g₂ t₂ <;>
      cases hasPos a.nodes t₁ <;> cases hasPos a.nodes t₂ <;>
      simp only [moveCoreB, Bool.false_eq_true, ↓reduceIte, vacate_insT_pos, vac1_mk_none,
        vac1_mk_of_ne _ hg, vac1_mk_of_ne _ (Ne.symm hg), vacate_comm g₂ g₁ a.nodes,
        setMoved_comm a.moved hg t₁ t₂] <;>
      first
        | rfl
        | rw [c _ _ _ (Ne.symm h₂) (Ne.symm h₁) (Ne.symm ht)]

/-- Lemma 5, same target: last writer wins whatever the order. Needs only that the two new
    tickets are not yet position identities (first half of `Fresh`); nothing about `a.moved`. -/
theorem arrMove_arrMove_same_target (p₁ t₁ p₂ t₂ g : Ticket) (a : ArrSt)
    (ht : t₁ ≠ t₂) (h₁ : p₁ ≠ t₂) (h₂ : p₂ ≠ t₁)
    (hf₁ : hasPos a.nodes t₁ = false) (hf₂ : hasPos a.nodes t₂ = false) :
    (arrMove p₁ g t₁ a).bind (arrMove p₂ g t₂) = (arrMove p₂ g t₂ a).bind (arrMove p₁ g t₁) := by
  apply bind_comm_of_cores (arrMove_eq p₁ g t₁) (arrMove_eq p₂ g t₂) a
  · exact moveOk_moveCore t₁ h₂
  · exact moveOk_moveCore t₂ h₁
  · intro hF hG
    have hP₂ : hasPos (moveCore p₁ g t₁ a).nodes t₂ = false := by
      rw [hasPos_moveCore hF, hf₂]; simp [Ne.symm ht]
    have hP₁ : hasPos (moveCore p₂ g t₂ a).nodes t₁ = false := by
      rw [hasPos_moveCore hG, hf₁]; simp [ht]
    have hL₂ : movedLoses (moveCore p₁ g t₁ a).moved g t₂ =
        if movedLoses a.moved g t₁ then movedLoses a.moved g t₂ else !(t₂.after t₁) := by
      rw [moved_moveCore]; split
      · rfl
      · exact movedLoses_setMoved_same _ _ _ _
    have hL₁ : movedLoses (moveCore p₂ g t₂ a).moved g t₁ =
        if movedLoses a.moved g t₂ then movedLoses a.moved g t₁ else !(t₁.after t₂) := by
      rw [moved_moveCore]; split
      · rfl
      · exact movedLoses_setMoved_same _ _ _ _
    rw [moveCore_eq_B p₂ g t₂ (moveCore p₁ g t₁ a), hP₂, hL₂,
      moveCore_eq_B p₁ g t₁ (moveCore p₂ g t₂ a), hP₁, hL₁,
      moveCore_eq_B p₁ g t₁ a, moveCore_eq_B p₂ g t₂ a, hf₁, hf₂]
    have c := insT_pos_comm' p₂ p₁ t₂ t₁
    have hc : t₂.after t₁ = !(t₁.after t₂) := Ticket.after_eq_not_after (Ne.symm ht)
    cases hl₁ : movedLoses a.moved g t₁ <;> cases hl₂ : movedLoses a.moved g t₂
    · -- both win against the recorded move: the larger of the two wins
      rw [hc]
      cases t₁.after t₂ <;>
        simp only [moveCoreB, Bool.false_eq_true, ↓reduceIte, Bool.not_true, Bool.not_false,
          vacate_insT_pos, vac1_mk_none, vac1_mk_self, vacate_idem, setMoved_setMoved_same] <;>
        rw [c _ _ _ (Ne.symm h₂) (Ne.symm h₁) (Ne.symm ht)]
    · -- t₁ wins, t₂ loses against the recorded move, hence t₁ is after t₂
      have h12 : t₁.after t₂ = true := after_of_wins_of_loses hl₁ hl₂
      have h21 : t₂.after t₁ = false := Ticket.after_asymm h12
      simp only [h12, h21, moveCoreB, Bool.false_eq_true, ↓reduceIte, Bool.not_true, Bool.not_false,
        vacate_insT_pos, vac1_mk_none, vac1_mk_self, vacate_idem, setMoved_setMoved_same]
      rw [c _ _ _ (Ne.symm h₂) (Ne.symm h₁) (Ne.symm ht)]
    · have h21 : t₂.after t₁ = true := after_of_wins_of_loses hl₂ hl₁
      have h12 : t₁.after t₂ = false := Ticket.after_asymm h21
      simp only [h12, h21, moveCoreB, Bool.false_eq_true, ↓reduceIte, Bool.not_true, Bool.not_false,
        vacate_insT_pos, vac1_mk_none, vac1_mk_self, vacate_idem, setMoved_setMoved_same]
      rw [c _ _ _ (Ne.symm h₂) (Ne.symm h₁) (Ne.symm ht)]
    · -- both lose: two dead position nodes
      simp only [moveCoreB, Bool.false_eq_true, ↓reduceIte]
      rw [c _ _ _ (Ne.symm h₂) (Ne.symm h₁) (Ne.symm ht)]

/-! ### 6. move / set -/

/-- `hs`: the only instance of `ElemSlots` needed (set anchored on the element being moved). -/
theorem arrMove_arrSet_comm' (p₁ g₁ t₁ g₂ t₂ : Ticket) (a : ArrSt)
    (ht : t₁ ≠ t₂) (h₁ : p₁ ≠ t₂) (hg₁ : g₁ ≠ t₂) (hg₂ : g₂ ≠ t₁)
    (hs : g₂ = g₁ → holds a.nodes g₁ = true → hasPos a.nodes g₁ = true) :
    (arrMove p₁ g₁ t₁ a).bind (arrSet g₂ t₂) = (arrSet g₂ t₂ a).bind (arrMove p₁ g₁ t₁) := by
  apply bind_comm_of_cores (arrMove_eq p₁ g₁ t₁) (arrSet_eq g₂ t₂) a
  · intro hF
    unfold setOk; rw [holds_moveCore hF]
  · intro hG
    unfold moveOk; rw [hasPos_setCore hG, holds_setCore hG]; simp [h₁, hg₁]
  · intro hF hG
    obtain ⟨_, hT⟩ := moveOk_anchor hF
    have hfb : hasPos a.nodes g₂ = false → g₂ ≠ g₁ := fun hp e => by
      have := hs e hT; rw [← e, hp] at this; cases this
    have hP : hasPos (setCore g₂ t₂ a).nodes t₁ = hasPos a.nodes t₁ := by
      rw [hasPos_setCore hG]; simp [ht]
    have hM : (setCore g₂ t₂ a).moved = a.moved := rfl
    have r₂ : (nodesAnchor g₂ a.nodes).respects (vac1 g₁) := nodesAnchor_respects_vac1 hfb
    have mN : (nodesAnchor g₂ a.nodes).misses ⟨t₁, none⟩ :=
      nodesAnchor_misses (Ne.symm hg₂) (fun _ => by simp)
    have mS : (nodesAnchor g₂ a.nodes).misses ⟨t₁, some g₁⟩ :=
      nodesAnchor_misses (Ne.symm hg₂) (fun hp => by simpa using Ne.symm (hfb hp))
    have m₁ : (posAnchor p₁).misses ⟨t₂, some t₂⟩ := posAnchor_misses (Ne.symm h₁)
    have cN := nodesAnchor_insT (n := ⟨t₁, none⟩) (Ne.symm hg₂)
    have cS := nodesAnchor_insT (n := ⟨t₁, some g₁⟩) (Ne.symm hg₂)
    rw [moveCore_eq_B p₁ g₁ t₁ (setCore g₂ t₂ a), hP, hM, moveCore_eq_B p₁ g₁ t₁ a]
    cases movedLoses a.moved g₁ t₁ <;> cases hasPos a.nodes t₁
    · simp only [moveCoreB, Bool.false_eq_true, ↓reduceIte, setCore, cS, nodesAnchor_vacate,
        vacate_insT g₁ _ r₂, vac1_mk_of_ne t₂ (Ne.symm hg₁)]
      rw [insT_comm _ _ _ _ mS m₁ (Ne.symm ht)]
    · simp only [moveCoreB, Bool.false_eq_true, ↓reduceIte, setCore, cS, nodesAnchor_vacate,
        vacate_insT g₁ _ r₂, vac1_mk_of_ne t₂ (Ne.symm hg₁)]
      rw [insT_comm _ _ _ _ mS m₁ (Ne.symm ht)]
    · simp only [moveCoreB, Bool.false_eq_true, ↓reduceIte, setCore, cN]
      rw [insT_comm _ _ _ _ mN m₁ (Ne.symm ht)]
    · simp only [moveCoreB, ↓reduceIte]

theorem arrMove_arrSet_comm (p₁ g₁ t₁ g₂ t₂ : Ticket) (a : ArrSt) (hs : ElemSlots a.nodes)
    (ht : t₁ ≠ t₂) (h₁ : p₁ ≠ t₂) (hg₁ : g₁ ≠ t₂) (hg₂ : g₂ ≠ t₁) :
    (arrMove p₁ g₁ t₁ a).bind (arrSet g₂ t₂) = (arrSet g₂ t₂ a).bind (arrMove p₁ g₁ t₁) :=
  arrMove_arrSet_comm' p₁ g₁ t₁ g₂ t₂ a ht h₁ hg₁ hg₂
    (fun _ hh => (elemSlots_iff a.nodes).1 hs g₁ hh)

end Yorkie.Crdt
