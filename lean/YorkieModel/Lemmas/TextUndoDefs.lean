/-
Text undo/redo: shared definitions for the lemma files (core Lean only).

`Tiled s sp`: in the block list `s` the span `sp` (an identity range `[start, stop)` of insertion
`sp.ca`) is a union of whole blocks: every block of that insertion that overlaps the range lies
inside it, and every offset of the range is covered by a block. Spans recorded by an edit are tiled
(they ARE blocks), later splits only subdivide blocks, so a stacked span stays tiled for ever
(Lemmas/TextUndoTiled.lean); on a tiled span `restore` / `retombstone` are plain maps flipping
`removedAt` of the blocks inside the span (Lemmas/TextUndoRestore.lean) - no split, no gap, and
in particular NO NODE ID CHANGES (identity preservation).
-/
import YorkieModel.Model.TextUndo
import YorkieModel.Lemmas.Text
namespace Yorkie.TextUndo
open Yorkie Yorkie.Text

/-- block `n` belongs to insertion `sp.ca` and starts inside the range -/
def inSpan (sp : Span) (n : TNode) : Bool :=
  n.id.1 = sp.ca && decide (sp.start ≤ n.id.2) && decide (n.id.2 < sp.stop) && decide (0 < n.len)

structure Tiled (s : TextSt) (sp : Span) : Prop where
  /-- overlapping blocks lie inside the range -/
  inside : ∀ n ∈ s, n.id.1 = sp.ca → n.id.2 < sp.stop → sp.start < n.id.2 + n.len →
    sp.start ≤ n.id.2 ∧ n.id.2 + n.len ≤ sp.stop
  /-- every offset of the range is covered by a block -/
  cover : ∀ c, sp.start ≤ c → c < sp.stop → ∃ n ∈ s, covers sp.ca c n = true

/-- what `restore` does to one block on a tiled span -/
def revive (sp : Span) (n : TNode) : TNode :=
  if inSpan sp n then { n with removedAt := none } else n

/-- what `retombstone` does to one block on a tiled span -/
def kill (ts : Ticket) (sp : Span) (n : TNode) : TNode :=
  if inSpan sp n && n.live then { n with removedAt := some ts } else n

def reviveAll (sps : List Span) (n : TNode) : TNode := sps.foldl (fun m sp => revive sp m) n
def killAll (ts : Ticket) (sps : List Span) (n : TNode) : TNode := sps.foldl (fun m sp => kill ts sp m) n

end Yorkie.TextUndo
