/-
Lemmas for C14, part 12: arrays of leaves at depth k, the abstract layer.  Visible lists
(`insAfterV`, `predOf`, `eraseV`) with their inverse laws, the abstract heap transformers `aadd` /
`adel`, and the simulation relation `Sim ρ` between the recorded abstract heap and the present one
under a renaming `ρ` of identities (what `ReconcileCreatedAt` maintains).
-/
import YorkieModel.Lemmas.UndoArray2
namespace Yorkie.Undo
open Yorkie Yorkie.Crdt

/-! ### visible lists -/

def insAfterL (prev x : Ticket) : List Ticket → List Ticket
  | [] => []
  | a :: r => if a = prev then a :: x :: r else a :: insAfterL prev x r

/-- insert `x` right after the element `prev`, or at the front for the head anchor -/
def insAfterV (prev x : Ticket) (l : List Ticket) : List Ticket :=
  if prev = headId then x :: l else insAfterL prev x l

def predFrom (x : Ticket) : Ticket → List Ticket → Ticket
  | last, [] => last
  | last, a :: r => if a = x then last else predFrom x a r

/-- the element before `x`, or the head anchor -/
def predOf (x : Ticket) (l : List Ticket) : Ticket := predFrom x headId l

def eraseV (x : Ticket) (l : List Ticket) : List Ticket := l.filter (fun c => c ≠ x)

theorem insAfterL_append {prev x : Ticket} : ∀ {P : List Ticket} (C : List Ticket), prev ∉ P →
    insAfterL prev x (P ++ prev :: C) = P ++ prev :: x :: C
  | [], C, _ => by simp [insAfterL]
  | a :: P, C, h => by
    have ha : ¬ a = prev := fun hx => h (by simp [hx])
    have hP : prev ∉ P := fun hx => h (by simp [hx])
    simp [insAfterL, ha, insAfterL_append C hP]

theorem predFrom_append {x : Ticket} : ∀ {P : List Ticket} (last : Ticket) (C : List Ticket), x ∉ P →
    predFrom x last (P ++ x :: C) = (P.getLast?).getD last
  | [], last, C, _ => by simp [predFrom]
  | a :: P, last, C, h => by
    have ha : ¬ a = x := fun hx => h (by simp [hx])
    have hP : x ∉ P := fun hx => h (by simp [hx])
    simp only [List.cons_append, predFrom, ha, if_false, predFrom_append a C hP]
    cases P with
    | nil => rfl
    | cons b P =>
      rw [List.getLast?_cons_cons]
      cases hl : (b :: P).getLast? with
      | none => simp at hl
      | some z => rfl

theorem eraseV_append {x : Ticket} {P C : List Ticket} (h1 : x ∉ P) (h2 : x ∉ C) :
    eraseV x (P ++ x :: C) = P ++ C := by
  have e1 : P.filter (fun c => c ≠ x) = P := List.filter_eq_self.2 (fun a ha => by
    have : a ≠ x := fun hx => h1 (hx ▸ ha)
    simp [this])
  have e2 : C.filter (fun c => c ≠ x) = C := List.filter_eq_self.2 (fun a ha => by
    have : a ≠ x := fun hx => h2 (hx ▸ ha)
    simp [this])
  unfold eraseV
  rw [List.filter_append, List.filter_cons, e1, e2]
  simp

theorem eraseV_not_mem {x : Ticket} {l : List Ticket} (h : x ∉ l) : eraseV x l = l :=
  List.filter_eq_self.2 (fun a ha => by
    have : a ≠ x := fun hx => h (hx ▸ ha)
    simp [this])

/-- a member of a duplicate-free list splits it -/
theorem nodup_split {x : Ticket} {l : List Ticket} (hn : l.Nodup) (hx : x ∈ l) :
    ∃ P C, l = P ++ x :: C ∧ x ∉ P ∧ x ∉ C ∧ P.Nodup ∧ C.Nodup ∧ (∀ a ∈ P, ∀ b ∈ C, a ≠ b) := by
  obtain ⟨P, C, rfl⟩ := List.append_of_mem hx
  rw [List.nodup_append] at hn
  obtain ⟨h1, h2, h3⟩ := hn
  rw [List.nodup_cons] at h2
  refine ⟨P, C, rfl, ?_, h2.1, h1, h2.2, ?_⟩
  · intro hp; exact h3 x hp x (by simp) rfl
  · intro a ha b hb; exact h3 a ha b (by simp [hb])

theorem mem_insAfterL {prev x y : Ticket} : ∀ {l : List Ticket}, prev ∈ l →
    (y ∈ insAfterL prev x l ↔ y = x ∨ y ∈ l)
  | [], h => by simp at h
  | a :: l, h => by
    unfold insAfterL
    by_cases ha : a = prev
    · simp only [ha, if_true, List.mem_cons]
      constructor
      · rintro (h | h | h)
        · exact Or.inr (Or.inl h)
        · exact Or.inl h
        · exact Or.inr (Or.inr h)
      · rintro (h | h | h)
        · exact Or.inr (Or.inl h)
        · exact Or.inl h
        · exact Or.inr (Or.inr h)
    · have hl : prev ∈ l := by
        simp only [List.mem_cons] at h
        rcases h with h | h
        · exact absurd h.symm ha
        · exact h
      simp only [ha, if_false, List.mem_cons, mem_insAfterL hl]
      constructor
      · rintro (h | h | h)
        · exact Or.inr (Or.inl h)
        · exact Or.inl h
        · exact Or.inr (Or.inr h)
      · rintro (h | h | h)
        · exact Or.inr (Or.inl h)
        · exact Or.inl h
        · exact Or.inr (Or.inr h)

theorem mem_insAfterV {prev x y : Ticket} {l : List Ticket} (h : prev = headId ∨ prev ∈ l) :
    y ∈ insAfterV prev x l ↔ y = x ∨ y ∈ l := by
  unfold insAfterV
  by_cases hp : prev = headId
  · simp [hp]
  · simp only [hp, if_false]
    rcases h with h | h
    · exact absurd h hp
    · exact mem_insAfterL h

/-- erasing the inserted element gives the old list back -/
theorem eraseV_insAfterV {prev x : Ticket} {l : List Ticket} (hn : l.Nodup) (hx : x ∉ l)
    (h : prev = headId ∨ prev ∈ l) : eraseV x (insAfterV prev x l) = l := by
  unfold insAfterV
  by_cases hp : prev = headId
  · simp only [hp, if_true]
    exact eraseV_append (P := []) (by simp) hx
  · simp only [hp, if_false]
    rcases h with h | h
    · exact absurd h hp
    · obtain ⟨P, C, rfl, h1, h2, _, _, _⟩ := nodup_split hn h
      rw [insAfterL_append C h1]
      have : P ++ prev :: x :: C = (P ++ [prev]) ++ x :: C := by simp
      rw [this, eraseV_append]
      · simp
      · intro hm; apply hx; simp only [List.mem_append, List.mem_cons, List.not_mem_nil, or_false] at hm
        rcases hm with hm | hm
        · simp [hm]
        · simp [hm]
      · intro hm; apply hx; simp [hm]

/-- the predecessor of the inserted element is the anchor -/
theorem predOf_insAfterV {prev x : Ticket} {l : List Ticket} (hn : l.Nodup) (hx : x ∉ l)
    (h : prev = headId ∨ prev ∈ l) : predOf x (insAfterV prev x l) = prev := by
  unfold insAfterV predOf
  by_cases hp : prev = headId
  · simp [hp, predFrom]
  · simp only [hp, if_false]
    rcases h with h | h
    · exact absurd h hp
    · obtain ⟨P, C, rfl, h1, h2, _, _, _⟩ := nodup_split hn h
      rw [insAfterL_append C h1]
      have : P ++ prev :: x :: C = (P ++ [prev]) ++ x :: C := by simp
      rw [this, predFrom_append]
      · simp
      · intro hm; apply hx; simp only [List.mem_append, List.mem_cons, List.not_mem_nil, or_false] at hm
        rcases hm with hm | hm
        · simp [hm]
        · simp [hm]

/-- the predecessor of a member is the head anchor or another member -/
theorem predOf_mem {x : Ticket} {l : List Ticket} (hn : l.Nodup) (hx : x ∈ l) :
    predOf x l = headId ∨ predOf x l ∈ eraseV x l := by
  obtain ⟨P, C, rfl, h1, h2, _, _, _⟩ := nodup_split hn hx
  unfold predOf
  rw [predFrom_append _ _ h1, eraseV_append h1 h2]
  rcases List.eq_nil_or_concat P with rfl | ⟨P', b, rfl⟩
  · left; rfl
  · right; simp

/-- re-inserting an erased member behind its predecessor gives the old list back -/
theorem insAfterV_eraseV {x : Ticket} {l : List Ticket} (hn : l.Nodup) (hh : headId ∉ l) (hx : x ∈ l) :
    insAfterV (predOf x l) x (eraseV x l) = l := by
  obtain ⟨P, C, rfl, h1, h2, hP, _, _⟩ := nodup_split hn hx
  unfold predOf
  rw [predFrom_append _ _ h1, eraseV_append h1 h2]
  rcases List.eq_nil_or_concat P with rfl | ⟨P', b, rfl⟩
  · simp [insAfterV]
  · have hb : b ≠ headId := fun hx => hh (by simp [hx])
    have hbP : b ∉ P' := by
      simp only [List.concat_eq_append] at hP
      rw [List.nodup_append] at hP
      intro hm; exact hP.2.2 b hm b (by simp) rfl
    simp only [List.concat_eq_append, List.getLast?_concat, Option.getD_some, insAfterV, hb, if_false]
    rw [show P' ++ [b] ++ C = P' ++ b :: C by simp, insAfterL_append C hbP]
    simp

theorem nodup_insAfterV {prev x : Ticket} {l : List Ticket} (hn : l.Nodup) (hx : x ∉ l)
    (h : prev = headId ∨ prev ∈ l) : (insAfterV prev x l).Nodup := by
  unfold insAfterV
  by_cases hp : prev = headId
  · simp only [hp, if_true]; exact List.nodup_cons.2 ⟨hx, hn⟩
  · simp only [hp, if_false]
    rcases h with h | h
    · exact absurd h hp
    · obtain ⟨P, C, rfl, h1, h2, _, _, _⟩ := nodup_split hn h
      rw [insAfterL_append C h1]
      have hn' := hn
      rw [List.nodup_append] at hn' ⊢
      obtain ⟨a1, a2, a3⟩ := hn'
      rw [List.nodup_cons] at a2
      refine ⟨a1, ?_, ?_⟩
      · rw [List.nodup_cons, List.nodup_cons]
        refine ⟨?_, ?_, a2.2⟩
        · simp only [List.mem_cons, not_or]
          exact ⟨fun hx' => hx (by simp [← hx']), a2.1⟩
        · intro hm; exact hx (by simp [hm])
      · intro a ha b hb
        simp only [List.mem_cons] at hb
        rcases hb with rfl | rfl | hb
        · exact a3 a ha b (by simp)
        · intro hx'; exact hx (by simp [← hx', ha])
        · exact a3 a ha b (by simp [hb])

theorem nodup_eraseV {x : Ticket} {l : List Ticket} (hn : l.Nodup) : (eraseV x l).Nodup :=
  List.Nodup.sublist List.filter_sublist hn

theorem mem_eraseV {x y : Ticket} {l : List Ticket} : y ∈ eraseV x l ↔ y ∈ l ∧ y ≠ x := by
  simp [eraseV, List.mem_filter]

/-! ### visible lists under an injective renaming -/

/-- `ρ` is injective on the identities not later than `N` -/
def InjOn (ρ : Ticket → Ticket) (N : Int) : Prop :=
  ∀ s t : Ticket, s.lamport ≤ N → t.lamport ≤ N → ρ s = ρ t → s = t

theorem not_mem_map_of_inj {ρ : Ticket → Ticket} {N : Int} (inj : InjOn ρ N) {x : Ticket} {P : List Ticket}
    (hx : x.lamport ≤ N) (hP : ∀ a ∈ P, a.lamport ≤ N) (h : x ∉ P) : ρ x ∉ P.map ρ := by
  intro hm
  obtain ⟨a, ha, he⟩ := List.mem_map.1 hm
  exact h (inj a x (hP a ha) hx he ▸ ha)

theorem map_insAfterV {ρ ρ' : Ticket → Ticket} {N : Int} (inj : InjOn ρ N) (hhead : ρ headId = headId)
    (hN : headId.lamport ≤ N) {prev x x' : Ticket} {l : List Ticket} (hn : l.Nodup)
    (hl : ∀ a ∈ l, a.lamport ≤ N) (hp : prev = headId ∨ prev ∈ l)
    (hag : ∀ a ∈ l, ρ' a = ρ a) (hx : ρ' x = x') :
    (insAfterV prev x l).map ρ' = insAfterV (ρ prev) x' (l.map ρ) := by
  have hmap : l.map ρ' = l.map ρ := List.map_congr_left hag
  unfold insAfterV
  by_cases hph : prev = headId
  · simp [hph, hhead, hx, hmap]
  · rcases hp with hp | hp
    · exact absurd hp hph
    · have hpN := hl prev hp
      have : ρ prev ≠ headId := fun he => hph (inj prev headId hpN hN (he.trans hhead.symm))
      simp only [hph, this, if_false]
      obtain ⟨P, C, rfl, h1, h2, _, _, _⟩ := nodup_split hn hp
      rw [insAfterL_append C h1]
      have hP : ∀ a ∈ P, a.lamport ≤ N := fun a ha => hl a (by simp [ha])
      have h1' : ρ prev ∉ P.map ρ := not_mem_map_of_inj inj hpN hP h1
      simp only [List.map_append, List.map_cons]
      rw [insAfterL_append _ h1']
      have hP' : P.map ρ' = P.map ρ := List.map_congr_left (fun a ha => hag a (by simp [ha]))
      have hC' : C.map ρ' = C.map ρ := List.map_congr_left (fun a ha => hag a (by simp [ha]))
      rw [hP', hC', hx, hag prev hp]

theorem map_eraseV {ρ : Ticket → Ticket} {N : Int} (inj : InjOn ρ N) {u : Ticket} {l : List Ticket}
    (hu : u.lamport ≤ N) (hl : ∀ a ∈ l, a.lamport ≤ N) :
    (eraseV u l).map ρ = eraseV (ρ u) (l.map ρ) := by
  unfold eraseV
  rw [List.filter_map]
  congr 1
  apply List.filter_congr
  intro a ha
  by_cases h : a = u
  · simp [h]
  · have : ρ a ≠ ρ u := fun he => h (inj a u (hl a ha) hu he)
    simp [h, this]

theorem predOf_map {ρ : Ticket → Ticket} {N : Int} (inj : InjOn ρ N) (hhead : ρ headId = headId)
    {u : Ticket} {l : List Ticket} (hn : l.Nodup) (hl : ∀ a ∈ l, a.lamport ≤ N) (hu : u ∈ l) :
    predOf (ρ u) (l.map ρ) = ρ (predOf u l) := by
  obtain ⟨P, C, rfl, h1, h2, _, _, _⟩ := nodup_split hn hu
  have hP : ∀ a ∈ P, a.lamport ≤ N := fun a ha => hl a (by simp [ha])
  have h1' : ρ u ∉ P.map ρ := not_mem_map_of_inj inj (hl u hu) hP h1
  unfold predOf
  rw [List.map_append, List.map_cons, predFrom_append _ _ h1', predFrom_append _ _ h1, List.getLast?_map]
  cases P.getLast? with
  | none => simp [hhead]
  | some z => rfl

/-! ### abstract heaps: insertion into and deletion from an array -/

def aadd (A : AHeap) (p prev x : Ticket) (b : ABody) : AHeap := fun t =>
  match A p with
  | some (.arr l) => if t = x then some b else if t = p then some (.arr (insAfterV prev x l)) else A t
  | _ => A t

def adel (A : AHeap) (p x : Ticket) : AHeap := fun t =>
  match A p with
  | some (.arr l) => if t = x then none else if t = p then some (.arr (eraseV x l)) else A t
  | _ => A t

theorem adel_aadd {A : AHeap} {p prev x : Ticket} {b : ABody} {l : List Ticket}
    (hp : A p = some (.arr l)) (hx : A x = none) (hn : l.Nodup) (hxl : x ∉ l)
    (hprev : prev = headId ∨ prev ∈ l) : adel (aadd A p prev x b) p x = A := by
  have hpx : p ≠ x := by intro h; rw [h] at hp; rw [hp] at hx; cases hx
  funext t
  simp only [adel, aadd, hp, hpx, if_true, if_false]
  by_cases h1 : t = x
  · simp [h1, hx]
  · by_cases h2 : t = p
    · subst h2; simp [h1, hp, eraseV_insAfterV hn hxl hprev]
    · simp [h1, h2]

theorem aadd_adel {A : AHeap} {p x : Ticket} {b : ABody} {l : List Ticket}
    (hp : A p = some (.arr l)) (hx : A x = some b) (hn : l.Nodup) (hh : headId ∉ l) (hxl : x ∈ l)
    (hpx : p ≠ x) : aadd (adel A p x) p (predOf x l) x b = A := by
  funext t
  simp only [aadd, adel, hp, hpx, if_true, if_false]
  by_cases h1 : t = x
  · simp [h1, hx]
  · by_cases h2 : t = p
    · subst h2; simp [h1, hp, insAfterV_eraseV hn hh hxl]
    · simp [h1, h2]

/-! ### renaming of abstract bodies -/

def ABody.map (ρ : Ticket → Ticket) : ABody → ABody
  | .obj f => .obj (fun k => (f k).map ρ)
  | .arr l => .arr (l.map ρ)
  | b => b

/-- the identities a body refers to -/
def ABody.mentions : ABody → Ticket → Prop
  | .obj f, c => ∃ k, f k = some c
  | .arr l, c => c ∈ l
  | _, _ => False

theorem ABody.map_congr {ρ ρ' : Ticket → Ticket} {b : ABody} (h : ∀ c, b.mentions c → ρ c = ρ' c) :
    b.map ρ = b.map ρ' := by
  cases b with
  | prim r => rfl
  | opq r => rfl
  | cnt l v => rfl
  | obj f =>
    simp only [ABody.map]
    congr 1
    funext k
    cases hk : f k with
    | none => rfl
    | some c => simp [h c ⟨k, hk⟩]
  | arr l =>
    simp only [ABody.map]
    congr 1
    exact List.map_congr_left (fun c hc => h c hc)

theorem ABody.map_leaf {ρ : Ticket → Ticket} {b : ABody} (h : b.isLeaf = true) : b.map ρ = b := by
  cases b <;> simp [ABody.isLeaf] at h <;> rfl

/-- bodies refer to live identities only -/
def Closed (A : AHeap) : Prop := ∀ t b c, A t = some b → b.mentions c → A c ≠ none

/-! ### the simulation relation -/

/-- the present abstract heap `A` is the recorded one `B` with every identity `t` (not later than
    `N`) renamed to `ρ t` -/
structure Sim (ρ : Ticket → Ticket) (N : Int) (B A : AHeap) : Prop where
  inj : InjOn ρ N
  node : ∀ t, t.lamport ≤ N → A (ρ t) = (B t).map (ABody.map ρ)

theorem Sim.refl (N : Int) (A : AHeap) : Sim id N A A := by
  refine ⟨fun s t _ _ h => h, fun t _ => ?_⟩
  cases h : A t with
  | none => simp [h]
  | some b =>
    simp only [id, h, Option.map_some, Option.some.injEq]
    cases b with
    | prim r => rfl
    | opq r => rfl
    | cnt l v => rfl
    | obj f => simp [ABody.map]
    | arr l => simp [ABody.map]

theorem Sim.adel {ρ : Ticket → Ticket} {N : Int} {B A : AHeap} (s : Sim ρ N B A) {p u : Ticket} {l : List Ticket}
    (hp : B p = some (.arr l)) (hρp : ρ p = p) (hpN : p.lamport ≤ N) (huN : u.lamport ≤ N)
    (hl : ∀ a ∈ l, a.lamport ≤ N) : Sim ρ N (adel B p u) (adel A p (ρ u)) := by
  have hAp : A p = some (.arr (l.map ρ)) := by
    have := s.node p hpN; rw [hρp, hp] at this; exact this
  refine ⟨s.inj, fun t ht => ?_⟩
  simp only [Undo.adel, hp, hAp]
  by_cases h1 : t = u
  · simp [h1]
  · have h1' : ρ t ≠ ρ u := fun he => h1 (s.inj t u ht huN he)
    by_cases h2 : t = p
    · subst h2
      rw [hρp] at h1'
      simp [h1, h1', hρp, ABody.map, map_eraseV s.inj huN hl]
    · have h2' : ρ t ≠ p := fun he => h2 (s.inj t p ht hpN (he.trans hρp.symm))
      simp [h1, h1', h2, h2', s.node t ht]

theorem Sim.aadd {ρ : Ticket → Ticket} {N : Int} {B A : AHeap} (s : Sim ρ N B A) (cl : Closed B)
    {p prev u t' : Ticket} {b : ABody} {l : List Ticket}
    (hp : B p = some (.arr l)) (hu : B u = none) (hρp : ρ p = p) (hpN : p.lamport ≤ N)
    (hl : ∀ a ∈ l, a.lamport ≤ N) (hn : l.Nodup) (hprev : prev = headId ∨ prev ∈ l)
    (hhead : ρ headId = headId) (hhN : headId.lamport ≤ N) (huh : u ≠ headId)
    (hfresh : ∀ t, t.lamport ≤ N → ρ t ≠ t') (hb : b.isLeaf = true) :
    Sim (fun t => if t = u then t' else ρ t) N (Undo.aadd B p prev u b) (Undo.aadd A p (ρ prev) t' b) := by
  have hAp : A p = some (.arr (l.map ρ)) := by
    have := s.node p hpN; rw [hρp, hp] at this; exact this
  have hul : u ∉ l := fun hm => cl p _ u hp hm hu
  have hpu : p ≠ u := by intro h; rw [h] at hp; rw [hp] at hu; cases hu
  constructor
  · intro x y hx hy he
    by_cases h1 : x = u
    · by_cases h2 : y = u
      · rw [h1, h2]
      · simp only [h1, h2, if_true, if_false] at he
        exact absurd he.symm (hfresh y hy)
    · by_cases h2 : y = u
      · simp only [h1, h2, if_true, if_false] at he
        exact absurd he (hfresh x hx)
      · simp only [h1, h2, if_false] at he
        exact s.inj x y hx hy he
  · intro t ht
    simp only [Undo.aadd, hp, hAp]
    by_cases h1 : t = u
    · simp [h1, ABody.map_leaf hb]
    · have h1' : ρ t ≠ t' := hfresh t ht
      by_cases h2 : t = p
      · subst h2
        rw [hρp] at h1'
        have hprev' : (if prev = u then t' else ρ prev) = ρ prev := by
          have : prev ≠ u := by
            rcases hprev with h | h
            · rw [h]; exact fun hx => huh hx.symm
            · exact fun hx => hul (hx ▸ h)
          simp [this]
        simp only [h1, h1', hρp, if_false, if_true, Option.map_some, ABody.map, Option.some.injEq, ABody.arr.injEq]
        rw [map_insAfterV (ρ := ρ) (ρ' := fun t => if t = u then t' else ρ t) (x' := t') s.inj hhead hhN hn hl
          hprev (fun a ha => by
            have : a ≠ u := fun hx => hul (hx ▸ ha)
            simp [this]) (by simp)]
      · have h2' : ρ t ≠ p := fun he => h2 (s.inj t p ht hpN (he.trans hρp.symm))
        simp only [h1, h1', h2, h2', if_false, s.node t ht]
        cases hB : B t with
        | none => rfl
        | some bt =>
          simp only [Option.map_some, Option.some.injEq]
          apply ABody.map_congr
          intro c hc
          have : c ≠ u := fun hx => cl t bt c hB hc (hx ▸ hu)
          simp [this]

end Yorkie.Undo
