/- The splay index tree refines the list specification: operation alphabet as used by
crdt/rga_tree_split.go (value mutations are always followed by the call that
recomputes the weights), one-step refinement, and preservation of the invariant. -/
import YorkieModel.Lemmas.SplayRange
namespace Yorkie.Splay
open T

/-! ### tombstoning a range: `deleteNodes` + `deleteIndexNodes` -/

/-- every node strictly between the boundaries gets `Len() = 0` (removedAt set), then
`DeleteRange(lb, rb)` repairs the weights in one go -/
def removeRange (lb : Nat) (rb : Option Nat) (t : T) : T :=
  deleteRange lb rb
    (t.mapLen (fun id len => if (Spec.idsBetween lb rb t.toList).contains id then 0 else len))

namespace Spec

def zero (m : L) : L := m.map (fun a => (a.1, 0))

theorem mem_ids_decomp {x : Nat} {l : L} (h : x ∈ ids l) :
    ∃ A lx B, l = A ++ (x, lx) :: B ∧ x ∉ ids A := by
  induction l with
  | nil => simp [ids] at h
  | cons a l ih =>
    by_cases e : a.1 = x
    · exact ⟨[], a.2, l, by simp [← e], by simp [ids]⟩
    · have hx : x ∈ ids l := by
        simp only [ids, List.map_cons, List.mem_cons] at h
        rcases h with h | h
        · exact absurd h.symm e
        · exact h
      obtain ⟨A, lx, B, h1, h2⟩ := ih hx
      refine ⟨a :: A, lx, B, by simp [h1], ?_⟩
      simp only [ids, List.map_cons, List.mem_cons, not_or]
      exact ⟨fun h => e h.symm, h2⟩

theorem before_pre {lb rb : Nat} {pre rest : L} {ll : Nat} (h : lb ∉ ids pre) :
    before lb rb (pre ++ (lb, ll) :: rest) = (ids rest).contains rb := by
  induction pre with
  | nil => simp [before]
  | cons a pre ih =>
    simp only [ids, List.map_cons, List.mem_cons, not_or] at h
    simp only [List.cons_append, before, if_neg (Ne.symm h.1)]
    exact ih (by simpa [ids] using h.2)

theorem zeroBetween_pre {lb : Nat} {R : Option Nat} {pre rest : L} {ll : Nat} (h : lb ∉ ids pre) :
    zeroBetween lb R (pre ++ (lb, ll) :: rest) = pre ++ (lb, ll) :: zeroUntil R rest ∧
    idsBetween lb R (pre ++ (lb, ll) :: rest) = idsUntil R rest := by
  induction pre with
  | nil => simp [zeroBetween, idsBetween]
  | cons a pre ih =>
    simp only [ids, List.map_cons, List.mem_cons, not_or] at h
    have := ih (by simpa [ids] using h.2)
    simp [zeroBetween, idsBetween, Ne.symm h.1, this]

theorem zeroUntil_none (rest : L) : zeroUntil none rest = zero rest ∧ idsUntil none rest = ids rest := by
  induction rest with
  | nil => exact ⟨rfl, rfl⟩
  | cons a r ih => simp [zeroUntil, idsUntil, zero, ids] at ih ⊢; exact ih

theorem zeroUntil_some {rb lr : Nat} {mid post : L} (h : rb ∉ ids mid) :
    zeroUntil (some rb) (mid ++ (rb, lr) :: post) = zero mid ++ (rb, lr) :: post ∧
    idsUntil (some rb) (mid ++ (rb, lr) :: post) = ids mid := by
  induction mid with
  | nil => simp [zeroUntil, idsUntil, zero, ids]
  | cons a mid ih =>
    simp only [ids, List.map_cons, List.mem_cons, not_or] at h
    have := ih (by simpa [ids] using h.2)
    simp [zeroUntil, idsUntil, zero, ids, Ne.symm h.1] at this ⊢
    exact this

/-- tombstoning by membership in a set of ids that a sublist avoids / is -/
theorem map_zero_avoid {S : List Nat} {C : L} (h : ∀ y ∈ ids C, y ∉ S) :
    C.map (fun a => (a.1, if S.contains a.1 then 0 else a.2)) = C := by
  induction C with
  | nil => rfl
  | cons a C ih =>
    have h1 : a.1 ∉ S := h a.1 (by simp [ids])
    simp only [List.map_cons]
    rw [ih (fun y hy => h y (by simp [ids] at hy ⊢; exact .inr hy))]
    simp [h1]

theorem map_zero_all {S : List Nat} {C : L} (h : ∀ y ∈ ids C, y ∈ S) :
    C.map (fun a => (a.1, if S.contains a.1 then 0 else a.2)) = zero C := by
  induction C with
  | nil => rfl
  | cons a C ih =>
    have h1 : a.1 ∈ S := h a.1 (by simp [ids])
    simp only [List.map_cons, zero]
    rw [show C.map (fun a => (a.1, 0)) = zero C from rfl,
      ← ih (fun y hy => h y (by simp [ids] at hy ⊢; exact .inr hy))]
    simp [h1]

@[simp] theorem ids_zero (m : L) : ids (zero m) = ids m := by
  simp [ids, zero, List.map_map, Function.comp_def]

theorem zero_all_zero (m : L) : ∀ e ∈ zero m, e.2 = 0 := by
  intro e he; simp [zero] at he; obtain ⟨_, _, _, rfl⟩ := he; rfl

end Spec

theorem removeRange_none_spec {lb : Nat} {t : T} (hw : t.wf) (hn : t.ids.Nodup) (hlb : lb ∈ t.ids) :
    (removeRange lb none t).toList = Spec.zeroBetween lb none t.toList ∧ (removeRange lb none t).wf := by
  obtain ⟨pre, ll, rest, hl, hpre⟩ := Spec.mem_ids_decomp (l := t.toList) hlb
  have hn' : (Spec.ids (pre ++ (lb, ll) :: rest)).Nodup := by rw [← hl]; exact hn
  obtain ⟨-, hlbrest, hprerest, -, -⟩ := nodup_mid hn'
  have hB : Spec.idsBetween lb none t.toList = Spec.ids rest := by
    rw [hl, (Spec.zeroBetween_pre hpre).2, (Spec.zeroUntil_none rest).2]
  have hZ : Spec.zeroBetween lb none t.toList = pre ++ (lb, ll) :: Spec.zero rest := by
    rw [hl, (Spec.zeroBetween_pre hpre).1, (Spec.zeroUntil_none rest).1]
  let t' := t.mapLen (fun id len => if (Spec.idsBetween lb none t.toList).contains id then 0 else len)
  have hl' : t'.toList = pre ++ (lb, ll) :: Spec.zero rest := by
    simp only [t', toList_mapLen, hB]
    rw [hl, List.map_append, List.map_cons, Spec.map_zero_avoid hprerest, Spec.map_zero_all (fun _ h => h)]
    simp [hlbrest]
  have hok : okD (fun y => (Spec.ids rest).contains y) t' := by
    simp only [t', hB]
    apply okD_mapLen (okD_of_wf hw)
    intro id len h; simp at h; simp [h]
  have := deleteRange_none_spec (t := t') (D := fun y => (Spec.ids rest).contains y)
    (by simpa [t'] using hn) hl' (by intro y hy; simpa using hy) hok (Spec.zero_all_zero rest)
  rw [hZ, ← hl']
  exact this

theorem removeRange_some_spec {lb rb : Nat} {t : T} (hw : t.wf) (hn : t.ids.Nodup)
    (hb : Spec.before lb rb t.toList = true) :
    (removeRange lb (some rb) t).toList = Spec.zeroBetween lb (some rb) t.toList ∧
    (removeRange lb (some rb) t).wf := by
  have hlb : lb ∈ Spec.ids t.toList := by
    generalize t.toList = l at hb
    induction l with
    | nil => simp [Spec.before] at hb
    | cons a l ih =>
      simp only [Spec.before] at hb
      split at hb
      · next e => simp [Spec.ids, ← e]
      · have := ih hb; simp [Spec.ids] at this ⊢; exact .inr this
  obtain ⟨pre, ll, rest, hl, hpre⟩ := Spec.mem_ids_decomp hlb
  rw [hl, Spec.before_pre hpre] at hb
  obtain ⟨mid, lr, post, hrest, hmid⟩ := Spec.mem_ids_decomp (l := rest) (by simpa using hb)
  subst hrest
  have hn' : (Spec.ids (pre ++ (lb, ll) :: (mid ++ (rb, lr) :: post))).Nodup := by rw [← hl]; exact hn
  obtain ⟨-, hlbrest, hprerest, -, hnrest⟩ := nodup_mid hn'
  obtain ⟨-, hrbpost, hmidpost, -, -⟩ := nodup_mid hnrest
  have hB : Spec.idsBetween lb (some rb) t.toList = Spec.ids mid := by
    rw [hl, (Spec.zeroBetween_pre hpre).2, (Spec.zeroUntil_some hmid).2]
  have hZ : Spec.zeroBetween lb (some rb) t.toList =
      pre ++ (lb, ll) :: (Spec.zero mid ++ (rb, lr) :: post) := by
    rw [hl, (Spec.zeroBetween_pre hpre).1, (Spec.zeroUntil_some hmid).1]
  let t' := t.mapLen (fun id len => if (Spec.idsBetween lb (some rb) t.toList).contains id then 0 else len)
  have hl' : t'.toList = pre ++ (lb, ll) :: (Spec.zero mid ++ (rb, lr) :: post) := by
    simp only [t', toList_mapLen, hB]
    rw [hl, List.map_append, List.map_cons, List.map_append, List.map_cons,
      Spec.map_zero_avoid (fun y hy hm => hprerest y hy (by
        simp only [Spec.ids, List.map_append, List.mem_append]; exact .inl hm)),
      Spec.map_zero_all (fun _ h => h),
      Spec.map_zero_avoid (fun y hy hm => hmidpost y hm hy)]
    have h1 : lb ∉ Spec.ids mid := fun hm => hlbrest (by
      simp only [Spec.ids, List.map_append, List.mem_append]; exact .inl hm)
    simp [h1, hmid]
  have hok : okD (fun y => (Spec.ids mid).contains y) t' := by
    simp only [t', hB]
    apply okD_mapLen (okD_of_wf hw)
    intro id len h; simp at h; simp [h]
  have := deleteRange_some_spec (t := t') (D := fun y => (Spec.ids mid).contains y) (lr := lr)
    (by simpa [t'] using hn) hl' (by intro y hy; simpa using hy) hok (Spec.zero_all_zero mid)
  rw [hZ, ← hl']
  exact this

/-! ### operations, outputs, one step -/

inductive Op where
  | insertAfter (prev id len : Nat)      -- `InsertAfter(prev, NewNode(v))`, `v.Len() = len`
  | delete (x : Nat)                     -- `Delete(x)` (Purge)
  | splay (x : Nat)
  | findText (p : Nat)                   -- `FindForText(p)`
  | findArray (i : Nat)                  -- `FindForArray(i)`
  | indexOf (x : Nat)                    -- `IndexOf(x)`
  | setLen (x n : Nat)                   -- the value of `x` changes its `Len()`, then `Splay(x)` (restore/retombstone)
  | split (x k id len : Nat)             -- `splitNode`: `x` keeps `k`, fresh `(id, len)` is inserted after `x`
  | removeRange (lb : Nat) (rb : Option Nat)  -- tombstone everything strictly between, then `DeleteRange`
deriving Repr, DecidableEq

inductive Out where
  | unit
  | find (r : FindRes)
  | index (i : Option Nat)
deriving Repr, DecidableEq

def step (t : T) : Op → T × Out
  | .insertAfter prev id len => (insertAfter prev id len t, .unit)
  | .delete x => (delete x t, .unit)
  | .splay x => (splay x t, .unit)
  | .findText p => ((findForText t p).2, .find (findForText t p).1)
  | .findArray i => ((findForArray t i).2, .find (findForArray t i).1)
  | .indexOf x => ((indexOf x t).2, .index (indexOf x t).1)
  | .setLen x n => (splay x (t.setLen x n), .unit)
  | .split x k id len => (insertAfter x id len (t.setLen x k), .unit)
  | .removeRange lb rb => (removeRange lb rb t, .unit)

namespace Spec

/-- the same operations on the plain list -/
def step (l : L) : Op → L × Out
  | .insertAfter prev id len => (insertAfter prev (id, len) l, .unit)
  | .delete x => (delete x l, .unit)
  | .splay _ => (l, .unit)
  | .findText p => (l, .find (findRes l p))
  | .findArray i => (l, .find (findArrRes l i))
  | .indexOf x => (l, .index (indexOf x l))
  | .setLen x n => (setLen x n l, .unit)
  | .split x k id len => (insertAfter x (id, len) (setLen x k l), .unit)
  | .removeRange lb rb => (zeroBetween lb rb l, .unit)

/-- pointer preconditions of the Go calls, stated on the specification -/
def valid (l : L) : Op → Prop
  | .insertAfter prev id _ => prev ∈ ids l ∧ id ∉ ids l
  | .delete x => x ∈ ids l
  | .split x _ id _ => x ∈ ids l ∧ id ∉ ids l
  | .removeRange lb none => lb ∈ ids l
  | .removeRange lb (some rb) => before lb rb l = true
  | _ => True

instance (l : L) (op : Op) : Decidable (valid l op) := by
  cases op <;> try (simp only [valid]; infer_instance)
  next lb rb => cases rb <;> simp only [valid] <;> infer_instance

theorem mem_ids_insertAfter {prev : Nat} {e : Nat × Nat} {l : L} {y : Nat}
    (h : y ∈ ids (insertAfter prev e l)) : y = e.1 ∨ y ∈ ids l := by
  induction l with
  | nil => simp [insertAfter, ids] at h
  | cons a l ih =>
    simp only [insertAfter] at h
    split at h
    · simp [ids] at h ⊢; rcases h with h | h | h
      · exact .inr (.inl h)
      · exact .inl h
      · exact .inr (.inr h)
    · simp only [ids, List.map_cons, List.mem_cons] at h ⊢
      rcases h with h | h
      · exact .inr (.inl h)
      · rcases ih h with h | h
        · exact .inl h
        · exact .inr (.inr h)

theorem nodup_insertAfter {prev : Nat} {e : Nat × Nat} {l : L} (hn : (ids l).Nodup) (he : e.1 ∉ ids l) :
    (ids (insertAfter prev e l)).Nodup := by
  induction l with
  | nil => simp [insertAfter, ids]
  | cons a l ih =>
    simp only [ids, List.map_cons, List.nodup_cons, List.mem_cons, not_or] at hn he
    simp only [insertAfter]
    split
    · simp only [ids, List.map_cons, List.nodup_cons, List.mem_cons, not_or]
      exact ⟨⟨fun h => he.1 h.symm, hn.1⟩, he.2, hn.2⟩
    · simp only [ids, List.map_cons, List.nodup_cons]
      refine ⟨fun hm => ?_, ih hn.2 he.2⟩
      rcases mem_ids_insertAfter hm with h | h
      · exact he.1 h.symm
      · exact hn.1 h

theorem mem_ids_delete {x : Nat} {l : L} {y : Nat} (h : y ∈ ids (delete x l)) : y ∈ ids l := by
  induction l with
  | nil => simp [delete, ids] at h
  | cons a l ih =>
    simp only [delete] at h
    split at h
    · simp only [ids, List.map_cons, List.mem_cons]; exact .inr h
    · simp only [ids, List.map_cons, List.mem_cons] at h ⊢
      rcases h with h | h
      · exact .inl h
      · exact .inr (ih h)

theorem nodup_delete {x : Nat} {l : L} (hn : (ids l).Nodup) : (ids (delete x l)).Nodup := by
  induction l with
  | nil => simp [delete, ids]
  | cons a l ih =>
    simp only [ids, List.map_cons, List.nodup_cons] at hn
    simp only [delete]
    split
    · exact hn.2
    · simp only [ids, List.map_cons, List.nodup_cons]
      exact ⟨fun hm => hn.1 (mem_ids_delete hm), ih hn.2⟩

@[simp] theorem ids_setLen (x n : Nat) (l : L) : ids (setLen x n l) = ids l := by
  simp only [ids, setLen, List.map_map]
  apply List.map_congr_left
  intro a _; simp only [Function.comp]; split <;> rfl

@[simp] theorem ids_zeroUntil (R : Option Nat) (l : L) : ids (zeroUntil R l) = ids l := by
  induction l with
  | nil => rfl
  | cons a l ih =>
    simp only [zeroUntil]; split
    · rfl
    · simp only [ids, List.map_cons] at ih ⊢; rw [ih]

@[simp] theorem ids_zeroBetween (lb : Nat) (R : Option Nat) (l : L) : ids (zeroBetween lb R l) = ids l := by
  induction l with
  | nil => rfl
  | cons a l ih =>
    simp only [zeroBetween]; split
    · have := ids_zeroUntil R l; simp only [ids, List.map_cons] at this ⊢; rw [this]
    · simp only [ids, List.map_cons] at ih ⊢; rw [ih]

end Spec

/-- the invariant of the index tree between calls of the CRDT code -/
def Inv (t : T) : Prop := t.wf ∧ t.ids.Nodup

instance (t : T) : Decidable (Inv t) := by unfold Inv; infer_instance

theorem step_refines {t : T} {op : Op} (hi : Inv t) (hv : Spec.valid t.toList op) :
    (step t op).1.toList = (Spec.step t.toList op).1 ∧ (step t op).2 = (Spec.step t.toList op).2 ∧
    Inv (step t op).1 := by
  obtain ⟨hw, hn⟩ := hi
  have nodup_of : ∀ {t' : T} {l : Spec.L}, t'.toList = l → (Spec.ids l).Nodup → t'.ids.Nodup := by
    intro t' l h1 h2; rw [← ids_toList, h1]; exact h2
  cases op with
  | insertAfter prev id len =>
    obtain ⟨h1, h2⟩ := insertAfter_spec (id := id) (len := len) hn (okD_of_wf hw) hv.1
    exact ⟨h1, rfl, h2, nodup_of h1 (Spec.nodup_insertAfter hn hv.2)⟩
  | delete x =>
    obtain ⟨h1, h2⟩ := delete_spec hn (okD_of_wf hw) hv
    exact ⟨h1, rfl, h2, nodup_of h1 (Spec.nodup_delete hn)⟩
  | splay x =>
    refine ⟨toList_splay x t, rfl, wf_splay hw, ?_⟩
    show (splay x t).ids.Nodup
    rw [ids_eq_of_toList (toList_splay x t)]; exact hn
  | findText p =>
    obtain ⟨h1, h2, h3⟩ := findForText_spec hw p
    exact ⟨h1, by simp only [step, Spec.step, h3], h2, nodup_of h1 hn⟩
  | findArray i =>
    obtain ⟨h1, h2, h3⟩ := findForArray_spec hw i
    exact ⟨h1, by simp only [step, Spec.step, h3], h2, nodup_of h1 hn⟩
  | indexOf x =>
    obtain ⟨h1, h2, h3⟩ := indexOf_spec (x := x) hn (okD_of_wf hw)
    exact ⟨h2, by simp only [step, Spec.step, h1], h3, nodup_of h2 hn⟩
  | setLen x n =>
    have hn' : (t.setLen x n).ids.Nodup := by simpa using hn
    refine ⟨by simp [step, Spec.step], rfl, splay_restores_wf hn' (okD_setLen hw), ?_⟩
    show (splay x (t.setLen x n)).ids.Nodup
    rw [ids_eq_of_toList (toList_splay x _)]; exact hn'
  | split x k id len =>
    have hn' : (t.setLen x k).ids.Nodup := by simpa using hn
    obtain ⟨h1, h2⟩ := insertAfter_spec (id := id) (len := len) hn' (okD_setLen hw) (by rw [ids_setLen]; exact hv.1)
    refine ⟨by simpa [step, Spec.step] using h1, rfl, h2, nodup_of h1 ?_⟩
    rw [toList_setLen]
    exact Spec.nodup_insertAfter (by simpa [ids_toList] using hn) (by simpa [ids_toList] using hv.2)
  | removeRange lb rb =>
    cases rb with
    | none =>
      obtain ⟨h1, h2⟩ := removeRange_none_spec hw hn hv
      exact ⟨h1, rfl, h2, nodup_of h1 (by simpa [ids_toList] using hn)⟩
    | some rb =>
      obtain ⟨h1, h2⟩ := removeRange_some_spec hw hn hv
      exact ⟨h1, rfl, h2, nodup_of h1 (by simpa [ids_toList] using hn)⟩

/-! ### sequences -/

def run (t : T) : List Op → T × List Out
  | [] => (t, [])
  | op :: ops => let r := step t op; let rs := run r.1 ops; (rs.1, r.2 :: rs.2)

namespace Spec

def run (l : L) : List Op → L × List Out
  | [] => (l, [])
  | op :: ops => let r := step l op; let rs := run r.1 ops; (rs.1, r.2 :: rs.2)

/-- every call of the sequence meets its pointer precondition in the state it is made in -/
def validSeq (l : L) : List Op → Prop
  | [] => True
  | op :: ops => valid l op ∧ validSeq (step l op).1 ops

instance decValidSeq : (l : L) → (ops : List Op) → Decidable (validSeq l ops)
  | _, [] => isTrue trivial
  | l, op :: ops =>
    have := decValidSeq (step l op).1 ops
    inferInstanceAs (Decidable (valid l op ∧ validSeq (step l op).1 ops))

end Spec

end Yorkie.Splay
