/-
The local `Text.Style` on the per-unit attribute view. Core Lean only.
-/
import YorkieModel.Lemmas.TextEdit
namespace Yorkie.Text

theorem canStyle_local_live {vv : Option VV} (h : isLocal vv = true) (ts : Ticket) {n : TNode}
    (hl : n.live = true) : canStyle ts vv n = true := by
  unfold canStyle
  have hr : n.removedAt = none := by
    unfold TNode.live at hl; cases hn : n.removedAt with
    | none => rfl
    | some r => rw [hn] at hl; simp at hl
  rw [hr]
  cases vv with
  | none => rfl
  | some v =>
    unfold isLocal at h; simp only at h
    simp [h]

theorem styleNode_units (ts : Ticket) (vv : Option VV) (g : List AttrNode → List AttrNode) (n : TNode) :
    (styleNode ts vv g n).units = n.units ∧ (styleNode ts vv g n).removedAt = n.removedAt := by
  unfold styleNode; split <;> exact ⟨rfl, rfl⟩

theorem visible_map_styleNode (ts : Ticket) (vv : Option VV) (g : List AttrNode → List AttrNode)
    (M : TextSt) : visible (M.map (styleNode ts vv g)) = visible M :=
  visible_map_core (styleNode_units ts vv g) M

/-- a local style call styles every live node in between -/
theorem visAttrs_map_styleNode_local {vv : Option VV} (h : isLocal vv = true) (ts : Ticket)
    (g : List AttrNode → List AttrNode) (M : TextSt) :
    visAttrs (M.map (styleNode ts vv g)) = (visAttrs M).map g := by
  induction M with
  | nil => rfl
  | cons n r ih =>
    rw [List.map_cons, visAttrs_cons, visAttrs_cons, ih, List.map_append]
    congr 1
    have hu := styleNode_units ts vv g n
    by_cases hl : n.live = true
    · have hl' : (styleNode ts vv g n).live = true := by unfold TNode.live at *; rw [hu.2]; exact hl
      rw [if_pos hl, if_pos hl', List.map_replicate]
      have : (styleNode ts vv g n).len = n.len := by unfold TNode.len; rw [hu.1]
      rw [this]
      unfold styleNode
      rw [if_pos (canStyle_local_live h ts hl)]
    · have hl' : ¬ (styleNode ts vv g n).live = true := by unfold TNode.live at *; rw [hu.2]; exact hl
      rw [if_neg hl, if_neg hl']; rfl

/-- Sequential specification of a LOCAL `Text.Style(from, to, …)` / `RemoveStyle`: the visible
    string is unchanged up to the Go-string round trip at the two cut points, and exactly the units
    in `[from, to)` have their attribute register updated by `g`. -/
theorem style_local_spec {s : TextSt} (wf : WF s) {ts : Ticket} (nw : Newer s ts) {vv : Option VV}
    (hlocal : isLocal vv = true) {fr to : Nat} (hft : fr ≤ to) (hto : to ≤ (visible s).length)
    {pf pt : Pos} (hpf : posOfIndex s fr = some pf) (hpt : posOfIndex s to = some pt)
    (g : List AttrNode → List AttrNode) :
    ∃ s', styleWith pf pt g ts vv s = .ok s' ∧
      visible s' = sanitize ((visible s).take fr) ++ sanitize (((visible s).take to).drop fr) ++
        sanitize ((visible s).drop to) ∧
      visAttrs s' = (visAttrs s).take fr ++ (((visAttrs s).take to).drop fr).map g ++
        (visAttrs s).drop to := by
  have sne : s ≠ [] := by obtain ⟨h, r, hs, _⟩ := wf.head; rw [hs]; simp
  have den_t := posOfIndex_denotes wf hpt
  have den_f := posOfIndex_denotes wf hpf
  obtain ⟨A1, x1, M1, f1, _, ev1, vL1, vM1, pres1, aL1, aM1⟩ :=
    fnws_spec (s := s) (P := s) (S := []) (by simp) sne wf nw den_t hto
  simp only [List.map_nil, List.append_nil] at ev1 pres1
  have wf1 := (fnws_wf wf ev1).1
  have nw1 := newer_of_fnws wf nw ev1
  have den_f1 := pres1 _ fr hft den_f
  have lenL1 : (visible (A1 ++ [x1])).length = to := by
    rw [vL1, sanitize_length, List.length_take]; omega
  obtain ⟨A2, x2, M2, f2, sim2, ev2, vL2, vM2, _, aL2, aM2⟩ :=
    fnws_spec (s := A1 ++ x1 :: M1) (P := A1 ++ [x1]) (S := M1) (by simp) (by simp) wf1 nw1 den_f1
      (by omega)
  have wf2 := (fnws_wf wf1 ev2).1
  have nd2 : (ids ((A2 ++ [x2]) ++ (M2 ++ M1.map f2))).Nodup := by
    have := wf2.nodup; simpa using this
  have shape : A2 ++ x2 :: (M2 ++ M1.map f2) = (A2 ++ [x2]) ++ (M2 ++ M1.map f2) := by simp
  have hbetween : between (A2 ++ x2 :: (M2 ++ M1.map f2)) (((M2 ++ M1.map f2).head?).map (·.id))
      ((M1.head?).map (·.id)) = ids M2 := by
    rw [shape, ← sim2.head]; exact between_spec nd2
  have vLeft : visible (A2 ++ [x2]) = sanitize ((visible s).take fr) := by
    rw [vL2, vL1, sanitize_take_sanitize, List.take_take, Nat.min_eq_left hft]
  have vMid : visible (M2.map (styleNode ts vv g)) = sanitize (((visible s).take to).drop fr) := by
    rw [visible_map_styleNode, vM2, vL1, sanitize_drop_sanitize]
  have vRight : visible (M1.map f2) = sanitize ((visible s).drop to) := by rw [sim2.visible, vM1]
  have aLeft : visAttrs (A2 ++ [x2]) = (visAttrs s).take fr := by
    rw [aL2, aL1, List.take_take, Nat.min_eq_left hft]
  have aMid : visAttrs (M2.map (styleNode ts vv g)) = (((visAttrs s).take to).drop fr).map g := by
    rw [visAttrs_map_styleNode_local hlocal, aM2, aL1]
  have aRight : visAttrs (M1.map f2) = (visAttrs s).drop to := by rw [sim2.visAttrs, aM1]
  have hs3 : (A2 ++ x2 :: (M2 ++ M1.map f2)).map (applyTo (ids M2) (styleNode ts vv g)) =
      (A2 ++ [x2]) ++ (M2.map (styleNode ts vv g) ++ M1.map f2) := by
    rw [shape, map_applyTo_mid nd2]
  unfold styleWith
  rw [ev1]; simp only
  rw [ev2]; simp only
  rw [hbetween, hs3]
  refine ⟨_, rfl, ?_, ?_⟩
  · rw [visible_append (A2 ++ [x2]), visible_append (M2.map (styleNode ts vv g)), vLeft, vMid, vRight,
      List.append_assoc]
  · rw [visAttrs_append (A2 ++ [x2]), visAttrs_append (M2.map (styleNode ts vv g)), aLeft, aMid, aRight,
      List.append_assoc]

/-! ### the register update itself (`RHT.Set`) -/

theorem attrGet_attrPut_self (as : List AttrNode) (n : AttrNode) : attrGet (attrPut as n) n.key = some n := by
  induction as with
  | nil => simp [attrPut, attrGet]
  | cons a r ih =>
    unfold attrPut
    split
    · simp [attrGet]
    · rename_i h; simp [attrGet, h, ih]

theorem attrGet_attrPut_other (as : List AttrNode) (n : AttrNode) {k : String} (hk : k ≠ n.key) :
    attrGet (attrPut as n) k = attrGet as k := by
  induction as with
  | nil => simp [attrPut, attrGet, Ne.symm hk]
  | cons a r ih =>
    unfold attrPut
    split
    · rename_i h
      simp only [attrGet, Ne.symm hk, if_false]
      rw [if_neg (by rw [h]; exact Ne.symm hk)]
    · simp only [attrGet]; split <;> simp [ih]

/-- last-writer-wins: a ticket newer than the key's current writer installs the value … -/
theorem rhtSet_get_self {as : List AttrNode} {k v : String} {t : Ticket}
    (h : ∀ a, attrGet as k = some a → t.after a.updatedAt = true) :
    attrGet (rhtSet as k v t) k = some ⟨k, v, t, false⟩ := by
  unfold rhtSet
  cases hg : attrGet as k with
  | none => exact attrGet_attrPut_self as ⟨k, v, t, false⟩
  | some a =>
    simp only [h a hg, if_true]
    exact attrGet_attrPut_self as ⟨k, v, t, false⟩

/-- … and no other key is touched -/
theorem rhtSet_get_other {as : List AttrNode} {k v k' : String} {t : Ticket} (hk : k' ≠ k) :
    attrGet (rhtSet as k v t) k' = attrGet as k' := by
  unfold rhtSet
  cases attrGet as k with
  | none => exact attrGet_attrPut_other as ⟨k, v, t, false⟩ hk
  | some a =>
    simp only
    split
    · exact attrGet_attrPut_other as ⟨k, v, t, false⟩ hk
    · rfl

end Yorkie.Text
