/-
Helper lemmas for C10: the C04 delivery invariant `DInv` across compactions and across requests of
stale clients (whose responses the current generation's ghost state does not follow).
-/
import YorkieModel.Lemmas.ServerCompact
namespace Yorkie.Server
open Yorkie

variable {α : Type}

/-- a compaction replaces the log: every client-side view of that document starts over (clients of
the old generation must re-attach, which starts from a fresh `Document` anyway) -/
def Ghost.resetDoc (g : Ghost) (d : DocId) : Ghost := fun c d' => if d' = d then {} else g c d'

theorem dinv_compact (sem : ContentSem α) (force : Bool) {s : Server} {g : Ghost} (h : DInv s g) (d : DocId) :
    DInv (compactDoc sem force s d).1 (if compactOk sem s d force = true then g.resetDoc d else g) := by
  rcases compactDoc_cases sem force s d with ⟨e', he⟩ | ⟨doc0, h1, _, _, h4, he⟩
  · have : compactOk sem s d force = false := by simp [compactOk, he]
    rw [he, this]; simpa using h
  · have hok : compactOk sem s d force = true := by simp [compactOk, he]
    rw [he, hok]; simp only [if_true]
    have hself := setDoc_findDoc_self s d (compactedDoc doc0 (compactRows (sem.rebuild (sem.fold doc0.log))))
    have hne : ∀ d', d ≠ d' → (s.setDoc d (compactedDoc doc0 (compactRows (sem.rebuild (sem.fold doc0.log))))).docs.get? d' = s.docs.get? d' := by
      intro d' hn
      have := setDoc_findDoc_ne s (compactedDoc doc0 (compactRows (sem.rebuild (sem.fold doc0.log)))) hn
      simpa [Server.findDoc] using this
    simp only [Server.findDoc] at hself
    refine ⟨setDoc_wf h.wf h1, ?_, ?_, ?_, ?_⟩
    · intro d' doc hd
      by_cases hn : d = d'
      · subst hn; rw [hself] at hd; injection hd with hd; subst hd
        exact compactedDoc_gapFree doc0 _ h4
      · rw [hne d' hn] at hd; exact h.gap d' doc hd
    · intro c d' hd
      by_cases hn : d = d'
      · subst hn; rw [hself] at hd; simp at hd
      · rw [hne d' hn] at hd
        have := h.fresh c d' hd
        simpa [Ghost.resetDoc, Ne.symm hn] using this
    · intro c d' doc hd hdp
      by_cases hn : d = d'
      · subst hn; rw [hself] at hd; injection hd with hd; subst hd
        simp only [Ghost.resetDoc, if_true]
        exact ViewOk.init c _ (compactRows_gapFree _ h4)
      · rw [hne d' hn] at hd
        have := h.view c d' doc hd hdp
        simpa [Ghost.resetDoc, Ne.symm hn] using this
    · intro c d' cd hent hop
      have hent' : entryOf s c d' = some cd := by simpa [entryOf, Server.setDoc] using hent
      by_cases hn : d = d'
      · subst hn; simp [Ghost.resetDoc, Checkpoint.initial]
      · have := h.ack c d' cd hent' hop
        simpa [Ghost.resetDoc, Ne.symm hn] using this

/-- the client's stored entry carries another epoch than the document -/
def staleAt (s : Server) (c : ClientId) (d : DocId) : Bool :=
  match s.findClient c, s.findDoc d with
  | some i, some doc => epochDiffers i d doc.epoch
  | _, _ => false

/-- a sync / detach / remove of a client that still holds an older generation -/
def staleReq (s : Server) : Request → Bool
  | .pushpull c d _ _ _ => staleAt s c d
  | .detach c d _ => staleAt s c d
  | .remove c d _ => staleAt s c d
  | _ => false

/-- A `PushPull`/`Detach`/`Remove` whose response the ghost state does not follow (here: requests of
stale clients) keeps the delivery invariant: logs are only extended and stored client sequences only
grow.  (The statement does not need staleness; staleness is what makes ignoring the response right:
such a request never returns a change.) -/
theorem dinv_ignored {s : Server} {g : Ghost} (h : DInv s g) (req : Request)
    (hk : (∃ c d p po nogc, req = .pushpull c d p po nogc) ∨ (∃ c d p, req = .detach c d p) ∨ (∃ c d p, req = .remove c d p)) :
    DInv (step s req).1 g := by
  have ext := step_docsExt s h.wf req
  have est := step_estep s h.wf req
  refine dinv_keep h ext ?_
  intro c' d' cd' he ho
  by_cases hT : isTarget s req c' d'
  rotate_left
  · exact ⟨cd', open_entry_unchanged est hT he ho, ho, Nat.le_refl _⟩
  rcases hk with ⟨c, d, p, po, nogc, rfl⟩ | ⟨c, d, p, rfl⟩ | ⟨c, d, p, rfl⟩
  · simp only [isTarget] at hT
    obtain ⟨rfl, rfl⟩ := hT
    simp only [step] at he
    generalize ha : pushpullReq s c' d' p po nogc = res at he
    obtain ⟨s', out⟩ := res
    simp only [] at he
    rcases pushpullReq_inv ha with ⟨e1, _⟩ | ⟨info, doc, hi, _, hst, hd, hf⟩
    · subst e1; exact ⟨cd', he, ho, Nat.le_refl _⟩
    · obtain ⟨cd0, hcd0, hs0⟩ := statusOf_some hst
      have hold : entryOf s c' d' = some cd0 := by rw [entryOf_findClient hi]; exact hcd0
      cases out with
      | error e =>
        have hpe := finish_error hf
        obtain ⟨hcl, _⟩ := pushPull_err hpe (loaded := info) (by simpa using hi)
        rw [entryOf_of_clients_eq hcl] at he
        exact ⟨cd', he, ho, Nat.le_refl _⟩
      | ok r =>
        obtain ⟨f', hpp, _⟩ := finish_ok hf
        obtain ⟨e', he', _, hle⟩ := ppok_entry_attached (pushPull_ppok hpp) (by simp) (by simpa using hst)
        simp only [mkFlight_client, mkFlight_doc] at he' hle
        rw [he] at he'; injection he' with he'; subst he'
        exact ⟨cd0, hold, by simp [isOpenSt, hs0], hle cd0 hold⟩
  · simp only [isTarget] at hT
    obtain ⟨rfl, rfl⟩ := hT
    simp only [step] at he
    generalize ha : detach s c' d' p = res at he
    obtain ⟨s', out⟩ := res
    simp only [] at he
    rcases detach_inv ha with ⟨e1, _⟩ | ⟨info, doc, hi, _, _, hd, hf⟩
    · subst e1; exact ⟨cd', he, ho, Nat.le_refl _⟩
    · cases out with
      | error e =>
        have hpe := finish_error hf
        obtain ⟨hcl, _⟩ := pushPull_err hpe (loaded := info) (by simpa using hi)
        rw [entryOf_of_clients_eq hcl] at he
        exact ⟨cd', he, ho, Nat.le_refl _⟩
      | ok r =>
        obtain ⟨f', hpp, _⟩ := finish_ok hf
        obtain ⟨e', he', hcl⟩ := ppok_entry_closed (pushPull_ppok hpp) (by simpa using detachMode_status_ne s c' d' p)
        simp only [mkFlight_client, mkFlight_doc] at he'
        rw [he] at he'; injection he' with he'; subst he'
        rw [ho] at hcl; simp at hcl
  · simp only [isTarget] at hT
    obtain ⟨rfl, rfl⟩ := hT
    simp only [step] at he
    generalize ha : remove s c' d' p = res at he
    obtain ⟨s', out⟩ := res
    simp only [] at he
    rcases remove_inv ha with ⟨e1, _⟩ | ⟨info, doc, hi, _, _, hd, hf⟩
    · subst e1; exact ⟨cd', he, ho, Nat.le_refl _⟩
    · cases out with
      | error e =>
        have hpe := finish_error hf
        obtain ⟨hcl, _⟩ := pushPull_err hpe (loaded := info) (by simpa using hi)
        rw [entryOf_of_clients_eq hcl] at he
        exact ⟨cd', he, ho, Nat.le_refl _⟩
      | ok r =>
        obtain ⟨f', hpp, _⟩ := finish_ok hf
        obtain ⟨e', he', hcl⟩ := ppok_entry_closed (pushPull_ppok hpp) (by simp)
        simp only [mkFlight_client, mkFlight_doc] at he'
        rw [he] at he'; injection he' with he'; subst he'
        rw [ho] at hcl; simp at hcl

theorem staleReq_kind {s : Server} {req : Request} (h : staleReq s req = true) :
    (∃ c d p po nogc, req = .pushpull c d p po nogc) ∨ (∃ c d p, req = .detach c d p) ∨ (∃ c d p, req = .remove c d p) := by
  cases req with
  | pushpull c d p po nogc => exact Or.inl ⟨c, d, p, po, nogc, rfl⟩
  | detach c d p => exact Or.inr (Or.inl ⟨c, d, p, rfl⟩)
  | remove c d p => exact Or.inr (Or.inr ⟨c, d, p, rfl⟩)
  | activate => simp [staleReq] at h
  | deactivate c o => simp [staleReq] at h
  | attach c k p dp nogc => simp [staleReq] at h

/-! ### well-behaved schedules with compactions and stale clients -/

inductive EvC
  /-- a request of a well-behaved client of the current generation; `lost`: its response is lost -/
  | wb (req : Request) (lost : Bool)
  /-- a sync / detach / remove of a client that still holds an older generation, with ANY pack -/
  | stale (req : Request)
  | compact (d : DocId) (force : Bool)
deriving Repr, Inhabited

def noSnap : Except ErrKind Resp → Bool
  | .ok r => !r.snapshot
  | .error _ => true

/-- run a schedule; `none` as soon as an event breaks its side condition (a `wb` request the
discipline `wbReq`, a snapshot response – outside the model –, a `stale` request that is not stale) -/
def wbRunC (sem : ContentSem α) : Server → Ghost → List EvC → Option (Server × Ghost)
  | s, g, [] => some (s, g)
  | s, g, .wb req lost :: rest =>
    if wbReq s g req && noSnap (step s req).2 then
      wbRunC sem (step s req).1 (ghostStep s g req (step s req).2 lost) rest
    else none
  | s, g, .stale req :: rest =>
    if staleReq s req then wbRunC sem (step s req).1 g rest else none
  | s, g, .compact d force :: rest =>
    wbRunC sem (compactDoc sem force s d).1 (if compactOk sem s d force = true then g.resetDoc d else g) rest

theorem wbRunC_inv (sem : ContentSem α) {s0 : Server} {g0 : Ghost} (h0 : DInv s0 g0) (evs : List EvC)
    {s : Server} {g : Ghost} (h : wbRunC sem s0 g0 evs = some (s, g)) : DInv s g := by
  induction evs generalizing s0 g0 with
  | nil => simp only [wbRunC] at h; injection h with h; injection h with h1 h2; subst h1; subst h2; exact h0
  | cons ev rest ih =>
    cases ev with
    | wb req lost =>
      simp only [wbRunC] at h
      split at h
      · next hc =>
        simp only [Bool.and_eq_true] at hc
        refine ih (dinv_step h0 req lost hc.1 ?_) h
        intro r hr
        have := hc.2
        rw [hr] at this
        simpa [noSnap] using this
      · simp at h
    | stale req =>
      simp only [wbRunC] at h
      split at h
      · next hc => exact ih (dinv_ignored h0 req (staleReq_kind hc)) h
      · simp at h
    | compact d force =>
      simp only [wbRunC] at h
      exact ih (dinv_compact sem force h0 d) h

end Yorkie.Server
