/-
Text garbage collection, part 3: on cells a purge is a FILTER by identity, and an abstract operation
commutes with such a filter (`AOp.run_filter`) provided
  * its anchors are kept,
  * the cell right after an anchor inside the same block is kept (blocks are purged as a whole),
  * the cells it inserts are kept,
  * `SafeSkip`: in the skip scan after the `from` anchor no erased cell that stops the scan is
    followed by a kept cell the scan would walk over.  This last condition is NOT implied by causal
    stability (witness: `C03Text.gc_reparent_witness`): it is the text instance of the known
    "purging a tombstone re-parents concurrent insertions" divergence.
Core Lean only.
-/
import YorkieModel.Lemmas.TextGcWF
set_option linter.unusedSimpArgs false
namespace Yorkie.TextConv
open Yorkie Yorkie.Text

/-- erase the cells whose identity is not kept -/
def fkeep (keep : Id → Bool) (l : Cells) : Cells := List.filter (fun c => keep c.id) l

theorem fkeep_append (keep : Id → Bool) (a b : Cells) : fkeep keep (a ++ b) = fkeep keep a ++ fkeep keep b := by
  simp [fkeep]

theorem fkeep_map {keep : Id → Bool} {k : Cell → Cell} (hk : ∀ c, (k c).id = c.id) (l : Cells) :
    fkeep keep (l.map k) = (fkeep keep l).map k := by
  unfold fkeep
  rw [List.filter_map]
  congr 1
  apply List.filter_congr
  intro c _
  simp [Function.comp, hk]

theorem cids_fkeep (keep : Id → Bool) (l : Cells) : cids (fkeep keep l) = List.filter keep (cids l) := by
  unfold fkeep cids
  rw [List.filter_map]; rfl

theorem fkeep_all {keep : Id → Bool} {l : Cells} (h : ∀ c ∈ l, keep c.id = true) : fkeep keep l = l :=
  List.filter_eq_self.2 h

/-! ### split -/

theorem hasOpen_fkeep {keep : Id → Bool} {q : Id} {l : Cells}
    (h : ∀ c ∈ l, c.id = q → c.bnd = false → keep c.id = true) :
    hasOpen q (fkeep keep l) = hasOpen q l := by
  cases h1 : hasOpen q l with
  | false =>
    cases h2 : hasOpen q (fkeep keep l) with
    | false => rfl
    | true =>
      obtain ⟨c, hc, e, hb⟩ := hasOpen_iff.1 h2
      have := hasOpen_iff.2 ⟨c, (List.mem_filter.1 hc).1, e, hb⟩
      rw [h1] at this; cases this
  | true =>
    obtain ⟨c, hc, e, hb⟩ := hasOpen_iff.1 h1
    exact hasOpen_iff.2 ⟨c, List.mem_filter.2 ⟨hc, h c hc e hb⟩, e, hb⟩

theorem splitAfterO_fkeep {keep : Id → Bool} {a : Option Id} {l : Cells}
    (h : ∀ i, a = some i → ∀ c ∈ l, c.id = nxt i → c.bnd = false → keep c.id = true) :
    splitAfterO a (fkeep keep l) = fkeep keep (splitAfterO a l) := by
  cases a with
  | none => rfl
  | some i =>
    simp only [splitAfterO, splitAfter]
    rw [hasOpen_fkeep (h i rfl)]
    split
    · rw [fkeep_map (splitCell_id i)]
    · rfl

/-! ### ranges -/

theorem dropAfter_filter {keep : Id → Bool} {f : Id} (hf : keep f = true) (L : List Id) :
    dropAfter f (List.filter keep L) = List.filter keep (dropAfter f L) := by
  induction L with
  | nil => rfl
  | cons x r ih =>
    by_cases hx : x = f
    · subst hx; simp [List.filter_cons, hf, dropAfter]
    · rw [List.filter_cons]
      split
      · simp only [dropAfter, hx, if_false, ih]
      · simp only [dropAfter, hx, if_false, ih]

theorem takeThrough_filter {keep : Id → Bool} {t : Id} (ht : keep t = true) (L : List Id) :
    takeThrough t (List.filter keep L) = List.filter keep (takeThrough t L) := by
  induction L with
  | nil => rfl
  | cons x r ih =>
    by_cases hx : x = t
    · subst hx; simp [List.filter_cons, ht, takeThrough]
    · rw [List.filter_cons]
      split
      · rename_i hk
        simp only [takeThrough, hx, if_false, ih, List.filter_cons, hk, if_true]
      · rename_i hk
        simp only [takeThrough, hx, if_false, ih, List.filter_cons, hk]
        simp

theorem rangeIds_filter {keep : Id → Bool} {fr to : Option Id}
    (hfr : ∀ i, fr = some i → keep i = true) (hto : ∀ i, to = some i → keep i = true) (L : List Id) :
    rangeIds fr to (List.filter keep L) = List.filter keep (rangeIds fr to L) := by
  rw [rangeIds_eq, rangeIds_eq]
  split
  · rfl
  · cases fr with
    | none =>
      cases to with
      | none => rfl
      | some t => exact takeThrough_filter (hto t rfl) L
    | some f =>
      cases to with
      | none => exact dropAfter_filter (hfr f rfl) L
      | some t =>
        simp only [dropAfterO, takeThroughO]
        rw [dropAfter_filter (hfr f rfl), takeThrough_filter (hto t rfl)]

theorem rmap_fkeep {keep : Id → Bool} {f : Cell → Cell} (hf : ∀ c, (f c).id = c.id) {fr to : Option Id}
    (hfr : ∀ i, fr = some i → keep i = true) (hto : ∀ i, to = some i → keep i = true) (l : Cells) :
    rmap fr to f (fkeep keep l) = fkeep keep (rmap fr to f l) := by
  unfold rmap mapOn
  rw [cids_fkeep, rangeIds_filter hfr hto]
  have hk : ∀ c : Cell, ((fun c => if c.id ∈ rangeIds fr to (cids l) then f c else c) c).id = c.id := by
    intro c; simp only; split <;> simp [hf]
  rw [fkeep_map hk]
  unfold fkeep
  apply List.map_congr_left
  intro c hc
  have hkc := (List.mem_filter.1 hc).2
  have : c.id ∈ List.filter keep (rangeIds fr to (cids l)) ↔ c.id ∈ rangeIds fr to (cids l) := by
    rw [List.mem_filter]; exact ⟨fun h => h.1, fun h => ⟨h, hkc⟩⟩
  simp only [this]

/-! ### insertion -/

/-- after an erased cell that stopped the scan: the next kept cell must stop it too -/
def safeAfter (ts : Ticket) (keep : Id → Bool) : List Id → Bool
  | [] => true
  | i :: r => if keep i then !(i.1.after ts) else safeAfter ts keep r

def SafeAfter (ts : Ticket) (keep : Id → Bool) (L : List Id) : Prop := safeAfter ts keep L = true

/-- the skip scan of an insertion at ticket `ts` sees the same stop with and without the erased cells -/
def safeSkip (ts : Ticket) (keep : Id → Bool) : List Id → Bool
  | [] => true
  | i :: r => if i.1.after ts then safeSkip ts keep r else if keep i then true else safeAfter ts keep r

/-- decidable (`safeSkip` computes it) -/
def SafeSkip (ts : Ticket) (keep : Id → Bool) (L : List Id) : Prop := safeSkip ts keep L = true

instance (ts : Ticket) (keep : Id → Bool) (L : List Id) : Decidable (SafeSkip ts keep L) := by
  unfold SafeSkip; infer_instance

theorem insSkip_fkeep_after {ts : Ticket} {keep : Id → Bool} {X : Cells} (hX : ∀ x ∈ X, keep x.id = true)
    {rest : Cells} (h : SafeAfter ts keep (cids rest)) :
    insSkip ts X (fkeep keep rest) = X ++ fkeep keep rest := by
  induction rest with
  | nil => simp [fkeep, insSkip]
  | cons c r ih =>
    simp only [cids_cons, SafeAfter, safeAfter] at h
    unfold fkeep
    rw [List.filter_cons]
    by_cases hk : keep c.id = true
    · rw [if_pos hk] at h ⊢
      rw [insSkip_cons_neg (by simpa using h)]
    · rw [if_neg hk] at h ⊢
      exact ih h

theorem insSkip_fkeep {ts : Ticket} {keep : Id → Bool} {X : Cells} (hX : ∀ x ∈ X, keep x.id = true)
    {rest : Cells} (h : SafeSkip ts keep (cids rest)) :
    insSkip ts X (fkeep keep rest) = fkeep keep (insSkip ts X rest) := by
  induction rest with
  | nil => simp [fkeep, insSkip]; exact (fkeep_all hX).symm
  | cons c r ih =>
    simp only [cids_cons, SafeSkip, safeSkip] at h
    by_cases hn : c.id.1.after ts = true
    · rw [if_pos hn] at h
      rw [insSkip_cons_pos hn]
      unfold fkeep
      rw [List.filter_cons, List.filter_cons]
      split
      · rw [insSkip_cons_pos hn]; congr 1; exact ih h
      · exact ih h
    · rw [if_neg hn] at h
      rw [insSkip_cons_neg hn, fkeep_append, fkeep_all hX]
      by_cases hk : keep c.id = true
      · have : fkeep keep (c :: r) = c :: fkeep keep r := by
          unfold fkeep; rw [List.filter_cons, if_pos hk]
        rw [this, insSkip_cons_neg hn]
      · rw [if_neg hk] at h
        have : fkeep keep (c :: r) = fkeep keep r := by
          unfold fkeep; rw [List.filter_cons, if_neg hk]
        rw [this]
        exact insSkip_fkeep_after hX h

theorem insAfter_fkeep {ts : Ticket} {keep : Id → Bool} {X : Cells} (hX : ∀ x ∈ X, keep x.id = true)
    {a : Option Id} (ha : ∀ i, a = some i → keep i = true) {l : Cells}
    (h : SafeSkip ts keep (dropAfterO a (cids l))) :
    insAfter a ts X (fkeep keep l) = fkeep keep (insAfter a ts X l) := by
  cases a with
  | none => simp only [insAfter_none]; exact insSkip_fkeep hX h
  | some i =>
    have hi := ha i rfl
    simp only [dropAfterO] at h
    induction l with
    | nil => rfl
    | cons c r ih =>
      by_cases hc : c.id = i
      · subst hc
        have e1 : fkeep keep (c :: r) = c :: fkeep keep r := by
          unfold fkeep; rw [List.filter_cons, if_pos hi]
        simp only [cids_cons, dropAfter, if_true] at h
        rw [e1, insAfter_cons_self, insAfter_cons_self, insSkip_fkeep hX h]
        unfold fkeep; rw [List.filter_cons, if_pos hi]
      · simp only [cids_cons, dropAfter, hc, if_false] at h
        rw [insAfter_cons_ne hc]
        unfold fkeep
        rw [List.filter_cons, List.filter_cons]
        split
        · rw [insAfter_cons_ne hc]; congr 1; exact ih h
        · exact ih h

/-! ### a whole operation -/

/-- **an abstract operation commutes with erasing cells by identity** -/
theorem AOp.run_fkeep (o : AOp) (go : Good o.f) (keep : Id → Bool) {l : Cells}
    (hfr : ∀ i, o.fr = some i → keep i = true) (hto : ∀ i, o.to = some i → keep i = true)
    (hnfr : ∀ i, o.fr = some i → ∀ c ∈ l, c.id = nxt i → c.bnd = false → keep c.id = true)
    (hnto : ∀ i, o.to = some i → ∀ c ∈ l, c.id = nxt i → c.bnd = false → keep c.id = true)
    (hX : ∀ x ∈ o.X, keep x.id = true)
    (hsafe : o.X = [] ∨ SafeSkip o.ts keep (dropAfterO o.fr (cids l))) :
    o.run (fkeep keep l) = fkeep keep (o.run l) := by
  have hM : o.M (fkeep keep l) = fkeep keep (o.M l) := by
    unfold AOp.M
    rw [splitAfterO_fkeep hnto, splitAfterO_fkeep, rmap_fkeep go.id hfr hto]
    intro i hi c hc e hb
    -- the cell after the `from` anchor: splitting at `to` changes neither ids nor (on this cell) openness
    have hmem : c.id ∈ cids (splitAfterO o.to l) := List.mem_map.2 ⟨c, hc, rfl⟩
    cases hto' : o.to with
    | none => rw [hto'] at hc; exact hnfr i hi c hc e hb
    | some j =>
      rw [hto'] at hc
      simp only [splitAfterO, splitAfter] at hc
      split at hc
      · obtain ⟨c', hc', rfl⟩ := List.mem_map.1 hc
        rw [splitCell_id] at e ⊢
        exact hnfr i hi c' hc' e (splitCell_bnd_false hb)
      · exact hnfr i hi c hc e hb
  unfold AOp.run
  rw [hM]
  rcases hsafe with h0 | hs
  · rw [h0, insAfter_nil, insAfter_nil]
  · apply insAfter_fkeep hX hfr
    rw [AOp.cids_M o go]; exact hs

end Yorkie.TextConv
