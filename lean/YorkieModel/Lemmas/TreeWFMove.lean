/-
`Tree.WF` under `DetachChild` and `MoveChild` (a child is taken out of its parent's list).
-/
import YorkieModel.Lemmas.TreeWFLink
namespace Yorkie.Tree
open Yorkie

theorem idxOf_mem : ∀ {l : List Ptr} {x : Ptr} {o : Nat}, idxOf l x = some o → x ∈ l
  | [], _, _, h => by simp [idxOf] at h
  | a :: r, x, o, h => by
    unfold idxOf at h
    split at h
    · rename_i e; simp at e; exact e ▸ List.mem_cons_self
    · cases h' : idxOf r x with
      | none => simp [h'] at h
      | some k => exact List.mem_cons_of_mem _ (idxOf_mem h')

theorem eraseNth_idxOf : ∀ {l : List Ptr} {x : Ptr} {o : Nat}, idxOf l x = some o → eraseNth l o = l.erase x
  | [], _, _, h => by simp [idxOf] at h
  | a :: r, x, o, h => by
    unfold idxOf at h
    split at h
    · rename_i e; simp at e; cases h; subst e; simp [eraseNth]
    · rename_i e
      cases h' : idxOf r x with
      | none => simp [h'] at h
      | some k =>
        simp [h'] at h; subst h
        have : ¬ a = x := by simpa using e
        simp [eraseNth, List.erase_cons, this, eraseNth_idxOf h']

theorem Tree.WF.unlink {t t' : Tree} (w : t.WF) (n child : Ptr) (hin : child ∈ (t.get n).children)
    (hs : t'.size = t.size) (hlen : t'.nodes.length = t.nodes.length) (hr : t'.root = t.root) (hm : t'.idmap = t.idmap)
    (hI : ∀ q, (t'.get q).id = (t.get q).id)
    (hP : ∀ q, (t'.get q).parent = if q = child then none else (t.get q).parent)
    (hC : ∀ q, (t'.get q).children = if q = n then (t.get n).children.erase child else (t.get q).children) : t'.WF := by
  have hpar := w.child_parent n child hin
  have hnd := w.nodup n
  exact {
    size_eq := by rw [hs, hlen]; exact w.size_eq
    root_lt := by rw [hs, hr]; exact w.root_lt
    child_lt := fun q c h => by
      rw [hs]; rw [hC] at h
      split at h
      · exact w.child_lt n c (List.mem_of_mem_erase h)
      · exact w.child_lt q c h
    child_parent := fun q c h => by
      rw [hC] at h; rw [hP]
      split at h
      · rename_i hq; subst hq
        have := (hnd.mem_erase_iff).mp h
        simp [this.1, w.child_parent q c this.2]
      · rename_i hq
        have hne : c ≠ child := fun e => by
          have := w.child_parent q c h; rw [e, hpar] at this; cases this; exact hq rfl
        simp [hne, w.child_parent q c h]
    parent_child := fun c q h => by
      rw [hP] at h; rw [hs, hC]
      split at h
      · cases h
      · rename_i hc
        have := w.parent_child c q h
        refine ⟨this.1, ?_⟩
        split
        · rename_i hq; subst hq; exact (hnd.mem_erase_iff).mpr ⟨hc, this.2⟩
        · exact this.2
    nodup := fun q => by
      rw [hC]; split
      · exact hnd.erase _
      · exact w.nodup q
    idmap_ok := fun e he => by
      have := w.idmap_ok e (hm ▸ he)
      exact ⟨hs ▸ this.1, by rw [hI]; exact this.2⟩ }

theorem get_unlink (t : Tree) (n child : Ptr) (l : List Ptr) (hn : n < t.nodes.length) (hc : child < t.nodes.length) (q : Ptr) :
    (((t.setChildren' n l).setParent child none).get q).id = (t.get q).id ∧
    (((t.setChildren' n l).setParent child none).get q).parent = (if q = child then none else (t.get q).parent) ∧
    (((t.setChildren' n l).setParent child none).get q).children = (if q = n then l else (t.get q).children) := by
  unfold Tree.setParent Tree.setChildren'
  rw [get_modify, get_modify]
  simp only [length_nodes_modify]
  by_cases h1 : q = child <;> by_cases h2 : q = n <;> simp [h1, h2, hn, hc] <;> (try subst h1) <;> (try subst h2) <;> simp_all

/-- `setChildren'` first, length updates in between, `setParent` last: the shape of `DetachChild`/`MoveChild` -/
theorem Tree.WF.unlink_via {t t1 t2 : Tree} (w : t.WF) (n child : Ptr) (o : Nat)
    (ho : idxOf (t.get n).children child = some o)
    (h1 : t1 = t.setChildren' n (eraseNth (t.get n).children o))
    (hs : t2.size = t1.size) (hlen : t2.nodes.length = t1.nodes.length) (hr : t2.root = t1.root) (hm : t2.idmap = t1.idmap)
    (hk : ∀ q, (t2.get q).lk = (t1.get q).lk) : (t2.setParent child none).WF := by
  have hin := idxOf_mem ho
  have hn : n < t.size := w.lt_of_child hin
  have hc : child < t.size := w.child_lt n child hin
  subst h1
  have hn' : n < t.nodes.length := w.size_eq ▸ hn
  have hc' : child < t.nodes.length := w.size_eq ▸ hc
  have e := eraseNth_idxOf ho
  -- read back t2.setParent child none through t2 ~ t1
  have g1 : ∀ q, (t2.get q).id = (t.get q).id ∧ (t2.get q).parent = (t.get q).parent ∧
      (t2.get q).children = (if q = n then (t.get n).children.erase child else (t.get q).children) := by
    intro q
    have := hk q
    unfold TNode.lk at this
    have hid : (t2.get q).id = _ := congrArg (·.1) this
    have hpa : (t2.get q).parent = _ := congrArg (·.2.1) this
    have hch : (t2.get q).children = _ := congrArg (·.2.2) this
    simp only at hid hpa hch
    unfold Tree.setChildren' at hid hpa hch
    rw [get_modify] at hid hpa hch
    refine ⟨?_, ?_, ?_⟩
    · rw [hid]; split <;> rfl
    · rw [hpa]; split <;> rfl
    · rw [hch, e]; by_cases hq : q = n <;> simp [hq, hn']
  have hlen2 : t2.nodes.length = t.nodes.length := by rw [hlen]; simp [Tree.setChildren']
  apply w.unlink n child hin (t' := t2.setParent child none)
  · show t2.size = t.size; rw [hs]; rfl
  · simp [Tree.setParent, hlen2]
  · show t2.root = t.root; rw [hr]; rfl
  · show t2.idmap = t.idmap; rw [hm]; rfl
  · intro q; unfold Tree.setParent; rw [get_modify]; split <;> simp [(g1 q).1]
  · intro q; unfold Tree.setParent; rw [get_modify]
    by_cases hq : q = child
    · simp [hq, hlen2, hc']
    · simp [hq, (g1 q).2.1]
  · intro q; unfold Tree.setParent; rw [get_modify]; split <;> simp [(g1 q).2.2]

/-- `Node.DetachChild` -/
theorem Tree.WF.detachChild {t t' : Tree} (w : t.WF) (n child : Ptr) (h : t.detachChild n child = .ok t') : t'.WF := by
  unfold Tree.detachChild at h
  split at h
  · cases h
  · split at h
    · cases h
    · rename_i o ho
      simp only at h
      cases h
      refine w.unlink_via n child o ho rfl ?_ ?_ ?_ ?_ ?_
      · rw [(updAnc_frame _ _ _ _ _).1, (updAnc_frame _ _ _ _ _).1]
      · rw [(updAnc_frame _ _ _ _ _).2.1, (updAnc_frame _ _ _ _ _).2.1]
      · rw [(updAnc_frame _ _ _ _ _).2.2.1, (updAnc_frame _ _ _ _ _).2.2.1]
      · rw [(updAnc_frame _ _ _ _ _).2.2.2, (updAnc_frame _ _ _ _ _).2.2.2]
      · intro q; rw [lk_updAnc, lk_updAnc]

/-- same frame, same link fields -/
def SameLinks (a b : Tree) : Prop :=
  b.size = a.size ∧ b.nodes.length = a.nodes.length ∧ b.root = a.root ∧ b.idmap = a.idmap ∧ ∀ q, (b.get q).lk = (a.get q).lk

theorem SameLinks.refl (a : Tree) : SameLinks a a := ⟨rfl, rfl, rfl, rfl, fun _ => rfl⟩

theorem SameLinks.trans {a b c : Tree} (h1 : SameLinks a b) (h2 : SameLinks b c) : SameLinks a c :=
  ⟨h2.1.trans h1.1, h2.2.1.trans h1.2.1, h2.2.2.1.trans h1.2.2.1, h2.2.2.2.1.trans h1.2.2.2.1,
   fun q => (h2.2.2.2.2 q).trans (h1.2.2.2.2 q)⟩

theorem SameLinks.updAnc (f : Nat) (t : Tree) (o : Option Ptr) (d : Int) (incl : Bool) : SameLinks t (updAnc f t o d incl) :=
  have h := updAnc_frame f t o d incl
  ⟨h.1, h.2.1, h.2.2.1, h.2.2.2, lk_updAnc f t o d incl⟩

theorem SameLinks.modify (t : Tree) (p : Ptr) (f : TNode → TNode) (hf : ∀ n, (f n).lk = n.lk) : SameLinks t (t.modify p f) :=
  ⟨rfl, by simp, rfl, rfl, fun q => lk_modify_keep t p q f hf⟩

theorem SameLinks.ite (c : Prop) [Decidable c] {a b d : Tree} (h1 : SameLinks a b) (h2 : SameLinks a d) :
    SameLinks a (if c then b else d) := by split <;> assumption

theorem Tree.WF.sameLinks {a b : Tree} (w : a.WF) (h : SameLinks a b) : b.WF :=
  w.congr h.1 h.2.1 h.2.2.1 h.2.2.2.1 h.2.2.2.2

theorem SameLinks.parent {a b : Tree} (h : SameLinks a b) (q : Ptr) : (b.get q).parent = (a.get q).parent :=
  congrArg (·.2.1) (h.2.2.2.2 q)

theorem SameLinks.children {a b : Tree} (h : SameLinks a b) (q : Ptr) : (b.get q).children = (a.get q).children :=
  congrArg (·.2.2) (h.2.2.2.2 q)

/-- the length bookkeeping of `MoveChild` around the unlink / the link -/
def lensAround (t : Tree) (op child : Ptr) (rm : Bool) (g : Int → Int) : Tree :=
  let t2 := if rm = true then t else Yorkie.Tree.updAnc t.fuel t (some op) (g (t.padded child false)) false
  Yorkie.Tree.updAnc t2.fuel t2 (some op) (g (t2.padded child true)) true

theorem SameLinks.lensAround (t : Tree) (op child : Ptr) (rm : Bool) (g : Int → Int) :
    SameLinks t (lensAround t op child rm g) := by
  unfold Yorkie.Tree.lensAround
  exact (SameLinks.ite _ (SameLinks.refl _) (SameLinks.updAnc _ _ _ _ _)).trans (SameLinks.updAnc _ _ _ _ _)

/-- `Node.MoveChild` -/
theorem Tree.WF.moveChild {t t' : Tree} (w : t.WF) (n child : Ptr) (hn : n < t.size) (hc : child < t.size)
    (h : t.moveChild n child = .ok t') : t'.WF := by
  unfold Tree.moveChild at h
  split at h
  · cases h
  · simp only at h
    split at h
    · cases h
    · rename_i t4 h4
      have key : t4.WF ∧ t4.size = t.size ∧ (t4.get child).parent = none := by
        split at h4
        · rename_i hp; cases h4; exact ⟨w, rfl, hp⟩
        · split at h4
          · cases h4
          · rename_i op hp _ o ho
            cases h4
            change ((Yorkie.Tree.lensAround (t.setChildren' op (eraseNth (t.get op).children o)) op child (t.removed child) (fun x => -x)).setParent child none).WF ∧ _ ∧ _
            have sl := SameLinks.lensAround (t.setChildren' op (eraseNth (t.get op).children o)) op child (t.removed child) (fun x => -x)
            refine ⟨w.unlink_via op child o ho rfl sl.1 sl.2.1 sl.2.2.1 sl.2.2.2.1 sl.2.2.2.2, ?_, ?_⟩
            · exact sl.1
            · have hl : (Yorkie.Tree.lensAround (t.setChildren' op (eraseNth (t.get op).children o)) op child (t.removed child) (fun x => -x)).nodes.length = t.nodes.length := by
                rw [sl.2.1]; simp [Tree.setChildren']
              exact (congrArg TNode.parent (get_modify_same _ child _ (hl ▸ w.size_eq ▸ hc)))
      obtain ⟨w4, hs4, hp4⟩ := key
      cases h
      have wl := w4.link n child ((t4.get n).children ++ [child]) (hs4 ▸ hn) (hs4 ▸ hc) hp4 (List.perm_append_singleton _ _)
      change (Yorkie.Tree.lensAround ((t4.setChildren' n ((t4.get n).children ++ [child])).setParent child (some n)) n child (t.removed child) (fun x => x)).WF
      exact wl.sameLinks (SameLinks.lensAround _ _ _ _ _)

end Yorkie.Tree
