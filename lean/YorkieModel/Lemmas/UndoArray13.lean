/-
Lemmas for C14, part 22: mixed histories at depth k, one undo / redo step.
-/
import YorkieModel.Lemmas.UndoArray12
namespace Yorkie.Undo
open Yorkie Yorkie.Crdt

/-! ### bookkeeping of an undo step that does not re-identify -/

theorem inv3_undo_finish {H : Home} {N : Int} {ρ : Ticket → Ticket} {g : Hist} {r qr : UOp} {ru rr : List UOp}
    {X Y : Doc} {more future : List Doc} {d' : Doc}
    (i : Inv3 H N ρ g (r :: ru) rr (X :: more) Y future)
    (hra : addId? r = none) (hpl : (fullRen ρ r).plain = true)
    (he : uexecute g.doc noTw .undoRedo ((fullRen ρ r).withTs g.next) = .ok (d', some (fullRen ρ qr)))
    (hwf : WF H d') (hbd : Bounded d' (g.lamport + 1)) (hpln : PlainArrs d' (g.lamport + 1))
    (hsk : ∀ t, skel d' t = skel g.doc t) (hsim : Sim ρ N (absNode X) (absNode d'))
    (hq : EntryM H noTw N qr Y X)
    (hqa : ∀ a, addId? qr = some a → absNode Y a ≠ none ∧ absNode X a = none ∧ ArrHomed H X a)
    (hdeadX : ∀ a, a ∈ addIds ru ∨ a ∈ addIds rr → absNode X a = none) :
    ∃ rr', Inv3 H N ρ (undo g) ru rr' more X (Y :: future) ∧
      (rr'.length = rr.length + 1 ∨ maxDepth ≤ rr'.length) := by
  obtain ⟨en, chU'⟩ := i.chU
  obtain ⟨urest, hurest⟩ := i.hundo
  obtain ⟨rrest, hrrest⟩ := i.hredo
  obtain ⟨hd1, htw1, hl1, hu1, hr1⟩ := undo_of_stack (r := fullRen ρ r)
    (by rw [hurest, stackOf_cons, List.cons_append]) hpl he
  obtain ⟨rr2, rrest2, hpt, hcase⟩ := pushTail_stackOf ρ rr rrest
  have hback : ∀ q fq, absNode X q = some (.obj fq) → ∃ f', absNode Y q = some (.obj f') := by
    intro q fq h; rw [en.back] at h; exact aexec3_obj_back en.good h
  have hsub2 : (addIds rr2).Sublist (addIds rr) := by
    rcases hcase with rfl | ⟨rfl, _⟩
    · exact List.Sublist.refl _
    · exact addIds_dropLast_sublist rr
  have hru : addIds (r :: ru) = addIds ru := addIds_cons_none hra ru
  have hdeadY : ∀ a, a ∈ addIds ru ∨ a ∈ addIds rr → absNode Y a = none ∧ ArrHomed H Y a := by
    intro a ha
    exact i.dead a (by
      rcases ha with ha | ha
      · exact Or.inl (by rw [hru]; exact ha)
      · exact Or.inr ha)
  refine ⟨qr :: rr2, ?_, length_after_push hcase⟩
  refine
    { wf := hd1 ▸ hwf, bd := by rw [hd1, hl1]; exact hbd, pl := by rw [hd1, hl1]; exact hpln,
      hN := by rw [hl1]; have := i.hN; omega, hN0 := i.hN0,
      wfc := en.wfX, bdc := en.bdX, plc := en.plX,
      eskel := fun t => by rw [hd1, hsk, i.eskel, en.skel], sim := hd1 ▸ hsim,
      rfix := fun t ht => i.rfix t (by rw [← en.skel]; exact ht), rhead := i.rhead,
      rng := fun t ht => by rw [hl1]; have := i.rng t ht; omega, rnew := i.rnew,
      rarr := fun t ht h => (i.rarr t ht h).step hback,
      hundo := ⟨urest, by rw [hu1]⟩, hredo := ⟨rrest2, by rw [hr1, hrrest, hpt, stackOf_cons]; rfl⟩,
      chU := chU', chR := ?_,
      uniqU := by have := i.uniqU; rwa [hru] at this, uniqR := ?_, uniqD := ?_, dead := ?_ }
  · refine ⟨hq, ?_⟩
    rcases hcase with rfl | ⟨rfl, _⟩
    · exact i.chR
    · exact i.chR.dropLast
  · cases hqid : addId? qr with
    | none => rw [addIds_cons_none hqid]; exact List.Nodup.sublist hsub2 i.uniqR
    | some a =>
      rw [addIds_cons_some hqid, List.nodup_cons]
      refine ⟨fun hm => ?_, List.Nodup.sublist hsub2 i.uniqR⟩
      exact (hqa a hqid).1 (hdeadY a (Or.inr (hsub2.subset hm))).1
  · intro a ha c hc
    cases hqid : addId? qr with
    | none =>
      rw [addIds_cons_none hqid] at hc
      exact i.uniqD a (by rw [hru]; exact ha) c (hsub2.subset hc)
    | some a' =>
      rw [addIds_cons_some hqid] at hc
      simp only [List.mem_cons] at hc
      rcases hc with rfl | hc
      · intro h; subst h; exact (hqa a hqid).1 (hdeadY a (Or.inl ha)).1
      · exact i.uniqD a (by rw [hru]; exact ha) c (hsub2.subset hc)
  · intro a ha
    have hother : ∀ a, a ∈ addIds ru ∨ a ∈ addIds rr → absNode X a = none ∧ ArrHomed H X a :=
      fun a ha => ⟨hdeadX a ha, (hdeadY a ha).2.step hback⟩
    rcases ha with ha | ha
    · exact hother a (Or.inl ha)
    · cases hqid : addId? qr with
      | none =>
        rw [addIds_cons_none hqid] at ha
        exact hother a (Or.inr (hsub2.subset ha))
      | some a' =>
        rw [addIds_cons_some hqid] at ha
        simp only [List.mem_cons] at ha
        rcases ha with rfl | ha
        · exact (hqa a hqid).2
        · exact hother a (Or.inr (hsub2.subset ha))

/-! ### undo of a recorded array `Remove` -/

theorem inv3_undo_del {H : Home} {N : Int} {ρ : Ticket → Ticket} {g : Hist} {p u ts0 : Ticket}
    {ru rr : List UOp} {X Y : Doc} {more future : List Doc} {l : List Ticket}
    (i : Inv3 H N ρ g (.remove p u ts0 :: ru) rr (X :: more) Y future) (gd : GoodDel noTw Y p u l) :
    ∃ rr', Inv3 H N ρ (undo g) ru rr' more X (Y :: future) ∧
      (rr'.length = rr.length + 1 ∨ maxDepth ≤ rr'.length) := by
  obtain ⟨en, chU'⟩ := i.chU
  obtain ⟨hρp, hpN, hn, hh, hlb, hAp, horph⟩ := i.arr gd.hp
  obtain ⟨b, hbu, hbl⟩ := gd.hleaf
  have huN : u.lamport ≤ N := hlb u gd.hmem
  have hAu : absNode g.doc (ρ u) = some b := by
    have := i.sim.node u huN; rw [hbu] at this
    simpa [ABody.map_leaf hbl] using this
  have htwu : noTw (ρ u) = false := rfl
  obtain ⟨ue', hue', hul', he, hwf, hbd, hpl, hsk, hnode⟩ := step_del (src := .undoRedo) (ts := g.next) i.wf i.bd i.pl
    (by simp only [Hist.next]; omega) hAp (horph gd.horph) (List.mem_map_of_mem gd.hmem)
    ⟨b, hAu, hbl⟩ htwu rfl
  obtain ⟨ueY, hueY, _, hulY, hbeqY⟩ := absNode_leaf hbu hbl
  obtain ⟨_, hue2, _, _, hbeq'⟩ := absNode_leaf hAu hbl
  rw [hue'] at hue2; injection hue2 with hue2; subst hue2
  have hbody : ue'.body = ueY.body := absLeaf_inj hul' hulY (hbeq'.symm.trans hbeqY)
  have hinv : inv3 H Y (.remove p u g.next) = .add p (predOf u l) (leafCopy u ueY) g.next := by
    simp only [inv3, gd.hp, hueY]
  have hq : UOp.add p (predOf (ρ u) (l.map ρ)) (leafCopy (ρ u) ue') g.next =
      fullRen ρ (inv3 H Y (.remove p u g.next)) := by
    rw [hinv]
    simp only [fullRen, leafCopy, predOf_map i.sim.inj i.rhead hn hlb gd.hmem, hbody, hρp]
  have hXeq : absNode X = adel (absNode Y) p u := by rw [en.back]; simp only [aexec3, gd.hp]
  have hgood := inv3_good (r := .remove p u g.next) i.wfc en.wfX i.bdc i.plc en.skel (Or.inl ⟨l, gd⟩) huN i.hN0
    (by rw [hXeq]; simp only [aexec3, gd.hp])
  have hsimX : Sim ρ N (absNode X) (absNode (kill g.doc (some (ρ u)))) := by
    rw [hnode, hXeq]
    exact i.sim.adel gd.hp hρp hpN huN hlb
  have hXu : absNode X u = none := by rw [hXeq]; simp [adel, gd.hp]
  have hpu : p ≠ u := by
    intro h; subst h; rw [gd.hp] at hbu; injection hbu with hbu; subst hbu; simp [ABody.isLeaf] at hbl
  have hXp : absNode X p = some (.arr (eraseV u l)) := by rw [hXeq]; simp [adel, gd.hp, hpu]
  have hXo : ∀ a, a ≠ p → a ≠ u → absNode X a = absNode Y a := by
    intro a h1 h2; rw [hXeq]; simp [adel, gd.hp, h1, h2]
  have hYu : absNode Y u ≠ none := by rw [hbu]; simp
  have hYp : absNode Y p ≠ none := by rw [gd.hp]; simp
  have hent : (fullRen ρ (.remove p u ts0)).withTs g.next = .remove p (ρ u) g.next := by
    simp only [fullRen, UOp.withTs, hρp]
  refine inv3_undo_finish (qr := inv3 H Y (.remove p u g.next)) i rfl (by rfl) (by rw [hent, ← hq]; exact he) hwf
    (hbd.mono (by omega)) (hpl.mono (by omega)) hsk hsimX
    ⟨i.wfc, i.bdc, i.plc, hgood.1, hgood.2.1, fun t => (en.skel t).symm, hgood.2.2,
      by rw [inv3_par]; exact en.pb⟩ ?_ ?_
  · intro a ha
    rw [hinv] at ha
    simp only [addId?, leafCopy, Option.some.injEq] at ha
    subst ha
    exact ⟨hYu, hXu, p, absNode_arr_par i.wfc gd.hp gd.hmem, fun f hf => by rw [hXp] at hf; cases hf⟩
  · intro a ha
    have hYa : absNode Y a = none := (i.dead a (by
      rcases ha with ha | ha
      · exact Or.inl (by rw [addIds_cons_remove]; exact ha)
      · exact Or.inr ha)).1
    rw [hXo a (fun h => hYp (h ▸ hYa)) (fun h => hYu (h ▸ hYa))]; exact hYa

/-! ### undo of a recorded object / counter operation -/

theorem skel_of_obj {d : Doc} {p : Ticket} {f : String → Option Ticket} (h : absNode d p = some (.obj f)) :
    skel d p = some false := by
  obtain ⟨pe, keys, member, hd, hr, hb, _⟩ := absNode_obj h
  exact skel_some.2 ⟨pe, hd, by simp [hb, leafBody], hr⟩

/-- what the invariant says about a live recorded object: the renaming fixes it and its members -/
theorem Inv3.obj {H : Home} {N : Int} {ρ : Ticket → Ticket} {g : Hist} {ru rr : List UOp} {past future : List Doc}
    {cur : Doc} (i : Inv3 H N ρ g ru rr past cur future) {p : Ticket} {f : String → Option Ticket}
    (hp : absNode cur p = some (.obj f)) :
    ρ p = p ∧ p.lamport ≤ N ∧ (∀ k' c, f k' = some c → ρ c = c ∧ c.lamport ≤ N) ∧
    absNode g.doc p = some (.obj f) ∧
    (orphaned cur noTw orphanFuel p = false → orphaned g.doc noTw orphanFuel p = false) := by
  have hρp : ρ p = p := i.rfix p (by rw [skel_of_obj hp]; simp)
  have hpN : p.lamport ≤ N := absNode_some_bound i.bdc (by rw [hp]; simp)
  obtain ⟨pe, keys, member, hd, hr, hb, hf⟩ := absNode_obj hp
  have hmem : ∀ k' c, f k' = some c → ρ c = c ∧ c.lamport ≤ N := by
    intro k' c hc
    obtain ⟨_, hpar, hl⟩ := fk_home i.wfc hd hr hb hf hc
    obtain ⟨ce, hce, _⟩ := live_elem hl
    have hcN := i.bdc.ent _ _ hce
    exact ⟨i.fixed hcN hpar hp, hcN⟩
  refine ⟨hρp, hpN, hmem, i.sim.objAt hp hρp hpN (fun k' c h => (hmem k' c h).1), ?_⟩
  intro ho
  rw [← orphaned_of_skel i.wfc i.wf (fun t => (i.eskel t).symm) noTw _ _ (absNode_isContainer hp)]
  exact ho

/-- the present heap at an identity the renaming fixes -/
theorem Inv3.leafAt {H : Home} {N : Int} {ρ : Ticket → Ticket} {g : Hist} {ru rr : List UOp} {past future : List Doc}
    {cur : Doc} (i : Inv3 H N ρ g ru rr past cur future) {t : Ticket} (ht : t.lamport ≤ N) (hρ : ρ t = t)
    {b : ABody} (hb : absNode cur t = some b) (hbl : b.isLeaf = true) : absNode g.doc t = some b := by
  have := i.sim.node t ht
  rw [hρ, hb] at this
  simpa [ABody.map_leaf hbl] using this

theorem setRev_addId (d : Doc) (p : Ticket) (k : String) (val : UVal) (ts : Ticket) (f : String → Option Ticket) :
    addId? (setRev d p k val ts f) = none := by
  unfold setRev
  cases f k with
  | none => rfl
  | some c =>
    simp only []
    cases d c <;> rfl

theorem removeRev_addId (H : Home) (d : Doc) (p u ts : Ticket) : addId? (removeRev H d p u ts) = none := by
  unfold removeRev
  cases d u <;> rfl

theorem inv3_undo_set {H : Home} {N : Int} {ρ : Ticket → Ticket} {g : Hist} {p ts0 : Ticket} {k : String}
    {val : UVal} {ru rr : List UOp} {X Y : Doc} {more future : List Doc} {f : String → Option Ticket}
    (i : Inv3 H N ρ g (.set p k val ts0 :: ru) rr (X :: more) Y future) (gs : GoodSet H noTw Y p k val f) :
    ∃ rr', Inv3 H N ρ (undo g) ru rr' more X (Y :: future) ∧
      (rr'.length = rr.length + 1 ∨ maxDepth ≤ rr'.length) := by
  obtain ⟨en, chU'⟩ := i.chU
  obtain ⟨hρp, hpN, hmem, hAp, horph⟩ := i.obj gs.hp
  have hidN : val.id.lamport ≤ N := en.idb
  have hρid : ρ val.id = val.id := i.fixed hidN gs.hpar gs.hp
  have hNl := i.hN
  have gA : GoodSet H noTw g.doc p k val f :=
    { hp := hAp, horph := horph gs.horph, hleaf := gs.hleaf, hsub := gs.hsub, hrem := gs.hrem, hkey := gs.hkey,
      hpar := gs.hpar, htw := gs.htw,
      hdead := by have := i.sim.node val.id hidN; rw [hρid, gs.hdead] at this; exact this,
      hnc := by rw [i.eskel]; exact gs.hnc,
      hold := fun c hc => by
        obtain ⟨⟨b, hb, hbl⟩, htc⟩ := gs.hold c hc
        obtain ⟨hρc, hcN⟩ := hmem k c hc
        exact ⟨⟨b, i.leafAt hcN hρc hb hbl, hbl⟩, htc⟩ }
  obtain ⟨d', he, res, hpl⟩ := set_explicit (ts0 := ts0) (ts := g.next) (src := .undoRedo) i.wf i.bd i.pl
    (by simp only [Hist.next]; omega) (by simp only [Hist.next]; omega) gA rfl
  have hrev : setRev g.doc p k val g.next f = setRev Y p k val g.next f := by
    unfold setRev
    cases hfk : f k with
    | none => rfl
    | some c =>
      simp only []
      obtain ⟨⟨b, hb, hbl⟩, _⟩ := gs.hold c hfk
      obtain ⟨hρc, hcN⟩ := hmem k c hfk
      obtain ⟨ceY, hceY, _, hclY, hbeqY⟩ := absNode_leaf hb hbl
      obtain ⟨ceA, hceA, _, hclA, hbeqA⟩ := absNode_leaf (i.leafAt hcN hρc hb hbl) hbl
      rw [hceY, hceA]
      simp only []
      rw [absLeaf_inj hclA hclY (hbeqA.symm.trans hbeqY)]
  have hinv : inv3 H Y (.set p k val g.next) = setRev Y p k val g.next f := by simp only [inv3, gs.hp]
  have hfull : fullRen ρ (setRev Y p k val g.next f) = setRev Y p k val g.next f := by
    unfold setRev
    cases f k with
    | none => simp only [fullRen, hρid, hρp]
    | some c =>
      simp only []
      cases Y c with
      | none => simp only [fullRen, hρid, hρp]
      | some ce => simp only [fullRen, hρp]
  have hXeq : absNode X = aset (absNode Y) p k val.id (absLeaf val.body) := en.back
  have hgood := inv3_good (r := .set p k val g.next) i.wfc en.wfX i.bdc i.plc en.skel ⟨f, gs⟩ hidN i.hN0 hXeq
  have hsimX : Sim ρ N (absNode X) (absNode d') := by
    rw [res.node, hXeq]
    exact i.sim.aset gs.hp hρp hpN hρid hidN hmem (absLeaf_isLeaf gs.hleaf)
  have hYp : absNode Y p ≠ none := by rw [gs.hp]; simp
  have hent : (fullRen ρ (.set p k val ts0)).withTs g.next = .set p k val g.next := by
    simp only [fullRen, UOp.withTs, hρp]
  refine inv3_undo_finish (qr := inv3 H Y (.set p k val g.next)) i rfl (by rfl)
    (by rw [hent, hinv, hfull, ← hrev]; exact he) res.wf res.bd (hpl.mono (by omega)) res.skel hsimX
    ⟨i.wfc, i.bdc, i.plc, hgood.1, hgood.2.1, fun t => (en.skel t).symm, hgood.2.2,
      by rw [inv3_par]; exact en.pb⟩ ?_ ?_
  · intro a ha; rw [hinv, setRev_addId] at ha; cases ha
  · intro a ha
    obtain ⟨hYa, q, hq, hno⟩ := i.dead a (by
      rcases ha with ha | ha
      · exact Or.inl (by rw [addIds_cons_none (r := .set p k val ts0) rfl]; exact ha)
      · exact Or.inr ha)
    have h1 : a ≠ val.id := by
      intro h; rw [h, gs.hpar] at hq; injection hq with hq; subst hq; exact hno f gs.hp
    have h2 : a ≠ p := fun h => hYp (h ▸ hYa)
    have h3 : f k ≠ some a := by
      intro h
      obtain ⟨⟨b, hb, _⟩, _⟩ := gs.hold a h
      rw [hYa] at hb; cases hb
    rw [hXeq]; simp [aset, gs.hp, h1, h2, h3, hYa]

theorem inv3_undo_rem {H : Home} {N : Int} {ρ : Ticket → Ticket} {g : Hist} {p u ts0 : Ticket}
    {ru rr : List UOp} {X Y : Doc} {more future : List Doc} {f : String → Option Ticket}
    (i : Inv3 H N ρ g (.remove p u ts0 :: ru) rr (X :: more) Y future) (gr : GoodRemove H noTw Y p u f) :
    ∃ rr', Inv3 H N ρ (undo g) ru rr' more X (Y :: future) ∧
      (rr'.length = rr.length + 1 ∨ maxDepth ≤ rr'.length) := by
  obtain ⟨en, chU'⟩ := i.chU
  obtain ⟨hρp, hpN, hmem, hAp, horph⟩ := i.obj gr.hp
  obtain ⟨hρu, huN⟩ := hmem _ u gr.hk
  have hNl := i.hN
  obtain ⟨b, hbu, hbl⟩ := gr.hleaf
  have hAu := i.leafAt huN hρu hbu hbl
  have gA : GoodRemove H noTw g.doc p u f :=
    { hp := hAp, horph := horph gr.horph, hk := gr.hk, hleaf := ⟨b, hAu, hbl⟩, htw := gr.htw }
  obtain ⟨d', he, res, hpl⟩ := remove_explicit (ts0 := ts0) (ts := g.next) (src := .undoRedo) i.wf i.bd i.pl
    (by simp only [Hist.next]; omega) gA rfl
  have hrev : removeRev H g.doc p u g.next = removeRev H Y p u g.next := by
    unfold removeRev
    obtain ⟨ceY, hceY, _, hclY, hbeqY⟩ := absNode_leaf hbu hbl
    obtain ⟨ceA, hceA, _, hclA, hbeqA⟩ := absNode_leaf hAu hbl
    rw [hceY, hceA]
    simp only []
    rw [absLeaf_inj hclA hclY (hbeqA.symm.trans hbeqY)]
  have hinv : inv3 H Y (.remove p u g.next) = removeRev H Y p u g.next := by simp only [inv3, gr.hp]
  have hfull : fullRen ρ (removeRev H Y p u g.next) = removeRev H Y p u g.next := by
    unfold removeRev
    cases Y u with
    | none => simp only [fullRen, hρu, hρp]
    | some ce => simp only [fullRen, hρp]
  have hXeq : absNode X = aremove (absNode Y) p (H.key u) u := by rw [en.back]; simp only [aexec3, gr.hp]
  have hgood := inv3_good (r := .remove p u g.next) i.wfc en.wfX i.bdc i.plc en.skel (Or.inr ⟨f, gr⟩) huN i.hN0
    (by rw [hXeq]; simp only [aexec3, gr.hp])
  have hsimX : Sim ρ N (absNode X) (absNode d') := by
    rw [res.node, hXeq]
    exact i.sim.aremove gr.hp hρp hpN hρu huN (fun k' c h => (hmem k' c h).1)
  have hYp : absNode Y p ≠ none := by rw [gr.hp]; simp
  have hYu : absNode Y u ≠ none := by rw [hbu]; simp
  have hent : (fullRen ρ (.remove p u ts0)).withTs g.next = .remove p u g.next := by
    simp only [fullRen, UOp.withTs, hρu, hρp]
  refine inv3_undo_finish (qr := inv3 H Y (.remove p u g.next)) i rfl (by rfl)
    (by rw [hent, hinv, hfull, ← hrev]; exact he) res.wf res.bd (hpl.mono (by omega)) res.skel hsimX
    ⟨i.wfc, i.bdc, i.plc, hgood.1, hgood.2.1, fun t => (en.skel t).symm, hgood.2.2,
      by rw [inv3_par]; exact en.pb⟩ ?_ ?_
  · intro a ha; rw [hinv, removeRev_addId] at ha; cases ha
  · intro a ha
    obtain ⟨hYa, _⟩ := i.dead a (by
      rcases ha with ha | ha
      · exact Or.inl (by rw [addIds_cons_remove]; exact ha)
      · exact Or.inr ha)
    have h1 : a ≠ u := fun h => hYu (h ▸ hYa)
    have h2 : a ≠ p := fun h => hYp (h ▸ hYa)
    rw [hXeq]; simp [aremove, gr.hp, h1, h2, hYa]

theorem inv3_undo_inc {H : Home} {N : Int} {ρ : Ticket → Ticket} {g : Hist} {c ts0 : Ticket} {delta : Int}
    {ru rr : List UOp} {X Y : Doc} {more future : List Doc}
    (i : Inv3 H N ρ g (.increase c delta ts0 :: ru) rr (X :: more) Y future) (gi : GoodInc Y c delta) :
    ∃ rr', Inv3 H N ρ (undo g) ru rr' more X (Y :: future) ∧
      (rr'.length = rr.length + 1 ∨ maxDepth ≤ rr'.length) := by
  obtain ⟨en, chU'⟩ := i.chU
  obtain ⟨l, v, hc, hwd, hwv⟩ := gi
  have hcN : c.lamport ≤ N := en.idb
  have hNl := i.hN
  have hAc : absNode g.doc (ρ c) = some (.cnt l v) := by
    have := i.sim.node c hcN; rw [hc] at this; exact this
  obtain ⟨d', he, res, hpl⟩ := inc_explicit (tw := noTw) (ts0 := ts0) (ts := g.next) (src := .undoRedo) i.wf i.bd
    i.pl (by simp only [Hist.next]; omega) hAc hwd hwv rfl
  have hinv : inv3 H Y (.increase c delta g.next) = .increase c (wrap l (-delta)) g.next := by
    simp only [inv3, hc]
  have hXeq : absNode X = ainc (absNode Y) c delta := en.back
  have hgood := inv3_good (tw := noTw) (r := .increase c delta g.next) i.wfc en.wfX i.bdc i.plc en.skel
    ⟨l, v, hc, hwd, hwv⟩ hcN i.hN0 hXeq
  have hsimX : Sim ρ N (absNode X) (absNode d') := by
    rw [res.node, hXeq]
    exact i.sim.ainc hc hcN
  have hYc : absNode Y c ≠ none := by rw [hc]; simp
  have hent : (fullRen ρ (.increase c delta ts0)).withTs g.next = .increase (ρ c) delta g.next := by
    simp only [fullRen, UOp.withTs]
  refine inv3_undo_finish (qr := inv3 H Y (.increase c delta g.next)) i rfl (by rfl)
    (by rw [hent, hinv]; simp only [fullRen]; exact he) res.wf res.bd (hpl.mono (by omega)) res.skel hsimX
    ⟨i.wfc, i.bdc, i.plc, hgood.1, hgood.2.1, fun t => (en.skel t).symm, hgood.2.2,
      by rw [inv3_par]; exact en.pb⟩ ?_ ?_
  · intro a ha; rw [hinv] at ha; cases ha
  · intro a ha
    obtain ⟨hYa, _⟩ := i.dead a (by
      rcases ha with ha | ha
      · exact Or.inl (by rw [addIds_cons_none (r := .increase c delta ts0) rfl]; exact ha)
      · exact Or.inr ha)
    have h1 : a ≠ c := fun h => hYc (h ▸ hYa)
    rw [hXeq]; simp [ainc, h1, hYa]

end Yorkie.Undo
