/- Snapshot round trip, object part: `fromJSONObject` re-runs `SetWithExecutedAt` for every node with the node's
   own `PositionedAt`, in the order `toRHTNodes` happened to walk the Go map.  Under `ObjSane` (sanity + the
   exclusion "no live LWW loser") the live occupant of every key comes out the same, for every order. -/
import YorkieModel.Lemmas.FDocSnapArr
namespace Yorkie.FDoc
open Yorkie
open Yorkie.Crdt (rootId headId)

/-! ### field-level facts -/

theorem isRemoved_eq (r : Root) (t : Ticket) : isRemoved r t = !liveChild r t := by
  unfold isRemoved liveChild
  cases r.get t with
  | none => rfl
  | some e => cases h : e.removedAt <;> simp [h]

theorem liveChild_setMovedAt (r : Root) (v m x : Ticket) : liveChild (setMovedAt r v m) x = liveChild r x := by
  unfold setMovedAt
  cases hg : r.get v with
  | none => rfl
  | some e =>
    simp only
    exact liveChild_put_fields r v e { e with movedAt := some m } hg rfl x

theorem positionedAt_put (r : Root) (t : Ticket) (e e' : Elem) (hg : r.get t = some e) (h : e'.movedAt = e.movedAt)
    (x : Ticket) : positionedAt (r.put t e') x = positionedAt r x := by
  unfold positionedAt
  rw [get_put]
  by_cases hx : x = t
  · subst hx; simp [hg, h]
  · simp [hx]

theorem positionedAt_setMovedAt_self (r : Root) (v x : Ticket) :
    positionedAt (setMovedAt r v (positionedAt r v)) x = positionedAt r x := by
  unfold setMovedAt
  cases hg : r.get v with
  | none => rfl
  | some e =>
    simp only
    unfold positionedAt
    rw [get_put]
    by_cases hx : x = v
    · subst hx; simp [hg]
    · simp [hx]

theorem positionedAt_removeElem (r : Root) (v a x : Ticket) : positionedAt (removeElem r v a).1 x = positionedAt r x := by
  unfold removeElem
  cases hg : r.get v with
  | none => rfl
  | some e =>
    simp only
    split
    · exact positionedAt_put r v e { e with removedAt := some a } hg rfl x
    · rfl

/-- tombstoning an element that is not live changes nobody's liveness -/
theorem liveChild_removeElem_dead (r : Root) (v a x : Ticket) (hv : liveChild r v = false) :
    liveChild (removeElem r v a).1 x = liveChild r x := by
  unfold removeElem
  cases hg : r.get v with
  | none => rfl
  | some e =>
    simp only
    split
    · unfold liveChild
      rw [get_put]
      by_cases hx : x = v
      · subst hx
        have : liveChild r x = false := hv
        unfold liveChild at this
        rw [hg] at this
        simp [hg, this]
      · simp [hx]
    · rfl

/-! ### sanity of one object -/

structure ObjSane (r : Root) (nodes : List (Ticket × String)) (byKey : List (String × Ticket)) : Prop where
  /-- sanity: one node per child -/
  nodup : (nodes.map (·.1)).Nodup
  /-- sanity: `nodeMapByKey` is a function and points into `nodeMapByCreatedAt` -/
  wf : ObjWF nodes byKey
  /-- EXCLUSION of the defect: every live node is the occupant of its key (no live LWW loser) -/
  noLiveLoser : ∀ p ∈ nodes, liveChild r p.1 = true → alGet byKey p.2 = some p.1
  /-- sanity: a live node was positioned after every other node of its key -/
  liveMax : ∀ p ∈ nodes, ∀ q ∈ nodes, liveChild r p.1 = true → q.2 = p.2 → q.1 ≠ p.1 →
    (positionedAt r p.1).after (positionedAt r q.1) = true

instance (nodes : List (Ticket × String)) (byKey : List (String × Ticket)) : Decidable (ObjWF nodes byKey) := by
  unfold ObjWF; infer_instance

instance (r : Root) (nodes : List (Ticket × String)) (byKey : List (String × Ticket)) : Decidable (ObjSane r nodes byKey) :=
  decidable_of_iff
    ((nodes.map (·.1)).Nodup ∧ ObjWF nodes byKey ∧
      (∀ p ∈ nodes, liveChild r p.1 = true → alGet byKey p.2 = some p.1) ∧
      (∀ p ∈ nodes, ∀ q ∈ nodes, liveChild r p.1 = true → q.2 = p.2 → q.1 ≠ p.1 →
        (positionedAt r p.1).after (positionedAt r q.1) = true))
    ⟨fun ⟨a, b, c, d⟩ => ⟨a, b, c, d⟩, fun ⟨a, b, c, d⟩ => ⟨a, b, c, d⟩⟩

/-! ### the replay loop -/

/-- state of the replay after the nodes `P` have been re-set into the emptied object `o` -/
structure ObjInv (r rs : Root) (o : Ticket) (op : Option Ticket) (P : List (Ticket × String)) (ri : Root) : Prop where
  /-- liveness and `PositionedAt` of every element are those of the reference root `r` -/
  live : ∀ x, liveChild ri x = liveChild r x
  pos : ∀ x, positionedAt ri x = positionedAt r x
  /-- parent pointer and body of every other element are those of `rs` (the state before this rebuild) -/
  others : ∀ x, x ≠ o → skel ri x = skel rs x
  self : ∃ ns bk, skel ri o = some (op, .obj ns bk) ∧ (bk.map (·.1)).Nodup ∧
    (∀ k c, alGet bk k = some c → (c, k) ∈ P ∧
      ∀ q ∈ P, q.2 = k → (positionedAt r q.1).after (positionedAt r c) = false) ∧
    (∀ q ∈ P, ∃ c, alGet bk q.2 = some c)

/-- the occupant table after one more node: either `v` takes key `k` or the table is unchanged -/
theorem table_take {r : Root} {P : List (Ticket × String)} {bk : List (String × Ticket)} {v : Ticket} {k : String}
    (hnd : (bk.map (·.1)).Nodup)
    (h1 : ∀ k' c, alGet bk k' = some c → (c, k') ∈ P ∧
      ∀ q ∈ P, q.2 = k' → (positionedAt r q.1).after (positionedAt r c) = false)
    (h2 : ∀ q ∈ P, ∃ c, alGet bk q.2 = some c)
    (hbeat : ∀ q ∈ P, q.2 = k → (positionedAt r q.1).after (positionedAt r v) = false) :
    ((alSet bk k v).map (·.1)).Nodup ∧
    (∀ k' c, alGet (alSet bk k v) k' = some c → (c, k') ∈ (v, k) :: P ∧
      ∀ q ∈ (v, k) :: P, q.2 = k' → (positionedAt r q.1).after (positionedAt r c) = false) ∧
    (∀ q ∈ (v, k) :: P, ∃ c, alGet (alSet bk k v) q.2 = some c) := by
  refine ⟨nodup_keys_alSet k v hnd, ?_, ?_⟩
  · intro k' c hc
    by_cases hk : k' = k
    · subst hk
      rw [alGet_alSet_same] at hc
      injection hc with hc
      subst hc
      refine ⟨List.mem_cons_self .., ?_⟩
      intro q hq hqk
      rcases List.mem_cons.mp hq with e | e
      · subst e; exact after_irrefl _
      · exact hbeat q e hqk
    · rw [alGet_alSet_other _ _ _ _ hk] at hc
      obtain ⟨a1, a2⟩ := h1 k' c hc
      refine ⟨List.mem_cons_of_mem _ a1, ?_⟩
      intro q hq hqk
      rcases List.mem_cons.mp hq with e | e
      · subst e; exact absurd hqk.symm hk
      · exact a2 q e hqk
  · intro q hq
    by_cases hk : q.2 = k
    · exact ⟨v, by rw [hk, alGet_alSet_same]⟩
    · rcases List.mem_cons.mp hq with e | e
      · subst e; exact absurd rfl hk
      · obtain ⟨c, hc⟩ := h2 q e
        exact ⟨c, by rw [alGet_alSet_other _ _ _ _ hk]; exact hc⟩

theorem table_keep {r : Root} {P : List (Ticket × String)} {bk : List (String × Ticket)} {v occ : Ticket} {k : String}
    (h1 : ∀ k' c, alGet bk k' = some c → (c, k') ∈ P ∧
      ∀ q ∈ P, q.2 = k' → (positionedAt r q.1).after (positionedAt r c) = false)
    (h2 : ∀ q ∈ P, ∃ c, alGet bk q.2 = some c)
    (hocc : alGet bk k = some occ)
    (hlose : (positionedAt r v).after (positionedAt r occ) = false) :
    (∀ k' c, alGet bk k' = some c → (c, k') ∈ (v, k) :: P ∧
      ∀ q ∈ (v, k) :: P, q.2 = k' → (positionedAt r q.1).after (positionedAt r c) = false) ∧
    (∀ q ∈ (v, k) :: P, ∃ c, alGet bk q.2 = some c) := by
  refine ⟨?_, ?_⟩
  · intro k' c hc
    obtain ⟨a1, a2⟩ := h1 k' c hc
    refine ⟨List.mem_cons_of_mem _ a1, ?_⟩
    intro q hq hqk
    rcases List.mem_cons.mp hq with e | e
    · subst e
      have : k = k' := hqk
      subst this
      rw [hocc] at hc
      injection hc with hc
      subst hc
      exact hlose
    · exact a2 q e hqk
  · intro q hq
    rcases List.mem_cons.mp hq with e | e
    · subst e; exact ⟨occ, hocc⟩
    · exact h2 q e

/-- one `SetWithExecutedAt(k, v, PositionedAt(v))` of the replay -/
theorem objInv_step {r rs ri : Root} {o : Ticket} {op : Option Ticket} {P : List (Ticket × String)}
    (inv : ObjInv r rs o op P ri) (v : Ticket) (k : String)
    (H1 : liveChild r v = true → ∀ q ∈ P, q.2 = k → (positionedAt r v).after (positionedAt r q.1) = true)
    (H2 : ∀ q ∈ P, q.2 = k → liveChild r q.1 = true → (positionedAt r q.1).after (positionedAt r v) = true) :
    ObjInv r rs o op ((v, k) :: P) (rhtSet ri o k v (positionedAt ri v)).1 := by
  obtain ⟨ns, bk, hso, hnd, ht1, ht2⟩ := inv.self
  obtain ⟨oe, hgo, hpar, hbody⟩ := get_of_skel hso
  have hexec : positionedAt ri v = positionedAt r v := inv.pos v
  -- a state that differs from `ri` only by the object's maps and by `movedAt/removedAt` fields
  have build : ∀ (r' : Root) (ns' : List (Ticket × String)) (bk' : List (String × Ticket)),
      (∀ x, liveChild r' x = liveChild ri x) → (∀ x, positionedAt r' x = positionedAt ri x) →
      (∀ x, skel r' x = skel (ri.put o { oe with body := .obj ns' bk' }) x) →
      (bk'.map (·.1)).Nodup →
      (∀ k' c, alGet bk' k' = some c → (c, k') ∈ (v, k) :: P ∧
        ∀ q ∈ (v, k) :: P, q.2 = k' → (positionedAt r q.1).after (positionedAt r c) = false) →
      (∀ q ∈ (v, k) :: P, ∃ c, alGet bk' q.2 = some c) →
      ObjInv r rs o op ((v, k) :: P) r' := by
    intro r' ns' bk' hl hp hs a1 a2 a3
    refine ⟨fun x => (hl x).trans (inv.live x), fun x => (hp x).trans (inv.pos x), ?_, ns', bk', ?_, a1, a2, a3⟩
    · intro x hx
      rw [hs, skel_put]
      simp only [hx, if_false]
      exact inv.others x hx
    · rw [hs, skel_put]
      simp [hpar]
  unfold rhtSet
  simp only [hgo, hbody]
  -- facts about the two field updates used below
  have put_live : ∀ (ns' : List (Ticket × String)) (bk' : List (String × Ticket)) x,
      liveChild (ri.put o { oe with body := .obj ns' bk' }) x = liveChild ri x :=
    fun ns' bk' x => liveChild_put_fields ri o oe { oe with body := .obj ns' bk' } hgo rfl x
  have put_pos : ∀ (ns' : List (Ticket × String)) (bk' : List (String × Ticket)) x,
      positionedAt (ri.put o { oe with body := .obj ns' bk' }) x = positionedAt ri x :=
    fun ns' bk' x => positionedAt_put ri o oe { oe with body := .obj ns' bk' } hgo rfl x
  -- the branch in which `v` becomes the occupant of `k`
  have take : (∀ q ∈ P, q.2 = k → (positionedAt r q.1).after (positionedAt r v) = false) →
      ObjInv r rs o op ((v, k) :: P)
        (setMovedAt (ri.put o { oe with body := .obj (alSet ns v k) (alSet bk k v) }) v (positionedAt ri v)) := by
    intro hbeat
    obtain ⟨a1, a2, a3⟩ := table_take hnd ht1 ht2 hbeat
    apply build _ (alSet ns v k) (alSet bk k v) _ _ (fun x => skel_setMovedAt _ _ _ x) a1 a2 a3
    · intro x; rw [liveChild_setMovedAt]; exact put_live _ _ x
    · intro x
      have : positionedAt ri v = positionedAt (ri.put o { oe with body := .obj (alSet ns v k) (alSet bk k v) }) v :=
        (put_pos _ _ v).symm
      rw [this, positionedAt_setMovedAt_self]
      exact put_pos _ _ x
  cases hocc : alGet bk k with
  | none =>
    simp only
    apply take
    intro q hq hqk
    obtain ⟨c, hc⟩ := ht2 q hq
    rw [hqk, hocc] at hc
    cases hc
  | some occ =>
    simp only
    obtain ⟨hoccP, hoccMax⟩ := ht1 k occ hocc
    have hposocc : positionedAt ri occ = positionedAt r occ := inv.pos occ
    split
    · -- `v` was positioned after the occupant: it takes the key; the occupant cannot be live
      rename_i hwin
      rw [hexec, hposocc] at hwin
      have hoccDead : liveChild ri occ = false := by
        cases hl : liveChild ri occ with
        | false => rfl
        | true =>
          rw [inv.live] at hl
          have := H2 (occ, k) hoccP rfl hl
          rw [after_asymm hwin] at this
          cases this
      have hnr : (!isRemoved ri occ) = false := by rw [isRemoved_eq, hoccDead]; rfl
      simp only [hnr, Bool.false_eq_true, if_false, hgo]
      apply take
      intro q hq hqk
      cases hqa : (positionedAt r q.1).after (positionedAt r v) with
      | false => rfl
      | true =>
        have := after_trans hqa hwin
        rw [hoccMax q hq hqk] at this
        cases this
    · -- `v` loses: the table is unchanged; `v` is tombstoned again only when it already was
      rename_i hlose
      have hlose' : (positionedAt r v).after (positionedAt r occ) = false := by
        rw [hexec, hposocc] at hlose
        simpa using hlose
      obtain ⟨a2, a3⟩ := table_keep ht1 ht2 hocc hlose'
      split
      · rename_i hoccLive
        have hoccLive' : liveChild r occ = true := by
          rw [isRemoved_eq, put_live] at hoccLive
          rw [← inv.live]
          simpa using hoccLive
        have hvDead : liveChild (ri.put o { oe with body := .obj (alSet ns v k) bk }) v = false := by
          rw [put_live, inv.live]
          cases hl : liveChild r v with
          | false => rfl
          | true =>
            have := H1 hl (occ, k) hoccP rfl
            rw [hlose'] at this
            cases this
        apply build _ (alSet ns v k) bk _ _ (fun x => skel_removeElem _ _ _ x) hnd a2 a3
        · intro x; rw [liveChild_removeElem_dead _ _ _ _ hvDead]; exact put_live _ _ x
        · intro x; rw [positionedAt_removeElem]; exact put_pos _ _ x
      · exact build _ (alSet ns v k) bk (put_live _ _) (put_pos _ _) (fun _ => rfl) hnd a2 a3

/-- the replay of a duplicate-free list of nodes of a sane object -/
theorem objInv_fold {r rs : Root} {o : Ticket} {op : Option Ticket} {nodes : List (Ticket × String)}
    {byKey : List (String × Ticket)} (hs : ObjSane r nodes byKey) :
    ∀ (L P : List (Ticket × String)) (ri : Root), ObjInv r rs o op P ri →
      (∀ p ∈ L, p ∈ nodes) → (∀ p ∈ P, p ∈ nodes) → L.Pairwise (fun a b => a.1 ≠ b.1) →
      (∀ p ∈ L, ∀ q ∈ P, q.1 ≠ p.1) →
      ∃ P', ObjInv r rs o op P' (L.foldl (fun acc p => (rhtSet acc o p.2 p.1 (positionedAt acc p.1)).1) ri) ∧
        (∀ p, p ∈ P' ↔ p ∈ L ∨ p ∈ P) := by
  intro L
  induction L with
  | nil => intro P ri inv _ _ _ _; exact ⟨P, inv, fun p => by simp⟩
  | cons a rest ih =>
    intro P ri inv hL hP hpw hdis
    obtain ⟨v, k⟩ := a
    have hvk : (v, k) ∈ nodes := hL _ (List.mem_cons_self ..)
    have hvP : ∀ q ∈ P, q.1 ≠ v := fun q hq => hdis (v, k) (List.mem_cons_self ..) q hq
    have step := objInv_step inv v k
      (fun hl q hq hqk => hs.liveMax (v, k) hvk q (hP q hq) hl hqk (hvP q hq))
      (fun q hq hqk hl => hs.liveMax q (hP q hq) (v, k) hvk hl hqk.symm (fun e => hvP q hq e.symm))
    rw [List.pairwise_cons] at hpw
    obtain ⟨P', inv', hP'⟩ := ih ((v, k) :: P) _ step
      (fun p hp => hL p (List.mem_cons_of_mem _ hp))
      (fun p hp => by
        rcases List.mem_cons.mp hp with e | e
        · rw [e]; exact hvk
        · exact hP p e)
      hpw.2
      (fun p hp q hq => by
        rcases List.mem_cons.mp hq with e | e
        · rw [e]; exact hpw.1 p hp
        · exact hdis p (List.mem_cons_of_mem _ hp) q e)
    refine ⟨P', inv', ?_⟩
    intro p
    rw [hP' p]
    simp only [List.mem_cons]
    constructor
    · rintro (h | h | h)
      · exact Or.inl (Or.inr h)
      · exact Or.inl (Or.inl h)
      · exact Or.inr h
    · rintro ((h | h) | h)
      · exact Or.inr (Or.inl h)
      · exact Or.inl h
      · exact Or.inr (Or.inr h)

/-! ### the order in which the nodes are replayed -/

theorem orderNodes_mem {perm : List Ticket} {nodes : List (Ticket × String)} (hn : (nodes.map (·.1)).Nodup)
    (p : Ticket × String) : p ∈ orderNodes perm nodes ↔ p ∈ nodes := by
  unfold orderNodes
  simp only [List.mem_append, List.mem_filterMap, List.mem_filter]
  constructor
  · rintro (⟨t, _, ht⟩ | ⟨h, _⟩)
    · cases hg : alGet nodes t with
      | none => simp [hg] at ht
      | some k =>
        simp [hg] at ht
        subst ht
        exact alGet_some_mem hg
    · exact h
  · intro hp
    by_cases hperm : p.1 ∈ perm
    · refine Or.inl ⟨p.1, hperm, ?_⟩
      have : alGet nodes p.1 = some p.2 := nodup_mem_alGet hn (by cases p; exact hp)
      simp [this]
    · exact Or.inr ⟨hp, by simpa using hperm⟩

theorem orderNodes_pairwise {perm : List Ticket} {nodes : List (Ticket × String)} (hp : perm.Nodup)
    (hn : (nodes.map (·.1)).Nodup) : (orderNodes perm nodes).Pairwise (fun a b => a.1 ≠ b.1) := by
  unfold orderNodes
  rw [List.pairwise_append]
  refine ⟨?_, ?_, ?_⟩
  · apply List.Pairwise.filterMap (R := fun a b => a ≠ b) _ _ hp
    intro a a' hne b hb b' hb'
    cases hg : alGet nodes a with
    | none => simp [hg] at hb
    | some k =>
      cases hg' : alGet nodes a' with
      | none => simp [hg'] at hb'
      | some k' =>
        simp [hg] at hb
        simp [hg'] at hb'
        subst hb; subst hb'
        exact hne
  · apply List.Pairwise.filter
    exact List.pairwise_map.mp hn
  · intro a ha b hb
    simp only [List.mem_filterMap] at ha
    obtain ⟨t, ht, hta⟩ := ha
    have ha1 : a.1 = t := by
      cases hg : alGet nodes t with
      | none => simp [hg] at hta
      | some k => simp [hg] at hta; rw [← hta]
    simp only [List.mem_filter] at hb
    intro e
    have : b.1 ∈ perm := by rw [← e, ha1]; exact ht
    simp [this] at hb

/-! ### one object -/

/-- live occupant of a key -/
def liveOcc (r : Root) (bk : List (String × Ticket)) (k : String) : Option Ticket :=
  match alGet bk k with
  | some c => if liveChild r c then some c else none
  | none => none

theorem alGet_filter_nodup {bk : List (String × Ticket)} (hnd : (bk.map (·.1)).Nodup) (r : Root) (k : String) :
    alGet (List.filter (fun p => liveChild r p.2) bk) k = liveOcc r bk k := by
  unfold liveOcc
  induction bk with
  | nil => simp [alGet]
  | cons a rest ih =>
    obtain ⟨k', c⟩ := a
    simp only [List.map_cons, List.nodup_cons] at hnd
    have ih' := ih hnd.2
    by_cases hk : k' = k
    · subst hk
      have hrest : alGet rest k' = none := alGet_none_of_not_mem_keys hnd.1
      simp only [alGet, if_true]
      by_cases hl : liveChild r c = true
      · simp [List.filter, hl, alGet]
      · have hl' : liveChild r c = false := by simpa using hl
        simp only [List.filter, hl', Bool.false_eq_true, if_false]
        rw [ih', hrest]
    · simp only [alGet, hk, if_false]
      by_cases hl : liveChild r c = true
      · simp only [List.filter, hl, alGet, hk, if_false]
        exact ih'
      · have hl' : liveChild r c = false := by simpa using hl
        simp only [List.filter, hl']
        exact ih'

/-- result of `rebuildObj` on a sane object: same liveness, same positions, others untouched, and the same
    live occupant for every key -/
theorem rebuildObj_spec {r ri : Root} {perm : List Ticket} (hperm : perm.Nodup) {o : Ticket} {oe : Elem}
    {nodes : List (Ticket × String)} {byKey : List (String × Ticket)}
    (hlive : ∀ x, liveChild ri x = liveChild r x) (hpos : ∀ x, positionedAt ri x = positionedAt r x)
    (hgo : ri.get o = some oe) (hbody : oe.body = .obj nodes byKey) (hs : ObjSane r nodes byKey) :
    (∀ x, liveChild (rebuildObj perm ri o) x = liveChild r x) ∧
    (∀ x, positionedAt (rebuildObj perm ri o) x = positionedAt r x) ∧
    (∀ x, x ≠ o → skel (rebuildObj perm ri o) x = skel ri x) ∧
    ∃ ns bk, skel (rebuildObj perm ri o) o = some (oe.parent, .obj ns bk) ∧
      liveMembers (rebuildObj perm ri o) bk = liveMembers r byKey := by
  have h0 : ObjInv r ri o oe.parent [] (ri.put o { oe with body := .obj [] [] }) := by
    refine ⟨?_, ?_, ?_, [], [], ?_, by simp, ?_, ?_⟩
    · intro x; rw [liveChild_put_fields ri o oe { oe with body := .obj [] [] } hgo rfl]; exact hlive x
    · intro x; rw [positionedAt_put ri o oe { oe with body := .obj [] [] } hgo rfl]; exact hpos x
    · intro x hx; rw [skel_put]; simp [hx]
    · rw [skel_put]; simp
    · intro k c hc; simp [alGet] at hc
    · intro q hq; cases hq
  obtain ⟨P', inv, hP'⟩ := objInv_fold (rs := ri) (o := o) (op := oe.parent) hs (orderNodes perm nodes) [] _ h0
    (fun p hp => (orderNodes_mem hs.nodup p).mp hp) (fun p hp => by cases hp)
    (orderNodes_pairwise hperm hs.nodup) (fun p _ q hq => by cases hq)
  have hreb : rebuildObj perm ri o =
      (orderNodes perm nodes).foldl (fun acc p => (rhtSet acc o p.2 p.1 (positionedAt acc p.1)).1)
        (ri.put o { oe with body := .obj [] [] }) := by
    unfold rebuildObj
    simp only [hgo, hbody]
  rw [hreb]
  have hPn : ∀ p, p ∈ P' ↔ p ∈ nodes := by
    intro p
    rw [hP' p, orderNodes_mem hs.nodup]
    simp
  refine ⟨inv.live, inv.pos, inv.others, ?_⟩
  obtain ⟨ns, bk, hso, hnd, ht1, ht2⟩ := inv.self
  refine ⟨ns, bk, hso, ?_⟩
  apply liveMembers_ext
  intro k
  rw [alGet_filter_nodup hnd, alGet_filter_nodup hs.wf.1]
  -- the live occupant of `k` is the same
  unfold liveOcc
  cases hF : alGet bk k with
  | some c =>
    obtain ⟨hcP, hcMax⟩ := ht1 k c hF
    have hcn : (c, k) ∈ nodes := (hPn _).mp hcP
    simp only [inv.live]
    by_cases hl : liveChild r c = true
    · have := hs.noLiveLoser (c, k) hcn hl
      simp only at this
      simp [hl, this]
    · have hl' : liveChild r c = false := by simpa using hl
      simp only [hl', Bool.false_eq_true, if_false]
      cases hO : alGet byKey k with
      | none => rfl
      | some c0 =>
        simp only
        by_cases hl0 : liveChild r c0 = true
        · exfalso
          have hc0n : (c0, k) ∈ nodes := alGet_some_mem (hs.wf.2 (k, c0) (alGet_some_mem hO))
          have hne : c ≠ c0 := by intro e; rw [e, hl0] at hl'; cases hl'
          have h1 := hs.liveMax (c0, k) hc0n (c, k) hcn hl0 rfl hne
          have h2 := hcMax (c0, k) ((hPn _).mpr hc0n) rfl
          simp only at h1 h2
          rw [h1] at h2
          cases h2
        · simp [hl0]
  | none =>
    simp only
    cases hO : alGet byKey k with
    | none => rfl
    | some c0 =>
      simp only
      have hc0n : (c0, k) ∈ nodes := alGet_some_mem (hs.wf.2 (k, c0) (alGet_some_mem hO))
      obtain ⟨c, hc⟩ := ht2 (c0, k) ((hPn _).mpr hc0n)
      simp only at hc
      rw [hF] at hc
      cases hc

end Yorkie.FDoc
