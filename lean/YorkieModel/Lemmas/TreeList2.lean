/- pkg/treelist: structuralIndexOf, InsertAfter, Find, IsRemoved toggle + UpdateWeight. -/
import YorkieModel.Lemmas.TreeList
namespace Yorkie.TreeList
open Yorkie.RB Yorkie.RB.T

theorem ids_node (l : T) (a c r) : ids (node l a c r) = ids l ++ a.id :: ids r := by
  simp [ids, T.toList]

theorem length_ids (t : T) : (ids t).length = t.size := by
  simp only [ids, List.length_map]
  induction t with
  | nil => rfl
  | node l a c r ihl ihr => simp [T.toList, ihl, ihr]; omega

/-! ### structuralIndexOf -/

theorem sIndexOf_none {x : Nat} {t : T} (h : x ∉ ids t) : sIndexOf x t = none := by
  induction t with
  | nil => rfl
  | node l a c r ihl ihr =>
    simp only [ids_node, List.mem_append, List.mem_cons, not_or] at h
    simp [sIndexOf, Ne.symm h.2.1, ihl h.1, ihr h.2.2]

/-- with exact counts and distinct identities `structuralIndexOf` is the in-order position -/
theorem sIndexOf_spec {x : Nat} {t : T} (hw : wf t) (hn : (ids t).Nodup) (hx : x ∈ ids t) :
    ∃ i, sIndexOf x t = some i ∧ i < t.size ∧ (ids t)[i]? = some x := by
  induction t with
  | nil => simp [ids, T.toList] at hx
  | node l a c r ihl ihr =>
    rw [ids_node] at hn hx
    have hcl := count_eq_size hw.1
    have hll := length_ids l
    obtain ⟨hnl, hnr', hdis⟩ := List.nodup_append.1 hn
    simp only [List.nodup_cons] at hnr'
    simp only [sIndexOf]
    by_cases e : a.id = x
    · refine ⟨count l, by simp [e], by simp [hcl]; omega, ?_⟩
      rw [ids_node, hcl, ← hll, List.getElem?_append_right (Nat.le_refl _)]; simp [e]
    · simp only [e, if_false]
      rcases List.mem_append.1 hx with hx | hx
      · obtain ⟨i, h1, h2, h3⟩ := ihl hw.1 hnl hx
        refine ⟨i, by simp [h1], by simp; omega, ?_⟩
        rw [ids_node, List.getElem?_append_left (by omega)]; exact h3
      · have hx' : x ∈ ids r := by simpa [Ne.symm e] using hx
        have hxl : x ∉ ids l := fun hm => hdis x hm x (by simp [hx']) rfl
        obtain ⟨i, h1, h2, h3⟩ := ihr hw.2.1 hnr'.2 hx'
        refine ⟨i + (count l + 1), by simp [sIndexOf_none hxl, h1], by simp [hcl]; omega, ?_⟩
        rw [ids_node, hcl, List.getElem?_append_right (by omega)]
        have : i + (l.size + 1) - (ids l).length = i + 1 := by omega
        rw [this]; simpa using h3

/-! ### InsertAfter -/

theorem spec_insertAfter_idx {prev : Nat} {e : Nat × Bool} {L : Spec.L} {i : Nat}
    (hn : (Spec.ids L).Nodup) (hi : (Spec.ids L)[i]? = some prev) :
    Spec.insertAfter prev e L = L.take (i + 1) ++ e :: L.drop (i + 1) := by
  induction L generalizing i with
  | nil => simp [Spec.ids] at hi
  | cons a L ih =>
    simp only [Spec.ids, List.map_cons, List.nodup_cons] at hn
    cases i with
    | zero =>
      simp [Spec.ids] at hi
      simp [Spec.insertAfter, hi]
    | succ i =>
      simp only [Spec.ids, List.map_cons, List.getElem?_cons_succ] at hi
      have hne : a.1 ≠ prev := by
        rintro rfl
        exact hn.1 (List.mem_of_getElem? hi)
      simp only [Spec.insertAfter, hne, if_false, List.take_succ_cons, List.drop_succ_cons, List.cons_append]
      rw [ih hn.2 hi]

theorem insertAfter_spec {prev id : Nat} {rm : Bool} {t : T} (hw : wf t) (hn : (ids t).Nodup)
    (hp : prev ∈ ids t) :
    toList (insertAfter prev id rm t) = Spec.insertAfter prev (id, rm) (toList t) ∧
    wf (insertAfter prev id rm t) := by
  obtain ⟨i, h1, h2, h3⟩ := sIndexOf_spec hw hn hp
  have hnew : (newNode id rm).w = sz (newNode id rm).rm ∧ (newNode id rm).c = 1 := ⟨rfl, rfl⟩
  obtain ⟨g1, g2⟩ := ins_spec hw (i + 1) (by omega) (newNode id rm) hnew
  simp only [insertAfter, h1, RB.insert]
  refine ⟨?_, wf_blacken.2 g2⟩
  rw [toList_eq_klist, klist_blacken, g1, toList_eq_klist]
  have e : Spec.ids (klist key t) = ids t := (ids_eq t).symm
  rw [spec_insertAfter_idx (i := i) (by rw [e]; exact hn) (by rw [e]; exact h3)]
  rfl

/-! ### Find -/

theorem findGo_spec {t : T} (hw : wf t) (i : Nat) (hi : i < weight t) :
    findGo t i = Spec.find (toList t) i ∧ (findGo t i).isSome := by
  induction t generalizing i with
  | nil => simp at hi
  | node l a c r ihl ihr =>
    have hwl := weight_eq_live hw.1
    have hwr := weight_eq_live hw.2.1
    have hws := hw.2.2.1
    simp only [weight_node] at hi
    have hL : toList (node l a c r) = toList l ++ (a.id, a.rm) :: toList r := by
      simp [toList_eq_klist, key]
    simp only [findGo, hL]
    by_cases c1 : i < weight l
    · simp only [c1, if_true]
      rw [Spec.find_append_left (by rw [← hwl]; exact c1)]
      exact ihl hw.1 i c1
    · simp only [c1, if_false]
      rw [Spec.find_append_right (by rw [← hwl]; omega), ← hwl]
      by_cases c2 : i < weight l + sz a.rm
      · simp only [c2, if_true]
        have hrm : a.rm = false := by
          cases h : a.rm with
          | false => rfl
          | true => simp [h, sz] at c2; omega
        have : i - weight l = 0 := by simp [hrm, sz] at c2; omega
        simp [Spec.find, hrm, this]
      · simp only [c2, if_false]
        obtain ⟨g1, g2⟩ := ihr hw.2.1 (i - (weight l + sz a.rm)) (by omega)
        refine ⟨?_, g2⟩
        rw [g1]
        simp only [Spec.find]
        cases h : a.rm with
        | true => simp [sz]
        | false =>
          simp only [Bool.false_eq_true, if_false, h, sz] at c2 ⊢
          rw [if_neg (by omega), Nat.sub_add_eq]

/-- `Find(i)` on exact weights -/
theorem find_spec {t : T} (hw : wf t) (i : Nat) :
    find t i = Spec.findRes (toList t) i := by
  unfold find Spec.findRes
  by_cases h : (t.isNil || decide (i ≥ len t)) = true
  · rw [if_pos h]
    have : Spec.live (toList t) ≤ i := by
      cases t with
      | nil => simp [toList_eq_klist, Spec.live]
      | node l a c r =>
        simp only [T.isNil, Bool.false_or, len] at h
        rw [← weight_eq_live hw]; exact of_decide_eq_true h
    rw [Spec.find_none_of_le this]
  · rw [if_neg h]
    simp only [Bool.or_eq_true, not_or, len] at h
    have hlt : i < weight t := by
      have := h.2; simp only [decide_eq_true_eq, Nat.not_le, ge_iff_le] at this; exact this
    obtain ⟨g1, g2⟩ := findGo_spec hw i hlt
    rw [← g1]
    cases hf : findGo t i with
    | none => simp [hf] at g2
    | some id => rfl

/-! ### IsRemoved toggle + UpdateWeight -/

theorem mark_notMem {x : Nat} {b : Bool} {t : T} (h : x ∉ ids t) : mark x b t = t := by
  induction t with
  | nil => rfl
  | node l a c r ihl ihr =>
    simp only [ids_node, List.mem_append, List.mem_cons, not_or] at h
    simp [mark, Ne.symm h.2.1, ihl h.1, ihr h.2.2]

theorem updateWeightGo_none {x : Nat} {t : T} (h : x ∉ ids t) : updateWeightGo x t = none := by
  induction t with
  | nil => rfl
  | node l a c r ihl ihr =>
    simp only [ids_node, List.mem_append, List.mem_cons, not_or] at h
    simp [updateWeightGo, Ne.symm h.2.1, ihl h.1, ihr h.2.2]

@[simp] theorem toList_mark (x : Nat) (b : Bool) (t : T) : toList (mark x b t) = Spec.setRm x b (toList t) := by
  induction t with
  | nil => rfl
  | node l a c r ihl ihr =>
    simp only [toList_eq_klist, Spec.setRm] at ihl ihr ⊢
    simp only [mark, klist_node, List.map_append, List.map_cons, ihl, ihr]
    congr 2
    simp only [key]
    split <;> simp_all

@[simp] theorem ids_mark (x : Nat) (b : Bool) (t : T) : ids (mark x b t) = ids t := by
  induction t with
  | nil => rfl
  | node l a c r ihl ihr =>
    simp only [mark, ids_node, ihl, ihr]
    congr 2
    split <;> rfl

@[simp] theorem count_mark (x : Nat) (b : Bool) (t : T) : count (mark x b t) = count t := by
  cases t with
  | nil => rfl
  | node l a c r => simp only [mark, count_node]; split <;> rfl

@[simp] theorem weight_mark (x : Nat) (b : Bool) (t : T) : weight (mark x b t) = weight t := by
  cases t with
  | nil => rfl
  | node l a c r => simp only [mark, weight_node]; split <;> rfl

/-- after the value of `x` toggled `IsRemoved()`, `UpdateWeight(x)` re-establishes exact
weights; the structural sequence only changes the flag of `x` -/
theorem mark_updateWeight {x : Nat} {b : Bool} {t : T} (hw : wf t) (hn : (ids t).Nodup) (hx : x ∈ ids t) :
    ∃ t', updateWeightGo x (mark x b t) = some t' ∧ wf t' ∧ toList t' = Spec.setRm x b (toList t) ∧
      count t' = count t ∧ ids t' = ids t := by
  induction t with
  | nil => simp [ids, T.toList] at hx
  | node l a c r ihl ihr =>
    rw [ids_node] at hn hx
    obtain ⟨hnl, hnr', hdis⟩ := List.nodup_append.1 hn
    simp only [List.nodup_cons] at hnr'
    have hL : ∀ (l' : T) (a' : P) (r' : T), toList (node l' a' c r') = toList l' ++ (a'.id, a'.rm) :: toList r' := by
      intro l' a' r'; simp [toList_eq_klist, key]
    by_cases e : a.id = x
    · -- the node itself
      have hxl : x ∉ ids l := fun hm => hdis x hm x (by simp [e]) rfl
      have hxr : x ∉ ids r := by rw [← e]; exact hnr'.1
      refine ⟨node l { a with rm := b, w := weight l + sz b + weight r } c r, ?_, ?_, ?_, ?_, ?_⟩
      · simp [mark, updateWeightGo, e, mark_notMem hxl, mark_notMem hxr]
      · exact ⟨hw.1, hw.2.1, rfl, hw.2.2.2⟩
      · rw [hL, hL, Spec.setRm, List.map_append, List.map_cons]
        have k1 : ∀ {s : T}, x ∉ ids s → (toList s).map (fun a => if a.1 = x then (a.1, b) else a) = toList s := by
          intro s hs
          have := toList_mark x b s
          rw [mark_notMem hs] at this; exact this.symm
        rw [k1 hxl, k1 hxr]; simp [e]
      · rfl
      · simp [ids_node]
    · rcases List.mem_append.1 hx with hx | hx
      · obtain ⟨l', h1, h2, h3, h4, h5⟩ := ihl hw.1 hnl hx
        have hxr : x ∉ ids r := fun hm => hdis x hx x (by simp [hm]) rfl
        refine ⟨node l' { a with w := weight l' + sz a.rm + weight r } c r, ?_, ?_, ?_, ?_, ?_⟩
        · simp [mark, updateWeightGo, e, h1, mark_notMem hxr]
        · exact ⟨h2, hw.2.1, rfl, by simp [h4]; exact hw.2.2.2⟩
        · rw [hL, hL, h3, Spec.setRm, Spec.setRm, List.map_append, List.map_cons]
          have := toList_mark x b r
          rw [mark_notMem hxr, Spec.setRm] at this
          rw [← this]; simp [e]
        · rfl
        · simp [ids_node, h5]
      · have hx' : x ∈ ids r := by simpa [Ne.symm e] using hx
        have hxl : x ∉ ids l := fun hm => hdis x hm x (by simp [hx']) rfl
        obtain ⟨r', h1, h2, h3, h4, h5⟩ := ihr hw.2.1 hnr'.2 hx'
        refine ⟨node l { a with w := weight l + sz a.rm + weight r' } c r', ?_, ?_, ?_, ?_, ?_⟩
        · simp [mark, updateWeightGo, e, h1, mark_notMem hxl, updateWeightGo_none hxl]
        · exact ⟨hw.1, h2, rfl, by simp [h4]; exact hw.2.2.2⟩
        · rw [hL, hL, h3, Spec.setRm, Spec.setRm, List.map_append, List.map_cons]
          have := toList_mark x b l
          rw [mark_notMem hxl, Spec.setRm] at this
          rw [← this]; simp [e]
        · rfl
        · simp [ids_node, h5]

/-- the compound step the CRDT performs: value toggles, then `UpdateWeight(node)` -/
def setRemoved (x : Nat) (b : Bool) (t : T) : T := updateWeight x (mark x b t)

theorem setRemoved_spec {x : Nat} {b : Bool} {t : T} (hw : wf t) (hn : (ids t).Nodup) :
    wf (setRemoved x b t) ∧ toList (setRemoved x b t) = Spec.setRm x b (toList t) ∧
    ids (setRemoved x b t) = ids t := by
  by_cases hx : x ∈ ids t
  · obtain ⟨t', h1, h2, h3, -, h5⟩ := mark_updateWeight (b := b) hw hn hx
    simp only [setRemoved, updateWeight, h1, Option.getD_some]
    exact ⟨h2, h3, h5⟩
  · have : setRemoved x b t = t := by
      simp [setRemoved, updateWeight, mark_notMem hx, updateWeightGo_none hx]
    rw [this]
    refine ⟨hw, ?_, rfl⟩
    have := toList_mark x b t
    rw [mark_notMem hx] at this; exact this

end Yorkie.TreeList
