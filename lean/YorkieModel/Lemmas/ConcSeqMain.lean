/-
Helper lemmas for Model/Conc.lean, part 14: the concurrent sequence invariant `SC` is inductive
for well-behaved runs (`sc_of_wbReach`).
-/
import YorkieModel.Lemmas.ConcSeqStep
namespace Yorkie.Conc
open Yorkie Yorkie.Server

theorem sc_activate {σ : Sys} {g : Ghost} (hC : CInv σ g) (hS : SC σ) :
    SC { σ with srv := (Server.activate σ.srv).1 } := by
  have he := entryOf_activate hC.d.wf
  have hlogs : ∀ d, storedLog (Server.activate σ.srv).1 d = storedLog σ.srv d := fun d => storedLog_of_docs_eq rfl d
  refine ⟨hS.s.same hlogs (dpOf_ext (activate_docsExt σ.srv)) he (fun x hx hpx => ⟨x, hx, hpx, rfl, rfl⟩), ?_⟩
  intro x hx ha
  exact (hS.fl3 x hx ha).frame (by simp only [ownRows, hlogs])

theorem sc_finish {σ : Sys} {pre post : List InFlight} {r : InFlight} (hS : SC σ)
    (hf : σ.flights = pre ++ r :: post) (hpc : r.pc = .done) :
    SC { σ with flights := pre ++ post, hist := Sys.doneOf r :: σ.hist } := by
  have hsub : ∀ x, x ∈ pre ++ post → x ∈ σ.flights := by
    intro x hx; rw [hf]
    rcases List.mem_append.mp hx with hx | hx
    · exact List.mem_append_left _ hx
    · exact List.mem_append_right _ (List.mem_cons_of_mem _ hx)
  refine ⟨hS.s.same (fun _ => rfl) (fun _ h => h) (fun _ _ => rfl) ?_, fun x hx ha => hS.fl3 x (hsub x hx) ha⟩
  intro x hx hpx
  rw [hf] at hx
  simp only [List.mem_append, List.mem_cons] at hx
  rcases hx with hx | hx | hx
  · exact ⟨x, List.mem_append_left _ hx, hpx, rfl, rfl⟩
  · subst hx; exact absurd hpc hpx.2
  · exact ⟨x, List.mem_append_right _ hx, hpx, rfl, rfl⟩

theorem s12_start {s : Server} {fl : List InFlight} (hw : WF s) (hg : G12 s fl) (h : S12 s fl) (req : Request)
    (r0 : InFlight) : S12 (begin s req).1 (fl ++ [r0]) := by
  have hlogs := begin_storedLog hw req
  have hdp := dpOf_ext (begin_docsExt s hw req)
  have keep : ∀ x ∈ fl, Pending x → ∃ y ∈ fl ++ [r0], Pending y ∧ y.f.client = x.f.client ∧ y.f.doc = x.f.doc :=
    fun x hx hpx => ⟨x, List.mem_append_left _ hx, hpx, rfl, rfl⟩
  rcases begin_target s req with hsame | ⟨i, hi, hnew⟩
  · refine h.same hlogs hdp ?_ keep
    intro c d
    by_cases ht : c = (target s req).1 ∧ d = (target s req).2
    · rw [ht.1, ht.2]; exact hsame
    · refine begin_entries s req c d ?_
      by_cases hc : c = (target s req).1
      · exact Or.inr (fun hd => ht ⟨hc, hd⟩)
      · exact Or.inl hc
  · refine h.trans (target s req).1 (target s req).2 [] (attachingEntry i (target s req).2) (by rw [hlogs]; simp)
      (fun d' _ => hlogs d') hdp (by simp) (fun c' d' hne => begin_entries s req c' d' hne) hnew
      (fun x hx hpx _ => keep x hx hpx) ?_ ?_
    · intro hd; rw [List.append_nil]; exact h.runs _ _ _ (hdp _ hd)
    · intro _ _ _
      rw [List.append_nil]
      -- a new generation has no rows yet
      have : ownRows s (target s req).2 (target s req).1 (attachingEntry i (target s req).2).gen = [] := by
        simp only [ownRows]
        rw [List.filter_eq_nil_iff]
        intro row hrow
        simp only [byGen, Bool.and_eq_true, beq_iff_eq, not_and]
        intro ha hgen
        obtain ⟨cd, hcd, hle⟩ := hg.g1 _ _ row hrow ha
        rw [entryOf_findClient hi] at hcd
        simp [attachingEntry, Client.nextGen, hcd] at hgen
        omega
      rw [this]; simp [csOf, attachingEntry]

theorem sc_start {σ : Sys} {g : Ghost} (hC : CInv σ g) (hG : GC σ) (hS : SC σ) (id : Nat) (req : Request) (lost : Bool) :
    SC { σ with srv := (startFlight σ.srv id req lost).1,
                flights := σ.flights ++ [(startFlight σ.srv id req lost).2] } := by
  have hlogs := begin_storedLog hC.d.wf req
  refine ⟨by simp only [startFlight_fst]; exact s12_start hC.d.wf hG.g hS.s req _, ?_⟩
  intro x hx ha
  simp only [List.mem_append, List.mem_singleton] at hx
  rcases hx with hx | hx
  · simp only [startFlight_fst]
    exact (hS.fl3 x hx ha).frame (by simp only [ownRows, hlogs])
  · subst hx
    rcases hb : begin σ.srv req with ⟨s1, e | f⟩
    · exfalso
      simp only [startFlight, hb] at ha
      rcases ha with ha | ⟨resp, ha⟩
      · exact ha rfl
      · simp at ha
    · simp only [startFlight, hb]
      exact ⟨fun hx => by simp at hx, fun hx => by simp [Pending, Pc.ord] at hx, fun hx => by simp [Pc.ord] at hx⟩

/-- The concurrent sequence invariant holds at every state a well-behaved run reaches. -/
theorem sc_of_wbReach {cfg : Config} {σ : Sys} {g : Ghost} (h : WbReach cfg σ g) : SC σ := by
  induction h with
  | init =>
    exact ⟨⟨fun _ _ _ _ => ⟨0, by simp [csOf, ownRows, storedLog, Server.findDoc, Server.init, Sys.init]⟩,
      fun _ _ _ _ h => by simp [entryOf, Server.init, Sys.init] at h⟩, fun r hr => by simp [Sys.init] at hr⟩
  | activate hprev ih => exact sc_activate (cinv_of_wbReach hprev) ih
  | start id req lost hprev _ _ _ ih => exact sc_start (cinv_of_wbReach hprev) (gc_of_wbReach hprev) ih id req lost
  | phase pre post r hprev h1 h2 h3 ih => exact sc_phase (cinv_of_wbReach hprev) (gc_of_wbReach hprev) ih h1 h2 h3
  | finish pre post r _ h1 h2 ih => exact sc_finish ih h1 h2

end Yorkie.Conc
