/-
Text convergence, part 5: the abstraction function `abs : TextSt → Cells` from the block list of
Model/Text.lean to the character-level state, its basic properties under the invariant `WFg`, and
"splitting a block = `splitAfter` on cells".
Core Lean only.
-/
import YorkieModel.Lemmas.TextConvSem
import YorkieModel.Lemmas.TextEdit
import YorkieModel.Lemmas.TextWFg
set_option linter.unusedSimpArgs false
namespace Yorkie.TextConv
open Yorkie Yorkie.Text

/-! ### UTF-16: what `TextValue.Split` does to a well-formed value -/

def fixLast : List Nat → List Nat
  | [] => []
  | [x] => [fixL x]
  | x :: y :: r => x :: fixLast (y :: r)

def fixHead : List Nat → List Nat
  | [] => []
  | x :: r => fixR x :: r

theorem fixUnit_eq_self_not_surr {h : Nat} (e : fixUnit h = h) : isSurr h = false := by
  have := fixUnit_not_surr h; rw [e] at this; exact this

theorem fixL_of_not_high {x : Nat} (h : isHigh x = false) : fixL x = x := by simp [fixL, h]
theorem fixR_of_not_low {x : Nat} (h : isLow x = false) : fixR x = x := by simp [fixR, h]

theorem fixL_high {x : Nat} (h : isHigh x = true) : fixL x = fixUnit x := by
  simp [fixL, h, fixUnit, isHigh_surr h]
theorem fixR_low {x : Nat} (h : isLow x = true) : fixR x = fixUnit x := by
  simp [fixR, h, fixUnit, isLow_surr h]

theorem high_not_low {x : Nat} (h : isHigh x = true) : isLow x = false := by
  cases hl : isLow x
  · rfl
  · exact absurd ⟨h, hl⟩ (high_low_excl x)
theorem low_not_high {x : Nat} (h : isLow x = true) : isHigh x = false := by
  cases hl : isHigh x
  · rfl
  · exact absurd ⟨hl, h⟩ (high_low_excl x)

theorem fixLast_cons_ne {x : Nat} {p : List Nat} (h : p ≠ []) : fixLast (x :: p) = x :: fixLast p := by
  cases p with
  | nil => exact absurd rfl h
  | cons y r => rfl

theorem fixed_tail_pair {h l : Nat} {r : List Nat} (hh : isHigh h = true) (hl : isLow l = true)
    (f : Fixed (h :: l :: r)) : Fixed r := by
  unfold Fixed at *
  rw [sanitize_pair hh hl] at f
  injection f with _ f; injection f

theorem fixed_tail_single {h : Nat} {t : List Nat} (hh : ¬ (isHigh h = true ∧ ∃ l r, t = l :: r ∧ isLow l = true))
    (f : Fixed (h :: t)) : fixUnit h = h ∧ Fixed t := by
  unfold Fixed at *
  cases t with
  | nil => simp only [sanitize] at f; injection f with f _; exact ⟨f, by simp [sanitize]⟩
  | cons l r =>
    have : ¬ (isHigh h = true ∧ isLow l = true) := fun ⟨a, b⟩ => hh ⟨a, l, r, rfl, b⟩
    unfold sanitize at f
    have hc : (isHigh h && isLow l) = false := by
      cases e : (isHigh h && isLow l)
      · rfl
      · simp only [Bool.and_eq_true] at e; exact absurd e this
    simp only [hc, Bool.false_eq_true, if_false] at f
    injection f with f1 f2
    exact ⟨f1, f2⟩

/-- the left part of a split of a well-formed value: only a trailing high surrogate changes -/
theorem sanitize_take_fixed {u : List Nat} (f : Fixed u) (k : Nat) :
    sanitize (u.take k) = fixLast (u.take k) := by
  fun_induction sanitize u generalizing k with
  | case1 => simp [sanitize, fixLast]
  | case2 h =>
    have : isSurr h = false := fixUnit_eq_self_not_surr (by
      unfold Fixed at f; simp only [sanitize] at f; injection f)
    cases k with
    | zero => simp [sanitize, fixLast]
    | succ k =>
      simp only [List.take_succ_cons, List.take_nil, sanitize, fixLast]
      rw [fixUnit_of_not_surr this, fixL_of_not_high (not_high_of_not_surr this)]
  | case3 h l r hc ih =>
    simp only [Bool.and_eq_true] at hc
    have fr := fixed_tail_pair hc.1 hc.2 f
    cases k with
    | zero => simp [sanitize, fixLast]
    | succ k =>
      cases k with
      | zero =>
        simp only [List.take_succ_cons, List.take_zero, sanitize, fixLast]
        rw [fixL_high hc.1]
      | succ k =>
        simp only [List.take_succ_cons]
        rw [sanitize_pair hc.1 hc.2, ih fr k]
        by_cases hp : r.take k = []
        · rw [hp]; simp [fixLast, fixL_of_not_high (low_not_high hc.2)]
        · rw [fixLast_cons_ne (by simp), fixLast_cons_ne hp]
  | case4 h l r hc ih =>
    have hh : ¬ (isHigh h = true ∧ ∃ l' r', l :: r = l' :: r' ∧ isLow l' = true) := by
      rintro ⟨a, l', r', e, b⟩
      injection e with e1 _; subst e1
      simp [a, b] at hc
    obtain ⟨f1, f2⟩ := fixed_tail_single hh f
    have hs := fixUnit_eq_self_not_surr f1
    cases k with
    | zero => simp [sanitize, fixLast]
    | succ k =>
      simp only [List.take_succ_cons]
      rw [sanitize_cons_not_high (not_high_of_not_surr hs), f1, ih f2 k]
      by_cases hp : (l :: r).take k = []
      · rw [hp]; simp [fixLast, fixL_of_not_high (not_high_of_not_surr hs)]
      · rw [fixLast_cons_ne hp]

theorem fixHead_fixed {u : List Nat} (f : Fixed u) : fixHead u = u := by
  cases u with
  | nil => rfl
  | cons y t => simp [fixHead, fixR_of_not_low (fixed_head_not_low f)]

/-- the right part of a split of a well-formed value: only a leading low surrogate changes -/
theorem sanitize_drop_fixed {u : List Nat} (f : Fixed u) (k : Nat) :
    sanitize (u.drop k) = fixHead (u.drop k) := by
  fun_induction sanitize u generalizing k with
  | case1 => simp [sanitize, fixHead]
  | case2 h =>
    cases k with
    | zero => rw [List.drop_zero, fixHead_fixed f]; exact f
    | succ k => simp [sanitize, fixHead]
  | case3 h l r hc ih =>
    simp only [Bool.and_eq_true] at hc
    have fr := fixed_tail_pair hc.1 hc.2 f
    cases k with
    | zero => rw [List.drop_zero, fixHead_fixed f]; exact f
    | succ k =>
      cases k with
      | zero =>
        simp only [List.drop_succ_cons, List.drop_zero]
        rw [sanitize_cons_not_high (low_not_high hc.2), fr]
        simp [fixHead, fixR_low hc.2]
      | succ k =>
        simp only [List.drop_succ_cons]
        exact ih fr k
  | case4 h l r hc ih =>
    have hh : ¬ (isHigh h = true ∧ ∃ l' r', l :: r = l' :: r' ∧ isLow l' = true) := by
      rintro ⟨a, l', r', e, b⟩
      injection e with e1 _; subst e1
      simp [a, b] at hc
    obtain ⟨f1, f2⟩ := fixed_tail_single hh f
    cases k with
    | zero => rw [List.drop_zero, fixHead_fixed f]; exact f
    | succ k =>
      simp only [List.drop_succ_cons]
      exact ih f2 k

/-! ### `mkCells` -/

theorem mkCells_append (t : Ticket) (rm : Bool) (as : AAttrs) (off : Nat) (b : Bool) (u v : List Nat) :
    mkCells t rm as off b (u ++ v) =
      mkCells t rm as off b u ++ mkCells t rm as (off + u.length) (b && u.isEmpty) v := by
  induction u generalizing off b with
  | nil => simp [mkCells]
  | cons x r ih =>
    simp only [List.cons_append, mkCells, ih, List.length_cons, List.isEmpty_cons, Bool.and_false,
      Bool.false_and]
    rw [show off + 1 + r.length = off + (r.length + 1) by omega]

theorem mem_mkCells {t : Ticket} {rm : Bool} {as : AAttrs} {off : Nat} {b : Bool} {u : List Nat}
    {c : Cell} (h : c ∈ mkCells t rm as off b u) :
    c.id.1 = t ∧ off ≤ c.id.2 ∧ c.id.2 < off + u.length ∧ c.removed = rm ∧ c.attrs = as ∧
      c.bnd = (b && decide (c.id.2 = off)) := by
  induction u generalizing off b with
  | nil => cases h
  | cons x r ih =>
    simp only [mkCells, List.mem_cons] at h
    rcases h with rfl | h
    · simp
    · obtain ⟨h1, h2, h3, h4, h5, h6⟩ := ih h
      refine ⟨h1, by omega, by simp only [List.length_cons]; omega, h4, h5, ?_⟩
      rw [h6]
      have : ¬ c.id.2 = off := by omega
      simp [this]

theorem mem_cids_mkCells {t : Ticket} {rm : Bool} {as : AAttrs} {off : Nat} {b : Bool} {u : List Nat}
    {j : Nat} (h1 : off ≤ j) (h2 : j < off + u.length) : (t, j) ∈ cids (mkCells t rm as off b u) := by
  induction u generalizing off b with
  | nil => simp at h2; omega
  | cons x r ih =>
    simp only [mkCells, cids_cons, List.mem_cons]
    by_cases e : j = off
    · left; rw [e]
    · right; exact ih (by omega) (by simp only [List.length_cons] at h2; omega)

/-- the ids only depend on ticket, first offset and length -/
theorem cids_mkCells_congr (t : Ticket) (rm rm' : Bool) (as as' : AAttrs) (off : Nat) (b b' : Bool)
    {u u' : List Nat} (h : u.length = u'.length) :
    cids (mkCells t rm as off b u) = cids (mkCells t rm' as' off b' u') := by
  induction u generalizing off b b' u' with
  | nil => cases u' with
    | nil => rfl
    | cons _ _ => simp at h
  | cons x r ih =>
    cases u' with
    | nil => simp at h
    | cons y r' =>
      simp only [mkCells, cids_cons]
      rw [ih (off + 1) false false (by simpa using h)]

theorem mkCells_last (t : Ticket) (rm : Bool) (as : AAttrs) (off : Nat) (b : Bool) {u : List Nat}
    (hu : u ≠ []) :
    ∃ ini c, mkCells t rm as off b u = ini ++ [c] ∧ c.id = (t, off + u.length - 1) ∧
      (t, off + u.length - 1) ∉ cids ini := by
  induction u generalizing off b with
  | nil => exact absurd rfl hu
  | cons x r ih =>
    by_cases hr : r = []
    · subst hr
      exact ⟨[], _, rfl, by simp, by simp⟩
    · obtain ⟨ini, c, h1, h2, h3⟩ := ih (off + 1) false hr
      refine ⟨⟨(t, off), x, rm, as, b⟩ :: ini, c, by simp [mkCells, h1], ?_, ?_⟩
      · rw [h2]; simp only [List.length_cons]
        rw [show off + 1 + r.length - 1 = off + (r.length + 1) - 1 by omega]
      · simp only [cids_cons, List.mem_cons, not_or, List.length_cons]
        have : r.length ≠ 0 := fun e => hr (List.eq_nil_of_length_eq_zero e)
        constructor
        · intro e; injection e with _ e; omega
        · rw [show off + (r.length + 1) - 1 = off + 1 + r.length - 1 by omega]; exact h3

/-- `splitCell` on the left part: only its last cell (the anchor) changes -/
theorem map_splitCell_left (t : Ticket) (rm : Bool) (as : AAttrs) (off : Nat) (b : Bool) (p : List Nat) :
    (mkCells t rm as off b p).map (splitCell (t, off + p.length - 1)) =
      mkCells t rm as off b (fixLast p) := by
  induction p generalizing off b with
  | nil => rfl
  | cons x r ih =>
    cases r with
    | nil =>
      simp only [mkCells, List.map_cons, List.map_nil, fixLast, List.length_cons, List.length_nil]
      unfold splitCell
      simp
    | cons y r' =>
      have := ih (off + 1) false
      simp only [List.length_cons] at this ⊢
      rw [show off + 1 + (r'.length + 1) - 1 = off + (r'.length + 1 + 1) - 1 by omega] at this
      simp only [mkCells, List.map_cons, fixLast] at this ⊢
      rw [this]
      congr 1
      unfold splitCell nxt
      have h1 : ¬ ((t, off) : Id) = (t, off + (r'.length + 1 + 1) - 1) := by
        intro e; injection e with _ e; omega
      have h2 : ¬ ((t, off) : Id) = (t, off + (r'.length + 1 + 1) - 1 + 1) := by
        intro e; injection e with _ e; omega
      simp only [h1, h2, if_false]

/-- cells strictly to the right of `nxt a` are untouched by `splitCell a` -/
theorem map_splitCell_far (t : Ticket) (rm : Bool) (as : AAttrs) {off j : Nat} (b : Bool) (q : List Nat)
    (h : j + 1 < off) :
    (mkCells t rm as off b q).map (splitCell (t, j)) = mkCells t rm as off b q := by
  induction q generalizing off b with
  | nil => rfl
  | cons x r ih =>
    simp only [mkCells, List.map_cons]
    rw [ih false (by omega)]
    congr 1
    unfold splitCell nxt
    have h1 : ¬ ((t, off) : Id) = (t, j) := by intro e; injection e with _ e; omega
    have h2 : ¬ ((t, off) : Id) = (t, j + 1) := by intro e; injection e with _ e; omega
    simp only [h1, h2, if_false]

/-- `splitCell` on the right part: its first cell gets the boundary -/
theorem map_splitCell_right (t : Ticket) (rm : Bool) (as : AAttrs) (off : Nat) (b : Bool) (q : List Nat)
    (hoff : 0 < off) :
    (mkCells t rm as off b q).map (splitCell (t, off - 1)) = mkCells t rm as off true (fixHead q) := by
  cases q with
  | nil => rfl
  | cons x r =>
    simp only [mkCells, List.map_cons, fixHead]
    rw [map_splitCell_far t rm as false r (by omega)]
    congr 1
    unfold splitCell nxt
    have h1 : ¬ ((t, off) : Id) = (t, off - 1) := by intro e; injection e with _ e; omega
    have h2 : ((t, off) : Id) = (t, off - 1 + 1) := by rw [show off - 1 + 1 = off by omega]
    rw [if_neg h1, if_pos h2]

/-! ### the abstraction -/

def normAttr (n : AttrNode) : AAttr := ⟨if n.removed then "" else n.val, n.updatedAt, n.removed⟩

def normAttrs (as : List AttrNode) : AAttrs := fun k => (attrGet as k).map normAttr

def nodeAttrs (n : TNode) : AAttrs := if n.removedAt.isSome then AAttrs.empty else normAttrs n.attrs

def absNode (n : TNode) : Cells := mkCells n.id.1 n.removedAt.isSome (nodeAttrs n) n.id.2 true n.units

/-- the character-level view of a block list (the empty initial head contributes nothing) -/
def abs : TextSt → Cells
  | [] => []
  | n :: r => absNode n ++ abs r

@[simp] theorem abs_nil : abs [] = [] := rfl
theorem abs_cons (n : TNode) (r : TextSt) : abs (n :: r) = absNode n ++ abs r := rfl

theorem abs_append (a b : TextSt) : abs (a ++ b) = abs a ++ abs b := by
  induction a with
  | nil => rfl
  | cons n r ih => simp only [List.cons_append, abs_cons, ih, List.append_assoc]

theorem mem_abs {s : TextSt} {c : Cell} : c ∈ abs s ↔ ∃ n ∈ s, c ∈ absNode n := by
  induction s with
  | nil => simp
  | cons n r ih => simp [abs_cons, ih]

theorem abs_map_congr {s : TextSt} {h : TNode → TNode} (hh : ∀ n ∈ s, absNode (h n) = absNode n) :
    abs (s.map h) = abs s := by
  induction s with
  | nil => rfl
  | cons n r ih =>
    simp only [List.map_cons, abs_cons]
    rw [hh n (by simp), ih (fun m hm => hh m (List.mem_cons_of_mem _ hm))]

theorem mem_absNode {n : TNode} {c : Cell} (h : c ∈ absNode n) :
    c.id.1 = n.id.1 ∧ n.id.2 ≤ c.id.2 ∧ c.id.2 < n.id.2 + n.len ∧
      c.bnd = decide (c.id.2 = n.id.2) := by
  obtain ⟨h1, h2, h3, _, _, h6⟩ := mem_mkCells h
  exact ⟨h1, h2, h3, by simpa using h6⟩

theorem mem_cids_absNode {n : TNode} {j : Nat} (h1 : n.id.2 ≤ j) (h2 : j < n.id.2 + n.len) :
    (n.id.1, j) ∈ cids (absNode n) := mem_cids_mkCells h1 h2

/-- under the invariant a cell belongs to exactly one block -/
theorem block_unique {s : TextSt} (wf : WFg s) {n m : TNode} (hn : n ∈ s) (hm : m ∈ s)
    {t : Ticket} {j : Nat} (h1 : n.id.1 = t) (h2 : n.id.2 ≤ j) (h3 : j < n.id.2 + n.len)
    (k1 : m.id.1 = t) (k2 : m.id.2 ≤ j) (k3 : j < m.id.2 + m.len) : n = m := by
  apply eq_of_id_eq wf.nodup hn hm
  apply Prod.ext (h1.trans k1.symm)
  show n.id.2 = m.id.2
  rcases Nat.lt_trichotomy n.id.2 m.id.2 with h | h | h
  · have := wf.disjoint n hn m hm (h1.trans k1.symm) h; omega
  · exact h
  · have := wf.disjoint m hm n hn (k1.trans h1.symm) h; omega

/-- the block containing a cell -/
theorem block_of_cell {s : TextSt} {i : Id} (h : i ∈ cids (abs s)) :
    ∃ n ∈ s, n.id.1 = i.1 ∧ n.id.2 ≤ i.2 ∧ i.2 < n.id.2 + n.len := by
  obtain ⟨c, hc, e⟩ := List.mem_map.1 h
  obtain ⟨n, hn, hcn⟩ := mem_abs.1 hc
  obtain ⟨h1, h2, h3, _⟩ := mem_absNode hcn
  rw [e] at h1 h2 h3
  exact ⟨n, hn, h1.symm, h2, h3⟩

/-! ### splitting a block -/

theorem hasOpen_iff {q : Id} {l : Cells} : hasOpen q l = true ↔ ∃ c ∈ l, c.id = q ∧ c.bnd = false := by
  unfold hasOpen
  simp only [List.any_eq_true, Bool.and_eq_true, decide_eq_true_eq, Bool.not_eq_true']

theorem splitCell_other {a : Id} {c : Cell} (h1 : c.id ≠ a) (h2 : c.id ≠ nxt a) : splitCell a c = c := by
  unfold splitCell; rw [if_neg h1, if_neg h2]

theorem absNode_splitMap_other {n m : TNode} (k : Nat) (h : m.id ≠ n.id) :
    absNode (splitMap n k m) = absNode m := by
  unfold absNode nodeAttrs
  rw [splitMap_units, if_neg h]
  simp only [splitMap_id, splitMap_removedAt, splitMap_attrs]

theorem mem_split {s : TextSt} {n : TNode} (hn : n ∈ s) : ∃ A C, s = A ++ n :: C :=
  List.append_of_mem hn

/-- cells of other blocks are neither the anchor nor its successor -/
theorem map_splitCell_others {s : TextSt} (wf : WFg s) {n : TNode} (hn : n ∈ s) {B : TextSt}
    (hB : ∀ m ∈ B, m ∈ s ∧ m.id ≠ n.id) {j : Nat} (h1 : n.id.2 ≤ j) (h2 : j + 1 < n.id.2 + n.len) :
    (abs B).map (splitCell (n.id.1, j)) = abs B := by
  rw [List.map_congr_left (g := id)]
  · simp
  · intro c hc
    obtain ⟨m, hm, hcm⟩ := mem_abs.1 hc
    obtain ⟨e1, e2, e3, _⟩ := mem_absNode hcm
    apply splitCell_other
    · intro e
      have : m = n := block_unique wf (hB m hm).1 hn (t := n.id.1) (j := j)
        (by rw [← e1, e]) (by rw [e] at e2; exact e2) (by rw [e] at e3; exact e3) rfl h1 (by omega)
      exact (hB m hm).2 (by rw [this])
    · intro e
      have e' : c.id = (n.id.1, j + 1) := e
      have : m = n := block_unique wf (hB m hm).1 hn (t := n.id.1) (j := j + 1)
        (by rw [← e1, e']) (by rw [e'] at e2; exact e2) (by rw [e'] at e3; exact e3) rfl (by omega) h2
      exact (hB m hm).2 (by rw [this])

/-- **splitting a block is `splitAfter` on cells** -/
theorem abs_splitNode {s : TextSt} (wf : WFg s) {n : TNode} (hn : n ∈ s) {k : Nat} (h0 : 0 < k)
    (hk : k < n.len) : abs (splitNode s n k) = splitAfter (n.id.1, n.id.2 + k - 1) (abs s) := by
  obtain ⟨A, C, hs⟩ := mem_split hn
  have hnd := wf.nodup
  rw [hs] at hnd
  obtain ⟨hnA, hnC, hAne, hCne⟩ := nodup_decomp hnd
  have hu : n.units = n.units.take k ++ n.units.drop k := (List.take_append_drop k n.units).symm
  have hlen : (n.units.take k).length = k := by
    rw [List.length_take]; unfold TNode.len at hk; omega
  have hne : (n.units.take k).isEmpty = false := by
    cases h : n.units.take k with
    | nil => rw [h] at hlen; simp at hlen; omega
    | cons _ _ => rfl
  have hnode : absNode n =
      mkCells n.id.1 n.removedAt.isSome (nodeAttrs n) n.id.2 true (n.units.take k) ++
      mkCells n.id.1 n.removedAt.isSome (nodeAttrs n) (n.id.2 + k) false (n.units.drop k) := by
    unfold absNode
    conv => lhs; rw [hu]
    rw [mkCells_append, hlen, hne]; rfl
  -- left-hand side
  have hL : abs (splitNode s n k) = abs A ++
      (mkCells n.id.1 n.removedAt.isSome (nodeAttrs n) n.id.2 true (fixLast (n.units.take k)) ++
       mkCells n.id.1 n.removedAt.isSome (nodeAttrs n) (n.id.2 + k) true (fixHead (n.units.drop k))) ++
      abs C := by
    rw [hs, splitNode_append hnA h0 hk, abs_append, abs_cons, abs_cons,
      abs_map_congr (fun m hm => absNode_splitMap_other k (hAne m hm)),
      abs_map_congr (fun m hm => absNode_splitMap_other k (hCne m hm))]
    have e1 : absNode (splitMap n k n) =
        mkCells n.id.1 n.removedAt.isSome (nodeAttrs n) n.id.2 true (fixLast (n.units.take k)) := by
      unfold absNode nodeAttrs
      rw [splitMap_units, if_pos rfl, sanitize_take_fixed (wf.fixed n hn)]
      simp only [splitMap_id, splitMap_removedAt, splitMap_attrs]
    have e2 : absNode (rightPart n k) =
        mkCells n.id.1 n.removedAt.isSome (nodeAttrs n) (n.id.2 + k) true (fixHead (n.units.drop k)) := by
      unfold absNode nodeAttrs rightPart
      simp only
      rw [sanitize_drop_fixed (wf.fixed n hn)]
    rw [e1, e2]; simp only [List.append_assoc]
  -- right-hand side
  have hopen : hasOpen (nxt (n.id.1, n.id.2 + k - 1)) (abs s) = true := by
    have hq : n.units.drop k ≠ [] := by
      intro e
      have := congrArg List.length e
      rw [List.length_drop] at this; unfold TNode.len at hk; simp at this; omega
    cases hq' : n.units.drop k with
    | nil => exact absurd hq' hq
    | cons x r =>
      rw [hasOpen_iff]
      refine ⟨⟨(n.id.1, n.id.2 + k), x, n.removedAt.isSome, nodeAttrs n, false⟩, ?_, ?_, rfl⟩
      · rw [hs, abs_append, abs_cons, hnode, hq']
        simp [mkCells]
      · show (n.id.1, n.id.2 + k) = (n.id.1, n.id.2 + k - 1 + 1)
        rw [show n.id.2 + k - 1 + 1 = n.id.2 + k by omega]
  have hB : ∀ B : TextSt, (∀ m ∈ B, m ∈ s ∧ m.id ≠ n.id) →
      (abs B).map (splitCell (n.id.1, n.id.2 + k - 1)) = abs B :=
    fun B hB => map_splitCell_others wf hn hB (by omega) (by omega)
  unfold splitAfter
  rw [if_pos hopen, hL]
  conv => rhs; rw [hs]
  rw [abs_append, abs_cons, List.map_append, List.map_append, hnode, List.map_append,
    hB A (fun m hm => ⟨by rw [hs]; exact List.mem_append_left _ hm, hAne m hm⟩),
    hB C (fun m hm => ⟨by rw [hs]; exact List.mem_append_right _ (List.mem_cons_of_mem _ hm), hCne m hm⟩)]
  have l1 := map_splitCell_left n.id.1 n.removedAt.isSome (nodeAttrs n) n.id.2 true (n.units.take k)
  rw [hlen] at l1
  have l2 := map_splitCell_right n.id.1 n.removedAt.isSome (nodeAttrs n) (n.id.2 + k) false
    (n.units.drop k) (by omega)
  rw [show n.id.2 + k - 1 = n.id.2 + k - 1 from rfl] at l2
  rw [l1, l2]
  simp only [List.append_assoc]

end Yorkie.TextConv
