/-
The server's replay (`OpSourceReplay`, `needsReverseInfo = false`) and a client's application of a remote
operation (`OpSourceRemote`, `needsReverseInfo = true`) differ only in the pre-edit index computation that
`Tree.Edit` performs for the reverse info (`ToIndex(fromParent, fromLeft)`), which can fail but never
changes the tree: whenever the client-side application succeeds, the replay yields the same tree.
-/
import YorkieModel.Model.TreeDoc
namespace Yorkie.Tree
open Yorkie

theorem edit_rev_irrelevant (t : Tree) (fr to : Pos) (cs : List Ptr) (sl : Nat) (ts : Ticket) (src : TickSrc)
    (vv : VV) (r : Tree × TickSrc) (h : t.edit fr to cs sl ts src vv true = .ok r) :
    t.edit fr to cs sl ts src vv false = .ok r := by
  unfold Tree.edit at h ⊢
  cases h1 : t.findNodesSplit fr ts false with
  | error e => simp [h1] at h
  | ok x =>
    obtain ⟨t1, fp, fl⟩ := x
    simp only [h1] at h ⊢
    cases h2 : t1.findNodesSplit to ts false with
    | error e => simp [h2] at h
    | ok y =>
      obtain ⟨t2, tp, tl⟩ := y
      simp only [h2] at h ⊢
      cases h3 : t2.toIndex fp (if (fl != fp) = true then t2.advance fl vv else fl) false with
      | error e =>
        simp only [h3, if_true] at h
        cases h
      | ok i =>
        simp only [h3, if_true, Bool.false_eq_true, if_false] at h ⊢
        exact h

theorem applyEdit_rev_irrelevant (t : Tree) (fr to : Pos) (cs : List (List Flat)) (sl : Nat) (ts : Ticket)
    (src : TickSrc) (vv : VV) (r : Tree × TickSrc) (h : t.applyEdit fr to cs sl ts src vv true = .ok r) :
    t.applyEdit fr to cs sl ts src vv false = .ok r := by
  unfold Tree.applyEdit at h ⊢
  simp only at h ⊢
  generalize List.foldl _ _ cs = alloc at h ⊢
  cases alloc with
  | error e => cases h
  | ok x =>
    obtain ⟨t1, ps⟩ := x
    simp only at h ⊢
    exact edit_rev_irrelevant _ _ _ _ _ _ _ _ _ h

/-- `operations.TreeEdit/TreeStyle.Execute`: a replay gives what the remote application gives -/
theorem applyOp_rev_irrelevant (t : Tree) (op : Op) (vv : VV) (r : Tree) (h : t.applyOp op vv true = .ok r) :
    t.applyOp op vv false = .ok r := by
  cases op with
  | style fr to arg ts => exact h
  | edit fr to cs sl ts st =>
    unfold Tree.applyOp at h ⊢
    simp only at h ⊢
    split at h
    · cases h
    · rename_i t' s' heq
      rw [applyEdit_rev_irrelevant _ _ _ _ _ _ _ _ _ heq]
      exact h

end Yorkie.Tree
