/-
C18, text level, part A3: the content pieces `Marshal` prints raw – integers, double
literals, base64 and date payloads – are inert for the pre-pass; the dedup-counter token
is rewritten by the regexp as intended.  Core Lean only.
-/
import YorkieModel.Lemmas.YsonQuoteInert
namespace Yorkie.Yson

/-! ### digits -/

theorem natDigitsAux_all : ∀ (fuel n : Nat) (acc : Str), acc.all isDigit = true →
    (natDigitsAux fuel n acc).all isDigit = true
  | 0, _, _, h => h
  | fuel + 1, n, acc, h => by
    simp only [natDigitsAux]
    split
    · rename_i hn
      simp only [List.all_cons, h, Bool.and_true, isDigit, Bool.and_eq_true, decide_eq_true_eq]
      omega
    · apply natDigitsAux_all
      simp only [List.all_cons, h, Bool.and_true, isDigit, Bool.and_eq_true, decide_eq_true_eq]
      omega

theorem natDigitsAux_ne_nil : ∀ (fuel n : Nat) (acc : Str), acc ≠ [] → natDigitsAux fuel n acc ≠ []
  | 0, _, _, h => h
  | fuel + 1, n, acc, _ => by
    simp only [natDigitsAux]
    split
    · simp
    · exact natDigitsAux_ne_nil fuel _ _ (by simp)

theorem natDigits_all (n : Nat) : (natDigits n).all isDigit = true := natDigitsAux_all _ _ _ rfl

theorem natDigits_ne_nil (n : Nat) : natDigits n ≠ [] := by
  simp only [natDigits, natDigitsAux]
  split
  · simp
  · exact natDigitsAux_ne_nil _ _ _ (by simp)

/-- characters of number literals, base64 and dates: never a parenthesis -/
def quietChar (c : Nat) : Bool := c != 40 && c != 41

theorem isDigit_quiet {c : Nat} (h : isDigit c = true) : quietChar c = true ∧ patChar c = false := by
  simp only [isDigit, Bool.and_eq_true, decide_eq_true_eq] at h
  simp only [quietChar, patChar, Bool.and_eq_true, bne_iff_ne, ne_eq, Bool.or_eq_false_iff,
    Bool.and_eq_false_iff, decide_eq_false_iff_not, Nat.not_le, beq_eq_false_iff_ne]
  omega

theorem inert_of_quiet {s : Str} (hq : s.all quietChar = true) (ht : endsTerm s = true) : inertAll s = true :=
  inert_of_parenFree (fun c hc => by
    have := (List.all_eq_true.mp hq) c hc
    simpa [quietChar] using this) ht

theorem endsTerm_of_all : ∀ {s : Str}, s.all (fun c => !patChar c) = true → endsTerm s = true
  | [], _ => rfl
  | [c], h => by simpa [endsTerm] using h
  | _ :: c :: r, h => by
    simp only [List.all_cons, Bool.and_eq_true] at h
    simp only [endsTerm]
    exact endsTerm_of_all (by simp [h.2.1, h.2.2])

theorem digits_quiet {s : Str} (h : s.all isDigit = true) :
    s.all quietChar = true ∧ s.all (fun c => !patChar c) = true := by
  constructor
  · exact List.all_eq_true.mpr (fun c hc => (isDigit_quiet ((List.all_eq_true.mp h) c hc)).1)
  · exact List.all_eq_true.mpr (fun c hc => by simp [(isDigit_quiet ((List.all_eq_true.mp h) c hc)).2])

theorem showInt_inert (n : Int) : inertAll (showInt n) = true := by
  cases n with
  | ofNat m =>
    have := digits_quiet (natDigits_all m)
    exact inert_of_quiet this.1 (endsTerm_of_all this.2)
  | negSucc m =>
    have := digits_quiet (natDigits_all (m + 1))
    apply inert_of_quiet
    · simp only [showInt, List.all_cons, this.1, Bool.and_true]; decide
    · apply endsTerm_of_all
      simp only [showInt, List.all_cons, this.2, Bool.and_true]; decide

/-! ### base64 and date payloads: never a quote or a backslash -/

theorem b64Encode_forall {P : Nat → Prop} (hch : ∀ n, P (b64Char n)) (hpad : P 61) :
    ∀ (bs : List Nat) (c : Nat), c ∈ b64Encode bs → P c := by
  intro bs
  induction bs using b64Encode.induct with
  | case1 => intro c hc; simp [b64Encode] at hc
  | case2 a =>
    intro c hc
    simp only [b64Encode, List.mem_cons, List.not_mem_nil, or_false] at hc
    rcases hc with rfl | rfl | rfl | rfl
    · exact hch _
    · exact hch _
    · exact hpad
    · exact hpad
  | case3 a b =>
    intro c hc
    simp only [b64Encode, List.mem_cons, List.not_mem_nil, or_false] at hc
    rcases hc with rfl | rfl | rfl | rfl
    · exact hch _
    · exact hch _
    · exact hch _
    · exact hpad
  | case4 a b c' r ih =>
    intro c hc
    simp only [b64Encode, List.mem_cons] at hc
    rcases hc with rfl | rfl | rfl | rfl | h
    · exact hch _
    · exact hch _
    · exact hch _
    · exact hch _
    · exact ih c h

theorem b64Char_raw (n : Nat) : keyNeedsEscape (b64Char n) = false := by
  simp only [b64Char]
  split
  · simp [keyNeedsEscape]; omega
  · split
    · simp [keyNeedsEscape]; omega
    · split
      · simp [keyNeedsEscape]; omega
      · split <;> simp [keyNeedsEscape]

theorem b64_raw (bs : List Nat) : (b64Encode bs).any keyNeedsEscape = false :=
  List.any_eq_false.mpr (fun c hc => by
    have := b64Encode_forall (P := fun c => keyNeedsEscape c = false) b64Char_raw (by decide) bs c hc
    simp [this])

theorem date_raw {t : Str} (h : dateValid t = true) : t.any keyNeedsEscape = false := by
  simp only [dateValid, Bool.and_eq_true] at h
  apply List.any_eq_false.mpr
  intro c hc
  have := (List.all_eq_true.mp h.1) c hc
  simp only [dateChar, isDigit, Bool.or_eq_true, Bool.and_eq_true, decide_eq_true_eq, beq_iff_eq] at this
  simp only [keyNeedsEscape, Bool.or_eq_true, beq_iff_eq, decide_eq_true_eq]
  omega

/-- a raw string without quote, backslash or control character is a complete literal body -/
theorem litBody_of_raw {s : Str} (h : s.any keyNeedsEscape = false) : litBody s = true :=
  litBody_of_clean (fun c hc => by
    have := (List.any_eq_false.mp h) c hc
    simp only [keyNeedsEscape, Bool.or_eq_true, beq_iff_eq, decide_eq_true_eq] at this
    omega)

theorem b64Encode_quiet (bs : List Nat) : (b64Encode bs).all quietChar = true :=
  List.all_eq_true.mpr (fun c hc => by
    have := (List.any_eq_false.mp (b64_raw bs)) c hc
    have h43 : quietChar c = true := b64Encode_forall (P := fun c => quietChar c = true)
      (by
        intro n
        simp only [b64Char, quietChar]
        split
        · simp; omega
        · split
          · simp; omega
          · split
            · simp; omega
            · split <;> simp) (by decide) bs c hc
    exact h43)

/-! ### double literals (`isJsonNumber`) -/

def numChar (c : Nat) : Bool := isDigit c || c == 45 || c == 43 || c == 46 || c == 101 || c == 69

theorem numChar_quiet {c : Nat} (h : numChar c = true) : quietChar c = true := by
  simp only [numChar, Bool.or_eq_true, beq_iff_eq] at h
  rcases h with (((((h | h) | h) | h) | h) | h)
  · exact (isDigit_quiet h).1
  all_goals subst h; decide

theorem takeDigits_fst_all : ∀ (s : Str), (takeDigits s).1.all isDigit = true
  | [] => rfl
  | c :: r => by
    simp only [takeDigits]
    split
    · rename_i h; simp [h, takeDigits_fst_all r]
    · rfl

theorem endsTerm_append {x y : Str} (hy : y ≠ []) (h : endsTerm y = true) : endsTerm (x ++ y) = true := by
  induction x with
  | nil => simpa using h
  | cons a x ih =>
    cases hxy : x ++ y with
    | nil => simp_all
    | cons b t =>
      rw [hxy] at ih
      simpa [endsTerm, hxy] using ih

/-- non-empty, number characters only, last character a digit -/
def DigitEnd (s : Str) : Prop := s ≠ [] ∧ s.all numChar = true ∧ endsTerm s = true

theorem DigitEnd.append {x y : Str} (hx : DigitEnd x) (hy : y = [] ∨ DigitEnd y) : DigitEnd (x ++ y) := by
  rcases hy with rfl | hy
  · simpa using hx
  · exact ⟨by simp [hx.1], by simp [List.all_append, hx.2.1, hy.2.1], endsTerm_append hy.1 hy.2.2⟩

theorem DigitEnd.prepend {x y : Str} (hx : x.all numChar = true) (hy : DigitEnd y) : DigitEnd (x ++ y) :=
  ⟨by simp [hy.1], by simp [List.all_append, hx, hy.2.1], endsTerm_append hy.1 hy.2.2⟩

theorem digitEnd_of_digits {ds : Str} (h : ds.all isDigit = true) (hne : ds ≠ []) : DigitEnd ds :=
  ⟨hne, List.all_eq_true.mpr (fun c hc => by simp [numChar, (List.all_eq_true.mp h) c hc]),
   endsTerm_of_all (digits_quiet h).2⟩

theorem jInt_digitEnd {s ip r : Str} (h : jInt s = some (ip, r)) : DigitEnd ip := by
  cases s with
  | nil => simp [jInt] at h
  | cons c t =>
    simp only [jInt] at h
    split at h
    · simp only [Option.some.injEq, Prod.mk.injEq] at h
      rw [← h.1]; exact digitEnd_of_digits (by decide) (by simp)
    · split at h
      · rename_i hd
        simp only [Option.some.injEq] at h
        have h1 : ip = (takeDigits (c :: t)).1 := by rw [h]
        rw [h1]
        refine digitEnd_of_digits (takeDigits_fst_all _) ?_
        simp [takeDigits, hd]
      · simp at h

theorem jFrac_digitEnd {s fp r : Str} (h : jFrac s = some (fp, r)) : fp = [] ∨ DigitEnd fp := by
  cases s with
  | nil => simp only [jFrac, Option.some.injEq, Prod.mk.injEq] at h; exact Or.inl h.1.symm
  | cons c t =>
    simp only [jFrac] at h
    split at h
    · split at h
      · simp at h
      · rename_i hne
        simp only [Option.some.injEq, Prod.mk.injEq] at h
        right
        rw [← h.1]
        have : DigitEnd (takeDigits t).1 :=
          digitEnd_of_digits (takeDigits_fst_all t) (by intro h0; simp [h0] at hne)
        exact DigitEnd.prepend (x := [46]) (by decide) this
    · simp only [Option.some.injEq, Prod.mk.injEq] at h; exact Or.inl h.1.symm

theorem jExpSign_all (s : Str) : (jExpSign s).1.all numChar = true := by
  cases s with
  | nil => rfl
  | cons c t =>
    simp only [jExpSign]
    split
    · rename_i hc
      simp only [Bool.or_eq_true, beq_iff_eq] at hc
      rcases hc with rfl | rfl <;> simp [numChar]
    · rfl

theorem jExp_digitEnd {s ep r : Str} (h : jExp s = some (ep, r)) : ep = [] ∨ DigitEnd ep := by
  cases s with
  | nil => simp only [jExp, Option.some.injEq, Prod.mk.injEq] at h; exact Or.inl h.1.symm
  | cons c t =>
    simp only [jExp] at h
    split at h
    · rename_i hc
      split at h
      · simp at h
      · rename_i hne
        simp only [Option.some.injEq, Prod.mk.injEq] at h
        right
        rw [← h.1]
        have hd : DigitEnd (takeDigits (jExpSign t).2).1 :=
          digitEnd_of_digits (takeDigits_fst_all _) (by intro h0; simp [h0] at hne)
        have hc' : numChar c = true := by
          simp only [Bool.or_eq_true, beq_iff_eq] at hc
          rcases hc with rfl | rfl <;> decide
        have := DigitEnd.prepend (x := [c] ++ (jExpSign t).1) (by simp [hc', jExpSign_all]) hd
        simpa using this
    · simp only [Option.some.injEq, Prod.mk.injEq] at h; exact Or.inl h.1.symm

theorem jSign_all (s : Str) : (jSign s).1.all numChar = true := by
  unfold jSign
  split <;> rfl

theorem jNumber_digitEnd {s a r : Str} (h : jNumber s = some (a, r)) : DigitEnd a := by
  simp only [jNumber] at h
  split at h
  · simp at h
  · rename_i ip s2 hi
    split at h
    · simp at h
    · rename_i fp s3 hf
      split at h
      · simp at h
      · rename_i ep s4 he
        simp only [Option.some.injEq, Prod.mk.injEq] at h
        rw [← h.1]
        have h1 := DigitEnd.prepend (jSign_all s) (jInt_digitEnd hi)
        have h2 := DigitEnd.append h1 (jFrac_digitEnd hf)
        exact DigitEnd.append h2 (jExp_digitEnd he)

theorem isJsonNumber_spec {t : Str} (h : isJsonNumber t = true) : jNumber t = some (t, []) := by
  simp only [isJsonNumber] at h
  split at h
  · rename_i a heq
    have : a = t := by simpa using h
    subst this; exact heq
  · simp at h

theorem dbl_inert {t : Str} (h : isJsonNumber t = true) : inertAll t = true := by
  have hd := jNumber_digitEnd (isJsonNumber_spec h)
  exact inert_of_quiet (List.all_eq_true.mpr (fun c hc => numChar_quiet ((List.all_eq_true.mp hd.2.1) c hc))) hd.2.2

end Yorkie.Yson
