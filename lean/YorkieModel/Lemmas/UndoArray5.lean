/-
Lemmas for C14, part 14: arrays of leaves at depth k, the alphabet.  `GoodOp2` (executable `Add` of a
leaf behind a visible element or at the head, `Remove` of a visible leaf), the abstract effect
`aexec2`, the recorded reverse `inv2` and the renaming `fullRen` that `ReconcileCreatedAt` applies
to the stacked operations.
-/
import YorkieModel.Lemmas.UndoArray4
namespace Yorkie.Undo
open Yorkie Yorkie.Crdt

/-- side conditions of an `Add` of a leaf value (identity `val.id`, not live) into the live, reachable
    plain array `p` with visible list `l`, behind the visible element `prev` or at the head -/
structure GoodAdd (H : Home) (tw : Ticket → Bool) (d : Doc) (p prev : Ticket) (val : UVal)
    (l : List Ticket) : Prop where
  hp : absNode d p = some (.arr l)
  horph : orphaned d tw orphanFuel p = false
  hprev : prev = headId ∨ prev ∈ l
  hleaf : leafBody val.body = true
  hsub : val.sub = []
  hrem : val.removed = false
  hpar : H.par val.id = some p
  htw : tw val.id = false
  hdead : absNode d val.id = none
  hnc : skel d val.id = none
  hnh : val.id ≠ headId

/-- side conditions of a `Remove` of the visible leaf `u` of the live, reachable array `p` -/
structure GoodDel (tw : Ticket → Bool) (d : Doc) (p u : Ticket) (l : List Ticket) : Prop where
  hp : absNode d p = some (.arr l)
  horph : orphaned d tw orphanFuel p = false
  hmem : u ∈ l
  hleaf : ∃ b, absNode d u = some b ∧ b.isLeaf = true
  htw : tw u = false

/-- operations of the array alphabet that are executable on `d` -/
def GoodOp2 (H : Home) (tw : Ticket → Bool) (d : Doc) : UOp → Prop
  | .add p prev val _ => ∃ l, GoodAdd H tw d p prev val l
  | .remove p u _ => ∃ l, GoodDel tw d p u l
  | _ => False

def aexec2 (A : AHeap) : UOp → AHeap
  | .add p prev val _ => aadd A p prev val.id (absLeaf val.body)
  | .remove p u _ => adel A p u
  | _ => A

/-- the reverse operation of `r` executed on `Y`, in the identities of `Y` -/
def inv2 (Y : Doc) : UOp → UOp
  | .add p _ val ts => .remove p val.id ts
  | .remove p u ts =>
    match absNode Y p, Y u with
    | some (.arr l), some ue => .add p (predOf u l) (leafCopy u ue) ts
    | _, _ => .remove p u ts
  | op => op

/-- what `ReconcileCreatedAt` does to a stacked operation, iterated: anchors, targets (and the identity
    of a value that waits for its re-insertion) are renamed -/
def fullRen (ρ : Ticket → Ticket) : UOp → UOp
  | .add p prev v ts => .add (ρ p) (ρ prev) { v with id := ρ v.id } ts
  | .remove p u ts => .remove (ρ p) (ρ u) ts
  | .move p prev target ts => .move (ρ p) (ρ prev) (ρ target) ts
  | .arraySet p target v ts => .arraySet (ρ p) (ρ target) v ts
  | .set p k v ts => .set (ρ p) k v ts
  | .increase p dl ts => .increase (ρ p) dl ts

/-- the container (counter) an operation acts on: what the repaired `ReconcileCreatedAt` rewrites too -/
def UOp.par : UOp → Ticket
  | .add p _ _ _ => p
  | .remove p _ _ => p
  | .move p _ _ _ => p
  | .arraySet p _ _ _ => p
  | .set p _ _ _ => p
  | .increase p _ _ => p

/-- the identities an operation refers to are not later than `N` -/
def idBound2 : UOp → Int → Prop
  | .add _ prev v _, N => prev.lamport ≤ N ∧ v.id.lamport ≤ N
  | .remove _ u _, N => u.lamport ≤ N
  | .move _ prev target _, N => prev.lamport ≤ N ∧ target.lamport ≤ N
  | .arraySet _ target _ _, N => target.lamport ≤ N
  | _, _ => True

theorem idBound2_mono {op : UOp} {N N' : Int} (h : idBound2 op N) (hl : N ≤ N') : idBound2 op N' := by
  cases op <;> simp only [idBound2] at h ⊢
  · exact ⟨by omega, by omega⟩
  · exact ⟨by omega, by omega⟩
  · omega
  · omega

/-- the identity of the value of an `Add` (what the re-insertion will rename) -/
def addId? : UOp → Option Ticket
  | .add _ _ v _ => some v.id
  | _ => none

/-- one `ReconcileCreatedAt` step `ρ u ↦ b` on a renamed recorded operation is the renaming updated at
    `u`, unless the operation is itself an `Add` of `u` -/
theorem reconcileOp_fullRen {ρ : Ticket → Ticket} {N : Int} (inj : InjOn ρ N) {u b : Ticket}
    (hu : u.lamport ≤ N) {r : UOp} (hi : idBound2 r N) (hpb : r.par.lamport ≤ N) (hne : addId? r ≠ some u) :
    reconcileOp (ρ u) b (fullRen ρ r) = fullRen (fun t => if t = u then b else ρ t) r := by
  have key : ∀ x : Ticket, x.lamport ≤ N → Undo.rw (ρ u) b (ρ x) = if x = u then b else ρ x := by
    intro x hx
    unfold Undo.rw
    by_cases h : x = u
    · simp [h]
    · have : ρ x ≠ ρ u := fun he => h (inj x u hx hu he)
      simp [h, this]
  cases r with
  | add p prev v ts =>
    have hv : v.id ≠ u := fun h => hne (by simp [addId?, h])
    simp only [fullRen, reconcileOp_add, key prev hi.1, key p hpb, hv, if_false]
  | remove p t ts => simp only [fullRen, reconcileOp_remove, key t hi, key p hpb]
  | move p prev target ts => simp only [fullRen, reconcileOp_move, key prev hi.1, key target hi.2, key p hpb]
  | arraySet p target v ts => simp only [fullRen, reconcileOp_arraySet, key target hi, key p hpb]
  | set p k v ts => simp only [fullRen, reconcileOp_set, key p hpb]
  | increase p dl ts => simp only [fullRen, reconcileOp_increase, key p hpb]

theorem fullRen_id (op : UOp) : fullRen id op = op := by
  cases op <;> rfl

theorem absNode_arr_par {H : Home} {d : Doc} {p c : Ticket} {l : List Ticket} (w : WF H d)
    (hp : absNode d p = some (.arr l)) (hc : c ∈ l) : H.par c = some p := by
  obtain ⟨pe, nodes, moved, hd, hr, hb, rfl⟩ := absNode_arr hp
  obtain ⟨n, hn, hne, _⟩ := mem_ll.1 hc
  exact w.arrMem _ _ _ _ _ _ hd hr hb hn hne

theorem absNode_arr_plain {d : Doc} {N : Int} {p : Ticket} {l : List Ticket} (pl : PlainArrs d N)
    (hp : absNode d p = some (.arr l)) : l.Nodup ∧ headId ∉ l ∧ ∀ c ∈ l, c.lamport ≤ N := by
  obtain ⟨pe, nodes, moved, hd, _, hb, rfl⟩ := absNode_arr hp
  have pa := pl _ _ _ _ hd hb
  exact ⟨pa.ll_nodup d, pa.ll_nohead d, fun c hc => pa.ll_bound hc⟩

theorem absNode_isContainer_arr {d : Doc} {p : Ticket} {l : List Ticket}
    (h : absNode d p = some (.arr l)) : isContainer d p = true := by
  obtain ⟨pe, nodes, moved, hd, _, hb, _⟩ := absNode_arr h
  simp [isContainer, hd, hb]

/-- the recorded reverse is executable on the recorded result and leads back -/
theorem inv2_good {H : Home} {tw : Ticket → Bool} {Y X : Doc} {N : Int} {r : UOp} (wY : WF H Y) (wX : WF H X)
    (plY : PlainArrs Y N) (hs : ∀ t, skel X t = skel Y t) (g : GoodOp2 H tw Y r)
    (hX : absNode X = aexec2 (absNode Y) r) :
    GoodOp2 H tw X (inv2 Y r) ∧ absNode Y = aexec2 (absNode X) (inv2 Y r) ∧
    (0 ≤ N → idBound2 r N → idBound2 (inv2 Y r) N) := by
  cases r with
  | add p prev val ts =>
    obtain ⟨l, g⟩ := g
    obtain ⟨hn, hh, hb⟩ := absNode_arr_plain plY g.hp
    have hul : val.id ∉ l := fun hm => absNode_closed Y p _ _ g.hp hm g.hdead
    have hpu : p ≠ val.id := by intro h; have := g.hp; rw [h, g.hdead] at this; cases this
    simp only [aexec2] at hX
    have hXp : absNode X p = some (.arr (insAfterV prev val.id l)) := by
      rw [hX]; simp [aadd, g.hp, hpu]
    have hXu : absNode X val.id = some (absLeaf val.body) := by
      rw [hX]; simp [aadd, g.hp]
    refine ⟨⟨_, ⟨hXp, ?_, (mem_insAfterV g.hprev).2 (Or.inl rfl), ⟨_, hXu, absLeaf_isLeaf g.hleaf⟩, g.htw⟩⟩, ?_, ?_⟩
    · rw [← orphaned_of_skel wY wX (fun t => (hs t).symm) tw _ _ (absNode_isContainer_arr g.hp)]; exact g.horph
    · simp only [inv2, aexec2]
      rw [hX, adel_aadd g.hp g.hdead hn hul g.hprev]
    · intro _ hi; exact hi.2
  | remove p u ts =>
    obtain ⟨l, g⟩ := g
    obtain ⟨hn, hh, hb⟩ := absNode_arr_plain plY g.hp
    obtain ⟨b, hbu, hbl⟩ := g.hleaf
    obtain ⟨ue, hue, hur, hul, hbeq⟩ := absNode_leaf hbu hbl
    have hpu : p ≠ u := by
      intro h; subst h; rw [g.hp] at hbu; injection hbu with hbu; subst hbu; simp [ABody.isLeaf] at hbl
    have hnc : skel Y u = none :=
      skel_none_iff.2 (fun e he => by rw [hue] at he; injection he with he; subst he; exact hul)
    simp only [aexec2] at hX
    have hXp : absNode X p = some (.arr (eraseV u l)) := by
      rw [hX]; simp [adel, g.hp, hpu]
    have hXu : absNode X u = none := by
      rw [hX]; simp [adel, g.hp]
    have hinv : inv2 Y (.remove p u ts) = .add p (predOf u l) (leafCopy u ue) ts := by
      simp only [inv2, g.hp, hue]
    rw [hinv]
    refine ⟨⟨_, ⟨hXp, ?_, ?_, hul, rfl, rfl, absNode_arr_par wY g.hp g.hmem, g.htw, hXu, ?_, ?_⟩⟩, ?_, ?_⟩
    · rw [← orphaned_of_skel wY wX (fun t => (hs t).symm) tw _ _ (absNode_isContainer_arr g.hp)]; exact g.horph
    · exact predOf_mem hn g.hmem
    · rw [hs]; exact hnc
    · exact fun hx => hh (hx ▸ g.hmem)
    · simp only [aexec2, leafCopy]
      rw [hX, aadd_adel g.hp (hbeq ▸ hbu) hn hh g.hmem hpu]
    · intro h0 hi
      refine ⟨?_, hi⟩
      rcases predOf_mem hn g.hmem with h | h
      · rw [h]; exact h0
      · exact hb _ (mem_eraseV.1 h).1
  | set => exact g.elim
  | move => exact g.elim
  | arraySet => exact g.elim
  | increase => exact g.elim

/-! ### redo is undo with the stacks swapped -/

def Hist.flip (h : Hist) : Hist := { h with undo := h.redo, redo := h.undo }

theorem Hist.flip_flip (h : Hist) : h.flip.flip = h := by cases h; rfl

theorem reticketGo_flip (fx : Bool) : ∀ (ops : List UOp) (h : Hist) (i : Nat) (ren : List (Ticket × Ticket)),
    reticketGo fx h.flip i ren ops = ((reticketGo fx h i ren ops).1.flip, (reticketGo fx h i ren ops).2)
  | [], _, _, _ => rfl
  | op0 :: rest, h, i, ren => by
    cases hop : applyRen fx ren op0 with
    | add p prev v ts =>
      have ih := reticketGo_flip fx rest (h.reconcileW fx v.id ⟨h.lamport + 1, i, h.actor⟩) (i + 1)
        (ren ++ [(v.id, ⟨h.lamport + 1, i, h.actor⟩)])
      simp only [reticketGo, hop]
      rw [show h.flip.reconcileW fx v.id ⟨h.flip.lamport + 1, i, h.flip.actor⟩ =
        (h.reconcileW fx v.id ⟨h.lamport + 1, i, h.actor⟩).flip from rfl,
        show h.flip.lamport = h.lamport from rfl, show h.flip.actor = h.actor from rfl, ih]
    | arraySet p target v ts =>
      have ih := reticketGo_flip fx rest
        (if fx then (h.reconcileW fx target ⟨h.lamport + 1, i, h.actor⟩).reconcileW fx v.id ⟨h.lamport + 1, i, h.actor⟩
          else h.reconcileW fx target ⟨h.lamport + 1, i, h.actor⟩) (i + 1)
        (ren ++ [(target, ⟨h.lamport + 1, i, h.actor⟩), (v.id, ⟨h.lamport + 1, i, h.actor⟩)])
      simp only [reticketGo, hop]
      rw [show (if fx then (h.flip.reconcileW fx target ⟨h.flip.lamport + 1, i, h.flip.actor⟩).reconcileW fx v.id
            ⟨h.flip.lamport + 1, i, h.flip.actor⟩
          else h.flip.reconcileW fx target ⟨h.flip.lamport + 1, i, h.flip.actor⟩) =
        (if fx then (h.reconcileW fx target ⟨h.lamport + 1, i, h.actor⟩).reconcileW fx v.id ⟨h.lamport + 1, i, h.actor⟩
          else h.reconcileW fx target ⟨h.lamport + 1, i, h.actor⟩).flip from by cases fx <;> rfl,
        show h.flip.lamport = h.lamport from rfl, show h.flip.actor = h.actor from rfl, ih]
    | set p k v ts =>
      have ih := reticketGo_flip fx rest h (i + 1) ren
      simp only [reticketGo, hop]
      rw [ih]; rfl
    | move p prev target ts =>
      have ih := reticketGo_flip fx rest h (i + 1) ren
      simp only [reticketGo, hop]
      rw [ih]; rfl
    | remove p target ts =>
      have ih := reticketGo_flip fx rest h (i + 1) ren
      simp only [reticketGo, hop]
      rw [ih]; rfl
    | increase p dl ts =>
      have ih := reticketGo_flip fx rest h (i + 1) ren
      simp only [reticketGo, hop]
      rw [ih]; rfl

theorem reticket_flip (ops : List UOp) (h : Hist) (i : Nat) :
    reticket h.flip i ops = ((reticket h i ops).1.flip, (reticket h i ops).2) :=
  reticketGo_flip _ ops h i []

theorem undoRedo_flip (h : Hist) :
    undoRedo h false = ((undoRedo h.flip true).1.flip, (undoRedo h.flip true).2) := by
  cases hr : h.redo with
  | nil =>
    have h1 : undoRedo h false = (h, .nothing) := by simp [undoRedo_eq, hr]
    have h2 : undoRedo h.flip true = (h.flip, .nothing) := by
      have : h.flip.undo = [] := hr
      simp [undoRedo_eq, this]
    rw [h1, h2, Hist.flip_flip]
  | cons entry rest =>
    have hu : h.flip.undo = entry :: rest := hr
    by_cases he : entry.isEmpty = true
    · have h1 : undoRedo h false = ({ h with redo := rest }, .nothing) := by simp [undoRedo_eq, hr, he]
      have h2 : undoRedo h.flip true = ({ h.flip with undo := rest }, .nothing) := by simp [undoRedo_eq, hu, he]
      rw [h1, h2]; cases h; rfl
    · have hf : ({ h.flip with undo := rest } : Hist) = ({ h with redo := rest } : Hist).flip := by cases h; rfl
      have hrf := reticket_flip entry { h with redo := rest } 1
      simp only [undoRedo_eq, Bool.false_eq_true, if_false, if_true, hr, hu, he]
      rw [hf, hrf]
      cases hrt : reticket { h with redo := rest } 1 entry with
      | mk h1 ops =>
        simp only []
        rw [show h1.flip.doc = h1.doc from rfl, show h1.flip.tw = h1.tw from rfl]
        by_cases hfail : (runOps .undoRedo { doc := h1.doc, tw := h1.tw } ops).failed = true
        · simp only [hfail, if_true]
          rw [Hist.flip_flip]
        · simp only [hfail, Bool.false_eq_true, if_false]
          by_cases hrev : (runOps .undoRedo { doc := h1.doc, tw := h1.tw } ops).revs.reverse.isEmpty = true <;>
          by_cases hex : (runOps .undoRedo { doc := h1.doc, tw := h1.tw } ops).executed.isEmpty = true <;>
          simp only [hrev, hex, if_true, if_false, Bool.false_eq_true] <;> (cases h1; rfl)

theorem redo_eq_flip (h : Hist) : redo h = (undo h.flip).flip := by
  unfold redo undo
  rw [undoRedo_flip]

end Yorkie.Undo
