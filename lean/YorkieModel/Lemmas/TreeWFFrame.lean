/-
Frame facts: which parent pointers a link mutator may change, and that no mutator shrinks the arena.
`Keeps t t'`: the arena did not shrink and every node that was detached (`parent = none`) in `t` still is.
-/
import YorkieModel.Lemmas.TreeWFMove
namespace Yorkie.Tree
open Yorkie

def Keeps (t t' : Tree) : Prop :=
  t.size ≤ t'.size ∧ ∀ q, q < t.size → (t.get q).parent = none → (t'.get q).parent = none

theorem Keeps.refl (t : Tree) : Keeps t t := ⟨Nat.le_refl _, fun _ _ h => h⟩

theorem Keeps.trans {a b c : Tree} (h1 : Keeps a b) (h2 : Keeps b c) : Keeps a c :=
  ⟨Nat.le_trans h1.1 h2.1, fun q hq hp => h2.2 q (Nat.lt_of_lt_of_le hq h1.1) (h1.2 q hq hp)⟩

theorem Keeps.of_sameLinks {a b : Tree} (h : SameLinks a b) : Keeps a b :=
  ⟨Nat.le_of_eq h.1.symm, fun q _ hp => by rw [h.parent]; exact hp⟩

theorem SameLinks.addLens (t : Tree) (c : Ptr) : SameLinks t (t.addLens c) := by
  unfold Tree.addLens
  exact (SameLinks.updAnc _ _ _ _ _).trans (SameLinks.updAnc _ _ _ _ _)

theorem SameLinks.removeNode (t : Tree) (n : Ptr) (ts : Ticket) : SameLinks t (t.removeNode n ts) := by
  unfold Tree.removeNode
  split
  · exact (SameLinks.modify _ _ _ (by intro _; rfl)).trans (SameLinks.updAnc _ _ _ _ _)
  · split
    · exact SameLinks.modify _ _ _ (by intro _; rfl)
    · exact SameLinks.refl _

theorem SameLinks.foldl {α} {g : Tree → α → Tree} (hg : ∀ t a, SameLinks t (g t a)) :
    ∀ (l : List α) (t : Tree), SameLinks t (l.foldl g t)
  | [], t => SameLinks.refl t
  | a :: r, t => (hg t a).trans (SameLinks.foldl hg r (g t a))

/-- linking `new` under `n` (any of the insert functions): only `new`'s parent changes -/
theorem link_parent (t : Tree) (n new : Ptr) (l : List Ptr) (w : t.WF) (hn : n < t.size) (hnew : new < t.size) (q : Ptr)
    (hq : q ≠ new) : (((t.setChildren' n l).setParent new (some n)).get q).parent = (t.get q).parent := by
  have := (get_link t n new l (w.size_eq ▸ hn) (w.size_eq ▸ hnew) q).2.1
  simpa [hq] using this

theorem insertAtInternal_parent (t : Tree) (n new : Ptr) (off : Nat) (w : t.WF) (hn : n < t.size) (hnew : new < t.size)
    (q : Ptr) (hq : q ≠ new) : ((t.insertAtInternal n new off).get q).parent = (t.get q).parent := by
  unfold Tree.insertAtInternal
  exact link_parent t n new _ w hn hnew q hq

theorem insertAt_keeps {t t' : Tree} (w : t.WF) (n new : Ptr) (off : Nat) (hn : n < t.size) (hnew : new < t.size)
    (h : t.insertAt n new off = .ok t') : t'.size = t.size ∧ ∀ q, q ≠ new → (t'.get q).parent = (t.get q).parent := by
  unfold Tree.insertAt at h
  split at h
  · cases h
  · cases h
    have sl := SameLinks.addLens (t.insertAtInternal n new off) new
    exact ⟨sl.1, fun q hq => by rw [sl.parent]; exact insertAtInternal_parent t n new off w hn hnew q hq⟩

theorem insertAfter_keeps {t t' : Tree} (w : t.WF) (n new ref : Ptr) (hn : n < t.size) (hnew : new < t.size)
    (h : t.insertAfter n new ref = .ok t') : t'.size = t.size ∧ ∀ q, q ≠ new → (t'.get q).parent = (t.get q).parent := by
  unfold Tree.insertAfter at h
  split at h
  · cases h
  · split at h
    · cases h
    · rename_i _ o _
      cases h
      have sl := SameLinks.addLens (t.insertAtInternal n new (o + 1)) new
      exact ⟨sl.1, fun q hq => by rw [sl.parent]; exact insertAtInternal_parent t n new _ w hn hnew q hq⟩

theorem insertBefore_keeps {t t' : Tree} (w : t.WF) (n new ref : Ptr) (hn : n < t.size) (hnew : new < t.size)
    (h : t.insertBefore n new ref = .ok t') : t'.size = t.size ∧ ∀ q, q ≠ new → (t'.get q).parent = (t.get q).parent := by
  unfold Tree.insertBefore at h
  split at h
  · cases h
  · split at h
    · cases h
    · rename_i _ o _
      cases h
      have sl := SameLinks.addLens (t.insertAtInternal n new o) new
      exact ⟨sl.1, fun q hq => by rw [sl.parent]; exact insertAtInternal_parent t n new _ w hn hnew q hq⟩

theorem insertAfterInternal_keeps {t t' : Tree} (w : t.WF) (n new prev : Ptr) (hn : n < t.size) (hnew : new < t.size)
    (h : t.insertAfterInternal n new prev = .ok t') : t'.size = t.size ∧ ∀ q, q ≠ new → (t'.get q).parent = (t.get q).parent := by
  unfold Tree.insertAfterInternal at h
  split at h
  · cases h
  · split at h
    · cases h
    · cases h
      exact ⟨rfl, fun q hq => link_parent t n new _ w hn hnew q hq⟩

/-- the length bookkeeping of `DetachChild` -/
def detachLens (t1 : Tree) (child : Ptr) : Tree :=
  let t2 := Yorkie.Tree.updAnc t1.fuel t1 (t1.parentOf child) (-(t1.padded child false)) false
  Yorkie.Tree.updAnc t2.fuel t2 (t2.parentOf child) (-(t2.padded child true)) true

theorem SameLinks.detachLens (t1 : Tree) (child : Ptr) : SameLinks t1 (detachLens t1 child) := by
  unfold Yorkie.Tree.detachLens
  exact (SameLinks.updAnc _ _ _ _ _).trans (SameLinks.updAnc _ _ _ _ _)

theorem detachChild_eq (t : Tree) (n child : Ptr) :
    t.detachChild n child =
      if t.isText n then .error .textNode else
      match idxOf (t.get n).children child with
      | none => .error .childNotFound
      | some o => .ok ((detachLens (t.setChildren' n (eraseNth (t.get n).children o)) child).setParent child none) := rfl

/-- `DetachChild`: only `child`'s parent changes, and it becomes `none` -/
theorem detachChild_keeps {t t' : Tree} (w : t.WF) (n child : Ptr) (h : t.detachChild n child = .ok t') :
    t'.size = t.size ∧ (∀ q, q ≠ child → (t'.get q).parent = (t.get q).parent) ∧ (t'.get child).parent = none := by
  rw [detachChild_eq] at h
  split at h
  · cases h
  · split at h
    · cases h
    · rename_i _ o ho
      cases h
      have hin := idxOf_mem ho
      have hc : child < t.size := w.child_lt n child hin
      have sl := SameLinks.detachLens (t.setChildren' n (eraseNth (t.get n).children o)) child
      refine ⟨sl.1, ?_, ?_⟩
      · intro q hq
        unfold Tree.setParent
        rw [get_modify_ne _ _ _ _ hq, sl.parent]
        unfold Tree.setChildren'
        rw [get_modify]; split <;> rfl
      · unfold Tree.setParent
        exact congrArg TNode.parent (get_modify_same _ child _ (by rw [sl.2.1]; simp [Tree.setChildren']; exact w.size_eq ▸ hc))

end Yorkie.Tree
