/-
Helper lemmas for Model/Server.lean, part 2: exact characterisation of each phase of `pushPull`
on its success path, the chain of intermediate states of a successful `pushPull`, and what a
failing `pushPull` can have changed.
-/
import YorkieModel.Lemmas.Server
namespace Yorkie.Server
open Yorkie

theorem validateClientSeq_ok {s s' : Server} {f f' : Flight} (h : validateClientSeq s f = (s', .ok f')) :
    s' = s ∧ f' = f ∧
    seqsContinuous (f.info.checkpoint f.doc).clientSeq ((f.info.checkpoint f.doc).clientSeq + 1) f.pack.changes = true := by
  unfold validateClientSeq at h
  split at h
  · next hc => injection h with h1 h2; injection h2 with h2; exact ⟨h1.symm, h2.symm, hc⟩
  · injection h with _ h2; simp at h2

/-- the flight after phase 01 -/
def stripped (f : Flight) : Flight :=
  if f.disablePresence then { f with pack := { f.pack with changes := stripChanges f.pack.changes } } else f

theorem stripPresence_eq (s : Server) (f : Flight) : stripPresence s f = (s, .ok (stripped f)) := by
  unfold stripPresence stripped
  split <;> rfl

@[simp] theorem stripped_client (f : Flight) : (stripped f).client = f.client := by unfold stripped; split <;> rfl
@[simp] theorem stripped_doc (f : Flight) : (stripped f).doc = f.doc := by unfold stripped; split <;> rfl
@[simp] theorem stripped_info (f : Flight) : (stripped f).info = f.info := by unfold stripped; split <;> rfl
@[simp] theorem stripped_pushOnly (f : Flight) : (stripped f).pushOnly = f.pushOnly := by unfold stripped; split <;> rfl
@[simp] theorem stripped_status (f : Flight) : (stripped f).status = f.status := by unfold stripped; split <;> rfl
@[simp] theorem stripped_disableGC (f : Flight) : (stripped f).disableGC = f.disableGC := by unfold stripped; split <;> rfl
@[simp] theorem stripped_dp (f : Flight) : (stripped f).disablePresence = f.disablePresence := by
  unfold stripped; split <;> rfl
@[simp] theorem stripped_cp (f : Flight) : (stripped f).pack.cp = f.pack.cp := by unfold stripped; split <;> rfl
@[simp] theorem stripped_vv (f : Flight) : (stripped f).pack.vv = f.pack.vv := by unfold stripped; split <;> rfl
@[simp] theorem stripped_isRemoved (f : Flight) : (stripped f).pack.isRemoved = f.pack.isRemoved := by
  unfold stripped; split <;> rfl
theorem stripped_changes (f : Flight) :
    (stripped f).pack.changes = if f.disablePresence then stripChanges f.pack.changes else f.pack.changes := by
  unfold stripped; split <;> rfl

/-- the document as `CreateChangeInfos` leaves it -/
def pushedDoc (doc : Doc) (f : Flight) (pushables : List ChangeReq) : Doc :=
  { doc with
    log := doc.log ++ (assignSeqs (f.info.genOf f.doc) doc.serverSeq (f.info.checkpoint f.doc) pushables).1,
    serverSeq := (assignSeqs (f.info.genOf f.doc) doc.serverSeq (f.info.checkpoint f.doc) pushables).2.1,
    removed := doc.removed || f.pack.isRemoved }

/-- the flight after phase 02 -/
def pushedFlight (doc : Doc) (f : Flight) (pushables : List ChangeReq) : Flight :=
  { f with
    pushed := (assignSeqs (f.info.genOf f.doc) doc.serverSeq (f.info.checkpoint f.doc) pushables).1,
    docInfo := pushedDoc doc f pushables,
    initialSeq := (assignSeqs (f.info.genOf f.doc) doc.serverSeq (f.info.checkpoint f.doc) pushables).2.1
      - (assignSeqs (f.info.genOf f.doc) doc.serverSeq (f.info.checkpoint f.doc) pushables).1.length,
    cpAfterPush := (assignSeqs (f.info.genOf f.doc) doc.serverSeq (f.info.checkpoint f.doc) pushables).2.2 }

theorem pushPack_ok {s s' : Server} {f f' : Flight} (h : pushPack s f = (s', .ok f')) :
    ∃ doc pushables, s.findDoc f.doc = some doc ∧ pushGuard s f = .ok pushables ∧
      s' = s.setDoc f.doc (pushedDoc doc f pushables) ∧ f' = pushedFlight doc f pushables := by
  unfold pushPack at h
  split at h
  · injection h with _ h2; simp at h2
  · next pushables hg =>
    unfold createChangeInfos at h
    split at h
    · injection h with _ h2; simp at h2
    · next doc hd =>
      dsimp only at h
      injection h with h1 h2; injection h2 with h2
      exact ⟨doc, pushables, hd, hg, h1.symm, h2.symm⟩

theorem pushPack_error {s s' : Server} {f : Flight} {e} (h : pushPack s f = (s', .error e)) : s' = s := by
  unfold pushPack at h
  split at h
  · injection h with h1 _; exact h1.symm
  · unfold createChangeInfos at h
    split at h
    · injection h with h1 _; exact h1.symm
    · dsimp only at h; injection h with _ h2; simp at h2

theorem pushedFlight_initialSeq (doc : Doc) (f : Flight) (p : List ChangeReq) :
    (pushedFlight doc f p).initialSeq = doc.serverSeq := by
  have sp := assignSeqs_spec (f.info.genOf f.doc) doc.serverSeq (f.info.checkpoint f.doc) p
  simp only [] at sp
  obtain ⟨_, q2, q3, _⟩ := sp
  simp only [pushedFlight]
  rw [q2, q3]; omega

theorem pushedDoc_serverSeq (doc : Doc) (f : Flight) (p : List ChangeReq) :
    (pushedDoc doc f p).serverSeq = doc.serverSeq + p.length :=
  (assignSeqs_spec (f.info.genOf f.doc) doc.serverSeq (f.info.checkpoint f.doc) p).2.1

theorem pushedDoc_ext (doc : Doc) (f : Flight) (p : List ChangeReq) : DocExt doc (pushedDoc doc f p) := by
  have sp := assignSeqs_spec (f.info.genOf f.doc) doc.serverSeq (f.info.checkpoint f.doc) p
  simp only [] at sp
  obtain ⟨q1, q2, q3, _⟩ := sp
  refine ⟨⟨_, rfl, q1, ?_⟩, rfl, rfl, rfl, ?_⟩
  · simp only [pushedDoc]; rw [q2, q3]
  · intro hr; simp [pushedDoc, hr]

theorem preparePack_ok {s s' : Server} {f f' : Flight} (h : preparePack s f = (s', .ok f')) :
    s' = s ∧ ∃ r, pullPackResp s f = .ok r ∧ f' = { f with resp := { r with isRemoved := f.docInfo.removed } } := by
  unfold preparePack at h
  split at h
  · injection h with _ h2; simp at h2
  · next r hr => injection h with h1 h2; injection h2 with h2; exact ⟨h1.symm, r, hr, h2.symm⟩

theorem updateDocStatus_ok {s s' : Server} {f f' : Flight} (h : updateDocStatus s f = (s', .ok f')) :
    s' = s ∧ ∃ i, f.info.updateDocStatus f.doc f.status f.resp.cp = .ok i ∧ f' = { f with info := i } := by
  unfold updateDocStatus at h
  split at h
  · injection h with _ h2; simp at h2
  · next i hi => injection h with h1 h2; injection h2 with h2; exact ⟨h1.symm, i, hi, h2.symm⟩

/-- the flight after phase 03c -/
def minVVFlight (s5 : Server) (f : Flight) : Flight :=
  if f.disableGC then { f with resp := { f.resp with minVV := none } }
  else if f.resp.snapshot then f
  else { f with resp := { f.resp with minVV := some (getMinVV s5 f.doc f.pack.vv) } }

@[simp] theorem minVVFlight_client (s5 : Server) (f : Flight) : (minVVFlight s5 f).client = f.client := by
  unfold minVVFlight; split
  · rfl
  · split <;> rfl
@[simp] theorem minVVFlight_doc (s5 : Server) (f : Flight) : (minVVFlight s5 f).doc = f.doc := by
  unfold minVVFlight; split
  · rfl
  · split <;> rfl
@[simp] theorem minVVFlight_info (s5 : Server) (f : Flight) : (minVVFlight s5 f).info = f.info := by
  unfold minVVFlight; split
  · rfl
  · split <;> rfl
@[simp] theorem minVVFlight_cp (s5 : Server) (f : Flight) : (minVVFlight s5 f).resp.cp = f.resp.cp := by
  unfold minVVFlight; split
  · rfl
  · split <;> rfl
@[simp] theorem minVVFlight_changes (s5 : Server) (f : Flight) : (minVVFlight s5 f).resp.changes = f.resp.changes := by
  unfold minVVFlight; split
  · rfl
  · split <;> rfl
@[simp] theorem minVVFlight_isRemoved (s5 : Server) (f : Flight) : (minVVFlight s5 f).resp.isRemoved = f.resp.isRemoved := by
  unfold minVVFlight; split
  · rfl
  · split <;> rfl
@[simp] theorem minVVFlight_snapshot (s5 : Server) (f : Flight) : (minVVFlight s5 f).resp.snapshot = f.resp.snapshot := by
  unfold minVVFlight; split
  · rfl
  · split <;> rfl

theorem updateMinVV_ok {s s' : Server} {f f' : Flight} (h : updateMinVV s f = (s', .ok f')) :
    f' = minVVFlight s' f ∧
    ((f.disableGC = true ∧ s' = s) ∨ (f.disableGC = false ∧ updateVersionVector s f = .ok s')) := by
  unfold updateMinVV at h
  split at h
  · next hg =>
    injection h with h1 h2; injection h2 with h2
    refine ⟨?_, Or.inl ⟨hg, h1.symm⟩⟩
    unfold minVVFlight; rw [if_pos hg]; exact h2.symm
  · next hg =>
    split at h
    · injection h with _ h2; simp at h2
    · next s1 hs =>
      injection h with h1 h2; injection h2 with h2
      subst h1
      refine ⟨?_, Or.inr ⟨by simpa using hg, hs⟩⟩
      unfold minVVFlight; rw [if_neg hg]; exact h2.symm

theorem updateMinVV_error {s s' : Server} {f : Flight} {e} (h : updateMinVV s f = (s', .error e)) :
    s' = s ∧ ∃ e', f.info.isAttached f.doc = .error e' := by
  unfold updateMinVV at h
  split at h
  · injection h with _ h2; simp at h2
  · split at h
    · next e1 hs =>
      injection h with h1 _
      refine ⟨h1.symm, ?_⟩
      unfold updateVersionVector at hs
      split at hs
      · next e' he => exact ⟨e', he⟩
      · split at hs
        · simp at hs
        · split at hs <;> simp at hs
    · injection h with _ h2; simp at h2

theorem persistClientInfo_ok {s s' : Server} {f f' : Flight} (h : persistClientInfo s f = (s', .ok f')) :
    f' = f ∧ ∃ cd loaded, f.info.docs.get? f.doc = some cd ∧ s.findClient f.client = some loaded ∧
      s' = s.setClient f.client { loaded with docs := loaded.docs.set f.doc (persistEntry cd loaded f.doc) } := by
  unfold persistClientInfo at h
  split at h
  · injection h with _ h2; simp at h2
  · next cd hcd =>
    split at h
    · injection h with _ h2; simp at h2
    · next loaded hl =>
      injection h with h1 h2; injection h2 with h2
      exact ⟨h2.symm, cd, loaded, hcd, hl, h1.symm⟩

theorem persistClientInfo_error {s s' : Server} {f : Flight} {e} (h : persistClientInfo s f = (s', .error e)) :
    s' = s ∧ (f.info.docs.get? f.doc = none ∨ s.findClient f.client = none) := by
  unfold persistClientInfo at h
  split at h
  · next hn => injection h with h1 _; exact ⟨h1.symm, Or.inl hn⟩
  · split at h
    · next hn => injection h with h1 _; exact ⟨h1.symm, Or.inr hn⟩
    · injection h with _ h2; simp at h2

/-- the intermediate states of a successful `PushPull` -/
structure Chain (s : Server) (f : Flight) (s' : Server) (f' : Flight) where
  doc : Doc
  pushables : List ChangeReq
  r : Resp
  info' : Client
  s5 : Server
  cd : ClientDoc
  loaded : Client
  continuous : seqsContinuous (f.info.checkpoint f.doc).clientSeq ((f.info.checkpoint f.doc).clientSeq + 1) f.pack.changes = true
  hdoc : s.findDoc f.doc = some doc
  guard : pushGuard s (stripped f) = .ok pushables
  pull : pullPackResp (s.setDoc f.doc (pushedDoc doc (stripped f) pushables)) (pushedFlight doc (stripped f) pushables) = .ok r
  status : f.info.updateDocStatus f.doc f.status r.cp = .ok info'
  vv : (f.disableGC = true ∧ s5 = s.setDoc f.doc (pushedDoc doc (stripped f) pushables)) ∨
       (f.disableGC = false ∧
        updateVersionVector (s.setDoc f.doc (pushedDoc doc (stripped f) pushables))
          { pushedFlight doc (stripped f) pushables with
            resp := { r with isRemoved := (pushedDoc doc (stripped f) pushables).removed }, info := info' } = .ok s5)
  hcd : info'.docs.get? f.doc = some cd
  hloaded : s5.findClient f.client = some loaded
  final : s' = s5.setClient f.client { loaded with docs := loaded.docs.set f.doc (persistEntry cd loaded f.doc) }
  flight : f' = minVVFlight s5 { pushedFlight doc (stripped f) pushables with
            resp := { r with isRemoved := (pushedDoc doc (stripped f) pushables).removed }, info := info' }

theorem pushPull_ok {s s' : Server} {f f' : Flight} (h : pushPull s f = (s', .ok f')) :
    Nonempty (Chain s f s' f') := by
  unfold pushPull at h
  obtain ⟨s6, f6, h, h7⟩ := andThen_ok h
  obtain ⟨s5, f5, h, h6⟩ := andThen_ok h
  obtain ⟨s4, f4, h, h5⟩ := andThen_ok h
  obtain ⟨s3, f3, h, h4⟩ := andThen_ok h
  obtain ⟨s2, f2, h, h3⟩ := andThen_ok h
  obtain ⟨s1, f1, h1, h2⟩ := andThen_ok h
  obtain ⟨e1, e2, hc⟩ := validateClientSeq_ok h1
  subst e1; subst e2
  rw [stripPresence_eq] at h2
  injection h2 with e1 e2; injection e2 with e2
  subst e1; subst e2
  obtain ⟨doc, pushables, hd, hg, e1, e2⟩ := pushPack_ok h3
  simp only [stripped_doc] at hd e1
  subst e1; subst e2
  obtain ⟨e1, r, hr, e2⟩ := preparePack_ok h4
  subst e1; subst e2
  obtain ⟨e1, i, hi, e2⟩ := updateDocStatus_ok h5
  subst e1; subst e2
  obtain ⟨e2, hv⟩ := updateMinVV_ok h6
  subst e2
  obtain ⟨e2, cd, loaded, hcd, hl, e3⟩ := persistClientInfo_ok h7
  subst e2
  refine ⟨{ doc := doc, pushables := pushables, r := r, info' := i, s5 := s6, cd := cd, loaded := loaded,
            continuous := hc, hdoc := hd, guard := hg, pull := hr, status := ?_, vv := ?_, hcd := ?_,
            hloaded := ?_, final := ?_, flight := rfl }⟩
  · simpa [pushedFlight] using hi
  · simpa [pushedFlight] using hv
  · simpa [pushedFlight] using hcd
  · simpa [pushedFlight] using hl
  · simpa [pushedFlight] using e3


/-! ### `UpdateDocStatus` on the in-flight copy -/

theorem ensureAttachedOrAttaching_ok {i : Client} {d : DocId} (h : i.ensureAttachedOrAttaching d = .ok ()) :
    i.activated = true ∧ (i.statusOf d = some .attached ∨ i.statusOf d = some .attaching) := by
  unfold Client.ensureAttachedOrAttaching at h
  split at h
  · simp at h
  · next ha =>
    split at h
    · next hs =>
      refine ⟨by simpa using ha, ?_⟩
      simp only [Bool.or_eq_true, beq_iff_eq] at hs
      exact hs
    · simp at h

theorem statusOf_some {i : Client} {d : DocId} {st : DocStatus} (h : i.statusOf d = some st) :
    ∃ cd, i.docs.get? d = some cd ∧ cd.status = st := by
  unfold Client.statusOf at h
  cases hg : i.docs.get? d with
  | none => simp [hg] at h
  | some cd => simp [hg] at h; exact ⟨cd, rfl, h⟩

theorem statusOf_of_get? {i : Client} {d : DocId} {cd : ClientDoc} (h : i.docs.get? d = some cd) :
    i.statusOf d = some cd.status := by
  simp [Client.statusOf, h]

/-- what `UpdateDocStatus` does when it succeeds (`cd` = the entry before) -/
def StatusPost (st : ReqStatus) (i i' : Client) (d : DocId) (cd : ClientDoc) (cp : Checkpoint) : Prop :=
  match st with
  | .attached => i'.docs = i.docs.set d { cd with serverSeq := cp.serverSeq, clientSeq := cp.clientSeq }
  | .detached => i.activated = true ∧ (cd.status = .attached ∨ cd.status = .attaching) ∧
      i'.docs = i.docs.set d { cd with status := .detached, clientSeq := 0, serverSeq := 0 }
  | .removed => i.activated = true ∧ (cd.status = .attached ∨ cd.status = .attaching) ∧
      i'.docs = i.docs.set d { cd with status := .removed, clientSeq := 0, serverSeq := 0 }

theorem updateDocStatus_spec {i i' : Client} {d : DocId} {st : ReqStatus} {cp : Checkpoint}
    (h : i.updateDocStatus d st cp = .ok i') :
    ∃ cd, i.docs.get? d = some cd ∧ i'.activated = i.activated ∧ StatusPost st i i' d cd cp := by
  cases st with
  | attached =>
    simp only [Client.updateDocStatus, Client.updateCheckpoint] at h
    split at h
    · simp at h
    · next cd hcd => injection h with h; subst h; exact ⟨cd, hcd, rfl, rfl⟩
  | detached =>
    simp only [Client.updateDocStatus, Client.detachDocument] at h
    split at h
    · simp at h
    · next he =>
      obtain ⟨ha, hs⟩ := ensureAttachedOrAttaching_ok he
      injection h with h; subst h
      rcases hs with hs | hs <;> obtain ⟨cd, hcd, hst⟩ := statusOf_some hs
      · exact ⟨cd, hcd, by simp [Client.closeDoc, hcd], ha, Or.inl hst, by simp [Client.closeDoc, hcd]⟩
      · exact ⟨cd, hcd, by simp [Client.closeDoc, hcd], ha, Or.inr hst, by simp [Client.closeDoc, hcd]⟩
  | removed =>
    simp only [Client.updateDocStatus, Client.removeDocument] at h
    split at h
    · simp at h
    · next he =>
      obtain ⟨ha, hs⟩ := ensureAttachedOrAttaching_ok he
      injection h with h; subst h
      rcases hs with hs | hs <;> obtain ⟨cd, hcd, hst⟩ := statusOf_some hs
      · exact ⟨cd, hcd, by simp [Client.closeDoc, hcd], ha, Or.inl hst, by simp [Client.closeDoc, hcd]⟩
      · exact ⟨cd, hcd, by simp [Client.closeDoc, hcd], ha, Or.inr hst, by simp [Client.closeDoc, hcd]⟩

theorem updateDocStatus_entry {i i' : Client} {d : DocId} {st : ReqStatus} {cp : Checkpoint}
    (h : i.updateDocStatus d st cp = .ok i') : ∃ cd, i'.docs.get? d = some cd := by
  obtain ⟨cd, _, _, hm⟩ := updateDocStatus_spec h
  cases st <;> simp only [StatusPost] at hm
  · exact ⟨_, by rw [hm]; exact AL.get?_set_self _ _ _⟩
  · exact ⟨_, by rw [hm.2.2]; exact AL.get?_set_self _ _ _⟩
  · exact ⟨_, by rw [hm.2.2]; exact AL.get?_set_self _ _ _⟩

theorem updateVersionVector_clients {s s' : Server} {f : Flight} (h : updateVersionVector s f = .ok s') :
    s'.clients = s.clients := by
  unfold updateVersionVector at h
  split at h
  · simp at h
  · split at h
    · injection h with h; subst h; rfl
    · split at h <;> injection h with h <;> subst h <;> rfl

/-- A failing `PushPull` (for a client that exists in the store) has changed nothing but, possibly,
the pushed rows / removed flag of its document: the push phase runs before everything that can
still reject. -/
theorem pushPull_error {s s' : Server} {f : Flight} {e : ErrKind} {loaded : Client}
    (h : pushPull s f = (s', .error e)) (hc : s.findClient f.client = some loaded) :
    s' = s ∨ ∃ doc pushables, s.findDoc f.doc = some doc ∧ pushGuard s (stripped f) = .ok pushables ∧
      s' = s.setDoc f.doc (pushedDoc doc (stripped f) pushables) ∧
      ((pullPackResp s' (pushedFlight doc (stripped f) pushables) = .error e) ∨
       (∃ r, pullPackResp s' (pushedFlight doc (stripped f) pushables) = .ok r ∧
          f.info.updateDocStatus f.doc f.status r.cp = .error e)) := by
  unfold pushPull at h
  rcases andThen_cases h with ⟨e7, h, he7⟩ | ⟨s6, f6, h, h7⟩
  rotate_left
  · -- persist fails: impossible
    exfalso
    obtain ⟨s5, f5, h, h6⟩ := andThen_ok h
    obtain ⟨s4, f4, h, h5⟩ := andThen_ok h
    obtain ⟨s3, f3, h, h4⟩ := andThen_ok h
    obtain ⟨s2, f2, h, h3⟩ := andThen_ok h
    obtain ⟨s1, f1, h1, h2⟩ := andThen_ok h
    obtain ⟨e1, e2, _⟩ := validateClientSeq_ok h1
    subst e1; subst e2
    rw [stripPresence_eq] at h2
    injection h2 with e1 e2; injection e2 with e2
    subst e1; subst e2
    obtain ⟨doc, pushables, hd, hg, e1, e2⟩ := pushPack_ok h3
    subst e1; subst e2
    obtain ⟨e1, r, hr, e2⟩ := preparePack_ok h4
    subst e1; subst e2
    obtain ⟨e1, i, hi, e2⟩ := updateDocStatus_ok h5
    subst e1; subst e2
    obtain ⟨e2, hv⟩ := updateMinVV_ok h6
    subst e2
    obtain ⟨_, hp⟩ := persistClientInfo_error h7
    simp only [minVVFlight_info, minVVFlight_doc, minVVFlight_client] at hp
    rcases hp with hp | hp
    · obtain ⟨cd, hcd⟩ := updateDocStatus_entry hi
      simp only [pushedFlight, stripped_doc] at hp hcd
      rw [hcd] at hp; simp at hp
    · have hcl : s6.clients = s1.clients := by
        rcases hv with ⟨_, hv⟩ | ⟨_, hv⟩
        · rw [hv]; rfl
        · rw [updateVersionVector_clients hv]; rfl
      simp only [pushedFlight, stripped_client, Server.findClient] at hp hc
      rw [hcl, hc] at hp; simp at hp
  injection he7 with he7; subst he7
  rcases andThen_cases h with ⟨e6, h, he6⟩ | ⟨s5, f5, h, h6⟩
  rotate_left
  · -- updateMinVV fails: impossible
    exfalso
    obtain ⟨s4, f4, h, h5⟩ := andThen_ok h
    obtain ⟨s3, f3, h, h4⟩ := andThen_ok h
    obtain ⟨s2, f2, h, h3⟩ := andThen_ok h
    obtain ⟨s1, f1, h1, h2⟩ := andThen_ok h
    obtain ⟨e1, i, hi, e2⟩ := updateDocStatus_ok h5
    subst e1; subst e2
    obtain ⟨_, e', he'⟩ := updateMinVV_error h6
    obtain ⟨cd, hcd⟩ := updateDocStatus_entry hi
    simp only [Client.isAttached, hcd] at he'
    simp at he'
  injection he6 with he6; subst he6
  rcases andThen_cases h with ⟨e5, h, he5⟩ | ⟨s4, f4, h, h5⟩
  rotate_left
  · -- updateDocStatus fails
    obtain ⟨s3, f3, h, h4⟩ := andThen_ok h
    obtain ⟨s2, f2, h, h3⟩ := andThen_ok h
    obtain ⟨s1, f1, h1, h2⟩ := andThen_ok h
    obtain ⟨e1, e2, _⟩ := validateClientSeq_ok h1
    subst e1; subst e2
    rw [stripPresence_eq] at h2
    injection h2 with e1 e2; injection e2 with e2
    subst e1; subst e2
    obtain ⟨doc, pushables, hd, hg, e1, e2⟩ := pushPack_ok h3
    subst e2
    obtain ⟨e3, r, hr, e2⟩ := preparePack_ok h4
    subst e2
    have e4 := updateDocStatus_frame h5
    simp only [stripped_doc] at hd e1
    refine Or.inr ⟨doc, pushables, hd, hg, by rw [e4, e3, e1], Or.inr ⟨r, ?_, ?_⟩⟩
    · rw [e4, e3]; exact hr
    · unfold updateDocStatus at h5
      split at h5
      · next e' he' =>
        injection h5 with _ h5; injection h5 with h5; subst h5
        simpa [pushedFlight] using he'
      · injection h5 with _ h5; simp at h5
  injection he5 with he5; subst he5
  rcases andThen_cases h with ⟨e4, h, he4⟩ | ⟨s3, f3, h, h4⟩
  rotate_left
  · -- preparePack fails
    obtain ⟨s2, f2, h, h3⟩ := andThen_ok h
    obtain ⟨s1, f1, h1, h2⟩ := andThen_ok h
    obtain ⟨e1, e2, _⟩ := validateClientSeq_ok h1
    subst e1; subst e2
    rw [stripPresence_eq] at h2
    injection h2 with e1 e2; injection e2 with e2
    subst e1; subst e2
    obtain ⟨doc, pushables, hd, hg, e1, e2⟩ := pushPack_ok h3
    subst e2
    have e4 := preparePack_frame h4
    simp only [stripped_doc] at hd e1
    refine Or.inr ⟨doc, pushables, hd, hg, by rw [e4, e1], Or.inl ?_⟩
    unfold preparePack at h4
    split at h4
    · next e' he' =>
      injection h4 with h4a h4; injection h4 with h4; subst h4; subst h4a
      exact he'
    · injection h4 with _ h4; simp at h4
  injection he4 with he4; subst he4
  rcases andThen_cases h with ⟨e3, h, he3⟩ | ⟨s2, f2, h, h3⟩
  rotate_left
  · -- pushPack fails
    obtain ⟨s1, f1, h1, h2⟩ := andThen_ok h
    obtain ⟨e1, e2, _⟩ := validateClientSeq_ok h1
    subst e1; subst e2
    rw [stripPresence_eq] at h2
    injection h2 with e1 e2
    subst e1
    exact Or.inl (pushPack_error h3)
  rcases andThen_cases h with ⟨e2, h, he⟩ | ⟨s1, f1, h1, h2⟩
  · exact Or.inl (validateClientSeq_frame h).1
  · rw [stripPresence_eq] at h2; injection h2 with _ h2; simp at h2

end Yorkie.Server
