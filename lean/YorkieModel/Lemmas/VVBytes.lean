/- Helper lemmas for the version-vector byte codec (C09). -/
import YorkieModel.Model.VVBytes
import YorkieModel.Lemmas.ByteCodec
import YorkieModel.Lemmas.VV
namespace Yorkie
namespace VV

theorem get?_eq_some_iff_mem (v : VV) (hk : (v.map (·.1)).Nodup) (a : Actor) (x : Int) :
    v.get? a = some x ↔ (a, x) ∈ v := by
  induction v with
  | nil => simp
  | cons p r ih =>
    obtain ⟨k, y⟩ := p
    simp only [List.map_cons, List.nodup_cons] at hk
    simp only [get?_cons, List.mem_cons, Prod.mk.injEq]
    by_cases h : k = a
    · subst h
      simp only [if_true, Option.some.injEq]
      constructor
      · intro e; exact Or.inl ⟨trivial, e.symm⟩
      · rintro (⟨_, e⟩ | hm)
        · exact e.symm
        · exact absurd (List.mem_map_of_mem (f := (·.1)) hm) hk.1
    · simp only [h, if_false, ih hk.2]
      constructor
      · exact Or.inr
      · rintro (⟨e, _⟩ | hm)
        · exact absurd e.symm h
        · exact hm

/-- lookups do not depend on the enumeration order of a map -/
theorem get?_perm {v w : VV} (hp : v.Perm w) (hk : (v.map (·.1)).Nodup) (a : Actor) :
    v.get? a = w.get? a := by
  have hk' : (w.map (·.1)).Nodup := (hp.map (·.1)).nodup_iff.mp hk
  apply Option.ext
  intro x
  rw [get?_eq_some_iff_mem v hk, get?_eq_some_iff_mem w hk', hp.mem_iff]

end VV

namespace VVBytes
open ByteCodec

/-- the entry can be written without loss: 96-bit actor, int64 value -/
def EntryOk (p : Actor × Int) : Prop := p.1 < 79228162514264337593543950336 ∧ InInt64 p.2

instance (p : Actor × Int) : Decidable (EntryOk p) := by unfold EntryOk; exact inferInstance

/-- what the decoder's map stores do to the accumulator -/
def storeAll (acc : VV) (v : VV) : VV := v.foldl (fun a p => a.set p.1 p.2) acc

theorem set_of_not_mem (acc : VV) (a : Actor) (x : Int) (h : a ∉ acc.keys) :
    acc.set a x = acc ++ [(a, x)] := by
  induction acc with
  | nil => rfl
  | cons p r ih =>
    obtain ⟨k, y⟩ := p
    simp only [VV.keys, List.map_cons, List.mem_cons, not_or] at h
    simp only [VV.set, List.cons_append]
    rw [if_neg (fun e => h.1 e.symm)]
    rw [ih (by simpa [VV.keys] using h.2)]

theorem storeAll_nodup (acc v : VV) (hv : (v.map (·.1)).Nodup) (hd : ∀ p ∈ v, p.1 ∉ acc.keys) :
    storeAll acc v = acc ++ v := by
  induction v generalizing acc with
  | nil => simp [storeAll]
  | cons p r ih =>
    simp only [List.map_cons, List.nodup_cons] at hv
    have h1 := set_of_not_mem acc p.1 p.2 (hd p (List.mem_cons_self ..))
    show storeAll (acc.set p.1 p.2) r = _
    rw [h1, ih _ hv.2]
    · simp
    · intro q hq
      simp only [VV.keys, List.map_append, List.map_cons, List.map_nil, List.mem_append,
        List.mem_singleton, not_or]
      refine ⟨by simpa [VV.keys] using hd q (List.mem_cons_of_mem _ hq), ?_⟩
      intro e
      exact hv.1 (e ▸ List.mem_map_of_mem (f := (·.1)) hq)

theorem get?_storeAll_cons (acc : VV) (p : Actor × Int) (r : VV) :
    storeAll acc (p :: r) = storeAll (acc.set p.1 p.2) r := rfl

theorem encodeEntry_length (p : Actor × Int) : (encodeEntry p).length = 20 := by
  simp [encodeEntry, writeInt64, actorSize]

/-- one loop iteration on a well-formed entry followed by anything -/
theorem decodeLoop_entry (n : Nat) (p : Actor × Int) (tail : Bytes) (acc : VV) (hp : EntryOk p) :
    decodeLoop (n + 1) (encodeEntry p ++ tail) acc = decodeLoop n tail (acc.set p.1 p.2) := by
  obtain ⟨ha, hx⟩ := hp
  simp only [decodeLoop, encodeEntry, List.append_assoc]
  rw [readPad_append actorSize _ _ (natToBE_length _ _) (by decide)]
  simp only []
  rw [readInt64_writeInt64 _ _ hx]
  simp only []
  rw [beToNat_natToBE actorSize p.1 (by simpa [actorSize] using ha)]

/-- the loop reads back exactly the entries that were written, whatever follows them -/
theorem decodeLoop_encodeEntries (v : VV) (tail : Bytes) (acc : VV) (hv : ∀ p ∈ v, EntryOk p) :
    decodeLoop v.length (encodeEntries v ++ tail) acc = some (storeAll acc v) := by
  induction v generalizing acc with
  | nil => simp [decodeLoop, encodeEntries, storeAll]
  | cons p r ih =>
    simp only [List.length_cons, encodeEntries, List.append_assoc]
    rw [decodeLoop_entry _ p _ acc (hv p (List.mem_cons_self ..))]
    rw [ih _ (fun q hq => hv q (List.mem_cons_of_mem _ hq))]
    rfl

/-- accept set of the loop, by input length only -/
theorem decodeLoop_isSome (n : Nat) (s : Bytes) (acc : VV) :
    (decodeLoop n s acc).isSome = loopAccepts n s.length := by
  induction n generalizing s acc with
  | zero => simp [decodeLoop, loopAccepts]
  | succ n ih =>
    simp only [decodeLoop]
    cases h1 : readPad actorSize s with
    | none =>
      have : s = [] := by cases s <;> simp_all [readPad]
      subst this
      simp [loopAccepts]
    | some q =>
      obtain ⟨a, s1⟩ := q
      obtain ⟨_, hs1, hne⟩ := readPad_length _ _ _ _ h1
      simp only [readInt64]
      cases h2 : readPad 8 s1 with
      | none =>
        have : s1 = [] := by cases s1 <;> simp_all [readPad]
        have hl : s.length ≤ 12 := by
          have := congrArg List.length (hs1.symm.trans this)
          simp [actorSize] at this; omega
        simp only [Option.isSome_none, loopAccepts]
        simp; omega
      | some q2 =>
        obtain ⟨d, s2⟩ := q2
        obtain ⟨_, hs2, hne2⟩ := readPad_length _ _ _ _ h2
        simp only []
        rw [ih]
        have hl2 : s2.length = s.length - 20 := by
          rw [hs2, hs1]; simp [actorSize]
        have hl1 : s.length ≥ 13 := by
          have : s1.length ≥ 1 := List.length_pos_iff.mpr hne2
          rw [hs1] at this; simp [actorSize] at this; omega
        rw [hl2]
        simp only [loopAccepts]
        cases n with
        | zero => simp; omega
        | succ m => simp; omega

end VVBytes
end Yorkie
