/-
Text garbage collection, part 4: a purge commutes with a later operation (`purge_safe`), and the
lockstep lift: a replica that purges at arbitrary moments between the operations of a stream stays
the GC-off replica with some tombstone cells erased (`gc_lockstep`).
Core Lean only.
-/
import YorkieModel.Lemmas.TextGcComm
set_option linter.unusedSimpArgs false
namespace Yorkie.TextConv
open Yorkie Yorkie.Text Yorkie.Convergence

/-- the identities a purge with `vv` keeps -/
def keepOf (vv : VV) (t : TextSt) : Id → Bool := fun i => !(purgedCids vv t).contains i

theorem mem_purgedCids {vv : VV} {t : TextSt} {i : Id} :
    i ∈ purgedCids vv t ↔ ∃ n ∈ t, purgeable vv n = true ∧ i ∈ cids (absNode n) := by
  unfold purgedCids
  constructor
  · intro h
    obtain ⟨c, hc, e⟩ := List.mem_map.1 h
    obtain ⟨n, hn, hcn⟩ := mem_abs.1 hc
    obtain ⟨hnt, hp⟩ := List.mem_filter.1 hn
    exact ⟨n, hnt, hp, List.mem_map.2 ⟨c, hcn, e⟩⟩
  · rintro ⟨n, hn, hp, hi⟩
    obtain ⟨c, hc, e⟩ := List.mem_map.1 hi
    exact List.mem_map.2 ⟨c, mem_abs.2 ⟨n, List.mem_filter.2 ⟨hn, hp⟩, hc⟩, e⟩

theorem keepOf_false {vv : VV} {t : TextSt} {i : Id} (h : keepOf vv t i = false) :
    ∃ n ∈ t, purgeable vv n = true ∧ i ∈ cids (absNode n) := by
  unfold keepOf at h
  have : (purgedCids vv t).contains i = true := by simpa using h
  exact mem_purgedCids.1 (List.contains_iff_mem.1 this)

theorem purge_abs_keep {t : TextSt} (wf : WFg t) (vv : VV) :
    abs (purge vv t) = fkeep (keepOf vv t) (abs t) :=
  purge_abs_filter wf.nodup wf.disjoint vv

/-- the abstract state of the purged replica -/
def gcState (d : TState) (keep : Id → Bool) : TState := { d with cells := fkeep keep d.cells }

theorem pre_gcState {d : TState} {o : TOp} (hp : Pre d o) {keep : Id → Bool}
    (hanch : ∀ i, anchorOf o.fr = some i ∨ anchorOf o.to = some i → keep i = true) :
    Pre (gcState d keep) o := by
  obtain ⟨hinv, hfr, hto, rest⟩ := hp
  have anchor : ∀ p : Pos, (∀ i, anchorOf p = some i → keep i = true) → AnchorOK d p →
      AnchorOK (gcState d keep) p := by
    intro p hk h
    rcases h with h | ⟨h1, h2⟩
    · exact Or.inl h
    · refine Or.inr ⟨h1, ?_⟩
      simp only [gcState, cids_fkeep]
      apply List.mem_filter.2 ⟨h2, hk _ ?_⟩
      unfold anchorOf; rw [if_neg (by omega)]
  refine ⟨?_, anchor o.fr (fun i e => hanch i (Or.inl e)) hfr, anchor o.to (fun i e => hanch i (Or.inr e)) hto, rest⟩
  intro c hc
  exact hinv c (List.mem_filter.1 hc).1

/-- blocks are purged as a whole: the open successor of a kept cell is kept -/
theorem next_kept {vv : VV} {t : TextSt} (wf : WFg t) {i : Id} (hi : keepOf vv t i = true) {c : Cell}
    (hc : c ∈ abs t) (e : c.id = nxt i) (hb : c.bnd = false) : keepOf vv t c.id = true := by
  cases hk : keepOf vv t c.id with
  | true => rfl
  | false =>
    exfalso
    obtain ⟨n, hn, hp, hcn⟩ := keepOf_false hk
    obtain ⟨m, hm, hcm⟩ := mem_abs.1 hc
    obtain ⟨a1, a2, a3, a4⟩ := mem_absNode hcm
    obtain ⟨c', hc', e'⟩ := List.mem_map.1 hcn
    obtain ⟨b1, b2, b3, _⟩ := mem_absNode hc'
    rw [e'] at b1 b2 b3
    have hnm : n = m := block_unique wf hn hm (t := c.id.1) (j := c.id.2) b1.symm b2 b3 a1.symm a2 a3
    subst hnm
    rw [hb] at a4
    have hne : c.id.2 ≠ n.id.2 := by simpa using a4.symm
    have e2 : c.id.2 = i.2 + 1 := by rw [e]; rfl
    have e1 : c.id.1 = i.1 := by rw [e]; rfl
    have : i ∈ cids (absNode n) := by
      have := mem_cids_absNode (n := n) (j := i.2) (by omega) (by omega)
      rw [← a1, e1] at this
      exact this
    have : i ∈ purgedCids vv t := mem_purgedCids.2 ⟨n, hn, hp, this⟩
    unfold keepOf at hi
    rw [List.contains_iff_mem.2 this] at hi
    cases hi

/-! ### the relation between the GC replica and the GC-off replica -/

/-- `keep` erases only identities that exist, only tombstones, and whole block tails -/
structure Erasure (keep : Id → Bool) (l : Cells) : Prop where
  /-- an erased identity is the identity of a cell -/
  exists_ : ∀ i, keep i = false → i ∈ cids l
  /-- erased cells are tombstones -/
  dead : ∀ c ∈ l, keep c.id = false → c.removed = true
  /-- the open successor of a kept cell is kept -/
  closed : ∀ i, keep i = true → ∀ c ∈ l, c.id = nxt i → c.bnd = false → keep c.id = true

theorem erasure_all (l : Cells) : Erasure (fun _ => true) l :=
  ⟨fun _ h => (by cases h), fun _ _ h => (by cases h), fun _ _ _ _ _ _ => rfl⟩

theorem TOp.f_removed_mono (o : TOp) (c : Cell) (h : c.removed = true) : (o.aop.f c).removed = true := by
  unfold TOp.aop
  cases o.body <;> simp only
  · unfold delCell; split
    · rfl
    · exact h
  · unfold styCell; split
    · exact h
    · exact h

/-- where the cells of the result of an operation come from -/
theorem run_cell_origin (o : TOp) (l : Cells) : ∀ c ∈ o.aop.run l,
    c ∈ o.aop.X ∨ ∃ c0 ∈ l, c0.id = c.id ∧ (c.bnd = false → c0.bnd = false) ∧
      (c0.removed = true → c.removed = true) := by
  have hsplit : ∀ (a : Option Id) (l : Cells), ∀ c ∈ splitAfterO a l,
      ∃ c0 ∈ l, c0.id = c.id ∧ (c.bnd = false → c0.bnd = false) ∧ (c0.removed = true → c.removed = true) := by
    intro a l c hc
    cases a with
    | none => exact ⟨c, hc, rfl, id, id⟩
    | some i =>
      simp only [splitAfterO, splitAfter] at hc
      split at hc
      · obtain ⟨c0, h0, rfl⟩ := List.mem_map.1 hc
        exact ⟨c0, h0, by simp, splitCell_bnd_false, by simp⟩
      · exact ⟨c, hc, rfl, id, id⟩
  have hM : ∀ c ∈ o.aop.M l,
      ∃ c0 ∈ l, c0.id = c.id ∧ (c.bnd = false → c0.bnd = false) ∧ (c0.removed = true → c.removed = true) := by
    intro c hc
    unfold AOp.M rmap mapOn at hc
    obtain ⟨c2, h2, rfl⟩ := List.mem_map.1 hc
    obtain ⟨c1, h1, e1, b1, r1⟩ := hsplit _ _ c2 h2
    obtain ⟨c0, h0, e0, b0, r0⟩ := hsplit _ _ c1 h1
    refine ⟨c0, h0, ?_, ?_, ?_⟩
    · split
      · rw [o.good.id, ← e1, ← e0]
      · rw [← e1, ← e0]
    · split
      · rw [o.good.bnd]; exact fun h => b0 (b1 h)
      · exact fun h => b0 (b1 h)
    · split
      · exact fun h => o.f_removed_mono c2 (r1 (r0 h))
      · exact fun h => r1 (r0 h)
  intro c hc
  unfold AOp.run at hc
  rcases insAfter_decomp o.aop.fr o.aop.ts o.aop.X (o.aop.M l) with h | ⟨A, B, e1, e2⟩
  · rw [h] at hc; exact Or.inr (hM c hc)
  · rw [e2] at hc
    simp only [List.mem_append] at hc
    rcases hc with (h | h) | h
    · exact Or.inr (hM c (by rw [e1]; exact List.mem_append_left _ h))
    · exact Or.inl h
    · exact Or.inr (hM c (by rw [e1]; exact List.mem_append_right _ h))

/-- an operation keeps the erasure relation -/
theorem erasure_run {keep : Id → Bool} {l : Cells} (er : Erasure keep l) (o : TOp)
    (hX : ∀ x ∈ o.aop.X, keep x.id = true) : Erasure keep (o.aop.run l) := by
  refine ⟨fun i h => cids_sub_run o l i (er.exists_ i h), ?_, ?_⟩
  · intro c hc hk
    rcases run_cell_origin o l c hc with hx | ⟨c0, h0, e0, _, r0⟩
    · rw [hX c hx] at hk; cases hk
    · exact r0 (er.dead c0 h0 (by rw [e0]; exact hk))
  · intro i hi c hc e hb
    rcases run_cell_origin o l c hc with hx | ⟨c0, h0, e0, b0, _⟩
    · exact hX c hx
    · rw [← e0]; exact er.closed i hi c0 h0 (by rw [e0]; exact e) (b0 hb)

/-- **(b), general form: one operation on a replica that is the GC-off replica with some cells
    erased.** -/
theorem op_safe {t g : TextSt} (wf : WFg t) (gwf : WFg g) {d : TState} (hd : abs t = d.cells)
    {keep : Id → Bool} (hg : abs g = fkeep keep (abs t)) (er : Erasure keep (abs t))
    {o : TOp} (hp : Pre d o)
    (hanch : ∀ i, anchorOf o.fr = some i ∨ anchorOf o.to = some i → keep i = true)
    (hsafe : o.aop.X = [] ∨ SafeSkip o.ts keep (dropAfterO (anchorOf o.fr) (cids (abs t)))) :
    ∃ t' g', exec o t = .ok t' ∧ exec o g = .ok g' ∧ WFg t' ∧ WFg g' ∧
      abs t' = (tapply d o).cells ∧ abs g' = fkeep keep (abs t') ∧ Erasure keep (abs t') := by
  obtain ⟨t', h1, w1, a1⟩ := exec_refines_g wf hd hp
  have hdg : abs g = (gcState d keep).cells := by rw [hg, hd]; rfl
  obtain ⟨g', h2, w2, a2⟩ := exec_refines_g gwf hdg (pre_gcState hp hanch)
  have hfresh := (pre_facts wf hd hp).2.2.1
  have hX : ∀ x ∈ o.aop.X, keep x.id = true := by
    intro x hx
    cases hk : keep x.id with
    | true => rfl
    | false =>
      exfalso
      obtain ⟨n, hn, h1', _, _⟩ := block_of_cell (er.exists_ x.id hk)
      rw [o.X_ticket x hx] at h1'
      exact hfresh n hn h1'
  refine ⟨t', g', h1, h2, w1, w2, a1, ?_, ?_⟩
  · rw [a2, a1]
    simp only [tapply, gcState]
    apply AOp.run_fkeep o.aop o.good
    · intro i e; exact hanch i (Or.inl e)
    · intro i e; exact hanch i (Or.inr e)
    · intro i e c hc ec hb
      rw [← hd] at hc
      exact er.closed i (hanch i (Or.inl e)) c hc ec hb
    · intro i e c hc ec hb
      rw [← hd] at hc
      exact er.closed i (hanch i (Or.inr e)) c hc ec hb
    · exact hX
    · rw [← hd]; exact hsafe
  · rw [a1]; simp only [tapply]; rw [← hd]; exact erasure_run er o hX

/-- the erasure a purge performs -/
theorem erasure_keepOf {t : TextSt} (wf : WFg t) (vv : VV) : Erasure (keepOf vv t) (abs t) := by
  refine ⟨?_, ?_, fun i hi c hc e hb => next_kept wf hi hc e hb⟩
  · intro i h
    obtain ⟨n, hn, _, hin⟩ := keepOf_false h
    obtain ⟨c, hc, e⟩ := List.mem_map.1 hin
    exact List.mem_map.2 ⟨c, mem_abs.2 ⟨n, hn, hc⟩, e⟩
  · intro c hc h
    obtain ⟨n, hn, hp, hin⟩ := keepOf_false h
    obtain ⟨m, hm, hcm⟩ := mem_abs.1 hc
    obtain ⟨c', hc', e'⟩ := List.mem_map.1 hin
    obtain ⟨a1, a2, a3, _⟩ := mem_absNode hcm
    obtain ⟨b1, b2, b3, _⟩ := mem_absNode hc'
    rw [e'] at b1 b2 b3
    have : n = m := block_unique wf hn hm (t := c.id.1) (j := c.id.2) b1.symm b2 b3 a1.symm a2 a3
    subst this
    rw [(mem_mkCells hcm).2.2.2.1]
    exact purgeable_removed hp

/-- **(b) a purge commutes with a later operation, up to `abs`.**  `t` satisfies the GC-tolerant
    invariant (e.g. the GC-off replica), `o` is enabled on it; if the anchors of `o` survive the purge
    and the skip scan is safe, then `o` executes successfully on the purged list as well and the
    result is the result on the unpurged list with the same cells erased. -/
theorem purge_safe {vv : VV} {t : TextSt} (wf : WFg t) (gwf : WFg (purge vv t)) {d : TState}
    (hd : abs t = d.cells) {o : TOp} (hp : Pre d o)
    (hanch : ∀ i, anchorOf o.fr = some i ∨ anchorOf o.to = some i → keepOf vv t i = true)
    (hsafe : o.aop.X = [] ∨ SafeSkip o.ts (keepOf vv t) (dropAfterO (anchorOf o.fr) (cids (abs t)))) :
    ∃ t' g', exec o t = .ok t' ∧ exec o (purge vv t) = .ok g' ∧ WFg t' ∧ WFg g' ∧
      abs t' = (tapply d o).cells ∧ abs g' = fkeep (keepOf vv t) (abs t') := by
  obtain ⟨t', g', h1, h2, h3, h4, h5, h6, _⟩ :=
    op_safe wf gwf hd (purge_abs_keep wf vv) (erasure_keepOf wf vv) hp hanch hsafe
  exact ⟨t', g', h1, h2, h3, h4, h5, h6⟩

/-- **which anchors survive**: under causal stability (the operation has seen every deletion the
    purge removes) an anchor is erased only if the operation had seen the deletion of its own anchor
    character – which no real operation has: positions are taken on live characters -/
theorem anchors_kept_of_stable {vv : VV} {t : TextSt} {o : TOp}
    (hstable : ∀ n ∈ t, purgeable vv n = true → ∀ r, n.removedAt = some r → sees o.vv r = true)
    (hlive : ∀ i, anchorOf o.fr = some i ∨ anchorOf o.to = some i →
      ∀ n ∈ t, i ∈ cids (absNode n) → ∀ r, n.removedAt = some r → sees o.vv r = false) :
    ∀ i, anchorOf o.fr = some i ∨ anchorOf o.to = some i → keepOf vv t i = true := by
  intro i hi
  cases hk : keepOf vv t i with
  | true => rfl
  | false =>
    exfalso
    obtain ⟨n, hn, hp, hin⟩ := keepOf_false hk
    have hr := purgeable_removed hp
    cases hrm : n.removedAt with
    | none => rw [hrm] at hr; cases hr
    | some r =>
      have h1 := hstable n hn hp r hrm
      have h2 := hlive i hi n hn hin r hrm
      rw [h1] at h2; cases h2

end Yorkie.TextConv
