/-
Text convergence, part 6: the block-level operations of Model/Text.lean refine the abstract ones.
`findNodeWithSplit` = `splitAfterO` + a decomposition of the list around the anchor;
`insertAfterId` after the skipped nodes = `insAfter`.
Core Lean only.
-/
import YorkieModel.Lemmas.TextConvAbs
set_option linter.unusedSimpArgs false
namespace Yorkie.TextConv
open Yorkie Yorkie.Text

/-! ### no split needed -/

theorem splitAfter_noop {s : TextSt} (wf : WFg s) {n : TNode} (hn : n ∈ s) (hlen : 0 < n.len) :
    splitAfter (n.id.1, n.id.2 + n.len - 1) (abs s) = abs s := by
  unfold splitAfter
  have : hasOpen (nxt (n.id.1, n.id.2 + n.len - 1)) (abs s) = false := by
    cases h : hasOpen (nxt (n.id.1, n.id.2 + n.len - 1)) (abs s) with
    | false => rfl
    | true =>
      exfalso
      obtain ⟨c, hc, e, hb⟩ := hasOpen_iff.1 h
      have e' : c.id = (n.id.1, n.id.2 + n.len) := by
        rw [e]; unfold nxt; simp only; rw [show n.id.2 + n.len - 1 + 1 = n.id.2 + n.len by omega]
      obtain ⟨m, hm, hcm⟩ := mem_abs.1 hc
      obtain ⟨e1, e2, e3, e4⟩ := mem_absNode hcm
      rw [e'] at e1 e2 e3 e4
      simp only at e1 e2 e3 e4
      rw [hb] at e4
      have hne : n.id.2 + n.len ≠ m.id.2 := by simpa using e4.symm
      rcases Nat.lt_trichotomy m.id.2 n.id.2 with h' | h' | h'
      · have := wf.disjoint m hm n hn e1.symm h'; omega
      · have : m = n := eq_of_id_eq wf.nodup hm hn (Prod.ext e1.symm h')
        subst this; omega
      · have := wf.disjoint n hn m hm e1 h'; omega
  rw [this]; rfl

/-! ### `findNodeWithSplit` -/

/-- `cur` is the block whose last cell is the anchor (the head for the head anchor) -/
def EndsAt (cur : TNode) (A : TextSt) : Option Id → Prop
  | none => A = [] ∧ cur.units = []
  | some a => cur.id.1 = a.1 ∧ cur.id.2 + cur.len = a.2 + 1 ∧ 0 < cur.len

/-- the cell-level reading of `AnchorOK` -/
def AnchorIn (l : Cells) (p : Pos) : Prop :=
  (p.id.2 + p.rel = 0 ∧ p.id.1 = headId.1) ∨
    (0 < p.id.2 + p.rel ∧ (p.id.1, p.id.2 + p.rel - 1) ∈ cids l)

theorem fnws_abs {s : TextSt} (wf : WFg s) {p : Pos} (hok : AnchorIn (abs s) p) (ts : Ticket) :
    ∃ s1 A cur rest,
      findNodeWithSplit s p ts =
        .ok (s1, (skipFrom ts cur rest).1.id, (skipFrom ts cur rest).2.map (·.id)) ∧
      s1 = A ++ cur :: rest ∧ WFg s1 ∧ abs s1 = splitAfterO (anchorOf p) (abs s) ∧
      EndsAt cur A (anchorOf p) ∧ (∀ x ∈ s1, ∃ m ∈ s, x.id.1 = m.id.1) := by
  rcases hok with ⟨h0, ht⟩ | ⟨hpos, hcell⟩
  · -- the head
    obtain ⟨hd, r, hs, hid, hu⟩ := wf.head
    have hq : ((p.id.1, p.id.2 + p.rel) : Id) = headId := by
      rw [h0, ht]; rfl
    have hfl := floor_head_g wf hs
    have hanch : anchorOf p = none := by unfold anchorOf; rw [if_pos h0]
    refine ⟨s, [], hd, r, ?_, hs, wf, by rw [hanch]; rfl, by rw [hanch]; exact ⟨rfl, hu⟩,
      fun x hx => ⟨x, hx, rfl⟩⟩
    unfold findNodeWithSplit
    simp only [hq, hfl]
    have hd2 : hd.id.2 = 0 := by rw [hid]; rfl
    have hq2 : headId.2 = 0 := rfl
    rw [if_neg (by omega), if_neg (by omega)]
    have hk : p.id.2 + p.rel - hd.id.2 = 0 := by omega
    rw [hk, splitNode_noop (Or.inl rfl)]
    have hloc : locate s hd.id = some (hd, r) := by rw [hs]; simp [locate]
    simp only [hloc]
  · -- a cell
    obtain ⟨n, hn, h1, h2, h3⟩ := block_of_cell hcell
    simp only at h1 h2 h3
    have hfl := floor_node_g wf hn (q := (p.id.1, p.id.2 + p.rel)) h1 (by simp only; omega)
      (by simp only; omega)
    have hanch : anchorOf p = some (p.id.1, p.id.2 + p.rel - 1) := by
      unfold anchorOf; rw [if_neg (by omega)]
    obtain ⟨A, C, hs⟩ := mem_split hn
    have hnd := wf.nodup
    rw [hs] at hnd
    obtain ⟨hnA, _, _, _⟩ := nodup_decomp hnd
    have unf : ∀ {cur rest}, locate (splitNode s n (p.id.2 + p.rel - n.id.2)) n.id = some (cur, rest) →
        findNodeWithSplit s p ts = .ok (splitNode s n (p.id.2 + p.rel - n.id.2),
          (skipFrom ts cur rest).1.id, (skipFrom ts cur rest).2.map (·.id)) := by
      intro cur rest hloc
      unfold findNodeWithSplit
      simp only [hfl]
      rw [if_neg (by omega), if_neg (by omega)]
      simp only [hloc]
    by_cases hk : p.id.2 + p.rel - n.id.2 = n.len
    · -- boundary exists
      have hno : splitNode s n (p.id.2 + p.rel - n.id.2) = s := splitNode_noop (Or.inr hk)
      have hloc : locate (splitNode s n (p.id.2 + p.rel - n.id.2)) n.id = some (n, C) := by
        rw [hno, hs]; exact locate_append hnA
      refine ⟨s, A, n, C, by rw [unf hloc, hno], hs, wf, ?_, ?_, fun x hx => ⟨x, hx, rfl⟩⟩
      · rw [hanch]
        have := splitAfter_noop wf hn (by omega)
        rw [show n.id.2 + n.len - 1 = p.id.2 + p.rel - 1 by omega, h1] at this
        exact this.symm
      · rw [hanch]; exact ⟨h1, by simp only; omega, by omega⟩
    · -- split strictly inside
      have k0 : 0 < p.id.2 + p.rel - n.id.2 := by omega
      have k1 : p.id.2 + p.rel - n.id.2 < n.len := by omega
      have hsp := splitNode_append (C := C) hnA k0 k1
      have hloc : locate (splitNode s n (p.id.2 + p.rel - n.id.2)) n.id =
          some (splitMap n (p.id.2 + p.rel - n.id.2) n,
            rightPart n (p.id.2 + p.rel - n.id.2) :: C.map (splitMap n (p.id.2 + p.rel - n.id.2))) := by
        rw [hs, hsp]
        have := @locate_append (A.map (splitMap n (p.id.2 + p.rel - n.id.2)))
          (rightPart n (p.id.2 + p.rel - n.id.2) :: C.map (splitMap n (p.id.2 + p.rel - n.id.2)))
          (splitMap n (p.id.2 + p.rel - n.id.2) n) (by rw [ids_map_splitMap, splitMap_id]; exact hnA)
        rw [splitMap_id] at this
        exact this
      refine ⟨_, _, _, _, unf hloc, by rw [hs, hsp], wfg_splitNode wf hn k0 k1, ?_, ?_,
        fun x hx => createdAt_splitNode hn k0 k1 hx⟩
      · rw [hanch, abs_splitNode wf hn k0 k1, h1]
        rw [show n.id.2 + (p.id.2 + p.rel - n.id.2) - 1 = p.id.2 + p.rel - 1 by omega]; rfl
      · rw [hanch]
        refine ⟨by simp [h1], ?_, ?_⟩
        · rw [splitMap_len_self n (by omega)]; simp only [splitMap_id]; omega
        · rw [splitMap_len_self n (by omega)]; exact k0

/-! ### the skip loop -/

theorem skipFrom_spec (ts : Ticket) (cur : TNode) (rest : TextSt) :
    ∃ K D, rest = K ++ D ∧ (∀ x ∈ K, x.id.1.after ts = true) ∧
      (∀ d D', D = d :: D' → d.id.1.after ts = false) ∧
      skipFrom ts cur rest = (K.getLastD cur, D.head?) := by
  induction rest generalizing cur with
  | nil => exact ⟨[], [], rfl, by simp, by simp, rfl⟩
  | cons x r ih =>
    by_cases h : x.id.1.after ts = true
    · obtain ⟨K, D, h1, h2, h3, h4⟩ := ih x
      refine ⟨x :: K, D, by simp [h1], ?_, h3, ?_⟩
      · intro y hy
        rcases List.mem_cons.1 hy with rfl | hy
        · exact h
        · exact h2 y hy
      · simp only [skipFrom, h, if_true, h4, List.getLastD_cons]
    · refine ⟨[], x :: r, rfl, by simp, ?_, ?_⟩
      · intro d D' e; injection e with e _; subst e; simpa using h
      · simp [skipFrom, h]

/-! ### cell ids are unique -/

theorem nodup_cids_mkCells (t : Ticket) (rm : Bool) (as : AAttrs) (off : Nat) (b : Bool) (u : List Nat) :
    (cids (mkCells t rm as off b u)).Nodup := by
  induction u generalizing off b with
  | nil => simp [mkCells]
  | cons x r ih =>
    simp only [mkCells, cids_cons, List.nodup_cons]
    refine ⟨?_, ih _ _⟩
    intro h
    obtain ⟨c, hc, e⟩ := List.mem_map.1 h
    have := (mem_mkCells hc).2.1
    rw [e] at this; simp only at this; omega

theorem nodup_cids_abs_aux {s : TextSt} (nd : (ids s).Nodup)
    (dj : ∀ n ∈ s, ∀ m ∈ s, n.id.1 = m.id.1 → n.id.2 < m.id.2 → n.id.2 + n.len ≤ m.id.2) :
    (cids (abs s)).Nodup := by
  induction s with
  | nil => simp
  | cons n r ih =>
    simp only [ids_cons, List.nodup_cons] at nd
    rw [abs_cons, cids_append, List.nodup_append]
    refine ⟨nodup_cids_mkCells _ _ _ _ _ _,
      ih nd.2 (fun a ha b hb => dj a (List.mem_cons_of_mem _ ha) b (List.mem_cons_of_mem _ hb)), ?_⟩
    intro i hi j hj e
    subst e
    obtain ⟨c, hc, e1⟩ := List.mem_map.1 hi
    obtain ⟨c', hc', e2⟩ := List.mem_map.1 hj
    obtain ⟨m, hm, hcm⟩ := mem_abs.1 hc'
    obtain ⟨a1, a2, a3, _⟩ := mem_absNode hc
    obtain ⟨b1, b2, b3, _⟩ := mem_absNode hcm
    rw [e1] at a1 a2 a3
    rw [e2] at b1 b2 b3
    have hne : n.id ≠ m.id := fun e => nd.1 (e ▸ mem_ids hm)
    rcases Nat.lt_trichotomy n.id.2 m.id.2 with h | h | h
    · have := dj n (by simp) m (List.mem_cons_of_mem _ hm) (a1.symm.trans b1) h; omega
    · exact hne (Prod.ext (a1.symm.trans b1) h)
    · have := dj m (List.mem_cons_of_mem _ hm) n (by simp) (b1.symm.trans a1) h; omega

theorem nodup_cids_abs {s : TextSt} (wf : WFg s) : (cids (abs s)).Nodup :=
  nodup_cids_abs_aux wf.nodup wf.disjoint

/-! ### list facts for ranges -/

theorem dropAfter_at {a : Id} {P : List Id} (h : a ∉ P) (C : List Id) : dropAfter a (P ++ a :: C) = C := by
  rw [dropAfter_append_absent h]; simp [dropAfter]

theorem takeThrough_at {t : Id} {Y : List Id} (h : t ∉ Y) (Z : List Id) :
    takeThrough t (Y ++ t :: Z) = Y ++ [t] := by
  induction Y with
  | nil => simp [takeThrough]
  | cons y Y' ih =>
    simp only [List.mem_cons, not_or] at h
    simp only [List.cons_append, takeThrough]
    rw [if_neg (fun e => h.1 e.symm), ih h.2]

theorem takeThrough_absent {t : Id} {Y : List Id} (h : t ∉ Y) : takeThrough t Y = Y := by
  induction Y with
  | nil => rfl
  | cons y Y' ih =>
    simp only [List.mem_cons, not_or] at h
    simp only [takeThrough]
    rw [if_neg (fun e => h.1 e.symm), ih h.2]

/-- the cells up to and including the anchor -/
theorem abs_upto {cur : TNode} {A : TextSt} {a : Id} (h : EndsAt cur A (some a)) :
    ∃ Pc c, abs (A ++ [cur]) = Pc ++ [c] ∧ c.id = a := by
  obtain ⟨h1, h2, h3⟩ := h
  have hu : cur.units ≠ [] := by
    intro e; unfold TNode.len at h3; rw [e] at h3; simp at h3
  obtain ⟨ini, c, e1, e2, _⟩ := mkCells_last cur.id.1 cur.removedAt.isSome (nodeAttrs cur) cur.id.2 true hu
  refine ⟨abs A ++ ini, c, ?_, ?_⟩
  · rw [abs_append, abs_cons, abs_nil, List.append_nil]
    unfold absNode
    rw [e1, List.append_assoc]
  · rw [e2]
    unfold TNode.len at h2
    apply Prod.ext
    · exact h1
    · simp only; omega

theorem cids_upto {cur : TNode} {A : TextSt} {a : Id} (h : EndsAt cur A (some a)) :
    ∃ P, cids (abs (A ++ [cur])) = P ++ [a] := by
  obtain ⟨Pc, c, e1, e2⟩ := abs_upto h
  exact ⟨cids Pc, by rw [e1, cids_append, cids_cons, cids_nil, e2]⟩

/-- `dropAfterO`/`takeThroughO`: the option versions used by `rangeIds` -/
def dropAfterO : Option Id → List Id → List Id
  | none, L => L
  | some f, L => dropAfter f L

def takeThroughO : Option Id → List Id → List Id
  | none, L => L
  | some t, L => takeThrough t L

theorem rangeIds_eq (fr to : Option Id) (L : List Id) :
    rangeIds fr to L = if fr = to then [] else takeThroughO to (dropAfterO fr L) := by
  unfold rangeIds dropAfterO takeThroughO
  split
  · rfl
  · cases fr <;> cases to <;> rfl

/-- after the anchor come exactly the cells of the blocks after `cur` -/
theorem dropAfterO_struct {s : TextSt} (wf : WFg s) {A : TextSt} {cur : TNode} {C : TextSt}
    (hs : s = A ++ cur :: C) {a : Option Id} (h : EndsAt cur A a) :
    dropAfterO a (cids (abs s)) = cids (abs C) := by
  have hsplit : abs s = abs (A ++ [cur]) ++ abs C := by
    rw [hs, ← abs_append]; simp
  cases a with
  | none =>
    obtain ⟨hA, hu⟩ := h
    subst hA
    simp only [dropAfterO, hsplit, List.nil_append, abs_cons, abs_nil, List.append_nil]
    unfold absNode; rw [hu]; simp [mkCells]
  | some a =>
    obtain ⟨P, hP⟩ := cids_upto h
    have nd := nodup_cids_abs wf
    rw [hsplit, cids_append, hP] at nd
    simp only [dropAfterO, hsplit, cids_append, hP]
    rw [List.append_assoc] at nd ⊢
    simp only [List.singleton_append] at nd ⊢
    apply dropAfter_at
    intro hmem
    have := (List.nodup_append.1 nd).2.2 a hmem a (by simp)
    exact this rfl

/-! ### insertion -/

theorem insSkip_all_newer {ts : Ticket} {Y : Cells} (h : ∀ y ∈ Y, y.id.1.after ts = true) (X r : Cells) :
    insSkip ts X (Y ++ r) = Y ++ insSkip ts X r := by
  induction Y with
  | nil => rfl
  | cons y Y' ih =>
    simp only [List.cons_append]
    rw [insSkip_cons_pos (h y (by simp)), ih (fun z hz => h z (List.mem_cons_of_mem _ hz))]

theorem abs_newer {K : TextSt} {ts : Ticket} (h : ∀ x ∈ K, x.id.1.after ts = true) :
    ∀ c ∈ abs K, c.id.1.after ts = true := by
  intro c hc
  obtain ⟨n, hn, hcn⟩ := mem_abs.1 hc
  rw [(mem_absNode hcn).1]; exact h n hn

/-- the first block after the skipped ones is not newer, so insertion stops in front of it -/
theorem insSkip_abs_older {ts : Ticket} {D : TextSt}
    (hD : ∀ d D', D = d :: D' → d.id.1.after ts = false ∧ d.units ≠ []) (X : Cells) :
    insSkip ts X (abs D) = X ++ abs D := by
  cases D with
  | nil => simp [insSkip]
  | cons d D' =>
    obtain ⟨h1, h2⟩ := hD d D' rfl
    rw [abs_cons]
    unfold absNode
    cases hu : d.units with
    | nil => exact absurd hu h2
    | cons u r =>
      simp only [mkCells, List.cons_append]
      rw [insSkip_cons_neg (by simp [h1])]

theorem cons_getLastD (cur : TNode) (K : TextSt) :
    cur :: K = (cur :: K).dropLast ++ [K.getLastD cur] := by
  induction K generalizing cur with
  | nil => rfl
  | cons x r ih =>
    rw [List.getLastD_cons, List.dropLast_cons_cons, List.cons_append, ← ih x]

/-- **`InsertAfter(fromLeft, new)` is the RGA insertion on cells** -/
theorem insert_abs {s : TextSt} (nd : (ids s).Nodup) (ndc : (cids (abs s)).Nodup)
    {A K D : TextSt} {cur : TNode} (hs : s = A ++ cur :: (K ++ D)) {a : Option Id}
    (hends : EndsAt cur A a) {ts : Ticket} (hK : ∀ x ∈ K, x.id.1.after ts = true)
    (hD : ∀ d D', D = d :: D' → d.id.1.after ts = false ∧ d.units ≠ []) (new : TNode) :
    abs (insertAfterId s (K.getLastD cur).id new) = insAfter a ts (absNode new) (abs s) := by
  -- the block side
  have hL : insertAfterId s (K.getLastD cur).id new = A ++ cur :: (K ++ new :: D) := by
    have e : s = (A ++ (cur :: K).dropLast) ++ K.getLastD cur :: D := by
      rw [hs, List.append_assoc]
      congr 1
      rw [← List.cons_append, cons_getLastD cur K]; simp
    have hnot : (K.getLastD cur).id ∉ ids (A ++ (cur :: K).dropLast) := by
      rw [e] at nd
      exact (nodup_decomp nd).1
    rw [e, insertAfterId_append hnot, List.append_assoc]
    congr 1
    rw [← List.cons_append, cons_getLastD cur K]; simp
  have habs : abs s = abs (A ++ [cur]) ++ (abs K ++ abs D) := by
    rw [hs, ← abs_append, ← abs_append]; simp
  rw [hL]
  have hLabs : abs (A ++ cur :: (K ++ new :: D)) =
      abs (A ++ [cur]) ++ (abs K ++ (absNode new ++ abs D)) := by
    rw [show A ++ cur :: (K ++ new :: D) = (A ++ [cur]) ++ (K ++ new :: D) by simp,
      abs_append (A ++ [cur]), abs_append K, abs_cons new]
  rw [hLabs, habs]
  have hskip : insSkip ts (absNode new) (abs K ++ abs D) = abs K ++ (absNode new ++ abs D) := by
    rw [insSkip_all_newer (abs_newer hK), insSkip_abs_older hD]
  cases a with
  | none =>
    obtain ⟨hA, hu⟩ := hends
    subst hA
    have : abs ([] ++ [cur]) = [] := by
      simp only [List.nil_append, abs_cons, abs_nil, List.append_nil]
      unfold absNode; rw [hu]; rfl
    rw [this, List.nil_append, List.nil_append, insAfter_none, hskip]
  | some a =>
    obtain ⟨Pc, c, e1, e2⟩ := abs_upto hends
    rw [habs, e1] at ndc
    have hnot : a ∉ cids Pc := by
      intro hmem
      rw [cids_append, cids_append] at ndc
      have := (List.nodup_append.1 (List.nodup_append.1 ndc).1).2.2 a hmem a (by simp [e2])
      exact this rfl
    rw [e1, List.append_assoc, List.append_assoc, insAfter_append_absent hnot]
    simp only [List.singleton_append]
    rw [← e2, insAfter_cons_self, hskip]

/-! ### the right neighbours `fromRight` / `toRight`, read off the cell ids -/

/-- the first id that is not newer than `ts` -/
def firstOlder (ts : Ticket) : List Id → Option Id
  | [] => none
  | i :: r => if i.1.after ts then firstOlder ts r else some i

theorem firstOlder_append_newer {ts : Ticket} {Y : List Id} (h : ∀ y ∈ Y, y.1.after ts = true) (Z : List Id) :
    firstOlder ts (Y ++ Z) = firstOlder ts Z := by
  induction Y with
  | nil => rfl
  | cons y Y' ih =>
    simp only [List.cons_append, firstOlder]
    rw [if_pos (h y (by simp)), ih (fun z hz => h z (List.mem_cons_of_mem _ hz))]

theorem firstOlder_abs_older {ts : Ticket} {D : TextSt}
    (hD : ∀ d D', D = d :: D' → d.id.1.after ts = false ∧ d.units ≠ []) :
    firstOlder ts (cids (abs D)) = D.head?.map (·.id) := by
  cases D with
  | nil => rfl
  | cons d D' =>
    obtain ⟨h1, h2⟩ := hD d D' rfl
    rw [abs_cons]
    unfold absNode
    cases hu : d.units with
    | nil => exact absurd hu h2
    | cons u r =>
      simp only [mkCells, List.cons_append, cids_cons, firstOlder, h1, Bool.false_eq_true, if_false,
        List.head?_cons, Option.map_some]

/-- **the right neighbour is determined by the cell ids alone** (so it survives later splits) -/
theorem right_eq_firstOlder {s : TextSt} (wf : WFg s) {A K D : TextSt} {cur : TNode}
    (hs : s = A ++ cur :: (K ++ D)) {a : Option Id} (hends : EndsAt cur A a) {ts : Ticket}
    (hK : ∀ x ∈ K, x.id.1.after ts = true)
    (hD : ∀ d D', D = d :: D' → d.id.1.after ts = false ∧ d.units ≠ []) :
    D.head?.map (·.id) = firstOlder ts (dropAfterO a (cids (abs s))) := by
  rw [dropAfterO_struct wf hs hends, abs_append, cids_append,
    firstOlder_append_newer (fun y hy => by
      obtain ⟨c, hc, e⟩ := List.mem_map.1 hy
      rw [← e]; exact abs_newer hK c hc),
    firstOlder_abs_older hD]

/-! ### boundaries persist -/

theorem splitCell_bnd_false {a : Id} {c : Cell} (h : (splitCell a c).bnd = false) : c.bnd = false := by
  unfold splitCell at h
  split at h
  · exact h
  · split at h
    · cases h
    · exact h

theorem hasOpen_splitAfter_self (t : Id) (l : Cells) : hasOpen (nxt t) (splitAfter t l) = false := by
  unfold splitAfter
  by_cases h : hasOpen (nxt t) l = true
  · rw [if_pos h]
    cases h' : hasOpen (nxt t) (l.map (splitCell t)) with
    | false => rfl
    | true =>
      exfalso
      obtain ⟨c, hc, e, hb⟩ := hasOpen_iff.1 h'
      obtain ⟨c', _, rfl⟩ := List.mem_map.1 hc
      rw [splitCell_id] at e
      unfold splitCell at hb
      rw [if_neg (by rw [e]; exact nxt_ne t), if_pos e] at hb
      cases hb
  · rw [if_neg h]; simpa using h

theorem hasOpen_splitAfter_mono {q : Id} {l : Cells} (h : hasOpen q l = false) (a : Id) :
    hasOpen q (splitAfter a l) = false := by
  unfold splitAfter
  split
  · cases h' : hasOpen q (l.map (splitCell a)) with
    | false => rfl
    | true =>
      exfalso
      obtain ⟨c, hc, e, hb⟩ := hasOpen_iff.1 h'
      obtain ⟨c', hc', rfl⟩ := List.mem_map.1 hc
      rw [splitCell_id] at e
      have : hasOpen q l = true := hasOpen_iff.2 ⟨c', hc', e, splitCell_bnd_false hb⟩
      rw [h] at this; cases this
  · exact h

theorem hasOpen_splitAfterO_mono {q : Id} {l : Cells} (h : hasOpen q l = false) (a : Option Id) :
    hasOpen q (splitAfterO a l) = false := by
  cases a with
  | none => exact h
  | some a => exact hasOpen_splitAfter_mono h a

/-- a cell with a boundary after it is the last cell of its block -/
theorem struct_of_anchor {s : TextSt} (wf : WFg s) {a : Option Id}
    (h : ∀ t, a = some t → t ∈ cids (abs s) ∧ hasOpen (nxt t) (abs s) = false) :
    ∃ A b C, s = A ++ b :: C ∧ EndsAt b A a := by
  cases a with
  | none =>
    obtain ⟨hd, r, hs, _, hu⟩ := wf.head
    exact ⟨[], hd, r, hs, rfl, hu⟩
  | some t =>
    obtain ⟨hmem, hclosed⟩ := h t rfl
    obtain ⟨m, hm, h1, h2, h3⟩ := block_of_cell hmem
    obtain ⟨A, C, hs⟩ := mem_split hm
    refine ⟨A, m, C, hs, h1, ?_, by omega⟩
    apply Classical.byContradiction
    intro hne
    have hin : (m.id.1, t.2 + 1) ∈ cids (absNode m) := mem_cids_absNode (by omega) (by omega)
    obtain ⟨c, hc, e⟩ := List.mem_map.1 hin
    have hb := (mem_absNode hc).2.2.2
    have : hasOpen (nxt t) (abs s) = true := by
      apply hasOpen_iff.2
      refine ⟨c, mem_abs.2 ⟨m, hm, hc⟩, ?_, ?_⟩
      · rw [e, h1]; rfl
      · rw [hb, e]; simp only [decide_eq_false_iff_not]; omega
    rw [hclosed] at this; cases this

/-! ### `between` -/

theorem locate_id {s : TextSt} {i : Id} {n : TNode} {rest : TextSt} (h : locate s i = some (n, rest)) :
    n.id = i := by
  induction s with
  | nil => cases h
  | cons x r ih =>
    unfold locate at h
    split at h
    · injection h with h; injection h with h1 _; subst h1; assumption
    · exact ih h

theorem between_same (s : TextSt) (x : Option Id) : between s x x = [] := by
  unfold between
  cases x with
  | none => rfl
  | some i =>
    simp only
    cases h : locate s i with
    | none => rfl
    | some p =>
      obtain ⟨n, rest⟩ := p
      simp only
      rw [List.takeWhile_cons, locate_id h]
      simp

/-- when the stop id is not among the candidates, everything up to the end is taken -/
theorem between_all {L M : TextSt} (nd : (ids (L ++ M)).Nodup) {y : Option Id}
    (hy : ∀ j, y = some j → j ∉ ids M) :
    between (L ++ M) (M.head?.map (·.id)) y = ids M := by
  cases M with
  | nil => rfl
  | cons d M' =>
    have hd : d.id ∉ ids L := (nodup_decomp nd).1
    simp only [List.head?_cons, Option.map_some, between]
    rw [locate_append hd]
    simp only
    have tw : ∀ (Q : TextSt), (∀ m ∈ Q, (some m.id != y) = true) →
        Q.takeWhile (fun m => some m.id != y) = Q := by
      intro Q hQ
      induction Q with
      | nil => rfl
      | cons q Q' ih =>
        rw [List.takeWhile_cons, hQ q (by simp), if_pos rfl,
          ih (fun m hm => hQ m (List.mem_cons_of_mem _ hm))]
    rw [tw]
    · rfl
    · intro m hm
      cases y with
      | none => simp
      | some j =>
        have := hy j rfl
        simp only [bne_iff_ne, ne_eq, Option.some.injEq]
        intro e; exact this (e ▸ mem_ids hm)

theorem applyTo_nil (g : TNode → TNode) (s : TextSt) : s.map (applyTo [] g) = s := by
  rw [List.map_congr_left (g := id)]
  · simp
  · intro m _; exact applyTo_not_mem (by simp)

end Yorkie.TextConv
