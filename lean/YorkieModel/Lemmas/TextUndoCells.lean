/-
Text undo/redo: the character-level coordinates used by the depth-k invariant (core Lean only).

A CELL is one UTF-16 unit of one insertion: `(createdAt, offset)`. Cells never disappear (no GC), never
change their relative order, and later splits only re-chunk them; undo/redo only flips their
liveness. So a liveness function `B : Id → Bool` on cells is a coordinate-free description of "what
was visible at some earlier moment", and `projC B s` reads the content `B` selects off the CURRENT
block list. Units themselves can only DEGRADE (a split inside a surrogate pair turns both halves into
U+FFFD): `Degr old new`.
-/
import YorkieModel.Lemmas.TextUndoDefs
namespace Yorkie.TextUndo
open Yorkie Yorkie.Text

/-- cell `c` lies in the identity range of the span -/
def inSpanC (sp : Span) (c : Id) : Bool :=
  c.1 = sp.ca && decide (sp.start ≤ c.2) && decide (c.2 < sp.stop)

def inAny (sps : List Span) (c : Id) : Bool := sps.any (fun sp => inSpanC sp c)

/-- is cell `c` covered by a live block? -/
def liveAt (s : TextSt) (c : Id) : Bool := s.any (fun n => n.live && covers c.1 c.2 n)

/-- liveness after "re-remove `off`, then revive `on`" (the order of `Edit.Execute`) -/
def assign (on off : List Span) (L : Id → Bool) : Id → Bool :=
  fun c => if inAny on c then true else if inAny off c then false else L c

/-- the units of one block selected by `B`; `off` is the offset of the first unit -/
def cellUnits (B : Id → Bool) (ca : Ticket) : Nat → List Nat → List Nat
  | _, [] => []
  | off, u :: r => (if B (ca, off) then [u] else []) ++ cellUnits B ca (off + 1) r

/-- the content the liveness function `B` selects from the block list -/
def projC (B : Id → Bool) : TextSt → List Nat
  | [] => []
  | n :: r => cellUnits B n.id.1 n.id.2 n.units ++ projC B r

/-- `new` is `old` with some surrogate units degraded to U+FFFD (same length) -/
def Degr : List Nat → List Nat → Prop
  | [], [] => True
  | a :: as, b :: bs => (b = a ∨ (isSurr a = true ∧ b = 0xFFFD)) ∧ Degr as bs
  | _, _ => False

/-- effect of executing one stacked reverse on the liveness of cells (`noop`/`style`: none) -/
def effRev (r : TRev) (L : Id → Bool) : Id → Bool :=
  match r with
  | .spans _ restore .restore retomb => assign restore retomb L
  | .spans _ restore .retombstone retomb => assign retomb restore L
  | .noop _ _ => L
  | .style _ _ _ _ => L

/-- effect of an entry (operations run in list order) -/
def effEntry (e : List TRev) (L : Id → Bool) : Id → Bool := e.foldl (fun l r => effRev r l) L

end Yorkie.TextUndo
