/-
Helper lemmas for C11: which documents a request can write to (log rows, removed flag), and that
the writer holds the document.
-/
import YorkieModel.Lemmas.ServerDelivery
namespace Yorkie.Server
open Yorkie

def removedOf (s : Server) (d : DocId) : Bool :=
  match s.findDoc d with
  | some x => x.removed
  | none => false

/-- the request did not write to document `d` (no row appended, removed flag untouched) -/
def SameDoc (s s' : Server) (d : DocId) : Prop :=
  storedLog s' d = storedLog s d ∧ removedOf s' d = removedOf s d

theorem SameDoc.refl (s : Server) (d : DocId) : SameDoc s s d := ⟨rfl, rfl⟩

theorem SameDoc.trans {a b c : Server} {d : DocId} (h1 : SameDoc a b d) (h2 : SameDoc b c d) : SameDoc a c d :=
  ⟨h2.1.trans h1.1, h2.2.trans h1.2⟩

theorem SameDoc.of_findDoc {s s' : Server} {d : DocId} (h : s'.findDoc d = s.findDoc d) : SameDoc s s' d := by
  simp only [SameDoc, storedLog, removedOf, h, and_self]

theorem SameDoc.of_docs {s s' : Server} (h : s'.docs = s.docs) (d : DocId) : SameDoc s s' d :=
  SameDoc.of_findDoc (by simp only [Server.findDoc, h])

theorem findDoc_docs_set {s s' : Server} {d : DocId} {x : Doc} (h : s'.docs = s.docs.set d x) (d' : DocId) :
    s'.findDoc d' = if d = d' then some x else s.findDoc d' := by
  simp only [Server.findDoc, h, AL.get?_set]

/-- `PushPull` writes to no document but its own -/
theorem pushPull_sameDoc {s s' : Server} {f : Flight} {x : Except ErrKind Flight} {loaded : Client}
    (h : pushPull s f = (s', x)) (hc : s.findClient f.client = some loaded) (d : DocId) (hd : d ≠ f.doc) :
    SameDoc s s' d := by
  cases x with
  | error e =>
    obtain ⟨_, _, _, _, hdocs⟩ := pushPull_err h hc
    rcases hdocs with hdd | ⟨doc, p, _, _, hdd⟩
    · exact SameDoc.of_docs hdd d
    · exact SameDoc.of_findDoc (by rw [findDoc_docs_set hdd, if_neg (Ne.symm hd)])
  | ok f' =>
    obtain ⟨_, _, _, _, _, _, _, _, _, _, _, hdocs, _⟩ := ppok_target (pushPull_ppok h)
    exact SameDoc.of_findDoc (by rw [findDoc_docs_set hdocs, if_neg (Ne.symm hd)])

theorem findOrCreateDoc_sameDoc (s : Server) (hw : WF s) (key : Nat) (dp : Bool) (d : DocId) :
    SameDoc s (findOrCreateDoc s key dp).1 d := by
  unfold findOrCreateDoc
  split
  · exact SameDoc.refl s d
  · by_cases hd : s.nextDoc = d
    · subst hd
      have hn : s.findDoc s.nextDoc = none := by
        cases hx : s.findDoc s.nextDoc with
        | none => rfl
        | some x => exact absurd (hw.docs _ _ hx) (Nat.lt_irrefl _)
      simp only [Server.findDoc] at hn
      simp [SameDoc, storedLog, removedOf, Server.findDoc, AL.get?_set_self, hn]
    · exact SameDoc.of_findDoc (by simp only [Server.findDoc, AL.get?_set, hd, if_false])

theorem clusterDetach_sameDoc {s s' : Server} {c : ClientId} {d : DocId} {x : Except ErrKind Unit}
    (h : clusterDetach s c d = (s', x)) (d' : DocId) (hd : d' ≠ d) : SameDoc s s' d' := by
  unfold clusterDetach at h
  split at h
  · injection h with h1 _; subst h1; exact SameDoc.refl _ _
  · next info hi =>
    obtain ⟨hcl, _⟩ := findActiveClient_ok hi
    split at h
    · injection h with h1 _; subst h1; exact SameDoc.refl _ _
    · split at h
      · injection h with h1 _; subst h1; exact SameDoc.refl _ _
      · split at h
        · next s2 f' hpp =>
          injection h with h1 _; subst h1
          exact pushPull_sameDoc hpp (by simpa using hcl) d' (by simpa using hd)
        · next s2 e hpp =>
          injection h with h1 _; subst h1
          exact pushPull_sameDoc hpp (by simpa using hcl) d' (by simpa using hd)

theorem clusterDetachAll_sameDoc (c : ClientId) (s : Server) (ds : List DocId) (d' : DocId) (hd : d' ∉ ds) :
    SameDoc s (clusterDetachAll c s ds).1 d' := by
  induction ds generalizing s with
  | nil => exact SameDoc.refl _ _
  | cons d r ih =>
    have h1 : d' ≠ d := fun h => hd (h ▸ List.mem_cons_self ..)
    have h2 : d' ∉ r := fun h => hd (List.mem_cons_of_mem _ h)
    unfold clusterDetachAll
    split
    · next s' _ hcd => exact (clusterDetach_sameDoc hcd d' h1).trans (ih s' h2)
    · next s' e hcd => exact clusterDetach_sameDoc hcd d' h1

theorem dbDeactivate_docs (s : Server) (c : ClientId) : (dbDeactivate s c).1.docs = s.docs := by
  unfold dbDeactivate
  split
  · rfl
  · split
    · rfl
    · split <;> rfl

theorem mem_dedup {a : Nat} {l : List Nat} (h : a ∈ dedup l) : a ∈ l := by
  induction l with
  | nil => simp [dedup] at h
  | cons x r ih =>
    simp only [dedup] at h
    split at h
    · exact List.mem_cons_of_mem _ (ih h)
    · rcases List.mem_cons.mp h with rfl | h
      · exact List.mem_cons_self ..
      · exact List.mem_cons_of_mem _ (ih h)

theorem dedup_nodup (l : List Nat) : (dedup l).Nodup := by
  induction l with
  | nil => simp [dedup]
  | cons x r ih =>
    simp only [dedup]
    split
    · exact ih
    · next hx =>
      refine List.nodup_cons.mpr ⟨fun hm => ?_, ih⟩
      have := mem_dedup hm
      simp at hx
      exact hx this

theorem openDocs_nodup (i : Client) (order : List DocId) : (openDocs i order).Nodup := dedup_nodup _

/-- every document `Deactivate` detaches is open in the client's stored row -/
theorem mem_openDocs {i : Client} {order : List DocId} {d : DocId} (h : d ∈ openDocs i order) :
    isOpenAt i d = true := by
  have hmem : d ∈ openIds i := by
    simp only [openDocs] at h
    have := mem_dedup h
    rw [List.mem_append] at this
    rcases this with h | h
    · simp only [List.mem_filter, List.contains_eq_mem, decide_eq_true_eq] at h
      exact h.2
    · exact (List.mem_filter.mp h).1
  simp only [openIds, List.mem_filter] at hmem
  exact hmem.2

end Yorkie.Server
