/-
Text convergence, part 7: `findBetween` + the per-node loop of `edit`/`style` refine `rmap`.
Core Lean only.
-/
import YorkieModel.Lemmas.TextConvRefine
set_option linter.unusedSimpArgs false
namespace Yorkie.TextConv
open Yorkie Yorkie.Text

/-! ### `mapOn` by segments -/

theorem mapOn_append (R : List Id) (f : Cell → Cell) (a b : Cells) :
    mapOn R f (a ++ b) = mapOn R f a ++ mapOn R f b := by simp [mapOn]

theorem mapOn_id_of {R : List Id} {f : Cell → Cell} {l : Cells} (h : ∀ c ∈ l, c.id ∈ R → f c = c) :
    mapOn R f l = l := by
  unfold mapOn
  rw [List.map_congr_left (g := id)]
  · simp
  · intro c hc; simp only [id]; split
    · exact h c hc ‹_›
    · rfl

theorem mapOn_all_of {R : List Id} {f : Cell → Cell} {l : Cells} (h : ∀ c ∈ l, c.id ∉ R → f c = c) :
    mapOn R f l = l.map f := by
  unfold mapOn
  apply List.map_congr_left
  intro c hc; split
  · rfl
  · exact (h c hc ‹_›).symm

theorem mapOn_nil (f : Cell → Cell) (l : Cells) : mapOn [] f l = l :=
  mapOn_id_of (fun _ _ h => by cases h)

/-! ### node functions and their cell functions -/

theorem abs_map_node {g : TNode → TNode} {f : Cell → Cell}
    (hg : ∀ n, absNode (g n) = (absNode n).map f) (M : TextSt) : abs (M.map g) = (abs M).map f := by
  induction M with
  | nil => rfl
  | cons n r ih => simp only [List.map_cons, abs_cons, hg, ih, List.map_append]

/-- the common last step: the nodes `M` in the middle get `g`; on cells that is `mapOn R f` for any id
    set `R` that agrees with "the cells of `M`" up to cells that `f` does not change -/
theorem mid_abs {s L M R : TextSt} (hs : s = L ++ (M ++ R)) (nd : (ids s).Nodup)
    {g : TNode → TNode} {f : Cell → Cell} (hg : ∀ n, absNode (g n) = (absNode n).map f)
    {Rg : List Id}
    (hL : ∀ c ∈ abs L, c.id ∈ Rg → f c = c) (hM : ∀ c ∈ abs M, c.id ∉ Rg → f c = c)
    (hR : ∀ c ∈ abs R, c.id ∈ Rg → f c = c) :
    abs (s.map (applyTo (ids M) g)) = mapOn Rg f (abs s) := by
  rw [hs] at nd ⊢
  rw [map_applyTo_mid nd g, abs_append, abs_append, abs_map_node hg, abs_append, abs_append,
    mapOn_append, mapOn_append, mapOn_id_of hL, mapOn_all_of hM, mapOn_id_of hR]

/-! ### list surgery -/

/-- a list that starts with newer nodes cannot have an older node inside that prefix -/
theorem split_older {ts : Ticket} {K D X R1 : TextSt} {b : TNode} (h : K ++ D = X ++ b :: R1)
    (hK : ∀ x ∈ K, x.id.1.after ts = true) (hb : b.id.1.after ts = false) :
    ∃ D1, X = K ++ D1 ∧ D = D1 ++ b :: R1 := by
  rcases List.append_eq_append_iff.1 h with ⟨a', h1, h2⟩ | ⟨c', h1, h2⟩
  · exact ⟨a', h1, h2⟩
  · cases c' with
    | nil =>
      simp only [List.nil_append] at h2
      exact ⟨[], by simpa using h1.symm, h2.symm⟩
    | cons x c =>
      simp only [List.cons_append, List.cons.injEq] at h2
      have : b ∈ K := by rw [h1, h2.1]; simp
      have := hK b this
      rw [hb] at this; cases this

theorem disj_cids {s : TextSt} (wf : WFg s) {P Q : TextSt} (h : s = P ++ Q) {i : Id}
    (h1 : i ∈ cids (abs P)) (h2 : i ∈ cids (abs Q)) : False := by
  have nd := nodup_cids_abs wf
  rw [h, abs_append, cids_append] at nd
  exact (List.nodup_append.1 nd).2.2 i h1 i h2 rfl

theorem mem_cids_of_mem {c : Cell} {l : Cells} (h : c ∈ l) : c.id ∈ cids l := List.mem_map.2 ⟨c, h, rfl⟩

theorem cids_abs_sub_append_left {P Q : TextSt} {i : Id} (h : i ∈ cids (abs P)) : i ∈ cids (abs (P ++ Q)) := by
  rw [abs_append, cids_append]; exact List.mem_append_left _ h
theorem cids_abs_sub_append_right {P Q : TextSt} {i : Id} (h : i ∈ cids (abs Q)) : i ∈ cids (abs (P ++ Q)) := by
  rw [abs_append, cids_append]; exact List.mem_append_right _ h

/-- two anchors with the same block are the same anchor -/
theorem endsAt_inj {cur : TNode} {A : TextSt} {a b : Option Id} (ha : EndsAt cur A a) (hb : EndsAt cur A b) :
    a = b := by
  cases a with
  | none =>
    cases b with
    | none => rfl
    | some j =>
      obtain ⟨_, hu⟩ := ha
      obtain ⟨_, _, h3⟩ := hb
      unfold TNode.len at h3; rw [hu] at h3; simp at h3
  | some i =>
    cases b with
    | none =>
      obtain ⟨_, hu⟩ := hb
      obtain ⟨_, _, h3⟩ := ha
      unfold TNode.len at h3; rw [hu] at h3; simp at h3
    | some j =>
      obtain ⟨a1, a2, _⟩ := ha
      obtain ⟨b1, b2, _⟩ := hb
      congr 1
      apply Prod.ext
      · rw [← a1, ← b1]
      · omega

/-- the hypotheses describing the list around one anchor after `findNodeWithSplit` -/
structure Around (s : TextSt) (ts : Ticket) (a : Option Id) (A : TextSt) (cur : TNode) (K D : TextSt) :
    Prop where
  eq : s = A ++ cur :: (K ++ D)
  ends : EndsAt cur A a
  newer : ∀ x ∈ K, x.id.1.after ts = true
  older : ∀ d D', D = d :: D' → d.id.1.after ts = false ∧ d.units ≠ []
  anchorOld : ∀ i, a = some i → i.1.after ts = false

theorem Around.cur_old {s : TextSt} {ts : Ticket} {a : Option Id} {A K D : TextSt} {cur : TNode}
    (h : Around s ts a A cur K D) (hA : A ≠ []) : cur.id.1.after ts = false := by
  cases a with
  | none => exact absurd h.ends.1 hA
  | some i => rw [h.ends.1]; exact h.anchorOld i rfl

/-- **the range loop on blocks is `rmap` on cells** -/
theorem range_abs {s : TextSt} (wf : WFg s) {ts : Ticket} {F T : Option Id}
    {AF KF DF : TextSt} {curF : TNode} (hF : Around s ts F AF curF KF DF)
    {AT KT DT : TextSt} {bT : TNode} (hT : Around s ts T AT bT KT DT)
    {g : TNode → TNode} {f : Cell → Cell} (hg : ∀ n, absNode (g n) = (absNode n).map f)
    (hfix : ∀ n ∈ s, n.id.1.after ts = true → ∀ c ∈ absNode n, f c = c) :
    abs (s.map (applyTo (between s (DF.head?.map (·.id)) (DT.head?.map (·.id))) g)) =
      rmap F T f (abs s) := by
  have nd := wf.nodup
  have fixK : ∀ {K : TextSt}, (∀ x ∈ K, x ∈ s) → (∀ x ∈ K, x.id.1.after ts = true) →
      ∀ c ∈ abs K, f c = c := by
    intro K hsub hK c hc
    obtain ⟨n, hn, hcn⟩ := mem_abs.1 hc
    exact hfix n (hsub n hn) (hK n hn) c hcn
  have subF : ∀ x ∈ KF, x ∈ s := by intro x hx; rw [hF.eq]; simp [hx]
  have subT : ∀ x ∈ KT, x ∈ s := by intro x hx; rw [hT.eq]; simp [hx]
  unfold rmap
  rw [rangeIds_eq]
  by_cases hFT : F = T
  · -- same anchor: nothing in between
    subst hFT
    rw [right_eq_firstOlder wf hF.eq hF.ends hF.newer hF.older,
      right_eq_firstOlder wf hT.eq hT.ends hT.newer hT.older, between_same, applyTo_nil,
      if_pos rfl, mapOn_nil]
  rw [if_neg hFT, dropAfterO_struct wf hF.eq hF.ends]
  have hsFabs : s = (AF ++ [curF]) ++ (KF ++ DF) := by rw [hF.eq]; simp
  rcases decomp_cases (hF.eq.symm.trans hT.eq) with ⟨e1, e2, _⟩ | ⟨X, e1, e2⟩ | ⟨X, e1, e2⟩
  · -- same block: impossible for different anchors
    exfalso
    subst e1; subst e2
    exact hFT (endsAt_inj hF.ends hT.ends)
  · -- `to` is to the left of `from`: everything after `from` up to the end
    have hAF : AF ≠ [] := by rw [e1]; simp
    have hcurOld := hF.cur_old hAF
    obtain ⟨D1, hX, hDT⟩ := split_older e2 hT.newer hcurOld
    -- the stop id is not among the candidates
    have hstop : ∀ j, DT.head?.map (·.id) = some j → j ∉ ids DF := by
      intro j hj hmem
      have hjin : j ∈ ids (AF ++ [curF]) := by
        rw [hDT] at hj
        cases D1 with
        | nil =>
          simp only [List.nil_append, List.head?_cons, Option.map_some, Option.some.injEq] at hj
          rw [← hj]; simp
        | cons d D1' =>
          simp only [List.cons_append, List.head?_cons, Option.map_some, Option.some.injEq] at hj
          rw [← hj, e1, hX]; simp
      have nd' := nd
      rw [hsFabs, ids_append] at nd'
      have hmem' : j ∈ ids (KF ++ DF) := by rw [ids_append]; exact List.mem_append_right _ hmem
      exact (List.nodup_append.1 nd').2.2 j hjin j hmem' rfl
    have hsL : s = (AF ++ curF :: KF) ++ DF := by rw [hF.eq]; simp
    have hbet : between s (DF.head?.map (·.id)) (DT.head?.map (·.id)) = ids DF := by
      have nd' := nd
      rw [hsL] at nd'
      conv => lhs; rw [hsL]
      exact between_all nd' hstop
    rw [hbet]
    -- the range on cells
    have hRg : takeThroughO T (cids (abs (KF ++ DF))) = cids (abs (KF ++ DF)) := by
      cases T with
      | none => rfl
      | some t =>
        simp only [takeThroughO]
        apply takeThrough_absent
        intro hmem
        obtain ⟨P, hP⟩ := cids_upto hT.ends
        have ht : t ∈ cids (abs (AF ++ [curF])) := by
          rw [e1]
          have : t ∈ cids (abs (AT ++ [bT])) := by rw [hP]; simp
          rw [show AT ++ bT :: X ++ [curF] = (AT ++ [bT]) ++ (X ++ [curF]) by simp]
          exact cids_abs_sub_append_left this
        exact disj_cids wf hsFabs ht hmem
    rw [hRg]
    have hs3 : s = (AF ++ curF :: KF) ++ (DF ++ []) := by rw [hF.eq]; simp
    apply mid_abs hs3 nd hg
    · intro c hc hin
      rw [show AF ++ curF :: KF = (AF ++ [curF]) ++ KF by simp, abs_append] at hc
      rcases List.mem_append.1 hc with hc | hc
      · exact (disj_cids wf hsFabs (mem_cids_of_mem hc) hin).elim
      · exact fixK subF hF.newer c hc
    · intro c hc hnot
      exact (hnot (cids_abs_sub_append_right (mem_cids_of_mem hc))).elim
    · intro c hc; cases hc
  · -- `from` is to the left of `to`
    have hAT : AT ≠ [] := by rw [e1]; simp
    have hbOld := hT.cur_old hAT
    obtain ⟨D1, hX, hDF⟩ := split_older e2 hF.newer hbOld
    obtain ⟨t, rfl⟩ : ∃ t, T = some t := by
      cases T with
      | none => exact absurd hT.ends.1 hAT
      | some t => exact ⟨t, rfl⟩
    have hs3 : s = (AF ++ curF :: KF) ++ ((D1 ++ bT :: KT) ++ DT) := by
      rw [hF.eq, hDF]; simp
    have hbet : between s (DF.head?.map (·.id)) (DT.head?.map (·.id)) = ids (D1 ++ bT :: KT) := by
      have nd' := nd
      rw [hs3] at nd'
      conv => lhs; rw [hs3]
      have : DF = (D1 ++ bT :: KT) ++ DT := by rw [hDF]; simp
      rw [this]
      exact between_spec nd'
    rw [hbet]
    -- the range on cells
    have hsplit : KF ++ DF = ((KF ++ D1) ++ [bT]) ++ (KT ++ DT) := by rw [hDF]; simp
    have hendsT : EndsAt bT (KF ++ D1) (some t) := hT.ends
    obtain ⟨P, hP⟩ := cids_upto hendsT
    have hsAll : s = ((AF ++ [curF]) ++ ((KF ++ D1) ++ [bT])) ++ (KT ++ DT) := by
      rw [hF.eq, hDF]; simp
    have hRg : takeThroughO (some t) (cids (abs (KF ++ DF))) = cids (abs ((KF ++ D1) ++ [bT])) := by
      simp only [takeThroughO]
      rw [hsplit, abs_append, cids_append, hP, List.append_assoc]
      simp only [List.singleton_append]
      apply takeThrough_at
      intro hmem
      have ndc := nodup_cids_abs wf
      rw [hsAll, abs_append, abs_append, cids_append, cids_append, hP] at ndc
      have := (List.nodup_append.1 (List.nodup_append.1 (List.nodup_append.1 ndc).1).2.1).2.2
        t hmem t (by simp)
      exact this rfl
    rw [hRg]
    apply mid_abs hs3 nd hg
    · intro c hc hin
      rw [show AF ++ curF :: KF = (AF ++ [curF]) ++ KF by simp, abs_append] at hc
      rcases List.mem_append.1 hc with hc | hc
      · have : c.id ∈ cids (abs (KF ++ DF)) := by
          rw [hsplit]; exact cids_abs_sub_append_left hin
        exact (disj_cids wf hsFabs (mem_cids_of_mem hc) this).elim
      · exact fixK subF hF.newer c hc
    · intro c hc hnot
      rw [show D1 ++ bT :: KT = (D1 ++ [bT]) ++ KT by simp, abs_append] at hc
      rcases List.mem_append.1 hc with hc | hc
      · exfalso; apply hnot
        rw [show (KF ++ D1) ++ [bT] = KF ++ (D1 ++ [bT]) by simp]
        exact cids_abs_sub_append_right (mem_cids_of_mem hc)
      · exact fixK subT hT.newer c hc
    · intro c hc hin
      have h1 : c.id ∈ cids (abs ((AF ++ [curF]) ++ ((KF ++ D1) ++ [bT]))) :=
        cids_abs_sub_append_right hin
      have h2 : c.id ∈ cids (abs (KT ++ DT)) := cids_abs_sub_append_right (mem_cids_of_mem hc)
      exact (disj_cids wf hsAll h1 h2).elim

end Yorkie.TextConv
