/- Concrete histories behind the C03 / C02 negation witnesses.  Each is the operation / purge stream one
   replica executed in the corpus trace named beside it (generated from the replayed trace, not invented). -/
import YorkieModel.Model.FDoc
namespace Yorkie.FDoc.Witness
open Yorkie Yorkie.FDoc Yorkie.Crdt

def errOf : Except Err Root → Option Err
  | .error e => some e
  | .ok _ => none

/-- visible order of array `a` after the run -/
def contentOf (x : Except Err Root) (a : Ticket) : Option (List Ticket) :=
  match x with
  | .ok r => some (arrayContent r a)
  | .error _ => none

/-- live members of object `o` (key order) as child tickets -/
def membersOf (r : Root) (o : Ticket) : List Ticket :=
  match r.get o with
  | some e => match e.body with
    | .obj _ byKey => (liveMembers r byKey).map (·.2)
    | _ => []
  | none => []

/-- live members of `o` after the run, `f` applied to the final root first -/
def membersAfter (x : Except Err Root) (f : Root → Root) (o : Ticket) : Option (List Ticket) :=
  match x with
  | .ok r => some (membersOf (f r) o)
  | .error _ => none

def mapOk (x : Except Err Root) (f : Root → Root) : Except Err Root :=
  match x with
  | .ok r => .ok (f r)
  | .error e => .error e

def arr : Ticket := ⟨1, 1, 1⟩

/-- corpus/C03/fdoc-append-after-own-delete.trace, replica g1 -/
def appendAfterOwnDelete : List Step := [
  .op (.set ⟨0, 0, 0⟩ "a" .newArr ⟨1, 1, 1⟩),
  .op (.add ⟨1, 1, 1⟩ ⟨0, 0, 0⟩ (.prim "1") ⟨2, 1, 1⟩),
  .op (.add ⟨1, 1, 1⟩ ⟨2, 1, 1⟩ (.prim "2") ⟨3, 1, 1⟩),
  .gc [(1, 0)],
  .op (.remove ⟨1, 1, 1⟩ ⟨3, 1, 1⟩ ⟨4, 1, 1⟩),
  .gc [(1, 3), (2, 0)],
  .gc [(1, 4), (2, 0)],
  .op (.add ⟨1, 1, 1⟩ ⟨3, 1, 1⟩ (.prim "3") ⟨5, 1, 1⟩)
]

/-- corpus/C03/fdoc-reparent.trace, replica g0 -/
def reparent : List Step := [
  .op (.set ⟨0, 0, 0⟩ "a" .newArr ⟨1, 1, 1⟩),
  .op (.add ⟨1, 1, 1⟩ ⟨0, 0, 0⟩ (.prim "1") ⟨2, 1, 1⟩),
  .op (.add ⟨1, 1, 1⟩ ⟨2, 1, 1⟩ (.prim "2") ⟨3, 1, 1⟩),
  .gc [(1, 0)],
  .op (.remove ⟨1, 1, 1⟩ ⟨3, 1, 1⟩ ⟨4, 1, 1⟩),
  .gc [(1, 0)],
  .op (.set ⟨0, 0, 0⟩ "b" (.prim "0") ⟨5, 1, 2⟩),
  .op (.set ⟨0, 0, 0⟩ "b" (.prim "1") ⟨6, 1, 2⟩),
  .op (.set ⟨0, 0, 0⟩ "b" (.prim "2") ⟨7, 1, 2⟩),
  .op (.set ⟨0, 0, 0⟩ "b" (.prim "3") ⟨8, 1, 2⟩),
  .op (.set ⟨0, 0, 0⟩ "b" (.prim "4") ⟨9, 1, 2⟩),
  .op (.set ⟨0, 0, 0⟩ "b" (.prim "5") ⟨10, 1, 2⟩),
  .op (.set ⟨0, 0, 0⟩ "b" (.prim "6") ⟨11, 1, 2⟩),
  .op (.set ⟨0, 0, 0⟩ "b" (.prim "7") ⟨12, 1, 2⟩),
  .op (.add ⟨1, 1, 1⟩ ⟨3, 1, 1⟩ (.prim "3") ⟨13, 1, 2⟩),
  .gc [(1, 4), (2, 0), (3, 0)],
  .op (.add ⟨1, 1, 1⟩ ⟨2, 1, 1⟩ (.prim "4") ⟨6, 1, 3⟩),
  .gc [(1, 4), (2, 0), (3, 0)]
]

/-- corpus/C03/fdoc-set-anchor-purged.trace, replica g1 (purged the dead slot before the set arrived) -/
def setAnchorPurged : List Step := [
  .op (.set ⟨0, 0, 0⟩ "a" .newArr ⟨1, 1, 1⟩),
  .op (.add ⟨1, 1, 1⟩ ⟨0, 0, 0⟩ (.prim "1") ⟨2, 1, 1⟩),
  .op (.add ⟨1, 1, 1⟩ ⟨2, 1, 1⟩ (.prim "2") ⟨3, 1, 1⟩),
  .op (.add ⟨1, 1, 1⟩ ⟨3, 1, 1⟩ (.prim "3") ⟨4, 1, 1⟩),
  .gc [(1, 0)],
  .op (.move ⟨1, 1, 1⟩ ⟨4, 1, 1⟩ ⟨2, 1, 1⟩ ⟨5, 1, 1⟩),
  .gc [(1, 4), (2, 0)],
  .gc [(1, 5), (2, 0)],
  .op (.arraySet ⟨1, 1, 1⟩ ⟨2, 1, 1⟩ (.prim "9") ⟨6, 1, 1⟩),
  .gc [(1, 5), (2, 0)]
]

/-- corpus/C03/fdoc-set-anchor-purged-single.trace, the only replica: move, the ack's min vector purges the dead slot,
    `SetInteger` on the moved element -/
def setAnchorPurgedSingle : List Step := [
  .op (.set ⟨0, 0, 0⟩ "a" .newArr ⟨1, 1, 1⟩),
  .op (.add ⟨1, 1, 1⟩ ⟨0, 0, 0⟩ (.prim "1") ⟨2, 1, 1⟩),
  .op (.add ⟨1, 1, 1⟩ ⟨2, 1, 1⟩ (.prim "2") ⟨3, 1, 1⟩),
  .op (.add ⟨1, 1, 1⟩ ⟨3, 1, 1⟩ (.prim "3") ⟨4, 1, 1⟩),
  .op (.move ⟨1, 1, 1⟩ ⟨4, 1, 1⟩ ⟨2, 1, 1⟩ ⟨5, 1, 1⟩),
  .gc [(1, 5)],
  .op (.arraySet ⟨1, 1, 1⟩ ⟨2, 1, 1⟩ (.prim "9") ⟨6, 1, 1⟩)
]

/-- corpus/C03/fdoc-losing-move-slot.trace, replica g0 -/
def losingMoveSlot : List Step := [
  .op (.set ⟨0, 0, 0⟩ "a" .newArr ⟨1, 1, 1⟩),
  .op (.add ⟨1, 1, 1⟩ ⟨0, 0, 0⟩ (.prim "1") ⟨2, 1, 1⟩),
  .op (.add ⟨1, 1, 1⟩ ⟨2, 1, 1⟩ (.prim "2") ⟨3, 1, 1⟩),
  .gc [(1, 0)],
  .op (.set ⟨0, 0, 0⟩ "b" (.prim "0") ⟨4, 1, 1⟩),
  .op (.set ⟨0, 0, 0⟩ "b" (.prim "1") ⟨5, 1, 1⟩),
  .op (.move ⟨1, 1, 1⟩ ⟨3, 1, 1⟩ ⟨2, 1, 1⟩ ⟨6, 1, 1⟩),
  .op (.move ⟨1, 1, 1⟩ ⟨3, 1, 1⟩ ⟨2, 1, 1⟩ ⟨5, 1, 2⟩),
  .gc [(1, 3), (2, 0)],
  .gc [(1, 3), (2, 5)],
  .op (.add ⟨1, 1, 1⟩ ⟨5, 1, 2⟩ (.prim "5") ⟨6, 1, 2⟩)
]

/-- corpus/C02/fdoc-array-add-anchor.trace, the server document that is encoded -/
def arrayAddAnchor : List Step := [
  .op (.set ⟨0, 0, 0⟩ "a" .newArr ⟨1, 1, 1⟩),
  .op (.add ⟨1, 1, 1⟩ ⟨0, 0, 0⟩ (.prim "1") ⟨2, 1, 1⟩),
  .op (.add ⟨1, 1, 1⟩ ⟨2, 1, 1⟩ (.prim "2") ⟨3, 1, 1⟩),
  .op (.move ⟨1, 1, 1⟩ ⟨3, 1, 1⟩ ⟨2, 1, 1⟩ ⟨4, 1, 1⟩),
  .op (.add ⟨1, 1, 1⟩ ⟨4, 1, 1⟩ (.prim "3") ⟨5, 1, 1⟩)
]

/-- corpus/C02/fdoc-lww-loser.trace, the server document (GC'd with the min vector) that is encoded -/
def lwwLoser : List Step := [
  .op (.set ⟨0, 0, 0⟩ "zz" (.prim "0") ⟨1, 1, 2⟩),
  .op (.set ⟨0, 0, 0⟩ "zz" (.prim "1") ⟨2, 1, 2⟩),
  .op (.set ⟨0, 0, 0⟩ "zz" (.prim "2") ⟨3, 1, 2⟩),
  .op (.set ⟨0, 0, 0⟩ "k" (.prim "7") ⟨4, 1, 2⟩),
  .op (.remove ⟨0, 0, 0⟩ ⟨4, 1, 2⟩ ⟨5, 1, 2⟩),
  .op (.set ⟨0, 0, 0⟩ "k" (.prim "5") ⟨1, 1, 1⟩),
  .gc [(0, 0), (1, 0), (2, 5)]
]

/-- a history that satisfies the side conditions of the partial theorems and really purges something:
    two deletes (one in the middle, one of a moved element) purged after every later anchor was delivered -/
def safeExample : List Step := [
  .op (.set ⟨0, 0, 0⟩ "a" .newArr ⟨1, 1, 1⟩),
  .op (.add ⟨1, 1, 1⟩ ⟨0, 0, 0⟩ (.prim "1") ⟨2, 1, 1⟩),
  .op (.add ⟨1, 1, 1⟩ ⟨2, 1, 1⟩ (.prim "2") ⟨3, 1, 1⟩),
  .op (.add ⟨1, 1, 1⟩ ⟨3, 1, 1⟩ (.prim "3") ⟨4, 1, 1⟩),
  .op (.remove ⟨1, 1, 1⟩ ⟨3, 1, 1⟩ ⟨5, 1, 1⟩),
  .op (.set ⟨0, 0, 0⟩ "k" (.prim "7") ⟨6, 1, 1⟩),
  .op (.set ⟨0, 0, 0⟩ "k" (.prim "8") ⟨7, 1, 1⟩),
  .gc [(1, 7)],
  .op (.add ⟨1, 1, 1⟩ ⟨4, 1, 1⟩ (.prim "4") ⟨8, 1, 1⟩)
]

/-- a history inside the scope of `gc_equiv_partial`: an array is filled and one of its elements deleted, keys are
    overwritten and deleted, a counter is increased; two purges remove four tombstones (array element, evicted
    values, a deleted key) and the dead slot of a move; after the purges the object is edited again – including a `Set` on the key whose
    deleted occupant was purged – the array is not. -/
def safeRunExample : List Step := [
  .op (.set ⟨0, 0, 0⟩ "a" .newArr ⟨1, 1, 1⟩),
  .op (.add ⟨1, 1, 1⟩ ⟨0, 0, 0⟩ (.prim "1") ⟨2, 1, 1⟩),
  .op (.add ⟨1, 1, 1⟩ ⟨2, 1, 1⟩ (.prim "2") ⟨3, 1, 1⟩),
  .op (.move ⟨1, 1, 1⟩ ⟨3, 1, 1⟩ ⟨2, 1, 1⟩ ⟨4, 1, 1⟩),
  .op (.remove ⟨1, 1, 1⟩ ⟨3, 1, 1⟩ ⟨5, 1, 1⟩),
  .op (.set ⟨0, 0, 0⟩ "k" (.prim "7") ⟨6, 1, 1⟩),
  .op (.set ⟨0, 0, 0⟩ "k" (.prim "8") ⟨7, 1, 1⟩),
  .op (.set ⟨0, 0, 0⟩ "c" (.newCounter false 1) ⟨8, 1, 1⟩),
  .gc [(1, 8)],
  .op (.set ⟨0, 0, 0⟩ "k" (.prim "9") ⟨9, 1, 1⟩),
  .op (.increase ⟨8, 1, 1⟩ 5 ⟨10, 1, 1⟩),
  .op (.set ⟨0, 0, 0⟩ "z" .newObj ⟨11, 1, 1⟩),
  .op (.remove ⟨0, 0, 0⟩ ⟨9, 1, 1⟩ ⟨12, 1, 1⟩),
  .gc [(1, 12)],
  .op (.set ⟨0, 0, 0⟩ "k" (.prim "10") ⟨13, 1, 1⟩),
  .op (.set ⟨11, 1, 1⟩ "y" (.prim "1") ⟨14, 1, 1⟩)
]

end Yorkie.FDoc.Witness
