/-
Helper lemmas for Model/Server.lean, part 1: association lists, phase composition, and the
frame property "a request only ever *extends* documents" (`DocsExt`), from which log shape
(C04 `log_gapfree`) and permanence of the removed flag (C11 `removed_sticky`) follow.
-/
import YorkieModel.Model.Server
namespace Yorkie.Server
open Yorkie

/-! ### association lists -/
namespace AL
variable {α : Type}

@[simp] theorem get?_nil (a : Nat) : AL.get? ([] : AL α) a = none := rfl

@[simp] theorem get?_cons (k : Nat) (v : α) (r : AL α) (a : Nat) :
    AL.get? ((k, v) :: r) a = if k = a then some v else AL.get? r a := rfl

theorem get?_set (m : AL α) (a b : Nat) (x : α) :
    (m.set a x).get? b = if a = b then some x else m.get? b := by
  induction m with
  | nil => simp [AL.set]
  | cons p r ih =>
    obtain ⟨k, v⟩ := p
    simp only [AL.set]
    by_cases h : k = a
    · subst h; simp only [if_true, get?_cons]; split <;> simp_all
    · simp only [h, if_false, get?_cons, ih]
      by_cases h2 : k = b
      · subst h2; simp [Ne.symm h]
      · simp [h2]

theorem get?_set_self (m : AL α) (a : Nat) (x : α) : (m.set a x).get? a = some x := by
  simp [get?_set]

theorem get?_set_ne (m : AL α) {a b : Nat} (x : α) (h : a ≠ b) : (m.set a x).get? b = m.get? b := by
  simp [get?_set, h]

theorem get?_erase (m : AL α) (a b : Nat) :
    (m.erase a).get? b = if a = b then none else m.get? b := by
  induction m with
  | nil => simp [AL.erase]
  | cons p r ih =>
    obtain ⟨k, v⟩ := p
    simp only [AL.erase]
    by_cases h : k = a
    · subst h
      simp only [if_true, ih, get?_cons]
      by_cases h2 : k = b <;> simp [h2]
    · simp only [h, if_false, get?_cons, ih]
      by_cases h2 : k = b
      · subst h2; simp [Ne.symm h]
      · simp [h2]

theorem mem_of_get? {m : AL α} {a : Nat} {x : α} (h : m.get? a = some x) : (a, x) ∈ m := by
  induction m with
  | nil => simp at h
  | cons p r ih =>
    obtain ⟨k, v⟩ := p
    simp only [get?_cons] at h
    split at h
    · injection h with h; subst_vars; exact List.mem_cons_self ..
    · exact List.mem_cons_of_mem _ (ih h)

theorem get?_of_mem_keys {m : AL α} {a : Nat} {x : α} (h : (a, x) ∈ m) : ∃ y, m.get? a = some y := by
  induction m with
  | nil => simp at h
  | cons p r ih =>
    obtain ⟨k, v⟩ := p
    simp only [get?_cons]
    by_cases hk : k = a
    · exact ⟨v, by simp [hk]⟩
    · simp only [hk, if_false]
      rcases List.mem_cons.mp h with h | h
      · injection h with h1 h2; exact absurd h1.symm hk
      · exact ih h

end AL

/-! ### phase composition -/

theorem andThen_ok {p q : Phase} {s s' : Server} {f f' : Flight}
    (h : (p ⨟ q) s f = (s', .ok f')) :
    ∃ s1 f1, p s f = (s1, .ok f1) ∧ q s1 f1 = (s', .ok f') := by
  unfold Phase.andThen at h
  split at h
  · next s1 f1 hp => exact ⟨s1, f1, hp, h⟩
  · next s1 e hp => simp at h

theorem andThen_cases {p q : Phase} {s s' : Server} {f : Flight} {r : Except ErrKind Flight}
    (h : (p ⨟ q) s f = (s', r)) :
    (∃ e, p s f = (s', .error e) ∧ r = .error e) ∨ ∃ s1 f1, p s f = (s1, .ok f1) ∧ q s1 f1 = (s', r) := by
  unfold Phase.andThen at h
  split at h
  · next s1 f1 hp => exact Or.inr ⟨s1, f1, hp, h⟩
  · next s1 e hp =>
    injection h with h1 h2
    subst h1; subst h2
    exact Or.inl ⟨e, hp, rfl⟩

/-! ### server-sequence shape -/

/-- `rows` carry the consecutive server sequences `n+1, n+2, …` -/
def seqFrom : Int → List Row → Prop
  | _, [] => True
  | n, r :: rs => r.serverSeq = n + 1 ∧ seqFrom (n + 1) rs

theorem seqFrom_append (n : Int) (a b : List Row) :
    seqFrom n (a ++ b) ↔ seqFrom n a ∧ seqFrom (n + a.length) b := by
  induction a generalizing n with
  | nil => simp [seqFrom]
  | cons r rs ih =>
    simp only [List.cons_append, seqFrom, ih, List.length_cons]
    have : n + 1 + (rs.length : Int) = n + ((rs.length + 1 : Nat) : Int) := by omega
    rw [this]
    constructor
    · rintro ⟨h1, h2, h3⟩; exact ⟨⟨h1, h2⟩, h3⟩
    · rintro ⟨⟨h1, h2⟩, h3⟩; exact ⟨h1, h2, h3⟩

theorem seqFrom_getElem (n : Int) (l : List Row) (h : seqFrom n l) (i : Nat) (hi : i < l.length) :
    (l[i]).serverSeq = n + 1 + i := by
  induction l generalizing n i with
  | nil => simp at hi
  | cons r rs ih =>
    cases i with
    | zero => simpa using h.1
    | succ j =>
      simp only [List.getElem_cons_succ]
      rw [ih (n + 1) h.2 j (by simpa using hi)]
      push_cast; omega

theorem seqFrom_mem_bounds (n : Int) (l : List Row) (h : seqFrom n l) (r : Row) (hr : r ∈ l) :
    n < r.serverSeq ∧ r.serverSeq ≤ n + l.length := by
  obtain ⟨i, hi, rfl⟩ := List.getElem_of_mem hr
  rw [seqFrom_getElem n l h i hi]
  omega

/-- the loop of `CreateChangeInfos` -/
theorem assignSeqs_spec (gen : Nat) (head : Int) (cp : Checkpoint) (cs : List ChangeReq) :
    let r := assignSeqs gen head cp cs
    seqFrom head r.1 ∧ r.2.1 = head + cs.length ∧ r.1.length = cs.length ∧
    r.1.map (·.clientSeq) = cs.map (·.clientSeq) ∧ r.1.map (·.actor) = cs.map (·.actor) ∧
    (∀ x ∈ r.1, x.gen = gen) := by
  induction cs generalizing head cp with
  | nil => simp [assignSeqs, seqFrom]
  | cons c rest ih =>
    simp only [assignSeqs]
    have := ih (head + 1) ((cp.nextServerSeq (head + 1)).syncClientSeq c.clientSeq)
    simp only [] at this
    obtain ⟨h1, h2, h3, h4, h5, h6⟩ := this
    refine ⟨⟨rfl, h1⟩, ?_, by simp [h3], by simp [h4, mkRow], by simp [h5, mkRow], ?_⟩
    · rw [h2]; simp only [List.length_cons]; push_cast; omega
    · intro x hx
      rcases List.mem_cons.mp hx with rfl | hx
      · rfl
      · exact h6 x hx

/-! ### documents are only ever extended -/

/-- `y` is `x` after some requests: rows appended with the next server sequences; key, epoch,
presence option fixed; `removed` never reset. -/
structure DocExt (x y : Doc) : Prop where
  rows : ∃ rows, y.log = x.log ++ rows ∧ seqFrom x.serverSeq rows ∧ y.serverSeq = x.serverSeq + rows.length
  key : y.key = x.key
  epoch : y.epoch = x.epoch
  dp : y.disablePresence = x.disablePresence
  removed : x.removed = true → y.removed = true

theorem DocExt.refl (x : Doc) : DocExt x x :=
  ⟨⟨[], by simp, trivial, by simp⟩, rfl, rfl, rfl, id⟩

theorem DocExt.trans {x y z : Doc} (a : DocExt x y) (b : DocExt y z) : DocExt x z := by
  obtain ⟨r1, l1, q1, s1⟩ := a.rows
  obtain ⟨r2, l2, q2, s2⟩ := b.rows
  refine ⟨⟨r1 ++ r2, by rw [l2, l1, List.append_assoc], ?_, ?_⟩, b.key.trans a.key, b.epoch.trans a.epoch,
    b.dp.trans a.dp, fun h => b.removed (a.removed h)⟩
  · rw [seqFrom_append]; exact ⟨q1, by rw [← s1]; exact q2⟩
  · rw [s2, s1]; simp only [List.length_append]; push_cast; omega

/-- a document as `FindOrCreateDocInfo` creates it -/
def freshDoc (key : Nat) (dp : Bool) : Doc :=
  { key := key, log := [], serverSeq := 0, epoch := 0, removed := false, disablePresence := dp, vvRows := [] }

/-- store well-formedness: ids in use are below the allocators -/
structure WF (s : Server) : Prop where
  docs : ∀ d x, s.docs.get? d = some x → d < s.nextDoc
  clients : ∀ c x, s.clients.get? c = some x → c < s.nextClient

structure DocsExt (s s' : Server) : Prop where
  old : ∀ d x, s.docs.get? d = some x → ∃ y, s'.docs.get? d = some y ∧ DocExt x y
  new : ∀ d y, s.docs.get? d = none → s'.docs.get? d = some y → DocExt (freshDoc y.key y.disablePresence) y
  cfg : s'.cfg = s.cfg
  nextDoc : s.nextDoc ≤ s'.nextDoc
  nextClient : s.nextClient ≤ s'.nextClient
  wf : WF s → WF s'

theorem DocsExt.refl (s : Server) : DocsExt s s :=
  ⟨fun _ x h => ⟨x, h, DocExt.refl x⟩, fun _ _ h h' => by simp [h] at h', rfl, Nat.le_refl _, Nat.le_refl _, id⟩

theorem DocsExt.trans {a b c : Server} (h1 : DocsExt a b) (h2 : DocsExt b c) : DocsExt a c := by
  refine ⟨?_, ?_, h2.cfg.trans h1.cfg, Nat.le_trans h1.nextDoc h2.nextDoc, Nat.le_trans h1.nextClient h2.nextClient,
    fun w => h2.wf (h1.wf w)⟩
  · intro d x hx
    obtain ⟨y, hy, e1⟩ := h1.old d x hx
    obtain ⟨z, hz, e2⟩ := h2.old d y hy
    exact ⟨z, hz, e1.trans e2⟩
  · intro d z hn hz
    cases hb : b.docs.get? d with
    | none => exact h2.new d z hb hz
    | some y =>
      obtain ⟨z', hz', e2⟩ := h2.old d y hb
      rw [hz] at hz'; injection hz' with hz'; subst hz'
      have e1 := h1.new d y hn hb
      rw [e2.key, e2.dp]
      exact e1.trans e2

/-- writes that touch only the client table -/
theorem DocsExt.of_docs_eq {s s' : Server} (hd : s'.docs = s.docs) (hc : s'.cfg = s.cfg)
    (hn : s'.nextDoc = s.nextDoc) (hk : s.nextClient ≤ s'.nextClient)
    (hcl : ∀ c x, s'.clients.get? c = some x → (∃ y, s.clients.get? c = some y) ∨ c < s'.nextClient) : DocsExt s s' :=
  ⟨fun d x h => ⟨x, by rw [hd]; exact h, DocExt.refl x⟩, fun d y h h' => by rw [hd, h] at h'; simp at h', hc,
   by rw [hn]; exact Nat.le_refl _, hk,
   fun w => ⟨fun d x h => by rw [hn]; rw [hd] at h; exact w.docs d x h,
     fun c x h => by
       rcases hcl c x h with ⟨y, hy⟩ | h'
       · exact Nat.lt_of_lt_of_le (w.clients c y hy) hk
       · exact h'⟩⟩

/-- replacing one existing document by an extension of it -/
theorem DocsExt.setDoc {s : Server} {d : DocId} {x y : Doc} (hx : s.findDoc d = some x) (e : DocExt x y) :
    DocsExt s (s.setDoc d y) := by
  refine ⟨?_, ?_, rfl, Nat.le_refl _, Nat.le_refl _, ?_⟩
  rotate_left 2
  · intro w
    refine ⟨?_, w.clients⟩
    intro d' y' hy'
    simp only [Server.setDoc, AL.get?_set] at hy'
    by_cases h : d = d'
    · subst h; exact w.docs d x hx
    · simp only [h, if_false] at hy'; exact w.docs d' y' hy'
  · intro d' x' hx'
    simp only [Server.setDoc, AL.get?_set]
    by_cases h : d = d'
    · subst h
      simp only [Server.findDoc] at hx
      rw [hx] at hx'; injection hx' with hx'; subst hx'
      exact ⟨y, by simp, e⟩
    · exact ⟨x', by simp [h, hx'], DocExt.refl x'⟩
  · intro d' y' hn hy'
    simp only [Server.setDoc, AL.get?_set] at hy'
    by_cases h : d = d'
    · subst h; simp only [Server.findDoc] at hx; rw [hx] at hn; simp at hn
    · simp only [h, if_false] at hy'; rw [hn] at hy'; simp at hy'

theorem setClient_docsExt (s : Server) (c : ClientId) (x : Client) {y : Client} (hy : s.findClient c = some y) :
    DocsExt s (s.setClient c x) := by
  refine DocsExt.of_docs_eq rfl rfl rfl (Nat.le_refl _) ?_
  intro c' x' h
  simp only [Server.setClient, AL.get?_set] at h
  by_cases hc : c = c'
  · subst hc; exact Or.inl ⟨y, hy⟩
  · simp only [hc, if_false] at h; exact Or.inl ⟨x', h⟩

/-! ### frames of the phases -/

theorem validateClientSeq_frame {s s' : Server} {f : Flight} {r} (h : validateClientSeq s f = (s', r)) :
    s' = s ∧ (∀ f', r = .ok f' → f' = f) := by
  unfold validateClientSeq at h
  split at h <;> injection h with h1 h2 <;> subst h1 <;> subst h2 <;> simp

theorem stripPresence_frame {s s' : Server} {f : Flight} {r} (h : stripPresence s f = (s', r)) :
    s' = s ∧ ∃ f', r = .ok f' ∧ f'.client = f.client ∧ f'.doc = f.doc ∧ f'.info = f.info ∧
      f'.pack.cp = f.pack.cp ∧ f'.pack.vv = f.pack.vv ∧ f'.pack.isRemoved = f.pack.isRemoved ∧
      f'.pushOnly = f.pushOnly ∧ f'.status = f.status ∧ f'.disableGC = f.disableGC ∧
      f'.disablePresence = f.disablePresence ∧
      f'.pack.changes = (if f.disablePresence then stripChanges f.pack.changes else f.pack.changes) := by
  unfold stripPresence at h
  split at h <;> injection h with h1 h2 <;> subst h1 <;> subst h2 <;> simp_all

theorem createChangeInfos_docsExt {s s' : Server} {f : Flight} {p r}
    (h : createChangeInfos s f p = (s', r)) : DocsExt s s' := by
  unfold createChangeInfos at h
  split at h
  · injection h with h1 _; subst h1; exact DocsExt.refl s
  · next doc hd =>
    dsimp only at h
    injection h with h1 _; subst h1
    have sp := assignSeqs_spec (f.info.genOf f.doc) doc.serverSeq (f.info.checkpoint f.doc) p
    simp only [] at sp
    obtain ⟨q1, q2, q3, _⟩ := sp
    refine DocsExt.setDoc hd ⟨⟨_, rfl, q1, ?_⟩, rfl, rfl, rfl, ?_⟩
    · simp only []; rw [q2, q3]
    · intro hr; simp [hr]

theorem pushPack_docsExt {s s' : Server} {f : Flight} {r} (h : pushPack s f = (s', r)) : DocsExt s s' := by
  unfold pushPack at h
  split at h
  · injection h with h1 _; subst h1; exact DocsExt.refl s
  · exact createChangeInfos_docsExt h

theorem preparePack_frame {s s' : Server} {f : Flight} {r} (h : preparePack s f = (s', r)) : s' = s := by
  unfold preparePack at h
  split at h <;> injection h with h1 _ <;> exact h1.symm

theorem updateDocStatus_frame {s s' : Server} {f : Flight} {r} (h : updateDocStatus s f = (s', r)) : s' = s := by
  unfold updateDocStatus at h
  split at h <;> injection h with h1 _ <;> exact h1.symm

theorem docExt_vvRows (x : Doc) (v : AL VV) : DocExt x { x with vvRows := v } :=
  ⟨⟨[], by simp, trivial, by simp⟩, rfl, rfl, rfl, id⟩

theorem updateVersionVector_docsExt {s s' : Server} {f : Flight} (h : updateVersionVector s f = .ok s') :
    DocsExt s s' := by
  unfold updateVersionVector at h
  split at h
  · simp at h
  · split at h
    · injection h with h; subst h; exact DocsExt.refl s
    · next doc hd =>
      split at h <;> injection h with h <;> subst h <;> exact DocsExt.setDoc hd (docExt_vvRows _ _)

theorem updateMinVV_docsExt {s s' : Server} {f : Flight} {r} (h : updateMinVV s f = (s', r)) : DocsExt s s' := by
  unfold updateMinVV at h
  split at h
  · injection h with h1 _; subst h1; exact DocsExt.refl s
  · split at h
    · injection h with h1 _; subst h1; exact DocsExt.refl s
    · next s1 hs =>
      injection h with h1 _; subst h1
      exact updateVersionVector_docsExt hs

theorem persistClientInfo_docsExt {s s' : Server} {f : Flight} {r} (h : persistClientInfo s f = (s', r)) :
    DocsExt s s' := by
  unfold persistClientInfo at h
  split at h
  · injection h with h1 _; subst h1; exact DocsExt.refl s
  · split at h
    · injection h with h1 _; subst h1; exact DocsExt.refl s
    · next loaded hl => injection h with h1 _; subst h1; exact setClient_docsExt _ _ _ hl

theorem andThen_docsExt {p q : Phase}
    (hp : ∀ s f s' r, p s f = (s', r) → DocsExt s s') (hq : ∀ s f s' r, q s f = (s', r) → DocsExt s s') :
    ∀ s f s' r, (p ⨟ q) s f = (s', r) → DocsExt s s' := by
  intro s f s' r h
  rcases andThen_cases h with ⟨e, h1, _⟩ | ⟨s1, f1, h1, h2⟩
  · exact hp _ _ _ _ h1
  · exact (hp _ _ _ _ h1).trans (hq _ _ _ _ h2)

theorem pushPull_docsExt {s s' : Server} {f : Flight} {r} (h : pushPull s f = (s', r)) : DocsExt s s' := by
  refine andThen_docsExt (andThen_docsExt (andThen_docsExt (andThen_docsExt (andThen_docsExt (andThen_docsExt
    ?_ ?_) ?_) ?_) ?_) ?_) ?_ s f s' r h
  · intro s f s' r h; rw [(validateClientSeq_frame h).1]; exact DocsExt.refl _
  · intro s f s' r h; rw [(stripPresence_frame h).1]; exact DocsExt.refl _
  · intro s f s' r h; exact pushPack_docsExt h
  · intro s f s' r h; rw [preparePack_frame h]; exact DocsExt.refl _
  · intro s f s' r h; rw [updateDocStatus_frame h]; exact DocsExt.refl _
  · intro s f s' r h; exact updateMinVV_docsExt h
  · intro s f s' r h; exact persistClientInfo_docsExt h

theorem finish_fst (r : PhaseResult) : (finish r).1 = r.1 := by
  obtain ⟨s, x⟩ := r
  cases x <;> rfl

/-! ### frames of the handlers -/

theorem activate_docsExt (s : Server) : DocsExt s (activate s).1 := by
  refine DocsExt.of_docs_eq rfl rfl rfl (Nat.le_succ _) ?_
  intro c x h
  simp only [activate, AL.get?_set] at h
  by_cases hc : s.nextClient = c
  · subst hc; exact Or.inr (Nat.lt_succ_self _)
  · simp only [hc, if_false] at h; exact Or.inl ⟨x, h⟩

theorem findOrCreateDoc_docsExt (s : Server) (hw : WF s) (key : Nat) (dp : Bool) :
    DocsExt s (findOrCreateDoc s key dp).1 := by
  unfold findOrCreateDoc
  split
  · exact DocsExt.refl s
  · refine ⟨?_, ?_, rfl, Nat.le_succ _, Nat.le_refl _, ?_⟩
    rotate_left 2
    · intro w
      refine ⟨?_, w.clients⟩
      intro d y hy
      simp only [AL.get?_set] at hy
      split at hy
      · subst_vars; exact Nat.lt_succ_self _
      · exact Nat.lt_succ_of_lt (w.docs d y hy)
    · intro d x hx
      have := hw.docs d x hx
      exact ⟨x, by simp only [AL.get?_set]; rw [if_neg (by omega)]; exact hx, DocExt.refl x⟩
    · intro d y hn hy
      simp only [AL.get?_set] at hy
      split at hy
      · injection hy with hy; subst hy; exact DocExt.refl _
      · rw [hn] at hy; simp at hy

theorem tryAttaching_docsExt (s : Server) (c : ClientId) (d : DocId) : DocsExt s (tryAttaching s c d).1 := by
  unfold tryAttaching
  split
  · exact DocsExt.refl s
  · next i hi =>
    split
    · exact DocsExt.refl s
    · split
      · exact DocsExt.refl s
      · exact setClient_docsExt _ _ _ hi

theorem attachingStep_docsExt (s : Server) (c : ClientId) (info : Client) (d : DocId) :
    DocsExt s (attachingStep s c info d).1 := by
  unfold attachingStep
  split
  · exact DocsExt.refl s
  · exact tryAttaching_docsExt s c d

theorem clientsAttach_docsExt (s : Server) (c : ClientId) (info : Client) (d : DocId) (e : Int) (b : Bool) :
    DocsExt s (clientsAttach s c info d e b).1 := by
  unfold clientsAttach
  split
  · exact DocsExt.refl s
  · have h1 := attachingStep_docsExt s c info d
    split
    · next s1 e h => rw [h] at h1; exact h1
    · next s1 i h => rw [h] at h1; exact h1

theorem attachWith_docsExt (s1 : Server) (c : ClientId) (info : Client) (d : DocId) (pack : Pack) (nogc : Bool) :
    DocsExt s1 (attachWith s1 c info d pack nogc).1 := by
  unfold attachWith
  split
  · exact DocsExt.refl s1
  · next doc _ =>
    have h2 := clientsAttach_docsExt s1 c info d doc.epoch (pack.cp.serverSeq != 0)
    split
    · next s2 e hca => rw [hca] at h2; exact h2
    · next s2 info2 hca =>
      rw [hca] at h2
      split
      · next s3 f hpp => exact h2.trans (pushPull_docsExt hpp)
      · next s3 e hpp => exact h2.trans (pushPull_docsExt hpp)

theorem attach_docsExt (s : Server) (hw : WF s) (c : ClientId) (key : Nat) (pack : Pack) (dp nogc : Bool) :
    DocsExt s (attach s c key pack dp nogc).1 := by
  unfold attach
  split
  · exact DocsExt.refl s
  · exact (findOrCreateDoc_docsExt s hw key dp).trans (attachWith_docsExt _ _ _ _ _ _)

theorem pushpullReq_docsExt (s : Server) (c : ClientId) (d : DocId) (pack : Pack) (po nogc : Bool) :
    DocsExt s (pushpullReq s c d pack po nogc).1 := by
  unfold pushpullReq
  split
  · exact DocsExt.refl s
  · split
    · exact DocsExt.refl s
    · split
      · exact DocsExt.refl s
      · rw [finish_fst]; exact pushPull_docsExt (Prod.ext rfl rfl)

theorem detach_docsExt (s : Server) (c : ClientId) (d : DocId) (pack : Pack) :
    DocsExt s (detach s c d pack).1 := by
  unfold detach
  split
  · exact DocsExt.refl s
  · split
    · exact DocsExt.refl s
    · split
      · exact DocsExt.refl s
      · rw [finish_fst]; exact pushPull_docsExt (Prod.ext rfl rfl)

theorem remove_docsExt (s : Server) (c : ClientId) (d : DocId) (pack : Pack) :
    DocsExt s (remove s c d pack).1 := by
  unfold remove
  split
  · exact DocsExt.refl s
  · split
    · exact DocsExt.refl s
    · split
      · exact DocsExt.refl s
      · rw [finish_fst]; exact pushPull_docsExt (Prod.ext rfl rfl)

theorem clusterDetach_docsExt (s : Server) (c : ClientId) (d : DocId) : DocsExt s (clusterDetach s c d).1 := by
  unfold clusterDetach
  split
  · exact DocsExt.refl s
  · split
    · exact DocsExt.refl s
    · split
      · exact DocsExt.refl s
      · split
        · next hpp => exact pushPull_docsExt hpp
        · next hpp => exact pushPull_docsExt hpp

theorem clusterDetachAll_docsExt (c : ClientId) (s : Server) (ds : List DocId) :
    DocsExt s (clusterDetachAll c s ds).1 := by
  induction ds generalizing s with
  | nil => exact DocsExt.refl s
  | cons d r ih =>
    unfold clusterDetachAll
    have h1 := clusterDetach_docsExt s c d
    split
    · next s' _ hcd => rw [hcd] at h1; exact h1.trans (ih s')
    · next s' e hcd => rw [hcd] at h1; exact h1

theorem dbDeactivate_docsExt (s : Server) (c : ClientId) : DocsExt s (dbDeactivate s c).1 := by
  unfold dbDeactivate
  split
  · exact DocsExt.refl s
  · next i hi =>
    split
    · exact DocsExt.refl s
    · split
      · exact DocsExt.refl s
      · exact setClient_docsExt _ _ _ hi

theorem deactivate_docsExt (s : Server) (c : ClientId) (order : List DocId) :
    DocsExt s (deactivate s c order).1 := by
  unfold deactivate
  split
  · exact DocsExt.refl s
  · split
    · exact DocsExt.refl s
    · next info _ _ =>
      have h1 := clusterDetachAll_docsExt c s (openDocs info order)
      split
      · next s' e hx => rw [hx] at h1; exact h1
      · next s' _ hx => rw [hx] at h1; exact h1.trans (dbDeactivate_docsExt s' c)

/-- every request only extends documents -/
theorem step_docsExt (s : Server) (hw : WF s) (r : Request) : DocsExt s (step s r).1 := by
  cases r with
  | activate => exact activate_docsExt s
  | deactivate c order => exact deactivate_docsExt s c order
  | attach c key pack dp nogc => exact attach_docsExt s hw c key pack dp nogc
  | pushpull c d pack po nogc => exact pushpullReq_docsExt s c d pack po nogc
  | detach c d pack => exact detach_docsExt s c d pack
  | remove c d pack => exact remove_docsExt s c d pack

theorem WF_init (cfg : Config) : WF (Server.init cfg) :=
  ⟨fun _ _ h => by simp [Server.init] at h, fun _ _ h => by simp [Server.init] at h⟩

theorem run_snoc (s : Server) (reqs : List Request) (r : Request) :
    run s (reqs ++ [r]) = (step (run s reqs) r).1 := by
  simp [run, List.foldl_append]

theorem run_wf (s : Server) (hw : WF s) (reqs : List Request) : WF (run s reqs) := by
  induction reqs generalizing s with
  | nil => exact hw
  | cons r rest ih => exact ih _ ((step_docsExt s hw r).wf hw)

theorem run_docsExt (s : Server) (hw : WF s) (reqs : List Request) : DocsExt s (run s reqs) := by
  induction reqs generalizing s with
  | nil => exact DocsExt.refl s
  | cons r rest ih =>
    exact (step_docsExt s hw r).trans (ih _ ((step_docsExt s hw r).wf hw))

end Yorkie.Server
