/-
Lemmas for C14, part 9: arrays. Undo of an insertion; undo of the deletion of a leaf element
(the element comes back under a new identity right after its nearest live predecessor).
-/
import YorkieModel.Lemmas.UndoMain
import YorkieModel.Lemmas.UndoTotal
namespace Yorkie.Undo
open Yorkie Yorkie.Crdt

/-! ### arrays of leaves: insertion -/

theorem mem_insertAfter {prev : Ticket} {new n : PosNode} {l l' : List PosNode}
    (h : insertAfter prev new l = some l') : n ∈ l' ↔ n = new ∨ n ∈ l := by
  unfold insertAfter at h
  split at h
  · cases h; exact mem_insertSkip new n l
  · unfold insertAfterNodes at h
    split at h <;> exact mem_insertAfterWhere _ new n l l' h

theorem filterMap_insertSkip {β} (g : PosNode → Option β) (new : PosNode) (hg : g new = none) :
    ∀ l : List PosNode, (insertSkip new l).filterMap g = l.filterMap g
  | [] => by simp [insertSkip, hg]
  | a :: l => by
    unfold insertSkip
    split
    · simp only [List.filterMap_cons, filterMap_insertSkip g new hg l]
    · simp only [List.filterMap_cons, hg]

theorem filterMap_insertAfterWhere {β} (g : PosNode → Option β) (s : PosNode → Bool) (new : PosNode)
    (hg : g new = none) : ∀ (l l' : List PosNode), insertAfterWhere s new l = some l' →
    l'.filterMap g = l.filterMap g
  | [], _, h => by simp [insertAfterWhere] at h
  | a :: l, l', h => by
    unfold insertAfterWhere at h
    split at h
    · cases h
      simp only [List.filterMap_cons, filterMap_insertSkip g new hg l]
    · cases hr : insertAfterWhere s new l with
      | none => simp [hr] at h
      | some l'' =>
        simp only [hr, Option.map_some, Option.some.injEq] at h
        subst h
        simp only [List.filterMap_cons, filterMap_insertAfterWhere g s new hg l l'' hr]

theorem filterMap_insertAfter {β} (g : PosNode → Option β) {prev : Ticket} {new : PosNode} {l l' : List PosNode}
    (hg : g new = none) (h : insertAfter prev new l = some l') : l'.filterMap g = l.filterMap g := by
  unfold insertAfter at h
  split at h
  · cases h; exact filterMap_insertSkip g new hg l
  · unfold insertAfterNodes at h
    split at h <;> exact filterMap_insertAfterWhere g _ new hg l l' h

/-- the printed normal form of an element depends on its entry and the liveness of the others -/
theorem vis_congr {d d' : Doc} {t : Ticket} (ht : d t = d' t) (hl : ∀ c, live d c = live d' c) :
    vis d t = vis d' t := by
  unfold vis
  rw [← ht]
  cases hd : d t with
  | none => rfl
  | some e =>
    simp only []
    cases hb : e.body with
    | prim r => rfl
    | «opaque» r => rfl
    | counter l v => rfl
    | obj keys m =>
      simp only [visBody]
      congr 1
      apply filterMap_congr'
      intro k _
      simp only [objEntry, hl]
    | arr nodes mv =>
      simp only [visBody]
      congr 1
      apply filterMap_congr'
      intro n _
      simp only [arrEntry, hl]

theorem orphaned_ext {H : Home} {d d1 : Doc} {tw : Ticket → Bool} (w : WF H d)
    (hagree : ∀ t e, d t = some e → ∃ e1, d1 t = some e1 ∧ e1.removed = e.removed ∧ e1.parent = e.parent) :
    ∀ (f : Nat) (t : Ticket), (d t).isSome = true → orphaned d1 tw f t = orphaned d tw f t
  | 0, _, _ => rfl
  | f + 1, t, ht => by
    cases hd : d t with
    | none => simp [hd] at ht
    | some e =>
      obtain ⟨e1, hd1, hr, hp⟩ := hagree t e hd
      simp only [orphaned, hd, hd1, hr, hp]
      cases hpar : e.parent with
      | none => rfl
      | some q =>
        simp only []
        have hq : isContainer d q = true := w.parCont t e q hd ((w.par t e hd) ▸ hpar)
        obtain ⟨qe, hqe, _⟩ := isContainer_iff.1 hq
        rw [orphaned_ext w hagree f q (by simp [hqe])]


section insertUndo
variable {h : Hist} {p prev : Ticket} {v : Val} {pe : Elem} {nodes nodes' : List PosNode}
  {moved : Ticket → Option Ticket}

/-- the heap after inserting the new value `v` under the identity `ts` -/
def addRes (d : Doc) (p : Ticket) (pe : Elem) (nodes' : List PosNode) (moved : Ticket → Option Ticket)
    (v : Val) (ts : Ticket) : Doc :=
  (d.set ts ⟨some p, false, v.body⟩).set p { pe with body := .arr nodes' moved }

theorem uexecute_add {d : Doc} {tw : Ticket → Bool} {ts : Ticket} (hd : d p = some pe) (hb : pe.body = .arr nodes moved)
    (hins : insertAfter prev ⟨ts, some ts⟩ nodes = some nodes') :
    uexecute d tw .loc (.add p prev (UVal.ofVal v ts) ts) =
      .ok (addRes d p pe nodes' moved v ts, some (.remove p ts ts)) := by
  have : applyAddU d p prev (UVal.ofVal v ts) ts = .ok (addRes d p pe nodes' moved v ts) := by
    rw [applyAddU_ofVal]
    simp [applyAdd, hd, hb, arrAdd, hins, addRes, newElem]
  simp only [uexecute, UVal.ofVal, ne_eq, not_true_eq_false, if_false]
  rw [show ({ id := ts, body := v.body } : UVal) = UVal.ofVal v ts from rfl, this]
  rfl

theorem doChange_add {d1 : Doc} {r : UOp} {ts : Ticket}
    (he : uexecute h.doc noTw .loc (.add p prev (UVal.ofVal v ts) ts) = .ok (d1, some r)) :
    doChange h [.add p prev (UVal.ofVal v ts) ts] =
      { h with doc := d1, undo := push h.undo [r], redo := [], lamport := h.lamport + 1 } := by
  have hrs : reconcileSets h [UOp.add p prev (UVal.ofVal v ts) ts] = h := rfl
  simp only [doChange_eq, List.isEmpty_cons, Bool.false_eq_true, if_false, runOps_cons, runOps_nil, he,
    List.nil_append, Option.toList_some, hrs, List.reverse_cons, List.reverse_nil]

theorem undo_do_insert_lemma (fr : Fresh h) (hd : h.doc p = some pe) (hb : pe.body = .arr nodes moved)
    (horph : orphaned h.doc noTw orphanFuel p = false)
    (hins : insertAfter prev ⟨h.next, some h.next⟩ nodes = some nodes') (fuel : Nat) :
    marshal (undo (doChange h [.add p prev (UVal.ofVal v h.next) h.next])).doc fuel rootId =
      marshal h.doc fuel rootId := by
  obtain ⟨H, w⟩ := fr.wf
  obtain ⟨hfresh, htw⟩ := fresh_next fr
  have hpts : p ≠ h.next := by intro hx; rw [hx, hfresh] at hd; cases hd
  have he1 := uexecute_add (v := v) (tw := noTw) hd hb hins
  rw [doChange_add he1]
  -- the state after the insertion
  generalize hd1 : addRes h.doc p pe nodes' moved v h.next = d1 at he1 ⊢
  have hd1p : d1 p = some { pe with body := .arr nodes' moved } := by rw [← hd1]; simp [addRes, set_apply]
  have hd1t : d1 h.next = some ⟨some p, false, v.body⟩ := by
    have hne : ¬ h.next = p := fun hx => hpts hx.symm
    rw [← hd1]; simp [addRes, set_apply, hne]
  have hd1o : ∀ t, t ≠ p → t ≠ h.next → d1 t = h.doc t := by
    intro t h1 h2; rw [← hd1]; simp [addRes, set_apply, h1, h2]
  have hnew : (⟨h.next, some h.next⟩ : PosNode) ∈ nodes' := (mem_insertAfter hins).2 (Or.inl rfl)
  have hholds : holds nodes' h.next = true := holds_iff.2 ⟨_, hnew, rfl⟩
  -- the undo executes `remove p ts`
  have horph1 : orphaned d1 noTw orphanFuel h.next = false := by
    have hagree : ∀ t e, h.doc t = some e → ∃ e1, d1 t = some e1 ∧ e1.removed = e.removed ∧ e1.parent = e.parent := by
      intro t e hte
      by_cases h1 : t = p
      · subst h1; rw [hd] at hte; injection hte with hte; subst hte; exact ⟨_, hd1p, rfl, rfl⟩
      · have h2 : t ≠ h.next := by intro hx; rw [hx, hfresh] at hte; cases hte
        exact ⟨e, by rw [hd1o t h1 h2]; exact hte, rfl, rfl⟩
    have h63 : orphaned d1 noTw 63 p = false := by
      rw [orphaned_ext w hagree 63 p (by simp [hd])]; exact orphaned_mono _ _ 63 p horph
    rw [show orphanFuel = 63 + 1 from rfl, orphaned_succ_some hd1t rfl, htw, h63]; rfl
  obtain ⟨pv, hpv, _⟩ := findPrev_ok (d := d1) hholds
  have he2 : ∃ q, uexecute d1 noTw .undoRedo (.remove p h.next ⟨h.lamport + 1 + 1, 1, h.actor⟩) =
      .ok (markRemoved d1 h.next ⟨h.lamport + 1 + 1, 1, h.actor⟩, some q) := by
    have hcont : isContainer d1 p = true := by simp [isContainer, hd1p]
    have hcap : ∃ cv, capture d1 h.next = some cv := by simp [capture, hd1t]
    obtain ⟨cv, hcv⟩ := hcap
    have hchild : isChildOf d1 h.next p = true := by simp [isChildOf, hd1t]
    refine ⟨.add p pv cv ⟨h.lamport + 1 + 1, 1, h.actor⟩, ?_⟩
    simp only [uexecute, hcont, Bool.not_true, Bool.false_eq_true, if_false, horph1, Bool.and_false,
      Source.needsReverse, if_true, reverseRemove, hcv, hd1p, hpv, applyRemove, hchild, hholds, Bool.and_self]
    rfl
  obtain ⟨q, he2⟩ := he2
  rw [undo_one (r := .remove p h.next h.next) (push_eq _ _) (by rfl) he2]
  simp only []
  -- the printed form is unchanged
  have hafter : (⟨h.lamport + 1 + 1, 1, h.actor⟩ : Ticket).after h.next = true :=
    after_of_lamport (by simp only [Hist.next]; omega)
  rw [markRemoved_eq_kill (fun _ _ => hafter)]
  have hlive : ∀ c, live (kill d1 (some h.next)) c = live h.doc c := by
    intro c
    rw [live_kill]
    by_cases h2 : c = h.next
    · subst h2; simp [live_none hfresh]
    · simp only [h2, if_false]
      by_cases h1 : c = p
      · subst h1; simp [live_some hd1p, live_some hd]
      · unfold live; rw [hd1o c h1 h2]
  have hvis : ∀ t, t ≠ h.next → vis (kill d1 (some h.next)) t = vis h.doc t := by
    intro t h2
    have hk : kill d1 (some h.next) t = d1 t := by
      have hne : ¬ h.next = t := fun hx => h2 hx.symm
      unfold kill; simp [hne]
    by_cases h1 : t = p
    · subst h1
      simp only [vis, hk, hd1p, hd, hb, visBody]
      congr 1
      rw [show arrEntry (kill d1 (some h.next)) = arrEntry h.doc from by
        funext n; simp only [arrEntry, hlive]]
      exact filterMap_insertAfter _ (by simp [arrEntry, live_none hfresh]) hins
    · exact vis_congr (by rw [hk, hd1o t h1 h2]) hlive
  have hroot : rootId ≠ h.next := by
    intro hx
    obtain ⟨e, he, _⟩ := skel_some.1 fr.root
    rw [hx, hfresh] at he; cases he
  apply marshal_congr _ fuel rootId (hvis rootId hroot)
  intro t ht
  apply hvis
  intro hx
  rw [hx, hlive, live_none hfresh] at ht; cases ht

end insertUndo

/-! ### printing up to a renaming of identities -/

def Vis.map (ρ : Ticket → Ticket) : Vis → Vis
  | .absent => .absent
  | .leaf s => .leaf s
  | .obj l => .obj (l.map (fun kc => (kc.1, ρ kc.2)))
  | .arr l => .arr (l.map ρ)

theorem render_map (f : Ticket → String) (ρ : Ticket → Ticket) (v : Vis) :
    render f (v.map ρ) = render (fun c => f (ρ c)) v := by
  cases v with
  | absent => rfl
  | leaf s => rfl
  | obj l => simp only [Vis.map, render, List.map_map]; rfl
  | arr l => simp only [Vis.map, render, List.map_map]; rfl

/-- two heaps print alike below `top` up to the renaming `ρ` when every element that is live in the
    first (and `top`) has, renamed, the renamed visible normal form in the second -/
theorem marshal_rename {d1 d2 : Doc} (ρ : Ticket → Ticket) (top : Ticket)
    (hv : ∀ a, (live d1 a = true ∨ a = top) → vis d2 (ρ a) = (vis d1 a).map ρ) :
    ∀ (fuel : Nat) (a : Ticket), (live d1 a = true ∨ a = top) → marshal d1 fuel a = marshal d2 fuel (ρ a)
  | 0, _, _ => rfl
  | fuel + 1, a, ha => by
    rw [marshal_succ, marshal_succ, hv a ha, render_map]
    apply render_congr
    intro c hc
    exact marshal_rename ρ top hv fuel c (Or.inl (vis_children_live hc))

/-! ### position lists: splitting at the deleted element -/

theorem prefixBefore_split (target : Ticket) : ∀ (l acc r : List PosNode), prefixBefore target acc l = some r →
    ∃ pre nu C, l = pre ++ nu :: C ∧ r = pre.reverse ++ acc ∧ nu.elem = some target ∧
      ∀ n ∈ pre, n.elem ≠ some target
  | [], _, _, h => by simp [prefixBefore] at h
  | a :: l, acc, r, h => by
    unfold prefixBefore at h
    split at h
    · cases h
      exact ⟨[], a, l, rfl, rfl, ‹_›, by simp⟩
    · obtain ⟨pre, nu, C, h1, h2, h3, h4⟩ := prefixBefore_split target l (a :: acc) r h
      refine ⟨a :: pre, nu, C, by simp [h1], by simp [h2], h3, ?_⟩
      intro n hn
      simp only [List.mem_cons] at hn
      rcases hn with rfl | hn
      · assumption
      · exact h4 n hn

theorem arrEntry_isSome_iff (d : Doc) (n : PosNode) :
    (arrEntry d n).isSome = true ↔ ∃ c ce, n.elem = some c ∧ d c = some ce ∧ ce.removed = false := by
  unfold arrEntry
  cases hn : n.elem with
  | none => simp
  | some c =>
    cases hd : d c with
    | none => simp [live_none hd, hd]
    | some ce => cases hr : ce.removed <;> simp [live_some hd, hr, hd]

/-- `prevLive` over the reversed prefix: the position of the last node with a live element -/
theorem prevLive_split (d : Doc) : ∀ r : List PosNode,
    (prevLive d r = headId ∧ r.filterMap (arrEntry d) = []) ∨
    (∃ M n A, r = M ++ n :: A ∧ prevLive d r = n.pos ∧ (arrEntry d n).isSome = true ∧
      M.filterMap (arrEntry d) = [])
  | [] => Or.inl ⟨rfl, rfl⟩
  | a :: r => by
    by_cases ha : (arrEntry d a).isSome = true
    · right
      refine ⟨[], a, r, rfl, ?_, ha, rfl⟩
      obtain ⟨c, ce, h1, h2, h3⟩ := (arrEntry_isSome_iff d a).1 ha
      simp [prevLive, h1, h2, h3]
    · have hnone : arrEntry d a = none := by simpa using ha
      have hstep : prevLive d (a :: r) = prevLive d r := by
        rw [prevLive]
        cases hn : a.elem with
        | none => rfl
        | some c =>
          cases hd : d c with
          | none => simp [hd]
          | some ce =>
            cases hr : ce.removed with
            | true => simp [hr, hd]
            | false =>
              exfalso; apply ha
              exact (arrEntry_isSome_iff d a).2 ⟨c, ce, hn, hd, hr⟩
      rcases prevLive_split d r with ⟨h1, h2⟩ | ⟨M, n, A, h1, h2, h3, h4⟩
      · left; exact ⟨hstep.trans h1, by simp [List.filterMap_cons, hnone, h2]⟩
      · right
        exact ⟨a :: M, n, A, by simp [h1], hstep.trans h2, h3, by simp [List.filterMap_cons, hnone, h4]⟩

theorem not_after_of_lamport {a b : Ticket} (h : a.lamport < b.lamport) : a.after b = false := by
  have h1 : ¬ (a.lamport > b.lamport) := by omega
  simp [Ticket.after, Ticket.cmp, h1, h]

theorem insertSkip_latest (new : PosNode) : ∀ l : List PosNode, (∀ n ∈ l, n.pos.after new.pos = false) →
    insertSkip new l = new :: l
  | [], _ => rfl
  | a :: l, h => by
    unfold insertSkip
    simp [h a (by simp)]

theorem insertAfterWhere_split (s : PosNode → Bool) (new : PosNode) : ∀ (A : List PosNode) (n : PosNode)
    (rest : List PosNode), (∀ a ∈ A, s a = false) → s n = true →
    insertAfterWhere s new (A ++ n :: rest) = some (A ++ n :: insertSkip new rest)
  | [], n, rest, _, hn => by simp [insertAfterWhere, hn]
  | a :: A, n, rest, hA, hn => by
    simp only [List.cons_append, insertAfterWhere, hA a (by simp), Bool.false_eq_true, if_false]
    rw [insertAfterWhere_split s new A n rest (fun x hx => hA x (by simp [hx])) hn]
    rfl


theorem filterMap_map_fix {ρ : Ticket → Ticket} {g g2 : PosNode → Option Ticket} : ∀ {X : List PosNode},
    (∀ n ∈ X, g2 n = g n ∧ ∀ c, g n = some c → ρ c = c) → X.filterMap g2 = (X.filterMap g).map ρ
  | [], _ => rfl
  | a :: X, h => by
    have ha := h a (by simp)
    have ih := filterMap_map_fix (X := X) (fun n hn => h n (by simp [hn]))
    simp only [List.filterMap_cons, ha.1]
    cases hg : g a with
    | none => simpa using ih
    | some c => simp [ih, ha.2 c hg]

/-- the element list after re-inserting the deleted element `u` under the later identity `t'` behind
    its nearest live predecessor is the old one with `u` renamed -/
theorem reinsert_list {d : Doc} {u t' : Ticket} {pre C : List PosNode} {nu : PosNode} {L : Int}
    {g2 : PosNode → Option Ticket}
    (hnu : nu.elem = some u) (hgu : arrEntry d nu = some u)
    (hpos : (pre ++ nu :: C).Pairwise (fun a b => a.pos ≠ b.pos))
    (hhead : ∀ n ∈ pre ++ nu :: C, n.pos ≠ headId)
    (hL : ∀ n ∈ pre ++ nu :: C, n.pos.lamport ≤ L) (ht : L < t'.lamport)
    (hg2 : ∀ n ∈ pre ++ nu :: C, n ≠ nu → g2 n = arrEntry d n ∧ ∀ c, arrEntry d n = some c → c ≠ u)
    (hg2u : g2 nu = none) (hg2n : g2 ⟨t', some t'⟩ = some t') :
    ∃ nodes2, insertAfter (prevLive d pre.reverse) ⟨t', some t'⟩ (pre ++ nu :: C) = some nodes2 ∧
      nodes2.filterMap g2 = ((pre ++ nu :: C).filterMap (arrEntry d)).map (fun c => if c = u then t' else c) := by
  have hlatest : ∀ X : List PosNode, (∀ n ∈ X, n ∈ pre ++ nu :: C) →
      insertSkip ⟨t', some t'⟩ X = ⟨t', some t'⟩ :: X := by
    intro X hX
    apply insertSkip_latest
    intro n hn
    exact not_after_of_lamport (by have := hL n (hX n hn); simp only []; omega)
  have hfix : ∀ X : List PosNode, (∀ n ∈ X, n ∈ pre ++ nu :: C ∧ n ≠ nu) →
      X.filterMap g2 = (X.filterMap (arrEntry d)).map (fun c => if c = u then t' else c) := by
    intro X hX
    apply filterMap_map_fix
    intro n hn
    obtain ⟨h1, h2⟩ := hg2 n (hX n hn).1 (hX n hn).2
    exact ⟨h1, fun c hc => by simp [h2 c hc]⟩
  have hne : ∀ n ∈ pre ++ nu :: C, n.pos = nu.pos → n = nu := by
    intro n hn hp
    -- positions are pairwise distinct
    rw [List.pairwise_append] at hpos
    obtain ⟨h1, h2, h3⟩ := hpos
    rw [List.pairwise_cons] at h2
    simp only [List.mem_append, List.mem_cons] at hn
    rcases hn with hn | rfl | hn
    · exact absurd hp (h3 n hn nu (by simp))
    · rfl
    · exact absurd hp.symm (h2.1 n hn)
  have hpreC : ∀ n, n ∈ pre ∨ n ∈ C → n ∈ pre ++ nu :: C ∧ n ≠ nu := by
    intro n hn
    have hmem : n ∈ pre ++ nu :: C := by
      simp only [List.mem_append, List.mem_cons]; rcases hn with h | h
      · exact Or.inl h
      · exact Or.inr (Or.inr h)
    refine ⟨hmem, ?_⟩
    intro hx; subst hx
    rw [List.pairwise_append] at hpos
    obtain ⟨h1, h2, h3⟩ := hpos
    rw [List.pairwise_cons] at h2
    rcases hn with h | h
    · exact h3 n h n (by simp) rfl
    · exact h2.1 n h rfl
  rcases prevLive_split d pre.reverse with ⟨h1, h2⟩ | ⟨M, n, A', h1, h2, h3, h4⟩
  · -- no live predecessor: the element goes to the front
    have hpre : pre.filterMap (arrEntry d) = [] := by
      rw [List.filterMap_reverse] at h2; simpa using h2
    refine ⟨⟨t', some t'⟩ :: (pre ++ nu :: C), ?_, ?_⟩
    · rw [h1]; simp only [insertAfter, if_true]; rw [hlatest _ (fun _ h => h)]
    · simp only [List.filterMap_cons, List.filterMap_append, hg2n, hg2u, hgu, hpre, List.nil_append,
        List.map_cons, if_true]
      rw [hfix pre (fun n hn => hpreC n (Or.inl hn)), hpre, hfix C (fun n hn => hpreC n (Or.inr hn))]
      rfl
  · -- behind the nearest live predecessor `n`
    have hpre : pre = A'.reverse ++ n :: M.reverse := by
      have := congrArg List.reverse h1
      simpa using this
    have hM : M.reverse.filterMap (arrEntry d) = [] := by
      rw [List.filterMap_reverse, h4]; rfl
    subst hpre
    have hnmem : n ∈ A'.reverse ++ n :: M.reverse ++ nu :: C := by simp
    have hnh : n.pos ≠ headId := hhead n hnmem
    have hA : ∀ a ∈ A'.reverse, (fun x : PosNode => decide (x.pos = n.pos)) a = false := by
      intro a ha
      simp only [decide_eq_false_iff_not]
      have hp := hpos
      rw [List.append_assoc, List.pairwise_append] at hp
      exact hp.2.2 a ha n (by simp)
    have hany : (A'.reverse ++ n :: M.reverse ++ nu :: C).any (fun x => x.pos = n.pos) = true := by
      simp only [List.any_eq_true, decide_eq_true_eq]; exact ⟨n, hnmem, rfl⟩
    refine ⟨A'.reverse ++ n :: ⟨t', some t'⟩ :: (M.reverse ++ nu :: C), ?_, ?_⟩
    · rw [h2]
      simp only [insertAfter, hnh, if_false, insertAfterNodes, hany, if_true]
      rw [show A'.reverse ++ n :: M.reverse ++ nu :: C = A'.reverse ++ n :: (M.reverse ++ nu :: C) by simp,
        insertAfterWhere_split _ _ _ _ _ hA (by simp), hlatest]
      intro x hx
      simp only [List.mem_append, List.mem_cons] at hx ⊢
      rcases hx with hx | rfl | hx
      · exact Or.inl (Or.inr (Or.inr hx))
      · exact Or.inr (Or.inl rfl)
      · exact Or.inr (Or.inr hx)
    · have hmemA : ∀ x ∈ A'.reverse, x ∈ A'.reverse ++ n :: M.reverse ∨ x ∈ C := fun x hx => Or.inl (by simp [hx])
      have hmemM : ∀ x ∈ M.reverse, x ∈ A'.reverse ++ n :: M.reverse ∨ x ∈ C := fun x hx => Or.inl (by simp [hx])
      obtain ⟨hn1, hn2⟩ := hg2 n hnmem (hpreC n (Or.inl (by simp))).2
      cases hgn : arrEntry d n with
      | none => simp [hgn] at h3
      | some e =>
        have heu : e ≠ u := hn2 e hgn
        simp only [List.filterMap_cons, List.filterMap_append, hg2n, hg2u, hgu, hn1, hgn, hM, List.nil_append,
          List.map_cons, List.map_append, if_true, heu, if_false, List.append_assoc]
        rw [hfix _ (fun x hx => hpreC x (hmemA x hx)), hfix _ (fun x hx => hpreC x (hmemM x hx)), hM,
          hfix C (fun x hx => hpreC x (Or.inr hx))]
        rfl

/-! ### undo of the deletion of a leaf element -/

theorem visBody_congr {d d' : Doc} {b : Body}
    (ho : ∀ keys m k mm, b = .obj keys m → m k = some mm → live d mm.child = live d' mm.child)
    (ha : ∀ nodes mv n c, b = .arr nodes mv → n ∈ nodes → n.elem = some c → live d c = live d' c) :
    visBody d b = visBody d' b := by
  cases b with
  | prim r => rfl
  | «opaque» r => rfl
  | counter l v => rfl
  | obj keys m =>
    simp only [visBody]
    congr 1
    apply filterMap_congr'
    intro k _
    unfold objEntry
    cases hm : m k with
    | none => rfl
    | some mm => simp only [ho keys m k mm rfl hm]
  | arr nodes mv =>
    simp only [visBody]
    congr 1
    apply filterMap_congr'
    intro n hn
    unfold arrEntry
    cases hc : n.elem with
    | none => rfl
    | some c => simp only [ha nodes mv n c rfl hn hc]

theorem Vis.map_fix {ρ : Ticket → Ticket} {v : Vis} (h : ∀ c ∈ v.children, ρ c = c) : v.map ρ = v := by
  cases v with
  | absent => rfl
  | leaf s => rfl
  | obj l =>
    simp only [Vis.map]
    congr 1
    conv => rhs; rw [← List.map_id l]
    apply List.map_congr_left
    intro x hx
    have := h x.2 (by simp only [Vis.children, List.mem_map]; exact ⟨x, hx, rfl⟩)
    simp [this]
  | arr l =>
    simp only [Vis.map]
    congr 1
    conv => rhs; rw [← List.map_id l]
    apply List.map_congr_left
    intro x hx
    simpa using h x hx

theorem visBody_leaf {d : Doc} {b : Body} (h : leafBody b = true) (d' : Doc) (ρ : Ticket → Ticket) :
    visBody d' b = (visBody d b).map ρ := by
  cases b <;> simp [leafBody] at h <;> rfl

/-- children of the visible normal form are referenced by the body -/
theorem vis_children_ref {d : Doc} {t c : Ticket} {e : Elem} (hd : d t = some e) (h : c ∈ (vis d t).children) :
    (∃ keys m k mm, e.body = .obj keys m ∧ m k = some mm ∧ mm.child = c) ∨
    (∃ nodes mv n, e.body = .arr nodes mv ∧ n ∈ nodes ∧ n.elem = some c) := by
  simp only [vis, hd] at h
  cases hb : e.body <;> simp only [hb, visBody, Vis.children, List.mem_map, List.mem_filterMap, List.not_mem_nil] at h
  · obtain ⟨x, ⟨k, _, hk⟩, rfl⟩ := h
    obtain ⟨_, _, mm, hmm, hc⟩ := objEntry_some hk
    exact Or.inl ⟨_, _, k, mm, rfl, hmm, hc⟩
  · obtain ⟨n, hn, hk⟩ := h
    exact Or.inr ⟨_, _, n, rfl, hn, (arrEntry_some hk).1⟩


/-- hypotheses on the array `p` and its live leaf element `u` -/
structure ArrDel (h : Hist) (p u : Ticket) (pe ue : Elem) (nodes : List PosNode) (moved : Ticket → Option Ticket) :
    Prop where
  hd : h.doc p = some pe
  /-- the array is not a tombstone -/
  hpr : pe.removed = false
  hb : pe.body = .arr nodes moved
  hu : h.doc u = some ue
  hur : ue.removed = false
  hul : leafBody ue.body = true
  hheld : holds nodes u = true
  /-- exactly one node holds `u` -/
  huniq : ∀ a ∈ nodes, ∀ b ∈ nodes, a.elem = some u → b.elem = some u → a = b
  /-- position identities are distinct, not the head, and not later than the clock -/
  hpos : nodes.Pairwise (fun a b => a.pos ≠ b.pos)
  hhead : ∀ n ∈ nodes, n.pos ≠ headId
  hposL : ∀ n ∈ nodes, n.pos.lamport ≤ h.lamport

theorem undo_one_add {h : Hist} {p pv ts0 : Ticket} {cv : UVal} {rest : List (List UOp)} {d' : Doc} {q : UOp}
    (hu : h.undo = [.add p pv cv ts0] :: rest)
    (he : uexecute h.doc noTw .undoRedo (.add p pv (cv.reid h.next) h.next) = .ok (d', some q)) :
    (undo h).doc = d' := by
  unfold Hist.next at he
  simp only [undo, undoRedo_eq, hu, if_true, List.isEmpty_cons, Bool.false_eq_true, if_false, reticket_single,
    Hist.reconcile_eq, runOps_cons, runOps_nil, he, List.nil_append, Option.toList_some, List.reverse_cons,
    List.reverse_nil]

theorem undo_do_array_delete_lemma {h : Hist} {p u : Ticket} {pe ue : Elem} {nodes : List PosNode}
    {moved : Ticket → Option Ticket} (fr : Fresh h) (a : ArrDel h p u pe ue nodes moved) (fuel : Nat) :
    marshal (undo (doChange h [.remove p u h.next])).doc fuel rootId = marshal h.doc fuel rootId := by
  obtain ⟨H, w⟩ := fr.wf
  obtain ⟨hd, hpr, hb, hu, hur, hul, hheld, huniq, hpos, hhead, hposL⟩ := a
  have bd := fr.bd
  -- where `u` sits
  obtain ⟨r, hr⟩ := prefixBefore_isSome u nodes [] hheld
  obtain ⟨pre, nu, C, hnodes, hrr, hnu, hpre⟩ := prefixBefore_split u nodes [] r hr
  simp only [List.append_nil] at hrr
  have hnumem : nu ∈ nodes := by rw [hnodes]; simp
  have hparu : H.par u = some p := w.arrMem _ _ _ _ _ _ hd hpr hb hnumem hnu
  have hupar : ue.parent = some p := (w.par _ _ hu).trans hparu
  have hpu : p ≠ u := by intro hx; subst hx; rw [hd] at hu; injection hu with hu; subst hu; simp [hb, leafBody] at hul
  -- the forward removal
  have he1 : uexecute h.doc noTw .loc (.remove p u h.next) =
      .ok (kill h.doc (some u), some (.add p (prevLive h.doc pre.reverse)
        { id := u, removed := false, body := ue.body, sub := [] } h.next)) := by
    have hcont : isContainer h.doc p = true := by simp [isContainer, hd, hb]
    have hfp : findPrev h.doc nodes u = some (prevLive h.doc pre.reverse) := by simp [findPrev, hr, hrr]
    have hchild : isChildOf h.doc u p = true := by simp [isChildOf, hu, hupar]
    have hk : markRemoved h.doc u h.next = kill h.doc (some u) :=
      markRemoved_eq_kill (fun e he => after_of_lamport (by have := bd.ent _ _ he; simp only [Hist.next]; omega))
    simp only [uexecute, hcont, Bool.not_true, Bool.false_eq_true, if_false, Source.needsReverse, if_true,
      reverseRemove, capture_leaf hu hul, hd, hb, hfp, applyRemove, hchild, hheld, Bool.and_self, hk, hur,
      show (Source.loc = Source.undoRedo) = False from by simp, decide_false, Bool.false_and]
    rfl
  rw [doChange_one (by rfl) he1]
  -- the undo re-inserts a copy under the identity `t'`
  generalize ht' : (⟨h.lamport + 1 + 1, 1, h.actor⟩ : Ticket) = t'
  have ht'l : t'.lamport = h.lamport + 2 := by rw [← ht']; simp only []; omega
  have hfresh' : ∀ e, h.doc t' ≠ some e := fun e he => by have := bd.ent _ _ he; omega
  have hd1p : kill h.doc (some u) p = some pe := by
    have : ¬ u = p := fun hx => hpu hx.symm
    simp [kill, this, hd]
  -- liveness after the undo
  let d2 : Doc := ((kill h.doc (some u)).set t' ⟨some p, false, ue.body⟩)
  have hlive2 : ∀ nodes2 c, live (d2.set p { pe with body := .arr nodes2 moved }) c =
      if c = t' then true else if c = u then false else live h.doc c := by
    intro nodes2 c
    have htp : ¬ t' = p := fun hx => hfresh' pe (hx ▸ hd)
    unfold live
    simp only [d2, set_apply]
    by_cases h1 : c = t'
    · subst h1; simp [htp]
    · by_cases h2 : c = p
      · subst h2
        have : ¬ c = u := hpu
        simp [h1, this, hd]
      · simp only [h1, h2, if_false]
        by_cases h3 : c = u
        · subst h3; simp [kill, hu]
        · have : ¬ u = c := fun hx => h3 hx.symm
          simp [kill, this, h3]
  -- the list after re-insertion
  have hnuu : arrEntry h.doc nu = some u := by simp [arrEntry, hnu, live_some hu, hur]
  have hother : ∀ n ∈ nodes, n ≠ nu → n.elem ≠ some u := fun n hn hne hx => hne (huniq n hn nu hnumem hx hnu)
  have hlist : ∀ g2 : PosNode → Option Ticket,
      (∀ n ∈ nodes, n ≠ nu → g2 n = arrEntry h.doc n) → g2 nu = none → g2 ⟨t', some t'⟩ = some t' →
      ∃ nodes2, insertAfter (prevLive h.doc pre.reverse) ⟨t', some t'⟩ nodes = some nodes2 ∧
        nodes2.filterMap g2 = (nodes.filterMap (arrEntry h.doc)).map (fun c => if c = u then t' else c) := by
    intro g2 h1 h2 h3
    rw [hnodes]
    apply reinsert_list (L := h.lamport) hnu hnuu (hnodes ▸ hpos) (hnodes ▸ hhead) (hnodes ▸ hposL) (by omega) _ h2 h3
    intro n hn hne
    refine ⟨h1 n (hnodes ▸ hn) hne, ?_⟩
    intro c hc hcu
    subst hcu
    exact hother n (hnodes ▸ hn) hne (arrEntry_some hc).1
  let g2 : PosNode → Option Ticket := fun n =>
    match n.elem with
    | some c => if (if c = t' then true else if c = u then false else live h.doc c) = true then some c else none
    | none => none
  have hg2 : ∀ nodes2, arrEntry (d2.set p { pe with body := .arr nodes2 moved }) = g2 := by
    intro nodes2; funext n
    cases hc : n.elem with
    | none => simp [arrEntry, g2, hc]
    | some c => simp [arrEntry, g2, hc, hlive2]
  obtain ⟨nodes2, hins, hfm⟩ := hlist g2
    (by
      intro n hn hne
      simp only [g2, arrEntry]
      cases hc : n.elem with
      | none => rfl
      | some c =>
        have h1 : c ≠ u := fun hx => hother n hn hne (hx ▸ hc)
        have h2 : c ≠ t' := fun hx => by have := bd.elem _ _ _ _ _ _ hd hb hn hc; rw [hx] at this; omega
        simp [h1, h2])
    (by
      have : ¬ u = t' := fun hx => hfresh' ue (hx ▸ hu)
      simp [g2, hnu, this])
    (by simp [g2])
  have he2 : uexecute (kill h.doc (some u)) noTw .undoRedo
      (.add p (prevLive h.doc pre.reverse) (UVal.reid { id := u, removed := false, body := ue.body, sub := [] } t') t') =
      .ok (d2.set p { pe with body := .arr nodes2 moved }, some (.remove p t' t')) := by
    have happ : applyAddU (kill h.doc (some u)) p (prevLive h.doc pre.reverse)
        (UVal.reid { id := u, removed := false, body := ue.body, sub := [] } t') t' =
        .ok (d2.set p { pe with body := .arr nodes2 moved }) := by
      unfold applyAddU
      simp only [hd1p, hb, arrAdd, hins, Option.map_some]
      rw [instantiate_leaf _ _ _ _ (by simpa [UVal.reid] using hul)]
      rfl
    simp only [uexecute, UVal.reid, ne_eq, not_true_eq_false, if_false]
    simp only [UVal.reid] at happ
    rw [happ]
    rfl
  rw [undo_one_add (cv := { id := u, removed := false, body := ue.body, sub := [] }) (push_eq _ _)
    (by rw [← ht'] at he2; exact he2)]
  -- printing up to the renaming u ↦ t'
  have hroot : rootId ≠ u := by
    intro hx
    obtain ⟨e, he, hl, _⟩ := skel_some.1 fr.root
    rw [hx, hu] at he; injection he with he; subst he; rw [hul] at hl; cases hl
  have key := marshal_rename (d1 := h.doc) (d2 := d2.set p { pe with body := .arr nodes2 moved })
    (fun c => if c = u then t' else c) rootId ?_ fuel rootId (Or.inr rfl)
  · rw [key]; simp [hroot]
  · intro a ha
    have htp : ¬ t' = p := fun hx => hfresh' pe (hx ▸ hd)
    by_cases h1 : a = u
    · subst h1
      simp only [if_true, vis, set_apply, htp, if_false, d2, hu]
      exact visBody_leaf hul _ _
    · simp only [h1, if_false]
      have hat' : a ≠ t' := by
        intro hx; subst hx
        rcases ha with ha | ha
        · obtain ⟨e, he, _⟩ := live_elem ha; exact hfresh' e he
        · obtain ⟨e, he, _⟩ := skel_some.1 fr.root; exact hfresh' e (ha ▸ he)
      by_cases h2 : a = p
      · subst h2
        simp only [vis, set_apply, if_true, hd, hb, visBody, Vis.map, hg2, hfm]
      · have hda : (d2.set p { pe with body := .arr nodes2 moved }) a = h.doc a := by
          have : ¬ u = a := fun hx => h1 hx.symm
          simp [d2, set_apply, h2, hat', kill, this]
        cases hdoc : h.doc a with
        | none => simp [vis, hda, hdoc, Vis.map]
        | some e =>
          have her : e.removed = false := by
            have hla : live h.doc a = true := by
              rcases ha with ha | ha
              · exact ha
              · exact ha ▸ live_of_skel fr.root
            rw [live_some hdoc] at hla; simpa using hla
          have hch : ∀ c ∈ (vis h.doc a).children, c ≠ u ∧ c ≠ t' := by
            intro c hc
            rcases vis_children_ref hdoc hc with ⟨keys, m, k, mm, hbe, hmm, rfl⟩ | ⟨ns, mv, n, hbe, hn, hne⟩
            · constructor
              · intro hx
                have := (w.objMem _ _ _ _ _ _ hdoc her hbe hmm).2.2
                rw [hx, hparu] at this; injection this with this; exact h2 this.symm
              · intro hx
                have := bd.child _ _ _ _ _ _ hdoc hbe hmm; rw [hx] at this; omega
            · constructor
              · intro hx
                have := w.arrMem _ _ _ _ _ _ hdoc her hbe hn hne
                rw [hx, hparu] at this; injection this with this; exact h2 this.symm
              · intro hx
                have := bd.elem _ _ _ _ _ _ hdoc hbe hn hne; rw [hx] at this; omega
          rw [Vis.map_fix (fun c hc => by simp [(hch c hc).1])]
          simp only [vis, hda, hdoc]
          apply visBody_congr
          · intro keys m k mm hbe hmm
            rw [hlive2]
            have hc1 : mm.child ≠ u := by
              intro hx
              have := (w.objMem _ _ _ _ _ _ hdoc her hbe hmm).2.2
              rw [hx, hparu] at this; injection this with this; exact h2 this.symm
            have hc2 : mm.child ≠ t' := by
              intro hx
              have := bd.child _ _ _ _ _ _ hdoc hbe hmm; rw [hx] at this; omega
            simp [hc1, hc2]
          · intro ns mv n c hbe hn hne
            rw [hlive2]
            have hc1 : c ≠ u := by
              intro hx
              have := w.arrMem _ _ _ _ _ _ hdoc her hbe hn hne
              rw [hx, hparu] at this; injection this with this; exact h2 this.symm
            have hc2 : c ≠ t' := by
              intro hx
              have := bd.elem _ _ _ _ _ _ hdoc hbe hn hne; rw [hx] at this; omega
            simp [hc1, hc2]

end Yorkie.Undo
