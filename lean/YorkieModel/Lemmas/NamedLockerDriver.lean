/- The macro steps of the driver engine `locker` (Driver/LockerEngine.lean) are sequences of steps
   of Model/NamedLocker.lean. Core Lean only. -/
import YorkieModel.Lemmas.NamedLocker
import YorkieModel.Driver.LockerEngine
namespace Yorkie.NamedLocker
open Yorkie.Driver

theorem grant_reach (st : LockerEngine.St) (sess : Nat) : Reach Variant.ofTree st.s (LockerEngine.grant st sess).s := by
  unfold LockerEngine.grant
  split
  · exact .init
  · rename_i s' r h; exact .step .init h

theorem foldl_grant_reach (l : List Nat) : ∀ st : LockerEngine.St, Reach Variant.ofTree st.s (l.foldl LockerEngine.grant st).s := by
  induction l with
  | nil => intro st; exact .init
  | cons a t ih => intro st; exact reach_trans (grant_reach st a) (ih _)

theorem grantReaders_reach (st : LockerEngine.St) (o : Nat) (excl : Bool) :
    Reach Variant.ofTree st.s (LockerEngine.grantReaders st o excl).s := by
  unfold LockerEngine.grantReaders
  exact foldl_grant_reach _ st

theorem grantWriter_reach (st : LockerEngine.St) (o : Nat) :
    Reach Variant.ofTree st.s (LockerEngine.grantWriter st o).s := by
  unfold LockerEngine.grantWriter
  split
  · split
    · exact grant_reach _ _
    · exact .init
  · exact .init

theorem settle_reach (st : LockerEngine.St) (o : Nat) (excl : Bool) :
    Reach Variant.ofTree st.s (LockerEngine.settle st o excl).s :=
  reach_trans (grantReaders_reach st o excl) (grantWriter_reach _ o)

theorem opTry_reach (st : LockerEngine.St) (g sess k : Nat) :
    Reach Variant.ofTree st.s (LockerEngine.opTry st g sess k).1.s := by
  unfold LockerEngine.opTry
  split
  · rename_i h; exact .step .init h
  · rename_i h
    split
    · rename_i h2; exact .step (.step .init h) h2
    · exact .step .init h
  · exact .init

theorem opAcquire_reach (st : LockerEngine.St) (g sess k : Nat) (w : Bool) :
    Reach Variant.ofTree st.s (LockerEngine.opAcquire st g sess k w).1.s := by
  unfold LockerEngine.opAcquire
  split
  · split
    · rename_i h; exact .step .init h
    · exact .init
  · exact .init

theorem opStart_reach (st : LockerEngine.St) (g : Nat) (o : String) (k : Nat) :
    Reach Variant.ofTree st.s (LockerEngine.opStart st g o k).1.s := by
  unfold LockerEngine.opStart
  simp only
  split
  · exact .init
  · rename_i s1 r h
    refine reach_trans (.step .init h) ?_
    split
    · exact opTry_reach { st with s := s1, nextSess := st.nextSess + 1 } _ _ _
    · exact opAcquire_reach { st with s := s1, nextSess := st.nextSess + 1 } _ _ _ _

theorem opRelease_reach (st : LockerEngine.St) (g k : Nat) (w : Bool) (h : Bool × Nat × Nat) :
    Reach Variant.ofTree st.s (LockerEngine.opRelease st g k w h).1.s := by
  unfold LockerEngine.opRelease
  simp only
  split
  · exact .init
  · rename_i s1 r hs
    exact reach_trans (.step .init hs)
      (settle_reach (LockerEngine.setG { st with s := s1 } g (fun x => { x with held := LockerEngine.dropHeld w k x.held })) _ _)

theorem op_reach (st : LockerEngine.St) (g : Nat) (o : String) (k : Nat) :
    Reach Variant.ofTree st.s (LockerEngine.op st g o k).1.s := by
  unfold LockerEngine.op
  simp only
  split
  · exact .init
  · split
    · split
      · exact .init
      · exact opStart_reach _ _ _ _
    · split
      · split
        · exact .init
        · exact opRelease_reach _ _ _ _ _
      · exact .init

end Yorkie.NamedLocker
