/- The table-backed heap of `Model/CrdtTable.lean` computes exactly `Crdt.execute`. -/
import YorkieModel.Model.CrdtTable
namespace Yorkie.CrdtTable
open Yorkie Yorkie.Crdt

theorem get_set (tb : Table) (t u : Ticket) (e : Elem) :
    (tb.set t e).get? u = if u = t then some e else tb.get? u := by
  induction tb with
  | nil => simp [Table.set, Table.get?]
  | cons p r ih =>
    obtain ⟨k, x⟩ := p
    by_cases h : t = k
    · subst h
      by_cases hu : u = t <;> simp [Table.set, Table.get?, hu]
    · by_cases hu : u = k
      · subst hu
        have : ¬ u = t := fun h' => h h'.symm
        simp [Table.set, Table.get?, h, this]
      · simp [Table.set, Table.get?, h, hu, ih]

theorem get_erase (tb : Table) (t u : Ticket) :
    (tb.erase t).get? u = if u = t then none else tb.get? u := by
  induction tb with
  | nil => simp [Table.erase, Table.get?]
  | cons p r ih =>
    obtain ⟨k, x⟩ := p
    by_cases h : t = k
    · subst h
      by_cases hu : u = t
      · subst hu; simp [Table.erase, ih]
      · simp [Table.erase, Table.get?, hu, ih]
    · by_cases hu : u = k
      · subst hu
        have : ¬ u = t := fun h' => h h'.symm
        simp [Table.erase, Table.get?, h, this]
      · simp [Table.erase, Table.get?, h, hu, ih]

theorem sync_get (d' : Doc) (tb : Table) (t u : Ticket) :
    (sync d' tb t).get? u = if u = t then d' t else tb.get? u := by
  unfold sync
  split
  · rename_i e he
    rw [get_set]; split <;> simp_all
  · rename_i he
    rw [get_erase]; split <;> simp_all

theorem foldl_sync_get (d' : Doc) (ts : List Ticket) (tb : Table) (u : Ticket) :
    (ts.foldl (sync d') tb).get? u = if u ∈ ts then d' u else tb.get? u := by
  induction ts generalizing tb with
  | nil => simp
  | cons t r ih =>
    rw [List.foldl_cons, ih, sync_get]
    by_cases h1 : u ∈ r
    · simp [h1]
    · by_cases h2 : u = t
      · subst h2; simp [h1]
      · simp [h1, h2]

theorem markRemoved_frame (d : Doc) (target ts u : Ticket) (h : u ≠ target) :
    markRemoved d target ts u = d u := by
  unfold markRemoved
  cases hd : d target with
  | none => rfl
  | some e =>
    simp only
    split
    · simp [Doc.set, h]
    · rfl

/-- `Crdt.execute` writes only the cells listed by `touched` -/
theorem execute_frame (d d' : Doc) (op : Op) (h : execute d op = .ok d') (u : Ticket)
    (hu : u ∉ touched d op) : d' u = d u := by
  cases op with
  | set p k v t =>
    simp only [touched, List.mem_cons, not_or] at hu
    obtain ⟨h1, h2, h3⟩ := hu
    simp only [execute, applySet] at h
    split at h
    · rename_i pe hpe
      split at h
      · rename_i keys member hb
        split at h
        · injection h with h; subst h; simp [Doc.set, h1, h2]
        · rename_i m hm
          have hocc : u ≠ m.child := by
            intro hc
            apply h3
            simp [occupant, hpe, hb, hm, hc]
          split at h
          · injection h with h; subst h
            simp [Doc.set, h1, h2, markRemoved_frame d m.child t u hocc]
          · injection h with h; subst h; simp [Doc.set, h1]
      · cases h
    · cases h
  | add p prev v t =>
    simp only [touched, List.mem_cons, List.not_mem_nil, not_or] at hu
    obtain ⟨h1, h2, _⟩ := hu
    simp only [execute, applyAdd] at h
    split at h
    · split at h
      · split at h
        · injection h with h; subst h; simp [Doc.set, h1, h2]
        · cases h
      · cases h
    · cases h
  | move p prev target t =>
    simp only [touched, List.mem_cons, List.not_mem_nil, not_or] at hu
    obtain ⟨h1, _⟩ := hu
    simp only [execute, applyMove] at h
    split at h
    · split at h
      · split at h
        · cases h
        · split at h
          · injection h with h; subst h; simp [Doc.set, h1]
          · cases h
      · cases h
    · cases h
  | remove p target t =>
    simp only [touched, List.mem_cons, List.not_mem_nil, not_or] at hu
    obtain ⟨h1, _⟩ := hu
    simp only [execute, applyRemove] at h
    split at h
    · split at h
      · split at h
        · injection h with h; subst h; exact markRemoved_frame d target t u h1
        · cases h
      · split at h
        · injection h with h; subst h; exact markRemoved_frame d target t u h1
        · cases h
      · cases h
    · cases h
  | arraySet p target v t =>
    simp only [touched, List.mem_cons, List.not_mem_nil, not_or] at hu
    obtain ⟨h1, h2, h3, _⟩ := hu
    simp only [execute, applyArraySet] at h
    split at h
    · split at h
      · split at h
        · cases h
        · split at h
          · injection h with h; subst h
            rw [markRemoved_frame _ target t u h3]; simp [Doc.set, h1, h2]
          · cases h
      · cases h
    · cases h
  | increase p delta t =>
    simp only [touched, List.mem_cons, List.not_mem_nil, not_or] at hu
    obtain ⟨h1, _⟩ := hu
    simp only [execute, applyIncrease] at h
    split at h
    · split at h
      · injection h with h; subst h; simp [Doc.set, h1]
      · cases h
    · cases h

/-- the table after a step is the heap `Crdt.execute` returns -/
theorem step_lookup (tb tb' : Table) (op : Op) (h : step tb op = .ok tb') :
    ∃ d', execute tb.doc op = .ok d' ∧ ∀ u, tb'.doc u = d' u := by
  unfold step at h
  split at h
  · rename_i d' hd
    injection h with h; subst h
    refine ⟨d', hd, fun u => ?_⟩
    show (List.foldl (sync d') tb (touched tb.doc op)).get? u = d' u
    rw [foldl_sync_get]
    split
    · rfl
    · rename_i hn
      exact (execute_frame tb.doc d' op hd u hn).symm
  · cases h

/-- a failing operation fails on the table exactly when it fails on the heap -/
theorem step_error (tb : Table) (op : Op) (e : Err) : step tb op = .error e ↔ execute tb.doc op = .error e := by
  unfold step
  split <;> simp_all

theorem init_doc (u : Ticket) : Table.init.doc u = Doc.init u := by
  simp [Table.init, Table.doc, Table.get?, Doc.init]

end Yorkie.CrdtTable
